"""C01 — signal containers keep their shape/noise contract; operands are never touched.

Correspondence: random expression programs are evaluated on the real `electrical_signal` / `optical_signal`
objects and by the compiled Lean model `Model/Container.lean` (`container.eval`); canonical outputs must be equal
character by character (data are integers / Gaussian integers, so both sides are exact).
Oracle: the statement's laws evaluated at every node of the program on the real operand / result objects with
exact integer arithmetic (plain (signal, noise) array pairs), plus runtime monitors (operands unchanged bit for
bit, write-protected buffers, no shared memory) and the domain-transform clause.
"""
import math
import warnings

import numpy as np

from harness.common.wire import exc_enum, enc_opt_int
from harness.common.watchdog import time_limit, Timeout

ID = "C01"
MODELS = ["OptiVerif.Model.Container"]
MANIFEST = {
    "text": "Lean 4 theorems (Props/C01.lean) over an exact model of typing.py's containers whose operator tables (signal / noise "
            "expression of each of the four noise branches of + - rsub *, the rejection test, its exception, the broadcast_to wrapper) "
            "and n_pol defaults are re-translated from the source on every run: every successfully evaluated expression of ANY depth "
            "is well formed (non-empty rows, equal lengths, noise of exactly the signal's shape, n_pol = row count) and has the "
            "statically predicted class / polarisation count / length; every constructor form returns a well-formed object with the "
            "n_pol table's polarisation count; total field of a+b, a-b and reflected b-a = sum/difference of the operands' total fields "
            "with broadcast for all noise patterns; noise iff; acceptance iff equal lengths or length-1 right operand, rejection is "
            "ValueError; scalars broadcast; x[sl] holds exactly the samples at CPython's slice indices in every polarisation of signal "
            "and noise, accepted iff non-empty; x[i] iff -n<=i<n (IndexError otherwise); copy()=equal object; slice length formula, "
            "exactness and index range; domain transforms x('w'|'f'|'t', shift) compose with C02's Fourier model (payload = Fourier.call, "
            "result well formed, same class / n_pol / length / noise presence, dtype complex) and are a node of the expression language "
            "covered by eval_wf / eval_shape. Tie: translator + exact differential run of the compiled model against the real objects on random "
            "programs (depth <= 6 / 10), every constructor form and operand kind, all slice triples for n <= 7.",
    "note": "Trusted: Lean kernel, translator tools/extractors/container.py, harness, numpy/CPython semantics mirrored by the model "
            "(np.array, result_type on {int64,float64,complex128}, broadcasting, slice.indices). Monitored, not proved: operands "
            "bit-for-bit unchanged, no shared memory, domain transforms x('w')/x('t'). Axioms: propext, Classical.choice, Quot.sound.",
    "technique": "Lean 4 proof (structural induction over an expression language, list/Int arithmetic, AddCommGroup algebra) over a model "
                 "whose tables are regenerated from source + exact differential correspondence run + runtime monitors",
    "design": "§5 C01",
}
GEN = ["Container"]
RULE = ("case = program (leaf constructors + expression tree over + - * reflected/scalar forms, slices, int index, copy, "
        "domain transforms in ~30% of the programs) "
        "on one class/layout; non-trivial = program that evaluates successfully with >= 2 operations, distinct by "
        "(class, layout, length, operator multiset, noise pattern of leaves, dtype tags, final length)")
PARTIAL = [
    "operands bit-for-bit unchanged and result shares no memory with operands: runtime monitors on every node, not theorems",
    "domain transforms: class / n_pol / length / noise presence / contract are theorems (transform_wf, transform_shape, eval_wf, eval_shape, "
    "composed with C02's Fourier model); float rounding of the FFT values is outside any theorem (values compared at 1e-9*scale*N)",
    "`*` is held only to the shape contract (the code scales .signal and keeps/propagates .noise unscaled): DESIGN §7",
    "float rounding: data are integers / Gaussian integers with magnitudes < 2^45 so int64, float64 and complex128 arithmetic is exact",
]
ASSUMPTIONS = [
    "n_pol argument is None, 1 or 2 (the documented Literal[1, 2]); dtype argument is None, int, float or complex",
    "array dtypes are int64 / float64 / complex128 (np.result_type = maximum of the tags int < float < complex)",
    "strings are parsed by utils.str2array (property C19); the model receives the array the string denotes",
    "ndarray / numpy scalar as LEFT operand, mixed 1-pol/2-pol and mixed-class object pairs are outside the statement: "
    "correspondence only (DESIGN §7)",
    "`len1_object (+,-,*) lenN_object` with the length-1 object on the LEFT is rejected by the code (only `other` broadcasts); "
    "accepted reading of the statement (DESIGN §7)",
    "the driver evaluates the same Lean definitions the theorems are about (compiled by Lean's code generator)",
]
BUDGET = {"quick": 120, "thorough": 900}
EXHAUSTIVE = {"quick": False, "thorough": True}

TAGS = "ifc"
NPD = {"i": np.int64, "f": np.float64, "c": np.complex128}
PYT = {"i": int, "f": float, "c": complex}
MAXMAG = 1 << 45
# documented positional order of the anchored callables, as of /repo HEAD 8caea4c (literal on purpose: a re-ordered
# signature in the code under test must show up as a difference between the positional and the keyword call)
POSITIONAL = {
    "electrical_signal": ["signal", "noise", "dtype"],
    "optical_signal": ["signal", "noise", "n_pol", "dtype"],
    "copy": ["n"],
    "__call__": ["domain", "shift"],
    "w": ["shift"],
    "abs": ["by"],
    "power": ["by"],
}
BINOPS = ("add", "sub", "mul")
RAWOPS = ("addR", "raddR", "subR", "rsubR", "mulR", "rmulR")


# ------------------------------------------------------------------------------------------------
# raw operands / constructor arguments:  spec -> Python value, spec -> wire
# spec = {"form": pyscalar|npscalar|list|tuple|ndarray|str, "tag": i|f|c, "shape": s|v|m|t, "vals": ...}
#   s: [re, im]    v: [[re, im], ...]    m: [[[re, im], ...], ...] (rows)   t: 3-D nested (never sent to the model)
# ------------------------------------------------------------------------------------------------

def _pv(tag, z):
    re, im = z
    if tag == "i":
        return int(re)
    if tag == "f":
        return float(re)
    return complex(re, im)


def _tok(tag, z):
    re, im = z
    if tag == "i":
        return str(re)
    if tag == "f":
        return f"{re}.0"
    return f"{re}{im:+d}j"


def _mkstr(tag, rows, sep):
    out = []
    for r in rows:
        toks = [_tok(tag, z) for z in r]
        out.append(sep.join(toks))
    s = "; ".join(out)
    if tag == "i" and all(c in "01,; \t" for c in s):
        s = "+" + s          # '1 0 1' alone would be read as a boolean word by str2array
    return s


def build_raw(spec):
    """the Python object a spec denotes (ndarrays are write-protected)"""
    form, tag, shape, vals = spec["form"], spec["tag"], spec["shape"], spec["vals"]
    if shape == "s":
        nest = _pv(tag, vals)
    elif shape == "v":
        nest = [_pv(tag, z) for z in vals]
    elif shape == "m":
        nest = [[_pv(tag, z) for z in r] for r in vals]
    else:
        nest = [[[_pv(tag, z) for z in r] for r in p] for p in vals]
    if form == "pyscalar":
        return nest
    if form == "npscalar":
        return NPD[tag](nest)
    if form == "list":
        return nest
    if form == "tuple":
        def tup(x):
            return tuple(tup(y) for y in x) if isinstance(x, list) else x
        return tup(nest)
    if form == "ndarray":
        a = np.array(nest, dtype=NPD[tag])
        a.flags.writeable = False
        return a
    if form == "str":
        rows = [vals] if shape == "v" else vals
        return _mkstr(tag, rows, spec.get("sep", " "))
    raise ValueError(form)


def enc_raw(spec):
    py = "1" if spec["form"] in ("pyscalar", "list", "tuple") else "0"
    tag, shape, vals = spec["tag"], spec["shape"], spec["vals"]

    def zs(r):
        return " ".join([str(len(r))] + [f"{a} {b}" for a, b in r])
    if shape == "s":
        body = f"s {vals[0]} {vals[1]}"
    elif shape == "v":
        body = "v " + zs(vals)
    else:
        body = "m " + " ".join([str(len(vals))] + [zs(r) for r in vals])
    return f"{py} {tag} {body}"


def enc_opt(x, f):
    return "none" if x is None else "some " + f(x)


def enc_expr(t):
    op = t[0]
    if op == "var":
        return f"var {t[1]}"
    if op == "mk":
        c = t[1]
        s = enc_raw(c["sig"])
        n = enc_opt(c["noise"], enc_raw)
        d = enc_opt(c["dtype"], str)
        if c["cls"] == "E":
            return f"mkE {s} {n} {d}"
        return f"mkO {s} {n} {enc_opt(c['npol'], str)} {d}"
    if op in BINOPS:
        return f"{op} {enc_expr(t[1])} {enc_expr(t[2])}"
    if op in RAWOPS:
        return f"{op} {enc_expr(t[1])} {enc_raw(t[2])}"
    if op == "idx":
        return f"idx {enc_expr(t[1])} {t[2]}"
    if op == "slice":
        return f"slice {enc_expr(t[1])} {enc_opt_int(t[2])} {enc_opt_int(t[3])} {enc_opt_int(t[4])}"
    if op == "copy":
        return f"copy {enc_expr(t[1])} {enc_opt_int(t[2])}"
    if op == "transform":
        return f"transform {enc_expr(t[1])} {t[2]} {1 if t[3] else 0}"
    raise ValueError(op)


def has_transform(t):
    op = t[0]
    if op == "transform":
        return True
    if op in ("var", "mk"):
        return False
    if op in BINOPS:
        return has_transform(t[1]) or has_transform(t[2])
    return has_transform(t[1])


def modelable(t):
    """3-D raw data cannot be sent to the model"""
    op = t[0]
    if op == "var":
        return True
    if op == "mk":
        c = t[1]
        return c["sig"]["shape"] != "t" and (c["noise"] is None or c["noise"]["shape"] != "t")
    if op in BINOPS:
        return modelable(t[1]) and modelable(t[2])
    if op in RAWOPS:
        return modelable(t[1]) and t[2]["shape"] != "t"
    return modelable(t[1])


# ------------------------------------------------------------------------------------------------
# exact snapshots of real objects
# ------------------------------------------------------------------------------------------------

def _gi(v):
    """exact Gaussian integer when the sample is one (always, before the first domain transform), else floats"""
    z = complex(v)
    if not (math.isfinite(z.real) and math.isfinite(z.imag)):
        return (float(z.real), float(z.imag))     # NaN / inf: kept as floats (never equal to anything, see `differs`)
    re, im = int(z.real), int(z.imag)
    if re != z.real or im != z.imag:
        return (z.real, z.imag)
    return (re, im)


def _exact(rows):
    return all(isinstance(c, int) for r in rows for z in r for c in z)


def differs(a, b):
    """row sets differ: exactly when both are integer-valued, else beyond 1e-9 of their magnitude (float samples
    appear only downstream of a domain transform)"""
    if a is None or b is None:
        return (a is None) != (b is None)
    if len(a) != len(b) or any(len(x) != len(y) for x, y in zip(a, b)):
        return True
    if _exact(a) and _exact(b):
        return a != b
    comps = [c for rows in (a, b) for r in rows for z in r for c in z]
    if not all(math.isfinite(c) for c in comps):
        return True          # a NaN / inf sample is different from every expected value (also from another NaN)
    scale = max([1.0] + [abs(c) for c in comps])
    tol = 1e-9 * scale
    return not all(abs(p[0] - q[0]) <= tol and abs(p[1] - q[1]) <= tol for x, y in zip(a, b) for p, q in zip(x, y))


def nonfinite(x):
    """number of NaN / inf samples in the arrays of an object or in an ndarray"""
    k = 0
    for a in _arrays(x):
        if a.dtype.kind in "fc":
            k += int(a.size - np.count_nonzero(np.isfinite(a)))
    return k


def _rows(a):
    if a.ndim == 1:
        return [[_gi(v) for v in a.tolist()]]
    if a.ndim == 2:
        return [[_gi(v) for v in r] for r in a.tolist()]
    raise ArithmeticError(f"ndim {a.ndim}")


def _tag(dt):
    return {"int64": "i", "float64": "f", "complex128": "c"}.get(str(dt), "?" + str(dt))


def snap(x):
    """(cls, npol, tag, signal rows, noise rows|None) with exact integers"""
    return (type(x).__name__, getattr(x, "n_pol", 1), _tag(x.signal.dtype), _rows(x.signal),
            None if x.noise is None else _rows(x.noise))


def canon(sn):
    cls, npol, tag, sig, noise = sn

    def fr(rows):
        return f"{len(rows)} " + " ".join(" ".join([str(len(r))] + [f"{a} {b}" for a, b in r]) for r in rows)
    c = {"electrical_signal": "E", "optical_signal": "O"}.get(cls, cls)
    return f"ok {c} {npol} {tag} {fr(sig)} " + ("nonoise" if noise is None else "noise " + fr(noise))


def contract(x, want_cls):
    """the container contract of the statement on a real object; list of complaints"""
    bad = []
    if type(x).__name__ != want_cls:
        bad.append(f"class {type(x).__name__} instead of {want_cls}")
    s = getattr(x, "signal", None)
    if not isinstance(s, np.ndarray):
        return bad + [f"signal is {type(s).__name__}"]
    if want_cls == "electrical_signal":
        if s.ndim != 1:
            bad.append(f"electrical signal of shape {s.shape}")
    else:
        if not (s.ndim == 1 or (s.ndim == 2 and s.shape[0] == 2)):
            bad.append(f"optical signal of shape {s.shape}")
        npol = getattr(x, "n_pol", None)
        if npol != (2 if s.ndim == 2 else 1):
            bad.append(f"n_pol={npol!r} with signal shape {s.shape}")
    if s.size < 1:
        bad.append(f"empty signal, shape {s.shape}")
    n = x.noise
    if n is not None:
        if not isinstance(n, np.ndarray):
            bad.append(f"noise is {type(n).__name__}")
        elif n.shape != s.shape:
            bad.append(f"noise shape {n.shape} != signal shape {s.shape}")
    try:
        if len(x) != s.shape[-1] or x.len() != s.shape[-1]:
            bad.append(f"len()={len(x)} but {s.shape[-1]} samples per polarisation")
    except Exception as e:  # noqa
        bad.append(f"len() raised {e!r}")
    return bad


def _arrays(x):
    out = []
    if isinstance(x, np.ndarray):
        out.append(x)
    elif hasattr(x, "signal"):
        if isinstance(x.signal, np.ndarray):
            out.append(x.signal)
        if isinstance(getattr(x, "noise", None), np.ndarray):
            out.append(x.noise)
    return out


def _bits(v):
    """bit-exact fingerprint of a returned value (object with signal/noise, ndarray, scalar)"""
    if isinstance(v, np.ndarray):
        return ("nd", str(v.dtype), v.shape, v.tobytes())
    if hasattr(v, "signal"):
        return ("obj", type(v).__name__, getattr(v, "n_pol", None), _bits(v.signal),
                None if getattr(v, "noise", None) is None else _bits(v.noise))
    if isinstance(v, (np.generic,)):
        return ("np", str(v.dtype), v.tobytes())
    return ("py", type(v).__name__, repr(v))


def twin(pos_call, kw_call):
    """run the positional and the keyword form of one call; returns (same, description)"""
    out = []
    for f in (pos_call, kw_call):
        try:
            out.append(("ok", _bits(f())))
        except Timeout:
            raise
        except Exception as e:  # noqa
            out.append(("raise", type(e).__name__))
    if out[0] == out[1]:
        return True, ""
    d = []
    for tag, o in zip(("positional", "keyword"), out):
        d.append(f"{tag}: " + (f"raised {o[1]}" if o[0] == "raise" else f"returned {str(o[1][:3])[:80]}"))
    return False, "; ".join(d)


class Guard:
    """monitors (a) and (c) of DESIGN §2.5 around one call: operand buffers are write-protected and compared byte
    for byte afterwards; the result must not share memory with any operand"""

    def __init__(self, operands):
        self.ops = operands
        self.before = []
        self.flags = []

    def __enter__(self):
        for o in self.ops:
            for a in _arrays(o):
                self.before.append((a, a.tobytes(), a.shape, a.dtype))
                self.flags.append((a, a.flags.writeable))
                if a.flags.writeable:
                    a.flags.writeable = False
            if hasattr(o, "signal"):
                self.before.append((o, (id(o.signal), id(o.noise), getattr(o, "n_pol", None)), None, None))
        return self

    def __exit__(self, *exc):
        for a, w in self.flags:
            if w:
                try:
                    a.flags.writeable = True
                except ValueError:
                    pass
        return False

    def changed(self):
        out = []
        for a, b, shp, dt in self.before:
            if isinstance(a, np.ndarray):
                if a.tobytes() != b or a.shape != shp or a.dtype != dt:
                    out.append(f"operand array {shp}/{dt} was modified")
            else:
                if (id(a.signal), id(a.noise), getattr(a, "n_pol", None)) != b:
                    out.append("operand object had its signal/noise/n_pol attribute rebound")
        return out

    def shared(self, result):
        out = []
        for r in _arrays(result):
            for o in self.ops:
                for a in _arrays(o):
                    if np.shares_memory(r, a):
                        out.append(f"result array {r.shape} shares memory with an operand array {a.shape}")
        return out


# ------------------------------------------------------------------------------------------------
# the statement's laws on exact snapshots (independent of the Lean model)
# ------------------------------------------------------------------------------------------------

def _zadd(a, b):
    return (a[0] + b[0], a[1] + b[1])


def _zsub(a, b):
    return (a[0] - b[0], a[1] - b[1])


def total(sn):
    sig, noise = sn[3], sn[4]
    if noise is None:
        return sig
    return [[_zadd(s, n) for s, n in zip(rs, rn)] for rs, rn in zip(sig, noise)]


def _bcast(rows, nrows, n):
    """plain broadcasting of a noise-free/any row set to nrows x n (rows has 1 or nrows rows; each of length 1 or n)"""
    rows = [r * n if len(r) == 1 and n != 1 else r for r in rows]
    if len(rows) == 1 and nrows == 2:
        rows = [rows[0], rows[0]]
    return rows


def raw_as_rows(spec):
    """a non-object operand as a noise-free row set: (rows, ok) — ok False when the kind is outside the statement"""
    sh, vals = spec["shape"], spec["vals"]
    if sh == "s":
        return [[tuple(vals)]], True
    if sh == "v":
        return [[tuple(z) for z in vals]], len(vals) >= 1
    if sh == "m":
        rows = [[tuple(z) for z in r] for r in vals]
        ok = len(rows) == 2 and len(rows[0]) == len(rows[1]) >= 1
        return rows, ok
    return None, False


class Eval:
    """evaluates a program on the real classes, applying the laws at every node"""

    def __init__(self, E, O):
        self.E, self.O = E, O
        self.viol = []       # (sig, msg)
        self.feat = set()
        self.nodes = 0
        self.okops = 0

    def v(self, sig, msg):
        if len(self.viol) < 20:
            self.viol.append((sig, msg[:400]))

    def finite(self, r, operands, what):
        """finite operands give finite results (magnitudes are bounded by construction): a NaN / inf sample is neither
        the sum/difference of the operands' fields nor one of the selected samples"""
        try:
            k = nonfinite(r)
        except Exception:  # noqa
            return
        if k and not any(nonfinite(o) for o in operands if o is not None):
            self.v(f"C01:non-finite:{what}", f"{type(r).__name__} result of {what} holds {k} NaN/inf sample(s) although "
                   f"every operand is finite")

    # --- constructor -------------------------------------------------------------------------
    def ctor(self, c):
        cls = self.E if c["cls"] == "E" else self.O
        name = cls.__name__
        sraw = build_raw(c["sig"])
        nraw = None if c["noise"] is None else build_raw(c["noise"])
        kw = {}
        if c["dtype"] is not None:
            kw["dtype"] = PYT[c["dtype"]]
        if c["cls"] == "O" and (c["npol"] is not None or c.get("npol_kw")):
            kw["n_pol"] = c["npol"]
        self.feat.add(f"ctor:{c['cls']}:{c['sig']['form']}:{c['sig']['shape']}:npol={c['npol']}:"
                      f"noise={'-' if c['noise'] is None else c['noise']['form']}:dtype={c['dtype']}")
        exp = ctor_expect(c)
        g = Guard([sraw, nraw])
        vals = {"signal": sraw, "noise": nraw, "n_pol": c["npol"], "dtype": kw.get("dtype")}
        order = POSITIONAL[name]
        same, why = twin(lambda: cls(*[vals[k] for k in order]),
                         lambda: cls(signal=sraw, noise=nraw, **kw))
        if not same:
            self.v(f"C01:positional:{name}", f"{name}({', '.join(order)}) positionally != by keyword "
                   f"(signal {shape_of(c['sig'])}, noise={None if c['noise'] is None else shape_of(c['noise'])}, "
                   f"n_pol={c['npol']}, dtype={c['dtype']}): {why}")
        try:
            with g:
                x = cls(signal=sraw, noise=nraw, **kw)
        except Exception as e:  # noqa
            if exp is not None and exp != "skip":
                self.v(f"C01:ctor-rejects:{c['cls']}:{c['sig']['shape']}:npol={c['npol']}",
                       f"{name}({c['sig']['form']} {shape_of(c['sig'])}, noise={None if c['noise'] is None else shape_of(c['noise'])}, "
                       f"n_pol={c['npol']}, dtype={c['dtype']}) raised {e!r}")
            raise
        self.finite(x, [sraw if isinstance(sraw, np.ndarray) else None, nraw if isinstance(nraw, np.ndarray) else None],
                    f"ctor:{c['cls']}")
        if exp is None:
            self.v(f"C01:ctor-accepts-invalid:{c['cls']}",
                   f"{name}(signal {shape_of(c['sig'])}, noise {None if c['noise'] is None else shape_of(c['noise'])}) "
                   f"was accepted: signal {x.signal.shape}, noise {None if x.noise is None else x.noise.shape}")
            return x
        for m in contract(x, name):
            self.v(f"C01:ctor-contract:{c['cls']}", f"{name} from {c['sig']['form']} {shape_of(c['sig'])} n_pol={c['npol']}: {m}")
        for m in g.changed():
            self.v("C01:ctor-operand-modified", m)
        for m in g.shared(x):
            self.v("C01:ctor-shares-memory", f"{name}({c['sig']['form']}): {m}")
        if exp != "skip" and not contract(x, name):
            npol, rows, nrows = exp
            sn = snap(x)
            if c["cls"] == "O" and sn[1] != npol:
                self.v("C01:ctor-npol", f"n_pol={sn[1]}, expected {npol} for input {shape_of(c['sig'])} n_pol={c['npol']}")
            if differs(sn[3], rows):
                self.v(f"C01:ctor-samples:{c['cls']}:{c['sig']['shape']}:npol={c['npol']}",
                       f"signal rows {str(sn[3])[:120]} expected {str(rows)[:120]}")
            if (sn[4] is None) != (nrows is None):
                self.v("C01:ctor-noise-presence", f"noise given={c['noise'] is not None} but result noise is {'None' if sn[4] is None else 'present'}")
            elif nrows is not None and differs(sn[4], nrows):
                self.v(f"C01:ctor-noise-samples:{c['cls']}:{c['sig']['shape']}:npol={c['npol']}",
                       f"noise rows {str(sn[4])[:120]} expected {str(nrows)[:120]}")
        return x

    # --- operators ---------------------------------------------------------------------------
    def binary(self, op, a, b, braw=None, bspec=None, reflected=False):
        """a <op> b for objects, or a <op> raw / raw <op> a"""
        base = {"add": "add", "radd": "add", "sub": "sub", "rsub": "rsub", "mul": "mul", "rmul": "mul"}[
            op[:-1] if braw is not None else op]
        name = type(a).__name__
        other = braw if braw is not None else b
        g = Guard([a, other])
        sa = snap(a)
        demanded, lb, tb, nb_present = True, None, None, False
        if braw is None:
            sb = snap(b)
            same = type(a) is type(b) and len(sa[3]) == len(sb[3])
            if not same:
                demanded = False
                self.feat.add("mixed-objects")
            lb, tb, nb_present = len(sb[3][0]), total(sb), sb[4] is not None
            if a is b:
                self.feat.add("aliased-operands")
        else:
            rows, ok = raw_as_rows(bspec)
            if not ok or (bspec["shape"] == "m" and len(sa[3]) != 2):
                demanded = False
                self.feat.add("raw-operand-outside-statement")
            else:
                lb, tb = len(rows[0]), rows
            self.feat.add(f"operand:{bspec['form']}:{bspec['shape']}:{'left' if reflected else 'right'}")
        la = len(sa[3][0])
        self.feat.add(f"op:{op}")
        self.feat.add(f"noise:{'a' if sa[4] is not None else '-'}{'b' if nb_present else '-'}")
        try:
            with g:
                if base == "add":
                    r = (other + a) if reflected else (a + other)
                elif base == "sub":
                    r = a - other
                elif base == "rsub":
                    r = other - a
                else:
                    r = (other * a) if reflected else (a * other)
        except Exception as e:  # noqa
            for m in g.changed():
                self.v("C01:operand-modified", f"{op} (raised): {m}")
            if demanded:
                if la == lb or lb == 1:
                    self.v(f"C01:op-rejects:{op}:{name}:noise={'a' if sa[4] is not None else '-'}{'b' if nb_present else '-'}"
                           f":{'bcast' if la != lb else 'same'}",
                           f"{name} len {la} {op} operand len {lb} (noise self={sa[4] is not None}, other={nb_present}) raised {e!r}")
                elif not isinstance(e, ValueError):
                    self.v(f"C01:length-mismatch-not-ValueError:{op}", f"lengths {la} vs {lb}: raised {e!r}")
                else:
                    self.feat.add("rejected-length-mismatch")
            raise
        self.okops += 1
        self.finite(r, [a, other if braw is not None and isinstance(braw, np.ndarray) else b], op)
        if not demanded:
            return r
        if la != lb and lb != 1:
            if la == 1:
                self.feat.add("len1-left-accepted")     # DESIGN §7: not demanded either way
                return r
            self.v(f"C01:length-mismatch-accepted:{op}", f"{name} of length {la} {op} operand of length {lb} did not raise")
            return r
        bad = contract(r, name)
        for m in bad:
            self.v(f"C01:op-contract:{op}", f"{name} {op}: {m}")
        for m in g.changed():
            self.v("C01:operand-modified", f"{op}: {m}")
        for m in g.shared(r):
            self.v("C01:shares-memory", f"{op}: {m}")
        if bad:
            return r
        sr = snap(r)
        if len(sr[3]) != len(sa[3]):
            self.v(f"C01:op-npol:{op}", f"{len(sa[3])} polarisation(s) {op} -> {len(sr[3])}")
            return r
        if len(sr[3][0]) != la:
            self.v(f"C01:op-length:{op}", f"length {la} {op} length {lb} -> length {len(sr[3][0])}")
            return r
        if base != "mul":
            if (sr[4] is not None) != (sa[4] is not None or nb_present):
                self.v(f"C01:noise-iff:{op}", f"noise self={sa[4] is not None} other={nb_present} result={sr[4] is not None}")
            ta = total(sa)
            tbb = _bcast(tb, len(sa[3]), la)
            f = _zadd if base == "add" else (_zsub if base == "sub" else (lambda x, y: _zsub(y, x)))
            want = [[f(x, y) for x, y in zip(ra, rb)] for ra, rb in zip(ta, tbb)]
            if differs(total(sr), want):
                self.v(f"C01:total-field:{op}:noise={'a' if sa[4] is not None else '-'}{'b' if nb_present else '-'}"
                       f":{'bcast' if la != lb else 'same'}",
                       f"{name} {op}: total field {str(total(sr))[:150]} expected {str(want)[:150]}")
        return r

    def getitem(self, a, key, what):
        name = type(a).__name__
        sa = snap(a)
        n = len(sa[3][0])
        g = Guard([a])
        try:
            idx = list(range(n))[key] if isinstance(key, slice) else [range(n)[key]]
            perr = None
        except Exception as e:  # noqa
            idx, perr = None, e
        self.feat.add(f"{what}:{'empty' if idx == [] else 'err' if idx is None else 'ok'}")
        try:
            with g:
                r = a[key] if what != "copy" else a.copy(key)
        except Exception as e:  # noqa
            if idx:
                self.v(f"C01:{what}-rejects:{name}:npol={len(sa[3])}", f"{name}[{key}] on length {n} raised {e!r}")
            elif perr is not None and type(e) is not type(perr):
                self.v(f"C01:{what}-error-kind", f"{name}[{key}] on length {n} raised {e!r}, Python sequences raise {perr!r}")
            raise
        return self._after_getitem(a, sa, g, r, idx, f"{name}[{key}]" if what != "copy" else f"{name}.copy({key})", what)

    def copy(self, a, n):
        name = type(a).__name__
        sa = snap(a)
        L = len(sa[3][0])
        g = Guard([a])
        idx = list(range(L)) if n is None else list(range(L))[:n]
        self.feat.add(f"copy:{'empty' if idx == [] else 'ok'}:{'all' if n is None else 'n'}")
        if n is not None:
            same, why = twin(lambda: a.copy(n), lambda: a.copy(n=n))
            if not same:
                self.v("C01:positional:copy", f"{name}.copy({n}) != {name}.copy(n={n}): {why}")
        try:
            with g:
                r = a.copy() if n is None else a.copy(n)
        except Exception as e:  # noqa
            if idx:
                self.v(f"C01:copy-rejects:{name}", f"{name}.copy({n}) on length {L} raised {e!r}")
            raise
        return self._after_getitem(a, sa, g, r, idx, f"{name}.copy({n})", "copy")

    def _after_getitem(self, a, sa, g, r, idx, desc, what):
        name = type(a).__name__
        self.okops += 1
        self.finite(r, [a], what)
        if not idx:
            self.v(f"C01:{what}-empty-accepted", f"{desc} selects no sample but returned an object with signal shape "
                   f"{getattr(getattr(r, 'signal', None), 'shape', None)}")
            return r
        bad = contract(r, name)
        for m in bad:
            self.v(f"C01:{what}-contract:npol={len(sa[3])}", f"{desc}: {m}")
        for m in g.changed():
            self.v("C01:operand-modified", f"{desc}: {m}")
        for m in g.shared(r):
            self.v(f"C01:{what}-shares-memory", f"{desc}: {m}")
        if bad:
            return r
        sr = snap(r)
        if len(sr[3]) != len(sa[3]):
            self.v(f"C01:{what}-npol", f"{desc}: {len(sa[3])} polarisation(s) -> {len(sr[3])}")
            return r
        want = [[row[i] for i in idx] for row in sa[3]]
        if differs(sr[3], want):
            self.v(f"C01:{what}-samples:npol={len(sa[3])}", f"{desc}: signal {str(sr[3])[:150]} expected {str(want)[:150]}")
        if (sr[4] is None) != (sa[4] is None):
            self.v(f"C01:{what}-noise-presence", f"{desc}: noise {'lost' if sr[4] is None else 'appeared'}")
        elif sa[4] is not None:
            wn = [[row[i] for i in idx] for row in sa[4]]
            if differs(sr[4], wn):
                self.v(f"C01:{what}-noise-samples:npol={len(sa[3])}", f"{desc}: noise {str(sr[4])[:150]} expected {str(wn)[:150]}")
        return r

    def xform(self, a, dom, shift):
        """a(domain, shift) as a program node: same class / n_pol / shape / noise presence, contract, monitors.
        Sample values are C02's subject; here they are tied to the composed Lean model by the correspondence run."""
        name = type(a).__name__
        g = Guard([a])
        self.feat.add(f"op:transform:{dom}:{'shift' if shift else 'noshift'}")
        same, why = twin(lambda: a(dom, shift), lambda: a(domain=dom, shift=shift))
        if not same:
            self.v("C01:positional:__call__", f"{name}('{dom}', {shift}) != {name}(domain='{dom}', shift={shift}): {why}")
        try:
            with g:
                r = a(dom, shift)
        except Exception as e:  # noqa
            for m in g.changed():
                self.v("C01:transform-operand-modified", f"{name}('{dom}', {shift}) (raised): {m}")
            if dom in ("w", "f", "t"):
                self.v(f"C01:transform-raises:{dom}", f"{name}('{dom}', {shift}) raised {e!r}")
            raise
        self.okops += 1
        self.finite(r, [a], f"transform:{dom}")
        if dom not in ("w", "f", "t"):
            self.v("C01:transform-bad-domain-accepted", f"{name}('{dom}') did not raise")
            return r
        bad = contract(r, name)
        for m in bad:
            self.v(f"C01:transform-contract:{dom}", f"{name}('{dom}', {shift}): {m}")
        for m in g.changed():
            self.v("C01:transform-operand-modified", f"{name}('{dom}', {shift}): {m}")
        for m in g.shared(r):
            self.v("C01:transform-shares-memory", f"{name}('{dom}', {shift}): {m}")
        if bad:
            return r
        if r.signal.shape != a.signal.shape:
            self.v(f"C01:transform-shape:{dom}", f"{name}('{dom}', {shift}): shape {a.signal.shape} -> {r.signal.shape}")
        if (r.noise is None) != (a.noise is None):
            self.v(f"C01:transform-noise-presence:{dom}", f"{name}('{dom}', {shift}): noise {'lost' if r.noise is None else 'appeared'}")
        if getattr(r, "n_pol", 1) != getattr(a, "n_pol", 1):
            self.v(f"C01:transform-npol:{dom}", f"{name}('{dom}', {shift}): n_pol {getattr(a, 'n_pol', 1)} -> {getattr(r, 'n_pol', 1)}")
        return r

    def accessors(self, x):
        """positional twins of w(shift), abs(by), power(by) (documented order = POSITIONAL) on a result object"""
        name = type(x).__name__
        g = Guard([x])
        with g:
            for sh in (False, True):
                same, why = twin(lambda: x.w(sh), lambda: x.w(shift=sh))
                if not same:
                    self.v("C01:positional:w", f"{name}.w({sh}) != {name}.w(shift={sh}): {why}")
            for by in ("signal", "noise", "all"):
                for fn in ("abs", "power"):
                    f = getattr(x, fn)
                    same, why = twin(lambda: f(by), lambda: f(by=by))
                    if not same:
                        self.v(f"C01:positional:{fn}", f"{name}.{fn}('{by}') != {name}.{fn}(by='{by}'): {why}")
        for m in g.changed():
            self.v("C01:operand-modified", f"w/abs/power: {m}")
        self.feat.add("accessors")

    def transform(self, x):
        """domain-transform clause: x('w'), x('t') return the same class / n_pol / length / noise presence"""
        name = type(x).__name__
        for dom in ("w", "t", "f"):
            g = Guard([x])
            try:
                with g:
                    y = x(dom)
            except Exception as e:  # noqa
                self.v(f"C01:transform-raises:{dom}", f"{name}('{dom}') raised {e!r}")
                continue
            self.finite(y, [x], f"transform:{dom}")
            bad = contract(y, name)
            for m in bad:
                self.v(f"C01:transform-contract:{dom}", f"{name}('{dom}'): {m}")
            for m in g.changed():
                self.v("C01:transform-operand-modified", f"{name}('{dom}'): {m}")
            for m in g.shared(y):
                self.v("C01:transform-shares-memory", f"{name}('{dom}'): {m}")
            if bad:
                continue
            if y.signal.shape != x.signal.shape:
                self.v(f"C01:transform-shape:{dom}", f"{name}('{dom}'): shape {x.signal.shape} -> {y.signal.shape}")
            if (y.noise is None) != (x.noise is None):
                self.v(f"C01:transform-noise-presence:{dom}", f"{name}('{dom}'): noise {'lost' if y.noise is None else 'appeared'}")
            if getattr(y, "n_pol", 1) != getattr(x, "n_pol", 1):
                self.v(f"C01:transform-npol:{dom}", f"{name}('{dom}'): n_pol {getattr(x, 'n_pol', 1)} -> {getattr(y, 'n_pol', 1)}")
        self.feat.add("transform")

    # --- tree ----------------------------------------------------------------------------------
    def run(self, env, t):
        self.nodes += 1
        op = t[0]
        if op == "var":
            return env[t[1]]
        if op == "mk":
            return self.ctor(t[1])
        if op in BINOPS:
            a = self.run(env, t[1])
            b = self.run(env, t[2])
            return self.binary(op, a, b)
        if op in RAWOPS:
            spec = t[2]
            raw = build_raw(spec)
            a = self.run(env, t[1])
            return self.binary(op, a, None, braw=raw, bspec=spec, reflected=op.startswith("r"))
        a = self.run(env, t[1])
        if op == "idx":
            return self.getitem(a, t[2], "index")
        if op == "slice":
            return self.getitem(a, slice(t[2], t[3], t[4]), "slice")
        if op == "copy":
            return self.copy(a, t[2])
        if op == "transform":
            return self.xform(a, t[2], bool(t[3]))
        raise ValueError(op)


def shape_of(spec):
    sh, vals = spec["shape"], spec["vals"]
    if sh == "s":
        return "()"
    if sh == "v":
        return f"({len(vals)},)"
    if sh == "m":
        return "(" + ",".join([str(len(vals))] + sorted({str(len(r)) for r in vals})) + ")"
    return "3-D"


def ctor_expect(c):
    """what the statement requires of a constructor call: None = must be rejected (no valid container exists for
    this input), "skip" = nothing demanded, else (n_pol, signal rows, noise rows|None)"""
    s, n = c["sig"], c["noise"]

    def rows_of(spec):
        sh, vals = spec["shape"], spec["vals"]
        if sh == "s":
            return [[tuple(vals)]], ()
        if sh == "v":
            return [[tuple(z) for z in vals]], (len(vals),)
        if sh == "m":
            if len({len(r) for r in vals}) > 1:
                return None, "ragged"
            return [[tuple(z) for z in r] for r in vals], (len(vals), len(vals[0]) if vals else 0)
        return None, "3-D"
    rows, shp = rows_of(s)
    if rows is None:
        return None
    if n is not None:
        nrows, nshp = rows_of(n)
        if nrows is None or nshp != shp:
            return None
    else:
        nrows = None
    if any(len(r) == 0 for r in rows) or len(rows) == 0:
        return None
    dt = c["dtype"]
    if dt is not None:
        for spec in (s, n):
            if spec is not None and TAGS.index(spec["tag"]) > TAGS.index(dt) and spec["tag"] == "c":
                return "skip"       # complex data forced to a real dtype: values are not preserved; nothing demanded
    if c["cls"] == "E":
        if len(shp) > 1:
            return None
        return 1, rows, nrows
    if len(shp) == 2 and shp[0] > 2:
        return None
    npol = c["npol"] if c["npol"] is not None else (2 if len(shp) == 2 else 1)

    def norm(rs):
        if rs is None:
            return None
        if npol == 1:
            return [rs[0]]
        return [rs[0], rs[1]] if len(rs) == 2 else [rs[0], rs[0]]
    return npol, norm(rows), norm(nrows)


# ------------------------------------------------------------------------------------------------
# generators
# ------------------------------------------------------------------------------------------------

def _vals(rng, tag, n, lo=-9, hi=9):
    out = []
    for _ in range(n):
        re = rng.randint(lo, hi)
        im = rng.randint(lo, hi) if tag == "c" else 0
        out.append([re, im])
    return out


def gen_raw(rng, shape, n, tag=None, forms=None, nrows=2):
    """random raw spec of the given shape ('s', 'v' with n entries, 'm' with nrows x n)"""
    tag = tag or rng.choice(TAGS)
    if shape == "s":
        form = rng.choice(forms or ["pyscalar", "pyscalar", "npscalar", "ndarray"])
        return {"form": form, "tag": tag, "shape": "s", "vals": _vals(rng, tag, 1)[0]}
    form = rng.choice(forms or ["list", "tuple", "ndarray", "str"])
    if form == "str" and (n == 0 or (shape == "m" and nrows == 1)):
        form = "list"        # '1 2 3' without ';' is a 1-D word; the empty word is not a number list
    if shape == "v":
        spec = {"form": form, "tag": tag, "shape": "v", "vals": _vals(rng, tag, n)}
    else:
        spec = {"form": form, "tag": tag, "shape": "m", "vals": [_vals(rng, tag, n) for _ in range(nrows)]}
    if form == "str":
        spec["sep"] = rng.choice([" ", ",", ", ", "  "])
    return spec


def gen_leaf(rng, cls, layout, n, noise=None, lowdtype=False):
    """valid constructor call producing class `cls`, `layout` (1|2 rows), length n"""
    if noise is None:
        noise = rng.random() < 0.5
    npol = None
    if cls == "E":
        shape = "s" if (n == 1 and rng.random() < 0.4) else "v"
    else:
        # optical n_pol table: scalar / 1-D default to 1 pol, (1,N) / (2,N) default to 2
        opts = []
        if layout == 1:
            opts = [("v", None), ("v", 1), ("m1", 1), ("m2", 1)] + ([("s", None), ("s", 1)] if n == 1 else [])
        else:
            opts = [("v", 2), ("m1", None), ("m1", 2), ("m2", None), ("m2", 2)] + ([("s", 2)] if n == 1 else [])
        shape, npol = rng.choice(opts)
    nrows = 1 if shape == "m1" else 2
    sh = "m" if shape in ("m1", "m2") else shape
    sig = gen_raw(rng, sh, n, nrows=nrows)
    nz = None
    if noise:
        nz = gen_raw(rng, sh, n, nrows=nrows)
        if sh == "s":
            nz["form"] = rng.choice(["pyscalar", "npscalar", "ndarray"])
    dtype = None
    r = rng.random()
    if r < 0.25:
        top = max(TAGS.index(sig["tag"]), TAGS.index(nz["tag"]) if nz else 0)
        dtype = TAGS[rng.randint(top, 2)]
    elif r < 0.32 and lowdtype:
        dtype = rng.choice("if")
    return {"cls": cls, "sig": sig, "noise": nz, "npol": npol, "dtype": dtype}


def slice_len(n, a, b, c):
    return len(range(*slice(a, b, c).indices(n)))


class ProgGen:
    def __init__(self, rng, tier, cls, layout, n, maxlen, xf=0.0):
        self.rng, self.tier, self.cls, self.layout, self.n, self.maxlen = rng, tier, cls, layout, n, maxlen
        self.xf = xf           # probability of a domain-transform node
        self.leaves = []       # (ctor, len)
        self.budget = 40 if tier == "quick" else 70     # node budget

    def leaf(self, L):
        rng = self.rng
        cand = [i for i, (_, l) in enumerate(self.leaves) if l == L]
        if cand and rng.random() < 0.55:
            return ["var", rng.choice(cand)], 9
        if rng.random() < 0.15:
            return ["mk", gen_leaf(rng, self.cls, self.layout, L)], 9
        self.leaves.append((gen_leaf(rng, self.cls, self.layout, L), L))
        return ["var", len(self.leaves) - 1], 9

    def rawoperand(self, L, left):
        """operand kinds of the statement: scalars, lists, tuples, strings either side; ndarrays / numpy scalars right"""
        rng = self.rng
        r = rng.random()
        if r < 0.4:
            forms = ["pyscalar"] if left else ["pyscalar", "pyscalar", "npscalar", "ndarray"]
            return gen_raw(rng, "s", 1, forms=forms)
        forms = ["list", "tuple", "str"] if left else ["list", "tuple", "str", "ndarray"]
        if r < 0.5:
            return gen_raw(rng, "v", 1, forms=forms)
        if r < 0.58 and self.layout == 2:
            return gen_raw(rng, "m", L, forms=forms, nrows=rng.choice([1, 2, 2]))
        return gen_raw(rng, "v", L, forms=forms)

    def gen(self, depth, L):
        """(tree, magnitude bound) of predicted length L"""
        rng = self.rng
        self.budget -= 1
        if depth <= 0 or self.budget <= 0 or rng.random() < 0.08:
            return self.leaf(L)
        if self.xf and rng.random() < self.xf:
            t, bt = self.gen(depth - 1, L)
            dom = rng.choice(["w", "f", "t", "t"])
            if dom != "t" and bt * L > MAXMAG:
                dom = "t"
            return ["transform", t, dom, rng.random() < 0.5], (bt if dom == "t" else bt * L)
        r = rng.random()
        if r < 0.36:
            op = rng.choice(BINOPS)
            a, ba = self.gen(depth - 1, L)
            lb = 1 if (L > 1 and rng.random() < 0.2) else L
            b, bb = self.gen(depth - 1 if rng.random() < 0.6 else rng.randint(0, depth - 1), lb)
            if op == "mul" and 2 * ba * bb > MAXMAG:
                op = rng.choice(["add", "sub"])
            return [op, a, b], (2 * ba * bb if op == "mul" else ba + bb)
        if r < 0.62:
            op = rng.choice(RAWOPS)
            a, ba = self.gen(depth - 1, L)
            spec = self.rawoperand(L, op.startswith("r"))
            if op in ("mulR", "rmulR") and 2 * ba * 9 > MAXMAG:
                op = "raddR" if op == "rmulR" else "addR"
            return [op, a, spec], (2 * ba * 9 if op in ("mulR", "rmulR") else ba + 9)
        if r < 0.86:
            # slice with predicted length L from a longer source
            for _ in range(30):
                c = rng.choice([None, 1, 1, 2, 3, -1, -1, -2, -3, 5, -4])
                st = abs(c or 1)
                need = (L - 1) * st + 1
                src = need + rng.randint(0, 4)
                if src > self.maxlen:
                    continue
                lo, hi = -src - 2, src + 2
                a = rng.choice([None, rng.randint(lo, hi), rng.randint(lo, hi)])
                b = rng.choice([None, rng.randint(lo, hi), rng.randint(lo, hi)])
                if slice_len(src, a, b, c) == L:
                    t, bt = self.gen(depth - 1, src)
                    return ["slice", t, a, b, c], bt
            for _ in range(30):
                src = L + rng.randint(0, 3)
                if src > self.maxlen:
                    src = L
                a = rng.randint(0, src - L)
                cands = [(a, a + L, None), (a - src, a + L, 1), (a, a + L - src if a + L < src else None, None),
                         (a + L - 1, a - 1 if a >= 1 else None, -1), (a + L - 1 - src, a - 1 - src, -1)]
                aa, bb_, cc = rng.choice(cands)
                if slice_len(src, aa, bb_, cc) == L:
                    t, bt = self.gen(depth - 1, src)
                    return ["slice", t, aa, bb_, cc], bt
            return self.leaf(L)
        if r < 0.93:
            if rng.random() < 0.5:
                t, bt = self.gen(depth - 1, L)
                return ["copy", t, None], bt
            src = min(self.maxlen, L + rng.randint(0, 3))
            t, bt = self.gen(depth - 1, src)
            n = L if (src == L or rng.random() < 0.5) else L - src
            if slice_len(src, None, n, None) != L:
                n = L
            return ["copy", t, n], bt
        if L == 1:
            src = min(self.maxlen, rng.randint(1, 6))
            t, bt = self.gen(depth - 1, src)
            return ["idx", t, rng.randint(-src, src - 1)], bt
        t, bt = self.gen(depth - 1, L)
        return ["copy", t, None], bt


def spoil(rng, tree, n):
    """wrap a valid program in one deliberately failing / boundary operation"""
    k = rng.randint(0, 8)
    if k == 8:
        return ["transform", tree, rng.choice(["x", "W", "time", ""]) or "x", rng.random() < 0.5]
    if k == 0:
        return ["slice", tree, rng.randint(0, n), rng.randint(-n, 0) if rng.random() < 0.5 else 0, None]   # mostly empty
    if k == 1:
        return ["slice", tree, None, None, 0]
    if k == 2:
        return ["idx", tree, rng.choice([n, -n - 1, n + 3])]
    if k == 3:
        return ["copy", tree, rng.choice([0, -n, -n - 2])]
    if k == 4:
        return [rng.choice(RAWOPS[:1] + RAWOPS[2:3] + RAWOPS[4:5]), tree, gen_raw(rng, "v", n + rng.randint(1, 3), forms=["list", "tuple", "ndarray", "str"])]
    if k == 5:
        return [rng.choice(["raddR", "rsubR", "rmulR"]), tree, gen_raw(rng, "v", n + rng.randint(1, 3), forms=["list", "tuple", "str"])]
    if k == 6:
        return [rng.choice(RAWOPS), tree, gen_raw(rng, "v", 0, forms=["list", "tuple"], tag="f")]
    return [rng.choice(["addR", "subR", "mulR"]), tree, gen_raw(rng, "m", n, forms=["list", "ndarray"], nrows=3)]


LENS_Q = [1, 1, 2, 2, 3, 4, 5, 7, 8, 11, 16, 17]
LENS_T = LENS_Q + [13, 31, 32, 33, 64, 127, 257]


def gen_program(rng, tier, depth):
    cls, layout = rng.choice([("E", 1), ("E", 1), ("O", 1), ("O", 2), ("O", 2)])
    n = rng.choice(LENS_Q if tier == "quick" or rng.random() < 0.8 else LENS_T)
    maxlen = max(n + 6, 17) if n <= 33 else n + 4
    xf = 0.18 if rng.random() < 0.3 else 0.0
    pg = ProgGen(rng, tier, cls, layout, n, maxlen, xf)
    tree, bound = pg.gen(depth, n)
    # magnitude bound of every intermediate value (wrappers added below at most multiply by a leaf): float tolerance
    case = {"kind": "prog", "cls": cls, "layout": layout, "n": n, "depth": depth,
            "leaves": [c for c, _ in pg.leaves], "expr": tree, "scale": (2 * bound * 9 + 9) * maxlen}
    r = rng.random()
    if r < 0.10:
        case["expr"] = spoil(rng, tree, n)
        case["spoiled"] = True
    elif r < 0.16:
        # object operand of a different length (rejected unless it is the right operand of length 1)
        m = rng.choice([1, n + 1, n + 2, max(1, n - 1)])
        case["leaves"].append(gen_leaf(rng, cls, layout, m))
        j = len(case["leaves"]) - 1
        op = rng.choice(BINOPS)
        case["expr"] = [op, tree, ["var", j]] if rng.random() < 0.6 else [op, ["var", j], tree]
        case["spoiled"] = True
    elif r < 0.20 and cls == "O":
        # mixed 1-pol / 2-pol pair: outside the statement, correspondence only
        case["leaves"].append(gen_leaf(rng, "O", 3 - layout, rng.choice([n, n, 1])))
        j = len(case["leaves"]) - 1
        op = rng.choice(BINOPS)
        case["expr"] = [op, tree, ["var", j]] if rng.random() < 0.5 else [op, ["var", j], tree]
        case["mixed"] = True
    elif r < 0.22:
        # mixed classes: outside the statement, correspondence only
        oc = "O" if cls == "E" else "E"
        case["leaves"].append(gen_leaf(rng, oc, 1, n))
        j = len(case["leaves"]) - 1
        op = rng.choice(BINOPS)
        case["expr"] = [op, tree, ["var", j]] if rng.random() < 0.5 else [op, ["var", j], tree]
        case["mixed"] = True
    return case


def gen_ctor_cases(rng, tier):
    """every constructor form x noise pattern, valid and malformed"""
    cases = []

    def add(c, **kw):
        d = {"kind": "ctor", "leaves": [], "expr": ["mk", c]}
        d.update(kw)
        cases.append(d)
    lens = [1, 2, 3, 5] if tier == "quick" else [1, 2, 3, 4, 5, 7, 8, 16, 17]
    reps = 1 if tier == "quick" else 3
    for _ in range(reps):
        for n in lens:
            for noise in (False, True):
                add(gen_leaf(rng, "E", 1, n, noise, lowdtype=True))
                for layout in (1, 2):
                    add(gen_leaf(rng, "O", layout, n, noise, lowdtype=True))
        # the whole n_pol table, explicitly
        for sh, nrows in (("s", 0), ("v", 0), ("m", 1), ("m", 2)):
            for npol in (None, 1, 2):
                for noise in (False, True):
                    n = 1 if sh == "s" else rng.choice(lens)
                    sig = gen_raw(rng, sh, n, nrows=nrows)
                    nz = gen_raw(rng, sh, n, nrows=nrows) if noise else None
                    if nz is not None and sh == "s":
                        nz["form"] = rng.choice(["pyscalar", "npscalar", "ndarray"])
                    add({"cls": "O", "sig": sig, "noise": nz, "npol": npol, "dtype": rng.choice([None, None, "c"])})
        # dtype argument: every (data tag, dtype) pair, Python data and ndarray data
        for tag in TAGS:
            for dt in TAGS:
                for form in ("list", "ndarray", "str", "pyscalar", "npscalar"):
                    sh = "s" if form in ("pyscalar", "npscalar") else "v"
                    sig = gen_raw(rng, sh, 3, tag=tag, forms=[form])
                    nz = gen_raw(rng, sh, 3, forms=["list", "ndarray"] if sh == "v" else ["pyscalar", "npscalar"]) if rng.random() < 0.5 else None
                    add({"cls": rng.choice("EO"), "sig": sig, "noise": nz, "npol": None, "dtype": dt})
        # malformed
        n = rng.choice(lens)
        for cls in "EO":
            add({"cls": cls, "sig": gen_raw(rng, "v", 0, tag="f", forms=["list", "tuple", "ndarray"]), "noise": None, "npol": None, "dtype": None})
            add({"cls": cls, "sig": gen_raw(rng, "m", 0, tag="f", forms=["list", "ndarray"], nrows=2), "noise": None, "npol": None, "dtype": None})
            add({"cls": cls, "sig": gen_raw(rng, "m", 0, tag="f", forms=["list"], nrows=1), "noise": None, "npol": rng.choice([None, 1, 2]) if cls == "O" else None, "dtype": None})
            add({"cls": cls, "sig": gen_raw(rng, "m", n, nrows=3), "noise": None, "npol": None, "dtype": None})
            add({"cls": cls, "sig": gen_raw(rng, "m", n, nrows=rng.choice([1, 2])), "noise": None, "npol": None, "dtype": None})
            add({"cls": cls, "sig": gen_raw(rng, "v", n), "noise": gen_raw(rng, "v", n + 1), "npol": None, "dtype": None})
            add({"cls": cls, "sig": gen_raw(rng, "v", n), "noise": gen_raw(rng, "s", 1), "npol": rng.choice([None, 2]) if cls == "O" else None, "dtype": None})
            add({"cls": cls, "sig": gen_raw(rng, "s", 1), "noise": gen_raw(rng, "v", 1, forms=["list", "ndarray"]), "npol": None, "dtype": None})
            add({"cls": cls, "sig": gen_raw(rng, "m", n, nrows=2), "noise": gen_raw(rng, "v", n), "npol": None, "dtype": None})
            add({"cls": cls, "sig": gen_raw(rng, "m", n, nrows=2), "noise": gen_raw(rng, "m", n, nrows=1), "npol": rng.choice([None, 1, 2]) if cls == "O" else None, "dtype": None})
            rag = gen_raw(rng, "m", n + 1, forms=["list", "tuple"], nrows=2)
            rag["vals"][1] = rag["vals"][1][:-1]
            add({"cls": cls, "sig": rag, "noise": None, "npol": None, "dtype": None})
            t3 = {"form": rng.choice(["list", "ndarray"]), "tag": "i", "shape": "t", "vals": [[_vals(rng, "i", 2)], [_vals(rng, "i", 2)]]}
            add({"cls": cls, "sig": t3, "noise": None, "npol": None, "dtype": None})
    return cases


def gen_slice_cases(rng, tier):
    """slice triples on small axes: quick = random sample, thorough = all of [-n-1, n+1]^3 with None for n <= 7"""
    cases = []
    leaves = {}
    for n in range(1, 8):
        for cls, layout in (("E", 1), ("O", 1), ("O", 2)):
            sh = "v" if layout == 1 else "m"
            sig = {"form": "list", "tag": "i", "shape": sh,
                   "vals": [[k + 1, 0] for k in range(n)] if sh == "v" else [[[k + 1, 0] for k in range(n)], [[-(k + 1), 0] for k in range(n)]]}
            nz = {"form": "ndarray", "tag": "c", "shape": sh,
                  "vals": [[0, k + 1] for k in range(n)] if sh == "v" else [[[0, k + 1] for k in range(n)], [[10 + k, -k] for k in range(n)]]}
            leaves[(n, cls, layout)] = {"cls": cls, "sig": sig, "noise": nz, "npol": None, "dtype": None}
    combos = [("E", 1), ("O", 1), ("O", 2)]
    if tier == "thorough":
        k = 0
        for n in range(1, 8):
            rngv = [None] + list(range(-n - 1, n + 2))
            for a in rngv:
                for b in rngv:
                    for c in rngv:
                        cls, layout = combos[k % 3]
                        k += 1
                        cases.append({"kind": "slice", "n": n, "leaves": [leaves[(n, cls, layout)]],
                                      "expr": ["slice", ["var", 0], a, b, c], "triple": [a, b, c]})
    else:
        for _ in range(260):
            n = rng.randint(1, 7)
            rngv = [None] + list(range(-n - 2, n + 3))
            a, b, c = rng.choice(rngv), rng.choice(rngv), rng.choice(rngv + [1, -1, None, None])
            cls, layout = rng.choice(combos)
            cases.append({"kind": "slice", "n": n, "leaves": [leaves[(n, cls, layout)]],
                          "expr": ["slice", ["var", 0], a, b, c], "triple": [a, b, c]})
    # int index, every position incl. out of range; copy(n) every n
    for n in (1, 2, 3, 5):
        for cls, layout in combos:
            for i in range(-n - 2, n + 3):
                cases.append({"kind": "slice", "n": n, "leaves": [leaves[(n, cls, layout)]], "expr": ["idx", ["var", 0], i]})
                cases.append({"kind": "slice", "n": n, "leaves": [leaves[(n, cls, layout)]], "expr": ["copy", ["var", 0], i]})
    return cases


def gen_cases(rng, tier):
    cases = []
    cases += gen_ctor_cases(rng, tier)
    cases += gen_slice_cases(rng, tier)
    if tier == "quick":
        nprog, maxdepth = 2400, 6
    else:
        nprog, maxdepth = 20000, 10
    for k in range(nprog):
        depth = 1 + (k % maxdepth)
        cases.append(gen_program(rng, tier, depth))
    return cases


# ------------------------------------------------------------------------------------------------
# check.py API
# ------------------------------------------------------------------------------------------------

def run_impl(case):
    from opticomlib.typing import electrical_signal, optical_signal
    ev = Eval(electrical_signal, optical_signal)
    res = {}
    try:
        with time_limit(30), warnings.catch_warnings():
            warnings.simplefilter("ignore")     # ComplexWarning of deliberate complex -> real dtype requests
            try:
                env = []
                for c in case["leaves"]:
                    env.append(ev.ctor(c))
                x = ev.run(env, case["expr"])
                res["status"] = "ok"
                try:
                    sn = snap(x)
                    if has_transform(case["expr"]) or any(has_transform(["mk", c]) for c in case["leaves"]):
                        res["final_f"] = {"cls": {"electrical_signal": "E", "optical_signal": "O"}.get(sn[0], sn[0]),
                                          "npol": sn[1], "tag": sn[2],
                                          "sig": [[[float(a), float(b)] for a, b in r] for r in sn[3]],
                                          "noise": None if sn[4] is None else [[[float(a), float(b)] for a, b in r] for r in sn[4]]}
                        res["final"] = "float"
                    else:
                        res["final"] = canon(sn)
                except ArithmeticError as e:
                    res["final"] = "unrepresentable " + str(e)
                if not contract(x, type(x).__name__):
                    ev.accessors(x)
                    ev.transform(x)
                    if env:
                        ev.transform(env[0])
                res["len"] = int(x.signal.shape[-1]) if isinstance(getattr(x, "signal", None), np.ndarray) else -1
                res["noisy"] = x.noise is not None
            except Timeout:
                raise
            except Exception as e:  # noqa
                res.update(status="err", err=exc_enum(e), detail=repr(e)[:200])
    except Timeout as e:
        res.update(status="timeout", detail=str(e))
    res["viol"] = [list(v) for v in ev.viol]
    res["feat"] = sorted(ev.feat)
    res["nodes"] = ev.nodes
    res["okops"] = ev.okops
    return res


def model_requests(case, res):
    if not (all(modelable(["mk", c]) for c in case["leaves"]) and modelable(case["expr"])):
        return []
    cmd = "container.evalf " if has_transform(case["expr"]) else "container.eval "
    reqs = [cmd + " ".join([str(len(case["leaves"]))] + [enc_expr(["mk", c]) for c in case["leaves"]]
                                         + [enc_expr(case["expr"])])]
    if case["kind"] == "slice" and "triple" in case:
        a, b, c = case["triple"]
        reqs.append(f"container.slice {case['n']} {enc_opt_int(a)} {enc_opt_int(b)} {enc_opt_int(c)}")
    return reqs


def parse_evalf(reply):
    """`ok <cls> <npol> <tag> <nrows> (<n> (<re bits> <im bits>)*n)*nrows (nonoise | noise <rows>)` -> dict"""
    from harness.common.wire import Toks
    t = Toks(reply)
    if t.tok() != "ok":
        return None
    out = {"cls": t.tok(), "npol": t.nat(), "tag": t.tok()}

    def rows():
        k = t.nat()
        return [[[t.f(), t.f()] for _ in range(t.nat())] for _ in range(k)]
    out["sig"] = rows()
    out["noise"] = rows() if t.tok() == "noise" else None
    return out


def compare_float(case, res, reply):
    """transform programs: class, n_pol, dtype kind, row count, lengths, noise presence exactly; sample values to
    1e-9 * (bound on every intermediate magnitude) * N  (both sides are IEEE doubles; the model sums the DFT naively)"""
    want = res["final_f"]
    got = parse_evalf(reply)
    if got is None:
        return [f"model says {reply[:120]!r}, implementation returned an object"]
    out = []
    for k in ("cls", "npol", "tag"):
        if got[k] != want[k]:
            out.append(f"{k}: model {got[k]!r}, implementation {want[k]!r}")
    tol = 1e-9 * case.get("scale", 1e6) + 1e-12
    for part in ("sig", "noise"):
        a, b = got[part], want[part]
        if (a is None) != (b is None):
            out.append(f"{part} presence: model {a is not None}, implementation {b is not None}")
            continue
        if a is None:
            continue
        if [len(r) for r in a] != [len(r) for r in b]:
            out.append(f"{part} shape: model {[len(r) for r in a]}, implementation {[len(r) for r in b]}")
            continue
        errs = [max(abs(p[0] - q[0]), abs(p[1] - q[1])) for x, y in zip(a, b) for p, q in zip(x, y)]
        # `not (e <= tol)`: a NaN / inf on either side is a disagreement, whatever its position in the row
        badv = [e for e in errs if not (e <= tol)]
        if badv:
            out.append(f"{part}: {len(badv)} value(s) differ by more than {tol:.3e} (first error {badv[0]!r})")
    return out


def compare(case, res, reqs, replies):
    if not reqs:
        return []
    out = []
    if res["status"] == "ok" and res.get("final") == "float":
        return compare_float(case, res, replies[0])
    if res["status"] == "ok":
        want = res["final"]
    elif res["status"] == "err":
        want = "err " + res["err"]
    else:
        want = res["status"]
    if replies[0] != want:
        out.append(f"model says {replies[0][:200]!r}, implementation {want[:200]!r} ({res.get('detail', '')[:100]})")
    if len(reqs) > 1:
        a, b, c = case["triple"]
        try:
            idx = list(range(case["n"]))[slice(a, b, c)]
            w = "ok " + " ".join([str(len(idx))] + [str(i) for i in idx])
        except ValueError:
            w = "err ValueError"
        if replies[1] != w:
            out.append(f"slice.indices model {replies[1]!r} != CPython {w!r} for n={case['n']} [{a}:{b}:{c}]")
    return out


def oracle(case, res):
    if res["status"] == "timeout":
        return [("C01:timeout", f"program did not return: {res.get('detail')}")]
    v = [(a, b) for a, b in res.get("viol", [])]
    if res["status"] == "ok" and res.get("final", "").startswith("unrepresentable"):
        v.append(("C01:non-integer-sample", res["final"]))
    return v


def features(case, res):
    f = ["kind=" + case["kind"], "status=" + res["status"]]
    if res["status"] == "err":
        f.append("err=" + res["err"])
    if case.get("cls"):
        f.append(f"layout={case['cls']}{case.get('layout')}")
        f.append(f"n={case['n']}")
        f.append(f"depth={case['depth']}")
    if case.get("mixed"):
        f.append("mixed-pair")
    if case.get("spoiled"):
        f.append("spoiled")
    f.append("nodes=" + ("1" if res["nodes"] <= 1 else "2-5" if res["nodes"] <= 5 else "6-15" if res["nodes"] <= 15 else "16+"))
    if res["status"] == "ok":
        L = res.get("len", 0)
        f.append("outlen=" + ("1" if L == 1 else "2" if L == 2 else "3-8" if L <= 8 else "9-33" if L <= 33 else "34+"))
        f.append("out-noise" if res.get("noisy") else "out-noisefree")
    return f + [x for x in res.get("feat", []) if not x.startswith("ctor:")] + \
        [":".join(x.split(":")[:4]) for x in res.get("feat", []) if x.startswith("ctor:")]


def _ops(t, acc):
    acc.append(t[0])
    for x in t[1:3]:
        if isinstance(x, list) and x and isinstance(x[0], str) and x[0] in ("var", "mk", "idx", "slice", "copy", "transform") + BINOPS + RAWOPS:
            _ops(x, acc)
    return acc


def nontrivial_key(case, res):
    if res["status"] != "ok" or res.get("okops", 0) < 2:
        return None
    ops = tuple(sorted(o for o in _ops(case["expr"], []) if o not in ("var", "mk")))
    leaves = tuple((c["cls"], c["sig"]["tag"], c["sig"]["shape"], c["noise"] is not None, c["npol"]) for c in case["leaves"])
    return (case.get("cls"), case.get("layout"), case.get("n"), ops, leaves, res.get("len"), res.get("noisy"))
