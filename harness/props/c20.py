"""C20 — PPG3204 driver emits only in-range commands; pattern memory round-trips in <=1024-bit blocks; SYNC aligns.

Correspondence: random histories of set_*/get_*/set_data/get_data calls are run on the REAL class `opticomlib.lab.PPG3204`
whose `inst` attribute is a fake VISA session (records every `query(cmd)` string, simulates the pattern memory and the
scalar settings, answers `:DIGn:PATT:DATA? a,c` with `#<k><c><bits>\\n`, answers malformed/out-of-range commands with the
instrument's error reply `\\n\\n`), or without `inst` (dry-run mode: the commands are printed, stdout is captured).  The same
history goes to the Lean model (`ppg.hist`), and the command streams, warning flags, error kinds and get_data results are
compared field by field.  SYNC is run on integer waveforms against `ppg.sync`.

Oracle: the property stated directly on the captured command strings / return values (own regex parser, own reference
memory, numpy reference for SYNC) — it never looks at the Lean model.
"""
import contextlib
import os
import hashlib
import io
import json
import math
import re
import warnings
from decimal import Decimal
from fractions import Fraction

import numpy as np

from harness.common.wire import exc_enum
from harness.common.watchdog import time_limit, Timeout

ID = "C20"
MANIFEST = {
    "text": "Lean 4 theorems (Props/C20.lean) over an exact model of PPG3204's command emission whose limits, the limit names "
            "used at every clamp site and the _check_channels literals are re-translated from lab.py on every run: every command "
            "emitted for EVERY request (any scalar / per-channel list, any channel selection incl. out-of-range, duplicated, too "
            "many) addresses a channel in 1..4 and carries a value inside the documented limits, well-typed requests never fail, "
            "also along arbitrary histories; clamp <=> warning, in-range requests unchanged, PRBS order snapped to a nearest "
            "supported order; nearest-grid (printf) rounding cannot leave the limits; set_data blocks <= 1024 bits with correct "
            "#<k><n> header at consecutive addresses, concatenation = data, inside the memory; set_data/get_data round trip on an "
            "instrument memory model for every length/start/channel selection incl. the driver's b[k+2:-1] parsing; SYNC: the "
            "argmax over lags 0..l-1 of the exact cross-correlation is the delay d for every aperiodic waveform, BufferError iff "
            "the record is shorter than the pattern.  Tie: translator + exact differential run against a fake VISA session "
            "(and dry-run stdout) + SYNC on integer PRBS waveforms, all delays.",
    "note": "Trusted: Lean kernel, translator tools/extractors/ppg.py, harness + fake instrument; Python floats travel as the "
            "decimal their repr denotes (order embedding). Partial (oracle/correspondence only): printf rounding :.1f/:.5e "
            "(formatted by the harness from the model's value), SYNC's max<3*std acceptance for PRBS patterns, SYNC with "
            "Gaussian noise, fftconvolve = exact correlation. Axioms: propext, Classical.choice, Quot.sound.",
    "technique": "Lean 4 proof (induction over lists/histories, algebra over Rat/Int) over a model with limits regenerated from source; "
                 "exact differential correspondence run against a simulated instrument",
    "design": "§5 C20",
}
GEN = ["PpgLimits"]
RULE = ("histories = 1..10 calls of set_patt_len/set_prbs_order/set_bits_shift/set_skew/set_output_voltage/set_offset/set_freq/"
        "set_mode/enable/disable/get_*/set_data/get_data on one PPG3204 with a fake VISA session (or dry-run); values = every limit "
        "x 10^-3..10^3, limit +- 1 ulp / +- 1e-9 rel / +- 1 unit, 0, negatives, 2^62, as int and float scalars and per-channel "
        "lists (list/tuple/ndarray, length 0..6); channels = None, int, lists incl. 0, negatives, 5.., duplicates, > 4 entries; "
        "data lengths {1,2,1023,1024,1025,2047,2048,2049,3072,4097,10^4,random}, start addresses {1,2,1023..1026,random, end of "
        "memory}, 1-D / string (also with ',' and ' ' separators) / 2-D per-channel data fitting exactly, one bit too long and with "
        "rows != bits at the end of the memory; SYNC = PRBS7/9/11 (full period or >=32-slot prefix) x sps x every delay d<l x fill {cyclic,zeros} x noise "
        "{0,0.05,0.1,0.2,...}, received record of every numeric dtype (int8/16/32, uint8/16 raw codes using the dtype's range, float32/64) x "
        "pattern kind (binary_sequence, uint8/int64/bool/float ndarray, list); every call is made twice, positionally in the documented "
        "order and by keyword (sig C20:positional:<func>); non-trivial = history that emitted >=1 command (distinct by content hash) / SYNC case with l>=2 "
        "(distinct by pattern, sps, d, fill, sigma)")
PARTIAL = [
    "printf conversions {v:.1f} (amplitude, offset) and {v:.5e} (frequency) are not modelled in Lean: the harness formats the model's "
    "exact value with the same Python conversion and compares the text; Lean proves only that a nearest-grid rounding of a value "
    "inside limits that are grid points stays inside them (format_1f_stays_in_range, format_5e_stays_in_range)",
    "SYNC: acceptance by the `max < 3*std` test for PRBS patterns is checked by the oracle only (the model decides the test exactly and "
    "the correspondence compares it; no theorem that PRBS patterns pass it)",
    "SYNC with noise: the logic core is a theorem (sync_corr_linear, sync_margin_general, sync_argmax_margin, sync_argmax_half_gap, "
    "sync_gap_pos, sync_noise_amplitude_bound over any ordered commutative ring): whenever the noise correlation differences stay "
    "below the clean gaps the argmax is d. The harness evaluates that hypothesis numerically on every noisy case (feature "
    "margin=satisfied/not-satisfied) and then demands index d deterministically (sig C20:sync-margin); short noisy records are also run "
    "exactly over Rat by the model. NOT a theorem: that Gaussian noise of sigma <= 0.2 satisfies the margin hypothesis (statistical; "
    "cases where it fails keep the statistical oracle for sigma <= 0.2 and are not demanded above), and the float evaluation of the margin",
    "fftconvolve is modelled as the exact correlation sum (floating-point FFT error is far below the integer gap 1)",
    "aperiodicity of np.kron(PRBS, ones(sps)) is a hypothesis of sync_argmax, evaluated numerically on every generated pattern",
    "scalar getters: the model only emits the queries; the returned values are checked by the oracle against its own reference state",
    "NaN requests are generated only with VERIF_SUSPECT=1 (the unchanged code sends them raw, e.g. set_freq(nan) -> ':FREQ nan'; the "
    "oracle judges any command carrying nan as a violation, sig C20:nan-sent:<op>); +-inf requests ARE generated (clamped correctly)",
    "non-numeric/bool arguments, ints beyond 2^62, 2-D value arrays, float channel numbers: outside the generated domain",
    "set_data start addresses outside 1..2^21 are run in dry-run mode only and only the channel/block/header clauses are demanded for "
    "them (2-D data next to the end of the memory ARE generated since fix e1248f9; failures there carry the sig C20:setdata-2d-memory-end)",
]
ASSUMPTIONS = [
    "a Python float x is represented by the decimal number repr(x) denotes (Fraction(Decimal(repr(x)))); this map is strictly "
    "monotone on doubles and maps every limit literal of the class to its documented decimal value, so <, > and clip agree",
    "numpy semantics of np.array/np.tile/clip/zip truncation, Python str.format of ints and floats, warnings.warn",
    "the fake VISA session stands for the instrument: memory semantics of :DIGn:PATT:DATA / :DIGn:PATT:DATA? and the IEEE-488.2 "
    "block answer `#<k><n><bits>\\n` as the driver's b[k+2:-1] slicing expects",
    "the driver evaluates the same Lean definitions the theorems are about (compiled by Lean's code generator)",
]
BUDGET = {"quick": 120, "thorough": 900}
EXHAUSTIVE = {"quick": False, "thorough": False}

MAXMEM = 2 ** 21
DOC = {  # documented limits, written here independently of the code and of the Lean files
    "pattLen": (Fraction(2), Fraction(2 ** 21)),
    "skew": (Fraction(-25, 10 ** 12), Fraction(25, 10 ** 12)),
    "volt": (Fraction(3, 10), Fraction(2)),
    "offs": (Fraction(-2), Fraction(3)),
    "freq": (Fraction(15 * 10 ** 8), Fraction(32 * 10 ** 9)),
}
DOC_ORDERS = [7, 9, 11, 15, 23, 31]
INT62 = 2 ** 62


# ------------------------------------------------------------------------------------------------------------------
# values on the wire
# ------------------------------------------------------------------------------------------------------------------

def dec(x):
    """exact rational a Python number stands for: ints exactly, floats as the decimal their repr denotes"""
    if isinstance(x, bool):
        raise TypeError("bool")
    if isinstance(x, int):
        return Fraction(x)
    return Fraction(Decimal(repr(float(x))))


def frat(q):
    return f"{q.numerator}/{q.denominator}"


def finite(x):
    return isinstance(x, int) or math.isfinite(x)


def mk_val(v):
    """JSON description -> Python argument.  {"t":"i","v":3} | {"t":"f","v":0.5} | {"t":"l","k":"list|tuple|ndarray","v":[...]}"""
    if v["t"] == "i":
        return int(v["v"])
    if v["t"] == "f":
        return float(v["v"])
    xs = [int(x) if isinstance(x, int) else float(x) for x in v["v"]]
    if v["k"] == "tuple":
        return tuple(xs)
    if v["k"] == "ndarray":
        return np.array(xs)
    return xs


def val_items(v):
    """the numbers of a value description, as Python numbers, after numpy's list conversion (mixed int/float -> float)"""
    if v["t"] == "i":
        return [int(v["v"])]
    if v["t"] == "f":
        return [float(v["v"])]
    xs = [int(x) if isinstance(x, int) else float(x) for x in v["v"]]
    if any(isinstance(x, float) for x in xs):
        xs = [float(x) for x in xs]
    return xs


def enc_val(v):
    if v["t"] == "i":
        return f"i {int(v['v'])}"
    if v["t"] == "f":
        return f"f {frat(dec(float(v['v'])))}"
    xs = val_items(v)
    return " ".join(["l", str(len(xs))] + [frat(dec(x)) for x in xs])


def mk_chs(c):
    if c is None or isinstance(c, int):
        return c
    if c["k"] == "tuple":
        return tuple(c["v"])
    if c["k"] == "ndarray":
        return np.array(c["v"], dtype=int)
    return list(c["v"])


def chs_items(c):
    if c is None:
        return None
    if isinstance(c, int):
        return [c]
    return list(c["v"])


def enc_chs(c):
    xs = chs_items(c)
    if xs is None:
        return "none"
    return " ".join([str(len(xs))] + [str(x) for x in xs])


def mk_data(d):
    """{"k":"str|list|ndarray|rows", "v": "0101" | [..] | [[..],[..]]}"""
    if d["k"] == "str":
        return d["v"]
    if d["k"] == "ndarray":
        return np.array(d["v"])
    return d["v"]


def data_rows(d):
    """(is2d, rows of ints) as np.array(data, dtype=bool) sees them"""
    if d["k"] == "str":     # str2array(bool): blanks and commas are separators only
        return False, [[int(ch) for ch in d["v"].replace(" ", "").replace(",", "")]]
    if d["k"] == "rows":
        return True, [list(r) for r in d["v"]]
    return False, [list(d["v"])]


def enc_data(d):
    two, rows = data_rows(d)
    if not two:
        return " ".join(["flat", str(len(rows[0]))] + [str(x) for x in rows[0]])
    out = ["rows", str(len(rows))]
    for r in rows:
        out += [str(len(r))] + [str(x) for x in r]
    return " ".join(out)


# ------------------------------------------------------------------------------------------------------------------
# fake VISA session
# ------------------------------------------------------------------------------------------------------------------

RE_DATA_Q = re.compile(r":DIG(-?\d+):PATT:DATA\? (-?\d+),(-?\d+)$")
RE_SET = [
    (re.compile(r":DIG(-?\d+):PATT:LENG (\S+)$"), "pattLen", ""),
    (re.compile(r":DIG(-?\d+):PATT:PLEN (\S+)$"), "prbsOrder", ""),
    (re.compile(r":DIG(-?\d+):PATT:BSH (\S+)$"), "bitsShift", ""),
    (re.compile(r":SKEW(-?\d+) (\S+)$"), "skew", ""),
    (re.compile(r":VOLT(-?\d+):POS (\S+)v$"), "volt", "v"),
    (re.compile(r":VOLT(-?\d+):NEG:OFFS (\S+)v$"), "offsNeg", "v"),
    (re.compile(r":VOLT(-?\d+):POS:OFFS (\S+)v$"), "offsPos", "v"),
]
RE_GET = [
    (re.compile(r":DIG(-?\d+):PATT:LENG\?$"), "pattLen"),
    (re.compile(r":DIG(-?\d+):PATT:TYPE\?$"), "mode"),
    (re.compile(r":DIG(-?\d+):PATT:PLEN\?$"), "prbsOrder"),
    (re.compile(r":DIG(-?\d+):PATT:BSH\?$"), "bitsShift"),
    (re.compile(r":SKEW(-?\d+)\?$"), "skew"),
    (re.compile(r":VOLT(-?\d+):POS\?$"), "volt"),
    (re.compile(r":VOLT(-?\d+):OFFS\?$"), "offs"),
]
RE_MODE = re.compile(r":DIG(-?\d+):PATT:TYPE (DATA|PRBS)$")
RE_OUTP = re.compile(r":OUTP(-?\d+) (ON|OFF)$")
RE_FREQ = re.compile(r":FREQ (\S+)$")


def parse_cmd(s):
    """SCPI string -> tuple; ("?", s) when the string has none of the forms the driver is documented to send"""
    if ":PATT:DATA " in s:
        m = re.match(r":DIG(-?\d+):PATT:DATA (-?\d+),(-?\d+),#(.*)$", s, re.S)
        if not m:
            return ("?", s)
        ch, addr, n, rest = int(m.group(1)), int(m.group(2)), int(m.group(3)), m.group(4)
        if not rest or not rest[0].isdigit():
            return ("?", s)
        k = int(rest[0])
        hdr, bits = rest[1:1 + k], rest[1 + k:]
        return ("D", ch, addr, n, k, hdr, bits)
    m = RE_DATA_Q.match(s)
    if m:
        return ("DQ", int(m.group(1)), int(m.group(2)), int(m.group(3)))
    for rx, kind in RE_GET:
        m = rx.match(s)
        if m:
            return ("G", kind, int(m.group(1)))
    for rx, kind, _ in RE_SET:
        m = rx.match(s)
        if m:
            return ("S", kind, int(m.group(1)), m.group(2))
    m = RE_MODE.match(s)
    if m:
        return ("M", int(m.group(1)), m.group(2))
    m = RE_OUTP.match(s)
    if m:
        return ("O", int(m.group(1)), m.group(2))
    m = RE_FREQ.match(s)
    if m:
        return ("F", m.group(1))
    if s == ":FREQ?":
        return ("FQ",)
    if s == "*RST":
        return ("R",)
    return ("?", s)


class FakeVisa:
    """stand-in for a pyvisa session of a PPG3204: `.query(cmd)` records the command and simulates the instrument"""

    def __init__(self):
        self.log = []
        self.mem = {ch: {} for ch in range(1, 5)}
        self.state = {}
        self.timeout = 10000

    def clear(self):
        pass

    def close(self):
        pass

    def query(self, cmd):
        self.log.append(cmd)
        p = parse_cmd(cmd)
        t = p[0]
        if t == "?":
            return "\n\n"
        if t in ("S", "G", "M", "O", "D", "DQ") and not (1 <= (p[2] if t in ("S", "G") else p[1]) <= 4):
            return "\n\n"
        if t == "D":
            _, ch, addr, n, k, hdr, bits = p
            if k < 1 or hdr != str(n) or len(bits) != n or any(c not in "01" for c in bits) or addr < 1 \
                    or addr + n - 1 > MAXMEM:
                return "\n\n"
            for i, c in enumerate(bits):
                self.mem[ch][addr + i] = c
            return "\n"
        if t == "DQ":
            _, ch, addr, cnt = p
            if cnt < 1 or addr < 1 or addr + cnt - 1 > MAXMEM:
                return "\n\n"
            bits = "".join(self.mem[ch].get(addr + i, "0") for i in range(cnt))
            return f"#{len(str(cnt))}{cnt}{bits}\n"
        if t == "S":
            _, kind, ch, tok = p
            try:
                float(tok)
            except ValueError:
                return "\n\n"
            if kind in ("offsNeg", "offsPos"):
                kind = "offs"
            self.state[(kind, ch)] = tok
            return "\n"
        if t == "M":
            self.state[("mode", p[1])] = p[2]
            return "\n"
        if t == "O":
            self.state[("outp", p[1])] = p[2]
            return "\n"
        if t == "F":
            try:
                float(p[1])
            except ValueError:
                return "\n\n"
            self.state[("freq", 0)] = p[1]
            return "\n"
        if t == "G":
            _, kind, ch = p
            dflt = {"pattLen": "2", "mode": "DATA", "prbsOrder": "7", "bitsShift": "0", "skew": "0.0", "volt": "1.0",
                    "offs": "0.0"}[kind]
            tok = self.state.get((kind, ch), dflt)
            if kind in ("pattLen", "prbsOrder", "bitsShift"):
                tok = str(int(Decimal(tok)))
            return tok
        if t == "FQ":
            return self.state.get(("freq", 0), "1.00000e+10")
        if t == "R":
            self.state.clear()
            for ch in self.mem:
                self.mem[ch].clear()
            return "\n"
        return "\n\n"


# ------------------------------------------------------------------------------------------------------------------
# running the real code
# ------------------------------------------------------------------------------------------------------------------

PPG_SIGNATURES = {      # documented positional order of the public methods at /repo HEAD 8caea4c (literal, not read from the code)
    "set_patt_len": ["patt_len", "CHs"], "get_patt_len": ["CHs"], "set_mode": ["mode", "CHs"], "get_mode": ["CHs"],
    "set_prbs_order": ["order", "CHs"], "get_prbs_order": ["CHs"], "set_data": ["data", "start_addrs", "CHs"],
    "get_data": ["size", "start_addrs", "CHs"], "set_bits_shift": ["bsh", "CHs"], "get_bits_shift": ["CHs"],
    "enable_outputs": ["CHs"], "disable_outputs": ["CHs"], "set_freq": ["freq"], "get_freq": [], "set_skew": ["skew", "CHs"],
    "get_skew": ["CHs"], "set_output_voltage": ["amplitude", "CHs"], "get_output_voltage": ["CHs"],
    "set_offset": ["offset", "CHs"], "get_offset": ["CHs"], "reset": [],
    "__call__": ["freq", "patt_len", "Vout", "offset", "bsh", "skew", "mode", "order", "data", "CHs"],
}
GETTERS = {"pattLen": "get_patt_len", "mode": "get_mode", "prbsOrder": "get_prbs_order", "bitsShift": "get_bits_shift",
           "skew": "get_skew", "volt": "get_output_voltage", "offs": "get_offset"}


def op_call(op):
    """(method name, argument list in the documented order)"""
    name = op["op"]
    if name in ("pattlen", "order", "bsh", "skew", "volt", "offs"):
        m = {"pattlen": "set_patt_len", "order": "set_prbs_order", "bsh": "set_bits_shift", "skew": "set_skew",
             "volt": "set_output_voltage", "offs": "set_offset"}[name]
        return m, [mk_val(op["v"]), mk_chs(op["chs"])]
    if name == "freq":
        return "set_freq", [mk_val(op["v"])]
    if name == "mode":
        return "set_mode", [op["m"], mk_chs(op["chs"])]
    if name == "outp":
        return ("enable_outputs" if op["on"] else "disable_outputs"), [mk_chs(op["chs"])]
    if name == "setdata":
        return "set_data", [mk_data(op["d"]), op["start"], mk_chs(op["chs"])]
    if name == "getdata":
        return "get_data", [op["size"], op["start"], mk_chs(op["chs"])]
    if name == "get":
        return GETTERS[op["q"]], [mk_chs(op["chs"])]
    if name == "getfreq":
        return "get_freq", []
    if name == "rst":
        return "reset", []
    if name == "call":
        kw = {k: (mk_val(v) if isinstance(v, dict) and "t" in v else v) for k, v in op["kw"].items()}
        if "data" in kw:
            kw["data"] = mk_data(op["kw"]["data"])
        kw["CHs"] = mk_chs(op["chs"])
        return "__call__", [kw.get(k) for k in PPG_SIGNATURES["__call__"]]
    raise ValueError(name)


def _call_op(ppg, op, positional=True):
    m, args = op_call(op)
    f = getattr(ppg, m)
    if positional:
        return f(*args)
    return f(**dict(zip(PPG_SIGNATURES[m], args)))


def _jsonable(r):
    if r is None or isinstance(r, (bool, int, float, str)):
        return r
    if isinstance(r, np.ndarray):
        return {"shape": list(r.shape), "dtype": str(r.dtype), "v": r.tolist()}
    if isinstance(r, np.generic):
        return r.item()
    return repr(r)[:200]


def _run_hist_once(case, positional):
    from opticomlib.lab import PPG3204
    ppg = PPG3204()
    fake = None
    if not case.get("dry"):
        fake = FakeVisa()
        ppg.inst = fake
    ops_out = []
    for op in case["ops"]:
        rec = {}
        buf = io.StringIO()
        n0 = len(fake.log) if fake else 0
        with warnings.catch_warnings(record=True) as w, contextlib.redirect_stdout(buf):
            warnings.simplefilter("always")
            try:
                with time_limit(60):
                    ret = _call_op(ppg, op, positional)
                rec["status"] = "ok"
                rec["ret"] = _jsonable(ret)
            except Timeout as e:
                rec["status"] = "timeout"
                rec["detail"] = str(e)
            except Exception as e:  # noqa
                rec["status"] = "err"
                rec["err"] = exc_enum(e)
                rec["detail"] = repr(e)[:160]
        rec["warned"] = any(issubclass(x.category, UserWarning) for x in w)
        rec["nwarn"] = len(w)
        if fake:
            rec["cmds"] = list(fake.log[n0:])
        else:
            rec["cmds"] = [l for l in buf.getvalue().split("\n") if l != ""]
        ops_out.append(rec)
    try:
        del ppg.inst
    except AttributeError:
        pass
    return ops_out


def run_hist(case):
    ops_out = _run_hist_once(case, positional=True)
    # positional twin: the same history with every argument bound by its documented name
    kw_out = _run_hist_once(case, positional=False)
    diffs = []
    for op, a, b in zip(case["ops"], ops_out, kw_out):
        keys = ("status", "err", "warned", "cmds", "ret")
        if any(json.dumps(a.get(k), default=str) != json.dumps(b.get(k), default=str) for k in keys):
            k = next(k for k in keys if json.dumps(a.get(k), default=str) != json.dumps(b.get(k), default=str))
            diffs.append({"func": op_call(op)[0], "field": k, "positional": str(a.get(k))[:120], "keyword": str(b.get(k))[:120]})
    res = {"status": "ok", "ops": ops_out}
    if diffs:
        res["twin_diff"] = diffs
    return res


def sync_rx(case):
    """(tx bits, rx array) of a SYNC case; tx comes from the repo's own PRBS generator or is given literally"""
    if case["pat"]["k"] == "prbs":
        from opticomlib.devices import PRBS
        tx = np.array(PRBS(case["pat"]["order"], case["pat"]["n"], case["pat"].get("seed")).data, dtype=int)
    else:
        tx = np.array(case["pat"]["bits"], dtype=int)
    sps, d = case["sps"], case["d"]
    w = np.kron(tx, np.ones(max(sps, 0), dtype=int))
    l = len(w)
    if case.get("rxlen") is not None:           # short / arbitrary records: first rxlen samples of the periodic signal
        n = case["rxlen"]
    else:
        n = d + case["periods"] * l + case["extra"]
    if l == 0:
        rx = np.zeros(n, dtype=int)
    else:
        k = np.arange(n)
        rx = case["amp"] * w[(k - d) % l] + case.get("offset", 0)
        if case["fill"] == "zeros":
            rx[:d] = case.get("offset", 0)
    return tx, w, rx


CODE_LEVELS = {   # (level of slot 0, level of slot 1, noise sigma) using most of each acquisition dtype's range
    "int8": (-100, 100, 6), "int16": (2000, 30000, 500), "int32": (-2000000000, 2000000000, 50000000),
    "uint8": (20, 230, 6), "uint16": (1000, 60000, 1000), "float32": (0.1, 0.5, 0.02), "float64": (0.1, 0.5, 0.02),
}
PATTERN_KINDS = ["binary_sequence", "uint8", "int64", "bool", "float", "list"]
SYNC_SIGNATURE = ["signal_rx", "slots_tx", "sps"]          # documented positional order at /repo HEAD 8caea4c (literal)


def sync_record(case):
    """(tx, w, clean record as float array, the record handed to SYNC)"""
    tx, w, rx = sync_rx(case)
    if case.get("codes"):
        dt = case["codes"]["dtype"]
        lo, hi, sg = CODE_LEVELS[dt]
        l = len(w)
        k = np.arange(len(rx))
        clean = lo + (hi - lo) * w[(k - case["d"]) % l].astype(float)
        if case["fill"] == "zeros":
            clean[:case["d"]] = lo
        rs = np.random.RandomState(case["noise_seed"])
        x = clean + (sg * rs.standard_normal(len(rx)) if case["codes"].get("noisy", True) else 0.0)
        if dt.startswith(("int", "uint")):
            info = np.iinfo(dt)
            x = np.clip(np.round(x), info.min, info.max)
        return tx, w, clean, x.astype(dt)
    sigma = case.get("sigma", 0)
    if sigma:
        rs = np.random.RandomState(case["noise_seed"])
        rxf = rx.astype(float) + sigma * case["amp"] * rs.standard_normal(len(rx))
    elif case.get("dtype") == "int":
        rxf = rx.astype(np.int64)
    else:
        rxf = rx.astype(float)
    return tx, w, rx.astype(float), rxf


def pattern_object(tx, kind):
    from opticomlib.typing import binary_sequence
    if kind == "binary_sequence":
        return binary_sequence(tx)
    if kind == "list":
        return [int(b) for b in tx]
    return tx.astype({"uint8": np.uint8, "int64": np.int64, "bool": bool, "float": float}[kind])


def _sync_call(case, rxf, tx, positional):
    from opticomlib.lab import SYNC
    from opticomlib.typing import electrical_signal, binary_sequence, gv
    res = {}
    before = rxf.copy()
    form = case.get("form", "ndarray")
    try:
        with warnings.catch_warnings():
            warnings.simplefilter("ignore")
            with time_limit(60):
                if form == "objects":
                    old = gv.sps
                    try:
                        gv.sps = case["sps"]
                        args = [electrical_signal(rxf), binary_sequence(tx), None]
                        out, i = SYNC(*args) if positional else SYNC(**dict(zip(SYNC_SIGNATURE, args)))
                    finally:
                        gv.sps = old
                else:
                    args = [rxf, pattern_object(tx, case.get("pat_kind", "int64")), case["sps"]]
                    out, i = SYNC(*args) if positional else SYNC(**dict(zip(SYNC_SIGNATURE, args)))
        sig = np.asarray(out.signal)
        res.update(status="ok", index=int(i), outlen=int(sig.shape[0]) if sig.ndim == 1 else -1,
                   cls=type(out).__name__, sig_dtype=str(sig.dtype),
                   sig_ok=bool(sig.ndim == 1 and np.array_equal(sig, before[int(i):int(i) + sig.shape[0]])),
                   noise_none=bool(out.noise is None), rx_unchanged=bool(np.array_equal(rxf, before)))
    except Timeout as e:
        res.update(status="timeout", detail=str(e))
    except Exception as e:  # noqa
        res.update(status="err", err=exc_enum(e), detail=repr(e)[:160])
    return res


def run_sync(case):
    tx, w, clean, rxf = sync_record(case)
    res = {"l": int(len(w)), "n": int(len(rxf))}
    aper = True
    if len(w) > 1:
        W = np.concatenate([w, w])
        aper = not any(np.array_equal(W[m:m + len(w)], w) for m in range(1, len(w)))
    res["aperiodic"] = bool(aper)
    noisy = bool(case.get("sigma", 0)) or bool(case.get("codes"))
    if noisy and len(w) > 0 and len(rxf) >= 2 * len(w) - 1:
        # hypothesis of Props.C20.sync_margin_general evaluated numerically: ce(m) - ce(d) < cc(d) - cc(m) for all m != d
        l = len(w)
        cc = np.correlate(clean[:2 * l - 1], w.astype(float), "valid")
        ce = np.correlate((rxf.astype(float) - clean)[:2 * l - 1], w.astype(float), "valid")
        dd = case["d"]
        if dd < len(cc):
            slack = (cc[dd] - cc) - (ce - ce[dd])
            slack[dd] = np.inf
            tol = 1e-9 * (abs(cc[dd]) + 1.0)
            res["margin"] = bool(np.all(np.isfinite(cc)) and np.all(np.isfinite(ce)) and not np.any(~(slack > tol)))
            res["min_slack"] = float(np.min(slack))
            res["gap"] = float(np.min(np.delete(cc[dd] - cc, dd))) if len(cc) > 1 else None
            tot = np.sort(cc + ce)
            res["top_sep"] = float(tot[-1] - tot[-2]) if len(tot) > 1 else 1.0
    res.update(_sync_call(case, rxf, tx, positional=True))
    # positional twin: the same call with the arguments bound by the documented names must give the identical result
    kw = _sync_call(case, rxf.copy(), tx, positional=False)
    keys = ("status", "err", "index", "outlen", "cls", "sig_dtype", "sig_ok")
    if any(kw.get(k) != res.get(k) for k in keys):
        res["twin_diff"] = {k: [res.get(k), kw.get(k)] for k in keys if kw.get(k) != res.get(k)}
    return res


def run_impl(case):
    try:
        if case["kind"] == "hist":
            return run_hist(case)
        return run_sync(case)
    except Timeout as e:
        return {"status": "timeout", "detail": str(e)}
    except Exception as e:  # noqa  (harness-level failure of a whole case)
        return {"status": "err", "err": exc_enum(e), "detail": repr(e)[:200]}


# ------------------------------------------------------------------------------------------------------------------
# model requests / comparison
# ------------------------------------------------------------------------------------------------------------------

def op_modelable(op):
    name = op["op"]
    if name == "call":
        return False
    if "v" in op and isinstance(op["v"], dict):
        if not all(finite(x) for x in val_items(op["v"])):
            return False
    if name == "mode" and not isinstance(op["m"], str):
        return False
    return True


def enc_op(op):
    name = op["op"]
    if name in ("pattlen", "order", "bsh", "skew", "volt", "offs"):
        return f"{name} {enc_val(op['v'])} {enc_chs(op['chs'])}"
    if name == "freq":
        return f"freq {enc_val(op['v'])}"
    if name == "mode":
        m = op["m"].upper()
        return f"mode {'data' if m == 'DATA' else 'prbs' if m == 'PRBS' else 'other'} {enc_chs(op['chs'])}"
    if name == "outp":
        return f"outp {1 if op['on'] else 0} {enc_chs(op['chs'])}"
    if name == "setdata":
        return f"setdata {enc_data(op['d'])} {op['start']} {enc_chs(op['chs'])}"
    if name == "getdata":
        return f"getdata {op['size']} {op['start']} {enc_chs(op['chs'])}"
    if name == "get":
        return f"get {op['q']} {enc_chs(op['chs'])}"
    if name == "getfreq":
        return "getfreq"
    if name == "rst":
        return "rst"
    raise ValueError(name)


def model_requests(case, res):
    if case["kind"] == "hist":
        if case.get("dry") and any(o["op"] == "getdata" for o in case["ops"]):
            return []
        if not all(op_modelable(o) for o in case["ops"]):
            return []
        return ["ppg.hist " + " ".join([str(len(case["ops"]))] + [enc_op(o) for o in case["ops"]])]
    if res.get("status") == "timeout":
        return []
    tx, w, clean, rxf = sync_record(case)
    if case.get("pat_kind") == "list":
        return []                         # documented TypeError before any computation; oracle only
    head = [str(case["sps"]), str(len(tx))] + [str(int(b)) for b in tx] + [str(len(rxf))]
    if rxf.dtype.kind in "iu":            # integer codes (also the noisy ones): exact integer model
        return ["ppg.sync " + " ".join(head + [str(int(x)) for x in rxf])]
    if case.get("sigma", 0) or case.get("codes"):
        if len(w) > 300 or len(w) == 0:
            return []                     # exact rational run only for short waveforms (cost l^2 rational operations)
        return ["ppg.syncq " + " ".join(head + [frat(Fraction(float(x))) for x in rxf])]
    return ["ppg.sync " + " ".join(head + [str(int(x)) for x in rxf])]


def parse_model_segment(seg):
    """`ok w n cmd… [res …]` | `err E`  ->  dict"""
    t = seg.split()
    if t[0] == "err":
        return {"status": "err", "err": t[1]}
    out = {"status": "ok", "warned": t[1] == "1", "cmds": []}
    n = int(t[2])
    i = 3
    for _ in range(n):
        k = t[i]
        if k == "S":
            out["cmds"].append(("S", t[i + 1], int(t[i + 2]), Fraction(t[i + 3])))
            i += 4
        elif k == "F":
            out["cmds"].append(("F", Fraction(t[i + 1])))
            i += 2
        elif k in ("M", "O"):
            out["cmds"].append((k, int(t[i + 1]), t[i + 2] == "1"))
            i += 3
        elif k == "D":
            bits = "" if t[i + 5] == "-" else t[i + 5]
            out["cmds"].append(("D", int(t[i + 1]), int(t[i + 2]), int(t[i + 3]), int(t[i + 4]), bits))
            i += 6
        elif k == "G":
            out["cmds"].append(("G", t[i + 1], int(t[i + 2])))
            i += 3
        elif k == "DQ":
            out["cmds"].append(("DQ", int(t[i + 1]), int(t[i + 2]), int(t[i + 3])))
            i += 4
        elif k in ("FQ", "R"):
            out["cmds"].append((k,))
            i += 1
        else:
            raise ValueError(f"model command {k}")
    if i < len(t) and t[i] == "res":
        m = int(t[i + 1])
        out["res"] = [("" if x == "-" else x) for x in t[i + 2:i + 2 + m]]
    return out


def cmd_agrees(mc, raw):
    """model command tuple vs the string the implementation sent"""
    p = parse_cmd(raw)
    k = mc[0]
    if k == "S":
        if p[0] != "S" or p[1] != mc[1] or p[2] != mc[2]:
            return False
        tok = p[3]
        if mc[1] in ("volt", "offsNeg", "offsPos"):
            want = format(float(mc[3]), ".1f")                 # printf rounding applied by the harness (partial clause)
            return tok == want or (tok in ("0.0", "-0.0") and want in ("0.0", "-0.0"))   # the sign of zero is not modelled
        try:
            return Fraction(Decimal(tok)) == mc[3]
        except Exception:  # noqa
            return False
    if k == "F":
        return p[0] == "F" and p[1] == format(float(mc[1]), ".5e")
    if k == "M":
        return p[0] == "M" and p[1] == mc[1] and (p[2] == "PRBS") == mc[2]
    if k == "O":
        return p[0] == "O" and p[1] == mc[1] and (p[2] == "ON") == mc[2]
    if k == "D":
        return p[0] == "D" and p[1:5] == mc[1:5] and p[5] == str(mc[3]) and p[6] == mc[5]
    if k == "G":
        return p[0] == "G" and p[1] == mc[1] and p[2] == mc[2]
    if k == "DQ":
        return p == mc
    return p == mc


def compare(case, res, reqs, replies):
    if not reqs:
        return []
    rep = replies[0]
    if case["kind"] == "sync":
        return compare_sync(case, res, rep, reqs[0].startswith("ppg.syncq "))
    if res.get("status") != "ok":
        return [f"harness could not run the history: {res}"]
    if not rep.startswith("ok ;"):
        return [f"model rejected the request: {rep[:200]}"]
    segs = [s.strip() for s in rep[4:].split(" ; ")]
    if len(segs) != len(res["ops"]):
        return [f"model produced {len(segs)} segments for {len(res['ops'])} operations"]
    out = []
    for j, (seg, r, op) in enumerate(zip(segs, res["ops"], case["ops"])):
        m = parse_model_segment(seg)
        tag = f"op {j} {op['op']}"
        if r["status"] != m["status"]:
            out.append(f"{tag}: model {m['status']} {m.get('err', '')}, implementation {r['status']} {r.get('err', '')} {r.get('detail', '')}")
            continue
        if m["status"] == "err":
            if m["err"] != r["err"]:
                out.append(f"{tag}: model raises {m['err']}, implementation {r['err']} ({r.get('detail')})")
            if r["cmds"]:
                out.append(f"{tag}: implementation sent {r['cmds'][:2]} before raising")
            continue
        if m["warned"] != r["warned"]:
            out.append(f"{tag}: model warned={m['warned']}, implementation warned={r['warned']}")
        if len(m["cmds"]) != len(r["cmds"]):
            out.append(f"{tag}: model emits {len(m['cmds'])} commands, implementation {len(r['cmds'])}: {r['cmds'][:3]}")
            continue
        for mc, raw in zip(m["cmds"], r["cmds"]):
            if not cmd_agrees(mc, raw):
                out.append(f"{tag}: model command {str(mc)[:120]} != implementation {raw[:120]!r}")
                break
        if op["op"] == "getdata":
            ret = r.get("ret")
            got = None
            if isinstance(ret, dict) and len(ret["shape"]) == 2:
                got = ["".join(str(int(b)) for b in row) for row in ret["v"]]
            elif isinstance(ret, dict) and ret["shape"] == [0]:
                got = []
            if got != m.get("res"):
                out.append(f"{tag}: get_data returned {str(ret)[:100]}, model {str(m.get('res'))[:100]}")
    return out


def compare_sync(case, res, rep, rational=False):
    t = rep.split()
    if res["status"] == "timeout":
        return []
    if rational:                          # `ppg.syncq`: the same definitions run over Rat on the noisy record
        if t[0] == "err":
            return [] if (res["status"] == "err" and res["err"] == t[1]) else \
                [f"rational model raises {t[1]}, implementation {res.get('index', res.get('err'))}"]
        if res["status"] != "ok":
            return [f"rational model returns index {t[1]}, implementation raises {res.get('err')} ({res.get('detail')})"]
        out = []
        if res["index"] != int(t[1]) and not (res.get("top_sep", 1.0) <= 1e-6):   # unless a floating-point near-tie of the two best lags
            out.append(f"rational model argmax {t[1]}, implementation {res['index']}")
        if res["outlen"] != int(t[2]):
            out.append(f"rational model signal length {t[2]}, implementation {res['outlen']}")
        return out
    if t[0] == "err":
        if res["status"] != "err":
            if len(t) >= 6 and _near(int(t[4]), int(t[5])):
                return []
            return [f"model raises {t[1]}, implementation returned index {res.get('index')}"]
        return [] if res["err"] == t[1] else [f"model raises {t[1]}, implementation {res['err']} ({res.get('detail')})"]
    # ok i outlen uniq mx lhs rhs
    i, outlen, uniq, lhs, rhs = int(t[1]), int(t[2]), t[3] == "1", int(t[5]), int(t[6])
    if res["status"] != "ok":
        if _near(lhs, rhs):
            return []
        return [f"model returns index {i}, implementation raises {res.get('err')} ({res.get('detail')})"]
    out = []
    if uniq and res["index"] != i:
        out.append(f"model argmax {i}, implementation {res['index']}")
    if res["outlen"] != outlen:
        out.append(f"model signal length {outlen}, implementation {res['outlen']}")
    if not res["sig_ok"]:
        out.append("returned signal is not rx[i : i+len]")
    return out


def _near(a, b):
    """exact integers from the model (never NaN)"""
    return abs(a - b) <= 1e-9 * max(abs(a), abs(b), 1)


# ------------------------------------------------------------------------------------------------------------------
# oracle (independent of the Lean model)
# ------------------------------------------------------------------------------------------------------------------

def ref_channels(c):
    xs = chs_items(c)
    if xs is None:
        return [1, 2, 3, 4], False
    bad = any(x < 1 or x > 4 for x in xs) or len(xs) > 4
    return [min(max(x, 1), 4) for x in xs][:4], bad


def chans_of(op):
    return ref_channels(op["chs"])[0]


def _tok_value(tok):
    try:
        return Fraction(Decimal(tok))
    except Exception:  # noqa
        return None


def oracle_hist(case, res):
    v = []
    if res.get("status") != "ok":
        return [("C20:harness", f"history could not be run: {res}")]
    refmem = {ch: {} for ch in range(1, 5)}
    refstate = {}
    mem_defined = True
    for j, (op, r) in enumerate(zip(case["ops"], res["ops"])):
        name = op["op"]
        where = f"op {j} {name}"
        if r["status"] == "timeout":
            v.append((f"C20:timeout:{name}", f"{where} did not return"))
            continue
        cmds = [parse_cmd(s) for s in r["cmds"]]
        # ---- clause 1: every emitted command addresses channel 1..4 and carries an in-range value
        for raw, p in zip(r["cmds"], cmds):
            t = p[0]
            if t == "?":
                v.append((f"C20:unknown-command:{name}", f"{where}: sent {raw[:80]!r}"))
                continue
            ch = p[2] if t in ("S", "G") else p[1] if t in ("M", "O", "D", "DQ") else None
            if ch is not None and not 1 <= ch <= 4:
                v.append((f"C20:channel-range:{name}", f"{where}: command {raw[:60]!r} addresses channel {ch}"))
            if t in ("S", "F") and (p[3] if t == "S" else p[1]).lower().lstrip("+-") == "nan":
                # a NaN is inside no limit: violation of "carries a value inside the documented limits" (own narrow sig;
                # NaN requests are generated only with VERIF_SUSPECT=1, see PARTIAL)
                v.append((f"C20:nan-sent:{name}", f"{where}: command {raw!r} carries NaN (request {op.get('v', {}).get('v')!r})"))
                continue
            if t == "S":
                kind, tok = p[1], p[3]
                x = _tok_value(tok)
                if x is None:
                    v.append((f"C20:range:{kind}", f"{where}: non-numeric value in {raw!r}"))
                elif kind == "prbsOrder":
                    if x not in DOC_ORDERS:
                        v.append(("C20:range:prbsOrder", f"{where}: {raw!r} carries an unsupported PRBS order"))
                elif kind in ("offsNeg", "offsPos"):
                    lo, hi = DOC["offs"]
                    ok = (lo <= x <= 0) if kind == "offsNeg" else (0 <= x <= hi)
                    if not ok:
                        v.append(("C20:range:offs", f"{where}: {raw!r} outside -2..3 V (or wrong sign branch)"))
                elif kind in DOC:
                    lo, hi = DOC[kind]
                    if not lo <= x <= hi:
                        v.append((f"C20:range:{kind}", f"{where}: {raw!r} outside the documented limits [{float(lo)}, {float(hi)}]"))
            if t == "F":
                x = _tok_value(p[1])
                lo, hi = DOC["freq"]
                if x is None or not lo <= x <= hi:
                    v.append(("C20:range:freq", f"{where}: {raw!r} outside 1.5..32 GHz"))
            if t == "D":
                _, ch, addr, n, k, hdr, bits = p
                if n > 1024 or len(bits) > 1024:
                    v.append(("C20:block-size", f"{where}: block of {max(n, len(bits))} bits"))
                if hdr != str(n) or k != len(str(n)) or len(bits) != n or any(c not in "01" for c in bits):
                    v.append(("C20:header", f"{where}: header #{k}{hdr} does not describe the {len(bits)} bits that follow (n={n})"))
            if t == "DQ":
                if p[3] > 1024 or p[3] < 1:
                    v.append(("C20:block-size", f"{where}: read-back block of {p[3]} bits"))
                if p[2] < 1 or p[2] + p[3] - 1 > MAXMEM:
                    v.append(("C20:address", f"{where}: read-back {raw!r} outside the memory"))
        # ---- clause 2: clamped with a warning, never an error (well-typed requests)
        well_typed = True
        if name in ("pattlen", "order") and op["v"]["t"] == "f":
            well_typed = False
        if name == "freq" and op["v"]["t"] == "l":
            well_typed = False
        if name == "mode" and op["m"].upper() not in ("DATA", "PRBS"):
            well_typed = False
        if name == "setdata":
            two, rows = data_rows(op["d"])
            if two and len({len(x) for x in rows}) > 1:
                well_typed = False
        if name == "getdata" and case.get("dry"):
            well_typed = False
        if name == "call":
            well_typed = True
        if name == "setdata" and not 1 <= op["start"] <= MAXMEM:
            mem_defined = False               # outside the statement's quantifier: only clause 1 (above) is demanded
            continue
        near_end_2d = False
        if name == "setdata":
            two_, rows_ = data_rows(op["d"])
            lim_ = MAXMEM - op["start"] + 1
            # per-channel data next to the end of the memory (defect repaired by e1248f9: the length test used the row count)
            near_end_2d = bool(two_ and rows_ and len({len(x) for x in rows_}) == 1 and (len(rows_[0]) > lim_ or len(rows_) > lim_))
        if not well_typed:
            if r["status"] == "ok" and name != "getdata":
                v.append((f"C20:type-accepted:{name}", f"{where}: ill-typed request accepted, sent {r['cmds'][:2]}"))
            if r["cmds"] and name not in ("getdata",):
                v.append((f"C20:sent-before-error:{name}", f"{where}: commands sent for a rejected request: {r['cmds'][:2]}"))
            continue
        if r["status"] != "ok":
            if near_end_2d:
                v.append(("C20:setdata-2d-memory-end", f"{where}: 2-D data at address {op['start']}: raised {r.get('detail')}, sent {r['cmds'][:2]}"))
            else:
                v.append((f"C20:error:{name}:{r.get('err')}", f"{where}: raised {r.get('detail')} instead of clamping"))
            continue
        chans, ch_bad = (ref_channels(op["chs"]) if "chs" in op else ([], False))
        if ch_bad and not r["warned"]:
            v.append((f"C20:no-warning:channels:{name}", f"{where}: channels {chs_items(op['chs'])} clipped without a warning"))
        # per kind: expected channels / values
        if name in ("pattlen", "skew", "volt", "offs", "bsh", "order"):
            xs = val_items(op["v"])
            if op["v"]["t"] != "l":
                xs = xs * len(chans)
            pairs = list(zip(chans, xs))
            if len(cmds) != len(pairs):
                v.append((f"C20:command-count:{name}", f"{where}: {len(cmds)} commands for {len(pairs)} (channel, value) pairs"))
            kind = {"pattlen": "pattLen", "skew": "skew", "volt": "volt", "offs": "offs", "bsh": "bitsShift",
                    "order": "prbsOrder"}[name]
            allx = [x for _, x in pairs]      # values actually requested for a channel (surplus list entries are ignored by zip)
            if kind in DOC:
                lo, hi = DOC[kind]
                outside = any((not finite(x)) or not lo <= dec(x) <= hi for x in allx)
                if outside and not r["warned"]:
                    v.append((f"C20:no-warning:{name}", f"{where}: out-of-range request {allx[:4]} without a warning"))
            for (ch, x), p, raw in zip(pairs, cmds, r["cmds"]):
                if p[0] != "S" or p[2] != ch:
                    v.append((f"C20:channel-order:{name}", f"{where}: expected a command for channel {ch}, got {raw[:60]!r}"))
                    continue
                got = _tok_value(p[3])
                if got is None:            # nan / inf / text: already reported by clause 1 (C20:nan-sent / C20:range)
                    assert any(sg.startswith(("C20:nan-sent", "C20:range")) for sg, _ in v)
                    continue
                if kind in DOC:
                    lo, hi = DOC[kind]
                    if not finite(x):
                        want = hi if x > 0 else lo
                    else:
                        want = min(max(dec(x), lo), hi)
                    tol = Fraction(1, 20) if kind in ("volt", "offs") else 0
                    if not (abs(got - want) <= tol):
                        v.append((f"C20:value:{name}", f"{where}: requested {x!r} for channel {ch}, sent {raw!r}, required {float(want)!r}"))
                    refstate[(kind, ch)] = want
                elif kind == "prbsOrder":
                    if finite(x):
                        xi = int(x)
                        best = min(abs(o - xi) for o in DOC_ORDERS)
                        if dec(x) in DOC_ORDERS:
                            if got != dec(x):
                                v.append(("C20:value:order", f"{where}: supported order {x!r} sent as {raw!r}"))
                        else:
                            if abs(got - xi) != best:
                                v.append(("C20:value:order", f"{where}: order {x!r} snapped to {raw!r}, not a nearest supported order"))
                            if not r["warned"]:
                                v.append(("C20:no-warning:order", f"{where}: unsupported order {x!r} without a warning"))
                        refstate[(kind, ch)] = got
                else:  # bits shift: no documented clamp in the statement; value must be the requested one
                    if finite(x) and got != dec(x):
                        v.append(("C20:value:bsh", f"{where}: bit shift {x!r} sent as {raw!r}"))
                    refstate[(kind, ch)] = got
        elif name == "freq":
            x = val_items(op["v"])[0]
            lo, hi = DOC["freq"]
            if len(cmds) != 1 or cmds[0][0] != "F":
                v.append(("C20:command-count:freq", f"{where}: sent {r['cmds']}"))
            else:
                want = (hi if x > 0 else lo) if not finite(x) else min(max(dec(x), lo), hi)
                got = _tok_value(cmds[0][1])
                if got is not None and not (abs(got - want) <= want * Fraction(1, 10 ** 5)):   # got None: reported by clause 1
                    v.append(("C20:value:freq", f"{where}: requested {x!r}, sent {r['cmds'][0]!r}"))
                if ((not finite(x)) or not lo <= dec(x) <= hi) and not r["warned"]:
                    v.append(("C20:no-warning:freq", f"{where}: out-of-range frequency {x!r} without a warning"))
                refstate[("freq", 0)] = want
        elif name in ("mode", "outp", "get"):
            want_t = {"mode": "M", "outp": "O", "get": "G"}[name]
            if [p[0] for p in cmds] != [want_t] * len(chans) or \
                    [(p[2] if want_t == "G" else p[1]) for p in cmds if p[0] == want_t] != chans:
                v.append((f"C20:channel-order:{name}", f"{where}: channels {chans} expected, sent {r['cmds'][:4]}"))
            if name == "mode":
                for p in cmds:
                    if p[0] == "M" and p[2] != op["m"].upper():
                        v.append(("C20:value:mode", f"{where}: mode {op['m']!r} sent as {p[2]}"))
            if name == "get" and not case.get("dry"):
                ret = r.get("ret")
                kind = op["q"]
                if isinstance(ret, dict) and kind in ("pattLen", "skew", "prbsOrder", "bitsShift"):
                    for ch, got in zip(chans, ret["v"]):
                        if (kind, ch) in refstate:
                            want = refstate[(kind, ch)]
                            if kind in ("pattLen", "prbsOrder", "bitsShift"):
                                want = int(want)   # the instrument answers integers
                            if not (float(got) == float(want)):
                                v.append((f"C20:get:{kind}", f"{where}: channel {ch} returns {got!r} after setting {float(want)!r}"))
                if not isinstance(ret, dict) or ret["shape"] != [len(chans)]:
                    v.append((f"C20:get-shape:{kind}", f"{where}: returned {str(ret)[:80]} for channels {chans}"))
        elif name == "setdata":
            two, rows = data_rows(op["d"])
            start = op["start"]
            lim = MAXMEM - start + 1
            if not two:
                bits = [1 if b else 0 for b in rows[0]]
                if len(bits) > lim:
                    bits = bits[:lim]
                    if not r["warned"]:
                        v.append(("C20:no-warning:setdata", f"{where}: data longer than the memory truncated without a warning"))
                per = [(ch, bits) for ch in chans]
            else:
                if rows and len(rows[0]) > lim and not r["warned"]:
                    v.append(("C20:no-warning:setdata", f"{where}: rows longer than the memory truncated without a warning"))
                per = [(ch, [1 if b else 0 for b in row][:lim]) for ch, row in zip(chans, rows)]
            n_before = len(v)
            k = 0
            for ch, bits in per:
                want_blocks = [bits[i:i + 1024] for i in range(0, len(bits), 1024)] or [[]]
                addr = start
                for blk in want_blocks:
                    if k >= len(cmds):
                        v.append(("C20:blocks-missing", f"{where}: only {len(cmds)} blocks sent"))
                        break
                    p = cmds[k]
                    k += 1
                    s = "".join(map(str, blk))
                    if p[0] != "D" or p[1] != ch or p[2] != addr or p[6] != s:
                        what = "address" if (p[0] == "D" and p[1] == ch and p[6] == s) else "content"
                        v.append((f"C20:blocks:{what}", f"{where}: channel {ch}: expected block of {len(blk)} bits at address {addr}, "
                                                        f"got {r['cmds'][k - 1][:50]!r}…"))
                        break
                    addr += len(blk)
                    for i, b in enumerate(blk):
                        refmem[ch][p[2] + i] = b
            if k < len(cmds) and not any(s.startswith("C20:blocks") for s, _ in v):
                v.append(("C20:blocks-extra", f"{where}: {len(cmds) - k} unexpected extra commands, first {r['cmds'][k][:50]!r}"))
            if near_end_2d and len(v) > n_before:
                msg = "; ".join(m_ for _, m_ in v[n_before:])[:300]
                del v[n_before:]
                v.append(("C20:setdata-2d-memory-end", f"{where}: {len(rows)} rows of {len(rows[0])} bits at address {start}: {msg}"))
        elif name == "getdata":
            if not mem_defined:
                continue
            start = min(max(op["start"], 1), MAXMEM)
            size = min(max(op["size"], 1), MAXMEM - start + 1)
            if (start != op["start"] or size != op["size"]) and not r["warned"]:
                v.append(("C20:no-warning:getdata", f"{where}: (size,start)=({op['size']},{op['start']}) clamped without a warning"))
            ret = r.get("ret")
            want = [[refmem[ch].get(start + i, 0) for i in range(size)] for ch in chans]
            if not isinstance(ret, dict) or ret["v"] != want:
                shp = ret.get("shape") if isinstance(ret, dict) else None
                v.append(("C20:roundtrip", f"{where}: get_data({op['size']},{op['start']},{chs_items(op['chs'])}) returned shape {shp}, "
                                           f"differs from the bits written (first row {str(ret.get('v', [[]])[0][:16]) if isinstance(ret, dict) and ret.get('v') else ret!s:.60}…)"))
            # blocks of the read-back: consecutive, <= 1024, covering the range once per channel
            k = 0
            for ch in chans:
                addr, left = start, size
                while left > 0:
                    n = min(1024, left)
                    if k >= len(cmds) or cmds[k] != ("DQ", ch, addr, n):
                        v.append(("C20:read-blocks", f"{where}: expected query ({ch},{addr},{n}), sent {r['cmds'][k][:60] if k < len(cmds) else None!r}"))
                        left = 0
                        break
                    k += 1
                    addr += n
                    left -= n
        elif name == "rst":
            refmem = {ch: {} for ch in range(1, 5)}
            refstate = {}
        elif name == "getfreq":
            pass
    return v


def oracle_sync(case, res):
    if res.get("status") == "timeout":
        return [("C20:sync-timeout", "SYNC did not return")]
    l, n = res["l"], res["n"]
    d = case["d"]
    if l > 0 and n < l:
        if not (res["status"] == "err" and res["err"] == "BufferError"):
            return [("C20:sync-short-record", f"record of {n} samples shorter than the pattern ({l}) must raise BufferError, got {res}")]
        return []
    if res["status"] == "err" and res.get("err") == "BufferError":
        return [("C20:sync-buffer-error", f"record of {n} samples >= pattern {l} rejected with BufferError")]
    if case.get("pat_kind") == "list" and res["status"] == "err" and res.get("err") == "TypeError":
        return []                         # documented: slots_tx must be a binary_sequence or an ndarray
    demanded = (case["pat"]["k"] == "prbs" and case["pat"]["n"] >= 32 and case["sps"] >= 1 and res["aperiodic"]
                and case.get("rxlen") is None and case["periods"] >= 2 and d < l and case["amp"] > 0
                and case.get("offset", 0) == 0)
    if case.get("codes") and case.get("fill") != "cyclic":
        # raw-code records (int8 -100/+100, int32 +-2e9 ...) are bipolar: a prefix of ZERO codes is the mid level, not the
        # pattern's baseline, so the record is not "the pattern's waveform repeated and delayed"; SYNC's own 3*std acceptance
        # test may (and for delays near one pattern length does) reject it — seeds 71..79 of a sweep.  Such records are still
        # run (dtype handling, the margin theorem) but acceptance is demanded only for the cyclic fill of the statement.
        demanded = False
    if case.get("sigma", 0) > 0.2:
        demanded = False                  # beyond "moderate noise": only the decision-margin theorem says anything (index d
                                          # when the margin hypothesis holds and the record is not rejected by the 3*std test)
    v = []
    if res.get("margin") and res["status"] == "ok" and res["index"] != d:
        # deterministic consequence of sync_margin_general: the noise moved no competing lag past the true peak
        v.append(("C20:sync-margin", f"margin hypothesis holds (min slack {res.get('min_slack'):.3g}) but SYNC returned {res['index']}, "
                                     f"delay is {d}: {json.dumps(case)[:200]}"))
        return v
    if demanded:
        if res["status"] != "ok":
            v.append(("C20:sync-rejected", f"PRBS{case['pat']['order']}[{case['pat']['n']}] sps={case['sps']} d={d} fill={case['fill']} "
                                           f"sigma={case.get('sigma', 0)} record={(case.get('codes') or {}).get('dtype', 'float64')} pattern={case.get('pat_kind', 'int64')}: "
                                           f"{res.get('detail')}"))
        else:
            if res["index"] != d:
                v.append(("C20:sync-index", f"PRBS{case['pat']['order']}[{case['pat']['n']}] sps={case['sps']} fill={case['fill']} "
                                            f"sigma={case.get('sigma', 0)} record={(case.get('codes') or {}).get('dtype', 'float64')} pattern={case.get('pat_kind', 'int64')}: "
                                            f"returned {res['index']}, delay is {d}"))
            if not res["sig_ok"] or res["outlen"] != n - l or res["cls"] != "electrical_signal":
                v.append(("C20:sync-signal", f"returned signal (len {res['outlen']}, {res['cls']}) is not the record from sample {res['index']} on"))
    elif res["status"] == "ok" and res["aperiodic"] and not case.get("sigma") and not case.get("codes") and l > 0 \
            and case.get("rxlen") is None \
            and case["periods"] >= 2 and d < l and case["amp"] > 0 and case["fill"] == "cyclic":
        if res["index"] != d:
            v.append(("C20:sync-index", f"aperiodic pattern, noise-free: returned {res['index']}, delay is {d}"))
        if not res["sig_ok"]:
            v.append(("C20:sync-signal", "returned signal is not the record from the returned index on"))
    if res["status"] == "ok" and not res.get("rx_unchanged", True):
        v.append(("C20:sync-mutates-input", "SYNC modified the received array"))
    return v


def oracle(case, res):
    v = oracle_hist(case, res) if case["kind"] == "hist" else oracle_sync(case, res)
    td = res.get("twin_diff")
    if td:
        if case["kind"] == "hist":
            for d_ in td[:3]:
                v.append((f"C20:positional:{d_['func']}", f"{d_['func']} called positionally in the documented order {PPG_SIGNATURES[d_['func']]} "
                                                          f"differs from the keyword call in {d_['field']}: {d_['positional']} vs {d_['keyword']}"))
        else:
            v.append(("C20:positional:SYNC", f"SYNC called positionally in the documented order {SYNC_SIGNATURE} differs from the keyword call: {td}"))
    return v


# ------------------------------------------------------------------------------------------------------------------
# generators
# ------------------------------------------------------------------------------------------------------------------

def _nx(x, up):
    return math.nextafter(x, math.inf if up else -math.inf)


def float_points(lo, hi):
    pts = []
    for L in (lo, hi):
        base = abs(L)
        for k in range(-3, 4):
            pts.append(L * 10.0 ** k)
        pts += [float(L), _nx(float(L), True), _nx(float(L), False), L * (1 + 1e-9), L * (1 - 1e-9),
                L + base * 1e-3, L - base * 1e-3, L + 0.05 * base, L - 0.05 * base, -L]
    pts += [0.0, -0.0, (lo + hi) / 2, lo + (hi - lo) * 0.25, 1e30, -1e30, 5e-324]
    return pts


INT_POINTS = {
    "pattlen": [0, 1, 2, 3, 1000, 2 ** 21 - 1, 2 ** 21, 2 ** 21 + 1, -1, -2 ** 21, INT62] + [2 * 10 ** k for k in range(1, 9)]
               + [2 ** 21 * 10 ** k for k in range(1, 4)] + [2 ** 21 // 10 ** k for k in range(1, 4)],
    "order": list(range(-2, 36)) + [40, 100, 1000, 10 ** 6, 2 ** 31, 2 ** 40, -7, -31],
    "bsh": [0, 1, -1, 10, 2 ** 30 - 1, 2 ** 30, -(2 ** 30), 2 ** 40],
    "skew": [0, 1, -1],
    "volt": [0, 1, 2, 3, -1, 20, 200],
    "offs": [-3, -2, -1, 0, 1, 2, 3, 4, 30, -20, 300],
    "freq": [0, 1, 15 * 10 ** 8 - 1, 15 * 10 ** 8, 15 * 10 ** 8 + 1, 10 ** 10, 32 * 10 ** 9 - 1, 32 * 10 ** 9, 32 * 10 ** 9 + 1,
             15 * 10 ** 5, 15 * 10 ** 11, 32 * 10 ** 6, 32 * 10 ** 12, -10 ** 10, INT62],
}
FLOAT_POINTS = {
    "pattlen": float_points(2.0, 2.0 ** 21) + [2.5, 1000.0],
    "order": [7.0, 9.0, 31.0, 8.9, 8.0, 13.0, 19.0, 27.0, 6.2, 31.5, 1e6, -3.5, 0.0, 15.999, 23.0001],
    "bsh": [0.0, 1.5, -2.0, 1e9],
    "skew": float_points(-25e-12, 25e-12) + [1e-12, -1e-12, 0.5e-12, 2.49999e-11, 2.50001e-11],
    "volt": float_points(0.3, 2.0) + [0.25, 0.349, 0.35, 0.29, 0.299, 1.95, 1.96, 2.04, 2.05, 0.3 + 1e-12, 0.3 - 1e-12],
    "offs": float_points(-2.0, 3.0) + [-0.04, -0.05, -0.051, 0.04, 2.95, 2.96, 3.04, -1.96, -2.04, -2.05, 3.05],
    "freq": float_points(1.5e9, 32e9) + [1.4999999e9, 1.49999949e9, 31999999999.9, 3.2000001e10, 3.20000049e10, 1e10],
}
SETTERS = ["pattlen", "order", "bsh", "skew", "volt", "offs"]


def rand_scalar(rng, name, allow_float=True):
    r = rng.random()
    if r < 0.35 or not allow_float:
        if r < 0.2:
            return rng.choice(INT_POINTS[name])
        lo, hi = {"pattlen": (-10, 3 * 2 ** 21), "order": (-5, 40), "bsh": (-2 ** 31, 2 ** 31), "skew": (-2, 2), "volt": (-2, 5),
                  "offs": (-5, 6), "freq": (0, 64 * 10 ** 9)}[name]
        return rng.randint(lo, hi)
    if r < 0.7:
        return rng.choice(FLOAT_POINTS[name])
    lo, hi = {"pattlen": (2.0, 2.0 ** 21), "order": (7.0, 31.0), "bsh": (-100.0, 100.0), "skew": (-25e-12, 25e-12),
              "volt": (0.3, 2.0), "offs": (-2.0, 3.0), "freq": (1.5e9, 32e9)}[name]
    if rng.random() < 0.5:
        return rng.uniform(lo - 0.3 * (hi - lo), hi + 0.3 * (hi - lo))
    L = rng.choice([lo, hi])
    return L * 10 ** rng.uniform(-3, 3) * rng.choice([1, 1, 1, -1])


def rand_val(rng, name, scalar_float_ok=True):
    r = rng.random()
    if r < 0.45:
        x = rand_scalar(rng, name, allow_float=True)
        if isinstance(x, float) and not scalar_float_ok and rng.random() < 0.9:
            x = rand_scalar(rng, name, allow_float=False)
        return {"t": "i", "v": x} if isinstance(x, int) else {"t": "f", "v": x}
    n = rng.choice([0, 1, 2, 3, 4, 4, 4, 5, 6])
    kind = rng.choice(["int", "float", "mixed"])
    xs = []
    for _ in range(n):
        x = rand_scalar(rng, name, allow_float=(kind != "int"))
        if kind == "float":
            x = float(x)
        if isinstance(x, int) and abs(x) > 2 ** 53 and kind != "int":
            x = x % 1000
        if isinstance(x, int) and abs(x) >= INT62:
            x = INT62 - 1 if x > 0 else -(INT62 - 1)
        xs.append(x)
    return {"t": "l", "k": rng.choice(["list", "list", "tuple", "ndarray"]), "v": xs}


def rand_chs(rng):
    r = rng.random()
    if r < 0.2:
        return None
    if r < 0.45:
        return rng.choice([1, 2, 3, 4, 0, 5, -1, 9, -3, 100, INT62 - 1])
    n = rng.choice([0, 1, 2, 3, 4, 4, 5, 6, 8])
    pool = rng.choice([[1, 2, 3, 4], [1, 2, 3, 4], [0, 1, 2, 3, 4, 5], [-7, 0, 1, 4, 5, 6, 99], [2], [4, 5]])
    xs = [rng.choice(pool) for _ in range(n)]
    if rng.random() < 0.4 and n <= 4:
        xs = rng.sample([1, 2, 3, 4], min(n, 4))
    return {"k": rng.choice(["list", "list", "tuple", "ndarray"]), "v": xs}


DATA_LENS = [1, 2, 3, 9, 10, 99, 100, 999, 1000, 1023, 1024, 1025, 2047, 2048, 2049, 3072, 4097]


def rand_data(rng, length, nrows=None):
    def bits(n):
        mode = rng.random()
        if mode < 0.1:
            return [1] * n
        if mode < 0.2:
            return [0] * n
        x = rng.getrandbits(max(n, 1))
        return [(x >> i) & 1 for i in range(n)]
    if nrows:
        return {"k": "rows", "v": [bits(length) for _ in range(nrows)]}
    b = bits(length)
    k = rng.choice(["str", "list", "list", "ndarray"])
    if k == "str":
        if length == 0:
            k = "list"
        else:
            return {"k": "str", "v": "".join(map(str, b))}
    if k == "list" and rng.random() < 0.15:
        b = [x * rng.choice([1, 2, -1, 7]) for x in b]     # truthy values other than 1
    return {"k": k, "v": b}


def rand_start(rng, length):
    r = rng.random()
    if r < 0.3:
        return 1
    if r < 0.55:
        return rng.choice([2, 7, 1000, 1023, 1024, 1025, 1026, 2048, 2049, 4096])
    if r < 0.75:
        return rng.randint(1, 20000)
    if r < 0.9:
        return MAXMEM - length + rng.choice([1, 1, 0, 2, -5])      # at / just beyond the end of the memory
    return rng.choice([MAXMEM, MAXMEM - 1, MAXMEM - 1023, MAXMEM - 1024])


def rand_op(rng, data_lens):
    r = rng.random()
    if r < 0.5:
        name = rng.choice(SETTERS)
        return {"op": name, "v": rand_val(rng, name, scalar_float_ok=name not in ("pattlen", "order")), "chs": rand_chs(rng)}
    if r < 0.6:
        x = rand_scalar(rng, "freq")
        return {"op": "freq", "v": {"t": "i", "v": x} if isinstance(x, int) else {"t": "f", "v": x}}
    if r < 0.66:
        return {"op": "mode", "m": rng.choice(["data", "prbs", "DATA", "PRBS", "Prbs", "dAtA"]), "chs": rand_chs(rng)}
    if r < 0.71:
        return {"op": "outp", "on": rng.random() < 0.5, "chs": rand_chs(rng)}
    if r < 0.8:
        return {"op": "get", "q": rng.choice(["pattLen", "mode", "prbsOrder", "bitsShift", "skew", "volt", "offs"]),
                "chs": rand_chs(rng)}
    if r < 0.82:
        return {"op": "getfreq"}
    if r < 0.83:
        return {"op": "rst"}
    return None    # data pair, built by the caller


def data_pair(rng, length, start=None, chs="rand", nrows=None):
    start = rand_start(rng, length) if start is None else start
    start = max(1, min(start, MAXMEM))
    c = rand_chs(rng) if chs == "rand" else chs
    ops = [{"op": "setdata", "d": rand_data(rng, length, nrows), "start": start, "chs": c}]
    r = rng.random()
    if r < 0.7:
        ops.append({"op": "getdata", "size": max(length, 1), "start": start, "chs": c})
    elif r < 0.85:
        off = rng.randint(0, max(length - 1, 0))
        ops.append({"op": "getdata", "size": rng.randint(1, max(length - off, 1) + rng.choice([0, 0, 5])), "start": start + off,
                    "chs": rand_chs(rng)})
    else:
        ops.append({"op": "getdata", "size": rng.choice([0, -3, length + 1030, 2 * MAXMEM]) if length < 3000 else length,
                    "start": rng.choice([start, 0, -5, MAXMEM + 7]) if length < 3000 else start, "chs": c})
    if ops[-1]["size"] > 20000:       # keep the read-back affordable: only near the end of the memory
        ops[-1]["start"] = MAXMEM - rng.randint(0, 3000)
    return ops


def gen_hist_cases(rng, tier):
    cases = []
    # A. directed: every setter x every boundary value (scalar and list forms) x a few channel selections
    chsel = [None, 1, 4, 0, 5, {"k": "list", "v": [1, 2, 3, 4]}, {"k": "list", "v": [0, 5, -2, 7]},
             {"k": "tuple", "v": [4, 3]}, {"k": "ndarray", "v": [1, 1, 2, 2, 3, 3]}, {"k": "list", "v": []}]
    for name in SETTERS + ["freq"]:
        vals = [("i", x) for x in INT_POINTS[name]] + [("f", x) for x in FLOAT_POINTS[name]]
        for j, (t, x) in enumerate(vals):
            c = chsel[j % len(chsel)]
            op = {"op": name, "v": {"t": t, "v": x}}
            if name != "freq":
                op["chs"] = c
            ops = [op]
            if name != "freq":
                # the same value inside a per-channel list, mixed with an in-range and an out-of-range neighbour
                nb = rng.choice(FLOAT_POINTS[name]) if t == "f" else rng.choice(INT_POINTS[name])
                if isinstance(nb, int) and abs(nb) >= INT62:
                    nb = 5
                xx = x if not (isinstance(x, int) and abs(x) >= INT62) else INT62 - 1
                if isinstance(xx, int) and isinstance(nb, float) and abs(xx) > 2 ** 53:
                    nb = 5
                if isinstance(nb, int) and isinstance(xx, float) and abs(nb) > 2 ** 53:
                    nb = 5
                ops.append({"op": name, "v": {"t": "l", "k": rng.choice(["list", "tuple", "ndarray"]),
                                              "v": [xx, nb][: rng.choice([1, 2])] + ([xx] if rng.random() < 0.3 else [])},
                            "chs": rng.choice(chsel)})
                ops.append({"op": "get", "q": {"pattlen": "pattLen", "order": "prbsOrder", "bsh": "bitsShift", "skew": "skew",
                                               "volt": "volt", "offs": "offs"}[name], "chs": rng.choice([None, 1, 2, 3, 4])})
            cases.append({"kind": "hist", "ops": ops, "dry": (j % 7 == 3)})
    for x in ["inf", "-inf"]:           # non-finite floats travel as strings (strict JSON); float("inf") is rebuilt by mk_val
        for name in ["freq", "volt", "offs", "skew"]:
            op = {"op": name, "v": {"t": "f", "v": x}}
            if name != "freq":
                op["chs"] = None
            cases.append({"kind": "hist", "ops": [op]})
        for name in ["pattlen", "volt", "offs", "skew"]:
            cases.append({"kind": "hist", "ops": [{"op": name, "v": {"t": "l", "k": "list", "v": [x, 1.0]}, "chs": rng.choice([None, 2])}]})
    if os.environ.get("VERIF_SUSPECT"):
        # NaN requests: `nan < MIN` and `nan > MAX` are both False and np.clip(nan) stays nan, so the unchanged code sends the NaN
        # raw (suspected defect, reported; not in the default run because the statement's quantifier speaks of values
        # "over several decades around each limit")
        for name in ["freq", "volt", "offs", "skew"]:
            op = {"op": name, "v": {"t": "f", "v": "nan"}}
            if name != "freq":
                op["chs"] = rng.choice([None, 1])
            cases.append({"kind": "hist", "ops": [op]})
        for name in ["pattlen", "volt", "offs", "skew", "order", "bsh"]:
            cases.append({"kind": "hist", "ops": [{"op": name, "v": {"t": "l", "k": rng.choice(["list", "ndarray"]), "v": ["nan", 1.0]},
                                                   "chs": rng.choice([None, 2])}]})
    # ill-typed requests (must raise, nothing sent)
    cases.append({"kind": "hist", "ops": [{"op": "mode", "m": "x", "chs": None}, {"op": "mode", "m": "", "chs": 2},
                                          {"op": "freq", "v": {"t": "l", "k": "list", "v": [1e10]}},
                                          {"op": "pattlen", "v": {"t": "f", "v": 1000.0}, "chs": 1},
                                          {"op": "order", "v": {"t": "f", "v": 7.0}, "chs": None}]})
    cases.append({"kind": "hist", "ops": [{"op": "setdata", "d": {"k": "rows", "v": [[1, 0, 1], [1, 0]]}, "start": 1, "chs": None}]})
    # the documented examples of the class (dry-run) and __call__
    cases.append({"kind": "hist", "dry": True, "ops": [
        {"op": "setdata", "d": {"k": "str", "v": "000111000111"}, "start": 1, "chs": 2},
        {"op": "setdata", "d": {"k": "str", "v": "000111000111"}, "start": 1, "chs": None},
        {"op": "setdata", "d": {"k": "rows", "v": [[1, 0, 1, 0], [0, 1, 0, 1]]}, "start": 1, "chs": {"k": "list", "v": [3, 4]}}]})
    for dry in (True, False):
        cases.append({"kind": "hist", "dry": dry, "ops": [{"op": "call", "chs": 2, "kw": {
            "freq": {"t": "f", "v": 10e9}, "patt_len": {"t": "i", "v": 1000}, "Vout": {"t": "f", "v": 1.5},
            "offset": {"t": "f", "v": 0.5}, "bsh": {"t": "i", "v": 10}, "skew": {"t": "f", "v": 0.5e-12}, "mode": "PRBS",
            "order": {"t": "i", "v": 7}}},
            {"op": "call", "chs": {"k": "list", "v": [0, 9]}, "kw": {
                "freq": {"t": "f", "v": 99e9}, "patt_len": {"t": "i", "v": 1}, "Vout": {"t": "f", "v": 9.0},
                "offset": {"t": "f", "v": -9.5}, "skew": {"t": "f", "v": 1.0}, "mode": "DATA",
                "data": {"k": "list", "v": [1, 0, 1, 1]}}}]})
    # B. data: every boundary length x start address class, written then read back
    lens = list(DATA_LENS) + ([10000] if tier == "quick" else [5000, 8191, 8192, 8193, 10000])
    for L in lens:
        for st in ([1, None] if tier == "quick" else [1, 2, 1024, 1025, None, None, MAXMEM - L + 1]):
            cases.append({"kind": "hist", "ops": data_pair(rng, L, st)})
    for L in [1, 2, 1024, 1025, 2049]:
        cases.append({"kind": "hist", "ops": data_pair(rng, L, None, chs={"k": "list", "v": [1, 2, 3, 4][: rng.randint(1, 4)]},
                                                       nrows=rng.randint(1, 4))})
    # 2-D per-channel data and separator strings at / next to the end of the memory (fits exactly, one bit too long, rows != bits)
    for L, nr in [(1, 1), (1, 3), (2, 3), (2, 2), (3, 2), (5, 4), (4, 4), (1024, 2), (1025, 3), (2049, 2)]:
        for over in [0, 1, 2, L - 1 if L > 3 else 3, -1, -3]:
            st = min(MAXMEM, max(1, MAXMEM - L + 1 + over))
            chs = {"k": rng.choice(["list", "tuple", "ndarray"]), "v": rng.sample([1, 2, 3, 4], min(nr, 4))}
            if rng.random() < 0.25:
                chs = rng.choice([None, {"k": "list", "v": [1, 2, 3, 4]}])
            cases.append({"kind": "hist", "ops": [
                {"op": "setdata", "d": rand_data(rng, L, nr), "start": st, "chs": chs},
                {"op": "getdata", "size": L, "start": st, "chs": chs},
                {"op": "getdata", "size": max(1, min(L, MAXMEM - st + 1)), "start": st, "chs": None}]})
    for txt in ["0,1,1", "0 1 1", "1, 0, 1, 1", "1 1 0 1 0", "0,1 1,0", "1,1,1,0,0,0,1"]:
        n = len(txt.replace(" ", "").replace(",", ""))
        for over in [0, 1, 2, -1, n - 1]:
            st = min(MAXMEM, MAXMEM - n + 1 + over)
            chs = rng.choice([None, 1, 3, {"k": "list", "v": [2, 4]}, {"k": "list", "v": [0, 9]}])
            cases.append({"kind": "hist", "ops": [{"op": "setdata", "d": {"k": "str", "v": txt}, "start": st, "chs": chs},
                                                  {"op": "getdata", "size": n, "start": st, "chs": chs}]})
        cases.append({"kind": "hist", "dry": True, "ops": [{"op": "setdata", "d": {"k": "str", "v": txt}, "start": rng.choice([1, 1000, MAXMEM - 1]), "chs": None}]})
    cases.append({"kind": "hist", "ops": [{"op": "setdata", "d": {"k": "list", "v": []}, "start": 5, "chs": 2}]})
    cases.append({"kind": "hist", "ops": data_pair(rng, 3, MAXMEM, chs=1)})            # only one bit fits
    cases.append({"kind": "hist", "ops": data_pair(rng, 1030, MAXMEM - 1024, chs=3)})   # truncated to 1025 bits
    # out-of-quantifier start addresses of set_data: only clause 1 is demanded, the model mirrors the code
    for st in [0, -3, MAXMEM + 1, MAXMEM + 3]:
        cases.append({"kind": "hist", "dry": True,
                      "ops": [{"op": "setdata", "d": {"k": "list", "v": [rng.randint(0, 1) for _ in range(5)]}, "start": st,
                               "chs": rng.choice([None, 1, 7])}]})
    if tier == "thorough":
        for r in range(1024):            # all start addresses mod 1024
            L = rng.choice([1, 5, 1023, 1024, 1025, 2050])
            cases.append({"kind": "hist", "ops": data_pair(rng, L, 3 * 1024 + r, chs=rng.choice([1, 2, 3, 4]))})
        L = 1
        while L <= 10000:
            cases.append({"kind": "hist", "ops": data_pair(rng, L, None)})
            L += rng.randint(1, 160)
    # C. random histories
    nh = 300 if tier == "quick" else 2000
    for _ in range(nh):
        n = rng.randint(1, 10)
        ops = []
        dry = rng.random() < 0.12
        while len(ops) < n:
            op = rand_op(rng, DATA_LENS)
            if op is None:
                if dry:
                    ops.append({"op": "setdata", "d": rand_data(rng, rng.choice(DATA_LENS[:12])), "start": rand_start(rng, 10),
                                "chs": rand_chs(rng)})
                    ops[-1]["start"] = max(1, min(ops[-1]["start"], MAXMEM))
                else:
                    L = rng.choice(DATA_LENS) if rng.random() < 0.5 else rng.randint(1, 2600)
                    ops += data_pair(rng, L)
            else:
                ops.append(op)
        cases.append({"kind": "hist", "ops": ops, "dry": dry})
    return cases


def gen_sync_cases(rng, tier):
    cases = []

    def add(order, n, sps, d, fill="cyclic", sigma=0, **kw):
        c = {"kind": "sync", "pat": {"k": "prbs", "order": order, "n": n, "seed": kw.pop("seed", None)}, "sps": sps, "d": d,
             "fill": fill, "periods": kw.pop("periods", 2), "extra": kw.pop("extra", 0), "amp": kw.pop("amp", 1), "sigma": sigma}
        if sigma:
            c["noise_seed"] = rng.getrandbits(31)
        c.update(kw)
        cases.append(c)
    # all delays, noise-free, both fills
    for d in range(127):
        add(7, 127, 1, d, fill="cyclic" if d % 2 == 0 else "zeros", extra=rng.choice([0, 0, 5, 126]))
    for d in range(254):
        add(7, 127, 2, d, fill="zeros" if d % 3 == 0 else "cyclic", periods=rng.choice([2, 2, 3]), extra=rng.choice([0, 1, 77]),
            amp=rng.choice([1, 1, 2]), dtype=rng.choice(["float", "int"]))
    for sps in ([4] if tier == "quick" else [3, 4, 8]):
        l = 127 * sps
        for d in sorted({0, 1, 2, sps - 1, sps, sps + 1, l - 1, l - 2, l - sps, l // 2} | {rng.randrange(l) for _ in range(12 if tier == "quick" else 80)}):
            add(7, 127, sps, d, fill=rng.choice(["cyclic", "zeros"]), extra=rng.choice([0, 3, l - 1]))
    for sps in ([1, 2] if tier == "quick" else [1, 2, 4]):
        l = 511 * sps
        for d in sorted({0, 1, l - 1, l // 2} | {rng.randrange(l) for _ in range(8 if tier == "quick" else 60)}):
            add(9, 511, sps, d, fill=rng.choice(["cyclic", "zeros"]), seed=rng.choice([None, 1, 77]))
    if tier == "thorough":
        for d in [0, 1, 2046, 1000, rng.randrange(2047), rng.randrange(2047)]:
            add(11, 2047, 1, d)
        for d in range(511):
            add(9, 511, 1, d)
    # PRBS prefixes (>= 32 slots), other seeds
    for _ in range(30 if tier == "quick" else 300):
        n = rng.choice([32, 33, 40, 50, 64, 100, 126])
        sps = rng.choice([1, 2, 3, 5])
        add(rng.choice([7, 9]), n, sps, rng.randrange(n * sps), fill=rng.choice(["cyclic", "zeros"]), seed=rng.randrange(1, 127),
            extra=rng.randrange(0, n * sps), form=rng.choice(["ndarray", "ndarray", "objects"]))
    # noisy (oracle only)
    for _ in range(60 if tier == "quick" else 500):
        order, n = rng.choice([(7, 127), (7, 127), (9, 511)])
        sps = rng.choice([2, 4, 8] if order == 7 else [2, 4])
        l = n * sps
        d = rng.choice([0, 0, 1, l - 1, rng.randrange(l), rng.randrange(l), rng.randrange(l)])
        add(order, n, sps, d, fill=rng.choice(["cyclic", "zeros"]), sigma=rng.choice([0.05, 0.1, 0.2]), periods=rng.choice([2, 3]),
            extra=rng.randrange(0, l))
    # short noisy records: also run exactly over Rat by the model; strong noise is demanded only when the margin hypothesis holds
    for _ in range(40 if tier == "quick" else 300):
        n = rng.choice([32, 40, 64, 100, 127])
        sps = rng.choice([1, 2]) if n > 64 else rng.choice([1, 2, 3])
        l = n * sps
        add(7, n, sps, rng.choice([0, 1, l - 1, rng.randrange(l), rng.randrange(l)]), fill=rng.choice(["cyclic", "zeros"]),
            sigma=rng.choice([0.05, 0.1, 0.2, 0.3, 0.5, 0.8]), periods=2, extra=rng.randrange(0, l), seed=rng.choice([None, 5, 99]))
    for _ in range(20 if tier == "quick" else 150):      # noise strong enough to break the margin on short patterns
        n, sps = rng.choice([(32, 1), (32, 2), (40, 1), (64, 1)])
        l = n * sps
        add(7, n, sps, rng.randrange(l), fill=rng.choice(["cyclic", "zeros"]), sigma=rng.choice([1.0, 1.5, 2.5]), periods=2,
            extra=rng.randrange(0, l), seed=rng.choice([None, 5]))
    # acquisition dtypes x pattern kinds: raw integer codes of a scope / ADC (values using the dtype's range) and float volts,
    # pattern as binary_sequence / uint8 / int64 / bool / float ndarray / list (list: documented TypeError)
    reps = 1 if tier == "quick" else 6
    for dt in CODE_LEVELS:
        for pk in PATTERN_KINDS:
            for r in range(2 * reps):
                order, n, sps = rng.choice([(7, 127, 8), (7, 127, 2), (7, 127, 1), (7, 64, 3)] if r % 2 == 0 else [(7, 127, 8), (7, 127, 4)])
                l = n * sps
                d = 0 if r % 2 == 1 else rng.choice([1, sps, l // 2 + 1, l - 1, rng.randrange(l)])
                add(order, n, sps, d, fill=rng.choice(["cyclic", "cyclic", "zeros"]), periods=rng.choice([2, 3]), extra=rng.randrange(0, l),
                    codes={"dtype": dt}, pat_kind=pk, noise_seed=rng.getrandbits(31))
    for dt in (["int8", "int16", "uint8"] if tier == "quick" else list(CODE_LEVELS)):
        for pk in ["binary_sequence", "uint8"]:
            add(9, 511, 4, rng.choice([0, 0, 1, 2043, rng.randrange(2044)]), periods=2, extra=17, codes={"dtype": dt}, pat_kind=pk,
                noise_seed=rng.getrandbits(31))
    # short records -> BufferError; exactly one pattern length; just above
    for (order, n, sps) in [(7, 127, 1), (7, 127, 4), (9, 511, 2), (7, 40, 3)]:
        l = n * sps
        for rxlen in [0, 1, l - 1, l // 2, l, l + 1, 2 * l - 2, 2 * l - 1]:
            add(order, n, sps, rng.randrange(l), rxlen=rxlen)
    # small literal patterns (periodic ones, ties, rejections): correspondence only
    for _ in range(60 if tier == "quick" else 600):
        n = rng.randint(1, 12)
        bits = [rng.randint(0, 1) for _ in range(n)]
        sps = rng.choice([1, 1, 2, 3])
        l = n * sps
        cases.append({"kind": "sync", "pat": {"k": "lit", "bits": bits}, "sps": sps, "d": rng.randrange(l), "fill": rng.choice(["cyclic", "zeros"]),
                      "periods": rng.choice([2, 3, 5]), "extra": rng.randrange(0, l), "amp": rng.choice([1, 2, 3]),
                      "offset": rng.choice([0, 0, 1, -1]), "sigma": 0, "dtype": rng.choice(["float", "int"])})
    for sps in [0, -1]:
        cases.append({"kind": "sync", "pat": {"k": "lit", "bits": [1, 0, 1]}, "sps": sps, "d": 0, "fill": "cyclic", "periods": 2,
                      "extra": 0, "amp": 1, "sigma": 0, "rxlen": 12})
    cases.append({"kind": "sync", "pat": {"k": "lit", "bits": []}, "sps": 2, "d": 0, "fill": "cyclic", "periods": 2, "extra": 0,
                  "amp": 1, "sigma": 0, "rxlen": 12})
    return cases


def gen_cases(rng, tier):
    cases = gen_hist_cases(rng, tier) + gen_sync_cases(rng, tier)
    rng.shuffle(cases)
    return cases


# ------------------------------------------------------------------------------------------------------------------
# statistics
# ------------------------------------------------------------------------------------------------------------------

def features(case, res):
    f = ["kind=" + case["kind"]]
    if res.get("status") != "ok" and case["kind"] == "hist":
        return f + ["harness-status=" + str(res.get("status"))]
    if case["kind"] == "hist":
        f.append("mode=" + ("dry-run" if case.get("dry") else "fake-visa"))
        f.append(f"hist-len={min(len(case['ops']), 10)}")
        for op, r in zip(case["ops"], res["ops"]):
            f.append("op=" + op["op"])
            if r["status"] != "ok":
                f.append(f"op-status={r['status']}:{r.get('err')}")
            if r.get("warned"):
                f.append("warned:" + op["op"])
            if "chs" in op:
                xs = chs_items(op["chs"])
                if xs is None:
                    f.append("chs=None")
                else:
                    if any(x < 1 or x > 4 for x in xs):
                        f.append("chs=out-of-range")
                    if len(xs) > 4:
                        f.append("chs=more-than-4")
                    if len(set(xs)) < len(xs):
                        f.append("chs=duplicates")
                    if not xs:
                        f.append("chs=empty")
            if "v" in op and isinstance(op["v"], dict):
                f.append("val=" + {"i": "int", "f": "float", "l": "list"}[op["v"]["t"]])
            if op["op"] == "setdata":
                two, rows = data_rows(op["d"])
                n = len(rows[0]) if rows else 0
                b = "0" if n == 0 else "1-1023" if n < 1024 else "1024" if n == 1024 else "1025-2048" if n <= 2048 else ">2048"
                f.append("data-len=" + b)
                f.append("data-form=" + op["d"]["k"])
                if (op["start"] - 1) % 1024:
                    f.append("start-unaligned")
                if op["start"] + n - 1 > MAXMEM:
                    f.append("data-beyond-memory")
            if op["op"] == "getdata" and len(r.get("cmds", [])) > 1:
                f.append("getdata-multiblock")
    else:
        f.append("pattern=" + (f"PRBS{case['pat']['order']}[{case['pat']['n']}]" if case["pat"]["k"] == "prbs" else "literal"))
        f.append(f"sps={case['sps']}")
        f.append("fill=" + case["fill"])
        f.append(f"sigma={case.get('sigma', 0)}")
        f.append("sync-status=" + res.get("status", "?") + (":" + res["err"] if res.get("status") == "err" else ""))
        if res.get("aperiodic") is False:
            f.append("periodic-waveform")
        if case["d"] == 0:
            f.append("delay=0")
        if case.get("codes"):
            f.append("record-dtype=" + case["codes"]["dtype"])
        if case.get("pat_kind"):
            f.append("pattern-kind=" + case["pat_kind"])
        if "margin" in res:
            f.append("margin=" + ("satisfied" if res["margin"] else "not-satisfied"))
    return f


def nontrivial_key(case, res):
    if case["kind"] == "hist":
        if res.get("status") != "ok" or not any(r.get("cmds") for r in res["ops"]):
            return None
        return hashlib.sha1(json.dumps(case, sort_keys=True, default=str).encode()).hexdigest()[:16]
    if res.get("l", 0) < 2:
        return None
    p = case["pat"]
    return (p["k"], p.get("order"), p.get("n"), p.get("seed"), tuple(p.get("bits", ())), case["sps"], case["d"], case["fill"],
            case.get("sigma", 0), case.get("rxlen"), (case.get("codes") or {}).get("dtype"), case.get("pat_kind"))
