#!/venv/bin/python
"""
Entry point of every registered check (DESIGN.md §2.3).

    check.py <Cxx> quick|thorough        run the check for one property
    check.py replay <file>               re-run a recorded violating case on the real code

exit 0: property held on everything explored (KNOWN-FINDING lines may be printed)
exit 1: `VIOLATION property=<id> replay=<path>[ no-failing-input-found]`
exit 2: infrastructure problem (time-out of the check itself, harness error)
"""
import importlib
import json
import os
import random
import sys
import time
import traceback

HERE = os.path.dirname(os.path.abspath(__file__))
VERIF = os.path.abspath(os.path.join(HERE, ".."))
sys.path.insert(0, VERIF)
os.environ.setdefault("MPLBACKEND", "Agg")
# numpy / scipy / scikit-learn run single-threaded inside a check (unless the caller decides otherwise): the clauses that
# demand bit-identical results of repeated calls (C14, C17) must not depend on the reduction order of OpenMP threads, and
# 20 checks running side by side should not oversubscribe the cores
for _v in ("OMP_NUM_THREADS", "OPENBLAS_NUM_THREADS", "MKL_NUM_THREADS"):
    os.environ.setdefault(_v, "1")
os.environ.setdefault("OPTICOMLIB_VERIF", "1")
# the implementation under test: /repo's working tree (VERIF_REPO may point to a scratch worktree when a
# seeded change is being tried out without touching /repo); first on sys.path so `import opticomlib` is that tree
REPO = os.environ.get("VERIF_REPO", "/repo")
sys.path.insert(0, REPO)

from harness.common import lean, findings  # noqa: E402

TRUSTED_BASE = [
    "Lean 4.33.0 kernel (+ GMP-accelerated Nat primitives used by `decide +kernel`)",
    "Mathlib v4.33.0 as a library of kernel-checked proofs",
    "axioms allowed: propext, Classical.choice, Quot.sound (audited with #print axioms on every run)",
    "translator /verif/tools/extract.py (Python ast -> Lean tables/expressions)",
    "correspondence harness /verif/harness (generators, canonicalisation, tolerances, spies on numpy.random / scipy / sklearn)",
    "CPython 3.12 + numpy/scipy semantics of the operations the models mirror (modelled, not verified)",
]


def out_dir():
    d = os.path.join(VERIF, "out", "replays")
    os.makedirs(d, exist_ok=True)
    return d


def write_replay(prop_id, seed, tier, payload, tag):
    path = os.path.join(out_dir(), f"{prop_id}_{tier}_{seed}_{tag}.json")
    with open(path, "w", encoding="utf-8") as f:
        json.dump(payload, f, indent=1, default=str)
    return path


def load_corpus(prop_id):
    d = os.path.join(VERIF, "corpus", prop_id)
    cases = []
    if os.path.isdir(d):
        for fn in sorted(os.listdir(d)):
            if fn.endswith(".json"):
                with open(os.path.join(d, fn), encoding="utf-8") as f:
                    c = json.load(f)
                if isinstance(c, dict) and "case" in c:
                    c = c["case"]
                c["_corpus"] = fn
                cases.append(c)
    return cases


def short(obj, n=300):
    s = json.dumps(obj, default=str)
    return s if len(s) <= n else s[:n] + "..."


def has_nonfinite(obj, depth=0):
    """True when a float nan/inf occurs anywhere in a (JSON-like) implementation result"""
    if isinstance(obj, float):
        return obj != obj or obj in (float("inf"), float("-inf"))
    if isinstance(obj, dict):
        return any(has_nonfinite(v, depth + 1) for v in obj.values())
    if isinstance(obj, (list, tuple)):
        return any(has_nonfinite(v, depth + 1) for v in obj)
    return False


def safe_oracle(mod, case, res):
    """the property oracle; when it cannot even read the implementation's result (an exception while judging: e.g. a
    result of another shape than every correct implementation returns) that IS a concrete failing case, not an
    infrastructure error — on the unchanged tree this never happens (it would show as a violation at once)"""
    try:
        return list(mod.oracle(case, res))
    except Exception as e:  # noqa
        tb = traceback.format_exc().strip().split("\n")
        return [(f"{mod.ID}:result-not-judgeable:{type(e).__name__}",
                 f"the oracle could not read the implementation's result ({type(e).__name__}: {e}); {' | '.join(tb[-3:])[:400]}")]


class Runner:
    def __init__(self, mod, tier, seed):
        self.mod = mod
        self.tier = tier
        self.seed = seed
        self.rng = random.Random(seed)
        self.cases = []        # (case, result)
        self.violations = []   # dict(sig,msg,case)
        self.disagreements = []
        self.feature_hist = {}
        self.nontrivial = set()
        self.errors_hit = {}
        self.model_replies = 0

    # -- correspondence + oracle on a batch of cases ------------------------------------------
    def run_cases(self, cases, with_model=True):
        mod = self.mod
        batch = []
        for case in cases:
            res = mod.run_impl(case)
            from harness.common import watchdog as _wd
            if isinstance(res, dict) and res.get("status") == "timeout" and _wd.timeouts_seen() <= _wd.STRIKES:
                # a time-out of the real code is a finding only if it is reproducible (DESIGN §7): run the case once more
                # (only for the first few: once several calls have hung the limits are cut short, see watchdog.py)
                res2 = mod.run_impl(case)
                if not (isinstance(res2, dict) and res2.get("status") == "timeout"):
                    res = res2
                    self.feature_hist["timeout-not-reproduced"] = self.feature_hist.get("timeout-not-reproduced", 0) + 1
            self.cases.append((case, res))
            for v in safe_oracle(mod, case, res):
                sig, msg = v
                self.violations.append({"sig": sig, "msg": msg, "case": case, "observed": res})
            try:
                fts = list(mod.features(case, res))
            except Exception:  # noqa  -- bookkeeping only: a result of unexpected structure is judged by the oracle, not here
                fts = ["features-unreadable"]
            for ft in fts:
                self.feature_hist[ft] = self.feature_hist.get(ft, 0) + 1
            if has_nonfinite(res):      # visibility only: comparisons against nan are always false, so count where they could hide
                self.feature_hist["result:contains-nan-or-inf"] = self.feature_hist.get("result:contains-nan-or-inf", 0) + 1
                self.nonfinite_cases = getattr(self, "nonfinite_cases", 0) + 1
            try:
                k = mod.nontrivial_key(case, res)
                if k is not None:
                    self.nontrivial.add(k if k.__hash__ else repr(k))
            except Exception:  # noqa  -- bookkeeping only
                pass
            try:
                reqs = mod.model_requests(case, res) if with_model else []
            except Exception as e:  # noqa  -- the result cannot be turned into a model request: a disagreement with a concrete case
                reqs = []
                self.disagreements.append({"what": f"no model request could be built from the implementation's result ({type(e).__name__}: {e})",
                                           "case": case, "observed": res, "requests": [], "model": []})
            batch.append((case, res, reqs))
        if with_model:
            lines = [r for _, _, reqs in batch for r in reqs]
            replies = lean.run_driver(lines)
            self.model_replies += len(replies)
            pos = 0
            for case, res, reqs in batch:
                rep = replies[pos:pos + len(reqs)]
                pos += len(reqs)
                try:
                    diffs = list(mod.compare(case, res, reqs, rep))
                except Exception as e:  # noqa
                    diffs = [f"the comparison could not read the implementation's result ({type(e).__name__}: {e})"]
                for d in diffs:
                    self.disagreements.append({"what": d, "case": case, "observed": res, "requests": reqs,
                                               "model": rep})


def classify(prop_id, violations):
    known, unknown = [], []
    for v in violations:
        e = findings.match(prop_id, v["sig"])
        (known if e else unknown).append(v)
    return known, unknown


def main_check(prop_id, tier):
    t0 = time.time()
    seed = int(os.environ.get("VERIF_SEED", "0") or 0)
    mod = importlib.import_module(f"harness.props.{prop_id.lower()}")
    budget = float(os.environ.get("VERIF_BUDGET_S", "0") or 0) or (mod.BUDGET.get(tier, 600) if hasattr(mod, "BUDGET") else 600)

    log = {"translator": None, "build": None, "audit": None, "forbidden": None}
    proof_problems = []

    # 1. translate --------------------------------------------------------------------------------
    # (translate, build, audit and the driver snapshot happen under ONE lock so that no concurrent check can
    #  regenerate Gen/ from another tree in between)
    _lk = lean.lake_lock()
    _lk.__enter__()
    tr = lean.translate(None)
    log["translator"] = tr
    for name in getattr(mod, "GEN", []):
        st = tr.get(name, {}).get("status")
        if st not in ("regenerated-identical", "regenerated-changed", "generated"):
            # table could not be re-read from the source: the theorem no longer speaks about the current code
            proof_problems.append(f"translator:{name}:{st}:{tr.get(name, {}).get('detail')}")

    # 2. prove ------------------------------------------------------------------------------------
    ok, out, secs = lean.build([f"OptiVerif.Props.{prop_id}"])
    log["build"] = {"ok": ok, "seconds": round(secs, 1)}
    if not ok:
        log["build"]["output_tail"] = out[-4000:]
        proof_problems.append("lake-build-failed")
    driver_ok, excluded, dout = lean.build_driver_isolating()
    log["driver"] = {"ok": driver_ok, "excluded_models": excluded}
    if not driver_ok:
        proof_problems.append("driver-build-failed")
        log["driver"]["output_tail"] = dout[-2000:]
    own_models = set(getattr(mod, "MODELS", []))
    if own_models & set(excluded):
        proof_problems.append("own-model-does-not-compile:" + ",".join(sorted(own_models & set(excluded))))
    hits = lean.scan_forbidden([f"OptiVerif.Props.{prop_id}"] + list(getattr(mod, "MODELS", [])))
    log["forbidden"] = hits
    if hits:
        proof_problems.append("forbidden-token:" + ";".join(f"{a}:{b}" for a, b, _ in hits[:5]))
    ns, thms = lean.prop_theorems(prop_id)
    obligations = len(thms)
    discharged = 0
    axioms_used = set()
    if ok:
        try:
            ax = lean.audit(prop_id)
            bad = {k: v for k, v in ax.items() if not set(v) <= lean.ALLOWED_AXIOMS}
            discharged = len(ax) - len(bad)
            for v in ax.values():
                axioms_used |= set(v)
            log["audit"] = {"theorems": len(ax), "bad": bad}
            if bad:
                proof_problems.append("axiom-audit:" + ",".join(bad))
            if tier == "thorough" and not os.environ.get("VERIF_SKIP_LEANCHECKER"):
                import subprocess
                p = subprocess.run(["lake", "env", "leanchecker", f"OptiVerif.Props.{prop_id}"], cwd=lean.LEAN_DIR,
                                   stdout=subprocess.PIPE, stderr=subprocess.STDOUT, text=True, timeout=3000)
                log["leanchecker"] = {"rc": p.returncode, "tail": p.stdout[-500:]}
                if p.returncode != 0:
                    proof_problems.append("leanchecker-failed")
        except RuntimeError as e:
            log["audit"] = {"error": str(e)[-3000:]}
            proof_problems.append("audit-failed")

    if driver_ok:
        lean.snapshot_driver()
    _lk.__exit__(None, None, None)

    # 3. correspond + oracle ------------------------------------------------------------------------
    run = Runner(mod, tier, seed)
    corpus = load_corpus(prop_id)
    gen = list(mod.gen_cases(run.rng, tier))
    if tier == "thorough":       # cheap generators are drawn several times in the thorough tier (the PRNG state carries on)
        for _ in range(int(getattr(mod, "THOROUGH_ROUNDS", 1)) - 1):
            gen += list(mod.gen_cases(run.rng, tier))
    run.run_cases(corpus + gen, with_model=driver_ok)
    n_primary = len(run.cases)
    n_nontrivial = len(run.nontrivial)
    hist_primary = dict(run.feature_hist)

    known, unknown = classify(prop_id, run.violations)

    # 4. decide -------------------------------------------------------------------------------------
    verdict = "ok"
    replay = None
    suffix = ""
    if unknown:
        verdict = "violation"
        v = unknown[0]
        replay = write_replay(prop_id, seed, tier, {
            "property": prop_id, "kind": "failing-input", "sig": v["sig"], "what": v["msg"], "case": v["case"],
            "observed": v["observed"], "seed": seed, "tier": tier,
            "replay_cmd": f"/venv/bin/python harness/check.py replay <this file>",
            "other_violations": [{"sig": u["sig"], "what": u["msg"]} for u in unknown[1:20]],
        }, "violation")
    elif proof_problems or run.disagreements:
        # a proof obligation or the correspondence no longer checks: search for a failing input
        if hasattr(mod, "search_cases"):
            extra = list(mod.search_cases(run.rng, run.disagreements))
        else:
            extra = list(mod.gen_cases(run.rng, "thorough"))
        t_search = time.time()
        found = None
        for c in extra:
            if time.time() - t_search > budget:
                break
            before = len(run.violations)
            run.run_cases([c], with_model=False)
            _, unk = classify(prop_id, run.violations[before:])
            if unk:
                found = unk[0]
                break
        verdict = "violation"
        if found:
            replay = write_replay(prop_id, seed, tier, {
                "property": prop_id, "kind": "failing-input", "sig": found["sig"], "what": found["msg"],
                "case": found["case"], "observed": found["observed"], "seed": seed, "tier": tier,
                "broken": proof_problems, "disagreements": run.disagreements[:5],
            }, "violation")
        else:
            suffix = " no-failing-input-found"
            replay = write_replay(prop_id, seed, tier, {
                "property": prop_id, "kind": "no-failing-input-found",
                "no_longer_checks": proof_problems or ["correspondence model<->implementation"],
                "disagreements": run.disagreements[:10],
                "build_log_tail": (log["build"] or {}).get("output_tail"),
                "audit": log["audit"], "seed": seed, "tier": tier,
                "searched_cases": len(run.cases),
            }, "unproved")

    # 5. evidence -----------------------------------------------------------------------------------
    samples = []
    for case, res in run.cases[: 3]:
        samples.append({"case": json.loads(short(case, 600)) if len(short(case, 600)) < 600 else short(case, 600),
                        "observed": short(res, 300)})
    for n in thms[:3]:
        samples.append({"obligation": f"{ns}.{n}"})
    cov = {
        "obligations": obligations,
        "discharged": discharged,
        "checker_cmd": f"cd /verif/lean && lake build OptiVerif.Props.{prop_id} && lake env lean .lake/audit_{prop_id}.lean"
                       + (" && lake env leanchecker OptiVerif.Props." + prop_id if tier == "thorough" else ""),
        "trusted_base": TRUSTED_BASE + list(getattr(mod, "TRUSTED_EXTRA", [])),
        "theorems": [f"{ns}.{n}" for n in thms],
        "axioms_used": sorted(axioms_used),
        "evaluations": n_primary,
        "distinct_nontrivial": n_nontrivial,
        "rule": getattr(mod, "RULE", ""),
        "samples": samples,
        "model_replies_compared": run.model_replies,
        "disagreements": len(run.disagreements),
        "oracle_violations": len(run.violations),
        "known_findings_reproduced": sorted({v["sig"] for v in known}),
        "feature_histogram": dict(sorted(hist_primary.items())),
        "corpus_cases": len(corpus),
        "translator": {k: v for k, v in (tr or {}).items() if k in getattr(mod, "GEN", [])},
        "partial_clauses": list(getattr(mod, "PARTIAL", [])),
        "proof_problems": proof_problems,
        "verdict": verdict,
        "build_seconds": (log["build"] or {}).get("seconds"),
        "driver_excluded_models": (log.get("driver") or {}).get("excluded_models"),
        "exhaustive": bool(getattr(mod, "EXHAUSTIVE", {}).get(tier, False)),
        "search_cases": len(run.cases) - n_primary,
    }
    ev = {
        "property_id": prop_id, "tier": tier, "seed": seed, "level": "proof", "coverage": cov,
        "assumptions": list(getattr(mod, "ASSUMPTIONS", [])),
        "wall_s": round(time.time() - t0, 2),
        "violations": (len(unknown) if unknown else (1 if verdict == "violation" else 0)),
    }
    # the evidence file of record describes a run against /repo; a run against a scratch tree (VERIF_REPO: a seeded change
    # or a refactoring being tried out) writes its evidence under out/ so that it can never be committed in its place
    evdir = os.path.join(VERIF, "evidence") if os.path.realpath(REPO) == os.path.realpath("/repo") \
        else os.path.join(VERIF, "out", "evidence_scratch")
    os.makedirs(evdir, exist_ok=True)
    with open(os.path.join(evdir, f"{prop_id}.json"), "w", encoding="utf-8") as f:
        json.dump(ev, f, indent=1, default=str)

    lean.drop_driver_snapshot()

    # 6. report -------------------------------------------------------------------------------------
    for e in findings.known_for(prop_id):
        seen = any(v["sig"] == e["sig"] for v in known)
        print(f"KNOWN-FINDING: property={prop_id} {e.get('what', e['sig'])}" + ("" if seen else " (not exercised in this run)"))
    print(f"[{prop_id} {tier} seed={seed}] theorems {discharged}/{obligations} audited, {n_primary} cases "
          f"({n_nontrivial} distinct non-trivial), {run.model_replies} model replies compared, "
          f"{len(run.disagreements)} disagreements, {len(run.violations)} oracle violations "
          f"({len(known)} known), {ev['wall_s']}s")
    if verdict == "violation":
        if proof_problems:
            print("  no longer checks:", "; ".join(proof_problems))
        if run.disagreements:
            print("  first disagreement:", short(run.disagreements[0], 500))
        if unknown:
            print("  first violation:", unknown[0]["sig"], "-", unknown[0]["msg"][:300])
        print(f"VIOLATION property={prop_id} replay={replay}{suffix}")
        return 1
    return 0


def main_replay(path):
    with open(path, encoding="utf-8") as f:
        rec = json.load(f)
    prop_id = rec["property"]
    if rec.get("kind") == "no-failing-input-found":
        print(f"{path}: no failing input was recorded; no longer checks: {rec.get('no_longer_checks')}")
        print("re-run the check itself to see whether the obligation / correspondence checks again")
        return 1
    mod = importlib.import_module(f"harness.props.{prop_id.lower()}")
    case = rec["case"]
    res = mod.run_impl(case)
    vs = safe_oracle(mod, case, res)
    print("case:", short(case, 2000))
    print("observed:", short(res, 2000))
    if vs:
        for sig, msg in vs:
            print(f"VIOLATED {sig}: {msg}")
        print(f"VIOLATION property={prop_id} replay={path}")
        return 1
    print("property holds on this case now")
    return 0


if __name__ == "__main__":
    try:
        if len(sys.argv) >= 3 and sys.argv[1] == "replay":
            sys.exit(main_replay(sys.argv[2]))
        if len(sys.argv) >= 2:
            tier = sys.argv[2] if len(sys.argv) > 2 else os.environ.get("VERIF_TIER", "quick")
            sys.exit(main_check(sys.argv[1], tier))
        print(__doc__)
        sys.exit(2)
    except SystemExit:
        raise
    except BaseException:
        traceback.print_exc()
        print("INFRASTRUCTURE ERROR (exit 2)")
        sys.exit(2)
