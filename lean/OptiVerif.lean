import OptiVerif.Model.Wire
import OptiVerif.Model.Prbs
import OptiVerif.Props.C04
