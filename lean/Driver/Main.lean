/-
Line-protocol driver over the executable models (DESIGN.md §2.4).
One request per input line, one reply per line.  Unknown requests answer `bad-op`.
-/
import Driver.Handlers

open Driver

def reply (line : String) : String :=
  let toks := (line.splitOn " ").filter (· ≠ "")
  match handlers.findSome? (fun h => h toks) with
  | some r => r
  | none => "bad-op"

partial def loop (h : IO.FS.Stream) (out : IO.FS.Stream) : IO Unit := do
  let line ← h.getLine
  if line.isEmpty then return ()
  let l := line.trimAscii.toString
  out.putStrLn (reply l)
  loop h out

def main : IO Unit := do
  let out ← IO.getStdout
  loop (← IO.getStdin) out
  out.flush
