/-
The Gaussian tail `gQ x = N(0,1)(x, ∞)` and its elementary properties (feasibility probe P6), used as the
specification of `scipy.special.erfc` in `Conv.Q`:  `erfc y = 2 · gQ (√2 · y)`.
-/
import Mathlib.Probability.Distributions.Gaussian.Real

open MeasureTheory ProbabilityTheory Set

namespace OptiVerif.GaussQ

/-- the upper tail of the standard normal law -/
noncomputable def gQ (x : ℝ) : ℝ := ((gaussianReal 0 1) (Ioi x)).toReal

theorem gQ_antitone : Antitone gQ := by
  intro a b hab
  unfold gQ
  apply ENNReal.toReal_mono (measure_ne_top _ _)
  exact measure_mono (Ioi_subset_Ioi hab)

theorem gQ_nonneg (x : ℝ) : 0 ≤ gQ x := ENNReal.toReal_nonneg

theorem gQ_le_one (x : ℝ) : gQ x ≤ 1 := by
  unfold gQ
  have : (gaussianReal 0 1) (Ioi x) ≤ 1 := prob_le_one
  exact ENNReal.toReal_mono ENNReal.one_ne_top this |>.trans (by simp)

theorem gQ_symm (x : ℝ) : gQ x + gQ (-x) = 1 := by
  unfold gQ
  have hneg : (gaussianReal 0 1) (Ioi (-x)) = (gaussianReal 0 1) (Iio x) := by
    have h := gaussianReal_map_neg (μ := 0) (v := 1)
    rw [neg_zero] at h
    conv_lhs => rw [← h]
    rw [Measure.map_apply measurable_neg measurableSet_Ioi]
    congr 1
    ext y; simp
  have hsing : (gaussianReal 0 1) {x} = 0 := by
    have hac := gaussianReal_absolutelyContinuous (0:ℝ) (v := 1) one_ne_zero
    exact hac (by simp)
  have hcompl : (Ioi x)ᶜ = Iio x ∪ {x} := by
    ext y; simp [le_iff_lt_or_eq]
  have h1 : (gaussianReal 0 1) (Ioi x) + (gaussianReal 0 1) (Iio x) = 1 := by
    have := prob_add_prob_compl (μ := gaussianReal 0 1) (measurableSet_Ioi (a := x))
    rw [hcompl] at this
    have hu : (gaussianReal 0 1) (Iio x ∪ {x}) = (gaussianReal 0 1) (Iio x) := by
      apply le_antisymm
      · calc (gaussianReal 0 1) (Iio x ∪ {x})
            ≤ (gaussianReal 0 1) (Iio x) + (gaussianReal 0 1) {x} := measure_union_le _ _
          _ = (gaussianReal 0 1) (Iio x) := by rw [hsing, add_zero]
      · exact measure_mono subset_union_left
    rw [hu] at this; exact this
  rw [hneg, ← ENNReal.toReal_add (measure_ne_top _ _) (measure_ne_top _ _), h1]; simp

theorem gQ_zero : gQ 0 = 1 / 2 := by
  have := gQ_symm 0
  rw [neg_zero] at this
  linarith

/-- the defining property of the complementary error function in terms of the Gaussian law:
    `erfc y = (2/√π) ∫_y^∞ e^{-t²} dt = 2 · P(Z > √2 · y)`.  This is the assumption on `scipy.special.erfc`. -/
def ErfcSpec (erfc : ℝ → ℝ) : Prop := ∀ y, erfc y = 2 * gQ (Real.sqrt 2 * y)

/-- the specification is satisfiable -/
noncomputable def erfcRef (y : ℝ) : ℝ := 2 * gQ (Real.sqrt 2 * y)
theorem erfcRef_spec : ErfcSpec erfcRef := fun _ => rfl

end OptiVerif.GaussQ
