/-
Lemmas for linear propagation (C07): unimodular / constant-modulus frequency responses applied through
the DFT model conserve (or uniformly scale) energy and compose multiplicatively.
-/
import OptiVerif.Model.Fiber
import OptiVerif.Lemmas.FourierParseval

namespace OptiVerif
open OptiVerif.Fourier

namespace Cx
theorem ext' {a b : Cx ℝ} (hr : a.re = b.re) (hi : a.im = b.im) : a = b := by
  cases a; cases b; simp_all

theorem mul_assoc' (a b c : Cx ℝ) : a * b * c = a * (b * c) := by
  apply ext' <;> simp <;> ring

theorem mul_comm' (a b : Cx ℝ) : a * b = b * a := by
  apply ext' <;> simp <;> ring

theorem cis_mul (a b : ℝ) : (cis a : Cx ℝ) * cis b = cis (a + b) := by
  apply ext' <;> simp [cis, Real.cos_add, Real.sin_add] <;> ring

theorem cis_zero : (cis (0 : ℝ) : Cx ℝ) = ⟨1, 0⟩ := by simp [cis]

theorem mul_one' (a : Cx ℝ) : a * (⟨1, 0⟩ : Cx ℝ) = a := by
  apply ext' <;> simp

theorem exp_mul (z w : Cx ℝ) : Cx.exp z * Cx.exp w = Cx.exp (z + w) := by
  apply ext' <;> simp [Cx.exp, smul, cis, Real.exp_add, Real.cos_add, Real.sin_add] <;> ring

theorem normSq_exp (z : Cx ℝ) : (Cx.exp z).normSq = Real.exp (2 * z.re) := by
  have h : Real.exp (2 * z.re) = Real.exp z.re * Real.exp z.re := by rw [← Real.exp_add]; ring_nf
  simp only [Cx.exp, smul, cis, normSq, Transc.exp_real, Transc.cos_real, Transc.sin_real, h]
  nlinarith [Real.sin_sq_add_cos_sq z.im, Real.exp_pos z.re]

theorem normSq_nonneg (z : Cx ℝ) : 0 ≤ z.normSq := by
  simp only [normSq]; nlinarith [mul_self_nonneg z.re, mul_self_nonneg z.im]
end Cx

namespace Fiber
open Fiber

theorem sumSq_zipWith_mul (c : ℝ) (X H : List (Cx ℝ)) (hlen : X.length = H.length)
    (hH : ∀ h ∈ H, h.normSq = c) : sumSq (List.zipWith (· * ·) X H) = c * sumSq X := by
  induction X generalizing H with
  | nil => simp [sumSq]
  | cons x xs ih =>
    cases H with
    | nil => simp at hlen
    | cons h hs =>
      simp only [List.zipWith_cons_cons, sumSq, List.length_cons, Nat.add_right_cancel_iff] at *
      rw [ih hs hlen (fun h' hh' => hH h' (List.mem_cons_of_mem _ hh')), Cx.normSq_mul,
        hH h (by simp)]
      ring

theorem zipWith_mul_assoc (X A B : List (Cx ℝ)) :
    List.zipWith (· * ·) (List.zipWith (· * ·) X A) B = List.zipWith (· * ·) X (List.zipWith (· * ·) A B) := by
  induction X generalizing A B with
  | nil => simp
  | cons x xs ih =>
    cases A with
    | nil => simp
    | cons a as =>
      cases B with
      | nil => simp
      | cons b bs => simp [ih, Cx.mul_assoc']

theorem zipWith_map_map {α} (l : List α) (g h : α → Cx ℝ) :
    List.zipWith (· * ·) (l.map g) (l.map h) = l.map (fun x => g x * h x) := by
  induction l with
  | nil => rfl
  | cons a as ih => simp [ih]

theorem zipWith_ones (X : List (Cx ℝ)) (H : List (Cx ℝ)) (hlen : X.length = H.length)
    (hH : ∀ h ∈ H, h = (⟨1, 0⟩ : Cx ℝ)) : List.zipWith (· * ·) X H = X := by
  induction X generalizing H with
  | nil => simp
  | cons x xs ih =>
    cases H with
    | nil => simp at hlen
    | cons h hs =>
      simp only [List.length_cons, Nat.add_right_cancel_iff] at hlen
      simp only [List.zipWith_cons_cons]
      rw [ih hs hlen (fun h' hh' => hH h' (List.mem_cons_of_mem _ hh')), hH h (by simp), Cx.mul_one']

theorem length_applyH (H xs : List (Cx ℝ)) (hlen : H.length = xs.length) : (applyH H xs).length = xs.length := by
  simp [applyH, length_idft, length_dft, hlen]

/-- a frequency response of constant squared modulus `c` scales the energy by `c` -/
theorem sumSq_applyH (c : ℝ) (H xs : List (Cx ℝ)) (hlen : H.length = xs.length)
    (hH : ∀ h ∈ H, h.normSq = c) : sumSq (applyH H xs) = c * sumSq xs := by
  by_cases hn : xs.length = 0
  · have : xs = [] := List.eq_nil_of_length_eq_zero hn
    subst this
    simp [applyH, dft, idft, sumSq]
  · have hY : (List.zipWith (· * ·) (dft xs) H).length = xs.length := by simp [length_dft, hlen]
    have h1 := Props_parseval_inverse (List.zipWith (· * ·) (dft xs) H) (by rw [hY]; exact hn)
    rw [hY, sumSq_zipWith_mul c _ _ (by rw [length_dft, hlen]) hH, sumSq_dft xs hn] at h1
    have hpos : (xs.length : ℝ) ≠ 0 := by exact_mod_cast hn
    have : (xs.length : ℝ) * sumSq (applyH H xs) = (xs.length : ℝ) * (c * sumSq xs) := by
      rw [applyH]; rw [h1]; ring
    exact mul_left_cancel₀ hpos this
where
  Props_parseval_inverse (ys : List (Cx ℝ)) (hn : ys.length ≠ 0) :
      (ys.length : ℝ) * sumSq (idft ys) = sumSq ys := by
    have h := sumSq_dft (idft ys) (by rw [length_idft]; exact hn)
    rw [dft_idft, length_idft] at h
    exact h.symm

/-- two filters in sequence = the product filter -/
theorem applyH_applyH (H1 H2 xs : List (Cx ℝ)) :
    applyH H2 (applyH H1 xs) = applyH (List.zipWith (· * ·) H1 H2) xs := by
  simp only [applyH, dft_idft, zipWith_mul_assoc]

theorem applyH_ones (H xs : List (Cx ℝ)) (hlen : H.length = xs.length)
    (hH : ∀ h ∈ H, h = (⟨1, 0⟩ : Cx ℝ)) : applyH H xs = xs := by
  rw [applyH, zipWith_ones _ _ (by rw [length_dft, hlen]) hH, idft_dft]

theorem length_wAxis (n : ℕ) (fs : ℝ) : (wAxis n fs).length = n := by simp [wAxis, length_sidxList]

end Fiber
end OptiVerif
