/-
Helper lemmas for C13: the generic model `Model/Ber.lean` read at `R := ℝ`, the specification `QSpec` of the Gaussian tail,
grids and list minima.
-/
import OptiVerif.Model.Ber
import OptiVerif.Lemmas.NumReal
import Mathlib.Analysis.SpecialFunctions.Pow.Real

set_option linter.unusedSectionVars false
set_option linter.unusedVariables false
set_option linter.unusedSimpArgs false
set_option linter.unnecessarySeqFocus false

namespace OptiVerif.Ber
open OptiVerif

/-- what the theorems assume about `Q` (all true of the Gaussian tail: `gQ_spec`) -/
structure QSpec (Q : ℝ → ℝ) : Prop where
  anti : Antitone Q
  symm : ∀ x, Q x + Q (-x) = 1
  nonneg : ∀ x, 0 ≤ Q x
  le_one : ∀ x, Q x ≤ 1

theorem QSpec.zero {Q : ℝ → ℝ} (h : QSpec Q) : Q 0 = 1 / 2 := by
  have := h.symm 0
  rw [neg_zero] at this
  linarith

/-! ### literals -/

@[simp] theorem lit_real (n : ℕ) : (lit n : ℝ) = (n : ℝ) := rfl
theorem half_real : (half : ℝ) = 1 / 2 := by simp [half]
theorem ofRat_real (q : ℚ) : (ofRat q : ℝ) = (q : ℝ) := by
  simp only [ofRat]
  rw [Rat.cast_def]
theorem powNat_real (x : ℝ) (k : ℕ) : powNat x k = x ^ k := by
  induction k with
  | zero => simp [powNat]
  | succ k ih => simp [powNat, ih, pow_succ]

theorem pow10_real (x : ℝ) : pow10 x = (10 : ℝ) ^ x := by
  simp only [pow10, lit_real, Transc.exp_real, Transc.log_real]
  rw [Real.rpow_def_of_pos (by norm_num : (0:ℝ) < 10)]
  congr 1
  push_cast
  ring
theorem idb_real (x : ℝ) : idb x = (10 : ℝ) ^ (x / 10) := by
  simp only [idb, pow10_real, lit_real]; norm_num
theorem idb_pos (x : ℝ) : 0 < (idb x : ℝ) := by
  rw [idb_real]; exact Real.rpow_pos_of_pos (by norm_num) _

/-! ### `np.linspace` -/

theorem length_linspace (a b : ℝ) (n : ℕ) : (linspace a b n).length = n := by
  match n with
  | 0 => rfl
  | 1 => rfl
  | m + 2 => simp [linspace]

/-- for at least two points: `y_k = a + k (b-a)/(n-1)`, `k = 0 … n-1` (the last one is `b`) -/
theorem linspace_real (a b : ℝ) (n : ℕ) (hn : 2 ≤ n) :
    linspace a b n = (List.range n).map fun (k : ℕ) => a + (k : ℝ) * (b - a) / ((n : ℝ) - 1) := by
  obtain ⟨m, rfl⟩ : ∃ m, n = m + 2 := ⟨n - 2, by omega⟩
  have hm : ((m + 2 : ℕ) : ℝ) - 1 = (m : ℝ) + 1 := by push_cast; ring
  have hm0 : (m : ℝ) + 1 ≠ 0 := by positivity
  simp only [linspace]
  rw [List.range_succ (n := m + 1), List.map_append, List.map_singleton]
  congr 1
  · apply List.map_congr_left
    intro k _
    rw [hm]
    push_cast
    field_simp
    ring
  · rw [hm]
    push_cast
    field_simp
    ring_nf

/-- a common shift of both end points shifts every grid point -/
theorem linspace_shift (a b d : ℝ) (n : ℕ) : linspace (a + d) (b + d) n = (linspace a b n).map (· + d) := by
  match n with
  | 0 => rfl
  | 1 => rfl
  | m + 2 =>
    simp only [linspace, List.map_append, List.map_map, List.map_singleton]
    congr 1
    apply List.map_congr_left
    intro k _
    simp only [Function.comp]
    ring_nf

/-- every grid point lies between the end points -/
theorem linspace_mem_Icc (a b : ℝ) (hab : a ≤ b) (n : ℕ) : ∀ r ∈ linspace a b n, a ≤ r ∧ r ≤ b := by
  match n with
  | 0 => intro r hr; simp [linspace] at hr
  | 1 => intro r hr; simp [linspace] at hr; subst hr; exact ⟨le_refl _, hab⟩
  | m + 2 =>
    intro r hr
    rw [linspace_real a b (m + 2) (by omega)] at hr
    simp only [List.mem_map, List.mem_range] at hr
    obtain ⟨k, hk, rfl⟩ := hr
    have hm : ((m + 2 : ℕ) : ℝ) - 1 = (m : ℝ) + 1 := by push_cast; ring
    rw [hm]
    have hk' : (k : ℝ) ≤ (m : ℝ) + 1 := by
      have : k ≤ m + 1 := by omega
      exact_mod_cast this
    have hpos : (0 : ℝ) < (m : ℝ) + 1 := by positivity
    have hfrac : 0 ≤ (k : ℝ) / ((m : ℝ) + 1) ∧ (k : ℝ) / ((m : ℝ) + 1) ≤ 1 :=
      ⟨by positivity, by rw [div_le_one hpos]; exact hk'⟩
    have : a + (k : ℝ) * (b - a) / ((m : ℝ) + 1) = a + (k : ℝ) / ((m : ℝ) + 1) * (b - a) := by ring
    rw [this]
    constructor
    · nlinarith [hfrac.1, sub_nonneg.mpr hab]
    · nlinarith [hfrac.2, sub_nonneg.mpr hab]

/-- the grid is symmetric about the midpoint of its end points -/
theorem linspace_reverse (a b : ℝ) (n : ℕ) (hn : 2 ≤ n) :
    (linspace a b n).reverse = (linspace a b n).map fun r => a + b - r := by
  rw [linspace_real a b n hn]
  apply List.ext_getElem (by simp)
  intro k h1 h2
  simp only [List.length_reverse, List.length_map, List.length_range] at h1
  simp only [List.getElem_reverse, List.getElem_map, List.getElem_range, List.length_map, List.length_range]
  have hn1 : ((n : ℝ) - 1) ≠ 0 := by
    have : (2 : ℝ) ≤ (n : ℝ) := by exact_mod_cast hn
    linarith
  have hc : ((n - 1 - k : ℕ) : ℝ) = (n : ℝ) - 1 - (k : ℝ) := by
    rw [Nat.cast_sub (by omega), Nat.cast_sub (by omega)]; simp
  rw [hc]
  field_simp
  ring

/-- scaling the right end point of a grid starting at 0 scales every point: `r_k(μ) = c_k μ`, `0 ≤ c_k ≤ 1` -/
theorem linspace_zero (b : ℝ) (n : ℕ) (hn : 2 ≤ n) :
    linspace 0 b n = (List.range n).map fun (k : ℕ) => (k : ℝ) / ((n : ℝ) - 1) * b := by
  rw [linspace_real 0 b n hn]
  apply List.map_congr_left
  intro k _
  ring

/-! ### `np.min`, `np.argmin` -/

/-- the fold behind `np.min` -/
noncomputable def foldMin (m : ℝ) (xs : List ℝ) : ℝ := xs.foldl (fun m y => if y < m then y else m) m

theorem minL_cons (x : ℝ) (xs : List ℝ) : minL (x :: xs) = some (foldMin x xs) := rfl

theorem foldMin_spec (m : ℝ) (xs : List ℝ) : foldMin m xs ∈ m :: xs ∧ ∀ x ∈ m :: xs, foldMin m xs ≤ x := by
  induction xs generalizing m with
  | nil => simp [foldMin]
  | cons y ys ih =>
    have hstep : foldMin m (y :: ys) = foldMin (if y < m then y else m) ys := rfl
    rw [hstep]
    obtain ⟨hmem, hle⟩ := ih (if y < m then y else m)
    constructor
    · rcases List.mem_cons.mp hmem with h | h
      · rw [h]
        by_cases hy : y < m <;> simp [hy]
      · exact List.mem_cons_of_mem _ (List.mem_cons_of_mem _ h)
    · intro x hx
      have h0 := hle (if y < m then y else m) (List.mem_cons_self ..)
      rcases List.mem_cons.mp hx with rfl | hx
      · by_cases hy : y < x
        · simp only [hy, if_true] at h0 ⊢; linarith
        · simpa [hy] using h0
      · rcases List.mem_cons.mp hx with rfl | hx
        · by_cases hy : x < m
          · simpa [hy] using h0
          · simp only [hy, if_false] at h0 ⊢; linarith [not_lt.mp hy]
        · exact hle x (List.mem_cons_of_mem _ hx)

theorem minL_mem {l : List ℝ} {v : ℝ} (h : minL l = some v) : v ∈ l := by
  cases l with
  | nil => simp [minL] at h
  | cons x xs =>
    rw [minL_cons] at h
    obtain rfl := Option.some.inj h
    exact (foldMin_spec x xs).1

theorem minL_le {l : List ℝ} {v : ℝ} (h : minL l = some v) : ∀ x ∈ l, v ≤ x := by
  cases l with
  | nil => simp [minL] at h
  | cons x xs =>
    rw [minL_cons] at h
    obtain rfl := Option.some.inj h
    exact (foldMin_spec x xs).2

theorem minL_isSome {l : List ℝ} (h : l ≠ []) : ∃ v, minL l = some v := by
  cases l with
  | nil => exact absurd rfl h
  | cons x xs => exact ⟨_, minL_cons x xs⟩

/-- the minimum of a list is at least any common lower bound of its elements -/
theorem le_minL {l : List ℝ} {v m : ℝ} (h : minL l = some v) (hm : ∀ x ∈ l, m ≤ x) : m ≤ v := hm v (minL_mem h)

/-- element-wise smaller list ⇒ smaller minimum -/
theorem minL_mono {l l' : List ℝ} {v v' : ℝ} (hl : List.Forall₂ (· ≤ ·) l l') (h : minL l = some v) (h' : minL l' = some v') :
    v ≤ v' := by
  have hv' := minL_mem h'
  have : ∃ x ∈ l, x ≤ v' := by
    clear h h'
    induction hl with
    | nil => simp at hv'
    | cons hab _ ih =>
      rcases List.mem_cons.mp hv' with rfl | hmem
      · exact ⟨_, List.mem_cons_self .., hab⟩
      · obtain ⟨x, hx, hxv⟩ := ih hmem
        exact ⟨x, List.mem_cons_of_mem _ hx, hxv⟩
  obtain ⟨x, hx, hxv⟩ := this
  exact (minL_le h x hx).trans hxv

/-- the fold behind `np.argmin` -/
noncomputable def argStep (s : ℕ × ℝ × ℕ) (y : ℝ) : ℕ × ℝ × ℕ := if y < s.2.1 then (s.2.2, y, s.2.2 + 1) else (s.1, s.2.1, s.2.2 + 1)

theorem argminL_cons (x : ℝ) (xs : List ℝ) : argminL (x :: xs) = some (xs.foldl argStep (0, x, 1)).1 := rfl

theorem argFold_spec (pre xs : List ℝ) (bi : ℕ) (bv : ℝ) (hbi : pre[bi]? = some bv) :
    (pre ++ xs)[(xs.foldl argStep (bi, bv, pre.length)).1]? = some (foldMin bv xs) := by
  induction xs generalizing pre bi bv with
  | nil =>
    simp only [List.foldl_nil, List.append_nil, foldMin]
    exact hbi
  | cons y ys ih =>
    have hstep : foldMin bv (y :: ys) = foldMin (if y < bv then y else bv) ys := rfl
    rw [hstep, List.foldl_cons]
    have happ : pre ++ y :: ys = (pre ++ [y]) ++ ys := by simp
    rw [happ]
    by_cases hy : y < bv
    · have : argStep (bi, bv, pre.length) y = (pre.length, y, (pre ++ [y]).length) := by simp [argStep, hy]
      rw [this]
      simp only [hy, if_true]
      exact ih (pre ++ [y]) pre.length y (by simp)
    · have : argStep (bi, bv, pre.length) y = (bi, bv, (pre ++ [y]).length) := by simp [argStep, hy]
      rw [this]
      simp only [hy, if_false]
      apply ih (pre ++ [y]) bi bv
      have hlt : bi < pre.length := by
        by_contra hge
        rw [List.getElem?_eq_none (by omega)] at hbi
        exact absurd hbi (by simp)
      rw [List.getElem?_append_left hlt]
      exact hbi

/-- `l[np.argmin(l)] = np.min(l)` -/
theorem argminL_spec {l : List ℝ} {i : ℕ} (h : argminL l = some i) : l[i]? = minL l := by
  cases l with
  | nil => simp [argminL] at h
  | cons x xs =>
    rw [argminL_cons] at h
    obtain rfl := Option.some.inj h
    rw [minL_cons]
    have := argFold_spec [x] xs 0 x (by simp)
    simpa using this

/-- `f(r[np.argmin(f(r))]) = np.min(f(r))`, and the returned point is a grid point -/
theorem argminOn_spec (f : ℝ → ℝ) (grid : List ℝ) (t : ℝ) (h : argminOn f grid = some t) :
    t ∈ grid ∧ minL (grid.map f) = some (f t) := by
  unfold argminOn at h
  cases hi : argminL (grid.map f) with
  | none => simp [hi] at h
  | some i =>
    simp only [hi] at h
    refine ⟨List.mem_of_getElem? h, ?_⟩
    have := argminL_spec hi
    rw [← this, List.getElem?_map, h]
    rfl

theorem argminOn_isSome (f : ℝ → ℝ) (grid : List ℝ) (h : grid ≠ []) : ∃ t, argminOn f grid = some t := by
  cases grid with
  | nil => exact absurd rfl h
  | cons x xs =>
    have hmin := argminL_spec (l := (x :: xs).map f) (i := ((xs.map f).foldl argStep (0, f x, 1)).1) (by
      rw [List.map_cons, argminL_cons])
    unfold argminOn
    rw [List.map_cons, argminL_cons]
    simp only
    rw [List.map_cons, minL_cons, ← List.map_cons, List.getElem?_map] at hmin
    cases hg : (x :: xs)[((xs.map f).foldl argStep (0, f x, 1)).1]? with
    | none => rw [hg] at hmin; simp at hmin
    | some t => exact ⟨t, rfl⟩

/-- composing the objective with a shift of the grid -/
theorem argminOn_shift (f g : ℝ → ℝ) (grid : List ℝ) (d : ℝ) (hfg : ∀ r, g (r + d) = f r) :
    argminOn g (grid.map (· + d)) = (argminOn f grid).map (· + d) := by
  unfold argminOn
  have : (grid.map (· + d)).map g = grid.map f := by
    rw [List.map_map]
    apply List.map_congr_left
    intro r _
    exact hfg r
  rw [this]
  cases argminL (grid.map f) with
  | none => rfl
  | some i => simp [List.getElem?_map]

/-! ### unfolding the grid-minimum functions at ℝ -/

theorem ookTheory_some {Q : ℝ → ℝ} {mu s0 s1 v : ℝ} (h : ookTheory Q mu s0 s1 = some v) :
    ∃ w, minL ((linspace 0 mu Gen.BerFormulas.ookTheoryGrid).map (ookSum Q mu s0 s1)) = some w ∧ v = 1 / 2 * w := by
  simp only [ookTheory, half_real, lit_real, Nat.cast_zero, Option.map_eq_some_iff] at h
  obtain ⟨w, hw, rfl⟩ := h
  exact ⟨w, hw, rfl⟩

theorem ppmTheory_hard_some {Q : ℝ → ℝ} {M : ℕ} {mu s0 s1 I v : ℝ} (h : ppmTheory Q M .hard mu s0 s1 I = .ok (some v)) :
    ∃ w, minL ((linspace 0 mu Gen.BerFormulas.ppmTheoryGrid).map
        fun r => 1 - Q ((r - mu) / s1) * (1 - Q (r / s0)) ^ (M - 1)) = some w ∧ v = ppmFactorTheory M w := by
  unfold ppmTheory at h
  split at h
  · simp at h
  · simp only [Except.ok.injEq, Option.map_eq_some_iff, lit_real, Nat.cast_zero, Nat.cast_one, powNat_real] at h
    obtain ⟨w, hw, rfl⟩ := h
    exact ⟨w, hw, rfl⟩

end OptiVerif.Ber
