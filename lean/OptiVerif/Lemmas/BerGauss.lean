/-
C13: the Gaussian tail `gQ x = N(0,1)(x, ∞)` satisfies the specification `QSpec` under which all theorems about the BER
formulas are proved (feasibility probe P6).  Self-contained copy (no dependency on other properties' files).
-/
import OptiVerif.Lemmas.Ber
import Mathlib.Probability.Distributions.Gaussian.Real

open MeasureTheory ProbabilityTheory Set

namespace OptiVerif.Ber

/-- the upper tail of the standard normal law: what `0.5*erfc(x/√2)` computes -/
noncomputable def gQ (x : ℝ) : ℝ := ((gaussianReal 0 1) (Ioi x)).toReal

theorem gQ_antitone : Antitone gQ := by
  intro a b hab
  unfold gQ
  apply ENNReal.toReal_mono (measure_ne_top _ _)
  exact measure_mono (Ioi_subset_Ioi hab)

theorem gQ_nonneg (x : ℝ) : 0 ≤ gQ x := ENNReal.toReal_nonneg

theorem gQ_le_one (x : ℝ) : gQ x ≤ 1 := by
  unfold gQ
  have : (gaussianReal 0 1) (Ioi x) ≤ 1 := prob_le_one
  exact ENNReal.toReal_mono ENNReal.one_ne_top this |>.trans (by simp)

theorem gQ_symm (x : ℝ) : gQ x + gQ (-x) = 1 := by
  unfold gQ
  have hneg : (gaussianReal 0 1) (Ioi (-x)) = (gaussianReal 0 1) (Iio x) := by
    have h := gaussianReal_map_neg (μ := 0) (v := 1)
    rw [neg_zero] at h
    conv_lhs => rw [← h]
    rw [Measure.map_apply measurable_neg measurableSet_Ioi]
    congr 1
    ext y; simp
  have hsing : (gaussianReal 0 1) {x} = 0 := by
    have hac := gaussianReal_absolutelyContinuous (0:ℝ) (v := 1) one_ne_zero
    exact hac (by simp)
  have hcompl : (Ioi x)ᶜ = Iio x ∪ {x} := by
    ext y; simp [le_iff_lt_or_eq]
  have h1 : (gaussianReal 0 1) (Ioi x) + (gaussianReal 0 1) (Iio x) = 1 := by
    have := prob_add_prob_compl (μ := gaussianReal 0 1) (measurableSet_Ioi (a := x))
    rw [hcompl] at this
    have hu : (gaussianReal 0 1) (Iio x ∪ {x}) = (gaussianReal 0 1) (Iio x) := by
      apply le_antisymm
      · calc (gaussianReal 0 1) (Iio x ∪ {x})
            ≤ (gaussianReal 0 1) (Iio x) + (gaussianReal 0 1) {x} := measure_union_le _ _
          _ = (gaussianReal 0 1) (Iio x) := by rw [hsing, add_zero]
      · exact measure_mono subset_union_left
    rw [hu] at this; exact this
  rw [hneg, ← ENNReal.toReal_add (measure_ne_top _ _) (measure_ne_top _ _), h1]; simp

/-- the Gaussian tail satisfies the specification: everything proved under `QSpec` holds for it -/
theorem gQ_spec : QSpec gQ := ⟨gQ_antitone, gQ_symm, gQ_nonneg, gQ_le_one⟩

end OptiVerif.Ber
