/-
Parseval for the generic DFT model, shift/rotation lemmas and the frequency axis (C02).
-/
import OptiVerif.Lemmas.Fourier

namespace OptiVerif.Fourier
open OptiVerif Finset Complex

theorem conj_zeta_pow (n : ℕ) (hn : n ≠ 0) (m : ℕ) :
    (starRingEnd ℂ) ((zeta n ^ m)⁻¹) = zeta n ^ m := by
  rw [map_inv₀, map_pow]
  have : (starRingEnd ℂ) (zeta n) = (zeta n)⁻¹ := by
    rw [zeta, ← Complex.exp_conj, ← Complex.exp_neg]
    congr 1
    simp [Complex.conj_ofReal, map_ofNat, map_div₀, Complex.conj_I, map_natCast]
    ring
  rw [this, inv_pow, inv_inv]

/-- Parseval in ℂ: Σ_k X_k conj(X_k) = n Σ_j x_j conj(x_j) -/
theorem parseval_C (x : ℕ → Cx ℝ) (n : ℕ) (hn : n ≠ 0) :
    ∑ k ∈ range n, (dftAt x n k).toC * (starRingEnd ℂ) (dftAt x n k).toC
      = (n : ℂ) * ∑ j ∈ range n, (x j).toC * (starRingEnd ℂ) (x j).toC := by
  simp only [toC_dftAt, map_sum, map_mul, conj_zeta_pow n hn, Finset.sum_mul, Finset.mul_sum]
  -- Σ_k Σ_j' Σ_j  (x_j ζ^{-jk}) (conj x_j' ζ^{j'k})
  rw [Finset.sum_comm]
  have step : ∀ j' ∈ range n, ∑ k ∈ range n, ∑ j ∈ range n,
      (x j).toC * (zeta n ^ (j * k))⁻¹ * ((starRingEnd ℂ) (x j').toC * zeta n ^ (j' * k))
      = (n : ℂ) * ((x j').toC * (starRingEnd ℂ) (x j').toC) := by
    intro j' hj'
    rw [Finset.sum_comm]
    have inner : ∀ j ∈ range n, ∑ k ∈ range n,
        (x j).toC * (zeta n ^ (j * k))⁻¹ * ((starRingEnd ℂ) (x j').toC * zeta n ^ (j' * k))
        = (x j).toC * (starRingEnd ℂ) (x j').toC * (if j' = j then (n : ℂ) else 0) := by
      intro j hj
      rw [← ortho n hn j' j (Finset.mem_range.mp hj') (Finset.mem_range.mp hj), Finset.mul_sum]
      apply Finset.sum_congr rfl
      intro k _
      ring
    rw [Finset.sum_congr rfl inner]
    simp only [mul_ite, mul_zero]
    rw [Finset.sum_ite_eq (range n) j' (fun j => (x j).toC * (starRingEnd ℂ) (x j').toC * (n : ℂ))]
    simp only [hj', if_true]
    ring
  rw [Finset.sum_congr rfl step]

theorem normSq_eq_mul_conj (z : Cx ℝ) : ((z.normSq : ℝ) : ℂ) = z.toC * (starRingEnd ℂ) z.toC := by
  rw [Complex.mul_conj, Cx.toC_normSq]

/-- Parseval on functions: Σ_k |X_k|² = n Σ_j |x_j|² -/
theorem parseval_fun (x : ℕ → Cx ℝ) (n : ℕ) (hn : n ≠ 0) :
    ∑ k ∈ range n, (dftAt x n k).normSq = (n : ℝ) * ∑ j ∈ range n, (x j).normSq := by
  have h := parseval_C x n hn
  simp only [← normSq_eq_mul_conj] at h
  have : ((∑ k ∈ range n, (dftAt x n k).normSq : ℝ) : ℂ) = (((n : ℝ) * ∑ j ∈ range n, (x j).normSq : ℝ) : ℂ) := by
    push_cast
    exact h
  exact_mod_cast this

theorem sumSq_eq_sum (xs : List (Cx ℝ)) : sumSq xs = ∑ j ∈ range xs.length, (nth xs j).normSq := by
  induction xs with
  | nil => simp [sumSq]
  | cons z zs ih =>
    simp only [sumSq, List.length_cons]
    rw [Finset.sum_range_succ', ih, add_comm]
    simp [nth]

theorem sumSq_dft (xs : List (Cx ℝ)) (hn : xs.length ≠ 0) :
    sumSq (dft xs) = (xs.length : ℝ) * sumSq xs := by
  rw [sumSq_eq_sum, sumSq_eq_sum, length_dft, ← parseval_fun _ _ hn]
  apply Finset.sum_congr rfl
  intro k hk
  rw [nth_dft xs k (Finset.mem_range.mp hk)]

/-! ### shifts -/

theorem rot_eq_rotate {α} (k : ℕ) (xs : List α) : rot k xs = xs.rotate k := by
  rw [rot, List.rotate_eq_drop_append_take_mod]

theorem length_rot {α} (k : ℕ) (xs : List α) : (rot k xs).length = xs.length := by
  rw [rot_eq_rotate, List.length_rotate]

theorem ifftshift_fftshift {α} (xs : List α) : ifftshift (fftshift xs) = xs := by
  unfold ifftshift fftshift
  rw [length_rot, rot_eq_rotate, rot_eq_rotate, List.rotate_rotate]
  have : xs.length - xs.length / 2 + xs.length / 2 = xs.length := by omega
  rw [this, List.rotate_length]

theorem fftshift_ifftshift {α} (xs : List α) : fftshift (ifftshift xs) = xs := by
  unfold ifftshift fftshift
  rw [length_rot, rot_eq_rotate, rot_eq_rotate, List.rotate_rotate]
  have : xs.length / 2 + (xs.length - xs.length / 2) = xs.length := by omega
  rw [this, List.rotate_length]

theorem length_fftshift {α} (xs : List α) : (fftshift xs).length = xs.length := length_rot _ _
theorem length_ifftshift {α} (xs : List α) : (ifftshift xs).length = xs.length := length_rot _ _

/-- `fftshift` only reorders: element i of the shifted row is element (i + ⌈n/2⌉) mod n of the row -/
theorem getElem_fftshift {α} (xs : List α) (i : ℕ) (hi : i < (fftshift xs).length) :
    (fftshift xs)[i] = xs[(i + (xs.length - xs.length / 2)) % xs.length]'(by
      rw [length_fftshift] at hi; exact Nat.mod_lt _ (by omega)) := by
  simp only [fftshift, rot_eq_rotate, List.getElem_rotate]

/-! ### frequency axis -/

theorem length_sidxList (n : ℕ) : (sidxList n).length = n := by simp [sidxList]

theorem getElem_sidxList (n j : ℕ) (h : j < (sidxList n).length) : (sidxList n)[j] = sidx n j := by
  simp [sidxList]

/-- the shifted signed-index axis is ascending: -⌊n/2⌋, …, ⌈n/2⌉-1 -/
theorem fftshift_sidxList (n : ℕ) :
    fftshift (sidxList n) = (List.range n).map (fun i : ℕ => (i : ℤ) - ((n / 2 : ℕ) : ℤ)) := by
  apply List.ext_getElem
  · simp [length_fftshift, length_sidxList]
  · intro i h1 h2
    have hi : i < n := by simpa using h2
    rw [getElem_fftshift, getElem_sidxList]
    simp only [length_sidxList, List.getElem_map, List.getElem_range]
    simp only [sidx]
    by_cases hlt : i < n / 2
    · have hmod : (i + (n - n / 2)) % n = i + (n - n / 2) := Nat.mod_eq_of_lt (by omega)
      rw [hmod]
      have : ¬ (i + (n - n / 2) ≤ (n - 1) / 2) := by omega
      rw [if_neg this]
      push_cast
      omega
    · have hmod : (i + (n - n / 2)) % n = i - n / 2 := by
        have : i + (n - n / 2) = (i - n / 2) + n := by omega
        rw [this, Nat.add_mod_right, Nat.mod_eq_of_lt (by omega)]
      rw [hmod]
      have : i - n / 2 ≤ (n - 1) / 2 := by omega
      rw [if_pos this]
      push_cast
      omega

end OptiVerif.Fourier
