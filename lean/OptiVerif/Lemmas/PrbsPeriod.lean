/-
From the certificate to `Function.minimalPeriod`, orbit = all non-zero states, balance (C04).
-/
import OptiVerif.Lemmas.PrbsLinear
import Mathlib.Dynamics.PeriodicPts.Defs
import Mathlib.Data.Nat.Prime.Basic
import Mathlib.Tactic.NormNum.Prime
import Mathlib.Data.Finset.Card
import Mathlib.Data.Finset.Image
import Mathlib.Order.Interval.Finset.Nat

namespace OptiVerif.PrbsCert
open Function

theorem period_of_cert {α : Type} (f : α → α) (N : ℕ) (s : α)
    (h1 : f^[N] s = s) (h2 : ∀ p, p.Prime → p ∣ N → f^[N / p] s ≠ s) :
    minimalPeriod f s = N := by
  have hper : IsPeriodicPt f N s := h1
  have hd : minimalPeriod f s ∣ N := hper.minimalPeriod_dvd
  obtain ⟨m, hm⟩ := hd
  by_contra hne
  have hm1 : m ≠ 1 := by
    intro h; subst h; simp at hm; exact hne hm.symm
  obtain ⟨p, hp, hpm⟩ := Nat.exists_prime_and_dvd hm1
  obtain ⟨k, hk⟩ := hpm
  have hpN : p ∣ N := ⟨minimalPeriod f s * k, by rw [hm, hk]; ring⟩
  have hdiv : N / p = minimalPeriod f s * k := by
    rw [hm, hk]
    have : minimalPeriod f s * (p * k) = p * (minimalPeriod f s * k) := by ring
    rw [this, Nat.mul_div_cancel_left _ hp.pos]
  apply h2 p hp hpN
  rw [hdiv]
  exact (isPeriodicPt_minimalPeriod f s).mul_const k

/-- soundness of the trial division -/
theorem noDivFrom_sound (n k fuel : Nat) (hk : 1 ≤ k) (hfuel : n.sqrt < k + fuel)
    (h : noDivFrom n k fuel = true) : ∀ m, k ≤ m → m ≤ n.sqrt → ¬ m ∣ n := by
  induction fuel generalizing k with
  | zero =>
    intro m hm hms; omega
  | succ fuel ih =>
    intro m hm hms
    simp only [noDivFrom] at h
    split at h
    · next hkk =>
      -- k*k > n, so k > sqrt n ≥ m ≥ k: contradiction
      have : m * m ≤ n := le_trans (Nat.mul_le_mul hms hms) (Nat.sqrt_le n)
      have : k * k ≤ m * m := Nat.mul_le_mul hm hm
      omega
    · split at h
      · simp at h
      · next hkk hmod =>
        rcases Nat.eq_or_lt_of_le hm with rfl | hlt
        · intro hd
          apply hmod
          simp [Nat.mod_eq_zero_of_dvd hd]
        · exact ih (k+1) (by omega) (by omega) h m hlt hms

theorem isPrimeB_sound (n : Nat) (h : isPrimeB n = true) : n.Prime := by
  simp only [isPrimeB, Bool.and_eq_true, decide_eq_true_eq] at h
  rw [Nat.prime_def_le_sqrt]
  exact ⟨h.1, noDivFrom_sound n 2 n.sqrt (by omega) (by omega) h.2⟩

/-- From a certificate whose list `qs` contains every prime divisor of `2^n-1`:
    every non-zero state has minimal period exactly `2^n-1`. -/
theorem max_period_of_cert (n t : Nat) (qs : List Nat) (hc : certOK n t qs = true)
    (hqs : ∀ p, p.Prime → p ∣ 2^n - 1 → p ∈ qs) (s : Nat) (hs0 : s ≠ 0) (hs : s < 2^n) :
    minimalPeriod (step n t) s = 2^n - 1 := by
  obtain ⟨h1, h2⟩ := cert_sound n t qs hc
  apply period_of_cert
  · exact h1 s hs
  · intro p hp hpd hfix
    exact hs0 (h2 p (hqs p hp hpd) s hs hfix)

/-- non-zero states below 2^n -/
def states (n : Nat) : Finset Nat := Finset.Ioo 0 (2^n)

theorem card_states (n : Nat) : (states n).card = 2^n - 1 := by simp [states]

theorem iterate_step_zero (n t k : Nat) : (step n t)^[k] 0 = 0 := by
  induction k with
  | zero => rfl
  | succ k ih => rw [Function.iterate_succ_apply, step_zero, ih]

/-- the orbit of a non-zero state over one period -/
def orbit (n t s : Nat) : Finset Nat := (Finset.range (2^n - 1)).image (fun i => (step n t)^[i] s)

theorem orbit_eq_states (n t s : Nat) (hper : minimalPeriod (step n t) s = 2^n - 1)
    (hs0 : s ≠ 0) (hs : s < 2^n) : orbit n t s = states n := by
  have hinj : Set.InjOn (fun i => (step n t)^[i] s) (Finset.range (2^n - 1) : Set Nat) := by
    have := iterate_injOn_Iio_minimalPeriod (f := step n t) (x := s)
    rw [hper] at this
    intro a ha b hb hab
    exact this (by simpa using ha) (by simpa using hb) hab
  apply Finset.eq_of_subset_of_card_le
  · intro x hx
    simp only [orbit, Finset.mem_image, Finset.mem_range] at hx
    obtain ⟨i, hi, rfl⟩ := hx
    simp only [states, Finset.mem_Ioo]
    refine ⟨Nat.pos_of_ne_zero ?_, iterate_step_lt n t i s hs⟩
    intro h0
    have hfix : (step n t)^[2^n - 1] s = s := by
      have := isPeriodicPt_minimalPeriod (step n t) s
      rw [hper] at this; exact this
    have : (step n t)^[2^n - 1] s = 0 := by
      have e : 2^n - 1 = (2^n - 1 - i) + i := by omega
      rw [e, Function.iterate_add_apply, h0, iterate_step_zero]
    exact hs0 (hfix ▸ this)
  · rw [card_states, orbit, Finset.card_image_of_injOn hinj, Finset.card_range]

theorem card_odd_states (n : Nat) (hn : 1 ≤ n) :
    ((states n).filter (fun x => x % 2 = 1)).card = 2^(n-1) := by
  have h2 : 2^n = 2 * 2^(n-1) := by
    have : n = (n - 1) + 1 := by omega
    conv_lhs => rw [this, pow_succ]
    ring
  have : (states n).filter (fun x => x % 2 = 1) = (Finset.range (2^(n-1))).image (fun k => 2*k+1) := by
    ext x
    simp only [states, Finset.mem_filter, Finset.mem_Ioo, Finset.mem_image, Finset.mem_range]
    constructor
    · rintro ⟨⟨_, hx⟩, hodd⟩
      exact ⟨x / 2, by omega, by omega⟩
    · rintro ⟨k, hk, rfl⟩
      exact ⟨⟨by omega, by omega⟩, by omega⟩
  rw [this, Finset.card_image_of_injective _ (fun a b h => by simpa using h), Finset.card_range]

/-- number of steps `i < 2^n-1` at which the state is odd (= the emitted bit is 1) -/
theorem ones_per_period (n t s : Nat) (hn : 1 ≤ n) (hper : minimalPeriod (step n t) s = 2^n - 1)
    (hs0 : s ≠ 0) (hs : s < 2^n) :
    ((Finset.range (2^n - 1)).filter (fun i => ((step n t)^[i] s) % 2 = 1)).card = 2^(n-1) := by
  have hinj : Set.InjOn (fun i => (step n t)^[i] s) (Finset.range (2^n - 1) : Set Nat) := by
    have := iterate_injOn_Iio_minimalPeriod (f := step n t) (x := s)
    rw [hper] at this
    intro a ha b hb hab
    exact this (by simpa using ha) (by simpa using hb) hab
  rw [← card_odd_states n hn, ← orbit_eq_states n t s hper hs0 hs, orbit, Finset.filter_image]
  rw [Finset.card_image_of_injOn]
  exact hinj.mono (by intro x hx; simp only [Finset.coe_filter, Set.mem_ofPred_eq] at hx; exact_mod_cast hx.1)

end OptiVerif.PrbsCert
