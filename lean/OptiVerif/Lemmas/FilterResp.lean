/-
Lemmas about the frequency response part of `Model/Filter.lean` (`retH`) at ℝ: grid length, un-shifting,
value at DC, Hermitian symmetry for real coefficients, and the steady-state response of the section
recursion to a complex exponential (forward pass ×H, forward–backward ×H·H̃).
-/
import OptiVerif.Lemmas.Filter
import OptiVerif.Lemmas.FourierParseval

namespace OptiVerif.Filter
open OptiVerif OptiVerif.Fourier

/-! ### grid, shift -/

@[simp] theorem length_respGrid (secs : List (Sec ℝ)) (n : ℕ) : (respGrid secs n).length = n := by
  simp [respGrid]

@[simp] theorem length_retH (secs : List (Sec ℝ)) (n : ℕ) : (retH secs n).length = n := by
  simp [retH, length_fftshift]

theorem getElem_respGrid (secs : List (Sec ℝ)) (n k : ℕ) (h : k < (respGrid secs n).length) :
    (respGrid secs n)[k] = sosResp secs (gridW n k) := by
  simp [respGrid]

/-- position i of the returned array holds grid point (i + n − n/2) mod n -/
theorem getElem_retH (secs : List (Sec ℝ)) (n i : ℕ) (h : i < (retH secs n).length) :
    (retH secs n)[i] = sosResp secs (gridW n ((i + (n - n / 2)) % n)) := by
  have hn : i < n := by simpa using h
  simp only [retH, fftshift, rot_eq_rotate, List.getElem_rotate, length_respGrid, getElem_respGrid]

/-! ### algebra of `Cx ℝ` used below -/

theorem cx_ext {a b : Cx ℝ} (hr : a.re = b.re) (hi : a.im = b.im) : a = b := by
  cases a; cases b; simp_all

theorem cone_eq : (cone : Cx ℝ) = ⟨1, 0⟩ := by simp [cone]

theorem conj_mul (a b : Cx ℝ) : Cx.conj (a * b) = Cx.conj a * Cx.conj b := by
  apply cx_ext <;> simp [Cx.conj] <;> ring

theorem cmul_assoc (a b c : Cx ℝ) : a * b * c = a * (b * c) := by
  apply cx_ext <;> simp <;> ring

theorem cmul_comm (a b : Cx ℝ) : a * b = b * a := by
  apply cx_ext <;> simp <;> ring

theorem mul_cone (a : Cx ℝ) : a * cone = a := by
  apply cx_ext <;> simp [cone_eq]

theorem conj_cone : Cx.conj (cone : Cx ℝ) = cone := by simp [cone_eq, Cx.conj]

theorem normSq_conj (a : Cx ℝ) : (Cx.conj a).normSq = a.normSq := by simp [Cx.normSq, Cx.conj]

theorem cdiv_conj (a b : Cx ℝ) : cdiv (Cx.conj a) (Cx.conj b) = Cx.conj (cdiv a b) := by
  apply cx_ext
  · simp only [cdiv, normSq_conj]; simp [Cx.conj]
  · simp only [cdiv, normSq_conj]; simp only [Cx.conj]; ring

/-- `cdiv` is division: (a/b)·b = a when b ≠ 0 -/
theorem cdiv_mul_cancel (a b : Cx ℝ) (hb : b.normSq ≠ 0) : cdiv a b * b = a := by
  have hb' : b.re * b.re + b.im * b.im ≠ 0 := by simpa [Cx.normSq] using hb
  apply cx_ext
  · simp only [cdiv, Cx.mul_re, Cx.normSq]
    rw [div_mul_eq_mul_div, div_mul_eq_mul_div, ← sub_div, div_eq_iff hb']; ring
  · simp only [cdiv, Cx.mul_im, Cx.normSq]
    rw [div_mul_eq_mul_div, div_mul_eq_mul_div, ← add_div, div_eq_iff hb']; ring

/-! ### Hermitian symmetry (real coefficients) -/

theorem secNum_conj (c : Sec ℝ) (w : Cx ℝ) : secNum c (Cx.conj w) = Cx.conj (secNum c w) := by
  apply cx_ext <;> simp [secNum, Cx.conj, Cx.smul, Cx.ofReal] <;> ring

theorem secDen_conj (c : Sec ℝ) (w : Cx ℝ) : secDen c (Cx.conj w) = Cx.conj (secDen c w) := by
  apply cx_ext <;> simp [secDen, cone_eq, Cx.conj, Cx.smul] <;> ring

theorem secResp_conj (c : Sec ℝ) (w : Cx ℝ) : secResp c (Cx.conj w) = Cx.conj (secResp c w) := by
  simp only [secResp, secNum_conj, secDen_conj, cdiv_conj]

theorem sosResp_conj : ∀ (secs : List (Sec ℝ)) (w : Cx ℝ), sosResp secs (Cx.conj w) = Cx.conj (sosResp secs w)
  | [], _ => by simp [sosResp, conj_cone]
  | c :: cs, w => by simp only [sosResp, secResp_conj, sosResp_conj cs w, conj_mul]

/-- the grid point mirrored about DC is the conjugate point: e^{-j2π(n-k)/n} = conj e^{-j2πk/n} -/
theorem gridW_mirror (n k : ℕ) (hn : 0 < n) (hk : k ≤ n) : (gridW n (n - k) : Cx ℝ) = Cx.conj (gridW n k) := by
  have hn' : (n : ℝ) ≠ 0 := by exact_mod_cast hn.ne'
  have e : (ang n (n - k) : ℝ) = 2 * Real.pi - ang n k := by
    rw [ang_real, ang_real, Nat.cast_sub hk]; field_simp
  apply cx_ext
  · simp only [gridW, Cx.cis, Cx.conj, Transc.cos_real, e]
    rw [Real.cos_neg, Real.cos_neg, Real.cos_two_pi_sub]
  · simp only [gridW, Cx.cis, Cx.conj, Transc.sin_real, e]
    rw [Real.sin_neg, Real.sin_neg, Real.sin_two_pi_sub]

/-! ### DC -/

theorem gridW_zero (n : ℕ) : (gridW n 0 : Cx ℝ) = cone := by
  simp [gridW, ang_real, Cx.cis, cone_eq]

theorem secResp_one (c : Sec ℝ) (h : 1 + c.a1 + c.a2 ≠ 0) : secResp c cone = ⟨dcGain c, 0⟩ := by
  have h2 : (1 + c.a1 + c.a2) * (1 + c.a1 + c.a2) ≠ 0 := mul_ne_zero h h
  apply cx_ext
  · simp only [secResp, cdiv, secNum, secDen, cone_eq, Cx.smul, Cx.ofReal, Cx.normSq, dcGain, Cx.add_re, Cx.add_im,
      Cx.mul_re, Cx.mul_im, Nat.cast_zero, Nat.cast_one, mul_zero, mul_one, add_zero, sub_zero, zero_mul]
    field_simp
  · simp [secResp, cdiv, secNum, secDen, cone_eq, Cx.smul, Cx.ofReal]

theorem sosResp_one : ∀ (secs : List (Sec ℝ)), (∀ c ∈ secs, 1 + c.a1 + c.a2 ≠ 0) →
    sosResp secs cone = ⟨gainProd secs, 0⟩
  | [], _ => by simp [sosResp, gainProd, cone_eq]
  | c :: cs, h => by
    rw [sosResp, secResp_one c (h c (by simp)), sosResp_one cs (fun c' hc' => h c' (by simp [hc']))]
    apply cx_ext <;> simp [gainProd]

/-- `SteadyState` (the hypothesis of `dc_gain`) contains Σa ≠ 0 for every section -/
theorem den_ne_zero_of_steadyState : ∀ (secs : List (Sec ℝ)) (u : ℝ), SteadyState secs u →
    ∀ c ∈ secs, 1 + c.a1 + c.a2 ≠ 0
  | [], _, _ => by simp
  | c :: cs, u, h => by
    obtain ⟨hne, _, _, hr⟩ := h
    intro c' hc'
    rcases List.mem_cons.mp hc' with rfl | hm
    · exact hne
    · exact den_ne_zero_of_steadyState cs _ hr c' hm

/-! ### the section recursion on a complex exponential

Complex samples go through the REAL recursion as (re, im) pairs (`filtCoreCx`); `secRunCx` is that pairing for one
section and an arbitrary complex state. -/

/-- one section on complex samples = the real recursion `secRun` on real and imaginary parts -/
def secRunCx (c : Sec ℝ) (z0 z1 : Cx ℝ) (xs : List (Cx ℝ)) : List (Cx ℝ) :=
  List.zipWith Cx.mk (secRun c (z0.re, z1.re) (xs.map Cx.re)) (secRun c (z0.im, z1.im) (xs.map Cx.im))

theorem secRunCx_nil (c : Sec ℝ) (z0 z1 : Cx ℝ) : secRunCx c z0 z1 [] = [] := rfl

/-- the complex form of the direct-form-II-transposed step -/
theorem secRunCx_cons (c : Sec ℝ) (z0 z1 x : Cx ℝ) (xs : List (Cx ℝ)) :
    secRunCx c z0 z1 (x :: xs) =
      (Cx.smul c.b0 x + z0) ::
        secRunCx c (Cx.smul c.b1 x - Cx.smul c.a1 (Cx.smul c.b0 x + z0) + z1)
          (Cx.smul c.b2 x - Cx.smul c.a2 (Cx.smul c.b0 x + z0)) xs := by
  simp only [secRunCx, List.map_cons, secRun, secStep, List.zipWith_cons_cons]
  rfl

/-- the samples A, A·u, A·u², … (M of them): a complex exponential when u = e^{jω} -/
def expSeq (u : Cx ℝ) : Cx ℝ → ℕ → List (Cx ℝ)
  | _, 0 => []
  | A, M + 1 => A :: expSeq u (A * u) M

@[simp] theorem length_expSeq (u : Cx ℝ) : ∀ (A : Cx ℝ) (M : ℕ), (expSeq u A M).length = M
  | _, 0 => rfl
  | A, M + 1 => by simp [expSeq, length_expSeq u (A * u) M]

/-- steady state of section `c` for the exponential of current amplitude A (w = u⁻¹, H its response) -/
def expZ0 (c : Sec ℝ) (H A : Cx ℝ) : Cx ℝ := (H - Cx.ofReal c.b0) * A
def expZ1 (c : Sec ℝ) (H w A : Cx ℝ) : Cx ℝ := (Cx.ofReal c.b2 - Cx.smul c.a2 H) * A * w

theorem toC_ofReal (r : ℝ) : (Cx.ofReal r : Cx ℝ).toC = (r : ℂ) := by
  apply Complex.ext <;> simp [Cx.ofReal]

theorem toC_cone : (cone : Cx ℝ).toC = 1 := by
  apply Complex.ext <;> simp [cone_eq]

/-- ONE SECTION, steady state: the exponential comes out multiplied by H, for every length -/
theorem secRunCx_exp (c : Sec ℝ) (u w H : Cx ℝ) (huw : u * w = cone) (hH : H * secDen c w = secNum c w) :
    ∀ (M : ℕ) (A : Cx ℝ),
      secRunCx c (expZ0 c H A) (expZ1 c H w A) (expSeq u A M) = expSeq u (H * A) M
  | 0, _ => rfl
  | M + 1, A => by
    have huw' : u.toC * w.toC = 1 := by rw [← Cx.toC_mul, huw, toC_cone]
    have hH' : H.toC * (1 + (c.a1 : ℂ) * w.toC + (c.a2 : ℂ) * (w.toC * w.toC))
        = (c.b0 : ℂ) + (c.b1 : ℂ) * w.toC + (c.b2 : ℂ) * (w.toC * w.toC) := by
      have := congrArg Cx.toC hH
      simpa [secDen, secNum, Cx.toC_mul, Cx.toC_add, toC_smul, toC_cone, toC_ofReal] using this
    simp only [expSeq, secRunCx_cons]
    have ey : Cx.smul c.b0 A + expZ0 c H A = H * A := by
      apply toC_injective
      simp only [expZ0, Cx.toC_add, Cx.toC_mul, Cx.toC_sub, toC_smul, toC_ofReal]; ring
    have e0 : Cx.smul c.b1 A - Cx.smul c.a1 (H * A) + expZ1 c H w A = expZ0 c H (A * u) := by
      apply toC_injective
      simp only [expZ0, expZ1, Cx.toC_add, Cx.toC_mul, Cx.toC_sub, toC_smul, toC_ofReal]
      linear_combination (-(A.toC * u.toC)) * hH' - (A.toC * ((c.b2 : ℂ) * w.toC + (c.b1 : ℂ)
        - H.toC * (c.a1 : ℂ) - H.toC * (c.a2 : ℂ) * w.toC)) * huw'
    have e1 : Cx.smul c.b2 A - Cx.smul c.a2 (H * A) = expZ1 c H w (A * u) := by
      apply toC_injective
      simp only [expZ1, Cx.toC_add, Cx.toC_mul, Cx.toC_sub, toC_smul, toC_ofReal]
      linear_combination (-(A.toC * ((c.b2 : ℂ) - (c.a2 : ℂ) * H.toC))) * huw'
    rw [ey, e0, e1, secRunCx_exp c u w H huw hH M (A * u), cmul_assoc]

/-- the CASCADE in steady state: section i holds `expZ0/expZ1` for the amplitude that reaches it -/
noncomputable def cascadeCx (u w : Cx ℝ) : List (Sec ℝ) → Cx ℝ → List (Cx ℝ) → List (Cx ℝ)
  | [], _, xs => xs
  | c :: cs, A, xs =>
    cascadeCx u w cs (secResp c w * A) (secRunCx c (expZ0 c (secResp c w) A) (expZ1 c (secResp c w) w A) xs)

/-- FORWARD PASS: a steady-state exponential e^{jωn} leaves the cascade multiplied by H(ω) = Π B_i/A_i (z⁻¹ = w) -/
theorem cascadeCx_exp (u w : Cx ℝ) (huw : u * w = cone) (M : ℕ) :
    ∀ (secs : List (Sec ℝ)) (A : Cx ℝ), (∀ c ∈ secs, (secDen c w).normSq ≠ 0) →
      cascadeCx u w secs A (expSeq u A M) = expSeq u (sosResp secs w * A) M
  | [], A, _ => by
    simp only [cascadeCx, sosResp]
    rw [cmul_comm, mul_cone]
  | c :: cs, A, h => by
    have hH : secResp c w * secDen c w = secNum c w := cdiv_mul_cancel _ _ (h c (by simp))
    simp only [cascadeCx, secRunCx_exp c u w _ huw hH M A]
    rw [cascadeCx_exp u w huw M cs _ (fun c' hc' => h c' (by simp [hc']))]
    simp only [sosResp]
    rw [cmul_comm (secResp c w) (sosResp cs w), cmul_assoc]

/-- uⁿ -/
def cpow (u : Cx ℝ) : ℕ → Cx ℝ
  | 0 => cone
  | n + 1 => cpow u n * u

theorem toC_cpow (u : Cx ℝ) : ∀ n, (cpow u n).toC = u.toC ^ n
  | 0 => by simp [cpow, toC_cone]
  | n + 1 => by simp [cpow, Cx.toC_mul, toC_cpow u n, pow_succ]

theorem expSeq_snoc (u : Cx ℝ) : ∀ (M : ℕ) (A : Cx ℝ), expSeq u A (M + 1) = expSeq u A M ++ [A * cpow u M]
  | 0, A => by
    simp only [expSeq, cpow, List.nil_append, mul_cone]
  | M + 1, A => by
    have ih := expSeq_snoc u M (A * u)
    have e : A * u * cpow u M = A * cpow u (M + 1) := by
      rw [cpow, cmul_assoc, cmul_comm u]
    rw [expSeq, ih, e]
    simp only [expSeq, List.cons_append]

/-- reversing an exponential gives the exponential of the inverse ratio, started at the last sample -/
theorem reverse_expSeq (u w : Cx ℝ) (huw : u * w = cone) : ∀ (M : ℕ) (A : Cx ℝ),
    (expSeq u A (M + 1)).reverse = expSeq w (A * cpow u M) (M + 1)
  | 0, A => by
    simp only [expSeq, cpow, List.reverse_cons, List.reverse_nil, List.nil_append, mul_cone]
  | M + 1, A => by
    have huw' : u.toC * w.toC = 1 := by rw [← Cx.toC_mul, huw, toC_cone]
    have hp : (u.toC * w.toC) ^ (M + 1) = 1 := by rw [huw', one_pow]
    have ih := reverse_expSeq u w huw M (A * u)
    have e1 : A * u * cpow u M = A * cpow u (M + 1) := by
      rw [cpow, cmul_assoc, cmul_comm u]
    have e2 : A * cpow u (M + 1) * cpow w (M + 1) = A := by
      apply toC_injective
      simp only [Cx.toC_mul, toC_cpow]
      rw [mul_pow] at hp
      linear_combination A.toC * hp
    rw [expSeq, List.reverse_cons, ih, expSeq_snoc w (M + 1), e1, e2]

/-- FORWARD–BACKWARD in steady state: forward pass, reversal, pass over the reversed record (an exponential of ratio
    u⁻¹ = w, whose own z⁻¹ is u), reversal: the exponential is multiplied by H(z⁻¹ = w)·H(z⁻¹ = u) -/
theorem two_pass_exp (u w : Cx ℝ) (huw : u * w = cone) (secs : List (Sec ℝ)) (M : ℕ) (A : Cx ℝ)
    (hw : ∀ c ∈ secs, (secDen c w).normSq ≠ 0) (hu : ∀ c ∈ secs, (secDen c u).normSq ≠ 0) :
    (cascadeCx w u secs (sosResp secs w * A * cpow u M)
        (cascadeCx u w secs A (expSeq u A (M + 1))).reverse).reverse
      = expSeq u (sosResp secs u * sosResp secs w * A) (M + 1) := by
  have hwu : w * u = cone := by
    apply toC_injective
    have := congrArg Cx.toC huw
    simp only [Cx.toC_mul] at this ⊢
    rw [mul_comm]; exact this
  have huw' : u.toC * w.toC = 1 := by rw [← Cx.toC_mul, huw, toC_cone]
  have hp : (u.toC * w.toC) ^ M = 1 := by rw [huw', one_pow]
  have e : sosResp secs u * (sosResp secs w * A * cpow u M) * cpow w M = sosResp secs u * sosResp secs w * A := by
    apply toC_injective
    simp only [Cx.toC_mul, toC_cpow]
    rw [mul_pow] at hp
    linear_combination (sosResp secs u).toC * (sosResp secs w).toC * A.toC * hp
  rw [cascadeCx_exp u w huw (M + 1) secs A hw, reverse_expSeq u w huw M,
    cascadeCx_exp w u hwu (M + 1) secs _ hu, reverse_expSeq w u hwu M, e]

theorem cis_mul_cis_neg (θ : ℝ) : (Cx.cis θ : Cx ℝ) * Cx.cis (-θ) = cone := by
  apply cx_ext
  · simp [Cx.cis, cone_eq]; nlinarith [Real.sin_sq_add_cos_sq θ]
  · simp [Cx.cis, cone_eq]; ring

theorem cis_neg_eq_conj (θ : ℝ) : (Cx.cis (-θ) : Cx ℝ) = Cx.conj (Cx.cis θ) := by
  apply cx_ext <;> simp [Cx.cis, Cx.conj]

theorem conj_conj (a : Cx ℝ) : Cx.conj (Cx.conj a) = a := by apply cx_ext <;> simp [Cx.conj]

theorem conj_mul_self (a : Cx ℝ) : Cx.conj a * a = ⟨a.normSq, 0⟩ := by
  apply cx_ext <;> simp [Cx.conj, Cx.normSq] <;> ring

end OptiVerif.Filter
