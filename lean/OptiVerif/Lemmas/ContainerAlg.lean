/-
Algebra for the total-field law of C01: the operator tables `addSpec`, `subSpec`, `rsubSpec` of
`Model/Container.lean` are `Linear` over any commutative additive group (Mathlib's `AddCommGroup`), and the
carrier the driver executes, the Gaussian integers `Cx Int`, is such a group with exactly the model's `+ - neg`.
-/
import OptiVerif.Lemmas.Container
import Mathlib.Tactic.Abel

set_option linter.unusedSectionVars false

namespace OptiVerif.Container
open OptiVerif

variable {α : Type} [AddCommGroup α] [Mul α]

open Gen.Container in
theorem addSpec_linear : (addSpec : OpSpec α).Linear where
  other x y n := by simp only [addSpec, add_sig, add_onlyOther]; abel
  self x y n := by simp only [addSpec, add_sig, add_onlySelf]; abel
  both x y n m := by simp only [addSpec, add_sig, add_both]; abel

open Gen.Container in
theorem subSpec_linear : (subSpec : OpSpec α).Linear where
  other x y n := by simp only [subSpec, sub_sig, sub_onlyOther]; abel
  self x y n := by simp only [subSpec, sub_sig, sub_onlySelf]; abel
  both x y n m := by simp only [subSpec, sub_sig, sub_both]; abel

open Gen.Container in
theorem rsubSpec_linear : (rsubSpec : OpSpec α).Linear where
  other x y n := by simp only [rsubSpec, rsub_sig, rsub_onlyOther]; abel
  self x y n := by simp only [rsubSpec, rsub_sig, rsub_onlySelf]; abel
  both x y n m := by simp only [rsubSpec, rsub_sig, rsub_both]; abel

/-- the signal expressions found in the source are `self + other`, `self - other`, `other - self`, `self * other` -/
theorem spec_signal_exprs (x y : α) :
    (addSpec : OpSpec α).fs x y = x + y ∧ (subSpec : OpSpec α).fs x y = x - y ∧
      (rsubSpec : OpSpec α).fs x y = y - x ∧ (mulSpec : OpSpec α).fs x y = x * y := by
  refine ⟨rfl, rfl, ?_, rfl⟩
  simp only [rsubSpec, Gen.Container.rsub_sig]; abel

/-- Gaussian integers: the model's own `+`, `-`, `neg` (`Model/Num.lean`) form a commutative group -/
instance : Zero (Cx Int) := ⟨⟨0, 0⟩⟩

instance : AddCommGroup (Cx Int) where
  add := (· + ·)
  neg := Neg.neg
  sub := (· - ·)
  add_assoc a b c := by
    show (⟨a.re + b.re + c.re, a.im + b.im + c.im⟩ : Cx Int) = ⟨a.re + (b.re + c.re), a.im + (b.im + c.im)⟩
    rw [Int.add_assoc, Int.add_assoc]
  zero_add a := by
    show (⟨0 + a.re, 0 + a.im⟩ : Cx Int) = a
    rw [Int.zero_add, Int.zero_add]
  add_zero a := by
    show (⟨a.re + 0, a.im + 0⟩ : Cx Int) = a
    rw [Int.add_zero, Int.add_zero]
  add_comm a b := by
    show (⟨a.re + b.re, a.im + b.im⟩ : Cx Int) = ⟨b.re + a.re, b.im + a.im⟩
    rw [Int.add_comm a.re, Int.add_comm a.im]
  neg_add_cancel a := by
    show (⟨-a.re + a.re, -a.im + a.im⟩ : Cx Int) = (⟨0, 0⟩ : Cx Int)
    rw [Int.add_left_neg, Int.add_left_neg]
  sub_eq_add_neg a b := by
    show (⟨a.re - b.re, a.im - b.im⟩ : Cx Int) = ⟨a.re + -b.re, a.im + -b.im⟩
    rw [Int.sub_eq_add_neg, Int.sub_eq_add_neg]
  zero := 0
  nsmul := nsmulRec
  zsmul := zsmulRec
  nsmul_zero _ := rfl
  nsmul_succ _ _ := rfl
  zsmul_zero' _ := rfl
  zsmul_succ' _ _ := rfl
  zsmul_neg' _ _ := rfl

/-! ### concrete objects used by the non-vacuity examples of Props/C01.lean -/
namespace Examples

abbrev GI := Cx Int
def z (a : Int) (b : Int := 0) : GI := ⟨a, b⟩

/-- a two-polarisation optical signal of length 3 with noise -/
def xa : Sig GI := ⟨.O, 2, .int, .two [z 1, z 2, z 3] [z 4, z 5, z 6], some (.two [z 0 1, z 0 2, z 0 3] [z 1, z 1, z 1])⟩
/-- a length-1 two-polarisation operand carrying noise -/
def xb : Sig GI := ⟨.O, 2, .float, .two [z 7] [z 8], some (.two [z 1 1] [z 2 2])⟩
/-- a noise-free operand of length 2 -/
def xc : Sig GI := ⟨.O, 2, .int, .two [z 1, z 2] [z 3, z 4], none⟩

theorem xa_wf : WF xa :=
  ⟨by simp [xa, Rows.Valid], (by intro n hn; cases hn; simp [xa, Rows.Valid, Rows.count, Rows.len]), rfl, (by intro h; cases h)⟩
theorem xb_wf : WF xb :=
  ⟨by simp [xb, Rows.Valid], (by intro n hn; cases hn; simp [xb, Rows.Valid, Rows.count, Rows.len]), rfl, (by intro h; cases h)⟩
theorem xc_wf : WF xc :=
  ⟨by simp [xc, Rows.Valid], (by intro n hn; cases hn), rfl, (by intro h; cases h)⟩

end Examples

end OptiVerif.Container
