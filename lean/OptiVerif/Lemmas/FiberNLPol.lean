/-
C08: a one-polarisation field propagates exactly like the x-polarisation of the two-polarisation field whose
y-polarisation is empty (all zeros), and the empty polarisation stays empty.
-/
import OptiVerif.Lemmas.FiberNL

namespace OptiVerif.FiberNL
open OptiVerif OptiVerif.Fourier OptiVerif.Fiber

/-- an empty polarisation -/
def zeros (n : ℕ) : List (Cx ℝ) := List.replicate n czero

theorem czero_eq : (czero : Cx ℝ) = ⟨0, 0⟩ := by simp [czero]

theorem czero_mul (c : Cx ℝ) : (czero : Cx ℝ) * c = czero := by
  apply Cx.ext' <;> simp [czero]

theorem czero_add : (czero : Cx ℝ) + czero = czero := by
  apply Cx.ext' <;> simp [czero]

theorem sumN_czero (n : ℕ) (f : ℕ → Cx ℝ) (hf : ∀ j, f j = czero) : sumN n f = czero := by
  induction n with
  | zero => rfl
  | succ n ih => simp only [sumN, ih, hf n, czero_add]

theorem nth_zeros (n j : ℕ) : nth (zeros n) j = czero := by
  simp only [nth, zeros, List.getD_eq_getElem?_getD]
  by_cases h : j < n
  · simp [h]
  · simp [h]

theorem length_zeros (n : ℕ) : (zeros n).length = n := by simp [zeros]

theorem dft_zeros (n : ℕ) : dft (zeros n) = zeros n := by
  apply List.ext_getElem
  · simp [length_dft, length_zeros]
  · intro k h1 h2
    simp only [dft, List.getElem_map, List.getElem_range, length_zeros]
    rw [show (zeros n)[k] = czero by simp [zeros]]
    apply sumN_czero
    intro j
    rw [nth_zeros, czero_mul]

theorem smul_czero (r : ℝ) : Cx.smul r (czero : Cx ℝ) = czero := by
  apply Cx.ext' <;> simp [Cx.smul, czero]

theorem idft_zeros (n : ℕ) : idft (zeros n) = zeros n := by
  apply List.ext_getElem
  · simp [length_idft, length_zeros]
  · intro k h1 h2
    simp only [idft, List.getElem_map, List.getElem_range, length_zeros]
    rw [show (zeros n)[k] = czero by simp [zeros]]
    unfold idftAt
    rw [sumN_czero _ _ (by intro j; rw [nth_zeros, czero_mul]), smul_czero]

theorem zipWith_zeros_mul (n : ℕ) (H : List (Cx ℝ)) (hH : H.length = n) :
    List.zipWith (· * ·) (zeros n) H = zeros n := by
  induction n generalizing H with
  | zero => simp [zeros]
  | succ n ih =>
    cases H with
    | nil => simp at hH
    | cons h hs =>
      simp only [List.length_cons, Nat.add_right_cancel_iff] at hH
      simp only [zeros, List.replicate_succ, List.zipWith_cons_cons, czero_mul] at *
      rw [ih hs hH]

theorem nlMul_czero (gamma h : ℝ) (x : Cx ℝ) : nlMul gamma h x czero = czero := by
  simp [nlMul, czero_mul]

theorem stepRow_zeros (wConv fs alphaP b2 b3 gamma : ℝ) (n : ℕ) (h : ℝ) :
    stepRow wConv fs alphaP b2 b3 gamma (zeros n) h = zeros n := by
  simp only [stepRow, length_zeros]
  have h1 : (zeros n).map (fun x => nlMul gamma h x x) = zeros n := by
    simp [zeros, nlMul_czero]
  rw [h1]
  have h2 : applyH (fiberH wConv (wAxis n fs) alphaP b2 b3 h) (zeros n) = zeros n := by
    simp only [applyH, dft_zeros]
    rw [zipWith_zeros_mul n _ (by simp [fiberH, length_wAxis]), idft_zeros]
  rw [h2]
  simp [zeros, nlMul_czero]


theorem normSq_czero : (czero : Cx ℝ).normSq = 0 := by simp [czero, Cx.normSq]

theorem zipWith_add_zeros (p : List ℝ) : List.zipWith (· + ·) p (List.replicate p.length (0 : ℝ)) = p := by
  induction p with
  | nil => simp
  | cons a as ih => simp [List.replicate_succ, ih]

/-- adding an empty polarisation does not change the total power profile -/
theorem totalPower_with_zeros (x : List (Cx ℝ)) : totalPower [x, zeros x.length] = totalPower [x] := by
  simp only [totalPower]
  have : (zeros x.length).map Cx.normSq = List.replicate (x.map Cx.normSq).length (0 : ℝ) := by
    simp [zeros, normSq_czero]
  rw [this, zipWith_add_zeros]

theorem peak_with_zeros (x : List (Cx ℝ)) : peak [x, zeros x.length] = peak [x] := by
  simp only [peak, totalPower_with_zeros]

/-- one-polarisation state vs its two-polarisation twin with empty y -/
def twin (x : List (Cx ℝ)) : Rows ℝ := [x, zeros x.length]

theorem step_twin (wConv fs alphaP b2 b3 gamma : ℝ) (x : List (Cx ℝ)) (h : ℝ) :
    step wConv fs alphaP b2 b3 gamma (twin x) h = twin (stepRow wConv fs alphaP b2 b3 gamma x h) := by
  simp [step, twin, stepRow_zeros, length_stepRow]

theorem step_single (wConv fs alphaP b2 b3 gamma : ℝ) (x : List (Cx ℝ)) (h : ℝ) :
    step wConv fs alphaP b2 b3 gamma [x] h = [stepRow wConv fs alphaP b2 b3 gamma x h] := by
  simp [step]

theorem nextH_twin (gamma phiMax L : ℝ) (x : List (Cx ℝ)) :
    nextH gamma phiMax L (twin x) = nextH gamma phiMax L [x] := by
  simp only [nextH, twin, peak_with_zeros]

/-- the loop on the twin mirrors the loop on the single polarisation, step for step -/
theorem loop_twin (wConv fs alphaP b2 b3 gamma phiMax L : ℝ) (fuel : ℕ) (x : List (Cx ℝ)) (h xl : ℝ) (acc : List ℝ) :
    loop (step wConv fs alphaP b2 b3 gamma) (nextH gamma phiMax L) L fuel (twin x) h xl acc
      = (loop (step wConv fs alphaP b2 b3 gamma) (nextH gamma phiMax L) L fuel [x] h xl acc).map
          (fun r => (twin (r.1.headD []), r.2.1, r.2.2)) := by
  induction fuel generalizing x h xl acc with
  | zero => simp [loop, Except.map]
  | succ fuel ih =>
    simp only [loop, step_twin, step_single, nextH_twin]
    split
    · simp [Except.map]
    · rw [ih]


theorem spmRow_zeros (alphaP gamma L : ℝ) (n : ℕ) : spmRow alphaP gamma L (zeros n) = zeros n := by
  simp [spmRow, zeros, czero_mul]

theorem length_spmRow (alphaP gamma L : ℝ) (x : List (Cx ℝ)) : (spmRow alphaP gamma L x).length = x.length := by
  simp [spmRow]

theorem firstH_twin (b2 b3 gamma phiMax L : ℝ) (x : List (Cx ℝ)) :
    firstH b2 b3 gamma phiMax L (twin x) = firstH b2 b3 gamma phiMax L [x] := by
  simp only [firstH, twin, peak_with_zeros]

theorem fold_single (wConv fs alphaP b2 b3 gamma : ℝ) (hs : List ℝ) (x : List (Cx ℝ)) :
    ∃ y, hs.foldl (step wConv fs alphaP b2 b3 gamma) [x] = [y] := by
  induction hs generalizing x with
  | nil => exact ⟨x, rfl⟩
  | cons h hs ih => simp only [List.foldl_cons, step_single]; exact ih _

/-- FIBER on the two-polarisation twin = FIBER on the single polarisation, with the empty polarisation left empty -/
theorem fiber_twin (wConv kappa fs alpha b2 b3 gamma phiMax L : ℝ) (fuel : ℕ) (x : List (Cx ℝ)) :
    fiber wConv kappa fs alpha b2 b3 gamma phiMax L fuel (twin x)
      = (fiber wConv kappa fs alpha b2 b3 gamma phiMax L fuel [x]).map
          (fun o => ⟨twin (o.rows.headD []), o.steps⟩) := by
  unfold fiber
  simp only
  split
  · simp [Except.map, twin, spmRow_zeros, length_spmRow]
  · rw [firstH_twin, loop_twin]
    cases hl : loop (step wConv fs (alpha / kappa) b2 b3 gamma) (nextH gamma phiMax L) L fuel [x]
        (firstH b2 b3 gamma phiMax L [x]) (firstH b2 b3 gamma phiMax L [x]) [] with
    | error e => simp [Except.map]
    | ok r =>
      obtain ⟨A', acc, xl⟩ := r
      obtain ⟨new, _, h2, _, _, _⟩ := loop_spec _ _ _ _ _ _ _ _ _ _ _ hl
      -- the single-polarisation state is a single row
      have hrow : ∃ y, A' = [y] := by
        rw [h2]
        exact fold_single _ _ _ _ _ _ new x
      obtain ⟨y, rfl⟩ := hrow
      simp only [Except.map, List.headD_cons]
      split
      · simp
      · simp [step_twin, step_single]

end OptiVerif.FiberNL
