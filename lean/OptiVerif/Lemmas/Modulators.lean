/-
Helper lemmas for C06 / C10: the generic model `Model/Modulators.lean` read at `R := ℝ`.
-/
import OptiVerif.Model.Modulators
import OptiVerif.Lemmas.NumExtra
import Mathlib.Analysis.SpecialFunctions.Pow.Real

set_option linter.unusedSectionVars false
set_option linter.unusedVariables false
set_option linter.unnecessarySeqFocus false

namespace OptiVerif.Modulators
open OptiVerif
open OptiVerif.Gen.OptDev (lit pow10 idb idbm mzmLoss mzmEta mzmG laserPhaseSigma laserRinSigma)

/-! ### numerals and dB helpers at ℝ -/

@[simp] theorem lit_real (n : ℕ) : (lit n : ℝ) = (n : ℝ) := rfl

theorem pow10_real (x : ℝ) : pow10 x = (10 : ℝ) ^ x := by
  simp only [pow10, lit_real, Transc.exp_real, Transc.log_real]
  rw [Real.rpow_def_of_pos (by norm_num : (0:ℝ) < 10)]
  congr 1
  push_cast
  ring

theorem pow10_pos (x : ℝ) : 0 < (pow10 x : ℝ) := by
  rw [pow10_real]; exact Real.rpow_pos_of_pos (by norm_num) x

theorem idb_real (x : ℝ) : idb x = (10 : ℝ) ^ (x / 10) := by
  simp only [idb, pow10_real, lit_real]; norm_num

theorem idbm_real (x : ℝ) : idbm x = (10 : ℝ) ^ (x / 10 - 3) := by
  simp only [idbm, pow10_real, lit_real]; norm_num

theorem idb_pos (x : ℝ) : 0 < (idb x : ℝ) := pow10_pos _
theorem idbm_pos (x : ℝ) : 0 < (idbm x : ℝ) := pow10_pos _

theorem one_le_idb {x : ℝ} (hx : 0 ≤ x) : 1 ≤ (idb x : ℝ) := by
  rw [idb_real]
  exact Real.one_le_rpow (by norm_num) (by positivity)

theorem idb_le_one {x : ℝ} (hx : x ≤ 0) : (idb x : ℝ) ≤ 1 := by
  rw [idb_real]
  exact Real.rpow_le_one_of_one_le_of_nonpos (by norm_num) (by linarith)

theorem czero_real : (czero : Cx ℝ) = ⟨0, 0⟩ := by simp [czero]

theorem normSq_czero : (czero : Cx ℝ).normSq = 0 := by simp [czero, Cx.normSq]

/-! ### the MZM factor -/

theorem mzmLoss_real (ld : ℝ) : mzmLoss ld = (10 : ℝ) ^ (-ld / 10) := by
  simp only [mzmLoss, idb_real]

theorem mzmLoss_pos (ld : ℝ) : 0 < (mzmLoss ld : ℝ) := idb_pos _

theorem mzmLoss_le_one {ld : ℝ} (h : 0 ≤ ld) : (mzmLoss ld : ℝ) ≤ 1 := idb_le_one (by linarith)

theorem mzmK_eq_sqrt (er : ℝ) : (mzmK er : ℝ) = Real.sqrt (idb (-er)) := by
  simp only [mzmK, mzmEta, lit_real, Transc.sqrt_real]
  push_cast
  ring

theorem mzmK_real (er : ℝ) : mzmK er = (10 : ℝ) ^ (-er / 20) := by
  rw [mzmK_eq_sqrt, idb_real, Real.sqrt_eq_rpow, ← Real.rpow_mul (by norm_num : (0:ℝ) ≤ 10)]
  congr 1
  ring

theorem mzmK_pos (er : ℝ) : 0 < (mzmK er : ℝ) := by
  rw [mzmK_real]; exact Real.rpow_pos_of_pos (by norm_num) _

theorem mzmK_le_one {er : ℝ} (h : 0 ≤ er) : (mzmK er : ℝ) ≤ 1 := by
  rw [mzmK_real]
  exact Real.rpow_le_one_of_one_le_of_nonpos (by norm_num) (by linarith)

theorem mzmK_sq (er : ℝ) : (mzmK er : ℝ) * mzmK er = (10 : ℝ) ^ (-er / 10) := by
  rw [mzmK_eq_sqrt, Real.mul_self_sqrt (idb_pos _).le, idb_real]

theorem mzmH_normSq (loss k g : ℝ) (hl : 0 ≤ loss) :
    (mzmH loss k g).normSq = loss * (Real.cos g ^ 2 + k * k * Real.sin g ^ 2) := by
  simp only [mzmH, Cx.normSq, Transc.sqrt_real, Transc.cos_real, Transc.sin_real]
  have hs : Real.sqrt loss * Real.sqrt loss = loss := Real.mul_self_sqrt hl
  calc Real.sqrt loss * Real.cos g * (Real.sqrt loss * Real.cos g)
        + Real.sqrt loss * (k * Real.sin g) * (Real.sqrt loss * (k * Real.sin g))
      = (Real.sqrt loss * Real.sqrt loss) * (Real.cos g ^ 2 + k * k * Real.sin g ^ 2) := by ring
    _ = loss * (Real.cos g ^ 2 + k * k * Real.sin g ^ 2) := by rw [hs]

/-- passivity of the factor (port of feasibility probe P5 to the unbundled `Transc` style) -/
theorem mzmH_passive (loss k g : ℝ) (hl : 0 ≤ loss) (hk0 : 0 ≤ k) (hk1 : k ≤ 1) :
    (mzmH loss k g).normSq ≤ loss := by
  rw [mzmH_normSq loss k g hl]
  have h1 := Real.sin_sq_add_cos_sq g
  have hk : k * k ≤ 1 := by nlinarith
  have : Real.cos g ^ 2 + k * k * Real.sin g ^ 2 ≤ 1 := by
    nlinarith [sq_nonneg (Real.sin g), sq_nonneg (Real.cos g)]
  nlinarith

theorem mzmG_shift (Vpi bias u : ℝ) (hV : Vpi ≠ 0) :
    (mzmG Vpi bias (u + 2 * Vpi) : ℝ) = mzmG Vpi bias u + Real.pi := by
  simp only [mzmG, lit_real, Transc.pi_real]
  push_cast
  field_simp
  ring

theorem mzmH_add_pi (loss k g : ℝ) : mzmH loss k (g + Real.pi) = -mzmH loss k g := by
  apply Cx.ext_re_im <;>
    simp [mzmH, Real.cos_add_pi, Real.sin_add_pi]

/-- the factor as the source computes it (real / imaginary part of the translated `h_t` expression) is the documented form
    `sqrt(loss)·(cos g + j·(eta/2)·sin g)` -/
theorem mzmHu_def (ld er Vpi bias u : ℝ) :
    mzmHu ld er Vpi bias u = mzmH (mzmLoss ld) (mzmK er) (mzmG Vpi bias u) := rfl

/-! ### relations between values of the same shape -/

section rel
variable {α β : Type}

/-- sample-by-sample relation between two values of the same shape (same number of rows, same lengths) -/
def RowsRel (P : α → β → Prop) : Rows α → Rows β → Prop
  | .one a, .one b => List.Forall₂ P a b
  | .two a a', .two b b' => List.Forall₂ P a b ∧ List.Forall₂ P a' b'
  | _, _ => False

/-- the same for signal and noise parts (a noise part on one side only does not relate) -/
def FieldRel (P : α → β → Prop) (o : Field α) (i : Field β) : Prop :=
  RowsRel P o.sig i.sig ∧
    match o.noise, i.noise with
    | some a, some b => RowsRel P a b
    | none, none => True
    | _, _ => False

/-- every row of the value satisfies `p` at every sample -/
def Rows.All (p : α → Prop) : Rows α → Prop
  | .one a => ∀ z ∈ a, p z
  | .two a b => (∀ z ∈ a, p z) ∧ ∀ z ∈ b, p z

/-- what the constructor of `optical_signal` guarantees: rows of equal length, noise of the shape of the signal -/
def Field.WF (x : Field α) : Prop :=
  x.sig.Shaped x.sig.len ∧ ∀ r, x.noise = some r → RowsRel (fun _ _ => True) r x.sig

theorem Rows.shaped_of_rel {P : α → β → Prop} {r : Rows α} {s : Rows β} {n : ℕ}
    (h : RowsRel P r s) (hs : s.Shaped n) : r.Shaped n := by
  cases r <;> cases s <;> simp only [RowsRel, Rows.Shaped] at *
  · rw [h.length_eq]; exact hs
  · exact ⟨by rw [h.1.length_eq]; exact hs.1, by rw [h.2.length_eq]; exact hs.2⟩

theorem Field.WF.noise_shaped {x : Field α} (hx : x.WF) {r : Rows α} (hr : x.noise = some r) :
    r.Shaped x.sig.len := Rows.shaped_of_rel (hx.2 r hr) hx.1

theorem Rows.len_of_shaped {r : Rows α} {n : ℕ} (h : r.Shaped n) : r.len = n := by
  cases r <;> simp only [Rows.Shaped, Rows.len] at * <;> first | exact h | exact h.1

end rel

/-! ### list level -/

theorem length_modRow (hs row : List (Cx ℝ)) (h : row.length = hs.length) : (modRow hs row).length = row.length := by
  simp [modRow, h]

theorem forall₂_modRow {P : Cx ℝ → Cx ℝ → Prop} :
    ∀ (row hs : List (Cx ℝ)), row.length = hs.length → (∀ a, ∀ h ∈ hs, P (a * h) a) →
      List.Forall₂ P (modRow hs row) row
  | [], [], _, _ => by simp [modRow]
  | [], _ :: _, h, _ => by simp at h
  | _ :: _, [], h, _ => by simp at h
  | a :: row, h :: hs, hl, hp => by
    simp only [modRow, List.zipWith_cons_cons]
    refine List.Forall₂.cons (hp a h (by simp)) ?_
    exact forall₂_modRow row hs (by simpa using hl) (fun a' h' hm => hp a' h' (by simp [hm]))

theorem forall₂_modRow₂ {Q : Cx ℝ → Cx ℝ → Prop} {P : Cx ℝ → Cx ℝ → Prop}
    (hq : ∀ a h h', Q h h' → P (a * h) (a * h')) :
    ∀ (row hs hs' : List (Cx ℝ)), List.Forall₂ Q hs hs' → row.length = hs.length →
      List.Forall₂ P (modRow hs row) (modRow hs' row)
  | [], _, _, .nil, _ => by simp [modRow]
  | [], _, _, .cons _ _, h => by simp at h
  | _ :: _, _, _, .nil, h => by simp at h
  | a :: row, _, _, .cons (a := h) (b := h') (l₁ := hs) (l₂ := hs') q qs, hl => by
    simp only [modRow, List.zipWith_cons_cons]
    exact List.Forall₂.cons (hq a h h' q) (forall₂_modRow₂ hq row hs hs' qs (by simpa using hl))

theorem forall₂_map_const_left {P : Cx ℝ → Cx ℝ → Prop} (c : Cx ℝ) :
    ∀ (l b : List (Cx ℝ)), l.length = b.length → (∀ a, P c a) → List.Forall₂ P (l.map fun _ => c) b
  | [], [], _, _ => by simp
  | [], _ :: _, h, _ => by simp at h
  | _ :: _, [], h, _ => by simp at h
  | _ :: l, a :: b, hl, hp => by
    simp only [List.map_cons]
    exact List.Forall₂.cons (hp a) (forall₂_map_const_left c l b (by simpa using hl) hp)

theorem forall₂_map_const_both {P : Cx ℝ → Cx ℝ → Prop} (c : Cx ℝ) (hc : P c c) :
    ∀ (l l' : List (Cx ℝ)), l.length = l'.length → List.Forall₂ P (l.map fun _ => c) (l'.map fun _ => c)
  | [], [], _ => by simp
  | [], _ :: _, h => by simp at h
  | _ :: _, [], h => by simp at h
  | _ :: l, _ :: l', hl => by
    simp only [List.map_cons]
    exact List.Forall₂.cons hc (forall₂_map_const_both c hc l l' (by simpa using hl))

theorem modRow_add : ∀ (hs a b : List (Cx ℝ)),
    modRow hs (List.zipWith (· + ·) a b) = List.zipWith (· + ·) (modRow hs a) (modRow hs b)
  | [], a, b => by simp [modRow]
  | _ :: _, [], b => by simp [modRow]
  | _ :: _, _ :: _, [] => by simp [modRow]
  | h :: hs, x :: a, y :: b => by
    have ih := modRow_add hs a b
    simp only [modRow] at ih
    simp only [modRow, List.zipWith_cons_cons, ih, Cx.xadd_mul]

theorem modRow_modRow (f : ℝ → Cx ℝ) (hf : ∀ a b, f a * f b = f (a + b)) :
    ∀ (row : List (Cx ℝ)) (as bs : List ℝ),
      modRow (bs.map f) (modRow (as.map f) row) = modRow ((List.zipWith (· + ·) as bs).map f) row
  | [], _, _ => by simp [modRow]
  | _ :: _, [], _ => by simp [modRow]
  | _ :: _, _ :: _, [] => by simp [modRow]
  | z :: row, a :: as, b :: bs => by
    have ih := modRow_modRow f hf row as bs
    simp only [modRow] at ih
    simp only [modRow, List.map_cons, List.zipWith_cons_cons, ih, Cx.xmul_assoc, hf]

theorem zipWith_add_replicate (n : ℕ) (a b : ℝ) :
    List.zipWith (· + ·) (List.replicate n a) (List.replicate n b) = List.replicate n (a + b) := by
  induction n with
  | zero => simp
  | succ n ih => simp [List.replicate_succ, ih]

theorem expand_length (n : ℕ) (us : List ℝ) (h : us.length = n ∨ us.length = 1) : (expand n us).length = n := by
  match us, h with
  | [], h => simpa [expand] using h
  | [u], _ => simp [expand]
  | u :: v :: w, h => simpa [expand] using h

theorem expand_singleton (n : ℕ) (u : ℝ) : expand n [u] = List.replicate n u := rfl

theorem expand_replicate (n : ℕ) (v : ℝ) : expand n (List.replicate n v) = List.replicate n v := by
  match n with
  | 0 => rfl
  | 1 => rfl
  | n + 2 => rfl

theorem expand_map (n : ℕ) (f : ℝ → ℝ) (us : List ℝ) : expand n (us.map f) = (expand n us).map f := by
  match us with
  | [] => rfl
  | [u] => simp [expand]
  | u :: v :: w => rfl

/-! ### rows level -/

theorem rowsRel_mzmRows {P : Cx ℝ → Cx ℝ → Prop} (pol : PolSel) (hs : List (Cx ℝ)) (r : Rows (Cx ℝ))
    (hr : r.Shaped hs.length) (hmul : ∀ a, ∀ h ∈ hs, P (a * h) a) (hz : ∀ a, P czero a) :
    RowsRel P (mzmRows pol hs r) r := by
  cases r with
  | one a =>
    cases pol <;> simpa [mzmRows, blank, Rows.map, RowsRel] using forall₂_modRow a hs hr hmul
  | two a b =>
    obtain ⟨ha, hb⟩ := hr
    have fa := forall₂_modRow a hs ha hmul
    have fb := forall₂_modRow b hs hb hmul
    have za := forall₂_map_const_left (P := P) czero (modRow hs a) a (length_modRow hs a ha) hz
    have zb := forall₂_map_const_left (P := P) czero (modRow hs b) b (length_modRow hs b hb) hz
    cases pol <;> simp only [mzmRows, blank, Rows.map, RowsRel] <;> constructor <;> assumption

theorem rowsRel_mzmRows₂ {Q P : Cx ℝ → Cx ℝ → Prop} (hq : ∀ a h h', Q h h' → P (a * h) (a * h'))
    (hz : P czero czero) (pol : PolSel) (hs hs' : List (Cx ℝ)) (hh : List.Forall₂ Q hs hs')
    (r : Rows (Cx ℝ)) (hr : r.Shaped hs.length) :
    RowsRel P (mzmRows pol hs r) (mzmRows pol hs' r) := by
  have hl' : hs'.length = hs.length := hh.length_eq.symm
  cases r with
  | one a =>
    cases pol <;> simpa [mzmRows, blank, Rows.map, RowsRel] using forall₂_modRow₂ hq a hs hs' hh hr
  | two a b =>
    obtain ⟨ha, hb⟩ := hr
    have fa := forall₂_modRow₂ hq a hs hs' hh ha
    have fb := forall₂_modRow₂ hq b hs hs' hh hb
    have za := forall₂_map_const_both (P := P) czero hz (modRow hs a) (modRow hs' a)
      (by rw [length_modRow hs a ha, length_modRow hs' a (by rw [ha, hl'])])
    have zb := forall₂_map_const_both (P := P) czero hz (modRow hs b) (modRow hs' b)
      (by rw [length_modRow hs b hb, length_modRow hs' b (by rw [hb, hl'])])
    cases pol <;> simp only [mzmRows, blank, Rows.map, RowsRel] <;> constructor <;> assumption

theorem shaped_mzmRows (pol : PolSel) (hs : List (Cx ℝ)) (r : Rows (Cx ℝ)) (hr : r.Shaped hs.length) :
    (mzmRows pol hs r).Shaped hs.length :=
  Rows.shaped_of_rel (rowsRel_mzmRows (P := fun _ _ => True) pol hs r hr (fun _ _ _ => trivial) (fun _ => trivial)) hr

theorem rowsRel_pmRows {P : Cx ℝ → Cx ℝ → Prop} (Vpi : ℝ) (us : List ℝ) (r : Rows (Cx ℝ))
    (hr : r.Shaped us.length) (hmul : ∀ a u, P (a * pmRot Vpi u) a) : RowsRel P (pmRows Vpi us r) r := by
  have hm : ∀ a, ∀ h ∈ us.map (pmRot Vpi), P (a * h) a := by
    intro a h hh
    obtain ⟨u, _, rfl⟩ := List.mem_map.mp hh
    exact hmul a u
  cases r with
  | one a =>
    simpa [pmRows, Rows.map, RowsRel] using forall₂_modRow a _ (by simpa [Rows.Shaped] using hr) hm
  | two a b =>
    exact ⟨forall₂_modRow a _ (by simpa using hr.1) hm, forall₂_modRow b _ (by simpa using hr.2) hm⟩

theorem len_pmRows (Vpi : ℝ) (us : List ℝ) (r : Rows (Cx ℝ)) (hr : r.Shaped us.length) :
    (pmRows Vpi us r).len = r.len := by
  cases r <;> simp only [pmRows, Rows.map, Rows.len, Rows.Shaped] at * <;>
    simp [modRow, hr]

theorem pmRows_add (Vpi : ℝ) (us : List ℝ) (s nz : Rows (Cx ℝ)) (h : RowsRel (fun _ _ => True) nz s) :
    (pmRows Vpi us s).add (pmRows Vpi us nz) = pmRows Vpi us (s.add nz) := by
  cases s <;> cases nz <;> simp only [RowsRel] at h <;>
    simp [pmRows, Rows.map, Rows.add, modRow_add]

theorem pmPhase_real (Vpi u : ℝ) : (pmPhase Vpi u : ℝ) = u * Real.pi / Vpi := rfl

/-- the source applies the same phase expression to `.noise` as to `.signal` (both are translated separately) -/
theorem pmRowsNoise_eq (Vpi : ℝ) (us : List ℝ) : pmRowsNoise Vpi us = pmRows Vpi us := rfl

theorem pmPhase_add (Vpi a b : ℝ) : (pmPhase Vpi (a + b) : ℝ) = pmPhase Vpi a + pmPhase Vpi b := by
  simp only [pmPhase_real]; ring

theorem pmRot_mul (Vpi a b : ℝ) : (pmRot Vpi a : Cx ℝ) * pmRot Vpi b = pmRot Vpi (a + b) := by
  simp only [pmRot, Cx.cis_add, pmPhase_add]

theorem pmRows_pmRows (Vpi : ℝ) (as bs : List ℝ) (r : Rows (Cx ℝ)) :
    pmRows Vpi bs (pmRows Vpi as r) = pmRows Vpi (List.zipWith (· + ·) as bs) r := by
  cases r <;> simp [pmRows, Rows.map, modRow_modRow (pmRot Vpi) (pmRot_mul Vpi)]

theorem pmDrive_length {n : ℕ} {d : Drive ℝ} {us : List ℝ} (h : pmDrive n d = .ok us) : us.length = n := by
  cases d <;> simp only [pmDrive] at h
  · cases h; simp
  · split at h
    · cases h
    · cases h; exact Decidable.not_not.mp ‹_›
  · cases h
  · split at h
    · cases h
    · cases h; exact Decidable.not_not.mp ‹_›


/-! ### unfolding `mzm` / `pm` -/

/-- the transfer samples `h_t` the MZM applies to an input of `n` samples -/
noncomputable def mzmHs (bias Vpi ld er : ℝ) (n : ℕ) (d : Drive ℝ) : List (Cx ℝ) :=
  (expand n d.samples).map (mzmHu ld er Vpi bias)

theorem mzmHs_length (bias Vpi ld er : ℝ) (n : ℕ) (d : Drive ℝ)
    (h : d.samples.length = n ∨ d.samples.length = 1) : (mzmHs bias Vpi ld er n d).length = n := by
  simp [mzmHs, expand_length n _ h]

theorem mzm_eq_ok {pol : PolSel} {bias Vpi ld er : ℝ} {d : Drive ℝ} {x : Field (Cx ℝ)}
    (hlen : d.samples.length = x.sig.len ∨ d.samples.length = 1) (hpol : pol ≠ .other) :
    mzm pol bias Vpi ld er d x =
      .ok ⟨mzmRows pol (mzmHs bias Vpi ld er x.sig.len d) x.sig,
           x.noise.map (mzmRows pol (mzmHs bias Vpi ld er x.sig.len d))⟩ := by
  have h1 : ¬ (d.samples.length ≠ x.sig.len ∧ d.samples.length ≠ 1) := by
    rcases hlen with h | h <;> simp [h]
  simp only [mzm, h1, if_false, hpol, mzmHs]

theorem mzm_ok_inv {pol : PolSel} {bias Vpi ld er : ℝ} {d : Drive ℝ} {x out : Field (Cx ℝ)}
    (h : mzm pol bias Vpi ld er d x = .ok out) :
    (d.samples.length = x.sig.len ∨ d.samples.length = 1) ∧ pol ≠ .other ∧
      out = ⟨mzmRows pol (mzmHs bias Vpi ld er x.sig.len d) x.sig,
             x.noise.map (mzmRows pol (mzmHs bias Vpi ld er x.sig.len d))⟩ := by
  by_cases h1 : d.samples.length ≠ x.sig.len ∧ d.samples.length ≠ 1
  · simp [mzm, h1] at h
  by_cases h2 : pol = .other
  · simp [mzm, h1, h2] at h
  have hlen : d.samples.length = x.sig.len ∨ d.samples.length = 1 := by
    by_contra hc
    exact h1 ⟨fun e => hc (Or.inl e), fun e => hc (Or.inr e)⟩
  rw [mzm_eq_ok hlen h2] at h
  exact ⟨hlen, h2, by cases h; rfl⟩

theorem pm_ok_inv {Vpi : ℝ} {d : Drive ℝ} {x out : Field (Cx ℝ)} (h : pm Vpi d x = .ok out) :
    ∃ us, pmDrive x.sig.len d = .ok us ∧ us.length = x.sig.len ∧
      out = ⟨pmRows Vpi us x.sig, x.noise.map (pmRows Vpi us)⟩ := by
  unfold pm at h
  simp only [pmRowsNoise_eq] at h
  split at h
  · cases h
  · rename_i us hus
    exact ⟨us, hus, pmDrive_length hus, by cases h; rfl⟩

theorem pm_eq_ok {Vpi : ℝ} {d : Drive ℝ} {x : Field (Cx ℝ)} {us : List ℝ} (h : pmDrive x.sig.len d = .ok us) :
    pm Vpi d x = .ok ⟨pmRows Vpi us x.sig, x.noise.map (pmRows Vpi us)⟩ := by
  simp [pm, h, pmRowsNoise_eq]

/-! ### laser -/

theorem mem_zipWith {α β γ : Type} (f : α → β → γ) : ∀ (a : List α) (b : List β) (z : γ),
    z ∈ List.zipWith f a b → ∃ x ∈ a, ∃ y ∈ b, z = f x y
  | [], _, _, h => by simp at h
  | _ :: _, [], _, h => by simp at h
  | x :: a, y :: b, z, h => by
    simp only [List.zipWith_cons_cons, List.mem_cons] at h
    rcases h with rfl | h
    · exact ⟨x, by simp, y, by simp, rfl⟩
    · obtain ⟨x', hx, y', hy, e⟩ := mem_zipWith f a b z h
      exact ⟨x', by simp [hx], y', by simp [hy], e⟩


theorem length_cumsumFrom (acc : ℝ) (l : List ℝ) : (cumsumFrom acc l).length = l.length := by
  induction l generalizing acc with
  | nil => rfl
  | cons b l ih => simp [cumsumFrom, ih]

theorem length_cumsum (l : List ℝ) : (cumsum l).length = l.length := by
  cases l with
  | nil => rfl
  | cons a l => simp [cumsum, length_cumsumFrom]

/-- a relation to a parallel list survives a sample-wise operation on the left that respects it -/
theorem forall₂_zipWith_left {α β γ : Type} {P : α → γ → Prop} (f : α → β → α)
    (hf : ∀ z y r, P z r → P (f z y) r) :
    ∀ (e : List α) (l : List β) (rs : List γ), List.Forall₂ P e rs → e.length = l.length →
      List.Forall₂ P (List.zipWith f e l) rs
  | [], [], _, .nil, _ => by simp
  | [], _ :: _, _, _, h => by simp at h
  | _ :: _, [], _, _, h => by simp at h
  | z :: e, y :: l, _, .cons (b := r) (l₂ := rs) hp hps, hl => by
    simp only [List.zipWith_cons_cons]
    exact List.Forall₂.cons (hf z y r hp) (forall₂_zipWith_left f hf e l rs hps (by simpa using hl))

theorem laserStage1_ok {n : ℕ} {e0 e1 : List (Cx ℝ)} {phase : Option (List ℝ)}
    (h : laserStage1 n e0 phase = .ok e1) (h0 : e0.length = n) :
    e1.length = n ∧ ∀ c : ℝ, (∀ z ∈ e0, z.normSq = c) → ∀ z ∈ e1, z.normSq = c := by
  cases phase with
  | none => simp only [laserStage1] at h; cases h; exact ⟨h0, fun _ hc => hc⟩
  | some d =>
    simp only [laserStage1] at h
    split at h
    · cases h
    · rename_i hd
      cases h
      refine ⟨by simp [laserPhase, length_cumsum, h0, Decidable.not_not.mp hd], ?_⟩
      intro c hc z hz
      obtain ⟨a, ha, φ, _, rfl⟩ := mem_zipWith _ _ _ z hz
      rw [Cx.normSq_mul_cis]; exact hc a ha

theorem laserStage3_ok {fs : ℝ} {t : List ℝ} {e2 e3 : List (Cx ℝ)} {df : Option ℝ}
    (h : laserStage3 fs t e2 df = .ok e3) (h2 : e2.length = t.length) :
    e3.length = t.length ∧ (∀ c : ℝ, (∀ z ∈ e2, z.normSq = c) → ∀ z ∈ e3, z.normSq = c) ∧
      ∀ (rs : List ℝ) (g : ℝ → ℝ), List.Forall₂ (fun z r => z.normSq = g r) e2 rs →
        List.Forall₂ (fun z r => z.normSq = g r) e3 rs := by
  cases df with
  | none => simp only [laserStage3] at h; cases h; exact ⟨h2, fun _ hc => hc, fun _ _ hr => hr⟩
  | some f =>
    simp only [laserStage3] at h
    split at h
    · cases h
    · cases h
      refine ⟨by simp [laserOffset, h2], ?_, ?_⟩
      · intro c hc z hz
        obtain ⟨a, ha, tk, _, rfl⟩ := mem_zipWith _ _ _ z hz
        rw [Cx.normSq_mul_cis]; exact hc a ha
      · intro rs g hr
        apply forall₂_zipWith_left _ _ e2 t rs hr h2
        intro z y r hz
        rw [Cx.normSq_mul_cis]; exact hz

theorem laserStage2_none {n : ℕ} {e1 : List (Cx ℝ)} : laserStage2 n e1 none = .ok e1 := rfl

theorem laserStage2_ok {n : ℕ} {e1 e2 : List (Cx ℝ)} {r : List ℝ}
    (h : laserStage2 n e1 (some r) = .ok e2) (h1 : e1.length = n) (c : ℝ) (hc : ∀ z ∈ e1, z.normSq = c) :
    e2.length = n ∧ r.length = n ∧ (∀ v ∈ r, -1 ≤ v) ∧
      List.Forall₂ (fun z v => z.normSq = c * (1 + v)) e2 r := by
  simp only [laserStage2] at h
  split at h
  · cases h
  · rename_i hr
    have hr' : r.length = n := Decidable.not_not.mp hr
    split at h
    · cases h
    · rename_i hany
      cases h
      have hge : ∀ v ∈ r, -1 ≤ v := by
        intro v hv
        by_contra hlt
        apply hany
        rw [List.any_eq_true]
        refine ⟨v, hv, ?_⟩
        have : v < -(lit 1 : ℝ) := by
          simp only [lit_real]; push_cast; exact not_le.mp hlt
        exact decide_eq_true this
      refine ⟨by simp [laserRin, h1, hr'], hr', hge, ?_⟩
      -- sample-wise: |z·sqrt(1+v)|² = |z|²·(1+v)
      have gen : ∀ (e : List (Cx ℝ)) (r : List ℝ), e.length = r.length → (∀ z ∈ e, z.normSq = c) →
          (∀ v ∈ r, -1 ≤ v) → List.Forall₂ (fun z v => z.normSq = c * (1 + v)) (laserRin e r) r := by
        intro e r
        induction e generalizing r with
        | nil => intro hl _ _; cases r <;> simp_all [laserRin]
        | cons z e ih =>
          intro hl hz hv
          cases r with
          | nil => simp at hl
          | cons v r =>
            simp only [laserRin, List.zipWith_cons_cons]
            refine List.Forall₂.cons ?_ (ih r (by simpa using hl) (fun z' hz' => hz z' (by simp [hz']))
              (fun v' hv' => hv v' (by simp [hv'])))
            have hv0 : 0 ≤ 1 + v := by have := hv v (by simp); linarith
            rw [Cx.mul_ofReal, Cx.normSq_smul, hz z (by simp)]
            simp only [Gen.OptDev.laserRinFactor, Transc.sqrt_real, lit_real]
            push_cast
            rw [Real.mul_self_sqrt hv0]; ring
      exact gen e1 r (by rw [h1, hr']) hc hge

theorem laser_ok_inv {p fs : ℝ} {phase rin : Option (List ℝ)} {df : Option ℝ} {t : List ℝ} {E : List (Cx ℝ)}
    (h : laser p phase rin df fs t = .ok E) :
    ∃ e1 e2, laserStage1 t.length (t.map fun _ => (Cx.ofReal (Transc.sqrt (idbm p)) : Cx ℝ)) phase = .ok e1 ∧
      laserStage2 t.length e1 rin = .ok e2 ∧ laserStage3 fs t e2 df = .ok E := by
  unfold laser at h
  simp only at h
  split at h
  · cases h
  · rename_i e1 he1
    split at h
    · cases h
    · rename_i e2 he2
      exact ⟨e1, e2, he1, he2, h⟩

theorem laser_e0 (p : ℝ) (t : List ℝ) :
    ∀ z ∈ (t.map fun _ => (Cx.ofReal (Transc.sqrt (idbm p)) : Cx ℝ)), z.normSq = (10 : ℝ) ^ (p / 10 - 3) := by
  intro z hz
  obtain ⟨_, _, rfl⟩ := List.mem_map.mp hz
  rw [Cx.normSq_ofReal, Transc.sqrt_real, Real.mul_self_sqrt (idbm_pos p).le, idbm_real]

end OptiVerif.Modulators
