/-
Helper lemmas for C20 (SYNC): correlation of a cyclically shifted waveform with itself, argmax.
-/
import Mathlib.Data.List.Rotate
import Mathlib.Tactic.Linarith
import Mathlib.Tactic.Ring
import Mathlib.Algebra.Order.Ring.Defs
import Mathlib.Algebra.Order.Ring.Int
import OptiVerif.Model.PpgSync

namespace OptiVerif.Sync
open OptiVerif

/- every lemma holds over any linearly ordered commutative ring `R` (ℤ for the exact waveforms, ℚ or ℝ for noisy records) -/
variable {R : Type} [CommRing R] [LinearOrder R] [IsStrictOrderedRing R]

/-! ### dot product -/

@[simp] theorem dot_nil_left (v : List R) : dot [] v = 0 := by unfold dot; rfl
@[simp] theorem dot_nil_right (u : List R) : dot u [] = 0 := by cases u <;> (unfold dot; rfl)
@[simp] theorem dot_cons (a b : R) (u v : List R) : dot (a :: u) (b :: v) = a * b + dot u v := by
  rw [dot]

/-- only the first `|w|` samples of the window matter -/
theorem dot_take : ∀ (u w : List R), dot (u.take w.length) w = dot u w
  | [], w => by simp
  | a :: u, [] => by simp
  | a :: u, b :: w => by
    simp only [List.length_cons, List.take_succ_cons, dot_cons, dot_take u w]

theorem dot_self_append : ∀ (u v : List R), dot (u ++ v) (u ++ v) = dot u u + dot v v
  | [], v => by simp
  | a :: u, v => by
    simp only [List.cons_append, dot_cons, dot_self_append u v]; ring

theorem dot_self_nonneg : ∀ (u : List R), 0 ≤ dot u u
  | [] => by simp
  | a :: u => by
    have := dot_self_nonneg u
    simp only [dot_cons]; nlinarith [mul_self_nonneg a]

/-- Cauchy–Schwarz in the form `2⟨u,v⟩ ≤ ⟨u,u⟩ + ⟨v,v⟩` -/
theorem two_dot_le : ∀ (u v : List R), u.length = v.length → 2 * dot u v ≤ dot u u + dot v v
  | [], [], _ => by simp
  | [], _ :: _, h => by simp at h
  | _ :: _, [], h => by simp at h
  | a :: u, b :: v, h => by
    have ih := two_dot_le u v (by simpa using h)
    simp only [dot_cons]
    nlinarith [mul_self_nonneg (a - b)]

/-- … with equality only for `u = v` -/
theorem two_dot_lt : ∀ (u v : List R), u.length = v.length → u ≠ v → 2 * dot u v < dot u u + dot v v
  | [], [], _, hne => absurd rfl hne
  | [], _ :: _, h, _ => by simp at h
  | _ :: _, [], h, _ => by simp at h
  | a :: u, b :: v, h, hne => by
    have hl : u.length = v.length := by simpa using h
    simp only [dot_cons]
    by_cases hab : a = b
    · subst hab
      have huv : u ≠ v := fun e => hne (by rw [e])
      have ih := two_dot_lt u v hl huv
      nlinarith
    · have ih := two_dot_le u v hl
      have hpos : 0 < (a - b) * (a - b) := by
        have : a - b ≠ 0 := sub_ne_zero.mpr hab
        exact mul_self_pos.mpr this
      nlinarith

theorem dot_self_rotate (w : List R) (n : Nat) : dot (w.rotate n) (w.rotate n) = dot w w := by
  rw [List.rotate_eq_drop_append_take_mod, dot_self_append, add_comm, ← dot_self_append, List.take_append_drop]

/-- the cyclic autocorrelation is maximal at shift 0, strictly so for a shift that moves the waveform -/
theorem dot_rotate_lt (w : List R) (m : Nat) (h : w.rotate m ≠ w) : dot (w.rotate m) w < dot w w := by
  have := two_dot_lt (w.rotate m) w (List.length_rotate w m) h
  rw [dot_self_rotate] at this
  linarith

theorem dot_rotate_le (w : List R) (m : Nat) : dot (w.rotate m) w ≤ dot w w := by
  have := two_dot_le (w.rotate m) w (List.length_rotate w m)
  rw [dot_self_rotate] at this
  linarith

/-! ### the windows of a record made of two periods `s ++ s` (+ anything after them) -/

theorem window (s tail : List R) (i : Nat) (hi : i < s.length) :
    (((s ++ s ++ tail).take (2 * s.length - 1)).drop i).take s.length = s.rotate i := by
  have hl : 2 * s.length - 1 ≤ (s ++ s).length := by simp only [List.length_append]; omega
  rw [List.take_append_of_le_length hl, List.drop_take, List.take_take,
    Nat.min_eq_left (by omega), List.drop_append_of_le_length (by omega), List.take_append,
    List.take_of_length_le (by simp only [List.length_drop]; omega), List.length_drop,
    List.rotate_eq_drop_append_take (by omega)]
  congr 2
  omega

theorem corr_periodic (s w tail : List R) (hl : s.length = w.length) (hpos : 0 < w.length) :
    corr (s ++ s ++ tail) w = (List.range w.length).map (fun i => dot (s.rotate i) w) := by
  unfold corr
  have hlen : ((s ++ s ++ tail).take (2 * w.length - 1)).length = 2 * w.length - 1 := by
    simp only [List.length_take, List.length_append]; omega
  simp only [hlen]
  have : 2 * w.length - 1 - w.length + 1 = w.length := by omega
  rw [this]
  apply List.map_congr_left
  intro i hi
  have hi' : i < s.length := by rw [hl]; exact List.mem_range.mp hi
  rw [← dot_take, ← hl, window s tail i hi']

/-! ### argmax -/

theorem argmaxFrom_spec : ∀ (xs : List R) (best : R) (bi i : Nat),
    (∀ x ∈ xs, x ≤ (argmaxFrom xs best bi i).2) ∧ best ≤ (argmaxFrom xs best bi i).2 ∧
    (((argmaxFrom xs best bi i).1 = bi ∧ (argmaxFrom xs best bi i).2 = best) ∨
      ∃ j, ∃ h : j < xs.length, (argmaxFrom xs best bi i).1 = i + j ∧ (argmaxFrom xs best bi i).2 = xs[j])
  | [], best, bi, i => ⟨by simp, le_refl _, Or.inl ⟨rfl, rfl⟩⟩
  | x :: xs, best, bi, i => by
    unfold argmaxFrom
    by_cases hlt : best < x
    · rw [if_pos hlt]
      obtain ⟨h1, h2, h3⟩ := argmaxFrom_spec xs x i (i + 1)
      refine ⟨?_, le_trans (le_of_lt hlt) h2, Or.inr ?_⟩
      · intro y hy
        rcases List.mem_cons.mp hy with rfl | hy
        · exact h2
        · exact h1 y hy
      · rcases h3 with ⟨e1, e2⟩ | ⟨j, hj, e1, e2⟩
        · exact ⟨0, by simp, by omega, by simpa using e2⟩
        · exact ⟨j + 1, by simpa using hj, by omega, by simpa using e2⟩
    · rw [if_neg hlt]
      obtain ⟨h1, h2, h3⟩ := argmaxFrom_spec xs best bi (i + 1)
      refine ⟨?_, h2, ?_⟩
      · intro y hy
        rcases List.mem_cons.mp hy with rfl | hy
        · exact le_trans (not_lt.mp hlt) h2
        · exact h1 y hy
      · rcases h3 with ⟨e1, e2⟩ | ⟨j, hj, e1, e2⟩
        · exact Or.inl ⟨e1, e2⟩
        · exact Or.inr ⟨j + 1, by simpa using hj, by omega, by simpa using e2⟩

/-- `argmax` returns an index of a maximal entry, and the entry -/
theorem argmax_spec (c : List R) (k : Nat) (v : R) (h : argmax c = some (k, v)) :
    ∃ hk : k < c.length, c[k] = v ∧ ∀ x ∈ c, x ≤ v := by
  cases c with
  | nil => simp [argmax] at h
  | cons x xs =>
    simp only [argmax, Option.some.injEq] at h
    obtain ⟨h1, h2, h3⟩ := argmaxFrom_spec xs x 0 1
    rw [h] at h1 h2 h3
    simp only at h1 h2 h3
    have hall : ∀ y ∈ x :: xs, y ≤ v := by
      intro y hy
      rcases List.mem_cons.mp hy with rfl | hy
      · exact h2
      · exact h1 y hy
    rcases h3 with ⟨e1, e2⟩ | ⟨j, hj, e1, e2⟩
    · subst e1
      exact ⟨by simp, by simpa using e2.symm, hall⟩
    · subst e1
      refine ⟨by simp only [List.length_cons]; omega, ?_, hall⟩
      have : (x :: xs)[1 + j]'(by simp only [List.length_cons]; omega) = xs[j] := by
        simp only [Nat.add_comm 1 j, List.getElem_cons_succ]
      rw [this, e2]

theorem argmax_isSome (c : List R) (h : c ≠ []) : ∃ k v, argmax c = some (k, v) := by
  cases c with
  | nil => exact absurd rfl h
  | cons x xs => exact ⟨_, _, rfl⟩

/-- a strict maximum at `d` is what `argmax` returns -/
theorem argmax_unique (c : List R) (d : Nat) (hd : d < c.length)
    (h : ∀ i (hi : i < c.length), i ≠ d → c[i] < c[d]) : argmax c = some (d, c[d]) := by
  obtain ⟨k, v, hkv⟩ := argmax_isSome c (by intro e; rw [e] at hd; simp at hd)
  obtain ⟨hk, e, hall⟩ := argmax_spec c k v hkv
  have hdv : c[d] ≤ v := hall _ (List.getElem_mem hd)
  by_cases hkd : k = d
  · subst hkd
    rw [hkv, e]
  · have := h k hk hkd
    rw [e] at this
    exact absurd hdv (not_le.mpr this)

/-! ### the record `s ++ s ++ tail` with `s = w.rotate (l - d)` -/

theorem rotate_back (w : List R) (d i : Nat) (hd : d < w.length) (hi : i < w.length) :
    (w.rotate (w.length - d)).rotate i = w.rotate ((w.length - d + i) % w.length) ∧
    ((w.length - d + i) % w.length = 0 ↔ i = d) ∧ (w.length - d + i) % w.length < w.length := by
  refine ⟨by rw [List.rotate_rotate, List.rotate_mod], ?_, Nat.mod_lt _ (by omega)⟩
  constructor
  · intro h
    by_cases hid : i < d
    · rw [Nat.mod_eq_of_lt (by omega)] at h; omega
    · have e : w.length - d + i = (i - d) + w.length := by omega
      rw [e, Nat.add_mod_right, Nat.mod_eq_of_lt (by omega)] at h
      omega
  · intro h
    subst h
    have e : w.length - i + i = w.length := by omega
    rw [e, Nat.mod_self]

/-- correlation values of the delayed periodic record -/
theorem corr_delayed (w tail : List R) (d : Nat) (hd : d < w.length) :
    corr (w.rotate (w.length - d) ++ w.rotate (w.length - d) ++ tail) w =
      (List.range w.length).map (fun i => dot (w.rotate ((w.length - d + i) % w.length)) w) := by
  rw [corr_periodic _ w tail (List.length_rotate _ _) (by omega)]
  apply List.map_congr_left
  intro i hi
  rw [(rotate_back w d i hd (List.mem_range.mp hi)).1]

theorem argmax_delayed (w tail : List R) (d : Nat) (hd : d < w.length)
    (hap : ∀ m, 0 < m → m < w.length → w.rotate m ≠ w) :
    argmax (corr (w.rotate (w.length - d) ++ w.rotate (w.length - d) ++ tail) w) = some (d, dot w w) := by
  rw [corr_delayed w tail d hd]
  have hlen : ((List.range w.length).map (fun i => dot (w.rotate ((w.length - d + i) % w.length)) w)).length
      = w.length := by simp
  have hdd : ((List.range w.length).map (fun i => dot (w.rotate ((w.length - d + i) % w.length)) w))[d]'(by
      rw [hlen]; exact hd) = dot w w := by
    simp only [List.getElem_map, List.getElem_range]
    rw [((rotate_back w d d hd hd).2.1).mpr rfl, List.rotate_zero]
  have := argmax_unique _ d (by rw [hlen]; exact hd) (by
    intro i hi hne
    rw [hdd]
    simp only [List.getElem_map, List.getElem_range]
    rw [hlen] at hi
    obtain ⟨_, hz, hlt⟩ := rotate_back w d i hd hi
    apply dot_rotate_lt
    apply hap _ _ hlt
    rcases Nat.eq_zero_or_pos ((w.length - d + i) % w.length) with h0 | hp
    · exact absurd (hz.mp h0) hne
    · exact hp)
  rw [this, hdd]

/-! ### the record `zeros d ++ w ++ w ++ tail` (nothing before the first period) for non-negative waveforms -/

theorem take_drop_take (L : List R) (n i l : Nat) (h : i + l ≤ n) :
    ((L.take n).drop i).take l = (L.drop i).take l := by
  rw [List.drop_take, List.take_take, Nat.min_eq_left (by omega)]

theorem dot_zero_prefix_le : ∀ (b c w : List R), (∀ x ∈ b, 0 ≤ x) → (∀ x ∈ w, 0 ≤ x) →
    dot (List.replicate b.length 0 ++ c) w ≤ dot (b ++ c) w
  | [], c, w, _, _ => by simp
  | x :: b, c, [], _, _ => by simp
  | x :: b, c, y :: w, hb, hw => by
    have ih := dot_zero_prefix_le b c w (fun z hz => hb z (List.mem_cons_of_mem _ hz))
      (fun z hz => hw z (List.mem_cons_of_mem _ hz))
    have hx := hb x List.mem_cons_self
    have hy := hw y List.mem_cons_self
    simp only [List.length_cons, List.replicate_succ, List.cons_append, dot_cons]
    nlinarith [mul_nonneg hx hy]

/-- windows that start inside the leading zeros -/
theorem window_zero_early (w tail : List R) (d i : Nat) (hd : d < w.length) (hi : i < d) :
    (((List.replicate d 0 ++ w ++ w ++ tail).take (2 * w.length - 1)).drop i).take w.length
      = List.replicate (d - i) 0 ++ w.take (w.length - (d - i)) := by
  rw [take_drop_take _ _ _ _ (by omega), List.append_assoc, List.append_assoc,
    List.drop_append_of_le_length (by simp only [List.length_replicate]; omega), List.drop_replicate,
    List.take_append, List.take_of_length_le (by simp only [List.length_replicate]; omega),
    List.length_replicate, List.take_append_of_le_length (by omega)]

/-- windows that start at or after the first period -/
theorem window_zero_late (w tail : List R) (d i : Nat) (hd : d < w.length) (hi : d ≤ i) (hil : i < w.length) :
    (((List.replicate d 0 ++ w ++ w ++ tail).take (2 * w.length - 1)).drop i).take w.length
      = w.rotate (i - d) := by
  rw [take_drop_take _ _ _ _ (by omega), List.append_assoc, List.append_assoc, List.drop_append,
    List.drop_of_length_le (by simp only [List.length_replicate]; omega), List.nil_append, List.length_replicate,
    ← List.append_assoc, List.drop_append_of_le_length (by simp only [List.length_append]; omega),
    List.drop_append_of_le_length (by omega), List.append_assoc, List.take_append,
    List.take_of_length_le (by simp only [List.length_drop]; omega), List.length_drop,
    List.take_append_of_le_length (by omega), List.rotate_eq_drop_append_take (by omega)]
  congr 2
  omega

theorem corr_zero_prefix (w tail : List R) (d : Nat) (hd : d < w.length) :
    corr (List.replicate d 0 ++ w ++ w ++ tail) w = (List.range w.length).map (fun i =>
      if i < d then dot (List.replicate (d - i) 0 ++ w.take (w.length - (d - i))) w else dot (w.rotate (i - d)) w) := by
  unfold corr
  have hlen : ((List.replicate d 0 ++ w ++ w ++ tail).take (2 * w.length - 1)).length = 2 * w.length - 1 := by
    simp only [List.length_take, List.length_append, List.length_replicate]; omega
  simp only [hlen]
  have : 2 * w.length - 1 - w.length + 1 = w.length := by omega
  rw [this]
  apply List.map_congr_left
  intro i hi
  have hi' : i < w.length := List.mem_range.mp hi
  rw [← dot_take]
  by_cases h : i < d
  · rw [if_pos h, window_zero_early w tail d i hd h]
  · rw [if_neg h, window_zero_late w tail d i hd (by omega) hi']

theorem early_lt (w : List R) (k : Nat) (hk : 0 < k) (hkl : k < w.length) (hnn : ∀ x ∈ w, 0 ≤ x)
    (hap : ∀ m, 0 < m → m < w.length → w.rotate m ≠ w) :
    dot (List.replicate k 0 ++ w.take (w.length - k)) w < dot w w := by
  have h1 := dot_zero_prefix_le (w.drop (w.length - k)) (w.take (w.length - k)) w
    (fun x hx => hnn x (List.mem_of_mem_drop hx)) hnn
  have hl : (w.drop (w.length - k)).length = k := by simp only [List.length_drop]; omega
  rw [hl, ← List.rotate_eq_drop_append_take (by omega)] at h1
  have h2 := dot_rotate_lt w (w.length - k) (hap _ (by omega) (by omega))
  exact lt_of_le_of_lt h1 h2

theorem argmax_zero_prefix (w tail : List R) (d : Nat) (hd : d < w.length) (hnn : ∀ x ∈ w, 0 ≤ x)
    (hap : ∀ m, 0 < m → m < w.length → w.rotate m ≠ w) :
    argmax (corr (List.replicate d 0 ++ w ++ w ++ tail) w) = some (d, dot w w) := by
  rw [corr_zero_prefix w tail d hd]
  set f : Nat → R := fun i =>
      if i < d then dot (List.replicate (d - i) 0 ++ w.take (w.length - (d - i))) w else dot (w.rotate (i - d)) w with hf
  have hlen : ((List.range w.length).map f).length = w.length := by simp
  have hdd : ((List.range w.length).map f)[d]'(by rw [hlen]; exact hd) = dot w w := by
    simp only [List.getElem_map, List.getElem_range, hf, lt_irrefl, if_false, Nat.sub_self, List.rotate_zero]
  have := argmax_unique _ d (by rw [hlen]; exact hd) (by
    intro i hi hne
    rw [hdd]
    simp only [List.getElem_map, List.getElem_range, hf]
    rw [hlen] at hi
    by_cases h : i < d
    · rw [if_pos h]
      exact early_lt w (d - i) (by omega) (by omega) hnn hap
    · rw [if_neg h]
      exact dot_rotate_lt w (i - d) (hap _ (by omega) (by omega)))
  rw [this, hdd]

end OptiVerif.Sync
