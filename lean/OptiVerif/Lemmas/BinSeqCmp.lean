/-
Lemmas for `electrical_signal.__gt__/__lt__` of the binary_sequence model (C15): structure of the result,
squared magnitudes versus absolute values / complex moduli.
-/
import OptiVerif.Lemmas.BinSeq
import Mathlib.Algebra.Order.Ring.Abs
import Mathlib.Analysis.Complex.Norm

set_option linter.unusedSectionVars false

namespace OptiVerif.BinSeq
open OptiVerif

section generic
variable {R : Type} [Add R] [Mul R] [LT R] [DecidableLT R]

/-- the comparison kernel: 1 where the squared magnitude of the signal sample beats that of the threshold -/
def cmpBit (gt : Bool) (x y : R × R) : Nat :=
  if (if gt then mag2 y < mag2 x else mag2 x < mag2 y) then 1 else 0

theorem valid_zipWith_cmpBit (gt : Bool) (a b : List (R × R)) : Valid (List.zipWith (cmpBit gt) a b) := by
  intro x hx
  induction a generalizing b with
  | nil => simp at hx
  | cons p ps ih =>
    cases b with
    | nil => simp at hx
    | cons q qs =>
      simp only [List.zipWith_cons_cons, List.mem_cons] at hx
      rcases hx with rfl | hx
      · unfold cmpBit
        by_cases h : (if gt then mag2 q < mag2 p else mag2 p < mag2 q) <;> simp [h]
      · exact ih qs hx

/-- well-formed operands: noise (if any) has the signal's shape -/
def WF (sig : List (R × R)) (noise : Option (List (R × R))) : Prop := ∀ l, noise = some l → l.length = sig.length

theorem total_length (sig : List (R × R)) (noise : Option (List (R × R))) (h : WF sig noise) :
    (total sig noise).length = sig.length := by
  cases noise with
  | none => rfl
  | some l => simp [total, h l rfl]

theorem bcast_length (n : Nat) (t : List (R × R)) (h : t.length = n ∨ t.length = 1) : (bcast n t).length = n := by
  match t, h with
  | [], h => simp at h; simp [bcast, ← h]
  | [x], _ => simp [bcast]
  | x :: y :: r, h =>
    rcases h with h | h
    · simpa [bcast] using h
    · simp at h

/-- accepted comparisons in closed form -/
theorem compare_eq (gt : Bool) (sig : List (R × R)) (noise : Option (List (R × R))) (t : List (R × R))
    (tn : Option (List (R × R))) (ht0 : t ≠ []) (ht : t.length = sig.length ∨ t.length = 1) :
    compare gt sig noise (some (t, tn)) =
      .ok (List.zipWith (cmpBit gt) (total sig noise) (bcast sig.length (total t tn))) := by
  unfold compare
  have h0 : ¬ t.length = 0 := by
    intro h; exact ht0 (List.eq_nil_of_length_eq_zero h)
  have h1 : ¬ (sig.length ≠ t.length ∧ t.length ≠ 1) := by
    rintro ⟨a, b⟩
    rcases ht with h | h
    · exact a h.symm
    · exact b h
  simp only [h0, h1, if_false]
  exact revalidate_of_valid (valid_zipWith_cmpBit gt _ _)

/-- rejected comparisons: an empty threshold, or a length that is neither the signal's nor 1 -/
theorem compare_reject (gt : Bool) (sig : List (R × R)) (noise : Option (List (R × R))) (t : List (R × R))
    (tn : Option (List (R × R))) (h : t = [] ∨ (t.length ≠ sig.length ∧ t.length ≠ 1)) :
    compare gt sig noise (some (t, tn)) = .error .ValueError := by
  unfold compare
  rcases h with rfl | ⟨a, b⟩
  · simp
  · have h0 : ¬ t.length = 0 ∨ t.length = 0 := by omega
    by_cases hz : t.length = 0
    · simp [hz]
    · have : sig.length ≠ t.length ∧ t.length ≠ 1 := ⟨fun h => a h.symm, b⟩
      simp [hz, this]
end generic

/-! ### real samples: squares versus absolute values -/

section real
variable {R : Type} [Ring R] [LinearOrder R] [IsStrictOrderedRing R]

/-- a real sample as the pair the model works on -/
def re (x : R) : R × R := (x, 0)

theorem mag2_re (x : R) : mag2 (re x) = x * x := by simp [mag2, re]

theorem mag2_re_lt_iff_abs (x y : R) : mag2 (re y) < mag2 (re x) ↔ |y| < |x| := by
  rw [mag2_re, mag2_re, abs_lt_iff_mul_self_lt]

theorem mag2_re_lt_iff_of_nonneg (x y : R) (hx : 0 ≤ x) (hy : 0 ≤ y) : mag2 (re y) < mag2 (re x) ↔ y < x := by
  rw [mag2_re_lt_iff_abs, abs_of_nonneg hx, abs_of_nonneg hy]

/-- `signal + noise` on real lists -/
def sumR (s : List R) (n : Option (List R)) : List R :=
  match n with
  | none => s
  | some l => List.zipWith (· + ·) s l

/-- broadcast of a length-1 threshold on real lists -/
def bcastR (n : Nat) (t : List R) : List R :=
  match t with
  | [x] => List.replicate n x
  | _ => t

theorem total_re (s : List R) (n : Option (List R)) :
    total (s.map re) (n.map (List.map re)) = (sumR s n).map re := by
  cases n with
  | none => rfl
  | some l =>
    simp only [total, sumR, Option.map_some]
    induction s generalizing l with
    | nil => simp
    | cons x xs ih =>
      cases l with
      | nil => simp
      | cons y ys =>
        simp only [List.map_cons, List.zipWith_cons_cons, ih ys]
        congr 1
        simp [addC, re]

theorem bcast_re (n : Nat) (t : List R) : bcast n (t.map re) = (bcastR n t).map re := by
  match t with
  | [] => rfl
  | [x] => simp [bcast, bcastR]
  | x :: y :: r => rfl

theorem zipWith_cmpBit_re (gt : Bool) (a b : List R) :
    List.zipWith (cmpBit gt) (a.map re) (b.map re)
      = List.zipWith (fun x y => if (if gt then |y| < |x| else |x| < |y|) then 1 else 0) a b := by
  rw [List.zipWith_map]
  congr 1
  funext x y
  unfold cmpBit
  cases gt
  · simp only [Bool.false_eq_true, if_false, mag2_re_lt_iff_abs]
  · simp only [if_true, mag2_re_lt_iff_abs]
end real

/-! ### complex samples: squares versus moduli -/

/-- a complex sample as the pair the model works on -/
noncomputable def ofC (z : ℂ) : ℝ × ℝ := (z.re, z.im)

theorem mag2_ofC (z : ℂ) : mag2 (ofC z) = Complex.normSq z := by
  simp [mag2, ofC, Complex.normSq_apply]

theorem mag2_ofC_lt_iff_norm (z w : ℂ) : mag2 (ofC w) < mag2 (ofC z) ↔ ‖w‖ < ‖z‖ := by
  rw [mag2_ofC, mag2_ofC, Complex.norm_def, Complex.norm_def, Real.sqrt_lt_sqrt_iff (Complex.normSq_nonneg w)]

end OptiVerif.BinSeq
