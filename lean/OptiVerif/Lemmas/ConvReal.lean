/-
The generic numeric model `Model/Conv.lean` instantiated at `ℝ`: dB pairs, Q, gaus, rcos.
-/
import OptiVerif.Model.Conv
import OptiVerif.Lemmas.NumReal
import OptiVerif.Lemmas.GaussQ
import Mathlib.Analysis.SpecialFunctions.Pow.Real

namespace OptiVerif.Conv
open OptiVerif Real

@[simp] theorem lit_real (n : Nat) : (lit n : ℝ) = (n : ℝ) := rfl

theorem log10_ne_zero : Real.log 10 ≠ 0 := ne_of_gt (Real.log_pos (by norm_num))

theorem log10_real (x : ℝ) : log10 x = Real.log x / Real.log 10 := by simp [log10]

/-- the model's `10**y` is the real power -/
theorem pow10_real (y : ℝ) : pow10 y = (10 : ℝ) ^ y := by
  simp only [pow10, Transc.exp_real, Transc.log_real, Nat.cast_ofNat]
  rw [Real.rpow_def_of_pos (by norm_num : (0:ℝ) < 10), mul_comm]

theorem db_real (x : ℝ) : db x = 10 * (Real.log x / Real.log 10) := by simp [db, log10]
theorem dbm_real (x : ℝ) : dbm x = 10 * (Real.log (x * 1000) / Real.log 10) := by simp [dbm, log10]
theorem idb_real (y : ℝ) : idb y = Real.exp (y / 10 * Real.log 10) := by simp [idb, pow10]
theorem idbm_real (y : ℝ) : idbm y = Real.exp ((y / 10 - 3) * Real.log 10) := by simp [idbm, pow10]

theorem log_1000 : Real.log 1000 = 3 * Real.log 10 := by
  have : (1000 : ℝ) = 10 ^ (3 : ℕ) := by norm_num
  rw [this, Real.log_pow]; norm_num

theorem idb_db (x : ℝ) (hx : 0 < x) : idb (db x) = x := by
  rw [idb_real, db_real]
  have h := log10_ne_zero
  have : 10 * (Real.log x / Real.log 10) / 10 * Real.log 10 = Real.log x := by field_simp
  rw [this, Real.exp_log hx]

theorem db_idb (y : ℝ) : db (idb y) = y := by
  rw [db_real, idb_real, Real.log_exp]
  have h := log10_ne_zero
  field_simp

theorem idbm_dbm (x : ℝ) (hx : 0 < x) : idbm (dbm x) = x := by
  rw [idbm_real, dbm_real]
  have h := log10_ne_zero
  have hx' : x ≠ 0 := ne_of_gt hx
  have : (10 * (Real.log (x * 1000) / Real.log 10) / 10 - 3) * Real.log 10 = Real.log x := by
    rw [Real.log_mul hx' (by norm_num), log_1000]; field_simp; ring
  rw [this, Real.exp_log hx]

theorem dbm_idbm (y : ℝ) : dbm (idbm y) = y := by
  rw [dbm_real, idbm_real]
  have h := log10_ne_zero
  rw [Real.log_mul (Real.exp_pos _).ne' (by norm_num), Real.log_exp, log_1000]
  field_simp; ring

theorem db_mul (x y : ℝ) (hx : 0 < x) (hy : 0 < y) : db (x * y) = db x + db y := by
  simp only [db_real]
  rw [Real.log_mul hx.ne' hy.ne']
  ring

theorem dbm_eq_db_add_30 (x : ℝ) (hx : 0 < x) : dbm x = db x + 30 := by
  rw [dbm_real, db_real, Real.log_mul hx.ne' (by norm_num), log_1000]
  have h := log10_ne_zero
  field_simp; ring

theorem dbE_error_iff (x : ℝ) : dbE x = .error .ValueError ↔ x < 0 := by
  unfold dbE
  simp only [Nat.cast_zero]
  by_cases h : x < 0
  · simp [h]
  · simp [h]

theorem dbmE_error_iff (x : ℝ) : dbmE x = .error .ValueError ↔ x < 0 := by
  unfold dbmE
  simp only [Nat.cast_zero]
  by_cases h : x < 0
  · simp [h]
  · simp [h]

theorem dbE_ok (x : ℝ) (h : 0 ≤ x) : dbE x = .ok (db x) := by
  unfold dbE
  simp only [Nat.cast_zero]
  rw [if_neg (not_lt.mpr h)]

/-! ### Q -/

theorem half_real : (half : ℝ) = 1 / 2 := by simp [half]

/-- under the specification of `erfc`, the model's Q is the Gaussian tail -/
theorem Q_eq_gQ (erfc : ℝ → ℝ) (h : GaussQ.ErfcSpec erfc) (x : ℝ) : Q erfc x = GaussQ.gQ x := by
  unfold Q qArg
  rw [h, half_real]
  simp only [Transc.sqrt_real, Nat.cast_ofNat]
  have h2 : Real.sqrt 2 ≠ 0 := by positivity
  have : Real.sqrt 2 * (x / Real.sqrt 2) = x := by field_simp
  rw [this]; ring

/-! ### gaus -/

theorem gaus_real (x mu std : ℝ) :
    gaus x mu std = 1 / std / Real.sqrt (2 * Real.pi) * Real.exp (-(1/2) * ((x - mu) * (x - mu)) / (std * std)) := by
  simp [gaus, half]

/-- for `std > 0`, `gaus` is Mathlib's Gaussian density with variance `std²` -/
theorem gaus_eq_pdf (x mu std : ℝ) (hs : 0 < std) :
    gaus x mu std = ProbabilityTheory.gaussianPDFReal mu (Real.toNNReal (std ^ 2)) x := by
  rw [gaus_real]
  rw [ProbabilityTheory.gaussianPDFReal_def]
  simp only [Real.coe_toNNReal _ (sq_nonneg std)]
  have h1 : Real.sqrt (2 * Real.pi * std ^ 2) = Real.sqrt (2 * Real.pi) * std := by
    rw [Real.sqrt_mul (by positivity), Real.sqrt_sq hs.le]
  rw [h1]
  have hpi : Real.sqrt (2 * Real.pi) ≠ 0 := by positivity
  have hs' : std ≠ 0 := hs.ne'
  congr 1
  · field_simp
  · congr 1; field_simp

theorem gaus_integral (mu std : ℝ) (hs : 0 < std) : ∫ x, gaus x mu std = 1 := by
  have : (fun x => gaus x mu std) = ProbabilityTheory.gaussianPDFReal mu (Real.toNNReal (std ^ 2)) := by
    funext x; exact gaus_eq_pdf x mu std hs
  rw [this]
  apply ProbabilityTheory.integral_gaussianPDFReal_eq_one
  intro h
  have h2 : (0:ℝ) < std ^ 2 := by positivity
  rw [Real.toNNReal_eq_zero] at h
  linarith

theorem gaus_pos (x mu std : ℝ) (hs : 0 < std) : 0 < gaus x mu std := by
  rw [gaus_real]; positivity

/-! ### rcos -/

theorem abs_real (x : ℝ) : Conv.abs x = |x| := by
  unfold Conv.abs
  simp only [Nat.cast_zero]
  by_cases h : x < 0
  · rw [if_pos h, abs_of_neg h]
  · rw [if_neg h, abs_of_nonneg (not_lt.mp h)]

theorem rcos_real (x alpha T : ℝ) :
    rcos x alpha T =
      if |x| ≤ (1 - alpha) / (2 * T) then 1
      else if (1 + alpha) / (2 * T) < |x| then 0
      else 1 / 2 * (1 + Real.cos (Real.pi * T / alpha * (|x| - (1 - alpha) / (2 * T)))) := by
  unfold rcos
  simp only [abs_real, half_real, Transc.cos_real, Transc.pi_real, Nat.cast_one, Nat.cast_ofNat, Nat.cast_zero]

theorem rcos_range (x alpha T : ℝ) : 0 ≤ rcos x alpha T ∧ rcos x alpha T ≤ 1 := by
  rw [rcos_real]
  split_ifs
  · exact ⟨zero_le_one, le_refl _⟩
  · exact ⟨le_refl _, zero_le_one⟩
  · have h1 := Real.neg_one_le_cos (Real.pi * T / alpha * (|x| - (1 - alpha) / (2 * T)))
    have h2 := Real.cos_le_one (Real.pi * T / alpha * (|x| - (1 - alpha) / (2 * T)))
    constructor <;> linarith

theorem rcos_even (x alpha T : ℝ) : rcos (-x) alpha T = rcos x alpha T := by
  rw [rcos_real, rcos_real, abs_neg]

theorem rcos_half (alpha T : ℝ) (ha : 0 < alpha) (hT : 0 < T) : rcos (1 / (2 * T)) alpha T = 1 / 2 := by
  rw [rcos_real]
  have h2T : 0 < 2 * T := by positivity
  have habs : |1 / (2 * T)| = 1 / (2 * T) := abs_of_pos (by positivity)
  rw [habs]
  have h1 : ¬ (1 / (2 * T) ≤ (1 - alpha) / (2 * T)) := by
    rw [div_le_div_iff_of_pos_right h2T]; linarith
  have h2 : ¬ ((1 + alpha) / (2 * T) < 1 / (2 * T)) := by
    rw [div_lt_div_iff_of_pos_right h2T]; linarith
  rw [if_neg h1, if_neg h2]
  have : Real.pi * T / alpha * (1 / (2 * T) - (1 - alpha) / (2 * T)) = Real.pi / 2 := by
    field_simp; ring
  rw [this, Real.cos_pi_div_two]; ring

theorem rcos_zero_beyond (x alpha T : ℝ) (ha : 0 ≤ alpha) (hT : 0 < T) (hx : (1 + alpha) / (2 * T) < |x|) :
    rcos x alpha T = 0 := by
  rw [rcos_real]
  have h2T : 0 < 2 * T := by positivity
  have hle : (1 - alpha) / (2 * T) ≤ (1 + alpha) / (2 * T) := by
    rw [div_le_div_iff_of_pos_right h2T]; linarith
  rw [if_neg (by linarith), if_pos hx]

theorem rcos_one_inside (x alpha T : ℝ) (hx : |x| ≤ (1 - alpha) / (2 * T)) : rcos x alpha T = 1 := by
  rw [rcos_real, if_pos hx]

end OptiVerif.Conv
