/-
The coupled-mode system of the FBG model, in ℂ (C16):

    R' = j(σ R + κ S),   S' = −j(σ S + κ R)      on [a, b],  σ, κ REAL functions of z.

* `conservation`     |R|² − |S|² is constant along every solution (lossless grating).
* `passive`          with R(b) = 1, S(b) = 0:  |R(z)|² = 1 + |S(z)|² ≥ 1 and |S(z)/R(z)| < 1 for every z ∈ [a,b].
* `bragg_solution`   σ ≡ 0, κ = κ₀ p:  R = cosh u, S = j sinh u, u(z) = κ₀ (P(b) − P(z)), P' = p, is a solution.
* `unique`           two solutions with the same value at b coincide on [a,b] (Gronwall), for bounded σ, κ.
* `bragg_reflectivity` hence EVERY solution with R(b)=1, S(b)=0 has |S(a)/R(a)|² = tanh²(κ₀ (P(b) − P(a))).
-/
import Mathlib.Analysis.InnerProductSpace.Calculus
import Mathlib.Analysis.Calculus.MeanValue
import Mathlib.Analysis.ODE.ExistUnique
import Mathlib.Analysis.SpecialFunctions.Trigonometric.DerivHyp
import Mathlib.Analysis.Complex.RealDeriv

namespace OptiVerif.FbgOde
open Set Complex

/-- `(R, S)` solves the coupled-mode system on `[a, b]` (one-sided derivatives at the ends) -/
structure Solves (σ κ : ℝ → ℝ) (a b : ℝ) (R S : ℝ → ℂ) : Prop where
  dR : ∀ z ∈ Icc a b, HasDerivWithinAt R (I * ((σ z : ℂ) * R z + (κ z : ℂ) * S z)) (Icc a b) z
  dS : ∀ z ∈ Icc a b, HasDerivWithinAt S (-I * ((σ z : ℂ) * S z + (κ z : ℂ) * R z)) (Icc a b) z

theorem inner_rhs_cancel (σ κ : ℝ) (r s : ℂ) :
    2 * inner ℝ r (I * ((σ : ℂ) * r + (κ : ℂ) * s)) - 2 * inner ℝ s (-I * ((σ : ℂ) * s + (κ : ℂ) * r)) = 0 := by
  simp only [Complex.inner, mul_re, mul_im, add_re, add_im, I_re, I_im, ofReal_re, ofReal_im, conj_re, conj_im,
    neg_re, neg_im]
  ring

variable {σ κ : ℝ → ℝ} {a b : ℝ} {R S : ℝ → ℂ}

/-- |R|² − |S|² is conserved -/
theorem conservation (h : Solves σ κ a b R S) :
    ∀ z ∈ Icc a b, ‖R z‖ ^ 2 - ‖S z‖ ^ 2 = ‖R a‖ ^ 2 - ‖S a‖ ^ 2 := by
  have hd : ∀ z ∈ Icc a b, HasDerivWithinAt (fun z => ‖R z‖ ^ 2 - ‖S z‖ ^ 2) 0 (Icc a b) z := by
    intro z hz
    have := (h.dR z hz).norm_sq.sub (h.dS z hz).norm_sq
    rwa [inner_rhs_cancel] at this
  apply constant_of_has_deriv_right_zero
  · intro z hz
    exact (hd z hz).continuousWithinAt
  · intro z hz
    exact (hd z ⟨hz.1, hz.2.le⟩).mono_of_mem_nhdsWithin (Icc_mem_nhdsGE_of_mem hz)

theorem conservation' (h : Solves σ κ a b R S) (hab : a ≤ b) :
    ∀ z ∈ Icc a b, ‖R z‖ ^ 2 - ‖S z‖ ^ 2 = ‖R b‖ ^ 2 - ‖S b‖ ^ 2 := by
  intro z hz
  rw [conservation h z hz, conservation h b ⟨hab, le_rfl⟩]

/-- with the boundary condition of the code, R(b) = 1 and S(b) = 0:  |R|² = 1 + |S|² -/
theorem normSq_R (h : Solves σ κ a b R S) (hab : a ≤ b) (hR : R b = 1) (hS : S b = 0) :
    ∀ z ∈ Icc a b, ‖R z‖ ^ 2 = 1 + ‖S z‖ ^ 2 := by
  intro z hz
  have := conservation' h hab z hz
  rw [hR, hS] at this
  simp at this
  linarith

theorem R_ne_zero (h : Solves σ κ a b R S) (hab : a ≤ b) (hR : R b = 1) (hS : S b = 0) :
    ∀ z ∈ Icc a b, R z ≠ 0 := by
  intro z hz h0
  have := normSq_R h hab hR hS z hz
  rw [h0] at this
  simp at this
  nlinarith [sq_nonneg ‖S z‖]

/-- passivity of every exact solution: the reflection coefficient has modulus < 1 everywhere -/
theorem passive (h : Solves σ κ a b R S) (hab : a ≤ b) (hR : R b = 1) (hS : S b = 0) :
    ∀ z ∈ Icc a b, ‖S z / R z‖ < 1 := by
  intro z hz
  have hn := normSq_R h hab hR hS z hz
  have h0 : 0 < ‖R z‖ := norm_pos_iff.mpr (R_ne_zero h hab hR hS z hz)
  rw [norm_div, div_lt_one h0]
  nlinarith [norm_nonneg (S z), norm_nonneg (R z)]

/-- |ρ|² = |S|² / (1 + |S|²) -/
theorem reflectivity_eq (h : Solves σ κ a b R S) (hab : a ≤ b) (hR : R b = 1) (hS : S b = 0) :
    ∀ z ∈ Icc a b, ‖S z / R z‖ ^ 2 = ‖S z‖ ^ 2 / (1 + ‖S z‖ ^ 2) := by
  intro z hz
  rw [norm_div, div_pow, normSq_R h hab hR hS z hz]

/-! ### the Bragg frequency: σ ≡ 0, κ = κ₀ p -/

/-- R = cosh u, S = j sinh u with u(z) = κ₀ (P(b) − P(z)), P' = p -/
theorem bragg_solution (κ0 : ℝ) (p P : ℝ → ℝ)
    (hP : ∀ z ∈ Icc a b, HasDerivWithinAt P (p z) (Icc a b) z) :
    Solves (fun _ => 0) (fun z => κ0 * p z) a b
      (fun z => ((Real.cosh (κ0 * (P b - P z)) : ℝ) : ℂ))
      (fun z => I * ((Real.sinh (κ0 * (P b - P z)) : ℝ) : ℂ)) := by
  have hu : ∀ z ∈ Icc a b, HasDerivWithinAt (fun z => κ0 * (P b - P z)) (κ0 * (0 - p z)) (Icc a b) z := by
    intro z hz
    exact ((hasDerivWithinAt_const z _ (P b)).sub (hP z hz)).const_mul κ0
  constructor
  · intro z hz
    have := (hu z hz).cosh.ofReal_comp
    refine this.congr_deriv ?_
    push_cast
    linear_combination (-1 : ℂ) * ((κ0 : ℂ) * (p z : ℂ) * Complex.sinh ((κ0 : ℂ) * ((P b : ℂ) - (P z : ℂ)))) * I_mul_I
  · intro z hz
    have := ((hu z hz).sinh.ofReal_comp).const_mul I
    exact this.congr_deriv (by push_cast; ring)

/-! ### uniqueness (Gronwall) -/

/-- the right-hand side as a vector field on ℂ × ℂ -/
noncomputable def field (σ κ : ℝ → ℝ) (z : ℝ) (x : ℂ × ℂ) : ℂ × ℂ :=
  (I * ((σ z : ℂ) * x.1 + (κ z : ℂ) * x.2), -I * ((σ z : ℂ) * x.2 + (κ z : ℂ) * x.1))

theorem field_lipschitz (M : ℝ) (hM : 0 ≤ M) (z : ℝ) (hσ : |σ z| ≤ M) (hκ : |κ z| ≤ M) :
    LipschitzWith (Real.toNNReal (2 * M)) (field σ κ z) := by
  apply LipschitzWith.of_dist_le_mul
  intro x y
  rw [Real.coe_toNNReal _ (by linarith)]
  have h1 : ‖x.1 - y.1‖ ≤ dist x y := by rw [← dist_eq_norm]; exact (Prod.dist_eq (x := x) (y := y)) ▸ le_max_left _ _
  have h2 : ‖x.2 - y.2‖ ≤ dist x y := by rw [← dist_eq_norm]; exact (Prod.dist_eq (x := x) (y := y)) ▸ le_max_right _ _
  have key : ∀ u v : ℂ, ‖u‖ ≤ dist x y → ‖v‖ ≤ dist x y → ‖(σ z : ℂ) * u + (κ z : ℂ) * v‖ ≤ 2 * M * dist x y := by
    intro u v hu hv
    calc ‖(σ z : ℂ) * u + (κ z : ℂ) * v‖ ≤ ‖(σ z : ℂ) * u‖ + ‖(κ z : ℂ) * v‖ := norm_add_le _ _
      _ = |σ z| * ‖u‖ + |κ z| * ‖v‖ := by simp
      _ ≤ M * dist x y + M * dist x y := by
        apply add_le_add
        · exact mul_le_mul hσ hu (norm_nonneg _) hM
        · exact mul_le_mul hκ hv (norm_nonneg _) hM
      _ = 2 * M * dist x y := by ring
  rw [Prod.dist_eq]
  apply max_le
  · simp only [field, dist_eq_norm]
    have : I * ((σ z : ℂ) * x.1 + (κ z : ℂ) * x.2) - I * ((σ z : ℂ) * y.1 + (κ z : ℂ) * y.2)
        = I * ((σ z : ℂ) * (x.1 - y.1) + (κ z : ℂ) * (x.2 - y.2)) := by ring
    rw [this, norm_mul, norm_I, one_mul, ← dist_eq_norm]
    exact key _ _ h1 h2
  · simp only [field, dist_eq_norm]
    have : -I * ((σ z : ℂ) * x.2 + (κ z : ℂ) * x.1) - -I * ((σ z : ℂ) * y.2 + (κ z : ℂ) * y.1)
        = -I * ((σ z : ℂ) * (x.2 - y.2) + (κ z : ℂ) * (x.1 - y.1)) := by ring
    rw [this, norm_mul, norm_neg, norm_I, one_mul, ← dist_eq_norm]
    exact key _ _ h2 h1

/-- two solutions that agree at `b` agree on `[a, b]` (σ, κ bounded on the interval) -/
theorem unique {R' S' : ℝ → ℂ} (M : ℝ) (hσ : ∀ z ∈ Icc a b, |σ z| ≤ M) (hκ : ∀ z ∈ Icc a b, |κ z| ≤ M)
    (h1 : Solves σ κ a b R S) (h2 : Solves σ κ a b R' S') (hR : R b = R' b) (hS : S b = S' b) :
    ∀ z ∈ Icc a b, R z = R' z ∧ S z = S' z := by
  intro z hz
  have hab : a ≤ b := hz.1.trans hz.2
  have hM : 0 ≤ M := (abs_nonneg _).trans (hσ b ⟨hab, le_rfl⟩)
  have pair : ∀ {R S : ℝ → ℂ}, Solves σ κ a b R S → ∀ t ∈ Icc a b,
      HasDerivWithinAt (fun t => (R t, S t)) (field σ κ t (R t, S t)) (Icc a b) t := by
    intro R S h t ht
    exact (h.dR t ht).prodMk (h.dS t ht)
  have key := ODE_solution_unique_of_mem_Icc_left (v := field σ κ) (s := fun _ => univ) (K := Real.toNNReal (2 * M))
    (f := fun t => (R t, S t)) (g := fun t => (R' t, S' t)) (a := a) (b := b)
    (fun t ht => (field_lipschitz M hM t (hσ t ⟨ht.1.le, ht.2⟩) (hκ t ⟨ht.1.le, ht.2⟩)).lipschitzOnWith)
    (fun t ht => (pair h1 t ht).continuousWithinAt)
    (fun t ht => (pair h1 t ⟨ht.1.le, ht.2⟩).mono_of_mem_nhdsWithin (Icc_mem_nhdsLE_of_mem ht))
    (fun _ _ => mem_univ _)
    (fun t ht => (pair h2 t ht).continuousWithinAt)
    (fun t ht => (pair h2 t ⟨ht.1.le, ht.2⟩).mono_of_mem_nhdsWithin (Icc_mem_nhdsLE_of_mem ht))
    (fun _ _ => mem_univ _)
    (by simp [hR, hS])
  have := key hz
  simp only [Prod.mk.injEq] at this
  exact this

/-- at the Bragg frequency every solution with the code's boundary condition has
    |ρ(a)|² = tanh²(κ₀ (P(b) − P(a))) = tanh²(κ₀ ∫ₐᵇ p)  (p bounded on [a,b], e.g. continuous) -/
theorem bragg_reflectivity (κ0 B : ℝ) (p P : ℝ → ℝ)
    (hP : ∀ z ∈ Icc a b, HasDerivWithinAt P (p z) (Icc a b) z) (hp : ∀ z ∈ Icc a b, |p z| ≤ B) (hab : a ≤ b)
    (h : Solves (fun _ => 0) (fun z => κ0 * p z) a b R S) (hR : R b = 1) (hS : S b = 0) :
    S a / R a = I * (Real.tanh (κ0 * (P b - P a)) : ℂ) ∧
    ‖S a / R a‖ ^ 2 = Real.tanh (κ0 * (P b - P a)) ^ 2 := by
  have hB : 0 ≤ B := (abs_nonneg _).trans (hp b ⟨hab, le_rfl⟩)
  have hu := unique (|κ0| * B)
    (fun z _ => by simpa using mul_nonneg (abs_nonneg κ0) hB)
    (fun z hz => by rw [abs_mul]; exact mul_le_mul_of_nonneg_left (hp z hz) (abs_nonneg _))
    h (bragg_solution κ0 p P hP) (by simp [hR]) (by simp [hS]) a ⟨le_rfl, hab⟩
  have hc : ((Real.cosh (κ0 * (P b - P a)) : ℝ) : ℂ) ≠ 0 := by
    exact_mod_cast (Real.cosh_pos _).ne'
  have e : S a / R a = I * (Real.tanh (κ0 * (P b - P a)) : ℂ) := by
    rw [hu.1, hu.2, Real.tanh_eq_sinh_div_cosh]
    push_cast
    field_simp
  refine ⟨e, ?_⟩
  rw [e, norm_mul, norm_I, one_mul, Complex.norm_real, Real.norm_eq_abs, sq_abs]

end OptiVerif.FbgOde
