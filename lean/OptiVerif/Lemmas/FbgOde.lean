/-
The coupled-mode system of the FBG model, in ℂ (C16):

    R' = j(σ R + κ S),   S' = −j(σ S + κ R)      on [a, b],  σ, κ REAL functions of z.

* `conservation`     |R|² − |S|² is constant along every solution (lossless grating).
* `passive`          with R(b) = 1, S(b) = 0:  |R(z)|² = 1 + |S(z)|² ≥ 1 and |S(z)/R(z)| < 1 for every z ∈ [a,b].
* `bragg_solution`   σ ≡ 0, κ = κ₀ p:  R = cosh u, S = j sinh u, u(z) = κ₀ (P(b) − P(z)), P' = p, is a solution.
* `unique`           two solutions with the same value at b coincide on [a,b] (Gronwall), for bounded σ, κ.
* `bragg_reflectivity` hence EVERY solution with R(b)=1, S(b)=0 has |S(a)/R(a)|² = tanh²(κ₀ (P(b) − P(a))).
-/
import Mathlib.Analysis.InnerProductSpace.Calculus
import Mathlib.Analysis.Calculus.MeanValue
import Mathlib.Analysis.ODE.ExistUnique
import Mathlib.Analysis.SpecialFunctions.Trigonometric.DerivHyp
import Mathlib.Analysis.Complex.RealDeriv

namespace OptiVerif.FbgOde
open Set Complex

/-- `(R, S)` solves the coupled-mode system on `[a, b]` (one-sided derivatives at the ends) -/
structure Solves (σ κ : ℝ → ℝ) (a b : ℝ) (R S : ℝ → ℂ) : Prop where
  dR : ∀ z ∈ Icc a b, HasDerivWithinAt R (I * ((σ z : ℂ) * R z + (κ z : ℂ) * S z)) (Icc a b) z
  dS : ∀ z ∈ Icc a b, HasDerivWithinAt S (-I * ((σ z : ℂ) * S z + (κ z : ℂ) * R z)) (Icc a b) z

theorem inner_rhs_cancel (σ κ : ℝ) (r s : ℂ) :
    2 * inner ℝ r (I * ((σ : ℂ) * r + (κ : ℂ) * s)) - 2 * inner ℝ s (-I * ((σ : ℂ) * s + (κ : ℂ) * r)) = 0 := by
  simp only [Complex.inner, mul_re, mul_im, add_re, add_im, I_re, I_im, ofReal_re, ofReal_im, conj_re, conj_im,
    neg_re, neg_im]
  ring

variable {σ κ : ℝ → ℝ} {a b : ℝ} {R S : ℝ → ℂ}

/-- |R|² − |S|² is conserved -/
theorem conservation (h : Solves σ κ a b R S) :
    ∀ z ∈ Icc a b, ‖R z‖ ^ 2 - ‖S z‖ ^ 2 = ‖R a‖ ^ 2 - ‖S a‖ ^ 2 := by
  have hd : ∀ z ∈ Icc a b, HasDerivWithinAt (fun z => ‖R z‖ ^ 2 - ‖S z‖ ^ 2) 0 (Icc a b) z := by
    intro z hz
    have := (h.dR z hz).norm_sq.sub (h.dS z hz).norm_sq
    rwa [inner_rhs_cancel] at this
  apply constant_of_has_deriv_right_zero
  · intro z hz
    exact (hd z hz).continuousWithinAt
  · intro z hz
    exact (hd z ⟨hz.1, hz.2.le⟩).mono_of_mem_nhdsWithin (Icc_mem_nhdsGE_of_mem hz)

theorem conservation' (h : Solves σ κ a b R S) (hab : a ≤ b) :
    ∀ z ∈ Icc a b, ‖R z‖ ^ 2 - ‖S z‖ ^ 2 = ‖R b‖ ^ 2 - ‖S b‖ ^ 2 := by
  intro z hz
  rw [conservation h z hz, conservation h b ⟨hab, le_rfl⟩]

/-- with the boundary condition of the code, R(b) = 1 and S(b) = 0:  |R|² = 1 + |S|² -/
theorem normSq_R (h : Solves σ κ a b R S) (hab : a ≤ b) (hR : R b = 1) (hS : S b = 0) :
    ∀ z ∈ Icc a b, ‖R z‖ ^ 2 = 1 + ‖S z‖ ^ 2 := by
  intro z hz
  have := conservation' h hab z hz
  rw [hR, hS] at this
  simp at this
  linarith

theorem R_ne_zero (h : Solves σ κ a b R S) (hab : a ≤ b) (hR : R b = 1) (hS : S b = 0) :
    ∀ z ∈ Icc a b, R z ≠ 0 := by
  intro z hz h0
  have := normSq_R h hab hR hS z hz
  rw [h0] at this
  simp at this
  nlinarith [sq_nonneg ‖S z‖]

/-- passivity of every exact solution: the reflection coefficient has modulus < 1 everywhere -/
theorem passive (h : Solves σ κ a b R S) (hab : a ≤ b) (hR : R b = 1) (hS : S b = 0) :
    ∀ z ∈ Icc a b, ‖S z / R z‖ < 1 := by
  intro z hz
  have hn := normSq_R h hab hR hS z hz
  have h0 : 0 < ‖R z‖ := norm_pos_iff.mpr (R_ne_zero h hab hR hS z hz)
  rw [norm_div, div_lt_one h0]
  nlinarith [norm_nonneg (S z), norm_nonneg (R z)]

/-- |ρ|² = |S|² / (1 + |S|²) -/
theorem reflectivity_eq (h : Solves σ κ a b R S) (hab : a ≤ b) (hR : R b = 1) (hS : S b = 0) :
    ∀ z ∈ Icc a b, ‖S z / R z‖ ^ 2 = ‖S z‖ ^ 2 / (1 + ‖S z‖ ^ 2) := by
  intro z hz
  rw [norm_div, div_pow, normSq_R h hab hR hS z hz]

/-! ### the Bragg frequency: σ ≡ 0, κ = κ₀ p -/

/-- R = cosh u, S = j sinh u with u(z) = κ₀ (P(b) − P(z)), P' = p -/
theorem bragg_solution (κ0 : ℝ) (p P : ℝ → ℝ)
    (hP : ∀ z ∈ Icc a b, HasDerivWithinAt P (p z) (Icc a b) z) :
    Solves (fun _ => 0) (fun z => κ0 * p z) a b
      (fun z => ((Real.cosh (κ0 * (P b - P z)) : ℝ) : ℂ))
      (fun z => I * ((Real.sinh (κ0 * (P b - P z)) : ℝ) : ℂ)) := by
  have hu : ∀ z ∈ Icc a b, HasDerivWithinAt (fun z => κ0 * (P b - P z)) (κ0 * (0 - p z)) (Icc a b) z := by
    intro z hz
    exact ((hasDerivWithinAt_const z _ (P b)).sub (hP z hz)).const_mul κ0
  constructor
  · intro z hz
    have := (hu z hz).cosh.ofReal_comp
    refine this.congr_deriv ?_
    push_cast
    linear_combination (-1 : ℂ) * ((κ0 : ℂ) * (p z : ℂ) * Complex.sinh ((κ0 : ℂ) * ((P b : ℂ) - (P z : ℂ)))) * I_mul_I
  · intro z hz
    have := ((hu z hz).sinh.ofReal_comp).const_mul I
    exact this.congr_deriv (by push_cast; ring)

/-! ### uniqueness (Gronwall) -/

/-- the right-hand side as a vector field on ℂ × ℂ -/
noncomputable def field (σ κ : ℝ → ℝ) (z : ℝ) (x : ℂ × ℂ) : ℂ × ℂ :=
  (I * ((σ z : ℂ) * x.1 + (κ z : ℂ) * x.2), -I * ((σ z : ℂ) * x.2 + (κ z : ℂ) * x.1))

theorem field_lipschitz (M : ℝ) (hM : 0 ≤ M) (z : ℝ) (hσ : |σ z| ≤ M) (hκ : |κ z| ≤ M) :
    LipschitzWith (Real.toNNReal (2 * M)) (field σ κ z) := by
  apply LipschitzWith.of_dist_le_mul
  intro x y
  rw [Real.coe_toNNReal _ (by linarith)]
  have h1 : ‖x.1 - y.1‖ ≤ dist x y := by rw [← dist_eq_norm]; exact (Prod.dist_eq (x := x) (y := y)) ▸ le_max_left _ _
  have h2 : ‖x.2 - y.2‖ ≤ dist x y := by rw [← dist_eq_norm]; exact (Prod.dist_eq (x := x) (y := y)) ▸ le_max_right _ _
  have key : ∀ u v : ℂ, ‖u‖ ≤ dist x y → ‖v‖ ≤ dist x y → ‖(σ z : ℂ) * u + (κ z : ℂ) * v‖ ≤ 2 * M * dist x y := by
    intro u v hu hv
    calc ‖(σ z : ℂ) * u + (κ z : ℂ) * v‖ ≤ ‖(σ z : ℂ) * u‖ + ‖(κ z : ℂ) * v‖ := norm_add_le _ _
      _ = |σ z| * ‖u‖ + |κ z| * ‖v‖ := by simp
      _ ≤ M * dist x y + M * dist x y := by
        apply add_le_add
        · exact mul_le_mul hσ hu (norm_nonneg _) hM
        · exact mul_le_mul hκ hv (norm_nonneg _) hM
      _ = 2 * M * dist x y := by ring
  rw [Prod.dist_eq]
  apply max_le
  · simp only [field, dist_eq_norm]
    have : I * ((σ z : ℂ) * x.1 + (κ z : ℂ) * x.2) - I * ((σ z : ℂ) * y.1 + (κ z : ℂ) * y.2)
        = I * ((σ z : ℂ) * (x.1 - y.1) + (κ z : ℂ) * (x.2 - y.2)) := by ring
    rw [this, norm_mul, norm_I, one_mul, ← dist_eq_norm]
    exact key _ _ h1 h2
  · simp only [field, dist_eq_norm]
    have : -I * ((σ z : ℂ) * x.2 + (κ z : ℂ) * x.1) - -I * ((σ z : ℂ) * y.2 + (κ z : ℂ) * y.1)
        = -I * ((σ z : ℂ) * (x.2 - y.2) + (κ z : ℂ) * (x.1 - y.1)) := by ring
    rw [this, norm_mul, norm_neg, norm_I, one_mul, ← dist_eq_norm]
    exact key _ _ h2 h1

/-- two solutions that agree at `b` agree on `[a, b]` (σ, κ bounded on the interval) -/
theorem unique {R' S' : ℝ → ℂ} (M : ℝ) (hσ : ∀ z ∈ Icc a b, |σ z| ≤ M) (hκ : ∀ z ∈ Icc a b, |κ z| ≤ M)
    (h1 : Solves σ κ a b R S) (h2 : Solves σ κ a b R' S') (hR : R b = R' b) (hS : S b = S' b) :
    ∀ z ∈ Icc a b, R z = R' z ∧ S z = S' z := by
  intro z hz
  have hab : a ≤ b := hz.1.trans hz.2
  have hM : 0 ≤ M := (abs_nonneg _).trans (hσ b ⟨hab, le_rfl⟩)
  have pair : ∀ {R S : ℝ → ℂ}, Solves σ κ a b R S → ∀ t ∈ Icc a b,
      HasDerivWithinAt (fun t => (R t, S t)) (field σ κ t (R t, S t)) (Icc a b) t := by
    intro R S h t ht
    exact (h.dR t ht).prodMk (h.dS t ht)
  have key := ODE_solution_unique_of_mem_Icc_left (v := field σ κ) (s := fun _ => univ) (K := Real.toNNReal (2 * M))
    (f := fun t => (R t, S t)) (g := fun t => (R' t, S' t)) (a := a) (b := b)
    (fun t ht => (field_lipschitz M hM t (hσ t ⟨ht.1.le, ht.2⟩) (hκ t ⟨ht.1.le, ht.2⟩)).lipschitzOnWith)
    (fun t ht => (pair h1 t ht).continuousWithinAt)
    (fun t ht => (pair h1 t ⟨ht.1.le, ht.2⟩).mono_of_mem_nhdsWithin (Icc_mem_nhdsLE_of_mem ht))
    (fun _ _ => mem_univ _)
    (fun t ht => (pair h2 t ht).continuousWithinAt)
    (fun t ht => (pair h2 t ⟨ht.1.le, ht.2⟩).mono_of_mem_nhdsWithin (Icc_mem_nhdsLE_of_mem ht))
    (fun _ _ => mem_univ _)
    (by simp [hR, hS])
  have := key hz
  simp only [Prod.mk.injEq] at this
  exact this

/-- at the Bragg frequency every solution with the code's boundary condition has
    |ρ(a)|² = tanh²(κ₀ (P(b) − P(a))) = tanh²(κ₀ ∫ₐᵇ p)  (p bounded on [a,b], e.g. continuous) -/
theorem bragg_reflectivity (κ0 B : ℝ) (p P : ℝ → ℝ)
    (hP : ∀ z ∈ Icc a b, HasDerivWithinAt P (p z) (Icc a b) z) (hp : ∀ z ∈ Icc a b, |p z| ≤ B) (hab : a ≤ b)
    (h : Solves (fun _ => 0) (fun z => κ0 * p z) a b R S) (hR : R b = 1) (hS : S b = 0) :
    S a / R a = I * (Real.tanh (κ0 * (P b - P a)) : ℂ) ∧
    ‖S a / R a‖ ^ 2 = Real.tanh (κ0 * (P b - P a)) ^ 2 := by
  have hB : 0 ≤ B := (abs_nonneg _).trans (hp b ⟨hab, le_rfl⟩)
  have hu := unique (|κ0| * B)
    (fun z _ => by simpa using mul_nonneg (abs_nonneg κ0) hB)
    (fun z hz => by rw [abs_mul]; exact mul_le_mul_of_nonneg_left (hp z hz) (abs_nonneg _))
    h (bragg_solution κ0 p P hP) (by simp [hR]) (by simp [hS]) a ⟨le_rfl, hab⟩
  have hc : ((Real.cosh (κ0 * (P b - P a)) : ℝ) : ℂ) ≠ 0 := by
    exact_mod_cast (Real.cosh_pos _).ne'
  have e : S a / R a = I * (Real.tanh (κ0 * (P b - P a)) : ℂ) := by
    rw [hu.1, hu.2, Real.tanh_eq_sinh_div_cosh]
    push_cast
    field_simp
  refine ⟨e, ?_⟩
  rw [e, norm_mul, norm_I, one_mul, Complex.norm_real, Real.norm_eq_abs, sq_abs]

/-! ### the uniform grating: constant σ ≡ d (detuning), κ ≡ k -/

/-- stop-band shape: with d = c₁g, k = c₂g, c₂² − c₁² = 1:
    R = cosh(g(b−z)) − j c₁ sinh(g(b−z)), S = j c₂ sinh(g(b−z)) solve the system -/
theorem uniform_hyp_solution (g c1 c2 : ℝ) (hcc : c2 * c2 - c1 * c1 = 1) :
    Solves (fun _ => c1 * g) (fun _ => c2 * g) a b
      (fun z => ((Real.cosh (g * (b - z)) : ℝ) : ℂ) - I * ((c1 * Real.sinh (g * (b - z)) : ℝ) : ℂ))
      (fun z => I * ((c2 * Real.sinh (g * (b - z)) : ℝ) : ℂ)) := by
  have hu : ∀ z, HasDerivWithinAt (fun z => g * (b - z)) (g * (0 - 1)) (Icc a b) z := by
    intro z
    exact ((hasDerivWithinAt_const z _ b).sub (hasDerivWithinAt_id z _)).const_mul g
  have hccC : (c2 : ℂ) * c2 - c1 * c1 = 1 := by exact_mod_cast hcc
  constructor
  · intro z _
    have := ((hu z).cosh.ofReal_comp).sub ((((hu z).sinh.const_mul c1).ofReal_comp).const_mul I)
    refine this.congr_deriv ?_
    push_cast
    linear_combination ((g : ℂ) * Complex.sinh ((g : ℂ) * ((b : ℂ) - (z : ℂ))) * ((c1 : ℂ) * c1 - c2 * c2)) * I_mul_I
      + ((g : ℂ) * Complex.sinh ((g : ℂ) * ((b : ℂ) - (z : ℂ)))) * hccC
  · intro z _
    have := (((hu z).sinh.const_mul c2).ofReal_comp).const_mul I
    refine this.congr_deriv ?_
    push_cast
    ring

/-- pass-band shape: with d = c₁q, k = c₂q, c₁² − c₂² = 1:
    R = cos(q(b−z)) − j c₁ sin(q(b−z)), S = j c₂ sin(q(b−z)) solve the system -/
theorem uniform_trig_solution (q c1 c2 : ℝ) (hcc : c1 * c1 - c2 * c2 = 1) :
    Solves (fun _ => c1 * q) (fun _ => c2 * q) a b
      (fun z => ((Real.cos (q * (b - z)) : ℝ) : ℂ) - I * ((c1 * Real.sin (q * (b - z)) : ℝ) : ℂ))
      (fun z => I * ((c2 * Real.sin (q * (b - z)) : ℝ) : ℂ)) := by
  have hu : ∀ z, HasDerivWithinAt (fun z => q * (b - z)) (q * (0 - 1)) (Icc a b) z := by
    intro z
    exact ((hasDerivWithinAt_const z _ b).sub (hasDerivWithinAt_id z _)).const_mul q
  have hccC : (c1 : ℂ) * c1 - c2 * c2 = 1 := by exact_mod_cast hcc
  constructor
  · intro z _
    have := ((hu z).cos.ofReal_comp).sub ((((hu z).sin.const_mul c1).ofReal_comp).const_mul I)
    refine this.congr_deriv ?_
    push_cast
    linear_combination ((q : ℂ) * Complex.sin ((q : ℂ) * ((b : ℂ) - (z : ℂ))) * ((c1 : ℂ) * c1 - c2 * c2)) * I_mul_I
      - ((q : ℂ) * Complex.sin ((q : ℂ) * ((b : ℂ) - (z : ℂ)))) * hccC
  · intro z _
    have := (((hu z).sin.const_mul c2).ofReal_comp).const_mul I
    refine this.congr_deriv ?_
    push_cast
    ring

/-- band edge d² = k²: R = 1 − j d (b−z), S = j k (b−z) -/
theorem uniform_edge_solution (d k : ℝ) (hdk : d * d = k * k) :
    Solves (fun _ => d) (fun _ => k) a b
      (fun z => (1 : ℂ) - I * ((d * (b - z) : ℝ) : ℂ)) (fun z => I * ((k * (b - z) : ℝ) : ℂ)) := by
  have hu : ∀ (c : ℝ) z, HasDerivWithinAt (fun z => c * (b - z)) (c * (0 - 1)) (Icc a b) z := by
    intro c z
    exact ((hasDerivWithinAt_const z _ b).sub (hasDerivWithinAt_id z _)).const_mul c
  have hC : (d : ℂ) * d = k * k := by exact_mod_cast hdk
  constructor
  · intro z _
    have := (hasDerivWithinAt_const z (Icc a b) (1 : ℂ)).sub (((hu d z).ofReal_comp).const_mul I)
    refine this.congr_deriv ?_
    push_cast
    linear_combination (I * I * ((b : ℂ) - z)) * hC
  · intro z _
    have := ((hu k z).ofReal_comp).const_mul I
    refine this.congr_deriv ?_
    push_cast
    ring

theorem normSq_sub_I_mul (x y : ℝ) : ‖(x : ℂ) - I * (y : ℂ)‖ ^ 2 = x ^ 2 + y ^ 2 := by
  rw [Complex.sq_norm, normSq_apply]
  simp
  ring

theorem normSq_I_mul (y : ℝ) : ‖I * (y : ℂ)‖ ^ 2 = y ^ 2 := by
  rw [norm_mul, norm_I, one_mul, Complex.norm_real, Real.norm_eq_abs, sq_abs]

private theorem bound_const (d k : ℝ) : (∀ z ∈ Icc a b, |(fun _ : ℝ => d) z| ≤ |d| + |k|) ∧
    (∀ z ∈ Icc a b, |(fun _ : ℝ => k) z| ≤ |d| + |k|) :=
  ⟨fun _ _ => le_add_of_nonneg_right (abs_nonneg k), fun _ _ => le_add_of_nonneg_left (abs_nonneg d)⟩

/-- inside the stop band |d| < k, g = √(k² − d²): every solution with R(b)=1, S(b)=0 has
    |ρ(a)|² = sinh²(gℓ)/(cosh²(gℓ) − d²/k²), ℓ = b − a -/
theorem uniform_stopband (d k : ℝ) (hdk : |d| < k) (hab : a ≤ b)
    (h : Solves (fun _ => d) (fun _ => k) a b R S) (hR : R b = 1) (hS : S b = 0) :
    ‖S a / R a‖ ^ 2 = Real.sinh (Real.sqrt (k ^ 2 - d ^ 2) * (b - a)) ^ 2
      / (Real.cosh (Real.sqrt (k ^ 2 - d ^ 2) * (b - a)) ^ 2 - d ^ 2 / k ^ 2) := by
  have hk : 0 < k := (abs_nonneg d).trans_lt hdk
  have hpos : 0 < k ^ 2 - d ^ 2 := by
    have := abs_lt.mp hdk; nlinarith
  set g := Real.sqrt (k ^ 2 - d ^ 2) with hg
  have hg0 : 0 < g := Real.sqrt_pos.mpr hpos
  have hg2 : g * g = k ^ 2 - d ^ 2 := Real.mul_self_sqrt hpos.le
  have hcc : k / g * (k / g) - d / g * (d / g) = 1 := by
    field_simp; nlinarith
  have hsol := uniform_hyp_solution (a := a) (b := b) g (d / g) (k / g) hcc
  have e1 : d / g * g = d := by field_simp
  have e2 : k / g * g = k := by field_simp
  rw [e1, e2] at hsol
  obtain ⟨hb1, hb2⟩ := bound_const (a := a) (b := b) d k
  have hu := unique (|d| + |k|) hb1 hb2 h hsol (by simp [hR]) (by simp [hS]) a ⟨le_rfl, hab⟩
  rw [hu.1, hu.2, norm_div, div_pow]
  push_cast
  have := normSq_sub_I_mul (Real.cosh (g * (b - a))) (d / g * Real.sinh (g * (b - a)))
  have hn := normSq_I_mul (k / g * Real.sinh (g * (b - a)))
  push_cast at this hn
  rw [this, hn]
  have hch := Real.cosh_sq (g * (b - a))
  have hden : Real.cosh (g * (b - a)) ^ 2 - d ^ 2 / k ^ 2 ≠ 0 := by
    have : d ^ 2 / k ^ 2 < 1 := by rw [div_lt_one (by positivity)]; nlinarith
    have : 1 ≤ Real.cosh (g * (b - a)) ^ 2 := by nlinarith [Real.one_le_cosh (g * (b - a))]
    intro h0; linarith
  have hden2 : Real.cosh (g * (b - a)) ^ 2 + (d / g * Real.sinh (g * (b - a))) ^ 2 ≠ 0 := by
    have : 1 ≤ Real.cosh (g * (b - a)) ^ 2 := by nlinarith [Real.one_le_cosh (g * (b - a))]
    intro h0; nlinarith [sq_nonneg (d / g * Real.sinh (g * (b - a)))]
  rw [div_eq_div_iff hden2 hden]
  field_simp
  rw [hch]
  have hg2' : g ^ 2 = k ^ 2 - d ^ 2 := by rw [sq]; exact hg2
  linear_combination (-(Real.sinh (g * (b - a)) ^ 2 * (Real.sinh (g * (b - a)) ^ 2 + 1))) * hg2'

/-- outside the stop band |d| > k > 0, q = √(d² − k²): |ρ(a)|² = sin²(qℓ)/(d²/k² − cos²(qℓ)) -/
theorem uniform_passband (d k : ℝ) (hk : 0 < k) (hdk : k < |d|) (hab : a ≤ b)
    (h : Solves (fun _ => d) (fun _ => k) a b R S) (hR : R b = 1) (hS : S b = 0) :
    ‖S a / R a‖ ^ 2 = Real.sin (Real.sqrt (d ^ 2 - k ^ 2) * (b - a)) ^ 2
      / (d ^ 2 / k ^ 2 - Real.cos (Real.sqrt (d ^ 2 - k ^ 2) * (b - a)) ^ 2) := by
  have hpos : 0 < d ^ 2 - k ^ 2 := by
    have : k ^ 2 < |d| ^ 2 := by nlinarith
    rw [sq_abs] at this; linarith
  set q := Real.sqrt (d ^ 2 - k ^ 2) with hq
  have hq0 : 0 < q := Real.sqrt_pos.mpr hpos
  have hq2 : q * q = d ^ 2 - k ^ 2 := Real.mul_self_sqrt hpos.le
  have hcc : d / q * (d / q) - k / q * (k / q) = 1 := by
    field_simp; nlinarith
  have hsol := uniform_trig_solution (a := a) (b := b) q (d / q) (k / q) hcc
  have e1 : d / q * q = d := by field_simp
  have e2 : k / q * q = k := by field_simp
  rw [e1, e2] at hsol
  obtain ⟨hb1, hb2⟩ := bound_const (a := a) (b := b) d k
  have hu := unique (|d| + |k|) hb1 hb2 h hsol (by simp [hR]) (by simp [hS]) a ⟨le_rfl, hab⟩
  rw [hu.1, hu.2, norm_div, div_pow]
  push_cast
  have := normSq_sub_I_mul (Real.cos (q * (b - a))) (d / q * Real.sin (q * (b - a)))
  have hn := normSq_I_mul (k / q * Real.sin (q * (b - a)))
  push_cast at this hn
  rw [this, hn]
  have hcs := Real.sin_sq_add_cos_sq (q * (b - a))
  have hden : d ^ 2 / k ^ 2 - Real.cos (q * (b - a)) ^ 2 ≠ 0 := by
    have : 1 < d ^ 2 / k ^ 2 := by rw [one_lt_div (by positivity)]; linarith
    have : Real.cos (q * (b - a)) ^ 2 ≤ 1 := by nlinarith [sq_nonneg (Real.sin (q * (b - a)))]
    intro h0; linarith
  have hden2 : Real.cos (q * (b - a)) ^ 2 + (d / q * Real.sin (q * (b - a))) ^ 2 ≠ 0 := by
    have hc1 : 1 ≤ (d / q) ^ 2 := by nlinarith [mul_self_nonneg (k / q)]
    have : Real.sin (q * (b - a)) ^ 2 ≤ (d / q * Real.sin (q * (b - a))) ^ 2 := by
      rw [mul_pow]; nlinarith [sq_nonneg (Real.sin (q * (b - a)))]
    intro h0; linarith
  rw [div_eq_div_iff hden2 hden]
  field_simp
  have hq2' : q ^ 2 = d ^ 2 - k ^ 2 := by rw [sq]; exact hq2
  linear_combination (-(Real.sin (q * (b - a)) ^ 2 * d ^ 2)) * hcs
    + (-(Real.sin (q * (b - a)) ^ 2 * Real.cos (q * (b - a)) ^ 2)) * hq2'

/-- at the band edge d² = k²: |ρ(a)|² = k²ℓ²/(1 + k²ℓ²) -/
theorem uniform_edge (d k : ℝ) (hdk : d * d = k * k) (hab : a ≤ b)
    (h : Solves (fun _ => d) (fun _ => k) a b R S) (hR : R b = 1) (hS : S b = 0) :
    ‖S a / R a‖ ^ 2 = (k * (b - a)) ^ 2 / (1 + (k * (b - a)) ^ 2) := by
  have hsol := uniform_edge_solution (a := a) (b := b) d k hdk
  obtain ⟨hb1, hb2⟩ := bound_const (a := a) (b := b) d k
  have hu := unique (|d| + |k|) hb1 hb2 h hsol (by simp [hR]) (by simp [hS]) a ⟨le_rfl, hab⟩
  rw [hu.1, hu.2, norm_div, div_pow]
  have := normSq_sub_I_mul 1 (d * (b - a))
  have hn := normSq_I_mul (k * (b - a))
  push_cast at this hn ⊢
  rw [this, hn]
  congr 1
  linear_combination ((b - a) ^ 2) * hdk

end OptiVerif.FbgOde
