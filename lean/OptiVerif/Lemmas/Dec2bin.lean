/-
Lemmas about the model of `dec2bin` (Model/Dec2bin.lean): the loop writes the big-endian expansion.
-/
import OptiVerif.Model.Dec2bin
import Mathlib.Tactic.Ring
import Mathlib.Tactic.Linarith
import Mathlib.Data.List.Induction

namespace OptiVerif.Dec2bin

/-- `m`-digit big-endian binary expansion of `n` (its low `m` bits) -/
def bitsBE : Nat → Nat → List Nat
  | 0, _ => []
  | m+1, n => bitsBE m (n / 2) ++ [n % 2]

/-- value of a big-endian digit string: Horner form of `Σ bᵢ 2^(d-1-i)` -/
def valBE (bits : List Nat) : Nat := bits.foldl (fun acc b => 2 * acc + b) 0

/-- the weighted sum `Σ_{i<len} bᵢ 2^(len-1-i)` -/
def weightedSum (bits : List Nat) : Nat :=
  ((List.range bits.length).map (fun i => bits.getD i 0 * 2 ^ (bits.length - 1 - i))).sum

@[simp] theorem bitsBE_length (m n : Nat) : (bitsBE m n).length = m := by
  induction m generalizing n with
  | zero => rfl
  | succ m ih => simp [bitsBE, ih]

theorem bitsBE_zero (m : Nat) : bitsBE m 0 = List.replicate m 0 := by
  induction m with
  | zero => rfl
  | succ m ih => simp [bitsBE, ih, List.replicate_succ']

theorem valBE_append (a : List Nat) (b : Nat) : valBE (a ++ [b]) = 2 * valBE a + b := by
  simp [valBE, List.foldl_append]

theorem valBE_bitsBE (m n : Nat) : valBE (bitsBE m n) = n % 2 ^ m := by
  induction m generalizing n with
  | zero => simp [bitsBE, valBE, Nat.mod_one]
  | succ m ih =>
    rw [bitsBE, valBE_append, ih, Nat.pow_succ, Nat.mul_comm (2 ^ m) 2, Nat.mod_mul]
    omega

theorem sum_map_two_mul (l : List Nat) (f : Nat → Nat) : (l.map (fun i => 2 * f i)).sum = 2 * (l.map f).sum := by
  induction l with
  | nil => rfl
  | cons x xs ih => simp only [List.map_cons, List.sum_cons, ih]; ring

theorem weightedSum_append (a : List Nat) (b : Nat) : weightedSum (a ++ [b]) = 2 * weightedSum a + b := by
  unfold weightedSum
  rw [List.length_append, List.length_singleton, List.range_succ, List.map_append, List.sum_append]
  simp only [List.map_cons, List.map_nil, List.sum_cons, List.sum_nil, Nat.add_zero]
  have h1 : (a ++ [b]).getD a.length 0 = b := by simp
  have h2 : a.length + 1 - 1 - a.length = 0 := by omega
  rw [h1, h2, Nat.pow_zero, Nat.mul_one, ← sum_map_two_mul]
  congr 1
  apply congrArg
  apply List.map_congr_left
  intro i hi
  have hi' : i < a.length := List.mem_range.mp hi
  have h3 : (a ++ [b]).getD i 0 = a.getD i 0 := by
    simp [List.getD_eq_getElem?_getD, List.getElem?_append_left hi']
  have h4 : a.length + 1 - 1 - i = (a.length - 1 - i) + 1 := by omega
  rw [h3, h4, Nat.pow_succ]
  ring

theorem valBE_eq_weightedSum (bits : List Nat) : valBE bits = weightedSum bits := by
  induction bits using List.reverseRecOn with
  | nil => rfl
  | append_singleton a b ih => rw [valBE_append, weightedSum_append, ih]

/-- digit `i` of the expansion is bit `m-1-i` of `n` -/
theorem bitsBE_getElem (m n i : Nat) (h : i < m) :
    (bitsBE m n)[i]'(by simpa using h) = (n / 2 ^ (m - 1 - i)) % 2 := by
  induction m generalizing n with
  | zero => omega
  | succ m ih =>
    simp only [bitsBE]
    by_cases hi : i < m
    · rw [List.getElem_append_left (by simpa using hi), ih (n / 2) hi, Nat.div_div_eq_div_mul]
      have : m + 1 - 1 - i = (m - 1 - i) + 1 := by omega
      rw [this, Nat.pow_succ, Nat.mul_comm]
    · have him : i = m := by omega
      subst him
      simp

/-- the loop of the code, started with `m` zeros in front of an already written suffix -/
theorem loop_spec (m : Nat) : ∀ (f num : Nat) (suf : List Nat), m ≤ f → num < 2 ^ m →
    loop f num ((m : Int) - 1) (List.replicate m 0 ++ suf) = bitsBE m num ++ suf := by
  induction m with
  | zero =>
    intro f num suf _ hnum
    have : num = 0 := by simpa using hnum
    subst this
    cases f <;> simp [loop, bitsBE]
  | succ m ih =>
    intro f num suf hf hnum
    obtain ⟨f, rfl⟩ : ∃ g, f = g + 1 := ⟨f - 1, by omega⟩
    unfold loop
    by_cases h0 : num = 0
    · subst h0
      simp [bitsBE_zero]
    · have hpos : num > 0 := Nat.pos_of_ne_zero h0
      have hi : ((m + 1 : Nat) : Int) - 1 ≥ 0 := by omega
      rw [if_pos ⟨hpos, hi⟩]
      have e1 : ((m + 1 : Nat) : Int) - 1 - 1 = (m : Int) - 1 := by omega
      have e2 : (((m + 1 : Nat) : Int) - 1).toNat = m := by omega
      rw [e1, e2]
      have e3 : (List.replicate (m + 1) 0 ++ suf).set m (num % 2) = List.replicate m 0 ++ (num % 2 :: suf) := by
        rw [List.replicate_succ', List.append_assoc, List.set_append_right _ _ (by simp)]
        simp
      rw [e3, ih f (num / 2) (num % 2 :: suf) (by omega)
        (by rw [Nat.pow_succ] at hnum; omega)]
      simp [bitsBE]

theorem dec2binFuel_eq (fuel : Nat) (v : Int) (d : Nat) :
    dec2binFuel fuel v (d : Int) =
      if v > 2 ^ d - 1 then .error .ValueError
      else .ok (loop fuel v.toNat ((d : Int) - 1) (List.replicate d 0)) := by
  unfold dec2binFuel
  have h1 : ¬ ((d : Int) < 0) := by omega
  rw [if_neg h1]
  simp only [Int.toNat_natCast]

end OptiVerif.Dec2bin
