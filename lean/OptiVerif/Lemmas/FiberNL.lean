/-
Lemmas for the nonlinear FIBER model (C08): energy of one split step, of any schedule, loop invariants.
-/
import OptiVerif.Model.FiberNL
import OptiVerif.Lemmas.Fiber

namespace OptiVerif

open Classical in
/-- comparisons on ℝ (classical) -/
noncomputable instance : Cmp ℝ := ⟨fun a b => decide (a < b), fun a => decide (a = 0)⟩

@[simp] theorem Cmp.lt_real (a b : ℝ) : (Cmp.lt a b = true) ↔ a < b := by simp [Cmp.lt]
@[simp] theorem Cmp.eqz_real (a : ℝ) : (Cmp.eqz a = true) ↔ a = 0 := by simp [Cmp.eqz]
@[simp] theorem Cmp.lt_real_false (a b : ℝ) : (Cmp.lt a b = false) ↔ ¬ a < b := by simp [Cmp.lt]
@[simp] theorem Cmp.eqz_real_false (a : ℝ) : (Cmp.eqz a = false) ↔ a ≠ 0 := by simp [Cmp.eqz]

namespace FiberNL
open OptiVerif.Fourier OptiVerif.Fiber

/-! ### one step -/

theorem normSq_nlMul (gamma h : ℝ) (x a : Cx ℝ) : (nlMul gamma h x a).normSq = a.normSq := by
  simp [nlMul, Cx.normSq_mul, Cx.normSq_cis]

theorem sumSq_map_nlMul (gamma h : ℝ) (xs : List (Cx ℝ)) :
    sumSq (xs.map (fun x => nlMul gamma h x x)) = sumSq xs := by
  induction xs with
  | nil => rfl
  | cons x xs ih => simp [sumSq, ih, normSq_nlMul]

theorem sumSq_zipWith_nlMul (gamma h : ℝ) (xs zs : List (Cx ℝ)) (hlen : xs.length = zs.length) :
    sumSq (List.zipWith (fun x zk => nlMul gamma h x zk) xs zs) = sumSq zs := by
  induction xs generalizing zs with
  | nil =>
    cases zs with
    | nil => rfl
    | cons z zs => simp at hlen
  | cons x xs ih =>
    cases zs with
    | nil => simp at hlen
    | cons z zs =>
      simp only [List.length_cons, Nat.add_right_cancel_iff] at hlen
      simp [sumSq, ih zs hlen, normSq_nlMul]

theorem fiberH_normSq (wConv : ℝ) (w : List ℝ) (alphaP b2 b3 h : ℝ) :
    ∀ g ∈ fiberH wConv w alphaP b2 b3 h, g.normSq = Real.exp (-alphaP * h) := by
  intro g hg
  simp only [fiberH, List.mem_map] at hg
  obtain ⟨wk, _, rfl⟩ := hg
  rw [Cx.normSq_exp]
  congr 1
  simp only [Nat.cast_ofNat]
  ring

theorem length_stepRow (wConv fs alphaP b2 b3 gamma : ℝ) (xs : List (Cx ℝ)) (h : ℝ) :
    (stepRow wConv fs alphaP b2 b3 gamma xs h).length = xs.length := by
  simp only [stepRow, List.length_zipWith]
  rw [length_applyH _ _ (by simp [fiberH, length_wAxis])]
  simp

/-- **energy of one symmetric split step**: exactly exp(-alpha' h) times the energy before, whatever the
    nonlinear phases and the dispersion are -/
theorem sumSq_stepRow (wConv fs alphaP b2 b3 gamma : ℝ) (xs : List (Cx ℝ)) (h : ℝ) :
    sumSq (stepRow wConv fs alphaP b2 b3 gamma xs h) = Real.exp (-alphaP * h) * sumSq xs := by
  simp only [stepRow]
  rw [sumSq_zipWith_nlMul]
  · rw [sumSq_applyH (Real.exp (-alphaP * h)) _ _ (by simp [fiberH, length_wAxis]) (fiberH_normSq _ _ _ _ _ _),
      sumSq_map_nlMul]
  · rw [length_applyH _ _ (by simp [fiberH, length_wAxis])]
    simp

/-! ### any schedule -/

/-- energies of all rows -/
def energies (A : Rows ℝ) : List ℝ := A.map sumSq

theorem energies_step (wConv fs alphaP b2 b3 gamma : ℝ) (A : Rows ℝ) (h : ℝ) :
    energies (step wConv fs alphaP b2 b3 gamma A h) = (energies A).map (fun e => Real.exp (-alphaP * h) * e) := by
  simp [energies, step, List.map_map, Function.comp_def, sumSq_stepRow]

theorem energies_fold (wConv fs alphaP b2 b3 gamma : ℝ) (hs : List ℝ) (A : Rows ℝ) :
    energies (hs.foldl (step wConv fs alphaP b2 b3 gamma) A)
      = (energies A).map (fun e => Real.exp (-alphaP * hs.sum) * e) := by
  induction hs generalizing A with
  | nil => simp
  | cons h hs ih =>
    simp only [List.foldl_cons, List.sum_cons]
    rw [ih, energies_step, List.map_map]
    apply List.map_congr_left
    intro e _
    simp only [Function.comp]
    rw [← mul_assoc, ← Real.exp_add]
    congr 2
    ring

theorem shape_step (wConv fs alphaP b2 b3 gamma : ℝ) (A : Rows ℝ) (h : ℝ) :
    (step wConv fs alphaP b2 b3 gamma A h).map List.length = A.map List.length := by
  simp [step, List.map_map, Function.comp_def, length_stepRow]

theorem shape_fold (wConv fs alphaP b2 b3 gamma : ℝ) (hs : List ℝ) (A : Rows ℝ) :
    (hs.foldl (step wConv fs alphaP b2 b3 gamma) A).map List.length = A.map List.length := by
  induction hs generalizing A with
  | nil => rfl
  | cons h hs ih => simp only [List.foldl_cons]; rw [ih, shape_step]

/-! ### the loop -/

/-- whatever the loop returns was obtained by applying the returned steps in order, and `x_length` is their sum -/
theorem loop_spec (stepF : Rows ℝ → ℝ → Rows ℝ) (nextHF : Rows ℝ → ℝ) (L : ℝ) (fuel : ℕ)
    (A : Rows ℝ) (h x : ℝ) (acc : List ℝ) (A' : Rows ℝ) (acc' : List ℝ) (x' : ℝ)
    (hok : loop stepF nextHF L fuel A h x acc = .ok (A', acc', x')) :
    ∃ new : List ℝ, acc' = new.reverse ++ acc ∧ A' = new.foldl stepF A ∧ new ≠ [] ∧ x' - x = new.sum - h ∧
      (Cmp.lt L (x' + nextHF A') = true) := by
  induction fuel generalizing A h x acc with
  | zero => simp [loop] at hok
  | succ fuel ih =>
    simp only [loop] at hok
    split at hok
    · next hbreak =>
      injection hok with hok
      simp only [Prod.mk.injEq] at hok
      obtain ⟨rfl, rfl, rfl⟩ := hok
      exact ⟨[h], by simp, by simp, by simp, by simp, hbreak⟩
    · next hcont =>
      obtain ⟨new, h1, h2, _, h4, h5⟩ := ih _ _ _ _ hok
      refine ⟨h :: new, ?_, ?_, by simp, ?_, h5⟩
      · simp [h1]
      · simp [h2]
      · simp only [List.sum_cons]; linarith

end FiberNL
end OptiVerif
