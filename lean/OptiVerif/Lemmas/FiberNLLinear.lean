/-
C08 ∩ C07: with gamma = 0 the split-step model of FIBER *is* the linear all-pass model of C07
(one step of the full length, no nonlinear rotation).
-/
import OptiVerif.Lemmas.FiberNLPhase

namespace OptiVerif.FiberNL
open OptiVerif OptiVerif.Fourier OptiVerif.Fiber

theorem nlMul_gamma0 (h : ℝ) (x a : Cx ℝ) : nlMul 0 h x a = a := by
  unfold nlMul
  have : (0 : ℝ) * (h / ((2 : ℕ) : ℝ)) * x.normSq = 0 := by ring
  rw [this, Cx.cis_zero]
  exact Cx.mul_one' a

theorem zipWith_snd {α β} (xs : List α) (zs : List β) (h : zs.length = xs.length) :
    List.zipWith (fun _ z => z) xs zs = zs := by
  induction xs generalizing zs with
  | nil => cases zs <;> simp_all
  | cons x xs ih =>
    cases zs with
    | nil => simp at h
    | cons z zs =>
      simp only [List.length_cons, Nat.add_right_cancel_iff] at h
      simp [ih zs h]

theorem length_fiberH (wConv : ℝ) (w : List ℝ) (a b2 b3 L : ℝ) : (fiberH wConv w a b2 b3 L).length = w.length := by
  simp [fiberH]

/-- one split step without nonlinearity is the linear filter of that length -/
theorem stepRow_gamma0 (wConv fs alphaP b2 b3 : ℝ) (xs : List (Cx ℝ)) (h : ℝ) :
    stepRow wConv fs alphaP b2 b3 0 xs h = applyH (fiberH wConv (wAxis xs.length fs) alphaP b2 b3 h) xs := by
  unfold stepRow
  simp only [nlMul_gamma0]
  have hmap : xs.map (fun x => x) = xs := List.map_id' xs
  rw [hmap]
  apply zipWith_snd
  rw [length_applyH _ _ (by rw [length_fiberH, length_wAxis])]

/-- **C08 at gamma = 0 is C07's fibre**: one step of the whole length, every row filtered by `fiberLinRow` -/
theorem fiber_gamma0 (wConv kappa fs alpha b2 b3 phiMax L : ℝ) (A : Rows ℝ) (hL : 0 < L) (fuel : ℕ) (hf : 1 ≤ fuel) :
    fiber wConv kappa fs alpha b2 b3 0 phiMax L fuel A
      = .ok ⟨A.map (fiberLinRow wConv kappa fs alpha b2 b3 L), [L]⟩ := by
  obtain ⟨f, rfl⟩ : ∃ f, fuel = f + 1 := ⟨fuel - 1, by omega⟩
  unfold fiber
  have hz : Cmp.eqz (0 : ℝ) = true := by simp
  simp only [hz, Bool.not_true, Bool.and_false, Bool.false_eq_true, if_false, firstH, Bool.or_true, if_true,
    loop, nextH]
  have h1 : Cmp.lt L L = false := by simp
  have h2 : Cmp.lt L (L + L) = true := by simp; linarith
  simp only [h1, Bool.false_eq_true, if_false, h2, if_true]
  have h3 : Cmp.eqz (L - L) = true := by simp
  simp only [h3, if_true, List.reverse_cons, List.reverse_nil, List.nil_append]
  congr 2
  unfold step
  apply List.map_congr_left
  intro r _
  rw [stepRow_gamma0]
  rfl

end OptiVerif.FiberNL
