/-
Lemmas about the FBG model at ℝ (C16): literals, the right-hand side as complex arithmetic, the passive filter bound
(Parseval), the apodisation profiles.
-/
import OptiVerif.Model.Fbg
import OptiVerif.Lemmas.FiberNL
import OptiVerif.Lemmas.NumList
import OptiVerif.Lemmas.FbgOde

namespace OptiVerif


namespace Fbg
open OptiVerif.Fourier OptiVerif.Fiber OptiVerif.NumList Complex

/-! ### the right-hand side is the coupled-mode system -/

theorem toC_mulI (a : Cx ℝ) : (mulI a).toC = I * a.toC := by
  apply Complex.ext <;> simp [mulI]

theorem toC_mulNegI (a : Cx ℝ) : (mulNegI a).toC = -I * a.toC := by
  apply Complex.ext <;> simp [mulNegI]

theorem toC_smul (r : ℝ) (a : Cx ℝ) : (Cx.smul r a).toC = (r : ℂ) * a.toC := by
  apply Complex.ext <;> simp [Cx.smul]

/-- the inverse of the bridge `Cx ℝ → ℂ` -/
def ofC (z : ℂ) : Cx ℝ := ⟨z.re, z.im⟩
@[simp] theorem toC_ofC (z : ℂ) : (ofC z).toC = z := by apply Complex.ext <;> simp [ofC]

theorem toC_rhs (p : Option ℝ) (F z : ℝ) (c : Coef ℝ) (Rv Sv : Cx ℝ) :
    (rhs p F z c Rv Sv).1.toC = I * (((sigmaHat p F z c : ℝ) : ℂ) * Rv.toC + ((kappa p c : ℝ) : ℂ) * Sv.toC) ∧
    (rhs p F z c Rv Sv).2.toC = -I * (((sigmaHat p F z c : ℝ) : ℂ) * Sv.toC + ((kappa p c : ℝ) : ℂ) * Rv.toC) := by
  simp only [rhs, toC_mulI, toC_mulNegI, Cx.toC_add, toC_smul, and_self]

/-! ### a passive response cannot add energy -/

theorem sumSq_zipWith_mul_le (X H : List (Cx ℝ)) (hlen : X.length = H.length)
    (hH : ∀ h ∈ H, h.normSq ≤ 1) : sumSq (List.zipWith (· * ·) X H) ≤ sumSq X := by
  induction X generalizing H with
  | nil => simp [sumSq]
  | cons x xs ih =>
    cases H with
    | nil => simp at hlen
    | cons h hs =>
      simp only [List.zipWith_cons_cons, sumSq, List.length_cons, Nat.add_right_cancel_iff] at *
      have h1 := ih hs hlen (fun h' hh' => hH h' (List.mem_cons_of_mem _ hh'))
      have h2 : h.normSq ≤ 1 := hH h (by simp)
      rw [Cx.normSq_mul]
      nlinarith [Cx.normSq_nonneg x, Cx.normSq_nonneg h]

/-- `ifft(fft(x) ⊙ H)` with |H_k| ≤ 1 for every k has at most the energy of x -/
theorem sumSq_applyH_le (H xs : List (Cx ℝ)) (hlen : H.length = xs.length)
    (hH : ∀ h ∈ H, h.normSq ≤ 1) : sumSq (applyH H xs) ≤ sumSq xs := by
  by_cases hn : xs.length = 0
  · have : xs = [] := List.eq_nil_of_length_eq_zero hn
    subst this
    simp [applyH, dft, idft, sumSq]
  · have hY : (List.zipWith (· * ·) (dft xs) H).length = xs.length := by simp [length_dft, hlen]
    have h1 := sumSq_applyH.Props_parseval_inverse (List.zipWith (· * ·) (dft xs) H) (by rw [hY]; exact hn)
    rw [hY] at h1
    have h2 := sumSq_zipWith_mul_le (dft xs) H (by rw [length_dft, hlen]) hH
    rw [sumSq_dft xs hn] at h2
    have hpos : (0 : ℝ) < (xs.length : ℝ) := by exact_mod_cast Nat.pos_of_ne_zero hn
    have : (xs.length : ℝ) * sumSq (applyH H xs) ≤ (xs.length : ℝ) * sumSq xs := by
      rw [applyH, h1]; exact h2
    exact le_of_mul_le_mul_left this hpos

theorem mem_ifftshift {α} (xs : List α) (x : α) : x ∈ ifftshift xs ↔ x ∈ xs := by
  simp [ifftshift, rot_eq_rotate, List.mem_rotate]

/-! ### group-delay correction -/

theorem gdCorrect_normSq (psConv : ℝ) (ws : List ℝ) (tau : ℝ) (H : List (Cx ℝ)) :
    (gdCorrect psConv ws tau H).map Cx.normSq = (List.zipWith (fun h _ => h.normSq) H ws) := by
  induction H generalizing ws with
  | nil => simp [gdCorrect]
  | cons h hs ih =>
    cases ws with
    | nil => simp [gdCorrect]
    | cons w ws =>
      have := ih ws
      simp only [gdCorrect] at this ⊢
      simp [Cx.normSq_mul, Cx.normSq_cis, this]

theorem mem_gdCorrect (psConv : ℝ) (ws : List ℝ) (tau : ℝ) (H : List (Cx ℝ)) (g : Cx ℝ)
    (hg : g ∈ gdCorrect psConv ws tau H) : ∃ h ∈ H, g.normSq = h.normSq := by
  induction H generalizing ws with
  | nil => simp [gdCorrect] at hg
  | cons h hs ih =>
    cases ws with
    | nil => simp [gdCorrect] at hg
    | cons w ws =>
      simp only [gdCorrect, List.zipWith_cons_cons, List.mem_cons] at hg
      rcases hg with rfl | hg
      · exact ⟨h, by simp, by simp [Cx.normSq_mul, Cx.normSq_cis]⟩
      · obtain ⟨h', hh', e⟩ := ih ws hg
        exact ⟨h', List.mem_cons_of_mem _ hh', e⟩

/-! ### profiles -/

theorem rcosProfile_eq (z : ℝ) (hz : |z| ≤ 1 / 2) :
    rcosProfile z = 1 / 2 * (1 + Real.cos (2 * Real.pi * z)) := by
  unfold rcosProfile rcos
  simp only [one_real, two_real, absR_real, sub_self, zero_div, Transc.cos_real, Transc.pi_real]
  by_cases h0 : |z| ≤ 0
  · have hz0 : z = 0 := abs_eq_zero.mp (le_antisymm h0 (abs_nonneg z))
    have : le |z| 0 = true := (le_real _ _).mpr h0
    simp [hz0]
    norm_num
  · have h1 : le |z| 0 = false := by
      rcases hb : le |z| 0 with _ | _
      · rfl
      · exact absurd ((le_real _ _).mp hb) h0
    have h2 : ¬ ((1 + 1) / (2 * 2) : ℝ) < |z| := by
      have : ((1 + 1) / (2 * 2) : ℝ) = 1 / 2 := by norm_num
      rw [this]; exact not_lt.mpr hz
    simp only [h1, Bool.false_eq_true, ↓reduceIte, Cmp.lt_real, h2, sub_zero]
    have : Real.cos (Real.pi * 2 / 1 * |z|) = Real.cos (2 * Real.pi * z) := by
      rw [← Real.cos_abs (2 * Real.pi * z), abs_mul, abs_of_pos (by positivity : (0 : ℝ) < 2 * Real.pi)]
      congr 1; ring
    rw [this]

theorem parabolicProfile_eq (z : ℝ) : parabolicProfile z = 1 - 4 * z ^ 2 := by
  simp [parabolicProfile]; ring

theorem gaussProfile_eq (z : ℝ) : gaussProfile z = Real.exp (-(4 * Real.log 2 * (9 * z ^ 2))) := by
  simp only [gaussProfile, Transc.exp_real, Transc.log_real, two_real]
  congr 1
  push_cast
  ring

end Fbg
end OptiVerif
