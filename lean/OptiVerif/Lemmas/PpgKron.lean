/-
Helper lemmas for C20 (SYNC): an aperiodic slot pattern has an aperiodic waveform `np.kron(slots, ones(sps))`.
-/
import Mathlib.Data.List.Rotate
import Mathlib.Tactic.Linarith
import OptiVerif.Model.PpgSync

namespace OptiVerif.Sync
open OptiVerif

theorem kron_cons (b : Int) (tx : List Int) (sps : Nat) :
    kron (b :: tx) sps = List.replicate sps b ++ kron tx sps := by
  simp [kron]

theorem kron_len (tx : List Int) (sps : Nat) : (kron tx sps).length = tx.length * sps := by
  induction tx with
  | nil => simp [kron]
  | cons b tx ih =>
    rw [kron_cons, List.length_append, List.length_replicate, ih, List.length_cons, Nat.add_mul, Nat.one_mul,
      Nat.add_comm]

/-- sample `j` of the waveform is slot `j / sps` -/
theorem kron_getElem? (sps : Nat) (hs : 0 < sps) : ∀ (tx : List Int) (j : Nat), (kron tx sps)[j]? = tx[j / sps]?
  | [], j => by simp [kron]
  | b :: tx, j => by
    rw [kron_cons]
    by_cases h : j < sps
    · rw [List.getElem?_append_left (by simpa using h), List.getElem?_replicate, if_pos h, Nat.div_eq_of_lt h]
      rfl
    · have hj : j = (j - sps) + sps := by omega
      rw [List.getElem?_append_right (by simpa using Nat.le_of_not_lt h), List.length_replicate,
        kron_getElem? sps hs tx (j - sps)]
      conv_rhs => rw [hj, Nat.add_div_right _ hs]
      rfl

/-- the shift condition read on slots: `w` invariant under rotation by `m = q·sps + r` -/
theorem rotate_kron_slots (tx : List Int) (sps m : Nat) (hs : 0 < sps)
    (h : (kron tx sps).rotate m = kron tx sps) (k t : Nat) (hk : k < tx.length) (ht : t < sps) :
    tx[((k * sps + t + m) / sps) % tx.length]? = tx[k]? := by
  have hl := kron_len tx sps
  have hj : k * sps + t < (kron tx sps).length := by
    rw [hl]
    calc k * sps + t < k * sps + sps := by omega
      _ = (k + 1) * sps := by rw [Nat.add_mul, Nat.one_mul]
      _ ≤ tx.length * sps := Nat.mul_le_mul_right _ hk
  have e : ((kron tx sps).rotate m)[k * sps + t]? = (kron tx sps)[k * sps + t]? := by rw [h]
  rw [List.getElem?_rotate hj, kron_getElem? sps hs, kron_getElem? sps hs, hl,
    Nat.mod_mul_left_div_self] at e
  have : (k * sps + t) / sps = k := by
    rw [Nat.mul_comm, Nat.mul_add_div hs, Nat.div_eq_of_lt ht, Nat.add_zero]
  rw [this] at e
  exact e

/-- an aperiodic slot pattern of at least two slots gives an aperiodic waveform -/
theorem kron_aperiodic (tx : List Int) (sps : Nat) (hs : 0 < sps) (hn : 2 ≤ tx.length)
    (hap : ∀ m, 0 < m → m < tx.length → tx.rotate m ≠ tx) :
    ∀ m, 0 < m → m < (kron tx sps).length → (kron tx sps).rotate m ≠ kron tx sps := by
  intro m hm0 hml hrot
  rw [kron_len] at hml
  have hn0 : 0 < tx.length := by omega
  set n := tx.length with hn_def
  set q := m / sps with hq
  set r := m % sps with hr
  have hm : m = q * sps + r := by rw [hq, hr, Nat.mul_comm]; exact (Nat.div_add_mod m sps).symm
  have hrlt : r < sps := Nat.mod_lt _ hs
  have hqn : q < n := by
    rw [hq]; exact Nat.div_lt_of_lt_mul (by rw [Nat.mul_comm]; exact hml)
  -- (A): slot k+q equals slot k
  have hA : ∀ k, k < n → tx[(k + q) % n]? = tx[k]? := by
    intro k hk
    have := rotate_kron_slots tx sps m hs hrot k 0 hk hs
    have e : (k * sps + 0 + m) / sps = k + q := by
      rw [hm, Nat.add_zero, ← Nat.add_assoc, ← Nat.add_mul, Nat.mul_comm, Nat.mul_add_div hs,
        Nat.div_eq_of_lt hrlt, Nat.add_zero]
    rw [e] at this
    exact this
  by_cases hr0 : r = 0
  · -- the shift is a whole number of slots: tx itself is invariant under rotation by q
    have hq0 : 0 < q := by
      rcases Nat.eq_zero_or_pos q with h0 | hp
      · rw [h0, hr0] at hm; omega
      · exact hp
    apply hap q hq0 hqn
    apply List.ext_getElem?
    intro i
    by_cases hi : i < n
    · rw [List.getElem?_rotate hi]
      exact hA i hi
    · rw [List.getElem?_eq_none (by rw [List.length_rotate]; omega), List.getElem?_eq_none (by omega)]
  · -- otherwise neighbouring slots are equal, so tx is invariant under rotation by 1
    have hB : ∀ k, k < n → tx[(k + q + 1) % n]? = tx[k]? := by
      intro k hk
      have := rotate_kron_slots tx sps m hs hrot k (sps - 1) hk (by omega)
      have e : (k * sps + (sps - 1) + m) / sps = k + q + 1 := by
        have : k * sps + (sps - 1) + m = sps * (k + q + 1) + (r - 1) := by
          rw [hm, Nat.mul_add, Nat.mul_add, Nat.mul_one, Nat.mul_comm sps k, Nat.mul_comm sps q]; omega
        rw [this, Nat.mul_add_div hs, Nat.div_eq_of_lt (by omega), Nat.add_zero]
      rw [e] at this
      exact this
    -- h j := slot (j mod n); h (j+1) = h j for all j ≥ q
    have step : ∀ j, tx[(j + q + 1) % n]? = tx[(j + q) % n]? := by
      intro j
      have hk : j % n < n := Nat.mod_lt _ hn0
      have a := hA (j % n) hk
      have b := hB (j % n) hk
      have e1 : (j % n + q) % n = (j + q) % n := Nat.mod_add_mod j n q
      have e2 : (j % n + q + 1) % n = (j + q + 1) % n := by
        rw [Nat.add_assoc, Nat.add_assoc]; exact Nat.mod_add_mod j n (q + 1)
      rw [e1] at a
      rw [e2] at b
      rw [a, b]
    apply hap 1 (by omega) (by omega)
    apply List.ext_getElem?
    intro i
    by_cases hi : i < n
    · rw [List.getElem?_rotate hi]
      have s := step (i + (n - q))
      have e1 : (i + (n - q) + q + 1) % n = (i + 1) % n := by
        have : i + (n - q) + q + 1 = (i + 1) + n := by omega
        rw [this, Nat.add_mod_right]
      have e2 : (i + (n - q) + q) % n = i := by
        have : i + (n - q) + q = i + n := by omega
        rw [this, Nat.add_mod_right, Nat.mod_eq_of_lt hi]
      rw [e1, e2] at s
      exact s
    · rw [List.getElem?_eq_none (by rw [List.length_rotate]; omega), List.getElem?_eq_none (by omega)]

end OptiVerif.Sync
