import OptiVerif.Model.BinSeqStr

namespace OptiVerif.BinSeqStr
open OptiVerif

theorem mapM_except_ok' {ε α β : Type} (f : α → Except ε β) (g : α → β) (l : List α)
    (h : ∀ x ∈ l, f x = .ok (g x)) : l.mapM f = .ok (l.map g) := by
  induction l with
  | nil => rfl
  | cons a t ih =>
    rw [List.mapM_cons, h a (by simp), ih (fun x hx => h x (List.mem_cons_of_mem _ hx))]
    rfl

theorem splitOn_no_sep (sep : Nat) (l : List Nat) (h : ∀ c ∈ l, c ≠ sep) : splitOn sep l = [l] := by
  induction l with
  | nil => rfl
  | cons c t ih =>
    have hc : (c == sep) = false := by simpa using h c (by simp)
    simp only [splitOn, ih (fun x hx => h x (List.mem_cons_of_mem _ hx)), hc]
    rfl

/-- a plain bit string: only the characters `0 1 space comma` -/
def Plain (s : List Nat) : Prop := s ≠ [] ∧ ∀ c ∈ s, c = 48 ∨ c = 49 ∨ c = 32 ∨ c = 44

def keep (c : Nat) : Bool := !(c == cSpace || c == cComma)
def cellOf (c : Nat) : Cell := if c == 48 then Cell.zero else Cell.one

theorem classify_plain (s : List Nat) (h : Plain s) : classify s = .bool := by
  obtain ⟨hne, hall⟩ := h
  unfold classify
  have h1 : s.isEmpty = false := by cases s <;> simp_all
  have h2 : s.all isBoolCh = true := by
    rw [List.all_eq_true]
    intro c hc
    rcases hall c hc with rfl | rfl | rfl | rfl <;> decide
  simp [h1, h2]

theorem str2array_plain (s : List Nat) (h : Plain s) :
    str2array s = .ok (.vec ((s.filter keep).map cellOf)) := by
  have hcl := classify_plain s h
  obtain ⟨_, hall⟩ := h
  have hdig : ∀ c ∈ s.filter keep, c = 48 ∨ c = 49 := by
    intro c hc
    obtain ⟨hcs, hk⟩ := List.mem_filter.mp hc
    rcases hall c hcs with rfl | rfl | rfl | rfl
    · exact Or.inl rfl
    · exact Or.inr rfl
    · exact absurd hk (by decide)
    · exact absurd hk (by decide)
  have hsplit : splitOn cSemi (s.filter keep) = [s.filter keep] := by
    apply splitOn_no_sep
    intro c hc
    rcases hdig c hc with rfl | rfl <;> decide
  have hmap : (s.filter keep).mapM boolChar = .ok ((s.filter keep).map cellOf) := by
    apply mapM_except_ok'
    intro c hc
    rcases hdig c hc with rfl | rfl <;> rfl
  have hpb : parseBool s = .ok (.vec ((s.filter keep).map cellOf)) := by
    unfold parseBool
    have : (s.filter (fun c => !(c == cSpace || c == cComma))) = s.filter keep := rfl
    simp only [this, hsplit, allSameLength, List.all_nil, Bool.not_true, Bool.false_eq_true, if_false,
      List.mapM_cons, List.mapM_nil, hmap]
    rfl
  simp only [str2array, hcl, hpb]

end OptiVerif.BinSeqStr
