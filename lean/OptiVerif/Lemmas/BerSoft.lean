/-
C13: the Gaussian-weighted integrand of the PPM soft decision (what the code hands to `scipy.integrate.quad`) is non-negative and
dominated by `exp(-x²/2)`, so its integral lies in `[0, √(2π)]` for every `Q` satisfying `QSpec`.
-/
import OptiVerif.Lemmas.Ber
import Mathlib.Analysis.SpecialFunctions.Gaussian.GaussianIntegral
import Mathlib.MeasureTheory.Function.LocallyIntegrable

set_option linter.unusedVariables false
set_option linter.unusedSimpArgs false

open MeasureTheory

namespace OptiVerif.Ber

theorem softIntegrand_real (Q : ℝ → ℝ) (M : ℕ) (d s0 s1 x : ℝ) :
    softIntegrand Q M d s0 s1 x = (1 - Q ((d + s1 * x) / s0)) ^ (M - 1) * Real.exp (-(1 / 2) * x ^ 2) := by
  simp only [softIntegrand, powNat_real, lit_real, Nat.cast_one, Nat.cast_ofNat, Transc.exp_real]
  congr 2
  ring

theorem softIntegrand_bounds {Q : ℝ → ℝ} (hQ : QSpec Q) (M : ℕ) (d s0 s1 x : ℝ) :
    0 ≤ softIntegrand Q M d s0 s1 x ∧ softIntegrand Q M d s0 s1 x ≤ Real.exp (-(1 / 2) * x ^ 2) := by
  rw [softIntegrand_real]
  have h1 : 0 ≤ 1 - Q ((d + s1 * x) / s0) := by linarith [hQ.le_one ((d + s1 * x) / s0)]
  have h2 : 1 - Q ((d + s1 * x) / s0) ≤ 1 := by linarith [hQ.nonneg ((d + s1 * x) / s0)]
  have hp0 : 0 ≤ (1 - Q ((d + s1 * x) / s0)) ^ (M - 1) := pow_nonneg h1 _
  have hp1 : (1 - Q ((d + s1 * x) / s0)) ^ (M - 1) ≤ 1 := pow_le_one₀ h1 h2
  have he : 0 < Real.exp (-(1 / 2) * x ^ 2) := Real.exp_pos _
  constructor
  · positivity
  · nlinarith

theorem softIntegrand_measurable {Q : ℝ → ℝ} (hQ : QSpec Q) (M : ℕ) (d s0 s1 : ℝ) :
    Measurable (softIntegrand Q M d s0 s1) := by
  have hfun : softIntegrand Q M d s0 s1 = fun x => (1 - Q ((d + s1 * x) / s0)) ^ (M - 1) * Real.exp (-(1 / 2) * x ^ 2) := by
    funext x; exact softIntegrand_real Q M d s0 s1 x
  rw [hfun]
  have hQm : Measurable Q := hQ.anti.measurable
  have haff : Measurable fun x : ℝ => (d + s1 * x) / s0 := by fun_prop
  have h1 : Measurable fun x : ℝ => (1 - Q ((d + s1 * x) / s0)) ^ (M - 1) :=
    ((measurable_const.sub (hQm.comp haff)).pow_const _)
  have h2 : Measurable fun x : ℝ => Real.exp (-(1 / 2) * x ^ 2) := by fun_prop
  exact h1.mul h2

theorem soft_integral_bounds_aux {Q : ℝ → ℝ} (hQ : QSpec Q) (M : ℕ) (d s0 s1 : ℝ) :
    0 ≤ ∫ x, softIntegrand Q M d s0 s1 x ∧ ∫ x, softIntegrand Q M d s0 s1 x ≤ Real.sqrt (2 * Real.pi) := by
  have hg : Integrable fun x : ℝ => Real.exp (-(1 / 2) * x ^ 2) := integrable_exp_neg_mul_sq (by norm_num)
  have hf : Integrable (softIntegrand Q M d s0 s1) := by
    apply hg.mono' (softIntegrand_measurable hQ M d s0 s1).aestronglyMeasurable
    filter_upwards with x
    rw [Real.norm_eq_abs, abs_of_nonneg (softIntegrand_bounds hQ M d s0 s1 x).1]
    exact (softIntegrand_bounds hQ M d s0 s1 x).2
  constructor
  · exact integral_nonneg fun x => (softIntegrand_bounds hQ M d s0 s1 x).1
  · calc ∫ x, softIntegrand Q M d s0 s1 x ≤ ∫ x : ℝ, Real.exp (-(1 / 2) * x ^ 2) :=
          integral_mono hf hg fun x => (softIntegrand_bounds hQ M d s0 s1 x).2
      _ = Real.sqrt (Real.pi / (1 / 2)) := integral_gaussian (1 / 2)
      _ = Real.sqrt (2 * Real.pi) := by congr 1; ring

end OptiVerif.Ber
