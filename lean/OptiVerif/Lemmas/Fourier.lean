/-
DFT inversion and Parseval for the generic Fourier model at ℝ/ℂ (C02, reused by C07/C08/C16).
-/
import OptiVerif.Model.Fourier
import OptiVerif.Lemmas.NumReal
import Mathlib.Analysis.SpecialFunctions.Complex.Log
import Mathlib.RingTheory.RootsOfUnity.Complex
import Mathlib.Algebra.Ring.GeomSum
import Mathlib.Data.List.Rotate

namespace OptiVerif.Fourier
open OptiVerif Finset Complex

/-! ### bridge to ℂ and Finset sums -/

theorem toC_czero : (czero : Cx ℝ).toC = 0 := by
  apply Complex.ext <;> simp [czero]

theorem toC_sumN (n : ℕ) (f : ℕ → Cx ℝ) : (sumN n f).toC = ∑ j ∈ range n, (f j).toC := by
  induction n with
  | zero => simp [sumN, toC_czero]
  | succ n ih => simp [sumN, Cx.toC_add, ih, Finset.sum_range_succ]

theorem sumN_congr (n : ℕ) (f g : ℕ → Cx ℝ) (h : ∀ j, j < n → f j = g j) : sumN n f = sumN n g := by
  induction n with
  | zero => rfl
  | succ n ih =>
    simp only [sumN]
    rw [ih (fun j hj => h j (Nat.lt_succ_of_lt hj)), h n (Nat.lt_succ_self n)]

theorem toC_smul (r : ℝ) (z : Cx ℝ) : (Cx.smul r z).toC = (r : ℂ) * z.toC := by
  apply Complex.ext <;> simp [Cx.smul]

theorem toC_injective : Function.Injective (Cx.toC) := by
  intro a b h
  cases a; cases b
  simp only [Cx.toC, Complex.mk.injEq] at h
  simp [h.1, h.2]

/-- the primitive n-th root of unity -/
noncomputable def zeta (n : ℕ) : ℂ := Complex.exp (2 * Real.pi * Complex.I / n)

theorem zeta_prim (n : ℕ) (hn : n ≠ 0) : IsPrimitiveRoot (zeta n) n := Complex.isPrimitiveRoot_exp n hn

theorem zeta_pow_n (n : ℕ) (hn : n ≠ 0) : zeta n ^ n = 1 := (zeta_prim n hn).pow_eq_one

theorem zeta_ne_zero (n : ℕ) : zeta n ≠ 0 := Complex.exp_ne_zero _

theorem ang_real (n m : ℕ) : (ang n m : ℝ) = 2 * Real.pi * m / n := by
  simp [ang]

theorem toC_cis_ang (n m : ℕ) : (Cx.cis (ang n m : ℝ)).toC = zeta n ^ m := by
  rw [Cx.toC_cis, zeta, ← Complex.exp_nat_mul, ang_real]
  congr 1
  push_cast
  ring

theorem toC_cis_neg_ang (n m : ℕ) : (Cx.cis (-(ang n m : ℝ))).toC = (zeta n ^ m)⁻¹ := by
  rw [Cx.toC_cis, ← toC_cis_ang, Cx.toC_cis, ← Complex.exp_neg]
  congr 1
  push_cast
  ring

/-- character orthogonality -/
theorem ortho (n : ℕ) (hn : n ≠ 0) (a b : ℕ) (ha : a < n) (hb : b < n) :
    ∑ k ∈ range n, zeta n ^ (a * k) * (zeta n ^ (b * k))⁻¹ = if a = b then (n : ℂ) else 0 := by
  have hterm : ∀ k, zeta n ^ (a * k) * (zeta n ^ (b * k))⁻¹ = (zeta n ^ a * (zeta n ^ b)⁻¹) ^ k := by
    intro k
    rw [pow_mul, pow_mul, mul_pow, inv_pow]
  simp only [hterm]
  by_cases hab : a = b
  · subst hab
    simp [mul_inv_cancel₀ (pow_ne_zero _ (zeta_ne_zero n))]
  · simp only [hab, if_false]
    set w := zeta n ^ a * (zeta n ^ b)⁻¹ with hw
    have hw1 : w ≠ 1 := by
      intro h
      apply hab
      apply (zeta_prim n hn).pow_inj ha hb
      have hb0 : zeta n ^ b ≠ 0 := pow_ne_zero _ (zeta_ne_zero n)
      have h' : zeta n ^ a * (zeta n ^ b)⁻¹ = 1 := h
      exact (mul_inv_eq_one₀ hb0).mp h'
    have hwn : w ^ n = 1 := by
      rw [hw, mul_pow, inv_pow, ← pow_mul, ← pow_mul, mul_comm a n, mul_comm b n, pow_mul, pow_mul,
        zeta_pow_n n hn]
      simp
    have := geom_sum_mul w n
    rw [hwn, sub_self] at this
    rcases mul_eq_zero.mp this with h | h
    · exact h
    · exact absurd (sub_eq_zero.mp h) hw1

/-! ### inversion -/

theorem toC_dftAt (x : ℕ → Cx ℝ) (n k : ℕ) :
    (dftAt x n k).toC = ∑ j ∈ range n, (x j).toC * (zeta n ^ (j * k))⁻¹ := by
  simp only [dftAt, toC_sumN, Cx.toC_mul, toC_cis_neg_ang]

theorem toC_idftAt (X : ℕ → Cx ℝ) (n m : ℕ) :
    (idftAt X n m).toC = (1 / (n : ℂ)) * ∑ k ∈ range n, (X k).toC * zeta n ^ (k * m) := by
  simp only [idftAt, toC_smul, toC_sumN, Cx.toC_mul, toC_cis_ang]
  congr 1
  push_cast
  ring

theorem idftAt_dftAt (x : ℕ → Cx ℝ) (n m : ℕ) (hm : m < n) :
    idftAt (fun k => dftAt x n k) n m = x m := by
  have hn : n ≠ 0 := by omega
  apply toC_injective
  rw [toC_idftAt]
  simp only [toC_dftAt, Finset.sum_mul]
  rw [Finset.sum_comm]
  have : ∀ j ∈ range n, ∑ k ∈ range n, (x j).toC * (zeta n ^ (j * k))⁻¹ * zeta n ^ (k * m)
      = (x j).toC * (if m = j then (n : ℂ) else 0) := by
    intro j hj
    rw [← ortho n hn m j hm (Finset.mem_range.mp hj), Finset.mul_sum]
    apply Finset.sum_congr rfl
    intro k _
    rw [mul_comm k m]
    ring
  rw [Finset.sum_congr rfl this]
  simp only [mul_ite, mul_zero]
  rw [Finset.sum_ite_eq (range n) m (fun j => (x j).toC * (n : ℂ))]
  simp only [Finset.mem_range, hm, if_true]
  have : (n : ℂ) ≠ 0 := by exact_mod_cast hn
  field_simp

theorem dftAt_idftAt (X : ℕ → Cx ℝ) (n m : ℕ) (hm : m < n) :
    dftAt (fun j => idftAt X n j) n m = X m := by
  have hn : n ≠ 0 := by omega
  apply toC_injective
  rw [toC_dftAt]
  simp only [toC_idftAt, Finset.mul_sum, Finset.sum_mul]
  rw [Finset.sum_comm]
  have : ∀ k ∈ range n, ∑ j ∈ range n, 1 / (n : ℂ) * ((X k).toC * zeta n ^ (k * j)) * (zeta n ^ (j * m))⁻¹
      = (X k).toC * (1 / (n : ℂ)) * (if k = m then (n : ℂ) else 0) := by
    intro k hk
    rw [← ortho n hn k m (Finset.mem_range.mp hk) hm, Finset.mul_sum]
    apply Finset.sum_congr rfl
    intro j _
    rw [mul_comm j m]
    ring
  rw [Finset.sum_congr rfl this]
  simp only [mul_ite, mul_zero]
  rw [Finset.sum_ite_eq' (range n) m (fun k => (X k).toC * (1 / (n : ℂ)) * (n : ℂ))]
  simp only [Finset.mem_range, hm, if_true]
  have : (n : ℂ) ≠ 0 := by exact_mod_cast hn
  field_simp

/-! ### list level -/

theorem nth_eq_getElem (xs : List (Cx ℝ)) (j : ℕ) (hj : j < xs.length) : nth xs j = xs[j] := by
  simp [nth, List.getD_eq_getElem?_getD, hj]

theorem length_dft (xs : List (Cx ℝ)) : (dft xs).length = xs.length := by simp [dft]
theorem length_idft (xs : List (Cx ℝ)) : (idft xs).length = xs.length := by simp [idft]

theorem nth_dft (xs : List (Cx ℝ)) (k : ℕ) (hk : k < xs.length) :
    nth (dft xs) k = dftAt (nth xs) xs.length k := by
  rw [nth_eq_getElem _ _ (by rw [length_dft]; exact hk)]
  simp [dft]

theorem nth_idft (xs : List (Cx ℝ)) (k : ℕ) (hk : k < xs.length) :
    nth (idft xs) k = idftAt (nth xs) xs.length k := by
  rw [nth_eq_getElem _ _ (by rw [length_idft]; exact hk)]
  simp [idft]

theorem idft_dft (xs : List (Cx ℝ)) : idft (dft xs) = xs := by
  apply List.ext_getElem
  · rw [length_idft, length_dft]
  · intro m h1 h2
    simp only [idft, List.getElem_map, List.getElem_range, length_dft]
    have : idftAt (nth (dft xs)) xs.length m = idftAt (fun k => dftAt (nth xs) xs.length k) xs.length m := by
      unfold idftAt
      congr 1
      apply sumN_congr
      intro k hk
      rw [nth_dft xs k hk]
    rw [this, idftAt_dftAt _ _ _ h2, nth_eq_getElem _ _ h2]

theorem dft_idft (xs : List (Cx ℝ)) : dft (idft xs) = xs := by
  apply List.ext_getElem
  · rw [length_dft, length_idft]
  · intro m h1 h2
    simp only [dft, List.getElem_map, List.getElem_range, length_idft]
    have : dftAt (nth (idft xs)) xs.length m = dftAt (fun k => idftAt (nth xs) xs.length k) xs.length m := by
      unfold dftAt
      apply sumN_congr
      intro k hk
      rw [nth_idft xs k hk]
    rw [this, dftAt_idftAt _ _ _ h2, nth_eq_getElem _ _ h2]

end OptiVerif.Fourier
