/-
Helper lemmas for C09 (continued): validation ladder and the evaluation of `pdCore` at ℝ.
-/
import OptiVerif.Lemmas.Pd

set_option linter.unusedSectionVars false
set_option linter.unusedVariables false
set_option linter.unusedSimpArgs false
set_option linter.unnecessarySeqFocus false

namespace OptiVerif.Pd
open OptiVerif

/-! ### validation -/

theorem rejects_r (v : ℝ) : rejects Gen.PdTable.rReject v = some (decide (v ≤ 0) || decide (1 < v)) := by
  simp [Gen.PdTable.rReject, rejects, cmpOp]

theorem rejects_t (v : ℝ) : rejects Gen.PdTable.tReject v = some (decide (v < 0)) := by
  simp [Gen.PdTable.tReject, rejects, cmpOp]

theorem rejects_rl (v : ℝ) : rejects Gen.PdTable.rLoadReject v = some (decide (v < 0)) := by
  simp [Gen.PdTable.rLoadReject, rejects, cmpOp]

theorem checkNum_type (types : List String) (terr verr : Wire.Err) (rej : List (String × ℚ)) (v : PyVal ℝ)
    (h : v.isInstance types = false) : checkNum types terr rej verr v = .error terr := by
  simp [checkNum, h]

theorem checkNum_range (types : List String) (terr verr : Wire.Err) (rej : List (String × ℚ)) (v : PyVal ℝ) (x : ℝ)
    (h : v.isInstance types = true) (hv : v.val = some x) (hr : rejects rej x = some true) :
    checkNum types terr rej verr v = .error verr := by
  simp [checkNum, h, hv, hr]

theorem checkNum_ok (types : List String) (terr verr : Wire.Err) (rej : List (String × ℚ)) (v : PyVal ℝ) (x : ℝ)
    (h : v.isInstance types = true) (hv : v.val = some x) (hr : rejects rej x = some false) :
    checkNum types terr rej verr v = .ok x := by
  simp [checkNum, h, hv, hr]

/-- the only way `checkNum` succeeds -/
theorem checkNum_ok_inv {types : List String} {terr verr : Wire.Err} {rej : List (String × ℚ)} {v : PyVal ℝ} {x : ℝ}
    (h : checkNum types terr rej verr v = .ok x) :
    v.isInstance types = true ∧ v.val = some x ∧ rejects rej x = some false := by
  unfold checkNum at h
  by_cases hi : v.isInstance types = true
  · simp only [hi, Bool.not_true, Bool.false_eq_true, if_false] at h
    cases hv : v.val with
    | none => simp [hv] at h
    | some y =>
      simp only [hv] at h
      cases hr : rejects rej y with
      | none => simp [hr] at h
      | some b =>
        cases b <;> simp [hr] at h
        subst h
        exact ⟨hi, rfl, hr⟩
  · simp only [Bool.not_eq_true] at hi
    simp [hi] at h

/-! ### the RNG requests and the evaluation of `pdCore` -/

/-- the two possible RNG requests `np.random.normal(0, √S, n)` -/
noncomputable def reqT (kB T fs Fn Rl : ℝ) (n : ℕ) : Req ℝ := ⟨0, Real.sqrt (sigma2T kB T fs Fn Rl), n⟩
noncomputable def reqN (e iDark fs : ℝ) (isig : List ℝ) (iase : ℝ) (n : ℕ) : Req ℝ :=
  ⟨0, Real.sqrt (Gen.PdTable.sN e (mean isig) iase iDark fs), n⟩

theorem pdCore_eval (kB e fs T Rl iDark Fn : ℝ) (sel : List Char) (dT dN : List ℝ) (n : ℕ) (isig sn nn : List ℝ) (iase : ℝ)
    (th sh ase : Bool) (names : List String)
    (hd : decode (lower sel) = ⟨th, sh, ase, some names⟩) (hn : n ≠ 0) (hRl : 0 < Rl)
    (hT : th = true → dT.length = n) (hN : sh = true → dN.length = n) :
    pdCore kB e fs T Rl iDark Fn sel dT dN n isig sn nn iase =
      ⟨(if th then [reqT kB T fs Fn Rl n] else []) ++ (if sh then [reqN e iDark fs isig iase n] else []),
        match sumTerms n ⟨if ase then some sn else none, if ase then some nn else none,
            if th then some dT else none, if sh then some dN else none, iDark⟩ names with
        | none => .error .Other
        | some inoise => .ok ⟨isig.map (· * Rl), inoise.map (· * Rl)⟩⟩ := by
  unfold pdCore
  simp only [hd]
  have h1 : ¬ (th = true ∧ ¬ ((((0 : ℕ) : ℝ)) < Rl)) := by
    simp only [Nat.cast_zero]; tauto
  have h2 : ¬ ((th = true ∧ dT.length ≠ n) ∨ (sh = true ∧ dN.length ≠ n)) := by tauto
  simp only [hn, if_false, h1, h2]
  have hreq : (Gen.PdTable.blockOrder.filterMap fun b =>
      if b = "thermal" ∧ th = true then some (⟨ofRat Gen.PdTable.thermalLoc, Transc.sqrt (sigma2T kB T fs Fn Rl), n⟩ : Req ℝ)
      else if b = "shot" ∧ sh = true then some ⟨ofRat Gen.PdTable.shotLoc, Transc.sqrt (Gen.PdTable.sN e (mean isig) iase iDark fs), n⟩
      else none) = (if th then [reqT kB T fs Fn Rl n] else []) ++ (if sh then [reqN e iDark fs isig iase n] else []) := by
    cases th <;> cases sh <;>
      simp [Gen.PdTable.blockOrder, Gen.PdTable.thermalLoc, Gen.PdTable.shotLoc, reqT, reqN]
  rw [hreq]
  cases hs : sumTerms n ⟨if ase then some sn else none, if ase then some nn else none,
            if th then some dT else none, if sh then some dN else none, iDark⟩ names <;> simp [hs]

/-- whatever the option and the draws: when `PD` returns, the signal part handed to the filter is `i_sig * R_load` -/
theorem pdCore_sig (kB e fs T Rl iDark Fn : ℝ) (sel : List Char) (dT dN : List ℝ) (n : ℕ) (isig sn nn : List ℝ) (iase : ℝ)
    (p : Pre ℝ) (h : (pdCore kB e fs T Rl iDark Fn sel dT dN n isig sn nn iase).out = .ok p) :
    p.sig = isig.map (· * Rl) := by
  unfold pdCore at h
  simp only at h
  split at h
  · simp at h
  split at h
  · simp at h
  split at h
  · simp at h
  split at h
  · simp at h
  split at h
  · simp at h
  · simp only [Except.ok.injEq] at h
    rw [← h]

/-- an unknown option (after lower-casing) is a `ValueError`, whatever else was asked -/
theorem pdCore_unknown (kB e fs T Rl iDark Fn : ℝ) (sel : List Char) (dT dN : List ℝ) (n : ℕ) (isig sn nn : List ℝ) (iase : ℝ)
    (hnames : (decode (lower sel)).names = none) (hn : n ≠ 0)
    (hRl : (decode (lower sel)).thOn = true → 0 < Rl)
    (hT : (decode (lower sel)).thOn = true → dT.length = n) (hN : (decode (lower sel)).shOn = true → dN.length = n) :
    (pdCore kB e fs T Rl iDark Fn sel dT dN n isig sn nn iase).out = .error .ValueError := by
  unfold pdCore
  have h1 : ¬ ((decode (lower sel)).thOn = true ∧ ¬ ((((0 : ℕ) : ℝ)) < Rl)) := by
    simp only [Nat.cast_zero]; tauto
  have h2 : ¬ (((decode (lower sel)).thOn = true ∧ dT.length ≠ n) ∨ ((decode (lower sel)).shOn = true ∧ dN.length ≠ n)) := by
    tauto
  simp only [hn, if_false, h1, h2, hnames]
  rfl

end OptiVerif.Pd
