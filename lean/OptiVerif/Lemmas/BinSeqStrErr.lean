/-
Which errors the `str2array` model can raise (C15): ValueError, or `Other` (= OverflowError of an integer literal
outside the C long range) — nothing else.
-/
import OptiVerif.Model.BinSeqStr

namespace OptiVerif.BinSeqStr
open OptiVerif

/-- ValueError or the OverflowError stand-in -/
def VE (e : Wire.Err) : Prop := e = .ValueError ∨ e = .Other

theorem mapM_err {α β : Type} (f : α → Except Wire.Err β) (h : ∀ x e, f x = .error e → VE e) (l : List α)
    (e : Wire.Err) (he : l.mapM f = .error e) : VE e := by
  induction l with
  | nil => cases he
  | cons a t ih =>
    rw [List.mapM_cons] at he
    cases ha : f a with
    | error e' =>
      rw [ha] at he
      have : e' = e := by injection he
      exact this ▸ h a e' ha
    | ok b =>
      rw [ha] at he
      cases ht : t.mapM f with
      | error e' =>
        rw [ht] at he
        have : e' = e := by injection he
        exact ih (this ▸ ht)
      | ok bs => rw [ht] at he; cases he

theorem boolChar_err (c : Nat) (e : Wire.Err) (h : boolChar c = .error e) : VE e := by
  unfold boolChar at h
  split at h
  · cases h
  · split at h
    · cases h
    · injection h with h; exact Or.inl h.symm

theorem assemble_err (rows : List (List Cell)) (e : Wire.Err) (h : assemble rows = .error e) : VE e := by
  unfold assemble at h
  split at h
  · cases h
  · cases h
  · injection h with h; exact Or.inr h.symm

theorem parseIntTok_err (t : List Nat) (e : Wire.Err) (h : parseIntTok t = .error e) : VE e := by
  unfold parseIntTok intOfParts at h
  split at h
  · injection h with h; exact Or.inl h.symm
  · split at h
    · injection h with h; exact Or.inr h.symm
    · split at h
      · cases h
      · split at h <;> cases h

theorem parseFloatTok_err (t : List Nat) (e : Wire.Err) (h : parseFloatTok t = .error e) : VE e := by
  unfold parseFloatTok floatOfParts at h
  simp only at h
  split at h
  · injection h with h; exact Or.inl h.symm
  · split at h
    · cases h
    · split at h <;> cases h

theorem rows_err {α : Type} (f : α → Except Wire.Err Cell) (hf : ∀ x e, f x = .error e → VE e)
    (rows : List (List α)) (cond : Bool) (e : Wire.Err)
    (h : (do
            if cond then throw Wire.Err.ValueError
            let cells ← rows.mapM (fun r => r.mapM f)
            assemble cells : Except Wire.Err Parsed) = .error e) : VE e := by
  cases cond with
  | true =>
    have : e = .ValueError := by
      simp only [if_true] at h
      injection h with h; exact h.symm
    exact Or.inl this
  | false =>
    simp only [Bool.false_eq_true, if_false] at h
    cases hm : rows.mapM (fun r => r.mapM f) with
    | error e' =>
      have he : e' = e := by
        have h' : (do
            pure PUnit.unit
            let cells ← rows.mapM (fun r => r.mapM f)
            assemble cells : Except Wire.Err Parsed) = .error e := h
        rw [hm] at h'
        injection h'
      exact mapM_err _ (fun r e'' hr => mapM_err f hf r e'' hr) rows e (he ▸ hm)
    | ok cells =>
      have h' : (do
          pure PUnit.unit
          let cells ← rows.mapM (fun r => r.mapM f)
          assemble cells : Except Wire.Err Parsed) = .error e := h
      rw [hm] at h'
      exact assemble_err cells e h'

theorem parseBool_err (s : List Nat) (e : Wire.Err) (h : parseBool s = .error e) : VE e :=
  rows_err boolChar boolChar_err _ _ e h

theorem parseNum_err (tok : List Nat → Except Wire.Err Cell) (ht : ∀ x e, tok x = .error e → VE e) (s : List Nat)
    (e : Wire.Err) (h : parseNum tok s = .error e) : VE e :=
  rows_err tok ht _ _ e h

/-- **the only errors of `str2array`** (on the classes the model covers): ValueError, or OverflowError -/
theorem str2array_err (s : List Nat) (e : Wire.Err) (h : str2array s = .err e) : VE e := by
  unfold str2array at h
  split at h
  · split at h
    · cases h
    · next hp => injection h with h; exact h ▸ parseBool_err s _ hp
  · split at h
    · cases h
    · next hp => injection h with h; exact h ▸ parseNum_err _ parseIntTok_err s _ hp
  · split at h
    · cases h
    · next hp => injection h with h; exact h ▸ parseNum_err _ parseFloatTok_err s _ hp
  · cases h
  · injection h with h; exact Or.inl h.symm

end OptiVerif.BinSeqStr
