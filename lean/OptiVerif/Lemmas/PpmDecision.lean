/-
HDD / SDD lemmas for the PPM model (C12): power-of-two test, per-symbol repair, argmax.
-/
import OptiVerif.Lemmas.PpmList
import Mathlib.Order.Basic

namespace OptiVerif.Ppm
open OptiVerif

/-! ### `M & (M-1) == 0` -/

theorem and_pred_eq_zero_iff (M : Nat) (hM : 1 ≤ M) : M &&& (M - 1) = 0 ↔ ∃ k, M = 2 ^ k := by
  induction M using Nat.strongRecOn with
  | _ M ih =>
    have hmod : (M &&& (M - 1)) % 2 = 0 := by
      rcases Nat.mod_two_eq_zero_or_one (M &&& (M - 1)) with h | h
      · exact h
      · rw [Nat.and_mod_two_eq_one] at h; omega
    have hdiv : (M &&& (M - 1)) / 2 = M / 2 &&& (M - 1) / 2 := Nat.and_div_two
    have key : M &&& (M - 1) = 0 ↔ (M / 2 &&& (M - 1) / 2) = 0 := by rw [← hdiv]; omega
    rw [key]
    rcases Nat.mod_two_eq_zero_or_one M with he | ho
    · have hq : 1 ≤ M / 2 := by omega
      have e : (M - 1) / 2 = M / 2 - 1 := by omega
      rw [e, ih (M / 2) (by omega) hq]
      constructor
      · rintro ⟨k, hk⟩; exact ⟨k + 1, by rw [Nat.pow_succ]; omega⟩
      · rintro ⟨k, hk⟩
        cases k with
        | zero => omega
        | succ k => exact ⟨k, by rw [Nat.pow_succ] at hk; omega⟩
    · have e : (M - 1) / 2 = M / 2 := by omega
      rw [e, Nat.and_self]
      constructor
      · intro h; exact ⟨0, by omega⟩
      · rintro ⟨k, hk⟩
        cases k with
        | zero => simp at hk; omega
        | succ k => rw [Nat.pow_succ] at hk; omega

/-- the code's test accepts exactly the powers of two (orders below 1 are refused outright) -/
theorem pow2Test_iff (M : Int) : pow2Test M = true ↔ ∃ k : Nat, M = 2 ^ k := by
  unfold pow2Test Gen.Ppm.pow2ExprHDD Gen.Ppm.pow2MinHDD
  by_cases hlt : M < 1
  · rw [if_pos hlt]
    constructor
    · intro h; cases h
    · rintro ⟨k, h⟩
      have : (0 : Int) < 2 ^ k := Int.pow_pos (by decide)
      omega
  · rw [if_neg hlt]
    obtain ⟨m, rfl⟩ : ∃ m : Nat, M = m := ⟨M.toNat, by omega⟩
    simp only [Int.toNat_natCast, beq_iff_eq]
    rw [and_pred_eq_zero_iff m (by omega)]
    constructor
    · rintro ⟨k, rfl⟩; exact ⟨k, by norm_cast⟩
    · rintro ⟨k, h⟩; exact ⟨k, by exact_mod_cast h⟩

theorem pow2Test_pos (M : Nat) (h : pow2Test (M : Int) = true) : 0 < M := by
  obtain ⟨k, hk⟩ := (pow2Test_iff _).mp h
  have : (0 : Int) < 2 ^ k := Int.pow_pos (by decide)
  omega

/-- SDD's copy of the test in the source is the same expression as HDD's -/
theorem pow2TestS_eq (M : Int) : pow2TestS M = pow2Test M := rfl

/-! ### HDD: one symbol at a time -/

/-- numpy's contract for `np.random.randint(M)` -/
def RandintOK (randint : Nat → Nat → Nat) : Prop := ∀ c M, 0 < M → randint c M < M
/-- numpy's contract for `np.random.choice(j)` -/
def ChoiceOK (choice : Nat → List Nat → Nat) : Prop := ∀ c j, j ≠ [] → choice c j ∈ j

/-- what the statement asks of one repaired symbol `s'` given the received symbol `s` -/
def SymOK (M : Nat) (s s' : List Bool) : Prop :=
  s'.length = M ∧ ones s' = 1 ∧ (ones s = 1 → s' = s) ∧
  (1 ≤ ones s → ∀ j : Nat, s'[j]? = some true → s[j]? = some true)

theorem set_true_of_ones_zero (s : List Bool) (h : ones s = 0) (r : Nat) : s.set r true = oneHot s.length r := by
  conv => lhs; rw [eq_replicate_of_ones_zero s h]
  rfl

theorem hddSyms_spec (M : Nat) (hM : 0 < M) (ri : Nat → Nat → Nat) (ch : Nat → List Nat → Nat)
    (hr : RandintOK ri) (hc : ChoiceOK ch) (rows : List (List Bool)) (hrows : ∀ r ∈ rows, r.length = M)
    (zi mi : Nat) :
    (hddSyms M ri ch rows zi mi).length = rows.length ∧
    (∀ r' ∈ hddSyms M ri ch rows zi mi, r'.length = M ∧ ones r' = 1) ∧
    (∀ p ∈ rows.zip (hddSyms M ri ch rows zi mi), SymOK M p.1 p.2) := by
  induction rows generalizing zi mi with
  | nil => simp [hddSyms]
  | cons s rest ih =>
    have hs : s.length = M := hrows s (by simp)
    have hrest : ∀ r ∈ rest, r.length = M := fun r hx => hrows r (List.mem_cons_of_mem _ hx)
    -- the head symbol
    have head : ∀ s', (ones s = 0 → s' = s.set (ri zi M) true) →
        (1 < ones s → s' = oneHot M (ch mi (onIdx s))) → (ones s = 1 → s' = s) → SymOK M s s' := by
      intro s' h0 h2 h1
      rcases Nat.lt_trichotomy (ones s) 1 with hlt | heq | hgt
      · have hz : ones s = 0 := by omega
        rw [h0 hz, set_true_of_ones_zero s hz, hs]
        exact ⟨by simp, ones_oneHot M _ (hr zi M hM), by omega, by omega⟩
      · rw [h1 heq]
        exact ⟨hs, heq, fun _ => rfl, fun _ j hj => hj⟩
      · rw [h2 hgt]
        have hne : onIdx s ≠ [] := by
          intro h
          have := onIdxFrom_length 0 s
          rw [show onIdxFrom 0 s = onIdx s from rfl, h] at this
          simp at this; omega
        obtain ⟨hd, hon⟩ := mem_onIdx s _ (hc mi (onIdx s) hne)
        rw [hs] at hd
        refine ⟨by simp, ones_oneHot M _ hd, by omega, ?_⟩
        intro _ j hj
        by_cases hjM : j < M
        · rw [oneHot_getElem? M _ j hjM] at hj
          have : ch mi (onIdx s) = j := by simpa using hj
          rw [← this]; exact hon
        · rw [List.getElem?_eq_none (by simp; omega)] at hj
          cases hj
    simp only [hddSyms]
    by_cases h0 : ones s = 0
    · rw [if_pos h0]
      obtain ⟨i1, i2, i3⟩ := ih hrest (zi + 1) mi
      have hh := head (s.set (ri zi M) true) (fun _ => rfl) (by omega) (by omega)
      refine ⟨by simp [i1], ?_, ?_⟩
      · intro r' hr'
        rcases List.mem_cons.mp hr' with rfl | hr'
        · exact ⟨hh.1, hh.2.1⟩
        · exact i2 r' hr'
      · intro p hp
        rw [List.zip_cons_cons] at hp
        rcases List.mem_cons.mp hp with rfl | hp
        · exact hh
        · exact i3 p hp
    · rw [if_neg h0]
      by_cases h2 : ones s > 1
      · rw [if_pos h2]
        obtain ⟨i1, i2, i3⟩ := ih hrest zi (mi + 1)
        have hh := head (oneHot M (ch mi (onIdx s))) (by omega) (fun _ => rfl) (by omega)
        refine ⟨by simp [i1], ?_, ?_⟩
        · intro r' hr'
          rcases List.mem_cons.mp hr' with rfl | hr'
          · exact ⟨hh.1, hh.2.1⟩
          · exact i2 r' hr'
        · intro p hp
          rw [List.zip_cons_cons] at hp
          rcases List.mem_cons.mp hp with rfl | hp
          · exact hh
          · exact i3 p hp
      · rw [if_neg h2]
        obtain ⟨i1, i2, i3⟩ := ih hrest zi mi
        have hh := head s (by omega) (by omega) (fun _ => rfl)
        refine ⟨by simp [i1], ?_, ?_⟩
        · intro r' hr'
          rcases List.mem_cons.mp hr' with rfl | hr'
          · exact ⟨hh.1, hh.2.1⟩
          · exact i2 r' hr'
        · intro p hp
          rw [List.zip_cons_cons] at hp
          rcases List.mem_cons.mp hp with rfl | hp
          · exact hh
          · exact i3 p hp

/-- valid symbols are not touched, whatever the oracle says -/
theorem hddSyms_id (M : Nat) (ri : Nat → Nat → Nat) (ch : Nat → List Nat → Nat) (rows : List (List Bool))
    (h : ∀ r ∈ rows, ones r = 1) (zi mi : Nat) : hddSyms M ri ch rows zi mi = rows := by
  induction rows generalizing zi mi with
  | nil => rfl
  | cons s rest ih =>
    have h1 := h s (by simp)
    simp only [hddSyms]
    rw [if_neg (by omega), if_neg (by omega), ih (fun r hx => h r (List.mem_cons_of_mem _ hx))]

/-- a valid PPM codeword of order `M`: whole symbols, exactly one ON slot in each -/
def ValidCW (M : Nat) (slots : List Bool) : Prop :=
  slots.length % M = 0 ∧ ∀ r ∈ chunks M (slots.length / M) slots, ones r = 1

/-- `hddBits` on a natural order, unfolded -/
theorem hddBits_nat (M : Nat) (ri : Nat → Nat → Nat) (ch : Nat → List Nat → Nat) (slots : List Bool) :
    hddBits (M : Int) ri ch slots =
      if ¬ pow2Test (M : Int) = true then .error .ValueError
      else if slots.length % M ≠ 0 then .error .ValueError
      else .ok (hddSyms M ri ch (chunks M (slots.length / M) slots) 0 0).flatten := by
  unfold hddBits
  simp only [Int.toNat_natCast, Bool.not_eq_eq_eq_not, Bool.not_true, Bool.not_eq_true]

/-- rows of the result of an accepted call -/
theorem hddBits_rows (M : Nat) (ri : Nat → Nat → Nat) (ch : Nat → List Nat → Nat) (hr : RandintOK ri) (hc : ChoiceOK ch)
    (slots out : List Bool) (h : hddBits (M : Int) ri ch slots = .ok out) :
    0 < M ∧ slots.length % M = 0 ∧ out.length = slots.length ∧
    chunks M (slots.length / M) out = hddSyms M ri ch (chunks M (slots.length / M) slots) 0 0 := by
  rw [hddBits_nat] at h
  split at h
  · cases h
  · next hp =>
    split at h
    · cases h
    · next hlen =>
      have hpos : 0 < M := pow2Test_pos M (by simpa using hp)
      have hlen' : slots.length % M = 0 := by omega
      injection h with h
      have hrows := chunks_row_length M (slots.length / M) slots (Nat.div_mul_le_self _ _)
      obtain ⟨l1, l2, _⟩ := hddSyms_spec M hpos ri ch hr hc _ hrows 0 0
      rw [chunks_length] at l1
      have hfl := length_flatten_of_rows M _ (fun r hx => (l2 r hx).1)
      rw [l1, Nat.div_mul_cancel (Nat.dvd_of_mod_eq_zero hlen')] at hfl
      refine ⟨hpos, hlen', by rw [← h]; exact hfl, ?_⟩
      rw [← h]
      have := chunks_flatten M _ (fun r hx => (l2 r hx).1)
      rw [l1] at this
      exact this

/-! ### SDD: argmax -/

section
variable {R : Type} [LinearOrder R]

theorem argmaxAux_spec (xs pre : List R) (best : R) (bi : Nat)
    (hb : pre[bi]? = some best)
    (hle : ∀ (j : Nat) x, pre[j]? = some x → x ≤ best) (hlt : ∀ (j : Nat) x, j < bi → pre[j]? = some x → x < best) :
    ∃ v, (pre ++ xs)[argmaxAux xs best bi pre.length]? = some v ∧
      (∀ (j : Nat) x, (pre ++ xs)[j]? = some x → x ≤ v) ∧
      (∀ (j : Nat) x, j < argmaxAux xs best bi pre.length → (pre ++ xs)[j]? = some x → x < v) := by
  induction xs generalizing pre best bi with
  | nil =>
    refine ⟨best, by simpa [argmaxAux] using hb, by simpa using hle, by simpa [argmaxAux] using hlt⟩
  | cons y ys ih =>
    have hbi : bi < pre.length := by
      by_contra hcon
      rw [List.getElem?_eq_none (by omega)] at hb
      cases hb
    have happ : pre ++ y :: ys = (pre ++ [y]) ++ ys := by simp
    have hlen : (pre ++ [y]).length = pre.length + 1 := by simp
    have getpre : ∀ (j : Nat) x, (pre ++ [y])[j]? = some x → (j < pre.length ∧ pre[j]? = some x) ∨ (j = pre.length ∧ x = y) := by
      intro j x hx
      by_cases hj : j < pre.length
      · rw [List.getElem?_append_left hj] at hx; exact Or.inl ⟨hj, hx⟩
      · rw [List.getElem?_append_right (by omega)] at hx
        by_cases hj' : j = pre.length
        · subst hj'; simp at hx; exact Or.inr ⟨rfl, hx.symm⟩
        · rw [List.getElem?_eq_none (by simp; omega)] at hx; cases hx
    simp only [argmaxAux]
    by_cases hlt' : best < y
    · rw [if_pos hlt', happ, ← hlen]
      apply ih
      · simp
      · intro j x hx
        rcases getpre j x hx with ⟨_, h⟩ | ⟨_, rfl⟩
        · exact le_of_lt (lt_of_le_of_lt (hle j x h) hlt')
        · exact le_refl _
      · intro j x hj hx
        rcases getpre j x hx with ⟨_, h⟩ | ⟨h, _⟩
        · exact lt_of_le_of_lt (hle j x h) hlt'
        · omega
    · rw [if_neg hlt', happ, ← hlen]
      apply ih
      · rw [List.getElem?_append_left hbi]; exact hb
      · intro j x hx
        rcases getpre j x hx with ⟨_, h⟩ | ⟨_, rfl⟩
        · exact hle j x h
        · exact not_lt.mp hlt'
      · intro j x hj hx
        rcases getpre j x hx with ⟨_, h⟩ | ⟨h, _⟩
        · exact hlt j x hj h
        · omega

/-- `np.argmax`: in range, a maximum, and the first one -/
theorem argmax_spec (l : List R) (hl : l ≠ []) :
    ∃ v, l[argmax l]? = some v ∧ (∀ (j : Nat) x, l[j]? = some x → x ≤ v) ∧
      (∀ (j : Nat) x, j < argmax l → l[j]? = some x → x < v) := by
  cases l with
  | nil => exact absurd rfl hl
  | cons x xs =>
    have := argmaxAux_spec xs [x] x 0 (by simp)
      (by intro j y hy; cases j with
          | zero => simp at hy; exact le_of_eq hy.symm
          | succ j => simp at hy)
      (by intro j y hj; omega)
    simpa [argmax] using this

theorem argmax_lt_length (l : List R) (hl : l ≠ []) : argmax l < l.length := by
  obtain ⟨v, hv, _⟩ := argmax_spec l hl
  by_contra h
  rw [List.getElem?_eq_none (by omega)] at hv
  cases hv

/-- on a row that is `hi` at one place and `lo < hi` elsewhere, argmax is that place -/
theorem argmax_oneHot (M d : Nat) (hd : d < M) (lo hi : R) (h : lo < hi) :
    argmax ((oneHot M d).map (fun b => if b then hi else lo)) = d := by
  have hne : (oneHot M d).map (fun b => if b then hi else lo) ≠ [] := by
    intro hc
    have := congrArg List.length hc
    simp at this; omega
  obtain ⟨v, hv, hmax, _⟩ := argmax_spec _ hne
  have hm := argmax_lt_length _ hne
  rw [List.length_map, oneHot_length] at hm
  by_contra hcon
  rw [List.getElem?_map, oneHot_getElem? M d _ hm] at hv
  have hv' : v = lo := by
    have : decide (d = argmax ((oneHot M d).map (fun b => if b then hi else lo))) = false := by
      simp; exact fun h => hcon h.symm
    rw [this] at hv; simpa using hv.symm
  have := hmax d hi (by rw [List.getElem?_map, oneHot_getElem? M d d hd]; simp)
  rw [hv'] at this
  exact absurd h (not_lt.mpr this)

variable [Add R] [Zero R]

/-- `sdd` on a natural order, unfolded -/
theorem sdd_nat (M sps : Nat) (x : List R) :
    sdd (M : Int) sps x =
      if ¬ pow2Test (M : Int) = true then .error .ValueError
      else if M * sps = 0 then .error .Other
      else if x.length % (M * sps) ≠ 0 then .error .ValueError
      else .ok ((chunks M ((slotSums sps x).length / M) (slotSums sps x)).map
                  (fun sym => oneHot M (argmax sym))).flatten := by
  unfold sdd
  rw [pow2TestS_eq]
  simp only [Int.toNat_natCast, Bool.not_eq_eq_eq_not, Bool.not_true, Bool.not_eq_true]

omit [LinearOrder R] in
theorem slotSums_length (sps : Nat) (x : List R) : (slotSums sps x).length = x.length / sps := by
  simp [slotSums]

/-- rows of the result of an accepted call -/
theorem sdd_rows (M sps : Nat) (x : List R) (out : List Bool) (h : sdd (M : Int) sps x = .ok out) :
    0 < M ∧ 0 < sps ∧ x.length % (M * sps) = 0 ∧ (x.length / sps) % M = 0 ∧ out.length = x.length / sps ∧
    chunks M (x.length / sps / M) out =
      (chunks M (x.length / sps / M) (slotSums sps x)).map (fun sym => oneHot M (argmax sym)) := by
  rw [sdd_nat] at h
  split at h
  · cases h
  · split at h
    · cases h
    · split at h
      · cases h
      · next hMs hlen =>
        have hM : 0 < M := Nat.pos_of_ne_zero (fun hc => hMs (by simp [hc]))
        have hs : 0 < sps := Nat.pos_of_ne_zero (fun hc => hMs (by simp [hc]))
        have hlen' : x.length % (M * sps) = 0 := by omega
        obtain ⟨q, hq⟩ := Nat.dvd_of_mod_eq_zero hlen'
        have hdiv : x.length / sps = q * M := by
          rw [hq, show M * sps * q = sps * (q * M) by
            rw [Nat.mul_comm M sps, Nat.mul_assoc, Nat.mul_comm M q]]
          exact Nat.mul_div_cancel_left _ hs
        have hmod : (x.length / sps) % M = 0 := by rw [hdiv]; exact Nat.mul_mod_left _ _
        injection h with h
        rw [slotSums_length] at h
        have hrl : ∀ r ∈ (chunks M (x.length / sps / M) (slotSums sps x)).map (fun sym => oneHot M (argmax sym)),
            r.length = M := by
          intro r hr
          obtain ⟨sym, _, rfl⟩ := List.mem_map.mp hr
          simp
        have hfl := length_flatten_of_rows M _ hrl
        rw [List.length_map, chunks_length, h] at hfl
        have hcf := chunks_flatten M _ hrl
        rw [List.length_map, chunks_length, h] at hcf
        refine ⟨hM, hs, hlen', hmod, ?_, hcf⟩
        rw [hfl, hdiv, Nat.mul_div_cancel _ hM]
end

end OptiVerif.Ppm
