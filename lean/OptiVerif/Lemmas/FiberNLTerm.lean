/-
C08: termination of the adaptive split-step loop with an explicit fuel bound.
Every step is at least `phi_max / (gamma * E0)` long because the peak total power never exceeds the total energy,
which never exceeds the input energy E0 (loss ≥ 0, steps ≥ 0).
-/
import OptiVerif.Lemmas.FiberNLPol

namespace OptiVerif.FiberNL
open OptiVerif OptiVerif.Fourier OptiVerif.Fiber

/-- the two layouts a container allows: one row, or two rows of equal length -/
def Layout (A : Rows ℝ) : Prop := (∃ x, A = [x]) ∨ (∃ x y, A = [x, y] ∧ x.length = y.length)

/-- total energy over all polarisations -/
def energy (A : Rows ℝ) : ℝ := (A.map sumSq).sum

theorem sumSq_eq_map_sum (xs : List (Cx ℝ)) : sumSq xs = (xs.map Cx.normSq).sum := by
  induction xs with
  | nil => simp [sumSq]
  | cons z zs ih => simp [sumSq, ih]

theorem sum_zipWith_add (p q : List ℝ) (h : p.length = q.length) :
    (List.zipWith (· + ·) p q).sum = p.sum + q.sum := by
  induction p generalizing q with
  | nil => cases q <;> simp_all
  | cons a as ih =>
    cases q with
    | nil => simp at h
    | cons b bs =>
      simp only [List.length_cons, Nat.add_right_cancel_iff] at h
      simp only [List.zipWith_cons_cons, List.sum_cons, ih bs h]
      ring

theorem sum_totalPower (A : Rows ℝ) (hA : Layout A) : (totalPower A).sum = energy A := by
  rcases hA with ⟨x, rfl⟩ | ⟨x, y, rfl, hxy⟩
  · simp [totalPower, energy, sumSq_eq_map_sum]
  · simp only [totalPower, energy, List.map_cons, List.map_nil, List.sum_cons, List.sum_nil, add_zero]
    rw [sum_zipWith_add _ _ (by simp [hxy]), sumSq_eq_map_sum, sumSq_eq_map_sum]

theorem totalPower_nonneg (A : Rows ℝ) (hA : Layout A) : ∀ p ∈ totalPower A, 0 ≤ p := by
  rcases hA with ⟨x, rfl⟩ | ⟨x, y, rfl, hxy⟩
  · intro p hp
    simp only [totalPower, List.mem_map] at hp
    obtain ⟨z, _, rfl⟩ := hp
    exact Cx.normSq_nonneg z
  · intro p hp
    simp only [totalPower] at hp
    rw [List.mem_iff_getElem] at hp
    obtain ⟨i, hi, rfl⟩ := hp
    simp only [List.getElem_zipWith, List.getElem_map]
    exact add_nonneg (Cx.normSq_nonneg _) (Cx.normSq_nonneg _)

theorem maxR_eq_max (a b : ℝ) : maxR a b = max a b := by
  simp only [maxR]
  by_cases h : a < b
  · simp [h, max_eq_right (le_of_lt h)]
  · simp [h, max_eq_left (not_lt.mp h)]

theorem maxList_le_sum (l : List ℝ) (hl : ∀ p ∈ l, 0 ≤ p) : maxList l ≤ l.sum := by
  induction l with
  | nil => simp [maxList]
  | cons a as ih =>
    cases as with
    | nil => simp only [maxList, List.sum_cons, List.sum_nil, add_zero, le_refl]
    | cons b bs =>
      simp only [maxList, maxR_eq_max]
      have h1 := ih (fun p hp => hl p (List.mem_cons_of_mem _ hp))
      have ha : 0 ≤ a := hl a (by simp)
      have hs : 0 ≤ (b :: bs).sum := List.sum_nonneg (fun p hp => hl p (List.mem_cons_of_mem _ hp))
      rw [List.sum_cons]
      apply max_le
      · linarith
      · linarith

theorem maxList_pos (l : List ℝ) (hl : ∀ p ∈ l, 0 ≤ p) (hs : 0 < l.sum) : 0 < maxList l := by
  induction l with
  | nil => simp at hs
  | cons a as ih =>
    cases as with
    | nil => simpa only [maxList, List.sum_cons, List.sum_nil, add_zero] using hs
    | cons b bs =>
      simp only [maxList, maxR_eq_max]
      have hnn : ∀ p ∈ (b :: bs), 0 ≤ p := fun p hp => hl p (List.mem_cons_of_mem _ hp)
      by_cases ha : 0 < a
      · exact lt_max_of_lt_left ha
      · have ha0 : a = 0 := le_antisymm (not_lt.mp ha) (hl a (by simp))
        rw [List.sum_cons, ha0, zero_add] at hs
        have := ih hnn hs
        exact lt_max_of_lt_right this

theorem peak_le_energy (A : Rows ℝ) (hA : Layout A) : peak A ≤ energy A := by
  rw [← sum_totalPower A hA]
  exact maxList_le_sum _ (totalPower_nonneg A hA)

theorem peak_pos (A : Rows ℝ) (hA : Layout A) (hE : 0 < energy A) : 0 < peak A := by
  rw [← sum_totalPower A hA] at hE
  exact maxList_pos _ (totalPower_nonneg A hA) hE

theorem layout_step (wConv fs alphaP b2 b3 gamma : ℝ) (A : Rows ℝ) (hA : Layout A) (h : ℝ) :
    Layout (step wConv fs alphaP b2 b3 gamma A h) := by
  rcases hA with ⟨x, rfl⟩ | ⟨x, y, rfl, hxy⟩
  · exact Or.inl ⟨stepRow wConv fs alphaP b2 b3 gamma x h, by simp [step]⟩
  · exact Or.inr ⟨stepRow wConv fs alphaP b2 b3 gamma x h, stepRow wConv fs alphaP b2 b3 gamma y h,
      by simp [step], by simp [length_stepRow, hxy]⟩

theorem energy_step (wConv fs alphaP b2 b3 gamma : ℝ) (A : Rows ℝ) (h : ℝ) :
    energy (step wConv fs alphaP b2 b3 gamma A h) = Real.exp (-alphaP * h) * energy A := by
  have := energies_step wConv fs alphaP b2 b3 gamma A h
  simp only [energies] at this
  simp only [energy, this]
  generalize List.map sumSq A = l
  induction l with
  | nil => simp
  | cons a as ih => simp only [List.map_cons, List.sum_cons, ih]; ring

/-- the loop terminates as soon as the fuel exceeds (L - x)/hmin + 1, hmin = phi/(gamma·E0) -/
theorem loop_terminates (wConv fs alphaP b2 b3 gamma phiMax L E0 : ℝ)
    (hg : 0 < gamma) (hphi : 0 < phiMax) (ha : 0 ≤ alphaP) (hE0 : 0 < E0)
    (fuel : ℕ) (A : Rows ℝ) (h x : ℝ) (acc : List ℝ)
    (hA : Layout A) (hE : 0 < energy A) (hEle : energy A ≤ E0) (hh : 0 ≤ h) (hx : x ≤ L)
    (hfuel : (L - x) / (phiMax / (gamma * E0)) + 1 < fuel) :
    ∃ r, loop (step wConv fs alphaP b2 b3 gamma) (nextH gamma phiMax L) L fuel A h x acc = .ok r := by
  have hmin_pos : 0 < phiMax / (gamma * E0) := div_pos hphi (mul_pos hg hE0)
  induction fuel generalizing A h x acc with
  | zero =>
    exfalso
    have : 0 ≤ (L - x) / (phiMax / (gamma * E0)) := div_nonneg (by linarith) hmin_pos.le
    simp only [Nat.cast_zero] at hfuel
    linarith
  | succ fuel ih =>
    simp only [loop]
    split
    · exact ⟨_, rfl⟩
    · next hcont =>
      set A' := step wConv fs alphaP b2 b3 gamma A h with hA'
      have hLA' : Layout A' := layout_step _ _ _ _ _ _ A hA h
      have hEA' : energy A' = Real.exp (-alphaP * h) * energy A := energy_step _ _ _ _ _ _ A h
      have hexp_le : Real.exp (-alphaP * h) ≤ 1 := by
        rw [Real.exp_le_one_iff]
        have : 0 ≤ alphaP * h := mul_nonneg ha hh
        linarith
      have hEpos : 0 < energy A' := by rw [hEA']; exact mul_pos (Real.exp_pos _) hE
      have hEle' : energy A' ≤ E0 := by
        rw [hEA']
        calc Real.exp (-alphaP * h) * energy A ≤ 1 * energy A := mul_le_mul_of_nonneg_right hexp_le hE.le
          _ = energy A := one_mul _
          _ ≤ E0 := hEle
      have hpk_pos : 0 < peak A' := peak_pos A' hLA' hEpos
      have hpk_le : peak A' ≤ E0 := le_trans (peak_le_energy A' hLA') hEle'
      have hnext : nextH gamma phiMax L A' = phiMax / (gamma * peak A') := by
        simp [nextH, hg.ne']
      have hstep_ge : phiMax / (gamma * E0) ≤ nextH gamma phiMax L A' := by
        rw [hnext]
        apply div_le_div_of_nonneg_left hphi.le (mul_pos hg hpk_pos)
        exact mul_le_mul_of_nonneg_left hpk_le hg.le
      have hnot : ¬ L < x + nextH gamma phiMax L A' := by simpa using hcont
      apply ih A' (nextH gamma phiMax L A') (x + nextH gamma phiMax L A') (h :: acc) hLA' hEpos hEle'
        (le_trans hmin_pos.le hstep_ge) (not_lt.mp hnot)
      -- fuel arithmetic
      have h1 : (L - (x + nextH gamma phiMax L A')) / (phiMax / (gamma * E0))
          ≤ (L - x) / (phiMax / (gamma * E0)) - 1 := by
        have : (L - x) / (phiMax / (gamma * E0)) - 1
            = (L - x - phiMax / (gamma * E0)) / (phiMax / (gamma * E0)) := by
          field_simp
        rw [this, div_le_div_iff_of_pos_right hmin_pos]
        linarith
      push_cast at hfuel
      linarith

end OptiVerif.FiberNL
