/-
Structural lemmas about the container model (`Model/Container.lean`, C01).  Core Lean only.

Main reduction: every object the code builds from arrays it already holds goes through
`construct cls (arr …) (… arr …) dtype`; `construct_arr_some` / `construct_arr_none` show that this call equals the
transparent function `build` (a plain shape test).  All operator / slicing theorems are then statements about `build`.
-/
import OptiVerif.Model.Container

set_option linter.unusedSectionVars false

namespace OptiVerif.Container
open OptiVerif
open OptiVerif.Wire (Err)

variable {α : Type}

/-! ### dtype lattice -/

theorem DType.rank_le_max_left (a b : DType) : a.rank ≤ (DType.max a b).rank := by
  unfold DType.max; split <;> omega

theorem DType.rank_le_max_right (a b : DType) : b.rank ≤ (DType.max a b).rank := by
  unfold DType.max; split <;> omega

theorem DType.max_self (a : DType) : DType.max a a = a := by simp [DType.max]

theorem castV_of_le [DropIm α] {src tgt : DType} (h : src.rank ≤ tgt.rank) (x : α) : castV src tgt x = x := by
  unfold castV
  split
  · rename_i hc
    obtain ⟨h1, h2⟩ := hc
    subst h1
    cases tgt <;> simp [DType.rank] at h h2
  · rfl

theorem castV_fun_of_le [DropIm α] {src tgt : DType} (h : src.rank ≤ tgt.rank) :
    (castV src tgt : α → α) = id := funext (castV_of_le h)

theorem Data.map_id' (d : Data α) : d.map id = d := by
  cases d <;> simp [Data.map]

theorem Data.shape_map (f : α → α) (d : Data α) : (d.map f).shape = d.shape := by
  cases d with
  | s x => rfl
  | v xs => simp [Data.map, Data.shape]
  | m rows => cases rows <;> simp [Data.map, Data.shape]

theorem Data.lastDim_map (f : α → α) (d : Data α) : (d.map f).lastDim = d.lastDim := by
  cases d with
  | s x => rfl
  | v xs => simp [Data.map, Data.lastDim]
  | m rows => cases rows <;> simp [Data.map, Data.lastDim]

theorem rect_map (f : α → α) (rows : List (List α)) : rect (rows.map (List.map f)) = rect rows := by
  cases rows with
  | nil => rfl
  | cons r rs => simp [rect, List.all_map, Function.comp_def]

theorem Data.rect_map (f : α → α) (d : Data α) : (d.map f).Rect ↔ d.Rect := by
  cases d <;> simp [Data.map, Data.Rect, Container.rect_map]

/-! ### rows -/

namespace Rows

def validB : Rows α → Bool
  | one xs => decide (1 ≤ xs.length)
  | two xs ys => decide (1 ≤ xs.length) && decide (ys.length = xs.length)

theorem validB_iff (r : Rows α) : r.validB = true ↔ r.Valid := by
  cases r <;> simp [validB, Valid]

@[simp] theorem count_mapL (f : List α → List α) (r : Rows α) : (r.mapL f).count = r.count := by
  cases r <;> rfl

@[simp] theorem count_map (f : α → α) (r : Rows α) : (r.map f).count = r.count := count_mapL _ r

@[simp] theorem len_map (f : α → α) (r : Rows α) : (r.map f).len = r.len := by
  cases r <;> simp [map, mapL, len]

theorem valid_map (f : α → α) (r : Rows α) : (r.map f).Valid ↔ r.Valid := by
  cases r <;> simp [map, mapL, Valid]

theorem count_pos (r : Rows α) : 1 ≤ r.count := by cases r <;> simp [count]
theorem count_le_two (r : Rows α) : r.count ≤ 2 := by cases r <;> simp [count]

theorem len_pos {r : Rows α} (h : r.Valid) : 1 ≤ r.len := by
  cases r <;> simp_all [Valid, len]

/-- broadcast of the right operand of `zipB` to the length of the left one -/
def bc (n : Nat) : List α → List α
  | [y] => List.replicate n y
  | ys => ys

theorem map_eq_zipWith_replicate (f : α → α → α) (y : α) (xs : List α) :
    xs.map (fun x => f x y) = List.zipWith f xs (List.replicate xs.length y) := by
  induction xs with
  | nil => rfl
  | cons x xs ih => simp [List.replicate_succ, ih]

theorem zipB_eq (f : α → α → α) {xs ys : List α} (h : ys.length = xs.length ∨ ys.length = 1) :
    zipB f xs ys = List.zipWith f xs (bc xs.length ys) := by
  match ys, h with
  | [y], _ =>
    exact map_eq_zipWith_replicate f y xs
  | [], h =>
    have : xs = [] := by
      cases xs with
      | nil => rfl
      | cons x xs => simp at h
    subst this
    rfl
  | y :: y' :: ys, h =>
    match xs, h with
    | [], h => simp at h
    | [x], h => simp at h
    | x :: x' :: xs, _ => rfl

theorem bc_length {n : Nat} {ys : List α} (h : ys.length = n ∨ ys.length = 1) : (bc n ys).length = n := by
  unfold bc
  split
  · simp
  · rcases h with h | h
    · exact h
    · rename_i hne
      exfalso
      match ys, h with
      | [y], _ => exact hne y rfl

theorem zipB_length (f : α → α → α) {xs ys : List α} (h : ys.length = xs.length ∨ ys.length = 1) :
    (zipB f xs ys).length = xs.length := by
  rw [zipB_eq f h, List.length_zipWith, bc_length h, Nat.min_self]

theorem bin_count (f : α → α → α) (a b : Rows α) : (bin f a b).count = Nat.max a.count b.count := by
  cases a <;> cases b <;> rfl

theorem bin_len (f : α → α → α) {a b : Rows α} (h : b.len = a.len ∨ b.len = 1) : (bin f a b).len = a.len := by
  cases a <;> cases b <;> simp only [bin, len] at * <;> exact zipB_length f h

theorem bin_valid (f : α → α → α) {a b : Rows α} (ha : a.Valid) (hb : b.Valid) (h : b.len = a.len ∨ b.len = 1) :
    (bin f a b).Valid := by
  cases a <;> cases b <;> simp only [bin, len, Valid] at *
  · rw [zipB_length f h]; exact ha
  · rw [zipB_length f h, zipB_length f (by omega)]; exact ⟨ha, rfl⟩
  · rw [zipB_length f h, zipB_length f (by omega)]; exact ha
  · rw [zipB_length f h, zipB_length f (by omega)]; exact ha

end Rows

/-! ### the transparent constructor -/

/-- what `self.__class__(rows, noise, dtype)` amounts to for arrays of shape (N,) / (2,N): a shape test -/
def build (c : Cls) (dt : DType) (rows : Rows α) (nz : Option (Rows α)) : Except Err (Sig α) :=
  if rows.validB = true ∧ (c = .E → rows.count = 1) ∧
      (∀ n, nz = some n → n.validB = true ∧ n.count = rows.count ∧ n.len = rows.len) then
    .ok ⟨c, rows.count, dt, rows, nz⟩
  else .error .ValueError

theorem build_ok {c : Cls} {dt : DType} {rows : Rows α} {nz : Option (Rows α)} {s : Sig α}
    (h : build c dt rows nz = .ok s) :
    s = ⟨c, rows.count, dt, rows, nz⟩ ∧ rows.Valid ∧ (c = .E → rows.count = 1) ∧
      (∀ n, nz = some n → n.Valid ∧ n.count = rows.count ∧ n.len = rows.len) := by
  unfold build at h
  split at h
  · rename_i hc
    obtain ⟨h1, h2, h3⟩ := hc
    refine ⟨by injection h with h; exact h.symm, (Rows.validB_iff _).1 h1, h2, ?_⟩
    intro n hn
    obtain ⟨a, b, c⟩ := h3 n hn
    exact ⟨(Rows.validB_iff _).1 a, b, c⟩
  · cases h

theorem build_wf {c : Cls} {dt : DType} {rows : Rows α} {nz : Option (Rows α)} {s : Sig α}
    (h : build c dt rows nz = .ok s) : WF s := by
  obtain ⟨rfl, h1, h2, h3⟩ := build_ok h
  exact ⟨h1, h3, rfl, h2⟩

theorem build_error {c : Cls} {dt : DType} {rows : Rows α} {nz : Option (Rows α)} {e : Err}
    (h : build c dt rows nz = .error e) : e = .ValueError := by
  unfold build at h
  split at h
  · cases h
  · injection h with h; exact h.symm

theorem build_of {c : Cls} {dt : DType} {rows : Rows α} {nz : Option (Rows α)}
    (h1 : rows.Valid) (h2 : c = .E → rows.count = 1)
    (h3 : ∀ n, nz = some n → n.Valid ∧ n.count = rows.count ∧ n.len = rows.len) :
    build c dt rows nz = .ok ⟨c, rows.count, dt, rows, nz⟩ := by
  unfold build
  rw [if_pos]
  refine ⟨(Rows.validB_iff _).2 h1, h2, ?_⟩
  intro n hn
  obtain ⟨a, b, c⟩ := h3 n hn
  exact ⟨(Rows.validB_iff _).2 a, b, c⟩

/-! ### `self.__class__(array, array, dtype)` is `build` -/

macro "cstr_simp" : tactic =>
  `(tactic| simp [construct, mkE, mkO, prep, npArray, Data.ragged, unifyDt, arr, Rows.toData, rect, Data.map, normE, normO,
        Data.shape, build, Rows.validB, Rows.count, Rows.len, DType.max_self, polOfNat,
        Gen.Container.npolDefault_scalar, Gen.Container.npolDefault_vec, Gen.Container.npolDefault_row1,
        Gen.Container.npolDefault_row2, *])

/-- operators: arrays of dtype tags below `dt`, `dtype=dt` -/
theorem construct_arr_some [DropIm α] (c : Cls) {t dt : DType} (ht : t.rank ≤ dt.rank) (rows : Rows α)
    (nz : Option (DType × Rows α)) (hn : ∀ p, nz = some p → p.1.rank ≤ dt.rank) :
    construct c (arr t rows) (nz.map fun p => arr p.1 p.2) (some dt) = build c dt rows (nz.map (·.2)) := by
  have hid : (castV dt dt : α → α) = id := castV_fun_of_le (Nat.le_refl _)
  have ht' : (castV t dt : α → α) = id := castV_fun_of_le ht
  cases nz with
  | none =>
    clear hn
    cases rows with
    | one xs => cases xs <;> cases c <;> cstr_simp
    | two xs ys =>
      by_cases h : ys.length = xs.length
      · cases xs <;> cases c <;> cstr_simp
      · cases c <;> cstr_simp
  | some p =>
    obtain ⟨tn, n⟩ := p
    have hn' : (castV tn dt : α → α) = id := castV_fun_of_le (hn _ rfl)
    clear hn
    cases rows with
    | one xs =>
      cases n with
      | one ns =>
        by_cases h : xs.length = ns.length
        · cases xs <;> cases ns <;> cases c <;> cstr_simp <;> omega
        · cases c <;> cstr_simp <;> omega
      | two n1 n2 =>
        by_cases h : n2.length = n1.length
        · cases c <;> cstr_simp
        · cases c <;> cstr_simp <;> omega
    | two xs ys =>
      by_cases h : ys.length = xs.length
      · cases n with
        | one ns => cases xs <;> cases c <;> cstr_simp
        | two n1 n2 =>
          by_cases h2 : n2.length = n1.length
          · by_cases h3 : xs.length = n1.length
            · cases xs <;> cases n1 <;> cases c <;> cstr_simp <;> omega
            · cases c <;> cstr_simp <;> omega
          · cases c <;> cstr_simp <;> omega
      · cases n with
        | one ns => cases c <;> cstr_simp <;> omega
        | two n1 n2 => cases c <;> cstr_simp <;> omega

/-- slicing: arrays of the object's own dtype, no `dtype` argument -/
theorem construct_arr_none [DropIm α] (c : Cls) (t : DType) (rows : Rows α) (nz : Option (Rows α)) :
    construct c (arr t rows) (nz.map (arr t)) none = build c t rows nz := by
  have hid : (castV t t : α → α) = id := castV_fun_of_le (Nat.le_refl _)
  cases nz with
  | none =>
    cases rows with
    | one xs => cases xs <;> cases c <;> cstr_simp
    | two xs ys =>
      by_cases h : ys.length = xs.length
      · cases xs <;> cases c <;> cstr_simp
      · cases c <;> cstr_simp
  | some n =>
    cases rows with
    | one xs =>
      cases n with
      | one ns =>
        by_cases h : xs.length = ns.length
        · cases xs <;> cases ns <;> cases c <;> cstr_simp <;> omega
        · cases c <;> cstr_simp <;> omega
      | two n1 n2 =>
        by_cases h : n2.length = n1.length
        · cases c <;> cstr_simp
        · cases c <;> cstr_simp <;> omega
    | two xs ys =>
      by_cases h : ys.length = xs.length
      · cases n with
        | one ns => cases xs <;> cases c <;> cstr_simp
        | two n1 n2 =>
          by_cases h2 : n2.length = n1.length
          · by_cases h3 : xs.length = n1.length
            · cases xs <;> cases n1 <;> cases c <;> cstr_simp <;> omega
            · cases c <;> cstr_simp <;> omega
          · cases c <;> cstr_simp <;> omega
      · cases n with
        | one ns => cases c <;> cstr_simp <;> omega
        | two n1 n2 => cases c <;> cstr_simp <;> omega

/-- integer index on a one-row object: the 0-d scalars `signal[i]`, `noise[i]` -/
theorem construct_scalar [DropIm α] (c : Cls) (t : DType) (x : α) (nz : Option α) (py : Bool := false) :
    construct c ⟨py, t, .s x⟩ (nz.map fun n => ⟨false, t, .s n⟩) none
      = .ok ⟨c, 1, t, .one [x], nz.map fun n => .one [n]⟩ := by
  have hid : (castV t t : α → α) = id := castV_fun_of_le (Nat.le_refl _)
  cases nz <;> cases c <;> cstr_simp

/-! ### operators, slicing and indexing in terms of `build` -/

/-- the operator as the documentation describes it: rejects exactly `len ≠ len ∧ other.len ≠ 1` with ValueError and
    broadcasts the noise of `other`.  The four tables generated from the source are of this kind (`addSpec_std` …) -/
structure OpSpec.Std (op : OpSpec α) : Prop where
  rej : ∀ m n, op.rej m n = true ↔ (m ≠ n ∧ n ≠ 1)
  exc : op.exc = .ValueError
  bcast : op.bcastOther = true

theorem binop_eq [DropIm α] (op : OpSpec α) (a b : Sig α) :
    binop op a b = if op.rej a.len b.len = true then .error op.exc
      else build a.cls (DType.max a.dt b.dt) (Rows.bin op.fs a.sig b.sig) ((opNoise op a b).map (·.2)) := by
  unfold binop
  split
  · rfl
  · apply construct_arr_some _ (Nat.le_refl _)
    intro p hp
    unfold opNoise at hp
    split at hp <;> cases hp
    · exact DType.rank_le_max_right _ _
    · exact DType.rank_le_max_left _ _
    · exact Nat.le_refl _

theorem opNoise_std {op : OpSpec α} (h : op.bcastOther = true) (a b : Sig α) :
    opNoise op a b =
      match a.noise, b.noise with
      | none, none => none
      | none, some nb => some (b.dt, Rows.bin (fun _ y => op.onlyOther y) a.sig nb)
      | some na, none => some (a.dt, na.map op.onlySelf)
      | some na, some nb => some (DType.max a.dt b.dt, Rows.bin op.fn na nb) := by
  unfold opNoise
  cases a.noise <;> cases b.noise <;> simp [h]

theorem getSlice_eq [DropIm α] (a : Sig α) (st sp step : Option Int) :
    getSlice a st sp step =
      match sliceIdx st sp step a.len with
      | .error e => .error e
      | .ok idx => build a.cls a.dt (a.sig.mapL (pick idx)) (a.noise.map (Rows.mapL (pick idx))) := by
  unfold getSlice
  cases sliceIdx st sp step a.len with
  | error e => rfl
  | ok idx =>
    have := construct_arr_none a.cls a.dt (a.sig.mapL (pick idx)) (a.noise.map (Rows.mapL (pick idx)))
    rw [Option.map_map] at this
    exact this

/-! ### constructors on arbitrary input -/

/-- polarisation count the `n_pol` table gives an array: scalars and 1-D default to 1, 2-D to 2 -/
def rawPol (d : Data α) (p : Option Pol) : Nat :=
  (p.getD (match d with | .m _ => .p2 | _ => .p1)).toNat

theorem npArray_spec [DropIm α] {r : Raw α} {d : Option DType} {t : DType} {x : Data α}
    (h : npArray r d = .ok (t, x)) : r.data.Rect ∧ ∃ f : α → α, x = r.data.map f := by
  unfold npArray at h
  cases hr : r.data.ragged with
  | true => simp [hr] at h
  | false =>
    have hrect : r.data.Rect := by
      cases hd : r.data <;> simp_all [Data.Rect, Data.ragged]
    refine ⟨hrect, ?_⟩
    cases d with
    | none =>
      simp [hr] at h
      exact ⟨id, by rw [Data.map_id']; exact h.2.symm⟩
    | some d =>
      simp only [hr] at h
      by_cases hc : r.py = true ∧ r.dt = DType.complex ∧ d ≠ DType.complex
      · simp [hc] at h
      · simp [hc] at h
        exact ⟨_, h.2.symm⟩

theorem lastDim_of_shape {d d' : Data α} (h : d'.shape = d.shape) : d'.lastDim = d.lastDim := by
  cases d with
  | s x => cases d' <;> simp_all [Data.shape, Data.lastDim]
  | v xs => cases d' <;> simp_all [Data.shape, Data.lastDim]
  | m rows =>
    cases d' with
    | s x => simp [Data.shape] at h
    | v ys => simp [Data.shape] at h
    | m rows' =>
      simp only [Data.shape, List.cons.injEq, and_true] at h
      simp only [Data.lastDim]
      exact h.2

theorem rawPol_of_shape {d d' : Data α} (h : d'.shape = d.shape) (p : Option Pol) : rawPol d' p = rawPol d p := by
  cases d <;> cases d' <;> simp_all [Data.shape, rawPol]

/-- what `prep` returns, in terms of its inputs -/
theorem prep_spec [DropIm α] {sig : Raw α} {noise : Option (Raw α)} {dtype : Option DType}
    {t : DType} {sd : Data α} {nd : Option (Data α)} (h : prep sig noise dtype = .ok (t, sd, nd)) :
    sd.Rect ∧ sd.shape = sig.data.shape ∧ (nd.isSome = noise.isSome) ∧
      ∀ n, nd = some n → n.Rect ∧ n.shape = sd.shape := by
  unfold prep at h
  cases hs : npArray sig dtype with
  | error e => simp [hs] at h
  | ok p =>
    obtain ⟨ds, s⟩ := p
    obtain ⟨hr, f, rfl⟩ := npArray_spec hs
    cases noise with
    | none =>
      simp [hs] at h
      obtain ⟨_, h2, h3⟩ := h
      subst h2 h3
      exact ⟨(Data.rect_map _ _).2 hr, Data.shape_map _ _, rfl, by intro n hn; cases hn⟩
    | some nr =>
      cases hn : npArray nr dtype with
      | error e => simp [hs, hn] at h
      | ok q =>
        obtain ⟨dn, n⟩ := q
        obtain ⟨hrn, g, rfl⟩ := npArray_spec hn
        simp only [hs, hn] at h
        by_cases hshape : (Data.map f sig.data).shape = (Data.map g nr.data).shape
        · simp [hshape] at h
          obtain ⟨_, h2, h3⟩ := h
          subst h2 h3
          refine ⟨(Data.rect_map _ _).2 ((Data.rect_map _ _).2 hr), by simp [Data.shape_map], rfl, ?_⟩
          intro n hn
          injection hn with hn; subst hn
          refine ⟨(Data.rect_map _ _).2 ((Data.rect_map _ _).2 hrn), ?_⟩
          simp only [Data.shape_map] at hshape ⊢
          exact hshape.symm
        · simp [hshape] at h

theorem normE_spec {d : Data α} {rs : Rows α} (h : normE d = .ok rs) :
    rs.Valid ∧ rs.count = 1 ∧ rs.len = d.lastDim := by
  cases d with
  | s x => simp [normE] at h; subst h; simp [Rows.Valid, Rows.count, Rows.len, Data.lastDim]
  | v xs =>
    simp only [normE] at h
    split at h
    · cases h
    · injection h with h; subst h
      simp [Rows.Valid, Rows.count, Rows.len, Data.lastDim]; omega
  | m rows => simp [normE] at h

theorem normO_spec {p : Option Pol} {d : Data α} {k : Nat} {rs : Rows α} (h : normO p d = .ok (k, rs))
    (hr : d.Rect) : rs.Valid ∧ k = rs.count ∧ k = rawPol d p ∧ rs.len = d.lastDim := by
  cases d with
  | s x =>
    rcases p with _ | _ | _ <;> simp [normO, polOfNat, Gen.Container.npolDefault_scalar] at h <;>
      obtain ⟨rfl, rfl⟩ := h <;> simp [Rows.Valid, Rows.count, Rows.len, Data.lastDim, rawPol, Pol.toNat]
  | v xs =>
    simp only [normO] at h
    split at h
    · cases h
    · rcases p with _ | _ | _ <;> simp [polOfNat, Gen.Container.npolDefault_vec] at h <;>
        obtain ⟨rfl, rfl⟩ := h <;>
        simp [Rows.Valid, Rows.count, Rows.len, Data.lastDim, rawPol, Pol.toNat] <;> omega
  | m rows =>
    match rows, h, hr with
    | [], h, _ => simp [normO] at h
    | [r], h, _ =>
      simp only [normO] at h
      split at h
      · cases h
      · rcases p with _ | _ | _ <;> simp [polOfNat, Gen.Container.npolDefault_row1] at h <;>
          obtain ⟨rfl, rfl⟩ := h <;>
          simp [Rows.Valid, Rows.count, Rows.len, Data.lastDim, rawPol, Pol.toNat] <;> omega
    | [r1, r2], h, hr =>
      simp only [normO] at h
      simp [Data.Rect, rect] at hr
      split at h
      · cases h
      · rcases p with _ | _ | _ <;> simp [polOfNat, Gen.Container.npolDefault_row2] at h <;>
          obtain ⟨rfl, rfl⟩ := h <;>
          simp [Rows.Valid, Rows.count, Rows.len, Data.lastDim, rawPol, Pol.toNat, hr] <;> omega
    | _ :: _ :: _ :: _, h, _ => simp [normO] at h

/-- `electrical_signal(...)`: whatever the arguments, a successful call returns a well-formed object -/
theorem mkE_spec [DropIm α] {sig : Raw α} {noise : Option (Raw α)} {dtype : Option DType} {s : Sig α}
    (h : mkE sig noise dtype = .ok s) :
    WF s ∧ s.cls = .E ∧ s.npol = 1 ∧ s.len = sig.data.lastDim ∧ s.noise.isSome = noise.isSome := by
  unfold mkE at h
  cases hp : prep sig noise dtype with
  | error e => simp [hp] at h
  | ok q =>
    obtain ⟨t, sd, nd⟩ := q
    obtain ⟨hr, hsh, hsome, hnz⟩ := prep_spec hp
    simp only [hp] at h
    cases hs : normE sd with
    | error e => simp [hs] at h
    | ok rs =>
      obtain ⟨hv, hc, hl⟩ := normE_spec hs
      simp only [hs] at h
      cases nd with
      | none =>
        injection h with h; subst h
        refine ⟨⟨hv, (by intro n hn; cases hn), hc.symm, fun _ => hc⟩, rfl, rfl, ?_, by simpa using hsome⟩
        simp [Sig.len, hl, lastDim_of_shape hsh]
      | some n =>
        obtain ⟨hrn, hshn⟩ := hnz n rfl
        cases hn : normE n with
        | error e => simp [hn] at h
        | ok rn =>
          obtain ⟨hvn, hcn, hln⟩ := normE_spec hn
          simp [hn] at h; subst h
          refine ⟨⟨hv, ?_, hc.symm, fun _ => hc⟩, rfl, rfl, ?_, by simpa using hsome⟩
          · intro n' hn'
            injection hn' with hn'; subst hn'
            exact ⟨hvn, by rw [hcn, hc], by rw [hln, hl, lastDim_of_shape hshn]⟩
          · simp [Sig.len, hl, lastDim_of_shape hsh]

/-- `optical_signal(...)`: whatever the arguments, a successful call returns a well-formed object whose
    polarisation count is the one of the `n_pol` table -/
theorem mkO_spec [DropIm α] {sig : Raw α} {noise : Option (Raw α)} {npol : Option Pol} {dtype : Option DType}
    {s : Sig α} (h : mkO sig noise npol dtype = .ok s) :
    WF s ∧ s.cls = .O ∧ s.npol = rawPol sig.data npol ∧ s.len = sig.data.lastDim ∧
      s.noise.isSome = noise.isSome := by
  unfold mkO at h
  cases hp : prep sig noise dtype with
  | error e => simp [hp] at h
  | ok q =>
    obtain ⟨t, sd, nd⟩ := q
    obtain ⟨hr, hsh, hsome, hnz⟩ := prep_spec hp
    simp only [hp] at h
    cases hs : normO npol sd with
    | error e => simp [hs] at h
    | ok krs =>
      obtain ⟨k, rs⟩ := krs
      obtain ⟨hv, hk, hkp, hl⟩ := normO_spec hs hr
      simp only [hs] at h
      cases nd with
      | none =>
        injection h with h; subst h
        refine ⟨⟨hv, (by intro n hn; cases hn), hk, (fun h => by cases h)⟩, rfl, ?_, ?_, by simpa using hsome⟩
        · simp [hkp, rawPol_of_shape hsh]
        · simp [Sig.len, hl, lastDim_of_shape hsh]
      | some n =>
        obtain ⟨hrn, hshn⟩ := hnz n rfl
        cases hn : normO npol n with
        | error e => simp [hn] at h
        | ok krn =>
          obtain ⟨kn, rn⟩ := krn
          obtain ⟨hvn, hkn, hkpn, hln⟩ := normO_spec hn hrn
          simp [hn] at h; subst h
          refine ⟨⟨hv, ?_, hk, (fun h => by cases h)⟩, rfl, ?_, ?_, by simpa using hsome⟩
          · intro n' hn'
            injection hn' with hn'; subst hn'
            refine ⟨hvn, ?_, by rw [hln, hl, lastDim_of_shape hshn]⟩
            rw [← hkn, ← hk, hkpn, hkp, rawPol_of_shape hshn]
          · simp [hkp, rawPol_of_shape hsh]
          · simp [Sig.len, hl, lastDim_of_shape hsh]

theorem construct_wf [DropIm α] {c : Cls} {sig : Raw α} {noise : Option (Raw α)} {dtype : Option DType} {s : Sig α}
    (h : construct c sig noise dtype = .ok s) : WF s := by
  cases c
  · exact (mkE_spec h).1
  · exact (mkO_spec h).1


/-! ### CPython slice arithmetic -/

theorem sliceNorm_spec {st sp step : Option Int} {n : Nat} {s e k : Int}
    (h : sliceNorm st sp step n = .ok (s, e, k)) :
    k = step.getD 1 ∧ k ≠ 0 ∧ (0 < k → 0 ≤ s ∧ s ≤ n ∧ 0 ≤ e ∧ e ≤ n) ∧
      (k < 0 → -1 ≤ s ∧ s ≤ n - 1 ∧ -1 ≤ e ∧ e ≤ n - 1) := by
  unfold sliceNorm at h
  by_cases hk : step.getD 1 = 0
  · simp [hk] at h
  · simp only [hk, if_false] at h
    injection h with h
    injection h with h1 h2
    injection h2 with h2 h3
    subst h3
    refine ⟨rfl, hk, ?_, ?_⟩
    · intro hpos
      have hneg : ¬ step.getD 1 < 0 := by omega
      simp only [hneg, if_false] at h1 h2
      subst h1 h2
      refine ⟨?_, ?_, ?_, ?_⟩ <;> (cases st <;> cases sp <;> simp only [] <;> (repeat' split) <;> omega)
    · intro hneg
      simp only [hneg, if_true] at h1 h2
      subst h1 h2
      refine ⟨?_, ?_, ?_, ?_⟩ <;> (cases st <;> cases sp <;> simp only [] <;> (repeat' split) <;> omega)

theorem rangeLen_pos_spec {s e k : Int} (hk : 0 < k) :
    (∀ j : Nat, j < rangeLen s e k → s + j * k < e) ∧ e ≤ s + (rangeLen s e k : Nat) * k := by
  unfold rangeLen
  have hk' : ¬ k < 0 := by omega
  simp only [hk', if_false]
  by_cases hse : s < e
  · simp only [hse, if_true]
    have hq0 : 0 ≤ (e - s - 1) / k := Int.ediv_nonneg (by omega) (by omega)
    have h1 : (e - s - 1) / k * k ≤ e - s - 1 := Int.ediv_mul_le _ (by omega)
    have h2 : e - s - 1 < ((e - s - 1) / k + 1) * k := Int.lt_ediv_add_one_mul_self _ hk
    have hcast : (((e - s - 1) / k + 1).toNat : Int) = (e - s - 1) / k + 1 := Int.toNat_of_nonneg (by omega)
    constructor
    · intro j hj
      have hj' : (j : Int) ≤ (e - s - 1) / k := by omega
      have : (j : Int) * k ≤ (e - s - 1) / k * k := Int.mul_le_mul_of_nonneg_right hj' (by omega)
      omega
    · rw [hcast]; omega
  · simp only [hse, if_false]
    constructor
    · intro j hj; omega
    · simp; omega

theorem rangeLen_neg_spec {s e k : Int} (hk : k < 0) :
    (∀ j : Nat, j < rangeLen s e k → e < s + j * k) ∧ s + (rangeLen s e k : Nat) * k ≤ e := by
  unfold rangeLen
  simp only [hk, if_true]
  by_cases hse : e < s
  · simp only [hse, if_true]
    have hq0 : 0 ≤ (s - e - 1) / (-k) := Int.ediv_nonneg (by omega) (by omega)
    have h1 : (s - e - 1) / (-k) * (-k) ≤ s - e - 1 := Int.ediv_mul_le _ (by omega)
    have h2 : s - e - 1 < ((s - e - 1) / (-k) + 1) * (-k) := Int.lt_ediv_add_one_mul_self _ (by omega)
    have hcast : (((s - e - 1) / (-k) + 1).toNat : Int) = (s - e - 1) / (-k) + 1 := Int.toNat_of_nonneg (by omega)
    constructor
    · intro j hj
      have hj' : (j : Int) ≤ (s - e - 1) / (-k) := by omega
      have : (j : Int) * (-k) ≤ (s - e - 1) / (-k) * (-k) := Int.mul_le_mul_of_nonneg_right hj' (by omega)
      have e1 : (j : Int) * (-k) = -((j : Int) * k) := Int.mul_neg _ _
      omega
    · rw [hcast]
      have e2 : ((s - e - 1) / (-k) + 1) * (-k) = -(((s - e - 1) / (-k) + 1) * k) := Int.mul_neg _ _
      omega
  · simp only [hse, if_false]
    constructor
    · intro j hj; omega
    · simp; omega

/-- every index produced by a slice lies on the axis -/
theorem slice_index_in_range {st sp step : Option Int} {n : Nat} {s e k : Int}
    (h : sliceNorm st sp step n = .ok (s, e, k)) (j : Nat) (hj : j < rangeLen s e k) :
    0 ≤ s + j * k ∧ s + j * k < n := by
  obtain ⟨_, hk0, hpos, hneg⟩ := sliceNorm_spec h
  rcases Int.lt_or_gt_of_ne hk0 with hk | hk
  · obtain ⟨a, b, c, d⟩ := hneg hk
    have := (rangeLen_neg_spec (s := s) (e := e) hk).1 j hj
    have hjk : (j : Int) * k ≤ 0 := Int.mul_nonpos_of_nonneg_of_nonpos (by omega) (by omega)
    omega
  · obtain ⟨a, b, c, d⟩ := hpos hk
    have := (rangeLen_pos_spec (s := s) (e := e) hk).1 j hj
    have hjk : 0 ≤ (j : Int) * k := Int.mul_nonneg (by omega) (by omega)
    omega

theorem sliceIdx_spec {st sp step : Option Int} {n : Nat} {idx : List Nat}
    (h : sliceIdx st sp step n = .ok idx) :
    ∃ s e k, sliceNorm st sp step n = .ok (s, e, k) ∧ idx.length = rangeLen s e k ∧
      (∀ j (hj : j < idx.length), idx[j] = (s + j * k).toNat) ∧ ∀ i ∈ idx, i < n := by
  unfold sliceIdx at h
  cases hn : sliceNorm st sp step n with
  | error err => simp [hn] at h
  | ok q =>
    obtain ⟨s, e, k⟩ := q
    simp only [hn] at h
    injection h with h
    subst h
    refine ⟨s, e, k, rfl, by simp, ?_, ?_⟩
    · intro j hj; simp
    · intro i hi
      simp only [List.mem_map, List.mem_range] at hi
      obtain ⟨j, hj, rfl⟩ := hi
      have := slice_index_in_range hn j hj
      omega

/-! ### picking samples -/

theorem pick_cons_of_lt {i : Nat} {is : List Nat} {xs : List α} (h : i < xs.length) :
    pick (i :: is) xs = xs[i] :: pick is xs := by
  simp [pick, List.getElem?_eq_getElem h]

theorem pick_length {idx : List Nat} {xs : List α} (h : ∀ i ∈ idx, i < xs.length) :
    (pick idx xs).length = idx.length := by
  induction idx with
  | nil => rfl
  | cons i is ih =>
    rw [pick_cons_of_lt (h i (by simp))]
    simp [ih (fun j hj => h j (by simp [hj]))]

/-- the `j`-th picked sample is the sample at the `j`-th index -/
theorem pick_getElem {idx : List Nat} {xs : List α} (h : ∀ i ∈ idx, i < xs.length) (j : Nat)
    (hj : j < idx.length) :
    (pick idx xs)[j]'(by rw [pick_length h]; exact hj) = xs[idx[j]]'(h _ (List.getElem_mem hj)) := by
  induction idx generalizing j with
  | nil => simp at hj
  | cons i is ih =>
    have hi : i < xs.length := h i (by simp)
    have e := pick_cons_of_lt (is := is) hi
    cases j with
    | zero => simp [e]
    | succ j =>
      simp only [e, List.getElem_cons_succ]
      exact ih (fun j hj => h j (by simp [hj])) j (by simpa using hj)

theorem Rows.mapL_pick_valid {idx : List Nat} {r : Rows α} (hr : r.Valid) (h : ∀ i ∈ idx, i < r.len) :
    (r.mapL (pick idx)).Valid ↔ 1 ≤ idx.length := by
  cases r with
  | one xs => simp only [Rows.mapL, Rows.Valid, Rows.len] at *; rw [pick_length h]
  | two xs ys =>
    simp only [Rows.mapL, Rows.Valid, Rows.len] at *
    rw [pick_length h, pick_length (by rw [hr.2]; exact h)]
    simp

theorem Rows.mapL_pick_len {idx : List Nat} {r : Rows α} (h : ∀ i ∈ idx, i < r.len) :
    (r.mapL (pick idx)).len = idx.length := by
  cases r <;> simp only [Rows.mapL, Rows.len] at * <;> exact pick_length h


/-! ### slicing and indexing of a well-formed object -/

theorem getSlice_spec [DropIm α] {a s : Sig α} {st sp step : Option Int} (ha : WF a)
    (h : getSlice a st sp step = .ok s) :
    ∃ idx, sliceIdx st sp step a.len = .ok idx ∧ (∀ i ∈ idx, i < a.len) ∧ 1 ≤ idx.length ∧
      s = ⟨a.cls, a.sig.count, a.dt, a.sig.mapL (pick idx), a.noise.map (Rows.mapL (pick idx))⟩ ∧
      s.len = idx.length ∧ WF s := by
  rw [getSlice_eq] at h
  cases hi : sliceIdx st sp step a.len with
  | error e => simp [hi] at h
  | ok idx =>
    simp only [hi] at h
    obtain ⟨_, _, _, _, _, _, hin⟩ := sliceIdx_spec hi
    obtain ⟨hs, hv, _, _⟩ := build_ok h
    have hwf := build_wf h
    refine ⟨idx, rfl, hin, (Rows.mapL_pick_valid ha.valid hin).1 hv, ?_, ?_, hwf⟩
    · simpa using hs
    · subst hs; exact Rows.mapL_pick_len hin

theorem getSlice_ok_of [DropIm α] {a : Sig α} {st sp step : Option Int} {idx : List Nat} (ha : WF a)
    (hi : sliceIdx st sp step a.len = .ok idx) (hne : 1 ≤ idx.length) :
    ∃ s, getSlice a st sp step = .ok s := by
  rw [getSlice_eq]
  simp only [hi]
  obtain ⟨_, _, _, _, _, _, hin⟩ := sliceIdx_spec hi
  refine ⟨_, build_of ((Rows.mapL_pick_valid ha.valid hin).2 hne) (by simpa using ha.elec_one) ?_⟩
  intro n hn
  cases hnz : a.noise with
  | none => simp [hnz] at hn
  | some nz =>
    simp [hnz] at hn; subst hn
    obtain ⟨hv, hc, hl⟩ := ha.noise_shape nz hnz
    have hin' : ∀ i ∈ idx, i < nz.len := by rw [hl]; exact hin
    exact ⟨(Rows.mapL_pick_valid hv hin').2 hne, by simpa using hc,
      by rw [Rows.mapL_pick_len hin', Rows.mapL_pick_len hin]⟩

theorem getSlice_error [DropIm α] {a : Sig α} {st sp step : Option Int} {e : Err}
    (h : getSlice a st sp step = .error e) : e = .ValueError := by
  rw [getSlice_eq] at h
  cases hi : sliceIdx st sp step a.len with
  | error e' =>
    simp only [hi] at h
    injection h with h; subst h
    unfold sliceIdx at hi
    cases hn : sliceNorm st sp step a.len with
    | error e'' =>
      simp only [hn] at hi
      injection hi with hi; subst hi
      unfold sliceNorm at hn
      by_cases hk : step.getD 1 = 0
      · simp [hk] at hn; exact hn.symm
      · simp [hk] at hn
    | ok q => simp [hn] at hi
  | ok idx => simp only [hi] at h; exact build_error h

theorem normIdx_spec {i : Int} {n k : Nat} (h : normIdx i n = some k) :
    k < n ∧ ((0 ≤ i ∧ (k : Int) = i) ∨ (i < 0 ∧ (k : Int) = i + n)) := by
  unfold normIdx at h
  split at h
  · split at h
    · injection h with h; subst h; omega
    · cases h
  · split at h
    · injection h with h; subst h; omega
    · cases h

theorem normIdx_isSome_iff (i : Int) (n : Nat) : (normIdx i n).isSome ↔ (-(n : Int) ≤ i ∧ i < n) := by
  unfold normIdx
  split
  · split <;> simp <;> omega
  · split <;> simp <;> omega

theorem pick_single {k : Nat} {xs : List α} {x : α} (h : xs[k]? = some x) : pick [k] xs = [x] := by
  simp [pick, h]

/-- `x[i]` on a well-formed object: exactly the sample at the normalised index, in every polarisation of
    signal and noise -/
theorem getIdx_spec [DropIm α] {a s : Sig α} {i : Int} (ha : WF a) (h : getIdx a i = .ok s) :
    ∃ k, normIdx i a.len = some k ∧ k < a.len ∧
      s = ⟨a.cls, a.sig.count, a.dt, a.sig.mapL (pick [k]), a.noise.map (Rows.mapL (pick [k]))⟩ ∧
      s.len = 1 ∧ WF s := by
  unfold getIdx at h
  cases hk : normIdx i a.len with
  | none => simp [hk] at h
  | some k =>
    simp only [hk] at h
    have hklt := (normIdx_spec hk).1
    refine ⟨k, rfl, hklt, ?_⟩
    obtain ⟨cls, npol, dt, sig, noise⟩ := a
    obtain ⟨hv, hns, hnp, hel⟩ := ha
    simp only [Sig.len] at *
    cases sig with
    | one xs =>
      simp only [sampleAt] at h
      cases hx : xs[k]? with
      | none => simp [hx] at h
      | some x =>
        simp only [hx, Option.map_some] at h
        cases noise with
        | none =>
          have := construct_scalar cls dt x none
          simp only [Option.map_none] at this
          simp only [this] at h
          injection h with h; subst h
          refine ⟨by simp [Rows.mapL, Rows.count, pick_single hx], by simp [Rows.len], ?_⟩
          exact ⟨by simp [Rows.Valid], (by intro n hn; cases hn), rfl, fun _ => rfl⟩
        | some n =>
          obtain ⟨hnv, hnc, hnl⟩ := hns n rfl
          cases n with
          | two n1 n2 => simp [Rows.count] at hnc
          | one ns =>
            cases hy : ns[k]? with
            | none => simp [hy] at h
            | some y =>
              simp only [hy, Option.map_some] at h
              have := construct_scalar cls dt x (some y)
              simp only [Option.map_some] at this
              simp only [this] at h
              injection h with h; subst h
              refine ⟨by simp [Rows.mapL, Rows.count, pick_single hx, pick_single hy], by simp [Rows.len], ?_⟩
              refine ⟨by simp [Rows.Valid], ?_, rfl, fun _ => rfl⟩
              intro n hn; injection hn with hn; subst hn
              simp [Rows.Valid, Rows.count, Rows.len]
    | two xs ys =>
      simp only [sampleAt] at h
      cases hx : xs[k]? with
      | none => simp [hx] at h
      | some x =>
        cases hy : ys[k]? with
        | none => simp [hx, hy] at h
        | some y =>
          simp only [hx, hy] at h
          have hE : cls ≠ .E := by
            intro hc; have := hel hc; simp [Rows.count] at this
          cases noise with
          | none =>
            have := construct_arr_none cls dt (Rows.two [x] [y]) none
            simp only [Option.map_none, arr, Rows.toData] at this
            simp only [this] at h
            obtain ⟨hs, _⟩ := build_ok h
            have hwf := build_wf h
            subst hs
            exact ⟨by simp [Rows.mapL, Rows.count, pick_single hx, pick_single hy], by simp [Rows.len], hwf⟩
          | some n =>
            obtain ⟨hnv, hnc, hnl⟩ := hns n rfl
            cases n with
            | one ns => simp [Rows.count] at hnc
            | two n1 n2 =>
              cases hx' : n1[k]? with
              | none => simp [hx'] at h
              | some x' =>
                cases hy' : n2[k]? with
                | none => simp [hx', hy'] at h
                | some y' =>
                  simp only [hx', hy'] at h
                  have := construct_arr_none cls dt (Rows.two [x] [y]) (some (Rows.two [x'] [y']))
                  simp only [Option.map_some, arr, Rows.toData] at this
                  simp only [this] at h
                  obtain ⟨hs, _⟩ := build_ok h
                  have hwf := build_wf h
                  subst hs
                  exact ⟨by simp [Rows.mapL, Rows.count, pick_single hx, pick_single hy, pick_single hx',
                    pick_single hy'], by simp [Rows.len], hwf⟩

/-- `x[i]` succeeds exactly for `-len ≤ i < len`; otherwise IndexError (enum `Other`) -/
theorem getIdx_ok_iff [DropIm α] {a : Sig α} (i : Int) (ha : WF a) :
    (∃ s, getIdx a i = .ok s) ↔ (-(a.len : Int) ≤ i ∧ i < a.len) := by
  rw [← normIdx_isSome_iff]
  constructor
  · rintro ⟨s, h⟩
    obtain ⟨k, hk, _⟩ := getIdx_spec ha h
    simp [hk]
  · intro h
    cases hk : normIdx i a.len with
    | none => simp [hk] at h
    | some k =>
      have hklt := (normIdx_spec hk).1
      unfold getIdx
      simp only [hk]
      obtain ⟨cls, npol, dt, sig, noise⟩ := a
      obtain ⟨hv, hns, hnp, hel⟩ := ha
      simp only [Sig.len] at *
      cases sig with
      | one xs =>
        simp only [Rows.len] at hklt
        simp only [sampleAt, List.getElem?_eq_getElem hklt, Option.map_some]
        cases noise with
        | none =>
          have := construct_scalar cls dt xs[k] none
          simp only [Option.map_none] at this
          exact ⟨_, this⟩
        | some n =>
          obtain ⟨hnv, hnc, hnl⟩ := hns n rfl
          cases n with
          | two n1 n2 => simp [Rows.count] at hnc
          | one ns =>
            simp only [Rows.len] at hnl
            have hk2 : k < ns.length := by omega
            simp only [List.getElem?_eq_getElem hk2, Option.map_some]
            have := construct_scalar cls dt xs[k] (some ns[k])
            simp only [Option.map_some] at this
            exact ⟨_, this⟩
      | two xs ys =>
        simp only [Rows.len, Rows.Valid] at hklt hv
        have hk2 : k < ys.length := by omega
        simp only [sampleAt, List.getElem?_eq_getElem hklt, List.getElem?_eq_getElem hk2]
        have hE : cls = .E → (Rows.two [xs[k]] [ys[k]]).count = 1 := by
          intro hc; have := hel hc; simp [Rows.count] at this
        cases noise with
        | none =>
          have := construct_arr_none cls dt (Rows.two [xs[k]] [ys[k]]) none
          simp only [Option.map_none, arr, Rows.toData] at this
          simp only [this]
          exact ⟨_, build_of (by simp [Rows.Valid]) hE (by intro n hn; cases hn)⟩
        | some n =>
          obtain ⟨hnv, hnc, hnl⟩ := hns n rfl
          cases n with
          | one ns => simp [Rows.count] at hnc
          | two n1 n2 =>
            simp only [Rows.len, Rows.Valid] at hnl hnv
            have hk3 : k < n1.length := by omega
            have hk4 : k < n2.length := by omega
            simp only [List.getElem?_eq_getElem hk3, List.getElem?_eq_getElem hk4]
            have := construct_arr_none cls dt (Rows.two [xs[k]] [ys[k]]) (some (Rows.two [n1[k]] [n2[k]]))
            simp only [Option.map_some, arr, Rows.toData] at this
            simp only [this]
            refine ⟨_, build_of (by simp [Rows.Valid]) hE ?_⟩
            intro n hn; injection hn with hn; subst hn
            simp [Rows.Valid, Rows.count, Rows.len]

theorem getIdx_error [DropIm α] {a : Sig α} {i : Int} {e : Err} (ha : WF a) (h : getIdx a i = .error e) :
    e = .Other := by
  have hnot : ¬ (∃ s, getIdx a i = .ok s) := by
    rintro ⟨s, hs⟩; rw [hs] at h; cases h
  rw [getIdx_ok_iff i ha, ← normIdx_isSome_iff] at hnot
  unfold getIdx at h
  cases hk : normIdx i a.len with
  | none => simp only [hk] at h; injection h with h; exact h.symm
  | some k => simp [hk] at hnot


/-! ### operators on objects -/

theorem opNoise_isSome (op : OpSpec α) (a b : Sig α) :
    ((opNoise op a b).map (·.2)).isSome = (a.noise.isSome || b.noise.isSome) := by
  unfold opNoise
  cases a.noise <;> cases b.noise <;> rfl

/-- whatever the operator table says, a result that is returned went through the constructor -/
theorem binop_wf [DropIm α] {op : OpSpec α} {a b s : Sig α} (h : binop op a b = .ok s) :
    s = ⟨a.cls, (Rows.bin op.fs a.sig b.sig).count, DType.max a.dt b.dt, Rows.bin op.fs a.sig b.sig,
          (opNoise op a b).map (·.2)⟩ ∧ WF s := by
  rw [binop_eq] at h
  split at h
  · cases h
  · exact ⟨(build_ok h).1, build_wf h⟩

theorem binop_spec [DropIm α] {op : OpSpec α} (hstd : op.Std) {a b s : Sig α} (h : binop op a b = .ok s) :
    (b.len = a.len ∨ b.len = 1) ∧
      s = ⟨a.cls, (Rows.bin op.fs a.sig b.sig).count, DType.max a.dt b.dt, Rows.bin op.fs a.sig b.sig,
            (opNoise op a b).map (·.2)⟩ ∧ WF s := by
  refine ⟨?_, binop_wf h⟩
  rw [binop_eq] at h
  split at h
  · cases h
  · rename_i hl
    rw [hstd.rej] at hl
    omega

theorem binop_error [DropIm α] {op : OpSpec α} (hstd : op.Std) {a b : Sig α} {e : Err}
    (h : binop op a b = .error e) : e = .ValueError := by
  rw [binop_eq] at h
  split at h
  · injection h with h; rw [← h, hstd.exc]
  · exact build_error h

theorem binop_len [DropIm α] {op : OpSpec α} (hstd : op.Std) {a b s : Sig α} (h : binop op a b = .ok s) :
    s.len = a.len := by
  obtain ⟨hl, rfl, _⟩ := binop_spec hstd h
  exact Rows.bin_len _ hl

theorem binop_count [DropIm α] {op : OpSpec α} {a b s : Sig α} (h : binop op a b = .ok s) :
    s.sig.count = Nat.max a.sig.count b.sig.count := by
  obtain ⟨rfl, _⟩ := binop_wf h
  exact Rows.bin_count _ _ _

theorem binop_noise_isSome [DropIm α] {op : OpSpec α} {a b s : Sig α} (h : binop op a b = .ok s) :
    s.noise.isSome = (a.noise.isSome || b.noise.isSome) := by
  obtain ⟨rfl, _⟩ := binop_wf h
  exact opNoise_isSome op a b

/-- right operand with no more rows than the left one (same layout, or a one-row operand such as a converted
    scalar / list): the operation is accepted exactly when the lengths agree or the right operand has length 1 -/
theorem binop_ok_iff [DropIm α] {op : OpSpec α} (hstd : op.Std) {a b : Sig α} (ha : WF a) (hb : WF b)
    (hc : b.sig.count ≤ a.sig.count) :
    (∃ s, binop op a b = .ok s) ↔ (b.len = a.len ∨ b.len = 1) := by
  constructor
  · rintro ⟨s, h⟩; exact (binop_spec hstd h).1
  · intro hl
    rw [binop_eq, if_neg (by rw [hstd.rej]; omega)]
    have hcount : ∀ f : α → α → α, (Rows.bin f a.sig b.sig).count = a.sig.count := by
      intro f; rw [Rows.bin_count]; exact Nat.max_eq_left hc
    refine ⟨_, build_of (Rows.bin_valid _ ha.valid hb.valid hl) ?_ ?_⟩
    · intro hE; rw [hcount]; exact ha.elec_one hE
    · intro n hn
      rw [hcount, Rows.bin_len _ hl]
      rw [opNoise_std hstd.bcast] at hn
      cases hna : a.noise with
      | none =>
        cases hnb : b.noise with
        | none => simp [hna, hnb] at hn
        | some nb =>
          simp [hna, hnb] at hn; subst hn
          obtain ⟨v, c, l⟩ := hb.noise_shape nb hnb
          have hl' : nb.len = a.sig.len ∨ nb.len = 1 := by rw [l]; exact hl
          exact ⟨Rows.bin_valid _ ha.valid v hl', by rw [Rows.bin_count, c]; exact Nat.max_eq_left hc,
            Rows.bin_len _ hl'⟩
      | some na =>
        obtain ⟨va, ca, la⟩ := ha.noise_shape na hna
        cases hnb : b.noise with
        | none =>
          simp [hna, hnb] at hn; subst hn
          exact ⟨(Rows.valid_map _ _).2 va, by simpa using ca, by simpa using la⟩
        | some nb =>
          simp [hna, hnb] at hn; subst hn
          obtain ⟨vb, cb, lb⟩ := hb.noise_shape nb hnb
          have hl' : nb.len = na.len ∨ nb.len = 1 := by
            rw [lb, la]; exact hl
          exact ⟨Rows.bin_valid _ va vb hl', by rw [Rows.bin_count, ca, cb]; exact Nat.max_eq_left hc,
            by rw [Rows.bin_len _ hl', la]⟩

theorem objop_ok [DropIm α] {op : OpSpec α} {a b s : Sig α} (h : objop op a b = .ok s) : binop op a b = .ok s := by
  unfold objop at h
  split at h
  · cases h
  · exact h

theorem objop_same_class [DropIm α] (op : OpSpec α) {a b : Sig α} (h : a.cls = b.cls) :
    objop op a b = binop op a b := by
  unfold objop
  rw [if_neg]
  rintro ⟨h1, h2⟩; rw [h1, h2] at h; cases h

theorem rawop_ok [DropIm α] {op : OpSpec α} {a s : Sig α} {r : Raw α} (h : rawop op a r = .ok s) :
    ∃ o, convert a.cls r = .ok o ∧ WF o ∧ binop op a o = .ok s := by
  unfold rawop at h
  cases hc : convert a.cls r with
  | error e => simp [hc] at h
  | ok o =>
    simp only [hc] at h
    exact ⟨o, rfl, construct_wf hc, h⟩

/-! ### static prediction of class, polarisation count and length -/

section
variable [Add α] [Sub α] [Neg α] [Mul α] [DropIm α] [Xform α]

/-- polarisation count of the object a non-object operand is converted to -/
def convPol (c : Cls) (r : Raw α) : Nat :=
  match c with
  | .E => 1
  | .O => rawPol r.data none

/-- number of samples a slice selects on an axis of length `n` (0 for a zero step) -/
def sliceLen (st sp step : Option Int) (n : Nat) : Nat :=
  match sliceNorm st sp step n with
  | .error _ => 0
  | .ok (s, e, k) => rangeLen s e k

def sCls (ρ : Env α) : Expr α → Cls
  | .var i => match ρ[i]? with | some s => s.cls | none => .E
  | .mkE _ _ _ => .E
  | .mkO _ _ _ _ => .O
  | .add a _ | .sub a _ | .mul a _ => sCls ρ a
  | .addR a _ | .raddR a _ | .subR a _ | .rsubR a _ | .mulR a _ | .rmulR a _ => sCls ρ a
  | .idx a _ | .slice a _ _ _ | .copy a _ | .transform a _ _ => sCls ρ a

def sPol (ρ : Env α) : Expr α → Nat
  | .var i => match ρ[i]? with | some s => s.npol | none => 0
  | .mkE _ _ _ => 1
  | .mkO s _ p _ => rawPol s.data p
  | .add a b | .sub a b | .mul a b => Nat.max (sPol ρ a) (sPol ρ b)
  | .addR a r | .raddR a r | .subR a r | .rsubR a r | .mulR a r | .rmulR a r =>
    Nat.max (sPol ρ a) (convPol (sCls ρ a) r)
  | .idx a _ | .slice a _ _ _ | .copy a _ | .transform a _ _ => sPol ρ a

def sLen (ρ : Env α) : Expr α → Nat
  | .var i => match ρ[i]? with | some s => s.len | none => 0
  | .mkE s _ _ => s.data.lastDim
  | .mkO s _ _ _ => s.data.lastDim
  | .add a _ | .sub a _ | .mul a _ => sLen ρ a
  | .addR a _ | .raddR a _ | .subR a _ | .rsubR a _ | .mulR a _ | .rmulR a _ => sLen ρ a
  | .idx _ _ => 1
  | .slice a st sp step => sliceLen st sp step (sLen ρ a)
  | .copy a n => sliceLen none (some (n.getD (sLen ρ a))) none (sLen ρ a)
  | .transform a _ _ => sLen ρ a

end

theorem convert_pol [DropIm α] {c : Cls} {r : Raw α} {o : Sig α} (h : convert c r = .ok o) :
    o.npol = convPol c r := by
  cases c
  · exact (mkE_spec h).2.2.1
  · exact (mkO_spec h).2.2.1

theorem sliceIdx_length {st sp step : Option Int} {n : Nat} {idx : List Nat}
    (h : sliceIdx st sp step n = .ok idx) : idx.length = sliceLen st sp step n := by
  obtain ⟨s, e, k, hn, hl, _⟩ := sliceIdx_spec h
  simp [sliceLen, hn, hl]


/-! ### total field of `a ⊕ b` -/

/-- the algebra an operator's four expressions must satisfy for the total-field law -/
structure OpSpec.Linear [Add α] (op : OpSpec α) : Prop where
  other : ∀ x y n, op.fs x y + op.onlyOther n = op.fs x (y + n)
  self : ∀ x y n, op.fs x y + op.onlySelf n = op.fs (x + n) y
  both : ∀ x y n m, op.fs x y + op.fn n m = op.fs (x + n) (y + m)

namespace Rows
section
variable [Add α]

/-- signal + noise, row by row -/
def zipAdd : Rows α → Rows α → Rows α
  | .one xs, .one ns => .one (List.zipWith (· + ·) xs ns)
  | .two x1 x2, .two n1 n2 => .two (List.zipWith (· + ·) x1 n1) (List.zipWith (· + ·) x2 n2)
  | sg, _ => sg

theorem zw_other {f : α → α → α} {g : α → α} (h : ∀ x y n, f x y + g n = f x (y + n)) (xs Y N : List α) :
    List.zipWith (· + ·) (List.zipWith f xs Y) (List.zipWith (fun _ n => g n) xs N)
      = List.zipWith f xs (List.zipWith (· + ·) Y N) := by
  induction xs generalizing Y N with
  | nil => simp
  | cons x xs ih => cases Y <;> cases N <;> simp [h, ih]

theorem zw_self {f : α → α → α} {g : α → α} (h : ∀ x y n, f x y + g n = f (x + n) y) (xs Y na : List α) :
    List.zipWith (· + ·) (List.zipWith f xs Y) (na.map g)
      = List.zipWith f (List.zipWith (· + ·) xs na) Y := by
  induction xs generalizing Y na with
  | nil => simp
  | cons x xs ih => cases Y <;> cases na <;> simp [h, ih]

theorem zw_both {f fn : α → α → α} (h : ∀ x y n m, f x y + fn n m = f (x + n) (y + m)) (xs Y na NB : List α) :
    List.zipWith (· + ·) (List.zipWith f xs Y) (List.zipWith fn na NB)
      = List.zipWith f (List.zipWith (· + ·) xs na) (List.zipWith (· + ·) Y NB) := by
  induction xs generalizing Y na NB with
  | nil => simp
  | cons x xs ih => cases Y <;> cases na <;> cases NB <;> simp [h, ih]

theorem bc_zipWith (n : Nat) {ys ns : List α} (h : ns.length = ys.length) :
    bc n (List.zipWith (· + ·) ys ns) = List.zipWith (· + ·) (bc n ys) (bc n ns) := by
  match ys, ns, h with
  | [], [], _ => simp [bc]
  | [y], [m], _ => simp [bc]
  | y :: y' :: ys, m :: m' :: ns, _ => simp [bc]

theorem zb_other {f : α → α → α} {g : α → α} (h : ∀ x y n, f x y + g n = f x (y + n)) (xs : List α)
    {ys ns : List α} (hl : ns.length = ys.length) (hxy : ys.length = xs.length ∨ ys.length = 1) :
    List.zipWith (· + ·) (zipB f xs ys) (zipB (fun _ n => g n) xs ns) = zipB f xs (List.zipWith (· + ·) ys ns) := by
  rw [zipB_eq f hxy, zipB_eq _ (xs := xs) (ys := ns) (by omega),
    zipB_eq f (xs := xs) (ys := List.zipWith (· + ·) ys ns) (by rw [List.length_zipWith]; omega), bc_zipWith _ hl]
  exact zw_other h _ _ _

theorem zb_self {f : α → α → α} {g : α → α} (h : ∀ x y n, f x y + g n = f (x + n) y) {xs na : List α}
    (ys : List α) (hl : na.length = xs.length) (hxy : ys.length = xs.length ∨ ys.length = 1) :
    List.zipWith (· + ·) (zipB f xs ys) (na.map g) = zipB f (List.zipWith (· + ·) xs na) ys := by
  rw [zipB_eq f hxy, zipB_eq f (xs := List.zipWith (· + ·) xs na) (ys := ys) (by rw [List.length_zipWith]; omega),
    List.length_zipWith, hl, Nat.min_self]
  exact zw_self h _ _ _

theorem zb_both {f fn : α → α → α} (h : ∀ x y n m, f x y + fn n m = f (x + n) (y + m)) {xs na ys nb : List α}
    (hl : na.length = xs.length) (hl' : nb.length = ys.length) (hxy : ys.length = xs.length ∨ ys.length = 1) :
    List.zipWith (· + ·) (zipB f xs ys) (zipB fn na nb)
      = zipB f (List.zipWith (· + ·) xs na) (List.zipWith (· + ·) ys nb) := by
  rw [zipB_eq f hxy, zipB_eq fn (xs := na) (ys := nb) (by omega),
    zipB_eq f (xs := List.zipWith (· + ·) xs na) (ys := List.zipWith (· + ·) ys nb)
      (by rw [List.length_zipWith, List.length_zipWith]; omega),
    List.length_zipWith, hl, Nat.min_self, bc_zipWith _ hl']
  exact zw_both h _ _ _ _

theorem bin_other {f : α → α → α} {g : α → α} (h : ∀ x y n, f x y + g n = f x (y + n)) {A : Rows α}
    (hA : A.Valid) {B nb : Rows α} (hB : B.Valid) (hv : nb.Valid) (hc : nb.count = B.count) (hl : nb.len = B.len)
    (hAB : B.len = A.len ∨ B.len = 1) :
    zipAdd (bin f A B) (bin (fun _ n => g n) A nb) = bin f A (zipAdd B nb) := by
  cases B <;> cases nb <;> simp only [count] at hc <;> try omega
  all_goals cases A
  all_goals simp only [bin, zipAdd, len, Valid] at *
  · rw [zb_other h _ hl hAB]
  · rw [zb_other h _ hl hAB, zb_other h _ hl (by omega)]
  · rw [zb_other h _ hl hAB, zb_other h _ (by omega) (by omega)]
  · rw [zb_other h _ hl hAB, zb_other h _ (by omega) (by omega)]

theorem bin_self {f : α → α → α} {g : α → α} (h : ∀ x y n, f x y + g n = f (x + n) y) {A na : Rows α} (B : Rows α)
    (hA : A.Valid) (hv : na.Valid) (hc : na.count = A.count) (hl : na.len = A.len)
    (hcB : B.count ≤ A.count) (hB : B.Valid) (hAB : B.len = A.len ∨ B.len = 1) :
    zipAdd (bin f A B) (na.map g) = bin f (zipAdd A na) B := by
  cases A <;> cases na <;> simp only [count] at hc <;> try omega
  all_goals cases B <;> simp only [count] at hcB <;> try omega
  all_goals simp only [bin, zipAdd, len, Valid, map, mapL] at *
  · rw [zb_self h _ hl hAB]
  · rw [zb_self h _ hl hAB, zb_self h _ (by omega) (by omega)]
  · rw [zb_self h _ hl hAB, zb_self h _ (by omega) (by omega)]

theorem bin_both {f fn : α → α → α} (h : ∀ x y n m, f x y + fn n m = f (x + n) (y + m)) {A na B nb : Rows α}
    (hA : A.Valid) (hva : na.Valid) (hca : na.count = A.count) (hla : na.len = A.len)
    (hB : B.Valid) (hvb : nb.Valid) (hcb : nb.count = B.count) (hlb : nb.len = B.len)
    (hAB : B.len = A.len ∨ B.len = 1) :
    zipAdd (bin f A B) (bin fn na nb) = bin f (zipAdd A na) (zipAdd B nb) := by
  cases A <;> cases na <;> simp only [count] at hca <;> try omega
  all_goals cases B <;> cases nb <;> simp only [count] at hcb <;> try omega
  all_goals simp only [bin, zipAdd, len, Valid] at *
  · rw [zb_both h hla hlb hAB]
  · rw [zb_both h hla hlb hAB, zb_both h hla (by omega) (by omega)]
  · rw [zb_both h hla hlb hAB, zb_both h (by omega) hlb (by omega)]
  · rw [zb_both h hla hlb hAB, zb_both h (by omega) (by omega) (by omega)]

end
end Rows

theorem Sig.total_eq [Add α] (s : Sig α) :
    s.total = match s.noise with | none => s.sig | some n => Rows.zipAdd s.sig n := by
  unfold Sig.total
  cases s.noise with
  | none => rfl
  | some n => cases s.sig <;> cases n <;> rfl

/-- total field of the result of an operator whose expressions are `Linear`:
    `total (a ⊕ b) = total a ⊕ total b` with numpy broadcasting (`Rows.bin`) -/
theorem binop_total [Add α] [DropIm α] {op : OpSpec α} (hstd : op.Std) (hop : op.Linear) {a b s : Sig α}
    (ha : WF a) (hb : WF b) (h : binop op a b = .ok s) : s.total = Rows.bin op.fs a.total b.total := by
  obtain ⟨hl, hs, hwf⟩ := binop_spec hstd h
  rw [Sig.total_eq s, Sig.total_eq a, Sig.total_eq b]
  have hsn := hwf.noise_shape
  subst hs
  simp only [opNoise_std hstd.bcast] at hsn ⊢
  cases hna : a.noise with
  | none =>
    cases hnb : b.noise with
    | none => simp
    | some nb =>
      obtain ⟨v, c, l⟩ := hb.noise_shape nb hnb
      simp only [Option.map_some]
      exact Rows.bin_other hop.other ha.valid hb.valid v c l hl
  | some na =>
    obtain ⟨va, ca, la⟩ := ha.noise_shape na hna
    cases hnb : b.noise with
    | none =>
      simp only [Option.map_some]
      have := (hsn (Rows.map op.onlySelf na) (by simp [hna, hnb])).2.1
      simp only [Rows.count_map, Rows.bin_count] at this
      refine Rows.bin_self hop.self _ ha.valid va ca la ?_ hb.valid hl
      rw [ca] at this
      have h1 := Nat.le_max_right a.sig.count b.sig.count
      change b.sig.count ≤ Nat.max a.sig.count b.sig.count at h1
      omega
    | some nb =>
      obtain ⟨vb, cb, lb⟩ := hb.noise_shape nb hnb
      simp only [Option.map_some]
      exact Rows.bin_both hop.both ha.valid va ca la hb.valid vb cb lb hl


/-! ### the tables generated from the source are the documented ones -/

section
variable [Add α] [Sub α] [Neg α] [Mul α]

theorem addSpec_std : (addSpec : OpSpec α).Std :=
  ⟨by intro m n; simp [addSpec, Gen.Container.add_reject], rfl, rfl⟩
theorem subSpec_std : (subSpec : OpSpec α).Std :=
  ⟨by intro m n; simp [subSpec, Gen.Container.sub_reject], rfl, rfl⟩
theorem rsubSpec_std : (rsubSpec : OpSpec α).Std :=
  ⟨by intro m n; simp [rsubSpec, Gen.Container.rsub_reject], rfl, rfl⟩
theorem mulSpec_std : (mulSpec : OpSpec α).Std :=
  ⟨by intro m n; simp [mulSpec, Gen.Container.mul_reject], rfl, rfl⟩

end

/-! ### domain transform -/

/-- the only fact about the per-row transform the container theorems need: it keeps the row length.
    For `Cx ℝ` this is C02's `shift_length` (instance in Lemmas/ContainerAlg.lean). -/
class LawfulXform (α : Type) [Xform α] : Prop where
  length_row : ∀ (d : Fourier.Dom) (sh : Bool) (xs : List α), (Xform.row d sh xs).length = xs.length

theorem Rows.mapL_len_of {f : List α → List α} (hf : ∀ xs, (f xs).length = xs.length) (r : Rows α) :
    (r.mapL f).len = r.len := by
  cases r <;> simp [Rows.mapL, Rows.len, hf]

theorem Rows.mapL_valid_of {f : List α → List α} (hf : ∀ xs, (f xs).length = xs.length) (r : Rows α) :
    (r.mapL f).Valid ↔ r.Valid := by
  cases r <;> simp [Rows.mapL, Rows.Valid, hf]

/-- `x(domain, shift)` is the shape test `build` on the transformed rows, dtype complex -/
theorem transform_eq [DropIm α] [Xform α] (a : Sig α) (d : Fourier.Dom) (sh : Bool) :
    transform a (some d) sh =
      build a.cls .complex (a.sig.mapL (Xform.row d sh)) (a.noise.map (Rows.mapL (Xform.row d sh))) := by
  unfold transform
  have := construct_arr_none a.cls .complex (a.sig.mapL (Xform.row d sh))
    (a.noise.map (Rows.mapL (Xform.row d sh)))
  rw [Option.map_map] at this
  exact this

/-- whatever the per-row transform does, a transform that returns went through the constructor: well formed,
    same class, complex dtype, rows = transformed rows -/
theorem transform_wf_any [DropIm α] [Xform α] {a s : Sig α} {d : Option Fourier.Dom} {sh : Bool}
    (h : transform a d sh = .ok s) :
    WF s ∧ ∃ d', d = some d' ∧
      s = ⟨a.cls, a.sig.count, .complex, a.sig.mapL (Xform.row d' sh), a.noise.map (Rows.mapL (Xform.row d' sh))⟩ := by
  cases d with
  | none => simp [transform] at h
  | some d' =>
    rw [transform_eq] at h
    refine ⟨build_wf h, d', rfl, ?_⟩
    simpa using (build_ok h).1

theorem transform_error [DropIm α] [Xform α] {a : Sig α} {d : Option Fourier.Dom} {sh : Bool} {e : Err}
    (h : transform a d sh = .error e) : e = .ValueError := by
  cases d with
  | none => simp [transform] at h; exact h.symm
  | some d' => rw [transform_eq] at h; exact build_error h

/-- with a length-preserving row transform, a well-formed object is always accepted ('w', 'f', 't') and the result
    has the same class, number of rows, length and noise presence -/
theorem transform_spec [DropIm α] [Xform α] [LawfulXform α] {a : Sig α} (ha : WF a) (d : Fourier.Dom) (sh : Bool) :
    ∃ s, transform a (some d) sh = .ok s ∧ WF s ∧ s.cls = a.cls ∧ s.npol = a.npol ∧ s.sig.count = a.sig.count ∧
      s.len = a.len ∧ s.noise.isSome = a.noise.isSome ∧ s.dt = .complex := by
  have hf : ∀ xs : List α, (Xform.row d sh xs).length = xs.length := LawfulXform.length_row d sh
  have hok : transform a (some d) sh = .ok ⟨a.cls, (a.sig.mapL (Xform.row d sh)).count, .complex,
      a.sig.mapL (Xform.row d sh), a.noise.map (Rows.mapL (Xform.row d sh))⟩ := by
    rw [transform_eq]
    refine build_of ((Rows.mapL_valid_of hf _).2 ha.valid) (by simpa using ha.elec_one) ?_
    intro n hn
    cases hnz : a.noise with
    | none => simp [hnz] at hn
    | some nz =>
      simp [hnz] at hn; subst hn
      obtain ⟨v, c, l⟩ := ha.noise_shape nz hnz
      exact ⟨(Rows.mapL_valid_of hf _).2 v, by simpa using c, by rw [Rows.mapL_len_of hf, Rows.mapL_len_of hf, l]⟩
  refine ⟨_, hok, ?_, rfl, ?_, ?_, ?_, ?_, rfl⟩
  · rw [transform_eq] at hok; exact build_wf hok
  · simp [ha.npol_rows]
  · simp
  · exact Rows.mapL_len_of hf _
  · cases a.noise <;> rfl

/-! ### sequencing in `eval`, shapes of operator results -/

theorem bind1_ok {x : Except Err (Sig α)}
    {f : Sig α → Except Err (Sig α)} {s : Sig α} (h : bind1 x f = .ok s) : ∃ a, x = .ok a ∧ f a = .ok s := by
  unfold bind1 at h
  cases x with
  | error e => cases h
  | ok a => exact ⟨a, rfl, h⟩

theorem bind2_ok {x y : Except Err (Sig α)}
    {f : Sig α → Sig α → Except Err (Sig α)} {s : Sig α} (h : bind2 x y f = .ok s) :
    ∃ a b, x = .ok a ∧ y = .ok b ∧ f a b = .ok s := by
  unfold bind2 at h
  cases x with
  | error e => cases h
  | ok a =>
    cases y with
    | error e => cases h
    | ok b => exact ⟨a, b, rfl, rfl, h⟩

theorem objop_shape [DropIm α] {op : OpSpec α} (hstd : op.Std) {x y s : Sig α} (hx : WF x) (hy : WF y)
    (h : objop op x y = .ok s) : s.cls = x.cls ∧ s.npol = Nat.max x.npol y.npol ∧ s.len = x.len := by
  have hb := objop_ok h
  obtain ⟨_, hs, w⟩ := binop_spec hstd hb
  refine ⟨by rw [hs], ?_, binop_len hstd hb⟩
  rw [w.npol_rows, binop_count hb, hx.npol_rows, hy.npol_rows]

theorem rawop_shape [DropIm α] {op : OpSpec α} (hstd : op.Std) {x s : Sig α} {r : Raw α} (hx : WF x)
    (h : rawop op x r = .ok s) :
    s.cls = x.cls ∧ s.npol = Nat.max x.npol (convPol x.cls r) ∧ s.len = x.len := by
  obtain ⟨o, hc, wo, hb⟩ := rawop_ok h
  obtain ⟨_, hs, w⟩ := binop_spec hstd hb
  refine ⟨by rw [hs], ?_, binop_len hstd hb⟩
  rw [w.npol_rows, binop_count hb, hx.npol_rows, ← wo.npol_rows, convert_pol hc]


end OptiVerif.Container
