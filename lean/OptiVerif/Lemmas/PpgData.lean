/-
Helper lemmas for C20: block splitting of `set_data`, IEEE-488.2 header, instrument memory, `get_data`.
-/
import Mathlib.Tactic.Linarith
import Mathlib.Data.List.Basic
import OptiVerif.Lemmas.Ppg

namespace OptiVerif.Ppg
open OptiVerif OptiVerif.Gen.PpgLimits

/-! ### chunks -/

theorem chunks_small {α} {m : Nat} {xs : List α} (h : xs.length ≤ m) : chunks m xs = [xs] := by
  rw [chunks, dif_pos (Or.inl h)]

theorem chunks_big {α} {m : Nat} {xs : List α} (h : m < xs.length) (hm : 0 < m) :
    chunks m xs = xs.take m :: chunks m (xs.drop m) := by
  rw [chunks, dif_neg (by omega)]

/-- concatenating the blocks gives the data back -/
theorem chunks_flatten {α} (m : Nat) (hm : 0 < m) : ∀ (n : Nat) (xs : List α), xs.length ≤ n → (chunks m xs).flatten = xs
  | 0, xs, h => by
    rw [chunks_small (by omega)]; simp
  | n + 1, xs, h => by
    by_cases hs : xs.length ≤ m
    · rw [chunks_small hs]; simp
    · rw [chunks_big (by omega) hm, List.flatten_cons,
        chunks_flatten m hm n (xs.drop m) (by simp only [List.length_drop]; omega), List.take_append_drop]

/-- every block has at most `m` elements -/
theorem chunks_length_le {α} (m : Nat) (hm : 0 < m) : ∀ (n : Nat) (xs : List α), xs.length ≤ n →
    ∀ c ∈ chunks m xs, c.length ≤ m
  | 0, xs, h, c, hc => by
    rw [chunks_small (by omega)] at hc
    simp only [List.mem_singleton] at hc
    subst hc; omega
  | n + 1, xs, h, c, hc => by
    by_cases hs : xs.length ≤ m
    · rw [chunks_small hs] at hc
      simp only [List.mem_singleton] at hc
      subst hc; exact hs
    · rw [chunks_big (by omega) hm] at hc
      rcases List.mem_cons.mp hc with rfl | hc
      · simp only [List.length_take]; omega
      · exact chunks_length_le m hm n (xs.drop m) (by simp only [List.length_drop]; omega) c hc

/-- no empty block is sent for non-empty data (a multiple of the block size has no trailing empty block) -/
theorem chunks_nonempty {α} (m : Nat) (hm : 0 < m) : ∀ (n : Nat) (xs : List α), xs.length ≤ n → xs ≠ [] →
    ∀ c ∈ chunks m xs, c ≠ []
  | 0, xs, h, hne, _, _ => by
    have : xs = [] := List.eq_nil_of_length_eq_zero (by omega)
    exact absurd this hne
  | n + 1, xs, h, hne, c, hc => by
    by_cases hs : xs.length ≤ m
    · rw [chunks_small hs] at hc
      simp only [List.mem_singleton] at hc
      subst hc; exact hne
    · rw [chunks_big (by omega) hm] at hc
      rcases List.mem_cons.mp hc with rfl | hc
      · intro h0
        have := congrArg List.length h0
        simp only [List.length_take, List.length_nil] at this
        omega
      · refine chunks_nonempty m hm n (xs.drop m) (by simp only [List.length_drop]; omega) ?_ c hc
        intro h0
        have := congrArg List.length h0
        simp only [List.length_drop, List.length_nil] at this
        omega

/-- number of blocks: ⌈len/m⌉ (one block for empty data) -/
theorem chunks_count {α} (m : Nat) (hm : 0 < m) : ∀ (n : Nat) (xs : List α), xs.length ≤ n →
    (chunks m xs).length = if xs.length ≤ m then 1 else (xs.length + m - 1) / m
  | 0, xs, h => by
    rw [chunks_small (by omega), if_pos (by omega)]; rfl
  | n + 1, xs, h => by
    by_cases hs : xs.length ≤ m
    · rw [chunks_small hs, if_pos hs]; rfl
    · rw [chunks_big (by omega) hm, if_neg hs, List.length_cons,
        chunks_count m hm n (xs.drop m) (by simp only [List.length_drop]; omega)]
      simp only [List.length_drop]
      have e : xs.length + m - 1 = (xs.length - m + m - 1) + m := by omega
      split_ifs with h2
      · have h3 : (xs.length + m - 1) / m = 1 + (xs.length - 1) / m := by
          have : xs.length + m - 1 = (xs.length - 1) + m := by omega
          rw [this, Nat.add_div_right _ hm]; omega
        rw [h3]
        have : (xs.length - 1) / m = 1 := by
          apply Nat.div_eq_of_lt_le <;> [skip; skip]
          · simp only [Nat.one_mul]; omega
          · omega
        omega
      · rw [e, Nat.add_div_right _ hm]

/-! ### header -/

/-- for every block size that can occur (`n ≤ 1024`) the digit count of the header is correct -/
theorem header_ok_small : ∀ n, n ≤ 1024 → HeaderOK (ndigits n) n := by
  have h : ∀ n : Fin 1025, (1 ≤ ndigits n.val ∧ ndigits n.val ≤ 9 ∧ n.val < 10 ^ ndigits n.val ∧
      (ndigits n.val = 1 ∨ 10 ^ (ndigits n.val - 1) ≤ n.val)) := by decide +kernel
  intro n hn
  exact h ⟨n, by omega⟩

theorem ndigits_le_four : ∀ n, n ≤ 1024 → 1 ≤ ndigits n ∧ ndigits n ≤ 4 := by
  have h : ∀ n : Fin 1025, (1 ≤ ndigits n.val ∧ ndigits n.val ≤ 4) := by decide +kernel
  intro n hn
  exact h ⟨n, by omega⟩

/-! ### the commands of one channel -/

/-- the payload of a command list: the bits of its data blocks in order -/
def payload : List Command → List Nat
  | [] => []
  | .data _ _ _ _ bits :: cs => bits ++ payload cs
  | _ :: cs => payload cs

/-- data blocks at consecutive addresses starting at `a`, all for channel `ch` -/
def Consecutive (ch : Int) : Int → List Command → Prop
  | _, [] => True
  | a, .data ch' addr n _ _ :: cs => ch' = ch ∧ addr = a ∧ Consecutive ch (a + n) cs
  | _, _ :: _ => False

theorem dataCmds_payload (ch : Int) : ∀ (cks : List (List Nat)) (a : Int), payload (dataCmds ch a cks) = cks.flatten
  | [], _ => rfl
  | c :: cks, a => by
    simp only [dataCmds, payload, List.flatten_cons, dataCmds_payload ch cks]

theorem dataCmds_consecutive (ch : Int) : ∀ (cks : List (List Nat)) (a : Int), Consecutive ch a (dataCmds ch a cks)
  | [], _ => trivial
  | c :: cks, a => ⟨rfl, rfl, dataCmds_consecutive ch cks _⟩

theorem dataCmds_mem (ch : Int) : ∀ (cks : List (List Nat)) (a : Int) (c : Command), c ∈ dataCmds ch a cks →
    ∃ addr, ∃ b ∈ cks, c = .data ch addr b.length (ndigits b.length) b
  | [], _, c, h => by simp [dataCmds] at h
  | b :: cks, a, c, h => by
    simp only [dataCmds, List.mem_cons] at h
    rcases h with rfl | h
    · exact ⟨a, b, List.mem_cons_self, rfl⟩
    · obtain ⟨addr, b', hb, rfl⟩ := dataCmds_mem ch cks _ c h
      exact ⟨addr, b', List.mem_cons_of_mem _ hb, rfl⟩

/-- last address used by the blocks = start + total length − 1 -/
theorem dataCmds_addr_range (ch : Int) : ∀ (cks : List (List Nat)) (a : Int) (c : Command), c ∈ dataCmds ch a cks →
    ∃ addr n k b, c = .data ch addr n k b ∧ a ≤ addr ∧ addr + n ≤ a + (cks.flatten.length : Int)
  | [], _, c, h => by simp [dataCmds] at h
  | b :: cks, a, c, h => by
    simp only [dataCmds, List.mem_cons] at h
    rcases h with rfl | h
    · refine ⟨a, _, _, _, rfl, le_refl _, ?_⟩
      simp only [List.flatten_cons, List.length_append]
      push_cast; omega
    · obtain ⟨addr, n, k, b', rfl, h1, h2⟩ := dataCmds_addr_range ch cks _ c h
      refine ⟨addr, n, k, b', rfl, by omega, ?_⟩
      simp only [List.flatten_cons, List.length_append]
      push_cast; omega

/-! ### get_data block sizes -/

theorem counts_small {n : Nat} (h : n ≤ 1024) : counts n = [n] := by
  unfold counts
  rw [if_neg (by rw [gen_chunk]; omega)]

theorem counts_big {n : Nat} (h : 1024 < n) :
    counts n = List.replicate (n / 1024) 1024 ++ (if n % 1024 ≠ 0 then [n % 1024] else []) := by
  unfold counts
  rw [if_pos (by rw [gen_chunk]; omega)]
  rfl

theorem counts_sum (n : Nat) : (counts n).sum = n := by
  by_cases h : n ≤ 1024
  · rw [counts_small h]; simp
  · rw [counts_big (by omega)]
    have hr : ∀ k : Nat, (List.replicate k 1024).sum = k * 1024 := by
      intro k
      induction k with
      | zero => simp
      | succ k ih => rw [List.replicate_succ, List.sum_cons, ih]; omega
    simp only [List.sum_append, hr]
    split_ifs with h2
    · simp only [List.sum_cons, List.sum_nil, Nat.add_zero]
      have := Nat.div_add_mod n 1024
      omega
    · simp only [List.sum_nil, Nat.add_zero]
      have := Nat.div_add_mod n 1024
      omega

theorem counts_le (n : Nat) : ∀ c ∈ counts n, c ≤ 1024 := by
  intro c hc
  by_cases h : n ≤ 1024
  · rw [counts_small h] at hc
    simp only [List.mem_singleton] at hc
    omega
  · rw [counts_big (by omega)] at hc
    rcases List.mem_append.mp hc with hc | hc
    · have := List.eq_of_mem_replicate hc
      omega
    · split_ifs at hc with h2
      · simp only [List.mem_singleton] at hc
        have := Nat.mod_lt n (show 0 < 1024 by decide)
        omega
      · simp at hc

theorem counts_pos (n : Nat) (hn : 1 ≤ n) : ∀ c ∈ counts n, 1 ≤ c := by
  intro c hc
  by_cases h : n ≤ 1024
  · rw [counts_small h] at hc
    simp only [List.mem_singleton] at hc
    omega
  · rw [counts_big (by omega)] at hc
    rcases List.mem_append.mp hc with hc | hc
    · have := List.eq_of_mem_replicate hc
      omega
    · split_ifs at hc with h2
      · simp only [List.mem_singleton] at hc
        omega
      · simp at hc

theorem dataQueries_mem (ch : Int) : ∀ (ns : List Nat) (a : Int) (c : Command), c ∈ dataQueries ch a ns →
    ∃ addr, ∃ n ∈ ns, c = .dataQ ch addr n
  | [], _, c, h => by simp [dataQueries] at h
  | n :: ns, a, c, h => by
    simp only [dataQueries, List.mem_cons] at h
    rcases h with rfl | h
    · exact ⟨a, n, List.mem_cons_self, rfl⟩
    · obtain ⟨addr, n', hn, rfl⟩ := dataQueries_mem ch ns _ c h
      exact ⟨addr, n', List.mem_cons_of_mem _ hn, rfl⟩

/-! ### answers of the instrument and the driver's parsing `b[k+2:-1]` -/

/-- what the driver reads back from a stored value: any non-zero cell is the character `1` -/
def norm (b : Nat) : Nat := if b = 0 then 0 else 1

theorem norm_bit (x : Int) : norm (bit x) = bit x := by
  unfold norm bit
  split_ifs <;> simp_all

theorem parseReply_reply (bits : List Nat) (h : bits.length ≤ 1024) :
    parseReply (reply bits) = .ok (bits.map norm) := by
  obtain ⟨h1, h4⟩ := ndigits_le_four bits.length h
  have hd : (Nat.toDigits 10 bits.length).length = ndigits bits.length := rfl
  generalize hk : ndigits bits.length = k at *
  have hc : (Nat.digitChar k).isDigit = true ∧ (Nat.digitChar k).toNat - '0'.toNat = k := by
    have : k = 1 ∨ k = 2 ∨ k = 3 ∨ k = 4 := by omega
    rcases this with rfl | rfl | rfl | rfl <;> decide
  unfold reply
  rw [hk]
  simp only [List.cons_append, List.nil_append, List.append_assoc, parseReply, hc.1, hc.2, if_true]
  congr 1
  have e : List.drop (k + 2) ('#' :: Nat.digitChar k :: (Nat.toDigits 10 bits.length ++ (List.map bitChar bits ++ ['\n'])))
      = List.map bitChar bits ++ ['\n'] := by
    show List.drop k (Nat.toDigits 10 bits.length ++ (List.map bitChar bits ++ ['\n'])) = _
    rw [← hd, List.drop_left]
  rw [e, List.dropLast_concat, List.map_map]
  apply List.map_congr_left
  intro b _
  simp only [Function.comp, bitChar, norm]
  split_ifs <;> simp_all

/-! ### memory -/

theorem Mem.write_write (m : Mem) (ch a : Int) (u v : List Nat) :
    (m.write ch a u).write ch (a + u.length) v = m.write ch a (u ++ v) := by
  funext c t
  unfold Mem.write
  by_cases hc : c = ch
  · subst hc
    by_cases h2 : a + (u.length : Int) ≤ t
    · have h1 : a ≤ t := by omega
      have e : (t - a).toNat = u.length + (t - (a + u.length)).toNat := by omega
      simp only [true_and, h1, h2, if_true]
      rw [e, List.getElem?_append_right (by omega), Nat.add_sub_cancel_left]
      have : u[u.length + (t - (a + ↑u.length)).toNat]? = none := List.getElem?_eq_none (by omega)
      rw [this]
    · by_cases h1 : a ≤ t
      · simp only [true_and, h1, h2, if_true, if_false]
        have hlt : (t - a).toNat < u.length := by omega
        rw [List.getElem?_append_left hlt]
      · simp only [true_and, h1, h2, if_false]
  · simp only [hc, false_and, if_false]

theorem Mem.execAll_dataCmds (ch : Int) : ∀ (cks : List (List Nat)) (m : Mem) (a : Int),
    m.execAll (dataCmds ch a cks) = m.write ch a cks.flatten
  | [], m, a => by
    funext c t
    simp only [dataCmds, Mem.execAll, List.foldl_nil, List.flatten_nil, Mem.write, List.getElem?_nil]
    split_ifs <;> rfl
  | b :: cks, m, a => by
    have ih := Mem.execAll_dataCmds ch cks (m.write ch a b) (a + b.length)
    simp only [Mem.execAll] at ih ⊢
    simp only [dataCmds, List.foldl_cons, Mem.exec, ih, List.flatten_cons, Mem.write_write]

theorem Mem.execAll_append (m : Mem) (xs ys : List Command) :
    m.execAll (xs ++ ys) = (m.execAll xs).execAll ys := by
  simp only [Mem.execAll, List.foldl_append]

/-- writing the same block `B` at `a` on a list of channels -/
def Mem.writeAll (m : Mem) (a : Int) (B : List Nat) (cs : List Int) : Mem :=
  cs.foldl (fun m ch => m.write ch a B) m

theorem Mem.execAll_channels (a : Int) (B : List Nat) (m0 : Nat) : ∀ (cs : List Int) (m : Mem),
    m.execAll ((cs.map (fun ch => dataCmds ch a (chunks m0 B))).flatten) = m.writeAll a (chunks m0 B).flatten cs
  | [], m => rfl
  | ch :: cs, m => by
    rw [List.map_cons, List.flatten_cons, Mem.execAll_append, Mem.execAll_dataCmds,
      Mem.execAll_channels a B m0 cs]
    rfl

theorem Mem.writeAll_apply (a : Int) (B : List Nat) : ∀ (cs : List Int) (m : Mem) (c t : Int),
    c ∈ cs → a ≤ t → (h : (t - a).toNat < B.length) → (m.writeAll a B cs) c t = B[(t - a).toNat]
  | [], _, _, _, hc, _, _ => by simp at hc
  | ch :: cs, m, c, t, hc, ha, h => by
    unfold Mem.writeAll
    rw [List.foldl_cons]
    by_cases hcs : c ∈ cs
    · exact Mem.writeAll_apply a B cs _ c t hcs ha h
    · have hcc : c = ch := by
        rcases List.mem_cons.mp hc with h | h
        · exact h
        · exact absurd h hcs
      subst hcc
      -- later writes do not touch channel c
      have later : ∀ (cs : List Int) (m : Mem), c ∉ cs → (cs.foldl (fun m ch => m.write ch a B) m) c t = m c t := by
        intro cs
        induction cs with
        | nil => intro m _; rfl
        | cons x xs ih =>
          intro m hx
          rw [List.foldl_cons, ih _ (fun h => hx (List.mem_cons_of_mem _ h))]
          unfold Mem.write
          have : c ≠ x := fun h => hx (h ▸ List.mem_cons_self)
          simp only [this, false_and, if_false]
      rw [later cs _ hcs]
      unfold Mem.write
      simp only [true_and, ha, if_true]
      rw [List.getElem?_eq_getElem h]

theorem Mem.read_writeAll (a : Int) (B : List Nat) (cs : List Int) (m : Mem) (c : Int) (hc : c ∈ cs) :
    (m.writeAll a B cs).read c a B.length = B := by
  unfold Mem.read
  apply List.ext_getElem
  · simp
  · intro i h1 h2
    simp only [List.getElem_map, List.getElem_range]
    have e : (a + (i : Int) - a).toNat = i := by omega
    rw [Mem.writeAll_apply a B cs m c (a + i) hc (by omega) (by rw [e]; exact h2)]
    simp only [e]

/-! ### different data per channel (2-D `set_data`) -/

/-- writing block `p.2` at `a` on channel `p.1`, pair after pair -/
def Mem.writePairs (m : Mem) (a : Int) (ps : List (Int × List Nat)) : Mem :=
  ps.foldl (fun m p => m.write p.1 a p.2) m

theorem blocksFor_cons (a : Int) (c : Int) (cs : List Int) (b : List Nat) (bs : List (List Nat)) :
    blocksFor a (c :: cs) (b :: bs) = dataCmds c a (chunks MAX_CHUNK_LEN b) ++ blocksFor a cs bs := by
  simp [blocksFor]

theorem Mem.execAll_blocksFor (a : Int) : ∀ (cs : List Int) (perCh : List (List Nat)) (m : Mem),
    m.execAll (blocksFor a cs perCh) = m.writePairs a (cs.zip perCh)
  | [], _, m => by simp [blocksFor, Mem.execAll, Mem.writePairs]
  | _ :: _, [], m => by simp [blocksFor, Mem.execAll, Mem.writePairs]
  | c :: cs, b :: bs, m => by
    rw [blocksFor_cons, Mem.execAll_append, Mem.execAll_dataCmds,
      chunks_flatten MAX_CHUNK_LEN (by decide) _ _ (le_refl _), Mem.execAll_blocksFor a cs bs]
    rfl

theorem Mem.writePairs_other (a : Int) : ∀ (ps : List (Int × List Nat)) (m : Mem) (c t : Int),
    c ∉ ps.map Prod.fst → (m.writePairs a ps) c t = m c t
  | [], _, _, _, _ => rfl
  | p :: ps, m, c, t, h => by
    unfold Mem.writePairs
    rw [List.foldl_cons]
    have h1 : c ≠ p.1 := fun e => h (by rw [e]; simp)
    have h2 : c ∉ ps.map Prod.fst := fun e => h (by simp only [List.map_cons, List.mem_cons]; exact Or.inr e)
    have := Mem.writePairs_other a ps (m.write p.1 a p.2) c t h2
    unfold Mem.writePairs at this
    rw [this]
    unfold Mem.write
    simp only [h1, false_and, if_false]

theorem Mem.read_write_self (m : Mem) (ch a : Int) (B : List Nat) : (m.write ch a B).read ch a B.length = B :=
  Mem.read_writeAll a B [ch] m ch List.mem_cons_self

theorem Mem.read_congr (m m' : Mem) (c a : Int) (n : Nat) (h : ∀ t, m c t = m' c t) : m.read c a n = m'.read c a n := by
  unfold Mem.read
  apply List.map_congr_left
  intro i _
  exact h _

/-- with pairwise different channels every channel holds the block written for it -/
theorem Mem.read_writePairs (a : Int) : ∀ (ps : List (Int × List Nat)) (m : Mem) (c : Int) (B : List Nat),
    (ps.map Prod.fst).Nodup → (c, B) ∈ ps → (m.writePairs a ps).read c a B.length = B
  | [], _, _, _, _, h => by simp at h
  | p :: ps, m, c, B, hnd, hmem => by
    have hnd' : (ps.map Prod.fst).Nodup := (List.nodup_cons.mp (by simpa using hnd)).2
    have hnot : p.1 ∉ ps.map Prod.fst := (List.nodup_cons.mp (by simpa using hnd)).1
    have e : m.writePairs a (p :: ps) = (m.write p.1 a p.2).writePairs a ps := rfl
    rw [e]
    rcases List.mem_cons.mp hmem with h | h
    · subst h
      rw [Mem.read_congr _ (m.write c a B) c a B.length (fun t => Mem.writePairs_other a ps _ c t hnot)]
      exact Mem.read_write_self m c a B
    · exact Mem.read_writePairs a ps _ c B hnd' h

theorem Mem.read_add (m : Mem) (ch a : Int) (p q : Nat) :
    m.read ch a (p + q) = m.read ch a p ++ m.read ch (a + p) q := by
  unfold Mem.read
  rw [List.range_add, List.map_append, List.map_map]
  congr 1
  apply List.map_congr_left
  intro i _
  simp only [Function.comp]
  congr 1
  push_cast
  omega

/-- the driver's block-wise read equals one read of the whole range (cells normalised to 0/1 by the text format) -/
theorem readBlocks_eq (m : Mem) (ch : Int) : ∀ (ns : List Nat) (a : Int), (∀ n ∈ ns, n ≤ 1024) →
    readBlocks m ch a ns = .ok ((m.read ch a ns.sum).map norm)
  | [], a, _ => by
    simp [readBlocks, Mem.read]
  | n :: ns, a, h => by
    have hn : (m.read ch a n).length ≤ 1024 := by
      simp only [Mem.read, List.length_map, List.length_range]
      exact h n List.mem_cons_self
    simp only [readBlocks, parseReply_reply _ hn,
      readBlocks_eq m ch ns (a + n) (fun k hk => h k (List.mem_cons_of_mem _ hk)), bind, Except.bind, pure, Except.pure,
      List.sum_cons, Mem.read_add, List.map_append]

theorem mapM'_const {α β} (f : α → Except Wire.Err β) (b : β) : ∀ (xs : List α), (∀ x ∈ xs, f x = .ok b) →
    mapM' f xs = .ok (List.replicate xs.length b)
  | [], _ => rfl
  | x :: xs, h => by
    simp only [mapM', h x List.mem_cons_self, mapM'_const f b xs (fun y hy => h y (List.mem_cons_of_mem _ hy)),
      bind, Except.bind, pure, Except.pure, List.length_cons, List.replicate_succ]

theorem zipWith_replicate_right {α β γ} (f : α → β → γ) (b : β) : ∀ (as : List α),
    List.zipWith f as (List.replicate as.length b) = as.map (fun a => f a b)
  | [] => rfl
  | a :: as => by
    simp only [List.length_cons, List.replicate_succ, List.zipWith_cons_cons, List.map_cons,
      zipWith_replicate_right f b as]

end OptiVerif.Ppg
