/-
Helper lemmas for C10: the generic model `Model/Edfa.lean` read at `R := ℝ`.
-/
import OptiVerif.Model.Edfa
import OptiVerif.Lemmas.Modulators

set_option linter.unusedSectionVars false
set_option linter.unusedVariables false
set_option linter.unnecessarySeqFocus false

namespace OptiVerif.Edfa
open OptiVerif OptiVerif.Modulators
open OptiVerif.Gen.OptDev (lit pow10 idb idbm mzmLoss mzmEta mzmG laserPhaseSigma laserRinSigma)

theorem gainAmp_sq (GdB : ℝ) : (gainAmp GdB : ℝ) * gainAmp GdB = (10 : ℝ) ^ (GdB / 10) := by
  simp only [gainAmp, Gen.OptDev.edfaGainSignal, Transc.sqrt_real]
  rw [Real.mul_self_sqrt (idb_pos _).le, idb_real]

/-- the source applies the same gain expression to the incoming noise as to the signal (both are translated separately) -/
theorem gainNoise_eq (GdB : ℝ) : (gainNoise GdB : ℝ) = gainAmp GdB := rfl

theorem gainAmp_pos (GdB : ℝ) : 0 < (gainAmp GdB : ℝ) := by
  simp only [gainAmp, Gen.OptDev.edfaGainSignal, Transc.sqrt_real]
  exact Real.sqrt_pos.mpr (idb_pos _)

theorem pAse_real (NFdB GdB h f0 fs : ℝ) :
    pAse NFdB GdB h f0 fs = (10 : ℝ) ^ (NFdB / 10) * h * f0 * ((10 : ℝ) ^ (GdB / 10) - 1) * fs := by
  simp only [pAse, Gen.OptDev.edfaPase, idb_real, lit_real]; push_cast; ring

theorem pAse_nonneg (NFdB GdB h f0 fs : ℝ) (hG : 0 ≤ GdB) (hh : 0 ≤ h) (hf0 : 0 ≤ f0) (hfs : 0 ≤ fs) :
    0 ≤ (pAse NFdB GdB h f0 fs : ℝ) := by
  have h1 := (idb_pos NFdB).le
  have h2 : 0 ≤ (idb GdB : ℝ) - 1 := by linarith [one_le_idb hG]
  simp only [pAse, Gen.OptDev.edfaPase, lit_real]
  push_cast
  positivity

theorem aseScale_sq (p : ℝ) (hp : 0 ≤ p) : (aseScale p : ℝ) * aseScale p = p / 4 := by
  simp only [aseScale, Gen.OptDev.edfaAseScale, Transc.sqrt_real, lit_real]
  push_cast
  exact Real.mul_self_sqrt (by positivity)

/-- Σ v² -/
noncomputable def sumSq (l : List ℝ) : ℝ := (l.map fun v => v * v).sum
/-- Σ |z|² -/
noncomputable def rowPower (row : List (Cx ℝ)) : ℝ := (row.map Cx.normSq).sum

theorem rowPower_aseRow (s : ℝ) : ∀ (a b : List ℝ), a.length = b.length →
    rowPower (aseRow s a b) = s * s * (sumSq a + sumSq b)
  | [], [], _ => by simp [rowPower, aseRow, sumSq]
  | [], _ :: _, h => by simp at h
  | _ :: _, [], h => by simp at h
  | u :: a, v :: b, h => by
    have ih := rowPower_aseRow s a b (by simpa using h)
    simp only [rowPower, aseRow, sumSq, List.zipWith_cons_cons, List.map_cons, List.sum_cons] at *
    rw [ih]
    simp only [Cx.normSq]
    ring

theorem length_aseRow (s : ℝ) (a b : List ℝ) (h : a.length = b.length) : (aseRow s a b).length = a.length := by
  simp [aseRow, h]

theorem length_scaleRow (g : ℝ) (r : List (Cx ℝ)) : (scaleRow g r).length = r.length := by simp [scaleRow]

theorem addRow_zeros : ∀ (r ay : List (Cx ℝ)), r.length = ay.length → addRow (zerosLike r) ay = ay
  | [], [], _ => rfl
  | [], _ :: _, h => by simp at h
  | _ :: _, [], h => by simp at h
  | z :: r, w :: ay, h => by
    have ih := addRow_zeros r ay (by simpa using h)
    simp only [addRow, zerosLike, List.map_cons, List.zipWith_cons_cons] at *
    rw [ih]
    congr 1
    apply Cx.ext_re_im <;> simp [czero]

theorem forall₂_scaleRow (g : ℝ) (r : List (Cx ℝ)) :
    List.Forall₂ (fun o i : Cx ℝ => o = Cx.smul g i ∧ o.normSq = g * g * i.normSq) (scaleRow g r) r := by
  induction r with
  | nil => simp [scaleRow]
  | cons z r ih =>
    simp only [scaleRow, List.map_cons] at *
    exact List.Forall₂.cons ⟨rfl, Cx.normSq_smul g z⟩ ih

/-- unfolding of `edfa` on an optical input -/
theorem edfa_ok_inv {GdB NFdB h f0 fs : ℝ} {d0 d1 d2 d3 : List ℝ} {x : Modulators.Field (Cx ℝ)} {out : Out (Cx ℝ)}
    (he : edfa GdB NFdB h f0 fs d0 d1 d2 d3 (.optical x) = .ok out) :
    (d0.length = x.sig.len ∧ d1.length = x.sig.len ∧ d2.length = x.sig.len ∧ d3.length = x.sig.len) ∧
      out.x = (ampRows (gainAmp GdB) x.sig).1 ∧ out.y = (ampRows (gainAmp GdB) x.sig).2 ∧
      (∀ (hn : x.noise = none),
        out.nx = aseRow (aseScale (pAse NFdB GdB h f0 fs)) d0 d2 ∧
        out.ny = aseRow (aseScale (pAse NFdB GdB h f0 fs)) d1 d3) ∧
      (∀ nz, x.noise = some nz →
        out.nx = addRow (ampRows (gainAmp GdB) nz).1 (aseRow (aseScale (pAse NFdB GdB h f0 fs)) d0 d2) ∧
        out.ny = addRow (ampRows (gainAmp GdB) nz).2 (aseRow (aseScale (pAse NFdB GdB h f0 fs)) d1 d3)) := by
  simp only [edfa, gainNoise_eq] at he
  split at he
  · cases he
  · rename_i hl
    have hl' : d0.length = x.sig.len ∧ d1.length = x.sig.len ∧ d2.length = x.sig.len ∧ d3.length = x.sig.len := by
      refine ⟨?_, ?_, ?_, ?_⟩ <;> (by_contra hc; exact hl (by simp [hc]))
    refine ⟨hl', ?_⟩
    cases hn : x.noise with
    | none =>
      rw [hn] at he
      simp only at he
      cases he
      exact ⟨rfl, rfl, (fun _ => ⟨rfl, rfl⟩), (fun nz hz => by cases hz)⟩
    | some nz =>
      rw [hn] at he
      simp only at he
      cases he
      exact ⟨rfl, rfl, (fun hz => by cases hz), (fun nz' hz => by cases hz; exact ⟨rfl, rfl⟩)⟩

end OptiVerif.Edfa
