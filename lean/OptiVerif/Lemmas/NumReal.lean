/-
`Transc ℝ` and the bridge `Cx ℝ → ℂ`, for proofs about the generic numeric models.
-/
import OptiVerif.Model.Num
import Mathlib.Analysis.SpecialFunctions.Trigonometric.Basic
import Mathlib.Analysis.SpecialFunctions.Sqrt
import Mathlib.Analysis.SpecialFunctions.Log.Basic
import Mathlib.Analysis.SpecialFunctions.Exp

namespace OptiVerif

noncomputable instance : Transc ℝ where
  sqrt := Real.sqrt
  exp := Real.exp
  log := Real.log
  cos := Real.cos
  sin := Real.sin
  pi := Real.pi

@[simp] theorem Transc.sqrt_real (x : ℝ) : Transc.sqrt x = Real.sqrt x := rfl
@[simp] theorem Transc.exp_real (x : ℝ) : Transc.exp x = Real.exp x := rfl
@[simp] theorem Transc.log_real (x : ℝ) : Transc.log x = Real.log x := rfl
@[simp] theorem Transc.cos_real (x : ℝ) : Transc.cos x = Real.cos x := rfl
@[simp] theorem Transc.sin_real (x : ℝ) : Transc.sin x = Real.sin x := rfl
@[simp] theorem Transc.pi_real : (Transc.pi : ℝ) = Real.pi := rfl

namespace Cx
/-- the bridge to Mathlib's complex numbers -/
def toC (z : Cx ℝ) : ℂ := ⟨z.re, z.im⟩

@[simp] theorem toC_re (z : Cx ℝ) : z.toC.re = z.re := rfl
@[simp] theorem toC_im (z : Cx ℝ) : z.toC.im = z.im := rfl
theorem toC_add (a b : Cx ℝ) : (a + b).toC = a.toC + b.toC := by apply Complex.ext <;> simp
theorem toC_sub (a b : Cx ℝ) : (a - b).toC = a.toC - b.toC := by apply Complex.ext <;> simp
theorem toC_neg (a : Cx ℝ) : (-a).toC = -a.toC := by apply Complex.ext <;> simp
theorem toC_mul (a b : Cx ℝ) : (a * b).toC = a.toC * b.toC := by apply Complex.ext <;> simp
theorem toC_normSq (a : Cx ℝ) : a.normSq = Complex.normSq a.toC := by simp [normSq, Complex.normSq_apply]
theorem toC_cis (θ : ℝ) : (cis θ).toC = Complex.exp (θ * Complex.I) := by
  apply Complex.ext <;> simp [cis, Complex.exp_ofReal_mul_I_re, Complex.exp_ofReal_mul_I_im]
theorem normSq_cis (θ : ℝ) : (cis θ : Cx ℝ).normSq = 1 := by
  simp [normSq, cis]; nlinarith [Real.sin_sq_add_cos_sq θ]
theorem normSq_mul (a b : Cx ℝ) : (a * b).normSq = a.normSq * b.normSq := by
  simp [normSq]; ring
end Cx

end OptiVerif
