/-
Lemmas about the `si` ladder (Model/Si.lean over the translated table Gen/SiLadder.lean).
-/
import OptiVerif.Model.Si
import Mathlib.Tactic.Linarith
import Mathlib.Tactic.NormNum
import Mathlib.Tactic.FieldSimp
import Mathlib.Tactic.SplitIfs
import Mathlib.Algebra.Order.Field.Rat
import Mathlib.Data.List.Pairwise

namespace OptiVerif.Si
open OptiVerif

/-- the documented ladder: T, G, M, k, (none), m, μ, n, p, f -/
def documented : List Row := [
  ((10:Rat)^12, none, 1/(10:Rat)^12, [84]),
  ((10:Rat)^9, some ((10:Rat)^12), 1/(10:Rat)^9, [71]),
  ((10:Rat)^6, some ((10:Rat)^9), 1/(10:Rat)^6, [77]),
  ((10:Rat)^3, some ((10:Rat)^6), 1/(10:Rat)^3, [107]),
  (1, some ((10:Rat)^3), 1, []),
  (1/(10:Rat)^3, some 1, (10:Rat)^3, [109]),
  (1/(10:Rat)^6, some (1/(10:Rat)^3), (10:Rat)^6, [956]),
  (1/(10:Rat)^9, some (1/(10:Rat)^6), (10:Rat)^9, [110]),
  (1/(10:Rat)^12, some (1/(10:Rat)^9), (10:Rat)^12, [112]),
  (1/(10:Rat)^15, some (1/(10:Rat)^12), (10:Rat)^15, [102])]

/-- the SI prefixes f p n μ (u) m (none) k M G T as code points, with their values -/
def prefixTable : List (List Nat × Rat) := [
  ([102], 1/(10:Rat)^15), ([112], 1/(10:Rat)^12), ([110], 1/(10:Rat)^9), ([956], 1/(10:Rat)^6), ([117], 1/(10:Rat)^6),
  ([109], 1/(10:Rat)^3), ([], 1), ([107], (10:Rat)^3), ([77], (10:Rat)^6), ([71], (10:Rat)^9), ([84], (10:Rat)^12)]

/-- value of an SI prefix given by its code points -/
def prefixValue (p : List Nat) : Option Rat := (prefixTable.find? (fun r => r.1 == p)).map (fun r => r.2)

theorem rows_documented : Gen.SiLadder.rows = documented := by
  unfold Gen.SiLadder.rows documented
  norm_num

theorem zeroCase_documented : Gen.SiLadder.zeroCase = true := rfl

theorem si_eq (x : Rat) : si x = siRows true documented x := by
  unfold si; rw [rows_documented, zeroCase_documented]

/-- what the property demands of the rendering of `x` -/
def Good (x : Rat) (o : Out) : Prop :=
  ∃ p m v, o = .row p m ∧ prefixValue p = some v ∧ m * v = x ∧ (x < (10:Rat)^15 → 1 ≤ m ∧ m < 1000)

theorem good_row (x : Rat) (p : List Nat) (s v : Rat) (hp : prefixValue p = some v) (hs : s * v = 1)
    (hr : x < (10:Rat)^15 → 1 ≤ x * s ∧ x * s < 1000) : Good x (.row p (x * s)) :=
  ⟨p, x * s, v, rfl, hp, by rw [mul_assoc, hs, mul_one], hr⟩

macro "si_row" v:term : tactic =>
  `(tactic| exact good_row _ _ _ $v (by simp [prefixValue, prefixTable]) (by norm_num)
      (by intro hlt; constructor <;> norm_num at * <;> linarith))

theorem si_good (x : Rat) (hx : 1/(10:Rat)^15 ≤ x) : Good x (si x) := by
  rw [si_eq]
  simp only [documented, siRows, hits, Bool.and_eq_true, decide_eq_true_eq, Bool.and_true]
  by_cases h1 : (10:Rat)^12 ≤ x
  · rw [if_pos h1]; si_row ((10:Rat)^12)
  rw [if_neg h1]
  by_cases h2 : (10:Rat)^9 ≤ x ∧ x < (10:Rat)^12
  · rw [if_pos h2]; si_row ((10:Rat)^9)
  rw [if_neg h2]
  by_cases h3 : (10:Rat)^6 ≤ x ∧ x < (10:Rat)^9
  · rw [if_pos h3]; si_row ((10:Rat)^6)
  rw [if_neg h3]
  by_cases h4 : (10:Rat)^3 ≤ x ∧ x < (10:Rat)^6
  · rw [if_pos h4]; si_row ((10:Rat)^3)
  rw [if_neg h4]
  by_cases h5 : 1 ≤ x ∧ x < (10:Rat)^3
  · rw [if_pos h5]; si_row (1:Rat)
  rw [if_neg h5]
  by_cases h6 : 1/(10:Rat)^3 ≤ x ∧ x < 1
  · rw [if_pos h6]; si_row (1/(10:Rat)^3)
  rw [if_neg h6]
  by_cases h7 : 1/(10:Rat)^6 ≤ x ∧ x < 1/(10:Rat)^3
  · rw [if_pos h7]; si_row (1/(10:Rat)^6)
  rw [if_neg h7]
  by_cases h8 : 1/(10:Rat)^9 ≤ x ∧ x < 1/(10:Rat)^6
  · rw [if_pos h8]; si_row (1/(10:Rat)^9)
  rw [if_neg h8]
  by_cases h9 : 1/(10:Rat)^12 ≤ x ∧ x < 1/(10:Rat)^9
  · rw [if_pos h9]; si_row (1/(10:Rat)^12)
  rw [if_neg h9]
  by_cases h10 : 1/(10:Rat)^15 ≤ x ∧ x < 1/(10:Rat)^12
  · rw [if_pos h10]; si_row (1/(10:Rat)^15)
  exfalso
  simp only [not_and, not_le, not_lt] at *
  norm_num at *
  have a10 := h10 hx
  have a9 := h9 a10
  have a8 := h8 a9
  have a7 := h7 a8
  have a6 := h6 a7
  have a5 := h5 a6
  have a4 := h4 a5
  have a3 := h3 a4
  have a2 := h2 a3
  linarith

/-! ### the rows are pairwise disjoint, so the first hit is the only hit -/

/-- a later row lies entirely below an earlier one -/
def Below (r r' : Row) : Prop := ∃ b, r'.2.1 = some b ∧ b ≤ r.1

theorem documented_chain : documented.Pairwise Below := by
  simp only [documented, List.pairwise_cons, List.mem_cons, List.not_mem_nil, or_false, forall_eq_or_imp, forall_eq,
    List.Pairwise.nil, and_true, Below]
  norm_num

theorem hits_iff (r : Row) (x : Rat) :
    hits r x = true ↔ r.1 ≤ x ∧ (∀ b, r.2.1 = some b → x < b) := by
  unfold hits
  rcases r with ⟨lo, hi, sc, p⟩
  cases hi <;> simp

theorem unique_hit {rows : List Row} (hc : rows.Pairwise Below) (x : Rat) (r r' : Row)
    (hr : r ∈ rows) (hr' : r' ∈ rows) (h : hits r x = true) (h' : hits r' x = true) : r = r' := by
  by_contra hne
  have hs : rows.Pairwise (fun a b => Below a b ∨ Below b a) := hc.imp (fun h => Or.inl h)
  have : Std.Symm (fun a b : Row => Below a b ∨ Below b a) := ⟨fun a b hab => hab.symm⟩
  have := hs.forall hr hr' hne
  rw [hits_iff] at h h'
  rcases this with ⟨b, hb, hle⟩ | ⟨b, hb, hle⟩
  · have := h'.2 b hb; linarith [h.1]
  · have := h.2 b hb; linarith [h'.1]

/-- a row result comes from a row that hits -/
theorem siRows_row {z : Bool} {rows : List Row} {x : Rat} {p : List Nat} {m : Rat}
    (h : siRows z rows x = .row p m) : ∃ r ∈ rows, hits r x = true ∧ p = r.2.2.2 ∧ m = x * r.2.2.1 := by
  induction rows with
  | nil => simp only [siRows] at h; split_ifs at h
  | cons r rs ih =>
    simp only [siRows] at h
    by_cases hh : hits r x = true
    · rw [if_pos hh] at h
      injection h with h1 h2
      exact ⟨r, List.mem_cons_self, hh, h1.symm, h2.symm⟩
    · rw [if_neg hh] at h
      obtain ⟨r', hr', h3⟩ := ih h
      exact ⟨r', List.mem_cons_of_mem _ hr', h3⟩

/-- no row hits below the last lower bound -/
theorem siRows_none_hit {z : Bool} {rows : List Row} {x : Rat} (h : ∀ r ∈ rows, hits r x = false) :
    siRows z rows x = if z && decide (x = 0) then .zero else .none := by
  induction rows with
  | nil => rfl
  | cons r rs ih =>
    simp only [siRows]
    rw [if_neg (by rw [h r List.mem_cons_self]; simp)]
    exact ih (fun r' hr' => h r' (List.mem_cons_of_mem _ hr'))

theorem documented_lo (r : Row) (hr : r ∈ documented) : 1/(10:Rat)^15 ≤ r.1 := by
  simp only [documented, List.mem_cons, List.not_mem_nil, or_false] at hr
  rcases hr with rfl | rfl | rfl | rfl | rfl | rfl | rfl | rfl | rfl | rfl <;> norm_num

theorem documented_scale (r : Row) (hr : r ∈ documented) :
    ∃ v, prefixValue r.2.2.2 = some v ∧ r.2.2.1 * v = 1 ∧ 0 < v := by
  simp only [documented, List.mem_cons, List.not_mem_nil, or_false] at hr
  rcases hr with rfl | rfl | rfl | rfl | rfl | rfl | rfl | rfl | rfl | rfl
  all_goals (simp only [prefixValue, prefixTable]; norm_num)

end OptiVerif.Si
