/-
Lemmas about the generic list utilities of `Model/NumList.lean` at ℝ (C17, C16): sum / mean / std under affine maps and
under an ε-bound, `argmin` = first minimum, `linspace`.
-/
import OptiVerif.Model.NumList
import OptiVerif.Lemmas.FiberNL
import Mathlib.Data.List.GetD

namespace OptiVerif.NumList
open OptiVerif

@[simp] theorem zero_real : (zero : ℝ) = 0 := by simp [zero]
@[simp] theorem one_real : (one : ℝ) = 1 := by simp [one]
@[simp] theorem two_real : (two : ℝ) = 2 := by simp [two]

theorem absR_real (x : ℝ) : absR x = |x| := by
  unfold absR
  by_cases h : x < 0
  · simp [h, abs_of_neg h]
  · simp [h, abs_of_nonneg (not_lt.mp h)]

theorem le_real (a b : ℝ) : (le a b = true) ↔ a ≤ b := by simp [le]

/-! ### sums -/

@[simp] theorem sum_nil : sum ([] : List ℝ) = 0 := by simp [sum]
@[simp] theorem sum_cons (x : ℝ) (xs : List ℝ) : sum (x :: xs) = x + sum xs := rfl

theorem sum_map_affine (α β : ℝ) (xs : List ℝ) :
    sum (xs.map (fun x => α * x + β)) = α * sum xs + xs.length * β := by
  induction xs with
  | nil => simp
  | cons x xs ih => simp [ih]; ring

/-- Σ (x − c)² = Σ x² − 2c Σ x + n c² -/
theorem sum_sq_shift (c : ℝ) (xs : List ℝ) :
    sum (xs.map (fun x => (x - c) * (x - c))) = sum (xs.map (fun x => x * x)) - 2 * c * sum xs + xs.length * (c * c) := by
  induction xs with
  | nil => simp
  | cons x xs ih => simp [ih]; ring

theorem sum_le_of_forall_le (b : ℝ) (xs : List ℝ) (h : ∀ x ∈ xs, x ≤ b) : sum xs ≤ xs.length * b := by
  induction xs with
  | nil => simp
  | cons x xs ih =>
    have := ih (fun y hy => h y (List.mem_cons_of_mem _ hy))
    have := h x (by simp)
    simp; linarith

theorem sum_ge_of_forall_ge (b : ℝ) (xs : List ℝ) (h : ∀ x ∈ xs, b ≤ x) : xs.length * b ≤ sum xs := by
  induction xs with
  | nil => simp
  | cons x xs ih =>
    have := ih (fun y hy => h y (List.mem_cons_of_mem _ hy))
    have := h x (by simp)
    simp; linarith

theorem sum_lt_of_forall_lt (b : ℝ) (xs : List ℝ) (hne : xs ≠ []) (h : ∀ x ∈ xs, x < b) : sum xs < xs.length * b := by
  induction xs with
  | nil => exact absurd rfl hne
  | cons x xs ih =>
    have hx := h x (by simp)
    by_cases hxs : xs = []
    · subst hxs; simp; linarith
    · have := ih hxs (fun y hy => h y (List.mem_cons_of_mem _ hy))
      simp; linarith

/-! ### mean and standard deviation -/

theorem length_pos_real {xs : List ℝ} (hne : xs ≠ []) : (0 : ℝ) < (xs.length : ℝ) := by
  exact_mod_cast List.length_pos_iff.mpr hne

theorem mean_affine (α β : ℝ) (xs : List ℝ) (hne : xs ≠ []) :
    mean (xs.map (fun x => α * x + β)) = α * mean xs + β := by
  have hn := (length_pos_real hne).ne'
  simp only [mean, sum_map_affine, List.length_map]
  field_simp

theorem var_affine (α β : ℝ) (xs : List ℝ) (hne : xs ≠ []) :
    var (xs.map (fun x => α * x + β)) = α * α * var xs := by
  have hn := (length_pos_real hne).ne'
  simp only [var, mean_affine α β xs hne, List.map_map]
  have : ((fun x => (x - (α * mean xs + β)) * (x - (α * mean xs + β))) ∘ fun x => α * x + β)
      = (fun y => (α * α) * y + 0) ∘ (fun x => (x - mean xs) * (x - mean xs)) := by
    funext x; simp only [Function.comp]; ring
  rw [this, ← List.map_map, mean_affine (α * α) 0 _ (by simpa using hne)]
  ring

theorem std_affine (α β : ℝ) (hα : 0 ≤ α) (xs : List ℝ) (hne : xs ≠ []) :
    std (xs.map (fun x => α * x + β)) = α * std xs := by
  simp only [std, Transc.sqrt_real, var_affine α β xs hne]
  rw [Real.sqrt_mul (mul_self_nonneg α), Real.sqrt_mul_self hα]

theorem var_nonneg (xs : List ℝ) : 0 ≤ var xs := by
  simp only [var, mean]
  apply div_nonneg _ (Nat.cast_nonneg _)
  have := sum_ge_of_forall_ge 0 (xs.map (fun x => (x - sum xs / xs.length) * (x - sum xs / xs.length)))
    (by intro y hy; simp only [List.mem_map] at hy; obtain ⟨x, _, rfl⟩ := hy; exact mul_self_nonneg _)
  simpa using this

/-- all samples within ε of a level ⇒ the mean is within ε of it and the standard deviation is at most ε -/
theorem mean_std_bound (l ε : ℝ) (xs : List ℝ) (hne : xs ≠ []) (h : ∀ x ∈ xs, |x - l| ≤ ε) :
    |mean xs - l| ≤ ε ∧ std xs ≤ ε := by
  have hn := length_pos_real hne
  have hε : 0 ≤ ε := by
    obtain ⟨x, hx⟩ := List.exists_mem_of_ne_nil xs hne
    exact (abs_nonneg _).trans (h x hx)
  -- the mean
  have hup := sum_le_of_forall_le (l + ε) xs (fun x hx => by have := abs_le.mp (h x hx); linarith)
  have hlo := sum_ge_of_forall_ge (l - ε) xs (fun x hx => by have := abs_le.mp (h x hx); linarith)
  have hm : |mean xs - l| ≤ ε := by
    rw [abs_le, mean]
    constructor
    · rw [le_sub_iff_add_le, le_div_iff₀ hn]; linarith
    · rw [sub_le_iff_le_add, div_le_iff₀ hn]; linarith
  refine ⟨hm, ?_⟩
  -- the variance: Σ(x−m)² = Σ(x−l)² − n (m−l)² ≤ n ε²
  have hsq := sum_le_of_forall_le (ε * ε) (xs.map (fun x => (x - l) * (x - l)))
    (by
      intro y hy
      simp only [List.mem_map] at hy
      obtain ⟨x, hx, rfl⟩ := hy
      have := abs_le.mp (h x hx)
      nlinarith)
  simp only [List.length_map] at hsq
  have e1 := sum_sq_shift l xs
  have e2 := sum_sq_shift (mean xs) xs
  have hT : sum xs = xs.length * mean xs := by simp only [mean]; field_simp
  have hv : var xs ≤ ε * ε := by
    simp only [var]
    rw [mean, List.length_map, div_le_iff₀ hn]
    have : sum (xs.map (fun x => (x - mean xs) * (x - mean xs)))
        = sum (xs.map (fun x => (x - l) * (x - l))) - xs.length * ((mean xs - l) * (mean xs - l)) := by
      rw [e1, e2, hT]; ring
    rw [this]
    nlinarith [mul_self_nonneg (mean xs - l)]
  simp only [std, Transc.sqrt_real]
  calc Real.sqrt (var xs) ≤ Real.sqrt (ε * ε) := Real.sqrt_le_sqrt hv
    _ = ε := Real.sqrt_mul_self hε

theorem mean_gt (c : ℝ) (xs : List ℝ) (hne : xs ≠ []) (h : ∀ x ∈ xs, c < x) : c < mean xs := by
  have hn := length_pos_real hne
  have := sum_lt_of_forall_lt (-c) (xs.map (fun x => -x)) (by simpa using hne)
    (by intro y hy; simp only [List.mem_map] at hy; obtain ⟨x, hx, rfl⟩ := hy; linarith [h x hx])
  have hneg : sum (xs.map (fun x => -x)) = -sum xs := by
    have := sum_map_affine (-1) 0 xs
    simpa using this
  rw [hneg, List.length_map] at this
  rw [mean, lt_div_iff₀ hn]
  linarith

theorem mean_lt (c : ℝ) (xs : List ℝ) (hne : xs ≠ []) (h : ∀ x ∈ xs, x < c) : mean xs < c := by
  have hn := length_pos_real hne
  have := sum_lt_of_forall_lt c xs hne h
  rw [mean, div_lt_iff₀ hn]
  linarith

/-! ### argmin = the first minimum -/

theorem argminPair_spec (l : List ℝ) (i : ℕ) (v : ℝ) (h : argminPair l = some (i, v)) :
    ∃ hi : i < l.length, l[i] = v ∧ (∀ j (hj : j < l.length), v ≤ l[j]) ∧ (∀ j (hj : j < l.length), j < i → v < l[j]) := by
  induction l generalizing i v with
  | nil => simp [argminPair] at h
  | cons x xs ih =>
    simp only [argminPair] at h
    cases hxs : argminPair xs with
    | none =>
      rw [hxs] at h
      simp only [Option.some.injEq, Prod.mk.injEq] at h
      obtain ⟨rfl, rfl⟩ := h
      have : xs = [] := by
        cases xs with
        | nil => rfl
        | cons y ys =>
          simp only [argminPair] at hxs
          cases h2 : argminPair ys <;> simp [h2] at hxs
          split at hxs <;> simp at hxs
      subst this
      exact ⟨by simp, rfl, by intro j hj; simp at hj; subst hj; simp, by intro j _ hj; omega⟩
    | some p =>
      obtain ⟨j, w⟩ := p
      rw [hxs] at h
      obtain ⟨hj, hjv, hmin, hfirst⟩ := ih j w hxs
      by_cases hlt : w < x
      · simp only [Cmp.lt_real, hlt, ↓reduceIte, Option.some.injEq, Prod.mk.injEq] at h
        obtain ⟨rfl, rfl⟩ := h
        refine ⟨by simp; omega, by simpa using hjv, ?_, ?_⟩
        · intro k hk
          cases k with
          | zero => simpa using hlt.le
          | succ k => simpa using hmin k (by simpa using hk)
        · intro k hk hki
          cases k with
          | zero => simpa using hlt
          | succ k => simpa using hfirst k (by simpa using hk) (by omega)
      · simp only [Cmp.lt_real, hlt, ↓reduceIte, Option.some.injEq, Prod.mk.injEq] at h
        obtain ⟨rfl, rfl⟩ := h
        refine ⟨by simp, rfl, ?_, by intro k _ hk; omega⟩
        intro k hk
        cases k with
        | zero => simp
        | succ k =>
          have := hmin k (by simpa using hk)
          simp only [List.getElem_cons_succ]
          linarith [not_lt.mp hlt]

theorem argminPair_isSome (l : List ℝ) (hne : l ≠ []) : ∃ i v, argminPair l = some (i, v) := by
  cases l with
  | nil => exact absurd rfl hne
  | cons x xs =>
    simp only [argminPair]
    cases argminPair xs with
    | none => exact ⟨0, x, rfl⟩
    | some p =>
      obtain ⟨j, w⟩ := p
      by_cases hlt : w < x
      · exact ⟨j + 1, w, by simp [hlt]⟩
      · exact ⟨0, x, by simp [hlt]⟩

/-- `argmin` of a non-empty list is a valid index, of a minimum, and the first such -/
theorem argmin_spec (l : List ℝ) (hne : l ≠ []) :
    ∃ hi : argmin l < l.length, (∀ j (hj : j < l.length), l[argmin l] ≤ l[j]) ∧
      (∀ j (hj : j < l.length), j < argmin l → l[argmin l] < l[j]) := by
  obtain ⟨i, v, h⟩ := argminPair_isSome l hne
  obtain ⟨hi, hv, hmin, hfirst⟩ := argminPair_spec l i v h
  have : argmin l = i := by simp [argmin, h]
  subst this
  exact ⟨hi, fun j hj => hv ▸ hmin j hj, fun j hj hji => hv ▸ hfirst j hj hji⟩

/-- characterisation: an index that holds a minimum and is strictly below everything before it IS the argmin -/
theorem argmin_eq (l : List ℝ) (k : ℕ) (hk : k < l.length) (hmin : ∀ j (hj : j < l.length), l[k] ≤ l[j])
    (hfirst : ∀ j (hj : j < l.length), j < k → l[k] < l[j]) : argmin l = k := by
  have hne : l ≠ [] := by intro h; subst h; simp at hk
  obtain ⟨hi, h1, h2⟩ := argmin_spec l hne
  rcases Nat.lt_trichotomy (argmin l) k with h | h | h
  · have := hfirst _ hi h
    have := h1 k hk
    linarith
  · exact h
  · have := h2 k hk h
    have := hmin _ hi
    linarith

/-- multiplying all entries by a positive constant does not move the argmin (e.g. a pdf under a change of units) -/
theorem argmin_scale (c : ℝ) (hc : 0 < c) (l : List ℝ) : argmin (l.map (fun x => c * x)) = argmin l := by
  by_cases hne : l = []
  · subst hne; rfl
  · obtain ⟨hi, h1, h2⟩ := argmin_spec l hne
    refine argmin_eq _ _ (by simpa using hi) ?_ ?_
    · intro j hj
      rw [List.getElem_map, List.getElem_map]
      exact mul_le_mul_of_nonneg_left (h1 j (by simpa using hj)) hc.le
    · intro j hj hji
      rw [List.getElem_map, List.getElem_map]
      exact mul_lt_mul_of_pos_left (h2 j (by simpa using hj) hji) hc

/-! ### linspace -/

theorem length_linspace (a b : ℝ) (n : ℕ) : (linspace a b n).length = n := by
  match n with
  | 0 => rfl
  | 1 => rfl
  | m + 2 => simp [linspace]

theorem linspace_affine (α β a b : ℝ) (n : ℕ) :
    linspace (α * a + β) (α * b + β) n = (linspace a b n).map (fun x => α * x + β) := by
  match n with
  | 0 => rfl
  | 1 => rfl
  | m + 2 =>
    simp only [linspace, List.map_append, List.map_map, List.map_cons, List.map_nil]
    congr 1
    apply List.map_congr_left
    intro i _
    have : ((m + 1 : ℕ) : ℝ) ≠ 0 := by positivity
    simp only [Function.comp]
    field_simp
    ring

/-- every point of `linspace a b n` lies between `a` and `b` (a ≤ b) -/
theorem linspace_mem_between (a b : ℝ) (hab : a ≤ b) (n : ℕ) : ∀ x ∈ linspace a b n, a ≤ x ∧ x ≤ b := by
  match n with
  | 0 => intro x hx; simp [linspace] at hx
  | 1 => intro x hx; simp [linspace] at hx; subst hx; exact ⟨le_rfl, hab⟩
  | m + 2 =>
    intro x hx
    simp only [linspace, List.mem_append, List.mem_map, List.mem_range, List.mem_singleton] at hx
    rcases hx with ⟨i, hi, rfl⟩ | rfl
    · have hm : (0 : ℝ) < ((m + 1 : ℕ) : ℝ) := by positivity
      have hi' : (i : ℝ) ≤ ((m + 1 : ℕ) : ℝ) := by exact_mod_cast hi.le
      have h0 : (0 : ℝ) ≤ (i : ℝ) := Nat.cast_nonneg _
      have hstep : 0 ≤ (b - a) / ((m + 1 : ℕ) : ℝ) := div_nonneg (by linarith) hm.le
      constructor
      · nlinarith
      · have : (i : ℝ) * ((b - a) / ((m + 1 : ℕ) : ℝ)) ≤ ((m + 1 : ℕ) : ℝ) * ((b - a) / ((m + 1 : ℕ) : ℝ)) :=
          mul_le_mul_of_nonneg_right hi' hstep
        have e : ((m + 1 : ℕ) : ℝ) * ((b - a) / ((m + 1 : ℕ) : ℝ)) = b - a := by field_simp
        linarith
    · exact ⟨hab, le_rfl⟩

/-! ### tile -/

theorem tile_succ_getElem {α} (m : ℕ) (g : List α) (j : ℕ) (hj : j < g.length) (h : j < (tile (m + 1) g).length) :
    (tile (m + 1) g)[j] = g[j] := by
  simp only [tile]
  rw [List.getElem_append_left hj]

theorem length_tile {α} (m : ℕ) (g : List α) : (tile m g).length = m * g.length := by
  induction m with
  | zero => simp [tile]
  | succ m ih => simp [tile, ih]; ring

end OptiVerif.NumList
