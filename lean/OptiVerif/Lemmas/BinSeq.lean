/-
Lemmas for the binary_sequence model (C15): validity, re-validation, counting, slices.
-/
import OptiVerif.Model.BinSeq
import Mathlib.Order.Basic

namespace OptiVerif.BinSeq
open OptiVerif OptiVerif.BinSeqStr

/-- a valid stored sequence: every element is 0 or 1 -/
def Valid (l : List Nat) : Prop := ∀ x ∈ l, x = 0 ∨ x = 1

theorem valid_nil : Valid [] := by intro x hx; cases hx

theorem valid_append {a b : List Nat} (ha : Valid a) (hb : Valid b) : Valid (a ++ b) := by
  intro x hx
  rcases List.mem_append.mp hx with h | h
  · exact ha x h
  · exact hb x h

theorem valid_of_append_left {a b : List Nat} (h : Valid (a ++ b)) : Valid a :=
  fun x hx => h x (List.mem_append_left _ hx)

theorem valid_of_append_right {a b : List Nat} (h : Valid (a ++ b)) : Valid b :=
  fun x hx => h x (List.mem_append_right _ hx)

theorem all01_iff (l : List Nat) : l.all (fun x => x == 0 || x == 1) = true ↔ Valid l := by
  simp [Valid, List.all_eq_true]

theorem revalidate_ok_iff (l r : List Nat) : revalidate l = .ok r ↔ r = l ∧ Valid l := by
  unfold revalidate
  by_cases h : l.all (fun x => x == 0 || x == 1) = true
  · rw [if_pos h]
    constructor
    · intro e; injection e with e; exact ⟨e.symm, (all01_iff l).mp h⟩
    · rintro ⟨rfl, _⟩; rfl
  · rw [if_neg h]
    constructor
    · intro e; cases e
    · rintro ⟨_, hv⟩; exact absurd ((all01_iff l).mpr hv) h

theorem revalidate_of_valid {l : List Nat} (h : Valid l) : revalidate l = .ok l :=
  (revalidate_ok_iff l l).mpr ⟨rfl, h⟩

theorem revalidate_err (l : List Nat) (e : Wire.Err) (h : revalidate l = .error e) : e = .ValueError := by
  unfold revalidate at h
  split at h
  · cases h
  · injection h with h; exact h.symm

theorem zipWith_congr_mem {α β γ : Type} (f g : α → β → γ) (A : List α) (B : List β)
    (h : ∀ x ∈ A, ∀ y ∈ B, f x y = g x y) : List.zipWith f A B = List.zipWith g A B := by
  induction A generalizing B with
  | nil => simp
  | cons x xs ih =>
    cases B with
    | nil => simp
    | cons y ys =>
      simp only [List.zipWith_cons_cons]
      rw [h x (by simp) y (by simp), ih ys (fun a ha b hb => h a (List.mem_cons_of_mem _ ha) b (List.mem_cons_of_mem _ hb))]

/-! ### the constructor and the operators, unfolded -/

theorem mkArr_scalar (c : Cell) :
    mkArr (.scalar c) = if c.bit.isSome = true then .ok [bitNat c] else .error .ValueError := by
  simp only [mkArr, cellsOK, List.all_cons, List.all_nil, Bool.and_true]
  cases c.bit.isSome <;> rfl

theorem mkArr_vec (cs : List Cell) :
    mkArr (.vec cs) = if (∀ c ∈ cs, c.bit.isSome = true) then .ok (cs.map bitNat) else .error .ValueError := by
  simp only [mkArr, cellsOK]
  by_cases h : cs.all (fun c => c.bit.isSome) = true
  · rw [if_pos (List.all_eq_true.mp h)]; simp [h]
  · rw [if_neg (fun hc => h (List.all_eq_true.mpr hc))]; simp [h]

theorem mkArr_nd (d : Nat) (cs : List Cell) : mkArr (.nd d cs) = .error .ValueError := by
  simp only [mkArr]; split <;> rfl

theorem mk_eq (d : Data) :
    mk d = match toArr d with
      | none => none
      | some (.error e) => some (.error e)
      | some (.ok a) => some (mkArr a) := by
  unfold mk
  cases toArr d with
  | none => rfl
  | some r => cases r <;> rfl

theorem add_eq (a : List Nat) (o : Operand) :
    add a o = match operandBits o with
      | none => none
      | some (.error e) => some (.error e)
      | some (.ok b) => some (revalidate (a ++ b)) := by
  unfold add
  cases operandBits o with
  | none => rfl
  | some r => cases r <;> rfl

theorem radd_eq (a : List Nat) (o : Operand) :
    radd a o = match operandBits o with
      | none => none
      | some (.error e) => some (.error e)
      | some (.ok b) => some (revalidate (b ++ a)) := by
  unfold radd
  cases operandBits o with
  | none => rfl
  | some r => cases r <;> rfl

/-- operand checks on array data: 1-D with all elements 0/1, else ValueError -/
theorem operandBits_arr (arr : Arr) :
    operandBits (.data (.arr arr)) =
      match arr with
      | .vec cs => if (∀ c ∈ cs, c.bit.isSome = true) then some (.ok (cs.map bitNat)) else some (.error .ValueError)
      | _ => some (.error .ValueError) := by
  cases arr with
  | ragged => rfl
  | scalar c => simp only [operandBits, toArr, Option.map_some, Except.bind]; split <;> rfl
  | nd d cs => simp only [operandBits, toArr, Option.map_some, Except.bind]; split <;> rfl
  | vec cs =>
    simp only [operandBits, toArr, Option.map_some, Except.bind, cellsOK]
    by_cases h : cs.all (fun c => c.bit.isSome) = true
    · rw [if_pos (List.all_eq_true.mp h)]; simp [h]
    · rw [if_neg (fun hc => h (List.all_eq_true.mpr hc))]; simp [h]

/-! ### cells -/

theorem bitNat_valid (c : Cell) : bitNat c = 0 ∨ bitNat c = 1 := by
  unfold bitNat
  rcases c with ⟨_ | _ | _, _⟩ <;> simp

theorem valid_map_bitNat (cs : List Cell) : Valid (cs.map bitNat) := by
  intro x hx
  obtain ⟨c, _, rfl⟩ := List.mem_map.mp hx
  exact bitNat_valid c

/-! ### counting -/

theorem ones_le_len {a : List Nat} (h : Valid a) : ones a ≤ len a := by
  induction a with
  | nil => simp [ones, len]
  | cons x t ih =>
    have hx := h x (by simp)
    have := ih (fun y hy => h y (List.mem_cons_of_mem _ hy))
    simp only [ones, len, List.sum_cons, List.length_cons] at this ⊢
    omega

def flip (x : Nat) : Nat := if x != 0 then 0 else 1

theorem flip_flip {x : Nat} (h : x = 0 ∨ x = 1) : flip (flip x) = x := by
  rcases h with rfl | rfl <;> rfl

theorem valid_map_flip (a : List Nat) : Valid (a.map flip) := by
  intro x hx
  obtain ⟨y, _, rfl⟩ := List.mem_map.mp hx
  unfold flip
  split <;> simp

theorem ones_map_flip {a : List Nat} (h : Valid a) : ones (a.map flip) + ones a = len a := by
  induction a with
  | nil => rfl
  | cons x t ih =>
    have hx := h x (by simp)
    have := ih (fun y hy => h y (List.mem_cons_of_mem _ hy))
    simp only [ones, len, List.map_cons, List.sum_cons, List.length_cons] at this ⊢
    rcases hx with rfl | rfl <;> simp [flip] <;> omega

/-! ### selecting elements -/

theorem filterMap_range_take (a : List Nat) (m : Nat) (hm : m ≤ a.length) :
    (List.range m).filterMap (fun k => a[k]?) = a.take m := by
  induction m with
  | zero => simp
  | succ m ih =>
    have hlt : m < a.length := by omega
    rw [List.range_succ, List.filterMap_append, ih (by omega)]
    simp only [List.filterMap_cons, List.filterMap_nil, List.getElem?_eq_getElem hlt]
    rw [List.take_add_one, List.getElem?_eq_getElem hlt]
    rfl

theorem mem_of_mem_filterMap_get (a : List Nat) (ps : List Int) (x : Nat)
    (h : x ∈ ps.filterMap (fun p => if p < 0 then none else a[p.toNat]?)) : x ∈ a := by
  obtain ⟨p, _, hp⟩ := List.mem_filterMap.mp h
  split at hp
  · cases hp
  · exact List.mem_of_getElem? hp

/-! ### the slice span -/

theorem adjust_pos (n : Nat) (st v : Int) (hst : 0 < st) : 0 ≤ adjust n st v ∧ adjust n st v ≤ n := by
  unfold adjust
  have : ¬ st < 0 := by omega
  simp only [this, if_false]
  split
  · split <;> omega
  · split <;> omega

theorem adjust_neg (n : Nat) (st v : Int) (hst : st < 0) : -1 ≤ adjust n st v ∧ adjust n st v ≤ (n : Int) - 1 := by
  unfold adjust
  simp only [hst, if_true]
  split
  · split <;> omega
  · split <;> omega

theorem startOf_bounds (n : Nat) (st : Int) (start : Option Int) :
    (0 < st → 0 ≤ startOf n st start ∧ startOf n st start ≤ n) ∧
    (st < 0 → -1 ≤ startOf n st start ∧ startOf n st start ≤ (n : Int) - 1) := by
  unfold startOf
  cases start with
  | some v => exact ⟨adjust_pos n st v, adjust_neg n st v⟩
  | none =>
    dsimp only
    constructor
    · intro h; rw [if_neg (by omega)]; omega
    · intro h; rw [if_pos h]; omega

theorem stopOf_bounds (n : Nat) (st : Int) (stop : Option Int) :
    (0 < st → stopOf n st stop ≤ n) ∧ (st < 0 → -1 ≤ stopOf n st stop) := by
  unfold stopOf
  cases stop with
  | some v => exact ⟨fun h => (adjust_pos n st v h).2, fun h => (adjust_neg n st v h).1⟩
  | none =>
    dsimp only
    constructor
    · intro h; rw [if_neg (by omega)]; omega
    · intro h; rw [if_pos h]; omega

/-- the `k`-th selected position lies between `lo` and `hi` (exclusive) in the direction of travel -/
theorem countOf_range (lo hi st : Int) (k : Nat) (hk : k < countOf lo hi st) :
    (0 < st → lo ≤ lo + (k : Int) * st ∧ lo + (k : Int) * st < hi) ∧
    (st < 0 → hi < lo + (k : Int) * st ∧ lo + (k : Int) * st ≤ lo) := by
  unfold countOf at hk
  constructor
  · intro hpos
    rw [if_neg (by omega)] at hk
    by_cases hlt : lo < hi
    · rw [if_pos hlt] at hk
      have hq : (k : Int) ≤ (hi - lo - 1) / st := by omega
      have h1 : (k : Int) * st ≤ (hi - lo - 1) / st * st := Int.mul_le_mul_of_nonneg_right hq (by omega)
      have h2 : (hi - lo - 1) / st * st ≤ hi - lo - 1 := Int.ediv_mul_le _ (by omega)
      have h4 : 0 ≤ (k : Int) * st := Int.mul_nonneg (by omega) (by omega)
      omega
    · rw [if_neg hlt] at hk; simp at hk
  · intro hneg
    rw [if_pos hneg] at hk
    by_cases hlt : hi < lo
    · rw [if_pos hlt] at hk
      have hq : (k : Int) ≤ (lo - hi - 1) / (-st) := by omega
      have h1 : (k : Int) * (-st) ≤ (lo - hi - 1) / (-st) * (-st) :=
        Int.mul_le_mul_of_nonneg_right hq (by omega)
      have h2 : (lo - hi - 1) / (-st) * (-st) ≤ lo - hi - 1 := Int.ediv_mul_le _ (by omega)
      have h3 : (k : Int) * (-st) = -((k : Int) * st) := by rw [Int.mul_neg]
      have h4 : 0 ≤ (k : Int) * (-st) := Int.mul_nonneg (by omega) (by omega)
      omega
    · rw [if_neg hlt] at hk; simp at hk

/-- every selected position is a position of the sequence -/
theorem span_in_range (n : Nat) (start stop step : Option Int) (s : Span) (h : span n start stop step = .ok s)
    (k : Nat) (hk : k < s.count) : 0 ≤ s.start + (k : Int) * s.step ∧ s.start + (k : Int) * s.step < n := by
  unfold span at h
  simp only at h
  split at h
  · cases h
  · next hst0 =>
    injection h with h
    subst h
    simp only at hk ⊢
    have hc := countOf_range _ _ _ k hk
    have hs := startOf_bounds n (step.getD 1) start
    have ht := stopOf_bounds n (step.getD 1) stop
    rcases Int.lt_or_gt_of_ne hst0 with hneg | hpos
    · have := hc.2 hneg; have := hs.2 hneg; have := ht.2 hneg; omega
    · have := hc.1 hpos; have := hs.1 hpos; have := ht.1 hpos; omega

end OptiVerif.BinSeq
