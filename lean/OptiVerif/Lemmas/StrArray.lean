/-
Lemmas about the model of `str2array` (Model/StrArray.lean): character-class lattice, splitting, number tokens.
-/
import OptiVerif.Model.StrArray
import Mathlib.Tactic.Linarith
import Mathlib.Tactic.Ring
import Mathlib.Tactic.IntervalCases
import Mathlib.Algebra.Order.Field.Rat
import Mathlib.Data.Rat.Floor

namespace OptiVerif.StrArray
open OptiVerif

/-! ### the four character classes are nested -/

theorem isIntChar_of_isBoolChar {c : Char} (h : isBoolChar c = true) : isIntChar c = true := by
  simp only [isBoolChar, Bool.or_eq_true, beq_iff_eq] at h
  simp only [isIntChar, Bool.or_eq_true, beq_iff_eq]
  rcases h with (((h | h) | h) | h) | h
  · subst h; simp [Char.isDigit]
  · subst h; simp [Char.isDigit]
  · simp [h]
  · simp [h]
  · simp [h]

theorem isFloatChar_of_isIntChar {c : Char} (h : isIntChar c = true) : isFloatChar c = true := by
  simp only [isIntChar, Bool.or_eq_true, beq_iff_eq] at h
  simp only [isFloatChar, Bool.or_eq_true, beq_iff_eq]
  tauto

theorem isComplexChar_of_isFloatChar {c : Char} (h : isFloatChar c = true) : isComplexChar c = true := by
  simp only [isFloatChar, Bool.or_eq_true, beq_iff_eq] at h
  simp only [isComplexChar, Bool.or_eq_true, beq_iff_eq]
  tauto

theorem fullMatch_iff (p : Char → Bool) (s : List Char) :
    fullMatch p s = true ↔ s ≠ [] ∧ ∀ c ∈ s, p c = true := by
  unfold fullMatch
  cases s <;> simp

theorem fullMatch_mono {p q : Char → Bool} (h : ∀ c, p c = true → q c = true) {s : List Char}
    (hs : fullMatch p s = true) : fullMatch q s = true := by
  rw [fullMatch_iff] at *
  exact ⟨hs.1, fun c hc => h c (hs.2 c hc)⟩


/-- the inferred type is the least class containing every character -/
theorem inferType_some_iff (s : List Char) (t : Ty) :
    inferType s = some t ↔
      s ≠ [] ∧
      match t with
      | .bool => ∀ c ∈ s, isBoolChar c = true
      | .int => (∀ c ∈ s, isIntChar c = true) ∧ ¬ ∀ c ∈ s, isBoolChar c = true
      | .float => (∀ c ∈ s, isFloatChar c = true) ∧ ¬ ∀ c ∈ s, isIntChar c = true
      | .complex => (∀ c ∈ s, isComplexChar c = true) ∧ ¬ ∀ c ∈ s, isFloatChar c = true := by
  have key : ∀ p : Char → Bool, (fullMatch p s = true ↔ s ≠ [] ∧ ∀ c ∈ s, p c = true) := fun p => fullMatch_iff p s
  by_cases hne : s = []
  · subst hne
    cases t <;> simp [inferType, fullMatch]
  · have k : ∀ p : Char → Bool, (fullMatch p s = true ↔ ∀ c ∈ s, p c = true) := by
      intro p; rw [key]; simp [hne]
    have mono1 : (∀ c ∈ s, isBoolChar c = true) → ∀ c ∈ s, isIntChar c = true :=
      fun h c hc => isIntChar_of_isBoolChar (h c hc)
    have mono2 : (∀ c ∈ s, isIntChar c = true) → ∀ c ∈ s, isFloatChar c = true :=
      fun h c hc => isFloatChar_of_isIntChar (h c hc)
    have mono3 : (∀ c ∈ s, isFloatChar c = true) → ∀ c ∈ s, isComplexChar c = true :=
      fun h c hc => isComplexChar_of_isFloatChar (h c hc)
    unfold inferType
    simp only [k]
    cases t <;> simp only [hne, ne_eq, not_false_eq_true, true_and] <;> split_ifs <;>
      simp only [Option.some.injEq, reduceCtorEq, false_iff, true_iff, not_and, not_not] <;> tauto


theorem inferType_none_iff (s : List Char) :
    inferType s = none ↔ s = [] ∨ ∃ c ∈ s, isComplexChar c = false := by
  constructor
  · intro h
    by_contra hn
    push Not at hn
    have hc : ∀ c ∈ s, isComplexChar c = true := by
      intro c hc
      have := hn.2 c hc
      cases h' : isComplexChar c
      · exact absurd h' this
      · rfl
    by_cases hf : ∀ c ∈ s, isFloatChar c = true
    · by_cases hi : ∀ c ∈ s, isIntChar c = true
      · by_cases hb : ∀ c ∈ s, isBoolChar c = true
        · have := (inferType_some_iff s .bool).mpr ⟨hn.1, hb⟩
          rw [h] at this; cases this
        · have := (inferType_some_iff s .int).mpr ⟨hn.1, hi, hb⟩
          rw [h] at this; cases this
      · have := (inferType_some_iff s .float).mpr ⟨hn.1, hf, hi⟩
        rw [h] at this; cases this
    · have := (inferType_some_iff s .complex).mpr ⟨hn.1, hc, hf⟩
      rw [h] at this; cases this
  · intro h
    cases ht : inferType s with
    | none => rfl
    | some t =>
      exfalso
      have := (inferType_some_iff s t).mp ht
      rcases h with h | ⟨c, hc, hcc⟩
      · exact this.1 h
      · have hall : ∀ c ∈ s, isComplexChar c = true := by
          cases t
          · exact fun c hc => isComplexChar_of_isFloatChar (isFloatChar_of_isIntChar (isIntChar_of_isBoolChar (this.2 c hc)))
          · exact fun c hc => isComplexChar_of_isFloatChar (isFloatChar_of_isIntChar (this.2.1 c hc))
          · exact fun c hc => isComplexChar_of_isFloatChar (this.2.1 c hc)
          · exact this.2.1
        rw [hall c hc] at hcc; cases hcc

/-! ### splitting -/

theorem splitOn_ne_nil (sep : Char) (s : List Char) : splitOn sep s ≠ [] := by
  induction s with
  | nil => simp [splitOn]
  | cons c cs ih =>
    unfold splitOn
    split_ifs
    · simp
    · split <;> simp

/-- no separator inside: one piece -/
theorem splitOn_of_not_mem (sep : Char) (s : List Char) (h : ∀ c ∈ s, c ≠ sep) : splitOn sep s = [s] := by
  induction s with
  | nil => rfl
  | cons c cs ih =>
    have hc : (c == sep) = false := by simpa using h c List.mem_cons_self
    have := ih (fun d hd => h d (List.mem_cons_of_mem _ hd))
    simp [splitOn, hc, this]

/-- a piece without separator, then the separator, then the rest -/
theorem splitOn_append (sep : Char) (a rest : List Char) (h : ∀ c ∈ a, c ≠ sep) :
    splitOn sep (a ++ sep :: rest) = a :: splitOn sep rest := by
  induction a with
  | nil => simp [splitOn]
  | cons c cs ih =>
    have hc : (c == sep) = false := by simpa using h c List.mem_cons_self
    have := ih (fun d hd => h d (List.mem_cons_of_mem _ hd))
    simp [splitOn, hc, this]

theorem splitRuns_ne_nil (s : List Char) : splitRuns s ≠ [] := by
  induction s with
  | nil => simp [splitRuns]
  | cons c cs ih =>
    unfold splitRuns
    cases h : splitRuns cs with
    | nil => simp
    | cons t ts =>
      simp only
      split_ifs
      · cases cs with
        | nil => simp
        | cons d ds => simp only; split_ifs <;> simp
      · simp

/-- a token (no separator character) in front of anything -/
theorem splitRuns_token_append (tok rest : List Char) (h : ∀ c ∈ tok, isSep c = false) :
    splitRuns (tok ++ rest) =
      match splitRuns rest with
      | [] => [tok]
      | t :: ts => (tok ++ t) :: ts := by
  induction tok with
  | nil => cases h' : splitRuns rest <;> simp [h']; exact absurd h' (splitRuns_ne_nil rest)
  | cons c cs ih =>
    have hc : isSep c = false := h c List.mem_cons_self
    have ih' := ih (fun d hd => h d (List.mem_cons_of_mem _ hd))
    rw [List.cons_append]
    conv_lhs => unfold splitRuns
    rw [ih']
    cases h' : splitRuns rest with
    | nil => exact absurd h' (splitRuns_ne_nil rest)
    | cons t ts => simp [hc]

/-- a token alone -/
theorem splitRuns_token (tok : List Char) (h : ∀ c ∈ tok, isSep c = false) : splitRuns tok = [tok] := by
  have := splitRuns_token_append tok [] h
  simpa [splitRuns] using this

/-- a non-empty run of separators in front of a non-separator -/
theorem splitRuns_sep_append (sep : List Char) (d : Char) (rest : List Char) (hne : sep ≠ [])
    (hs : ∀ c ∈ sep, isSep c = true) (hd : isSep d = false) :
    splitRuns (sep ++ d :: rest) = [] :: splitRuns (d :: rest) := by
  induction sep with
  | nil => exact absurd rfl hne
  | cons c cs ih =>
    have hc : isSep c = true := hs c List.mem_cons_self
    rw [List.cons_append]
    conv_lhs => unfold splitRuns
    cases cs with
    | nil =>
      simp only [List.nil_append]
      cases h' : splitRuns (d :: rest) with
      | nil => exact absurd h' (splitRuns_ne_nil _)
      | cons t ts => simp [hc, hd]
    | cons e es =>
      have he : isSep e = true := hs e (by simp)
      rw [ih (by simp) (fun x hx => hs x (List.mem_cons_of_mem _ hx))]
      simp [hc, he]

/-- `tok sep tok sep … tok`: the tokens come back -/
theorem splitRuns_join (sep : List Char) (hne : sep ≠ []) (hs : ∀ c ∈ sep, isSep c = true) :
    ∀ (toks : List (List Char)), toks ≠ [] → (∀ t ∈ toks, t ≠ [] ∧ ∀ c ∈ t, isSep c = false) →
      splitRuns (List.intercalate sep toks) = toks := by
  intro toks
  induction toks with
  | nil => intro h; exact absurd rfl h
  | cons t ts ih =>
    intro _ hall
    have ht := hall t List.mem_cons_self
    cases ts with
    | nil => simpa [List.intercalate] using splitRuns_token t ht.2
    | cons u us =>
      have hu := hall u (by simp)
      have ih' := ih (by simp) (fun x hx => hall x (List.mem_cons_of_mem _ hx))
      have e : List.intercalate sep (t :: u :: us) = t ++ (sep ++ List.intercalate sep (u :: us)) := by
        simp [List.intercalate_cons_cons]
      rw [e, splitRuns_token_append t _ ht.2]
      obtain ⟨d, ds, hd⟩ : ∃ d ds, List.intercalate sep (u :: us) = d :: ds := by
        cases hu' : u with
        | nil => exact absurd hu' hu.1
        | cons d ds =>
          cases us with
          | nil => exact ⟨d, ds, by simp [List.intercalate]⟩
          | cons w ws => exact ⟨d, ds ++ (sep ++ List.intercalate sep (w :: ws)), by simp [List.intercalate_cons_cons]⟩
      have hdsep : isSep d = false := by
        have : d ∈ u := by
          cases hu' : u with
          | nil => exact absurd hu' hu.1
          | cons d' ds' =>
            rw [hu'] at hd
            cases us with
            | nil => simp [List.intercalate] at hd; rw [hd.1]; simp
            | cons w ws => simp [List.intercalate_cons_cons] at hd; rw [hd.1]; simp
        exact hu.2 d this
      rw [hd, splitRuns_sep_append sep d ds hne hs hdsep, ← hd, ih']
      simp


/-! ### strip -/

theorem dropWhile_ws_append (pre core : List Char) (hpre : ∀ c ∈ pre, isWs c = true) :
    (pre ++ core).dropWhile isWs = core.dropWhile isWs := by
  induction pre with
  | nil => rfl
  | cons c cs ih =>
    rw [List.cons_append, List.dropWhile_cons_of_pos (hpre c List.mem_cons_self)]
    exact ih (fun d hd => hpre d (List.mem_cons_of_mem _ hd))

/-- blanks around a core that starts and ends with a non-blank are stripped -/
theorem strip_pad (pre core post : List Char) (hpre : ∀ c ∈ pre, isWs c = true) (hpost : ∀ c ∈ post, isWs c = true)
    (hhead : ∃ c rest, core = c :: rest ∧ isWs c = false) (hlast : ∃ init l, core = init ++ [l] ∧ isWs l = false) :
    strip (pre ++ core ++ post) = core := by
  unfold strip
  rw [List.append_assoc, dropWhile_ws_append pre _ hpre]
  obtain ⟨c, rest, hc, hcw⟩ := hhead
  obtain ⟨init, l, hl, hlw⟩ := hlast
  have h1 : (core ++ post).dropWhile isWs = core ++ post := by
    rw [hc, List.cons_append, List.dropWhile_cons_of_neg (by simp [hcw])]
  rw [h1, List.reverse_append, dropWhile_ws_append post.reverse _ (by simpa using hpost)]
  have h2 : core.reverse.dropWhile isWs = core.reverse := by
    rw [hl, List.reverse_append, List.reverse_singleton, List.singleton_append,
      List.dropWhile_cons_of_neg (by simp [hlw])]
  rw [h2, List.reverse_reverse]

/-! ### decimal digits -/

def digitChar (d : Nat) : Char := Char.ofNat (48 + d)

/-- the decimal digits of a natural number, most significant first (no leading zeros; `0` ↦ `"0"`) -/
def natDigits (n : Nat) : List Char :=
  if h : n < 10 then [digitChar n] else natDigits (n / 10) ++ [digitChar (n % 10)]
decreasing_by omega

/-- the usual fixed-point text of an integer -/
def renderInt (n : Int) : List Char := if n < 0 then '-' :: natDigits n.natAbs else natDigits n.natAbs

theorem digitChar_props (d : Nat) (h : d < 10) :
    (digitChar d).isDigit = true ∧ digitVal (digitChar d) = d ∧ isSep (digitChar d) = false ∧ isWs (digitChar d) = false
      ∧ digitChar d ≠ ';' ∧ digitChar d ≠ '-' ∧ digitChar d ≠ '+' := by
  interval_cases d <;> decide

theorem natOfDigits_append (a : List Char) (c : Char) : natOfDigits (a ++ [c]) = 10 * natOfDigits a + digitVal c := by
  simp [natOfDigits, List.foldl_append]

theorem natDigits_spec (n : Nat) :
    natOfDigits (natDigits n) = n ∧ natDigits n ≠ [] ∧ ∀ c ∈ natDigits n, ∃ d, d < 10 ∧ c = digitChar d := by
  induction n using Nat.strongRecOn with
  | _ n ih =>
    rw [natDigits]
    by_cases h : n < 10
    · rw [dif_pos h]
      refine ⟨?_, by simp, ?_⟩
      · simp [natOfDigits, (digitChar_props n h).2.1]
      · intro c hc; exact ⟨n, h, by simpa using hc⟩
    · rw [dif_neg h]
      obtain ⟨h1, h2, h3⟩ := ih (n / 10) (by omega)
      refine ⟨?_, by simp, ?_⟩
      · rw [natOfDigits_append, h1, (digitChar_props (n % 10) (by omega)).2.1]; omega
      · intro c hc
        rcases List.mem_append.mp hc with hc | hc
        · exact h3 c hc
        · exact ⟨n % 10, by omega, by simpa using hc⟩

theorem natDigits_all_digit (n : Nat) : (natDigits n).all Char.isDigit = true := by
  rw [List.all_eq_true]
  intro c hc
  obtain ⟨d, hd, rfl⟩ := (natDigits_spec n).2.2 c hc
  exact (digitChar_props d hd).1

theorem natDigits_head (n : Nat) : ∃ d rest, d < 10 ∧ natDigits n = digitChar d :: rest := by
  obtain ⟨_, hne, hall⟩ := natDigits_spec n
  cases h : natDigits n with
  | nil => exact absurd h hne
  | cons c cs =>
    obtain ⟨d, hd, rfl⟩ := hall c (by rw [h]; simp)
    exact ⟨d, cs, hd, rfl⟩

theorem natDigits_last (n : Nat) : ∃ init d, d < 10 ∧ natDigits n = init ++ [digitChar d] := by
  rw [natDigits]
  by_cases h : n < 10
  · rw [dif_pos h]; exact ⟨[], n, h, rfl⟩
  · rw [dif_neg h]; exact ⟨_, n % 10, by omega, rfl⟩

/-- `int()` reads back the rendered text -/
theorem parseInt_renderInt (n : Int) : parseInt (renderInt n) = some n := by
  obtain ⟨h1, h2, _⟩ := natDigits_spec n.natAbs
  have hall := natDigits_all_digit n.natAbs
  have hemp : (natDigits n.natAbs).isEmpty = false := by
    cases h : natDigits n.natAbs with
    | nil => exact absurd h h2
    | cons _ _ => rfl
  unfold renderInt
  by_cases hn : n < 0
  · rw [if_pos hn]
    simp only [parseInt, hemp, hall, Bool.not_true, Bool.or_self, Bool.false_eq_true, if_false, if_true, h1]
    congr 1; omega
  · rw [if_neg hn]
    obtain ⟨d, rest, hd, hr⟩ := natDigits_head n.natAbs
    have hm : digitChar d ≠ '-' := (digitChar_props d hd).2.2.2.2.2.1
    have hp : digitChar d ≠ '+' := (digitChar_props d hd).2.2.2.2.2.2
    have key : parseInt (natDigits n.natAbs) = some ((natOfDigits (natDigits n.natAbs) : Nat) : Int) := by
      rw [hr] at hall hemp ⊢
      unfold parseInt
      split
      · rename_i heq; exact absurd (List.cons.inj heq).1 hm
      · rename_i heq; exact absurd (List.cons.inj heq).1 hp
      · simp only [hemp, hall, Bool.not_true, Bool.or_self, Bool.false_eq_true, if_false]
    rw [key, h1]
    congr 1; omega

theorem renderInt_chars (n : Int) :
    renderInt n ≠ [] ∧ (∀ c ∈ renderInt n, isSep c = false ∧ c ≠ ';' ∧ isIntChar c = true) ∧
    (∃ c rest, renderInt n = c :: rest ∧ isWs c = false) ∧ (∃ init l, renderInt n = init ++ [l] ∧ isWs l = false) := by
  have hd : ∀ c ∈ natDigits n.natAbs, isSep c = false ∧ c ≠ ';' ∧ isIntChar c = true ∧ isWs c = false := by
    intro c hc
    obtain ⟨d, hd, rfl⟩ := (natDigits_spec n.natAbs).2.2 c hc
    have := digitChar_props d hd
    exact ⟨this.2.2.1, this.2.2.2.2.1, by simp [isIntChar, this.1], this.2.2.2.1⟩
  obtain ⟨d, rest, hdl, hr⟩ := natDigits_head n.natAbs
  obtain ⟨init, l, hll, hl⟩ := natDigits_last n.natAbs
  unfold renderInt
  by_cases hn : n < 0
  · rw [if_pos hn]
    refine ⟨by simp, ?_, ⟨'-', _, rfl, by decide⟩, ⟨'-' :: init, digitChar l, by rw [hl]; rfl, (digitChar_props l hll).2.2.2.1⟩⟩
    intro c hc
    rcases List.mem_cons.mp hc with rfl | hc
    · exact ⟨by decide, by decide, by decide⟩
    · exact ⟨(hd c hc).1, (hd c hc).2.1, (hd c hc).2.2.1⟩
  · rw [if_neg hn]
    refine ⟨(natDigits_spec _).2.1, fun c hc => ⟨(hd c hc).1, (hd c hc).2.1, (hd c hc).2.2.1⟩,
      ⟨digitChar d, rest, hr, (digitChar_props d hdl).2.2.2.1⟩, ⟨init, digitChar l, hl, (digitChar_props l hll).2.2.2.1⟩⟩

/-! ### rendered integer arrays are read back -/

/-- an integer as an array entry -/
def intEntry (n : Int) : Rat × Rat := ((n : Rat), 0)

def InRange (n : Int) : Prop := int64Min ≤ n ∧ n ≤ int64Max

theorem parseTok_int_render (n : Int) (h : InRange n) : parseTok .int (renderInt n) = .ok (intEntry n) := by
  unfold parseTok
  simp only [parseInt_renderInt]
  have : ¬ (n < int64Min ∨ n > int64Max) := by unfold InRange at h; omega
  simp [this, intEntry]

theorem mapM_ok_of_forall {α β : Type} (f : α → Except Wire.Err β) (g : α → β) (xs : List α)
    (h : ∀ x ∈ xs, f x = .ok (g x)) : xs.mapM f = .ok (xs.map g) := by
  induction xs with
  | nil => rfl
  | cons x xs ih =>
    rw [List.mapM_cons, h x List.mem_cons_self, ih (fun y hy => h y (List.mem_cons_of_mem _ hy))]
    rfl

/-- one row: elements joined by a separator -/
def renderRow (sep : List Char) (xs : List Int) : List Char := List.intercalate sep (xs.map renderInt)

/-- an element separator: a non-empty run of commas / blanks -/
def IsElemSep (sep : List Char) : Prop := sep ≠ [] ∧ ∀ c ∈ sep, isSep c = true

/-- a row separator: `;` possibly surrounded by blanks -/
def IsBlank (w : List Char) : Prop := ∀ c ∈ w, isWs c = true

theorem isSep_ne_semicolon {c : Char} (h : isSep c = true) : c ≠ ';' := by
  intro hc; subst hc; exact absurd h (by decide)

theorem isWs_ne_semicolon {c : Char} (h : isWs c = true) : c ≠ ';' := by
  intro hc; subst hc; exact absurd h (by decide)

theorem isSep_of_isWs {c : Char} (h : isWs c = true) : isSep c = true := by simp [isSep, h]

theorem isIntChar_of_isSep {c : Char} (h : isSep c = true) : isIntChar c = true := by
  simp only [isSep, Bool.or_eq_true, beq_iff_eq] at h
  simp only [isIntChar, Bool.or_eq_true, beq_iff_eq]
  tauto

theorem mem_intercalate {sep : List Char} {c : Char} : ∀ (toks : List (List Char)),
    c ∈ List.intercalate sep toks → (∃ t ∈ toks, c ∈ t) ∨ c ∈ sep := by
  intro toks
  induction toks with
  | nil => intro h; simp [List.intercalate] at h
  | cons t ts ih =>
    intro h
    cases ts with
    | nil => exact Or.inl ⟨t, by simp, by simpa [List.intercalate] using h⟩
    | cons u us =>
      rw [List.intercalate_cons_cons] at h
      rcases List.mem_append.mp h with h | h
      · rcases List.mem_append.mp h with h | h
        · exact Or.inl ⟨t, by simp, h⟩
        · exact Or.inr h
      · rcases ih h with ⟨x, hx, hcx⟩ | h'
        · exact Or.inl ⟨x, List.mem_cons_of_mem _ hx, hcx⟩
        · exact Or.inr h'

theorem intercalate_head {sep : List Char} : ∀ (toks : List (List Char)), toks ≠ [] →
    (∀ t ∈ toks, ∃ c rest, t = c :: rest ∧ isWs c = false) →
    ∃ c rest, List.intercalate sep toks = c :: rest ∧ isWs c = false := by
  intro toks hne h
  cases toks with
  | nil => exact absurd rfl hne
  | cons t ts =>
    obtain ⟨c, rest, ht, hc⟩ := h t List.mem_cons_self
    cases ts with
    | nil => exact ⟨c, rest, by simp [List.intercalate, ht], hc⟩
    | cons u us => exact ⟨c, rest ++ (sep ++ List.intercalate sep (u :: us)), by simp [List.intercalate_cons_cons, ht], hc⟩

theorem intercalate_last {sep : List Char} : ∀ (toks : List (List Char)), toks ≠ [] →
    (∀ t ∈ toks, ∃ init l, t = init ++ [l] ∧ isWs l = false) →
    ∃ init l, List.intercalate sep toks = init ++ [l] ∧ isWs l = false := by
  intro toks
  induction toks with
  | nil => intro h; exact absurd rfl h
  | cons t ts ih =>
    intro _ h
    cases ts with
    | nil =>
      obtain ⟨init, l, ht, hl⟩ := h t List.mem_cons_self
      exact ⟨init, l, by simp [List.intercalate, ht], hl⟩
    | cons u us =>
      obtain ⟨init, l, hi, hl⟩ := ih (by simp) (fun x hx => h x (List.mem_cons_of_mem _ hx))
      exact ⟨t ++ sep ++ init, l, by rw [List.intercalate_cons_cons, hi]; simp, hl⟩

theorem renderRow_chars (sep : List Char) (hsep : IsElemSep sep) (xs : List Int) (hne : xs ≠ []) :
    (∀ c ∈ renderRow sep xs, c ≠ ';' ∧ isIntChar c = true) ∧
    (∃ c rest, renderRow sep xs = c :: rest ∧ isWs c = false) ∧
    (∃ init l, renderRow sep xs = init ++ [l] ∧ isWs l = false) := by
  refine ⟨?_, ?_, ?_⟩
  · intro c hc
    unfold renderRow at hc
    rcases mem_intercalate _ hc with ⟨t, ht, hct⟩ | hcs
    · obtain ⟨n, _, rfl⟩ := List.mem_map.mp ht
      have := (renderInt_chars n).2.1 c hct
      exact ⟨this.2.1, this.2.2⟩
    · exact ⟨isSep_ne_semicolon (hsep.2 c hcs), isIntChar_of_isSep (hsep.2 c hcs)⟩
  · apply intercalate_head _ (by simpa using hne)
    intro t ht
    obtain ⟨n, _, rfl⟩ := List.mem_map.mp ht
    exact (renderInt_chars n).2.2.1
  · apply intercalate_last _ (by simpa using hne)
    intro t ht
    obtain ⟨n, _, rfl⟩ := List.mem_map.mp ht
    exact (renderInt_chars n).2.2.2

/-- a padded row is tokenised into its elements' texts -/
theorem row_tokens (sep pre post : List Char) (hsep : IsElemSep sep) (hpre : IsBlank pre) (hpost : IsBlank post)
    (xs : List Int) (hne : xs ≠ []) :
    splitRuns (strip (pre ++ renderRow sep xs ++ post)) = xs.map renderInt := by
  obtain ⟨_, hh, hl⟩ := renderRow_chars sep hsep xs hne
  rw [strip_pad pre _ post hpre hpost hh hl]
  unfold renderRow
  apply splitRuns_join sep hsep.1 hsep.2 _ (by simpa using hne)
  intro t ht
  obtain ⟨n, _, rfl⟩ := List.mem_map.mp ht
  exact ⟨(renderInt_chars n).1, fun c hc => ((renderInt_chars n).2.1 c hc).1⟩

/-- the whole text: rows joined by `pre ; post` -/
def renderRows (sep pre post : List Char) (rows : List (List Int)) : List Char :=
  List.intercalate (pre ++ ';' :: post) (rows.map (renderRow sep))

theorem rows_tokens (sep pre post : List Char) (hsep : IsElemSep sep) (hpre : IsBlank pre) (hpost : IsBlank post) :
    ∀ (rows : List (List Int)), rows ≠ [] → (∀ r ∈ rows, r ≠ []) → ∀ lead : List Char, IsBlank lead →
      (splitOn ';' (lead ++ renderRows sep pre post rows)).map (fun p => splitRuns (strip p)) =
        rows.map (fun r => r.map renderInt) := by
  intro rows
  induction rows with
  | nil => intro h; exact absurd rfl h
  | cons r rs ih =>
    intro _ hrows lead hlead
    have hr := hrows r List.mem_cons_self
    obtain ⟨hchars, _, _⟩ := renderRow_chars sep hsep r hr
    cases rs with
    | nil =>
      have hno : ∀ c ∈ lead ++ renderRow sep r, c ≠ ';' := by
        intro c hc
        rcases List.mem_append.mp hc with hc | hc
        · exact isWs_ne_semicolon (hlead c hc)
        · exact (hchars c hc).1
      simp only [renderRows, List.map_cons, List.map_nil, List.intercalate_singleton]
      rw [splitOn_of_not_mem _ _ hno]
      simp only [List.map_cons, List.map_nil]
      have := row_tokens sep lead [] hsep hlead (by intro c hc; cases hc) r hr
      rw [List.append_nil] at this
      rw [this]
    | cons r2 rs2 =>
      have e : lead ++ renderRows sep pre post (r :: r2 :: rs2) =
          (lead ++ renderRow sep r ++ pre) ++ ';' :: (post ++ renderRows sep pre post (r2 :: rs2)) := by
        simp [renderRows, List.intercalate_cons_cons]
      have hno : ∀ c ∈ lead ++ renderRow sep r ++ pre, c ≠ ';' := by
        intro c hc
        rcases List.mem_append.mp hc with hc | hc
        · rcases List.mem_append.mp hc with hc | hc
          · exact isWs_ne_semicolon (hlead c hc)
          · exact (hchars c hc).1
        · exact isWs_ne_semicolon (hpre c hc)
      rw [e, splitOn_append _ _ _ hno]
      simp only [List.map_cons]
      rw [row_tokens sep lead pre hsep hlead hpre r hr,
        ih (by simp) (fun x hx => hrows x (List.mem_cons_of_mem _ hx)) post hpost]
      simp

theorem renderRows_intChars (sep pre post : List Char) (hsep : IsElemSep sep) (hpre : IsBlank pre) (hpost : IsBlank post)
    (rows : List (List Int)) (hrows : ∀ r ∈ rows, r ≠ []) :
    ∀ c ∈ renderRows sep pre post rows, isIntChar c = true := by
  intro c hc
  unfold renderRows at hc
  rcases mem_intercalate _ hc with ⟨t, ht, hct⟩ | hcs
  · obtain ⟨r, hr, rfl⟩ := List.mem_map.mp ht
    exact ((renderRow_chars sep hsep r (hrows r hr)).1 c hct).2
  · rcases List.mem_append.mp hcs with h | h
    · exact isIntChar_of_isSep (isSep_of_isWs (hpre c h))
    · rcases List.mem_cons.mp h with rfl | h
      · decide
      · exact isIntChar_of_isSep (isSep_of_isWs (hpost c h))

theorem mapM_map_ok {α β γ : Type} (f : β → Except Wire.Err γ) (h : α → β) (g : α → γ) (xs : List α)
    (hx : ∀ x ∈ xs, f (h x) = .ok (g x)) : (xs.map h).mapM f = .ok (xs.map g) := by
  induction xs with
  | nil => rfl
  | cons x xs ih =>
    rw [List.map_cons, List.mapM_cons, hx x List.mem_cons_self, ih (fun y hy => hx y (List.mem_cons_of_mem _ hy))]
    rfl

theorem rect_map {α β : Type} (f : List α → List β) (hf : ∀ l, (f l).length = l.length) (rows : List (List α)) :
    rect (rows.map f) = rect rows := by
  cases rows with
  | nil => rfl
  | cons r rs => simp [rect, hf, List.all_map, Function.comp_def]

/-- rows of equal length -/
def Rect (rows : List (List Int)) : Prop := rect rows = true

theorem parseNumeric_render (sep pre post : List Char) (hsep : IsElemSep sep) (hpre : IsBlank pre) (hpost : IsBlank post)
    (rows : List (List Int)) (hne : rows ≠ []) (hrows : ∀ r ∈ rows, r ≠ []) (hrect : Rect rows)
    (hrange : ∀ r ∈ rows, ∀ n ∈ r, InRange n) :
    parseNumeric .int (renderRows sep pre post rows) = .ok (mkArr .int (rows.map (fun r => r.map intEntry))) := by
  unfold parseNumeric
  have htok := rows_tokens sep pre post hsep hpre hpost rows hne hrows [] (by intro c hc; cases hc)
  rw [List.nil_append] at htok
  simp only [htok]
  have hr : rect (rows.map (fun r => r.map renderInt)) = true := by
    rw [rect_map (fun r => r.map renderInt) (fun l => by simp)]; exact hrect
  rw [hr]
  simp only [Bool.not_true, Bool.false_eq_true, if_false]
  have hm : (rows.map (fun r => r.map renderInt)).mapM (fun toks => toks.mapM (parseTok .int)) =
      .ok (rows.map (fun r => r.map intEntry)) := by
    apply mapM_map_ok
    intro r hr
    apply mapM_map_ok
    intro n hn
    exact parseTok_int_render n (hrange r hr n hn)
  rw [hm]
  rfl

theorem truncRat_intCast (n : Int) : truncRat (n : Rat) = n := by
  unfold truncRat
  split_ifs <;> simp

theorem castEntry_int_intEntry (n : Int) (h : InRange n) : castEntry .int (intEntry n) = .ok (intEntry n) := by
  unfold castEntry intEntry
  simp only [truncRat_intCast]
  have : ¬ (n < int64Min ∨ n > int64Max) := by unfold InRange at h; omega
  simp [this]

theorem astype_int_id (a : Arr) (ns : List Int) (hty : a.ty = .int) (hd : a.data = ns.map intEntry)
    (hr : ∀ n ∈ ns, InRange n) : astype .int a = .ok a := by
  unfold astype
  rw [hd, mapM_map_ok (castEntry .int) intEntry intEntry ns (fun n hn => castEntry_int_intEntry n (hr n hn))]
  cases a
  simp only at hty hd
  subst hty
  subst hd
  rfl

theorem mkArr_data (ty : Ty) (rows : List (List (Rat × Rat))) : (mkArr ty rows).data = rows.flatten := by
  unfold mkArr
  split <;> simp

theorem mkArr_ty (ty : Ty) (rows : List (List (Rat × Rat))) : (mkArr ty rows).ty = ty := by
  unfold mkArr
  split <;> rfl

/-- with `dtype=int`, a text over the integer character class goes through the numeric parser -/
theorem str2array_int_dtype (s : List Char) (hne : s ≠ []) (hall : ∀ c ∈ s, isIntChar c = true) :
    str2array s (some .int) = (parseNumeric .int s).bind (astype .int) := by
  by_cases hb : ∀ c ∈ s, isBoolChar c = true
  · have h := (inferType_some_iff s .bool).mpr ⟨hne, hb⟩
    simp only [str2array, h]
    rfl
  · have h := (inferType_some_iff s .int).mpr ⟨hne, hall, hb⟩
    simp only [str2array, h]
    rfl

/-- without `dtype`, a text of the integer class goes through the numeric parser unchanged -/
theorem str2array_none_of_int (s : List Char) (h : inferType s = some .int) :
    str2array s none = parseNumeric .int s := by
  simp only [str2array, h]
  cases parseNumeric .int s <;> rfl

theorem renderRows_ne_nil (sep pre post : List Char) (rows : List (List Int)) (hne : rows ≠ []) (hrows : ∀ r ∈ rows, r ≠ []) :
    renderRows sep pre post rows ≠ [] := by
  cases rows with
  | nil => exact absurd rfl hne
  | cons r rs =>
    have hr := hrows r List.mem_cons_self
    cases r with
    | nil => exact absurd rfl hr
    | cons n ns =>
      have h1 := (renderInt_chars n).1
      intro h
      cases rs with
      | nil =>
        cases ns with
        | nil => simp [renderRows, renderRow, List.intercalate] at h; exact h1 h
        | cons m ms => simp [renderRows, renderRow, List.intercalate_cons_cons] at h; exact h1 h.1
      | cons r2 rs2 =>
        cases ns with
        | nil => simp [renderRows, renderRow, List.intercalate_cons_cons, List.intercalate] at h
        | cons m ms => simp [renderRows, renderRow, List.intercalate_cons_cons] at h

/-! ### bit patterns -/

/-- the entry a bit character stands for -/
def bitVal (c : Char) : Rat × Rat := (if c = '1' then 1 else 0, 0)

/-- the text with blanks and commas removed, cut at `;` -/
def bitPieces (s : List Char) : List (List Char) := splitOn ';' (s.filter (fun c => c != ' ' && c != ','))

/-- a text made of the digits 0 and 1, blanks, commas and row separators -/
def IsBitText (s : List Char) : Prop := ∀ c ∈ s, c = '0' ∨ c = '1' ∨ c = ' ' ∨ c = ',' ∨ c = ';'

theorem mem_splitOn {sep : Char} : ∀ (s : List Char) (p : List Char) (c : Char),
    p ∈ splitOn sep s → c ∈ p → c ∈ s ∧ c ≠ sep := by
  intro s
  induction s with
  | nil => intro p c hp hc; simp [splitOn] at hp; subst hp; cases hc
  | cons d ds ih =>
    intro p c hp hc
    unfold splitOn at hp
    by_cases hd : (d == sep) = true
    · rw [if_pos hd] at hp
      rcases List.mem_cons.mp hp with rfl | hp
      · cases hc
      · obtain ⟨h1, h2⟩ := ih p c hp hc
        exact ⟨List.mem_cons_of_mem _ h1, h2⟩
    · rw [if_neg hd] at hp
      cases hsp : splitOn sep ds with
      | nil => exact absurd hsp (splitOn_ne_nil sep ds)
      | cons t ts =>
        rw [hsp] at hp
        simp only at hp
        rcases List.mem_cons.mp hp with rfl | hp
        · rcases List.mem_cons.mp hc with rfl | hc
          · exact ⟨List.mem_cons_self, by simpa using hd⟩
          · obtain ⟨h1, h2⟩ := ih t c (by rw [hsp]; exact List.mem_cons_self) hc
            exact ⟨List.mem_cons_of_mem _ h1, h2⟩
        · obtain ⟨h1, h2⟩ := ih p c (by rw [hsp]; exact List.mem_cons_of_mem _ hp) hc
          exact ⟨List.mem_cons_of_mem _ h1, h2⟩

theorem bitPieces_chars (s : List Char) (hs : IsBitText s) : ∀ p ∈ bitPieces s, ∀ c ∈ p, c = '0' ∨ c = '1' := by
  intro p hp c hc
  obtain ⟨h1, h2⟩ := mem_splitOn _ p c hp hc
  rw [List.mem_filter] at h1
  rcases hs c h1.1 with h | h | h | h | h
  · exact Or.inl h
  · exact Or.inr h
  · subst h; simp at h1
  · subst h; simp at h1
  · exact absurd h h2

theorem bitOfChar_bit (c : Char) (h : c = '0' ∨ c = '1') : bitOfChar c = .ok (bitVal c) := by
  rcases h with rfl | rfl <;> rfl

theorem parseBits_spec (s : List Char) (hs : IsBitText s) :
    parseBits s =
      if rect (bitPieces s) then .ok (mkArr .bool ((bitPieces s).map (fun p => p.map bitVal)))
      else .error .ValueError := by
  unfold parseBits
  change (if (!rect (bitPieces s)) = true then _ else _) = _
  by_cases hr : rect (bitPieces s) = true
  · rw [hr]
    simp only [Bool.not_true, Bool.false_eq_true, if_false, if_true]
    have hm : (bitPieces s).mapM (fun p => p.mapM bitOfChar) = .ok ((bitPieces s).map (fun p => p.map bitVal)) := by
      have := mapM_map_ok (fun p : List Char => p.mapM bitOfChar) id (fun p => p.map bitVal) (bitPieces s) (by
        intro p hp
        have := mapM_map_ok bitOfChar id bitVal p (fun c hc => bitOfChar_bit c (bitPieces_chars s hs p hp c hc))
        simpa using this)
      simpa using this
    show ((bitPieces s).mapM (fun p => p.mapM bitOfChar) >>= fun rows => pure (mkArr .bool rows)) = _
    rw [hm]; rfl
  · have : rect (bitPieces s) = false := by cases h : rect (bitPieces s) <;> simp_all
    rw [this]; rfl

theorem castEntry_bool_bitVal (c : Char) : castEntry .bool (bitVal c) = .ok (bitVal c) := by
  unfold castEntry bitVal
  by_cases h : c = '1' <;> simp [h]

theorem astype_bool_bits (a : Arr) (cs : List Char) (hty : a.ty = .bool) (hd : a.data = cs.map bitVal) :
    astype .bool a = .ok a := by
  unfold astype
  rw [hd, mapM_map_ok (castEntry .bool) bitVal bitVal cs (fun c _ => castEntry_bool_bitVal c)]
  cases a
  simp only at hty hd
  subst hty
  subst hd
  rfl

theorem isBoolChar_of_bitText {c : Char} (h : c = '0' ∨ c = '1' ∨ c = ' ' ∨ c = ',' ∨ c = ';') : isBoolChar c = true := by
  rcases h with rfl | rfl | rfl | rfl | rfl <;> decide

end OptiVerif.StrArray
