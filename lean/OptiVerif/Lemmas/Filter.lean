/-
Lemmas about `Model/Filter.lean` at ℝ: lengths, linearity of every stage of `sosfiltfilt`
(odd extension, `zi·x₀` initial conditions, section recursion, reversal, trimming), the constant-input fixed point.
-/
import OptiVerif.Model.Filter
import Mathlib.Data.Real.Basic
import Mathlib.Tactic.Ring
import Mathlib.Tactic.FieldSimp
import Mathlib.Tactic.Linarith
import Mathlib.Tactic.LinearCombination

namespace OptiVerif.Filter
open OptiVerif

/-- a·x + b·y, sample by sample -/
def lin (a b : ℝ) (xs ys : List ℝ) : List ℝ := List.zipWith (fun x y => a * x + b * y) xs ys

/-- complex a·z + b·w, sample by sample -/
def linCx (a b : Cx ℝ) (zs ws : List (Cx ℝ)) : List (Cx ℝ) := List.zipWith (fun z w => a * z + b * w) zs ws

@[simp] theorem length_lin (a b : ℝ) (xs ys : List ℝ) : (lin a b xs ys).length = min xs.length ys.length := by
  simp [lin]

/-! ### lengths -/

@[simp] theorem length_secRun (c : Sec ℝ) : ∀ (xs : List ℝ) (z : ℝ × ℝ), (secRun c z xs).length = xs.length
  | [], _ => rfl
  | _ :: xs, z => by simp [secRun, length_secRun c xs]

@[simp] theorem length_sosfilt : ∀ (secs : List (Sec ℝ)) (s : ℝ) (xs : List ℝ), (sosfilt secs s xs).length = xs.length
  | [], _, _ => rfl
  | c :: cs, s, xs => by simp [sosfilt, length_sosfilt cs]

@[simp] theorem length_pass (secs : List (Sec ℝ)) (xs : List ℝ) : (pass secs xs).length = xs.length := by
  cases xs <;> simp [pass]

theorem length_oddExt (n : ℕ) (x0 xl : ℝ) (xs : List ℝ) (h : n < xs.length) :
    (oddExt n x0 xl xs).length = n + xs.length + n := by
  simp only [oddExt, List.length_append, List.length_map, List.length_reverse, List.length_take, List.length_drop]
  omega

theorem length_trim (e : ℕ) (ys : List ℝ) : (trim e ys).length = ys.length - e - e := by
  simp [trim]

theorem length_fbCore (secs : List (Sec ℝ)) (e : ℕ) (ext : List ℝ) : (fbCore secs e ext).length = ext.length - e - e := by
  simp [fbCore, length_trim]

theorem length_filtCore (secs : List (Sec ℝ)) (e : ℕ) (xs : List ℝ) (h : e < xs.length) :
    (filtCore secs e xs).length = xs.length := by
  cases xs with
  | nil => simp at h
  | cons x0 xs =>
    simp only [filtCore, length_fbCore]
    rw [length_oddExt _ _ _ _ h]; omega

/-- the length of the total version depends on the input length only -/
theorem length_filtCore_congr (secs : List (Sec ℝ)) (e : ℕ) (xs ys : List ℝ) (h : xs.length = ys.length) :
    (filtCore secs e xs).length = (filtCore secs e ys).length := by
  cases xs with
  | nil => cases ys with
    | nil => rfl
    | cons _ _ => simp at h
  | cons x0 xs => cases ys with
    | nil => simp at h
    | cons y0 ys =>
      simp only [filtCore, length_fbCore, oddExt, List.length_append, List.length_map, List.length_reverse,
        List.length_take, List.length_drop, h]

/-! ### linearity, stage by stage -/

theorem secRun_lin (c : Sec ℝ) (a b : ℝ) : ∀ (xs ys : List ℝ) (z w : ℝ × ℝ), xs.length = ys.length →
    secRun c (a * z.1 + b * w.1, a * z.2 + b * w.2) (lin a b xs ys) = lin a b (secRun c z xs) (secRun c w ys)
  | [], [], _, _, _ => rfl
  | [], _ :: _, _, _, h => by simp at h
  | _ :: _, [], _, _, h => by simp at h
  | x :: xs, y :: ys, z, w, h => by
    have ih := secRun_lin c a b xs ys (secStep c z x).2 (secStep c w y).2 (by simpa using h)
    simp only [lin, List.zipWith_cons_cons, secRun] at ih ⊢
    rw [← ih]
    congr 1
    · simp only [secStep]; ring
    · congr 1
      simp only [secStep]
      refine Prod.ext ?_ ?_ <;> simp only <;> ring

theorem sosfilt_lin (a b : ℝ) : ∀ (secs : List (Sec ℝ)) (s t : ℝ) (xs ys : List ℝ), xs.length = ys.length →
    sosfilt secs (a * s + b * t) (lin a b xs ys) = lin a b (sosfilt secs s xs) (sosfilt secs t ys)
  | [], _, _, _, _, _ => rfl
  | c :: cs, s, t, xs, ys, h => by
    simp only [sosfilt]
    have e : (c.zi0 * (a * s + b * t), c.zi1 * (a * s + b * t))
        = (a * (c.zi0 * s, c.zi1 * s).1 + b * (c.zi0 * t, c.zi1 * t).1,
           a * (c.zi0 * s, c.zi1 * s).2 + b * (c.zi0 * t, c.zi1 * t).2) := by
      refine Prod.ext ?_ ?_ <;> simp only <;> ring
    rw [e, secRun_lin c a b xs ys _ _ h]
    exact sosfilt_lin a b cs s t _ _ (by simp [h])

theorem pass_lin (secs : List (Sec ℝ)) (a b : ℝ) (xs ys : List ℝ) (h : xs.length = ys.length) :
    pass secs (lin a b xs ys) = lin a b (pass secs xs) (pass secs ys) := by
  cases xs with
  | nil => cases ys with
    | nil => rfl
    | cons _ _ => simp at h
  | cons x xs => cases ys with
    | nil => simp at h
    | cons y ys =>
      have := sosfilt_lin a b secs x y (x :: xs) (y :: ys) h
      simpa [pass, lin] using this

theorem reverse_lin (a b : ℝ) (xs ys : List ℝ) (h : xs.length = ys.length) :
    (lin a b xs ys).reverse = lin a b xs.reverse ys.reverse := by
  simp only [lin]
  exact List.reverse_zipWith h

theorem take_lin (a b : ℝ) (n : ℕ) (xs ys : List ℝ) : (lin a b xs ys).take n = lin a b (xs.take n) (ys.take n) := by
  simp only [lin]; exact List.take_zipWith

theorem drop_lin (a b : ℝ) (n : ℕ) (xs ys : List ℝ) : (lin a b xs ys).drop n = lin a b (xs.drop n) (ys.drop n) := by
  simp only [lin]; exact List.drop_zipWith

theorem append_lin (a b : ℝ) (xs ys xs' ys' : List ℝ) (h : xs.length = ys.length) :
    lin a b xs ys ++ lin a b xs' ys' = lin a b (xs ++ xs') (ys ++ ys') := by
  simp only [lin]; exact (List.zipWith_append h).symm

theorem trim_lin (a b : ℝ) (e : ℕ) (xs ys : List ℝ) (h : xs.length = ys.length) :
    trim e (lin a b xs ys) = lin a b (trim e xs) (trim e ys) := by
  simp only [trim, length_lin, h, Nat.min_self, take_lin, drop_lin]

theorem fbCore_lin (secs : List (Sec ℝ)) (a b : ℝ) (e : ℕ) (xs ys : List ℝ) (h : xs.length = ys.length) :
    fbCore secs e (lin a b xs ys) = lin a b (fbCore secs e xs) (fbCore secs e ys) := by
  simp only [fbCore]
  rw [pass_lin _ _ _ _ _ h, reverse_lin _ _ _ _ (by simp [h]), pass_lin _ _ _ _ _ (by simp [h]),
    reverse_lin _ _ _ _ (by simp [h]), trim_lin _ _ _ _ _ (by simp [h])]

/-- the reflected samples: `2·(a p + b q) − (a u + b v) = a (2p − u) + b (2q − v)` -/
theorem map_reflect_lin (a b p q : ℝ) : ∀ (us vs : List ℝ),
    (lin a b us vs).map (fun v => ((2 : ℕ) : ℝ) * (a * p + b * q) - v)
      = lin a b (us.map (fun v => ((2 : ℕ) : ℝ) * p - v)) (vs.map (fun v => ((2 : ℕ) : ℝ) * q - v))
  | [], _ => by simp [lin]
  | _ :: _, [] => by simp [lin]
  | u :: us, v :: vs => by
    have ih := map_reflect_lin a b p q us vs
    simp only [lin, List.zipWith_cons_cons, List.map_cons] at ih ⊢
    rw [ih]
    congr 1
    ring

theorem oddExt_lin (a b : ℝ) (n : ℕ) (x0 xl y0 yl : ℝ) (xs ys : List ℝ) (h : xs.length = ys.length) :
    oddExt n (a * x0 + b * y0) (a * xl + b * yl) (lin a b xs ys)
      = lin a b (oddExt n x0 xl xs) (oddExt n y0 yl ys) := by
  simp only [oddExt]
  rw [← append_lin _ _ _ _ _ _ (by simp [h]), ← append_lin _ _ _ _ _ _ (by simp [h])]
  rw [drop_lin, take_lin, reverse_lin _ _ _ _ (by simp [h]), map_reflect_lin,
    reverse_lin _ _ _ _ h, drop_lin, take_lin, map_reflect_lin]

theorem last1_lin (a b : ℝ) : ∀ (xs ys : List ℝ) (x y : ℝ), xs.length = ys.length →
    last1 (a * x + b * y) (lin a b xs ys) = a * last1 x xs + b * last1 y ys
  | [], [], _, _, _ => rfl
  | [], _ :: _, _, _, h => by simp at h
  | _ :: _, [], _, _, h => by simp at h
  | x' :: xs, y' :: ys, _, _, h => by
    simpa [lin, last1] using last1_lin a b xs ys x' y' (by simpa using h)

theorem filtCore_lin (secs : List (Sec ℝ)) (e : ℕ) (a b : ℝ) (xs ys : List ℝ) (h : xs.length = ys.length) :
    filtCore secs e (lin a b xs ys) = lin a b (filtCore secs e xs) (filtCore secs e ys) := by
  cases xs with
  | nil => cases ys with
    | nil => rfl
    | cons _ _ => simp at h
  | cons x xs => cases ys with
    | nil => simp at h
    | cons y ys =>
      have hl : xs.length = ys.length := by simpa using h
      have e1 : lin a b (x :: xs) (y :: ys) = (a * x + b * y) :: lin a b xs ys := by simp [lin]
      rw [e1]
      simp only [filtCore]
      rw [last1_lin a b xs ys x y hl, ← e1, oddExt_lin a b e x _ y _ _ _ h]
      apply fbCore_lin
      simp only [oddExt, List.length_append, List.length_map, List.length_reverse, List.length_take,
        List.length_drop, h]

/-! ### complex rows -/

theorem length_filtCoreCx (secs : List (Sec ℝ)) (e : ℕ) (zs : List (Cx ℝ)) (h : e < zs.length) :
    (filtCoreCx secs e zs).length = zs.length := by
  simp [filtCoreCx, length_filtCore, h]

theorem map_re_linCx (a b : Cx ℝ) : ∀ (zs ws : List (Cx ℝ)),
    (linCx a b zs ws).map Cx.re
      = lin 1 1 (lin a.re (-a.im) (zs.map Cx.re) (zs.map Cx.im)) (lin b.re (-b.im) (ws.map Cx.re) (ws.map Cx.im))
  | [], _ => by simp [linCx, lin]
  | _ :: _, [] => by simp [linCx, lin]
  | z :: zs, w :: ws => by
    have ih := map_re_linCx a b zs ws
    simp only [linCx, lin, List.zipWith_cons_cons, List.map_cons] at ih ⊢
    rw [ih]
    congr 1
    simp only [Cx.add_re, Cx.mul_re]; ring

theorem map_im_linCx (a b : Cx ℝ) : ∀ (zs ws : List (Cx ℝ)),
    (linCx a b zs ws).map Cx.im
      = lin 1 1 (lin a.im a.re (zs.map Cx.re) (zs.map Cx.im)) (lin b.im b.re (ws.map Cx.re) (ws.map Cx.im))
  | [], _ => by simp [linCx, lin]
  | _ :: _, [] => by simp [linCx, lin]
  | z :: zs, w :: ws => by
    have ih := map_im_linCx a b zs ws
    simp only [linCx, lin, List.zipWith_cons_cons, List.map_cons] at ih ⊢
    rw [ih]
    congr 1
    simp only [Cx.add_im, Cx.mul_im]; ring

/-- recombination: four real rows of one length `n` -/
theorem zip_lin_lin (a b : Cx ℝ) (P Q S T : List ℝ) (hQ : Q.length = P.length) (hS : S.length = P.length)
    (hT : T.length = P.length) :
    List.zipWith Cx.mk (lin 1 1 (lin a.re (-a.im) P Q) (lin b.re (-b.im) S T))
        (lin 1 1 (lin a.im a.re P Q) (lin b.im b.re S T))
      = linCx a b (List.zipWith Cx.mk P Q) (List.zipWith Cx.mk S T) := by
  apply List.ext_getElem
  · simp [linCx, hQ, hS, hT]
  · intro i h1 h2
    simp only [linCx, lin, List.getElem_zipWith]
    show Cx.mk _ _ = Cx.mk _ _
    congr 1 <;> simp only [Cx.mul_re, Cx.mul_im] <;> ring

theorem filtCoreCx_lin (secs : List (Sec ℝ)) (e : ℕ) (a b : Cx ℝ) (zs ws : List (Cx ℝ)) (h : zs.length = ws.length) :
    filtCoreCx secs e (linCx a b zs ws) = linCx a b (filtCoreCx secs e zs) (filtCoreCx secs e ws) := by
  have L : ∀ (xs ys : List ℝ), xs.length = ys.length → (filtCore secs e xs).length = (filtCore secs e ys).length :=
    length_filtCore_congr secs e
  simp only [filtCoreCx, map_re_linCx, map_im_linCx]
  rw [filtCore_lin _ _ _ _ _ _ (by simp [h]), filtCore_lin _ _ _ _ _ _ (by simp), filtCore_lin _ _ _ _ _ _ (by simp),
    filtCore_lin _ _ _ _ _ _ (by simp [h]), filtCore_lin _ _ _ _ _ _ (by simp), filtCore_lin _ _ _ _ _ _ (by simp)]
  apply zip_lin_lin
  · exact L _ _ (by simp)
  · exact L _ _ (by simp [h])
  · exact L _ _ (by simp [h])

theorem map_re_zipWith_mk : ∀ (A B : List ℝ), A.length = B.length → (List.zipWith Cx.mk A B).map Cx.re = A
  | [], [], _ => rfl
  | [], _ :: _, h => by simp at h
  | _ :: _, [], h => by simp at h
  | a :: A, b :: B, h => by simp [map_re_zipWith_mk A B (by simpa using h)]

/-! ### constants: the steady state -/

/-- with input level `u·s` and state `zi·s`, section `c` answers `g·s` and keeps its state -/
def Steady (c : Sec ℝ) (u g : ℝ) : Prop :=
  c.b0 * u + c.zi0 = g ∧ c.b1 * u - c.a1 * g + c.zi1 = c.zi0 ∧ c.b2 * u - c.a2 * g = c.zi1

/-- the cascade takes level `u` to level `v`, every section sitting in its steady state -/
def SteadyChain : List (Sec ℝ) → ℝ → ℝ → Prop
  | [], u, v => u = v
  | c :: cs, u, v => ∃ g, Steady c u g ∧ SteadyChain cs g v

theorem secRun_const (c : Sec ℝ) (u g s : ℝ) (h : Steady c u g) : ∀ n : ℕ,
    secRun c (c.zi0 * s, c.zi1 * s) (List.replicate n (u * s)) = List.replicate n (g * s)
  | 0 => rfl
  | n + 1 => by
    obtain ⟨h0, h1, h2⟩ := h
    have e0 : c.b0 * (u * s) + c.zi0 * s = g * s := by rw [← h0]; ring
    have e1 : c.b1 * (u * s) - c.a1 * (g * s) + c.zi1 * s = c.zi0 * s := by
      calc _ = (c.b1 * u - c.a1 * g + c.zi1) * s := by ring
        _ = _ := by rw [h1]
    have e2 : c.b2 * (u * s) - c.a2 * (g * s) = c.zi1 * s := by
      calc _ = (c.b2 * u - c.a2 * g) * s := by ring
        _ = _ := by rw [h2]
    simp only [List.replicate_succ, secRun, secStep, e0, e1, e2]
    rw [secRun_const c u g s ⟨h0, h1, h2⟩ n]

theorem sosfilt_const (s : ℝ) (n : ℕ) : ∀ (secs : List (Sec ℝ)) (u v : ℝ), SteadyChain secs u v →
    sosfilt secs s (List.replicate n (u * s)) = List.replicate n (v * s)
  | [], u, v, h => by simp only [SteadyChain] at h; simp [sosfilt, h]
  | c :: cs, u, v, h => by
    obtain ⟨g, hg, hc⟩ := h
    simp only [sosfilt, secRun_const c u g s hg n]
    exact sosfilt_const s n cs g v hc

theorem pass_const (secs : List (Sec ℝ)) (v : ℝ) (h : SteadyChain secs 1 v) (c : ℝ) : ∀ n : ℕ,
    pass secs (List.replicate n c) = List.replicate n (v * c)
  | 0 => rfl
  | n + 1 => by
    have := sosfilt_const c (n + 1) secs 1 v h
    simpa [pass, List.replicate_succ] using this

theorem last1_replicate (c : ℝ) : ∀ n : ℕ, last1 c (List.replicate n c) = c
  | 0 => rfl
  | n + 1 => by simp [List.replicate_succ, last1, last1_replicate c n]

theorem oddExt_replicate (e n : ℕ) (c : ℝ) (h : e < n) :
    oddExt e c c (List.replicate n c) = List.replicate (e + n + e) c := by
  have hc : (2 : ℝ) * c - c = c := by ring
  have hm : min e (n - 1) = e := by omega
  simp only [oddExt, List.drop_replicate, List.take_replicate, hm, List.reverse_replicate, List.map_replicate,
    Nat.cast_ofNat, hc, List.replicate_append_replicate]

theorem trim_replicate (e n : ℕ) (c : ℝ) : trim e (List.replicate (e + n + e) c) = List.replicate n c := by
  simp only [trim, List.length_replicate, List.take_replicate, List.drop_replicate]
  congr 1
  omega

theorem filtCore_const (secs : List (Sec ℝ)) (h : SteadyChain secs 1 1) (e n : ℕ) (c : ℝ) (hn : e < n) :
    filtCore secs e (List.replicate n c) = List.replicate n c := by
  cases n with
  | zero => omega
  | succ m =>
    have : filtCore secs e (List.replicate (m + 1) c)
        = fbCore secs e (oddExt e c (last1 c (List.replicate m c)) (List.replicate (m + 1) c)) := by
      simp [List.replicate_succ, filtCore]
    rw [this, last1_replicate, oddExt_replicate e (m + 1) c hn]
    simp only [fbCore, pass_const secs 1 h, one_mul, List.reverse_replicate, trim_replicate]

/-! ### the hypothesis in the form the harness evaluates: DC gains Σb/Σa and scipy's `sosfilt_zi` recipe -/

/-- `sosfilt_zi`: section k holds the steady state of a step of height `u = Π_{i<k} G_i`
    (`zi = u · lfilter_zi(b, a)`, i.e. `zi1 = b2·u − a2·g`, `zi0 = g − b0·u` with `g = u·Σb/Σa`) -/
def SteadyState : List (Sec ℝ) → ℝ → Prop
  | [], _ => True
  | c :: cs, u =>
    (1 + c.a1 + c.a2 ≠ 0) ∧ c.zi1 = c.b2 * u - c.a2 * (u * dcGain c) ∧ c.zi0 = u * dcGain c - c.b0 * u ∧
      SteadyState cs (u * dcGain c)

/-- Π Σb/Σa -/
noncomputable def gainProd : List (Sec ℝ) → ℝ
  | [] => 1
  | c :: cs => dcGain c * gainProd cs

theorem steadyChain_of_steadyState : ∀ (secs : List (Sec ℝ)) (u : ℝ), SteadyState secs u →
    SteadyChain secs u (u * gainProd secs)
  | [], u, _ => by simp [SteadyChain, gainProd]
  | c :: cs, u, h => by
    obtain ⟨hne, h1, h0, hr⟩ := h
    refine ⟨u * dcGain c, ⟨?_, ?_, ?_⟩, ?_⟩
    · rw [h0]; ring
    · rw [h1, h0]
      have hg : dcGain c * (1 + c.a1 + c.a2) = c.b0 + c.b1 + c.b2 := by
        simp only [dcGain, Nat.cast_one]
        field_simp
      linear_combination (-u) * hg
    · rw [h1]
    · have := steadyChain_of_steadyState cs (u * dcGain c) hr
      simpa [gainProd, mul_assoc] using this

/-! ### rows -/

theorem mapE_ok {α β : Type} (f : α → Except Wire.Err β) (g : α → β) :
    ∀ rows : List α, (∀ r ∈ rows, f r = .ok (g r)) → mapE f rows = .ok (rows.map g)
  | [], _ => rfl
  | r :: rs, h => by
    have h1 := h r (by simp)
    have h2 := mapE_ok f g rs (fun r' hr' => h r' (by simp [hr']))
    simp [mapE, h1, h2]

/-- generic form: when the row function succeeds on every row, the container comes back with `g` applied to every
    row of `.signal` and of `.noise`, nothing else (one row never sees another, the signal never sees the noise) -/
theorem applyRows_ok {α β : Type} (f : List α → Except Wire.Err (List β)) (g : List α → List β) (s : Sig α)
    (hs : ∀ r ∈ s.rows, f r = .ok (g r)) (hn : ∀ nz, s.noise = some nz → ∀ r ∈ nz, f r = .ok (g r)) :
    applyRows f s = .ok ⟨s.rows.map g, s.noise.map (fun nz => nz.map g)⟩ := by
  rcases s with ⟨rows, _ | nz⟩
  · simp [applyRows, mapE_ok f g rows hs]
  · simp [applyRows, mapE_ok f g rows hs, mapE_ok f g nz (hn nz rfl)]

end OptiVerif.Filter
