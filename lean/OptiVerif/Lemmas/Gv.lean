/-
Helper lemmas for C14 (global grid `gv`): rounding, the rate ladder, inversion of a successful call.
-/
import Mathlib.Tactic.Ring
import Mathlib.Tactic.Linarith
import Mathlib.Tactic.FieldSimp
import Mathlib.Algebra.Order.Field.Rat
import Mathlib.Data.Rat.Floor
import OptiVerif.Model.Gv

namespace OptiVerif.Gv

/-! ### rounding -/

theorem floor_eq_intFloor (q : ℚ) : q.floor = ⌊q⌋ := rfl

/-- `int(np.round(k)) = k` for an integer-valued argument -/
theorem roundHalfEven_intCast (k : ℤ) : roundHalfEven (k : ℚ) = k := by
  unfold roundHalfEven
  simp only [floor_eq_intFloor, Int.floor_intCast, sub_self]
  rw [if_pos (by norm_num)]

/-- `int(np.round(q))` is within 1/2 of `q` -/
theorem roundHalfEven_close (q : ℚ) : |q - roundHalfEven q| ≤ 1 / 2 := by
  have h1 : ((q.floor : ℤ) : ℚ) ≤ q := Int.floor_le q
  have h2 : q < ((q.floor : ℤ) : ℚ) + 1 := Int.lt_floor_add_one q
  unfold roundHalfEven
  dsimp only
  by_cases c1 : q - ((q.floor : ℤ) : ℚ) < 1 / 2
  · rw [if_pos c1, abs_le]; constructor <;> linarith
  · rw [if_neg c1]
    by_cases c2 : 1 / 2 < q - ((q.floor : ℤ) : ℚ)
    · rw [if_pos c2, abs_le]; push_cast; constructor <;> linarith
    · rw [if_neg c2]
      split_ifs <;> rw [abs_le] <;> push_cast <;> constructor <;> linarith

/-! ### truthiness -/

theorem truthy_some {x : Option ℚ} {v : ℚ} (h : truthy x = some v) : x = some v ∧ v ≠ 0 := by
  unfold truthy at h
  cases x with
  | none => simp at h
  | some w =>
    simp only at h
    split at h
    · simp at h
    · rename_i hw
      simp only [Option.some.injEq] at h
      subst h
      exact ⟨rfl, hw⟩

theorem truthy_none {x : Option ℚ} (h : truthy x = none) : x = none ∨ x = some 0 := by
  unfold truthy at h
  cases x with
  | none => left; rfl
  | some w =>
    simp only at h
    split at h
    · rename_i hw; right; rw [hw]
    · simp at h

/-! ### grids -/

theorem length_linspace (stop : ℚ) (n : ℕ) : (linspace stop n).length = n := by
  unfold linspace
  split
  · rename_i h; simp [h]
  · simp

theorem length_wgrid (n : ℕ) (fs : ℚ) : (wgrid n fs).length = n := by simp [wgrid]

theorem getElem?_wgrid (n : ℕ) (fs : ℚ) (k : ℕ) (hk : k < n) :
    (wgrid n fs)[k]? = some (2 * ((((k : ℤ) - ((n / 2 : ℕ) : ℤ) : ℤ) : ℚ) / (n : ℚ)) * fs) := by
  simp [wgrid, hk]

theorem getElem?_linspace (stop : ℚ) (n k : ℕ) (hn : 2 ≤ n) (hk : k < n) :
    (linspace stop n)[k]? = some ((k : ℚ) * (stop / ((n : ℚ) - 1))) := by
  unfold linspace
  rw [if_neg (by omega)]
  simp [hk]

/-- first sample 0, last sample `stop` -/
theorem linspace_ends (stop : ℚ) (n : ℕ) (hn : 2 ≤ n) :
    (linspace stop n)[0]? = some 0 ∧ (linspace stop n)[n - 1]? = some stop := by
  constructor
  · rw [getElem?_linspace stop n 0 hn (by omega)]; simp
  · rw [getElem?_linspace stop n (n - 1) hn (by omega)]
    congr 1
    have h1 : ((n - 1 : ℕ) : ℚ) = (n : ℚ) - 1 := by
      rw [Nat.cast_sub (by omega)]; simp
    rw [h1]
    have h2 : (n : ℚ) - 1 ≠ 0 := by
      have : (2 : ℚ) ≤ n := by exact_mod_cast hn
      intro h; linarith
    field_simp

/-! ### custom attributes -/

/-- value of a custom attribute -/
def lookup (c : List (String × Val)) (k : String) : Option Val := (c.find? (fun p => p.1 == k)).map (·.2)

theorem lookup_setKw_same (c : List (String × Val)) (k : String) (v : Val) : lookup (setKw c (k, v)) k = some v := by
  simp [lookup, setKw]

theorem lookup_setKw_other (c : List (String × Val)) (k k' : String) (v : Val) (h : k' ≠ k) :
    lookup (setKw c (k, v)) k' = lookup c k' := by
  unfold lookup setKw
  have h1 : ((k, v).1 == k') = false := by simp; exact fun e => h e.symm
  simp only [List.find?_cons, h1]
  congr 1
  rw [List.find?_filter]
  congr 1
  funext a
  by_cases ha : a.1 = k'
  · have : a.1 ≠ k := by rw [ha]; exact h
    simp [ha, h]
  · simp [ha]

theorem lookup_foldl_setKw_other (kw : List (String × Val)) (c : List (String × Val)) (k : String)
    (h : ∀ kv ∈ kw, kv.1 ≠ k) : lookup (kw.foldl setKw c) k = lookup c k := by
  induction kw generalizing c with
  | nil => rfl
  | cons kv kw ih =>
    rw [List.foldl_cons, ih _ (fun x hx => h x (List.mem_cons_of_mem _ hx))]
    obtain ⟨k0, v0⟩ := kv
    exact lookup_setKw_other c k0 k v0 (fun e => h (k0, v0) (List.mem_cons_self) e.symm)

end OptiVerif.Gv
