/-
More generic lemmas about `Cx ℝ` (complement of `Lemmas/NumReal.lean`, which is not to be edited).
Written for C06/C10; everything lives in `OptiVerif.Cx` with an `x`-prefixed or descriptive name to avoid clashes.
-/
import OptiVerif.Lemmas.NumReal

set_option linter.unnecessarySeqFocus false

namespace OptiVerif.Cx

theorem ext_re_im {a b : Cx ℝ} (hr : a.re = b.re) (hi : a.im = b.im) : a = b := by
  cases a; cases b; simp_all

theorem xadd_mul (a b c : Cx ℝ) : (a + b) * c = a * c + b * c := by
  apply ext_re_im <;> simp <;> ring

theorem xmul_assoc (a b c : Cx ℝ) : a * b * c = a * (b * c) := by
  apply ext_re_im <;> simp <;> ring

theorem xmul_neg (a b : Cx ℝ) : a * (-b) = -(a * b) := by
  apply ext_re_im <;> simp <;> ring

theorem cis_add (α β : ℝ) : (cis α : Cx ℝ) * cis β = cis (α + β) := by
  apply ext_re_im <;> simp [cis, Real.cos_add, Real.sin_add] <;> ring

theorem cis_add_pi (α : ℝ) : (cis (α + Real.pi) : Cx ℝ) = -cis α := by
  apply ext_re_im <;> simp [cis, Real.cos_add_pi, Real.sin_add_pi]

theorem normSq_nonneg (a : Cx ℝ) : 0 ≤ a.normSq := by
  simp only [normSq]; nlinarith [mul_self_nonneg a.re, mul_self_nonneg a.im]

theorem normSq_neg (a : Cx ℝ) : (-a).normSq = a.normSq := by simp [normSq]

theorem normSq_smul (r : ℝ) (a : Cx ℝ) : (smul r a).normSq = r * r * a.normSq := by
  simp [normSq, smul]; ring

theorem normSq_ofReal (r : ℝ) : (ofReal r : Cx ℝ).normSq = r * r := by simp [normSq, ofReal]

theorem mul_ofReal (a : Cx ℝ) (r : ℝ) : a * ofReal r = smul r a := by
  apply ext_re_im <;> simp [ofReal, smul] <;> ring

theorem toC_ofReal (r : ℝ) : (ofReal r : Cx ℝ).toC = (r : ℂ) := by
  apply Complex.ext <;> simp [ofReal]

theorem toC_smul' (r : ℝ) (a : Cx ℝ) : (smul r a).toC = (r : ℂ) * a.toC := by
  apply Complex.ext <;> simp [smul]

theorem normSq_mul_cis (a : Cx ℝ) (θ : ℝ) : (a * cis θ).normSq = a.normSq := by
  rw [normSq_mul, normSq_cis, mul_one]

end OptiVerif.Cx
