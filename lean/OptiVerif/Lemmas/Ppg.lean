/-
Helper lemmas for C20 (PPG3204 command emission): channel normalisation, clamps, PRBS-order snapping,
nearest-grid rounding, and the predicates used by `Props/C20.lean`.
-/
import Mathlib.Tactic.Linarith
import Mathlib.Tactic.NormNum
import Mathlib.Algebra.Order.Ring.Rat
import OptiVerif.Model.Ppg

namespace OptiVerif.Ppg
open OptiVerif OptiVerif.Gen.PpgLimits

/-! ### predicates of the property statement (documented numbers written out literally) -/

/-- the command addresses one of the four channels -/
def ChOk (ch : Int) : Prop := 1 ≤ ch ∧ ch ≤ 4

/-- the decimal digit count `k` of the IEEE-488.2 header `#<k><n>`: one digit `1…9`, and `n` has exactly `k` digits -/
def HeaderOK (k n : Nat) : Prop := 1 ≤ k ∧ k ≤ 9 ∧ n < 10 ^ k ∧ (k = 1 ∨ 10 ^ (k - 1) ≤ n)

/-- "addresses a channel in 1..4 and carries a value inside the instrument's documented limits" -/
def InRange : Command → Prop
  | .set .pattLen ch v => ChOk ch ∧ 2 ≤ v ∧ v ≤ 2 ^ 21
  | .set .prbsOrder ch v => ChOk ch ∧ (v = 7 ∨ v = 9 ∨ v = 11 ∨ v = 15 ∨ v = 23 ∨ v = 31)
  | .set .bitsShift ch _ => ChOk ch
  | .set .skew ch v => ChOk ch ∧ -(25 / 10 ^ 12) ≤ v ∧ v ≤ 25 / 10 ^ 12
  | .set .volt ch v => ChOk ch ∧ 3 / 10 ≤ v ∧ v ≤ 2
  | .set .offsNeg ch v => ChOk ch ∧ -2 ≤ v ∧ v < 0
  | .set .offsPos ch v => ChOk ch ∧ 0 ≤ v ∧ v ≤ 3
  | .freq v => 15 * 10 ^ 8 ≤ v ∧ v ≤ 32 * 10 ^ 9
  | .mode ch _ => ChOk ch
  | .outp ch _ => ChOk ch
  | .get _ ch => ChOk ch
  | .data ch _ n k bits => ChOk ch ∧ n ≤ 1024 ∧ bits.length = n ∧ HeaderOK k n
  | .dataQ ch _ n => ChOk ch ∧ n ≤ 1024
  | .freqQ => True
  | .rst => True

/-- requests whose arguments have the documented Python types (the others raise `ValueError`/`TypeError`
    before any command is emitted) -/
def WellTyped : Request → Prop
  | .pattLen (.float _) _ => False
  | .prbsOrder (.float _) _ => False
  | .freq (.list _) => False
  | .mode .other _ => False
  | .setData (.rows rs) _ _ => ∃ n, ∀ r ∈ rs, r.length = n
  | _ => True

/-! ### the translated constants -/

theorem gen_channels : CHANNELS = 4 := rfl
theorem gen_chunk : MAX_CHUNK_LEN = 1024 := rfl
theorem gen_memory : MAX_MEMORY_LEN = 2 ^ 21 := rfl

/-! ### clip -/

theorem clipI_range {lo hi : Int} (h : lo ≤ hi) (v : Int) : lo ≤ clipI lo hi v ∧ clipI lo hi v ≤ hi := by
  unfold clipI
  simp only
  split_ifs <;> omega

theorem clipR_range {lo hi : Rat} (h : lo ≤ hi) (v : Rat) : lo ≤ clipR lo hi v ∧ clipR lo hi v ≤ hi := by
  unfold clipR
  simp only
  split_ifs with h1 h2 h2
  · exact ⟨h, le_refl _⟩
  · exact ⟨le_refl _, not_lt.mp h2⟩
  · exact ⟨h, le_refl _⟩
  · exact ⟨not_lt.mp h1, not_lt.mp h2⟩

theorem clipR_id {lo hi v : Rat} (h1 : lo ≤ v) (h2 : v ≤ hi) : clipR lo hi v = v := by
  unfold clipR
  simp only
  rw [if_neg (not_lt.mpr h1), if_neg (not_lt.mpr h2)]

/-- every value that leaves `clampAll (lo,hi) (lo,hi)` lies in `[lo, hi]` -/
theorem clampAll_mem {lo hi : Rat} (h : lo ≤ hi) (vs : List Rat) (v : Rat)
    (hv : v ∈ (clampAll (lo, hi) (lo, hi) vs).1) : lo ≤ v ∧ v ≤ hi := by
  unfold clampAll at hv
  split_ifs at hv with hc
  · simp only [List.mem_map] at hv
    obtain ⟨x, _, rfl⟩ := hv
    exact clipR_range h x
  · simp only [Bool.or_eq_true, List.any_eq_true, decide_eq_true_eq, not_or, not_exists, not_and] at hc
    exact ⟨not_lt.mp (hc.1 v hv), not_lt.mp (hc.2 v hv)⟩

/-- the warning flag is raised exactly when some requested value is outside `[lo, hi]` -/
theorem clampAll_warned (lo hi : Rat) (vs : List Rat) :
    (clampAll (lo, hi) (lo, hi) vs).2 = true ↔ ∃ v ∈ vs, v < lo ∨ hi < v := by
  unfold clampAll
  split_ifs with hc
  · simp only [Bool.or_eq_true, List.any_eq_true, decide_eq_true_eq] at hc
    simp only [true_iff]
    rcases hc with ⟨v, hv, h⟩ | ⟨v, hv, h⟩
    · exact ⟨v, hv, Or.inl h⟩
    · exact ⟨v, hv, Or.inr h⟩
  · simp only [Bool.or_eq_true, List.any_eq_true, decide_eq_true_eq, not_or, not_exists, not_and] at hc
    simp only [false_iff, not_exists, not_and, not_or]
    exact fun v hv => ⟨hc.1 v hv, hc.2 v hv⟩

/-- values already inside the limits are sent unchanged -/
theorem clampAll_id (lo hi : Rat) (vs : List Rat) (h : ∀ v ∈ vs, lo ≤ v ∧ v ≤ hi) :
    clampAll (lo, hi) (lo, hi) vs = (vs, false) := by
  unfold clampAll
  rw [if_neg]
  simp only [Bool.or_eq_true, List.any_eq_true, decide_eq_true_eq, not_or, not_exists, not_and]
  exact ⟨fun v hv => not_lt.mpr (h v hv).1, fun v hv => not_lt.mpr (h v hv).2⟩

/-! ### channels -/

/-- `_check_channels` with the translated literals written out -/
theorem checkChannels_some (cs : List Int) : checkChannels (some cs) =
    if (cs.any (· < 1) || cs.any ((4 : Int) < ·) || decide (4 < cs.length)) = true then
      ((cs.map (clipI 1 4)).take 4, true) else (cs, false) := rfl

theorem checkChannels_none : checkChannels none = ([1, 2, 3, 4], false) := rfl

theorem checkChannels_mem (chs : Chs) (c : Int) (hc : c ∈ (checkChannels chs).1) : ChOk c := by
  cases chs with
  | none =>
    rw [checkChannels_none] at hc
    simp only [List.mem_cons, List.not_mem_nil, or_false] at hc
    unfold ChOk
    omega
  | some cs =>
    rw [checkChannels_some] at hc
    by_cases h : (cs.any (· < 1) || cs.any ((4 : Int) < ·) || decide (4 < cs.length)) = true
    · rw [if_pos h] at hc
      have hm := List.mem_of_mem_take hc
      simp only [List.mem_map] at hm
      obtain ⟨x, _, rfl⟩ := hm
      exact clipI_range (lo := 1) (hi := 4) (by decide) x
    · rw [if_neg h] at hc
      simp only [Bool.or_eq_true, List.any_eq_true, decide_eq_true_eq, not_or, not_exists, not_and] at h
      have h1 := h.1.1 c hc
      have h2 := h.1.2 c hc
      unfold ChOk
      omega

/-- at most four commands per request and parameter -/
theorem checkChannels_length (chs : Chs) : (checkChannels chs).1.length ≤ 4 := by
  cases chs with
  | none => rw [checkChannels_none]; decide
  | some cs =>
    rw [checkChannels_some]
    by_cases h : (cs.any (· < 1) || cs.any ((4 : Int) < ·) || decide (4 < cs.length)) = true
    · rw [if_pos h]
      simp only [List.length_take, List.length_map]
      omega
    · rw [if_neg h]
      simp only [Bool.or_eq_true, decide_eq_true_eq, not_or] at h
      have := h.2
      simp only
      omega

/-- an admissible selection is used as given, without a warning -/
theorem checkChannels_id (cs : List Int) (h : ∀ c ∈ cs, ChOk c) (hl : cs.length ≤ 4) :
    checkChannels (some cs) = (cs, false) := by
  rw [checkChannels_some, if_neg]
  simp only [Bool.or_eq_true, List.any_eq_true, decide_eq_true_eq, not_or, not_exists, not_and]
  refine ⟨⟨fun c hc => ?_, fun c hc => ?_⟩, by omega⟩
  · have := (h c hc).1; omega
  · have := (h c hc).2; omega

/-! ### zipWith -/

theorem mem_zipWith {α β γ} (f : α → β → γ) : ∀ (as : List α) (bs : List β) (c : γ),
    c ∈ List.zipWith f as bs → ∃ a ∈ as, ∃ b ∈ bs, c = f a b
  | [], _, c, h => by simp at h
  | _ :: _, [], c, h => by simp at h
  | a :: as, b :: bs, c, h => by
    simp only [List.zipWith_cons_cons, List.mem_cons] at h
    rcases h with rfl | h
    · exact ⟨a, List.mem_cons_self, b, List.mem_cons_self, rfl⟩
    · obtain ⟨a', ha, b', hb, rfl⟩ := mem_zipWith f as bs c h
      exact ⟨a', List.mem_cons_of_mem _ ha, b', List.mem_cons_of_mem _ hb, rfl⟩

theorem perChannel_mem (k : Kind) (cs : List Int) (vs : List Rat) (c : Command) (h : c ∈ perChannel k cs vs) :
    ∃ ch ∈ cs, ∃ v ∈ vs, c = .set k ch v := mem_zipWith _ cs vs c h

/-! ### PRBS order -/

theorem nearestFrom_mem (a : Int) : ∀ (xs : List Int) (b : Int), nearestFrom a b xs = b ∨ nearestFrom a b xs ∈ xs
  | [], b => Or.inl rfl
  | x :: xs, b => by
    unfold nearestFrom
    rcases nearestFrom_mem a xs (if (x - a).natAbs < (b - a).natAbs then x else b) with h | h
    · rw [h]
      split_ifs
      · exact Or.inr List.mem_cons_self
      · exact Or.inl rfl
    · exact Or.inr (List.mem_cons_of_mem _ h)

/-- `nearest` returns an element at minimal distance -/
theorem nearestFrom_min (a : Int) : ∀ (xs : List Int) (b : Int),
    (nearestFrom a b xs - a).natAbs ≤ (b - a).natAbs ∧ ∀ x ∈ xs, (nearestFrom a b xs - a).natAbs ≤ (x - a).natAbs
  | [], b => ⟨le_refl _, fun _ h => by simp at h⟩
  | x :: xs, b => by
    unfold nearestFrom
    obtain ⟨h1, h2⟩ := nearestFrom_min a xs (if (x - a).natAbs < (b - a).natAbs then x else b)
    split_ifs at h1 h2 ⊢ with hlt
    · refine ⟨by omega, fun y hy => ?_⟩
      rcases List.mem_cons.mp hy with rfl | hy
      · exact h1
      · exact h2 y hy
    · refine ⟨h1, fun y hy => ?_⟩
      rcases List.mem_cons.mp hy with rfl | hy
      · omega
      · exact h2 y hy

theorem gen_orders : PRBS_ORDERS = [7, 9, 11, 15, 23, 31] := rfl

theorem orderFor_ok (ord : Rat) : ∃ o w, orderFor ord = .ok (o, w) ∧
    (o = 7 ∨ o = 9 ∨ o = 11 ∨ o = 15 ∨ o = 23 ∨ o = 31) := by
  unfold orderFor
  split_ifs with h
  · refine ⟨ord, false, rfl, ?_⟩
    simp only [gen_orders, List.any_cons, List.any_nil, Bool.or_false, Bool.or_eq_true, beq_iff_eq] at h
    push_cast at h
    rcases h with h | h | h | h | h | h <;> simp [← h]
  · simp only [gen_orders, nearest, Except.map]
    refine ⟨_, true, rfl, ?_⟩
    have := nearestFrom_mem (truncZ ord) [9, 11, 15, 23, 31] 7
    simp only [List.mem_cons, List.not_mem_nil, or_false] at this
    rcases this with h | h | h | h | h | h <;> simp [h]

theorem orderCmds_ok : ∀ (cs : List Int) (vs : List Rat), (∀ c ∈ cs, ChOk c) →
    ∃ cmds w, orderCmds cs vs = .ok (cmds, w) ∧ ∀ c ∈ cmds, InRange c
  | [], _, _ => ⟨[], false, by simp [orderCmds, pure, Except.pure], by simp⟩
  | _ :: _, [], _ => ⟨[], false, by simp [orderCmds, pure, Except.pure], by simp⟩
  | ch :: cs, v :: vs, h => by
    obtain ⟨o, w, ho, hr⟩ := orderFor_ok v
    obtain ⟨cmds, w', hc, hr'⟩ := orderCmds_ok cs vs (fun c hc => h c (List.mem_cons_of_mem _ hc))
    refine ⟨Command.set .prbsOrder ch o :: cmds, w || w', ?_, ?_⟩
    · simp [orderCmds, ho, hc, bind, Except.bind, pure, Except.pure]
    · intro c hc'
      rcases List.mem_cons.mp hc' with rfl | hc'
      · exact ⟨h ch List.mem_cons_self, hr⟩
      · exact hr' c hc'

/-! ### nearest-grid rounding stays inside limits that are grid points

`{v:.1f}` rounds to the nearest multiple of 1/10, `{v:.5e}` to the nearest 6-significant-digit decimal: both are
"a nearest point of a grid `G`".  If the two limits are themselves grid points, rounding a clamped value cannot
leave the limits. -/

theorem nearest_in_range {G : Rat → Prop} {lo hi x r : Rat} (hlo : G lo) (hhi : G hi)
    (hnear : ∀ g, G g → |r - x| ≤ |g - x|) (h1 : lo ≤ x) (h2 : x ≤ hi) : lo ≤ r ∧ r ≤ hi := by
  constructor
  · by_contra hc
    have hc : r < lo := not_le.mp hc
    have := hnear lo hlo
    rw [abs_of_nonpos (by linarith), abs_of_nonpos (by linarith)] at this
    linarith
  · by_contra hc
    have hc : hi < r := not_le.mp hc
    have := hnear hi hhi
    rw [abs_of_nonneg (by linarith), abs_of_nonneg (by linarith)] at this
    linarith

/-- the grid of `%.1f` -/
def Tenths (g : Rat) : Prop := ∃ k : Int, g = k / 10

/-- the grid of `%.5e`: at most six significant decimal digits -/
def Sig6 (g : Rat) : Prop := ∃ (m : Int) (e : Int), m.natAbs < 10 ^ 6 ∧ g = m * (10 : Rat) ^ e

end OptiVerif.Ppg
