/-
Helper lemmas for C20 (SYNC with noise): the correlation is additive in the record, a decision-margin criterion for the
argmax, the gap of the clean record, and a crude amplitude bound.  Everything over a linearly ordered commutative ring.
-/
import Mathlib.Algebra.Order.Ring.Abs
import OptiVerif.Lemmas.PpgSync

namespace OptiVerif.Sync
open OptiVerif

variable {R : Type} [CommRing R] [LinearOrder R] [IsStrictOrderedRing R]

/-- sample-wise sum of two records (`rx = clean + e`) -/
def addL (u v : List R) : List R := List.zipWith (· + ·) u v

/-- the correlation value at lag `i` (what `corr` lists for the valid lags) -/
def corrAt (x w : List R) (i : Nat) : R := dot ((x.take (2 * w.length - 1)).drop i) w

/-- Σ |wⱼ| -/
def sumAbs (w : List R) : R := total (w.map (fun x => |x|))

theorem corr_eq_map (x w : List R) :
    corr x w = (List.range ((x.take (2 * w.length - 1)).length - w.length + 1)).map (corrAt x w) := rfl

theorem addL_length (u v : List R) (h : u.length = v.length) : (addL u v).length = u.length := by
  simp [addL, h]

theorem dot_add_left : ∀ (u v w : List R), u.length = v.length → dot (addL u v) w = dot u w + dot v w
  | [], [], w, _ => by simp [addL]
  | [], _ :: _, _, h => by simp at h
  | _ :: _, [], _, h => by simp at h
  | a :: u, b :: v, [], _ => by simp [addL]
  | a :: u, b :: v, c :: w, h => by
    have ih := dot_add_left u v w (by simpa using h)
    simp only [addL, List.zipWith_cons_cons, dot_cons] at ih ⊢
    rw [ih]; ring

/-- lag by lag, the correlation of `clean + e` is the sum of the two correlations -/
theorem corrAt_add (c e w : List R) (h : c.length = e.length) (i : Nat) :
    corrAt (addL c e) w i = corrAt c w i + corrAt e w i := by
  unfold corrAt addL
  rw [List.take_zipWith, List.drop_zipWith]
  exact dot_add_left _ _ w (by simp [h])

theorem zipWith_map_same {α β} (f g : α → β) (op : β → β → β) : ∀ (r : List α),
    List.zipWith op (r.map f) (r.map g) = r.map (fun i => op (f i) (g i))
  | [] => rfl
  | x :: r => by simp [zipWith_map_same f g op r]

theorem corr_add (c e w : List R) (h : c.length = e.length) :
    corr (addL c e) w = addL (corr c w) (corr e w) := by
  have h1 : ((addL c e).take (2 * w.length - 1)).length = (c.take (2 * w.length - 1)).length := by
    simp only [List.length_take, addL_length c e h]
  have h2 : (e.take (2 * w.length - 1)).length = (c.take (2 * w.length - 1)).length := by
    simp only [List.length_take, h]
  rw [corr_eq_map, corr_eq_map c, corr_eq_map e, h1, h2]
  unfold addL
  rw [zipWith_map_same]
  apply List.map_congr_left
  intro i _
  exact corrAt_add c e w h i

/-! ### decision margin -/

/-- If at every competing lag `m ≠ d` the noise moves the correlation by less than the clean record's margin
    (`ce(m) − ce(d) < cc(d) − cc(m)`), the first maximum of the correlation of `clean + e` is at `d`. -/
theorem argmax_margin (c e w : List R) (h : c.length = e.length) (d : Nat) (hd : d < (corr c w).length)
    (hm : ∀ m, m < (corr c w).length → m ≠ d → corrAt e w m - corrAt e w d < corrAt c w d - corrAt c w m) :
    argmax (corr (addL c e) w) = some (d, corrAt c w d + corrAt e w d) := by
  have hlen : (corr c w).length = (c.take (2 * w.length - 1)).length - w.length + 1 := by
    rw [corr_eq_map]; simp
  have h1 : ((addL c e).take (2 * w.length - 1)).length = (c.take (2 * w.length - 1)).length := by
    simp only [List.length_take, addL_length c e h]
  have hcorr : corr (addL c e) w = (List.range (corr c w).length).map (fun i => corrAt c w i + corrAt e w i) := by
    rw [corr_eq_map, h1, hlen]
    apply List.map_congr_left
    intro i _
    exact corrAt_add c e w h i
  rw [hcorr]
  have hl : ((List.range (corr c w).length).map (fun i => corrAt c w i + corrAt e w i)).length = (corr c w).length := by
    simp
  have := argmax_unique _ d (by rw [hl]; exact hd) (by
    intro i hi hne
    rw [hl] at hi
    simp only [List.getElem_map, List.getElem_range]
    have := hm i hi hne
    linarith)
  rw [this]
  simp only [List.getElem_map, List.getElem_range]

/-! ### the clean record `s ++ s ++ tail`, `s = w.rotate (l - d)` -/

theorem corrAt_periodic (s w tail : List R) (hl : s.length = w.length) (i : Nat) (hi : i < w.length) :
    corrAt (s ++ s ++ tail) w i = dot (s.rotate i) w := by
  unfold corrAt
  rw [← dot_take, ← hl, window s tail i (by rw [hl]; exact hi)]

theorem corrAt_delayed (w tail : List R) (d i : Nat) (hd : d < w.length) (hi : i < w.length) :
    corrAt (w.rotate (w.length - d) ++ w.rotate (w.length - d) ++ tail) w i =
      dot (w.rotate ((w.length - d + i) % w.length)) w := by
  rw [corrAt_periodic _ w tail (List.length_rotate _ _) i hi, (rotate_back w d i hd hi).1]

theorem corrAt_delayed_peak (w tail : List R) (d : Nat) (hd : d < w.length) :
    corrAt (w.rotate (w.length - d) ++ w.rotate (w.length - d) ++ tail) w d = dot w w := by
  rw [corrAt_delayed w tail d d hd hd, ((rotate_back w d d hd hd).2.1).mpr rfl, List.rotate_zero]

theorem corr_delayed_length (w tail : List R) (d : Nat) (hd : d < w.length) :
    (corr (w.rotate (w.length - d) ++ w.rotate (w.length - d) ++ tail) w).length = w.length := by
  rw [corr_delayed w tail d hd]; simp

/-- the gap of the clean record at lag `m ≠ d` is `R(0) − R(k)`, `k = (l − d + m) mod l ≠ 0`, `R` the cyclic
    autocorrelation of the waveform; it is positive for an aperiodic waveform -/
theorem gap_pos (w : List R) (d m : Nat) (hd : d < w.length) (hm : m < w.length) (hne : m ≠ d)
    (hap : ∀ k, 0 < k → k < w.length → w.rotate k ≠ w) :
    0 < dot w w - dot (w.rotate ((w.length - d + m) % w.length)) w := by
  obtain ⟨_, hz, hlt⟩ := rotate_back w d m hd hm
  have hpos : 0 < (w.length - d + m) % w.length := by
    rcases Nat.eq_zero_or_pos ((w.length - d + m) % w.length) with h0 | hp
    · exact absurd (hz.mp h0) hne
    · exact hp
  have := dot_rotate_lt w _ (hap _ hpos hlt)
  linarith

/-- noisy delayed record: if the noise correlation differences stay below the autocorrelation gaps, the lag is `d` -/
theorem lagW_margin (w tail e : List R) (d : Nat) (hd : d < w.length)
    (he : e.length = (w.rotate (w.length - d) ++ w.rotate (w.length - d) ++ tail).length)
    (hm : ∀ m, m < w.length → m ≠ d →
      corrAt e w m - corrAt e w d < dot w w - dot (w.rotate ((w.length - d + m) % w.length)) w) :
    argmax (corr (addL (w.rotate (w.length - d) ++ w.rotate (w.length - d) ++ tail) e) w)
      = some (d, dot w w + corrAt e w d) := by
  have := argmax_margin (w.rotate (w.length - d) ++ w.rotate (w.length - d) ++ tail) e w he.symm d
    (by rw [corr_delayed_length w tail d hd]; exact hd)
    (by
      intro m hml hne
      rw [corr_delayed_length w tail d hd] at hml
      rw [corrAt_delayed_peak w tail d hd, corrAt_delayed w tail d m hd hml]
      exact hm m hml hne)
  rw [this, corrAt_delayed_peak w tail d hd]

/-! ### amplitude bound -/

theorem total_abs_nonneg : ∀ (w : List R), 0 ≤ sumAbs w
  | [] => by simp [sumAbs, total]
  | x :: w => by
    have := total_abs_nonneg w
    simp only [sumAbs, List.map_cons, total] at this ⊢
    have := abs_nonneg x
    linarith

theorem dot_abs_le (ε : R) (hε : 0 ≤ ε) : ∀ (u w : List R), (∀ x ∈ u, |x| ≤ ε) → |dot u w| ≤ ε * sumAbs w
  | [], w, _ => by
    simp only [dot_nil_left, abs_zero]
    exact mul_nonneg hε (total_abs_nonneg w)
  | _ :: _, [], _ => by
    simp only [dot_nil_right, abs_zero]
    exact mul_nonneg hε (total_abs_nonneg _)
  | a :: u, b :: w, h => by
    have ih := dot_abs_le ε hε u w (fun x hx => h x (List.mem_cons_of_mem _ hx))
    have ha := h a List.mem_cons_self
    simp only [dot_cons, sumAbs, List.map_cons, total] at ih ⊢
    calc |a * b + dot u w| ≤ |a * b| + |dot u w| := abs_add_le _ _
      _ = |a| * |b| + |dot u w| := by rw [abs_mul]
      _ ≤ ε * |b| + ε * total (w.map fun x => |x|) := by
          have := mul_le_mul_of_nonneg_right ha (abs_nonneg b)
          linarith
      _ = ε * (|b| + total (w.map fun x => |x|)) := by ring

theorem corrAt_abs_le (e w : List R) (ε : R) (hε : 0 ≤ ε) (he : ∀ x ∈ e, |x| ≤ ε) (i : Nat) :
    |corrAt e w i| ≤ ε * sumAbs w := by
  unfold corrAt
  exact dot_abs_le ε hε _ w (fun x hx => he x (List.mem_of_mem_take (List.mem_of_mem_drop hx)))

/-- for a 0/1 waveform Σ|wⱼ| = Σ wⱼ² = Σ wⱼ -/
theorem sumAbs_01 : ∀ (w : List R), (∀ x ∈ w, x = 0 ∨ x = 1) → sumAbs w = dot w w ∧ dot w w = total w
  | [], _ => by simp [sumAbs, total]
  | x :: w, h => by
    obtain ⟨i1, i2⟩ := sumAbs_01 w (fun y hy => h y (List.mem_cons_of_mem _ hy))
    simp only [sumAbs, List.map_cons, total, dot_cons] at i1 ⊢
    rcases h x List.mem_cons_self with rfl | rfl
    · simp [i1, i2]
    · simp [i1, i2]

theorem total_replicate (n : Nat) (b : R) : total (List.replicate n b) = (n : R) * b := by
  induction n with
  | zero => simp [total]
  | succ n ih => rw [List.replicate_succ, total, ih]; push_cast; ring

theorem total_append : ∀ (u v : List R), total (u ++ v) = total u + total v
  | [], v => by simp [total]
  | a :: u, v => by simp only [List.cons_append, total, total_append u v]; ring

/-- `Σ kron(tx, sps) = sps · Σ tx`: for a 0/1 pattern the peak of the clean correlation is `sps · (number of ones)` -/
theorem total_kron (tx : List R) (sps : Nat) : total (kron tx sps) = (sps : R) * total tx := by
  induction tx with
  | nil => simp [kron, total]
  | cons b tx ih =>
    have : kron (b :: tx) sps = List.replicate sps b ++ kron tx sps := by simp [kron]
    rw [this, total_append, total_replicate, ih, total]; ring

theorem kron_01 (tx : List R) (sps : Nat) (h : ∀ b ∈ tx, b = 0 ∨ b = 1) : ∀ x ∈ kron tx sps, x = 0 ∨ x = 1 := by
  intro x hx
  unfold kron at hx
  simp only [List.mem_flatMap, List.mem_replicate] at hx
  obtain ⟨b, hb, _, hxb⟩ := hx
  rw [hxb]
  exact h b hb

end OptiVerif.Sync
