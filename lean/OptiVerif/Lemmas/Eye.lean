/-
Lemmas about the eye-estimator model at ℝ (C17): behaviour under a positive affine change of units y ↦ αy + β,
the time grid, the sampling index.
-/
import OptiVerif.Model.Eye
import OptiVerif.Lemmas.NumList

namespace OptiVerif.Eye
open OptiVerif OptiVerif.NumList

/-- change of units -/
def aff (α β x : ℝ) : ℝ := α * x + β
def affPair (α β : ℝ) (p : ℝ × ℝ) : ℝ × ℝ := (aff α β p.1, aff α β p.2)

theorem lt_aff {α : ℝ} (hα : 0 < α) (β a b : ℝ) : Cmp.lt (aff α β a) (aff α β b) = Cmp.lt a b := by
  rw [Bool.eq_iff_iff, Cmp.lt_real, Cmp.lt_real]
  simp only [aff]
  constructor <;> intro h <;> nlinarith

/-! ### levels -/

theorem level_aff (α β : ℝ) (iv : ℝ × ℝ) : level (affPair α β iv) = aff α β (level iv) := by
  simp only [level, affPair, aff, two_real]; ring

theorem levels_aff (α β : ℝ) (top bot : ℝ × ℝ) :
    levels (affPair α β top) (affPair α β bot) =
      ⟨aff α β (levels top bot).state0, aff α β (levels top bot).state1, α * (levels top bot).d01,
       aff α β (levels top bot).v25, aff α β (levels top bot).v75, aff α β (levels top bot).yCenter⟩ := by
  simp only [levels, level_aff, Levels.mk.injEq]
  simp only [aff, quarter, one_real, two_real]
  refine ⟨trivial, trivial, ?_, ?_, ?_, ?_⟩ <;> ring

/-! ### selections -/

theorem filter_zip_snd (f : ℝ → ℝ) (P P' Q : ℝ → Bool) (hP : ∀ y, P' (f y) = P y) (t y : List ℝ) :
    ((List.zip t (y.map f)).filter (fun p => P' p.2 && Q p.1)).map Prod.snd
      = (((List.zip t y).filter (fun p => P p.2 && Q p.1)).map Prod.snd).map f := by
  induction t generalizing y with
  | nil => simp
  | cons a t ih =>
    cases y with
    | nil => simp
    | cons b y =>
      simp only [List.map_cons, List.zip_cons_cons, List.filter_cons, hP]
      split <;> simp [ih]

theorem filter_zip_pts (f g g' : ℝ → ℝ) (B B' : ℝ → Bool) (hB : ∀ y, B' (f y) = B y) (hg : ∀ y, g' (f y) = g y)
    (t y : List ℝ) :
    ((List.zip t (y.map f)).filter (fun p => B' p.2)).map (fun p => (p.1, g' p.2))
      = ((List.zip t y).filter (fun p => B p.2)).map (fun p => (p.1, g p.2)) := by
  induction t generalizing y with
  | nil => simp
  | cons a t ih =>
    cases y with
    | nil => simp
    | cons b y =>
      simp only [List.map_cons, List.zip_cons_cons, List.filter_cons, hB]
      split <;> simp [ih, hg]

/-- the rows handed to the second KMeans do not depend on the units of y -/
theorem tyPoints_aff {α : ℝ} (hα : 0 < α) (β : ℝ) (top bot : ℝ × ℝ) (t y : List ℝ) :
    tyPoints (levels (affPair α β top) (affPair α β bot)) t (y.map (aff α β)) = tyPoints (levels top bot) t y := by
  rw [levels_aff]
  simp only [tyPoints]
  refine filter_zip_pts (aff α β) (fun v => (v - (levels top bot).state0) / (levels top bot).d01)
    (fun v => (v - aff α β (levels top bot).state0) / (α * (levels top bot).d01))
    (between (levels top bot).v25 (levels top bot).v75)
    (between (aff α β (levels top bot).v25) (aff α β (levels top bot).v75)) ?_ ?_ t y
  · intro v
    simp only [between, lt_aff hα]
  · intro v
    simp only [aff]
    rw [show α * v + β - (α * (levels top bot).state0 + β) = α * (v - (levels top bot).state0) by ring]
    exact mul_div_mul_left _ _ hα.ne'

theorem topSamples_aff {α : ℝ} (hα : 0 < α) (β : ℝ) (top bot : ℝ × ℝ) (tm : Timing ℝ) (t y : List ℝ) :
    topSamples (levels (affPair α β top) (affPair α β bot)) tm t (y.map (aff α β))
      = (topSamples (levels top bot) tm t y).map (aff α β) := by
  rw [levels_aff]
  simp only [topSamples]
  exact filter_zip_snd (aff α β) (fun v => Cmp.lt (levels top bot).yCenter v)
    (fun v => Cmp.lt (aff α β (levels top bot).yCenter) v) (inWindow tm) (fun v => lt_aff hα β _ _) t y

theorem botSamples_aff {α : ℝ} (hα : 0 < α) (β : ℝ) (top bot : ℝ × ℝ) (tm : Timing ℝ) (t y : List ℝ) :
    botSamples (levels (affPair α β top) (affPair α β bot)) tm t (y.map (aff α β))
      = (botSamples (levels top bot) tm t y).map (aff α β) := by
  rw [levels_aff]
  simp only [botSamples]
  exact filter_zip_snd (aff α β) (fun v => Cmp.lt v (levels top bot).yCenter)
    (fun v => Cmp.lt v (aff α β (levels top bot).yCenter)) (inWindow tm) (fun v => lt_aff hα β _ _) t y

theorem mem_topSamples (lv : Levels ℝ) (tm : Timing ℝ) (t y : List ℝ) (v : ℝ) (h : v ∈ topSamples lv tm t y) :
    lv.yCenter < v := by
  simp only [topSamples, List.mem_map, List.mem_filter, Bool.and_eq_true, Cmp.lt_real] at h
  obtain ⟨p, ⟨_, hp, _⟩, rfl⟩ := h
  exact hp

theorem mem_botSamples (lv : Levels ℝ) (tm : Timing ℝ) (t y : List ℝ) (v : ℝ) (h : v ∈ botSamples lv tm t y) :
    v < lv.yCenter := by
  simp only [botSamples, List.mem_map, List.mem_filter, Bool.and_eq_true, Cmp.lt_real] at h
  obtain ⟨p, ⟨_, hp, _⟩, rfl⟩ := h
  exact hp

/-! ### threshold -/

theorem threshold_aff (α β m0 m1 : ℝ) (p p' : List ℝ) (hne : p ≠ []) (hlen : p'.length = p.length)
    (harg : argmin p' = argmin p) :
    threshold (aff α β m0) (aff α β m1) p' = aff α β (threshold m0 m1 p) := by
  obtain ⟨hi, -, -⟩ := argmin_spec p hne
  simp only [threshold, aff, linspace_affine, hlen, harg]
  rw [List.getD_eq_getElem _ _ (by simpa [length_linspace] using hi),
    List.getD_eq_getElem _ _ (by simpa [length_linspace] using hi), List.getElem_map]

theorem threshold_between (m0 m1 : ℝ) (h : m0 ≤ m1) (p : List ℝ) (hne : p ≠ []) :
    m0 ≤ threshold m0 m1 p ∧ threshold m0 m1 p ≤ m1 := by
  obtain ⟨hi, -, -⟩ := argmin_spec p hne
  simp only [threshold]
  rw [List.getD_eq_getElem _ _ (by simpa [length_linspace] using hi)]
  exact linspace_mem_between m0 m1 h _ _ (List.getElem_mem _)

/-! ### snapping -/

theorem findNearest_mem (g : List ℝ) (hne : g ≠ []) (x : ℝ) : findNearest g x ∈ g := by
  obtain ⟨hi, -, -⟩ := argmin_spec (g.map (fun l => absR (l - x))) (by simpa using hne)
  simp only [findNearest]
  rw [List.getD_eq_getElem _ _ (by simpa using hi)]
  exact List.getElem_mem _

/-- the snapped value is a nearest grid point -/
theorem findNearest_nearest (g : List ℝ) (hne : g ≠ []) (x : ℝ) : ∀ l ∈ g, |findNearest g x - x| ≤ |l - x| := by
  have hf : (fun l : ℝ => absR (l - x)) = (fun l => |l - x|) := by funext l; exact absR_real _
  obtain ⟨hi, hmin, -⟩ := argmin_spec (g.map (fun l => |l - x|)) (by simpa using hne)
  intro l hl
  obtain ⟨j, hj, rfl⟩ := List.getElem_of_mem hl
  have := hmin j (by simpa using hj)
  simp only [List.getElem_map] at this
  simp only [findNearest, hf]
  rw [List.getD_eq_getElem _ _ (by simpa using hi)]
  exact this

/-! ### the time grid -/

theorem linspace_getD (a b : ℝ) (m j : ℕ) (hj : j < m + 2) :
    (linspace a b (m + 2)).getD j 0 = a + j * ((b - a) / ((m + 1 : ℕ) : ℝ)) := by
  have hm : ((m + 1 : ℕ) : ℝ) ≠ 0 := by positivity
  rw [List.getD_eq_getElem _ _ (by simpa [length_linspace] using hj)]
  simp only [linspace]
  by_cases h : j < m + 1
  · rw [List.getElem_append_left (by simpa using h)]
    simp; ring
  · have hj' : j = m + 1 := by omega
    subst hj'
    rw [List.getElem_append_right (by simp)]
    simp only [List.length_map, List.length_range, Nat.sub_self, List.getElem_cons_zero]
    field_simp
    ring

theorem length_grid (s : ℕ) : (grid s : List ℝ).length = 2 * s := by simp [grid, length_linspace]

/-- grid point j is −1 + j/s -/
theorem grid_getD (s : ℕ) (hs : 1 ≤ s) (j : ℕ) (hj : j < 2 * s) : (grid s : List ℝ).getD j 0 = -1 + (j : ℝ) / s := by
  obtain ⟨m, hm⟩ : ∃ m, 2 * s = m + 2 := ⟨2 * s - 2, by omega⟩
  have hs' : (s : ℝ) ≠ 0 := by positivity
  have hm' : ((m + 1 : ℕ) : ℝ) = 2 * (s : ℝ) - 1 := by
    have : ((m + 2 : ℕ) : ℝ) = 2 * (s : ℝ) := by rw [← hm]; push_cast; ring
    push_cast at this ⊢; linarith
  have h1 : (2 * (s : ℝ) - 1) ≠ 0 := by
    have : (1 : ℝ) ≤ (s : ℝ) := by exact_mod_cast hs
    intro h; linarith
  rw [grid, hm, linspace_getD _ _ _ _ (by omega), hm']
  simp only [one_real]
  have : ((1 - 1 / (s : ℝ)) - (-1)) / (2 * (s : ℝ) - 1) = 1 / (s : ℝ) := by
    rw [div_eq_iff h1]; field_simp; ring
  rw [this]
  ring

theorem grid_getElem (s : ℕ) (hs : 1 ≤ s) (j : ℕ) (hj : j < (grid s : List ℝ).length) :
    (grid s : List ℝ)[j] = -1 + (j : ℝ) / s := by
  rw [← grid_getD s hs j (by simpa [length_grid] using hj), List.getD_eq_getElem _ _ hj]

/-- looking up the k-th grid point in the whole tiled axis gives k (the first period is searched first) -/
theorem argNearest_grid (nslots s : ℕ) (hs : 1 ≤ s) (hn : 2 ≤ nslots) (k : ℕ) (hk : k < 2 * s) :
    argNearest (tAxis nslots s) ((grid s : List ℝ).getD k 0) = k := by
  obtain ⟨m, hm⟩ : ∃ m, nslots / 2 = m + 1 := ⟨nslots / 2 - 1, by omega⟩
  have hs' : (0 : ℝ) < (s : ℝ) := by exact_mod_cast hs
  have hlen : (tAxis nslots s : List ℝ).length = (m + 1) * (2 * s) := by
    simp [tAxis, hm, length_tile, length_grid]
  have hkl : k < (tAxis nslots s : List ℝ).length := by rw [hlen]; nlinarith
  have hfirst : ∀ j (hj : j < 2 * s) (hj' : j < (tAxis nslots s : List ℝ).length),
      (tAxis nslots s : List ℝ)[j] = -1 + (j : ℝ) / s := by
    intro j hj hj'
    have : (tAxis nslots s : List ℝ)[j] = (grid s : List ℝ)[j]'(by simpa [length_grid] using hj) := by
      simp only [tAxis, hm]
      exact tile_succ_getElem m _ j (by simpa [length_grid] using hj) _
    rw [this, grid_getElem s hs]
  rw [grid_getD s hs k hk]
  apply argmin_eq
  · intro j hj
    simp only [List.getElem_map, absR_real]
    rw [hfirst k hk hkl]
    simp
  · intro j hj hjk
    simp only [List.getElem_map, absR_real]
    rw [hfirst k hk hkl, hfirst j (by omega) (by simpa using hj)]
    simp only [sub_self, abs_zero, abs_pos, ne_eq]
    intro h
    have : (j : ℝ) / s = (k : ℝ) / s := by linarith
    rw [div_left_inj' hs'.ne'] at this
    have : j = k := by exact_mod_cast this
    omega
  · simpa using hkl


/-- every point of the grid's span is within half a grid step of a grid point -/
theorem grid_cover (s : ℕ) (hs : 1 ≤ s) (x : ℝ) (h0 : -1 ≤ x) (h1 : x ≤ 1 - 1 / (s : ℝ)) :
    ∃ l ∈ (grid s : List ℝ), |l - x| ≤ 1 / (2 * (s : ℝ)) := by
  have hs' : (0 : ℝ) < (s : ℝ) := by exact_mod_cast hs
  set a : ℝ := (x + 1) * s + 1 / 2 with ha
  have ha0 : 0 ≤ a := by have : 0 ≤ (x + 1) * s := mul_nonneg (by linarith) hs'.le; linarith
  have hfl := Nat.floor_le ha0
  have hlt := Nat.lt_floor_add_one a
  have hup : a ≤ 2 * (s : ℝ) - 1 / 2 := by
    have : (x + 1) * s ≤ (2 - 1 / (s : ℝ)) * s := mul_le_mul_of_nonneg_right (by linarith) hs'.le
    have e : (2 - 1 / (s : ℝ)) * s = 2 * s - 1 := by field_simp
    linarith
  have hj : ⌊a⌋₊ < 2 * s := by
    have : ((⌊a⌋₊ : ℕ) : ℝ) < ((2 * s : ℕ) : ℝ) := by push_cast; linarith
    exact_mod_cast this
  refine ⟨(grid s : List ℝ).getD ⌊a⌋₊ 0, ?_, ?_⟩
  · rw [List.getD_eq_getElem _ _ (by simpa [length_grid] using hj)]
    exact List.getElem_mem _
  · rw [grid_getD s hs _ hj]
    have e : -1 + ((⌊a⌋₊ : ℕ) : ℝ) / s - x = (((⌊a⌋₊ : ℕ) : ℝ) - (x + 1) * s) / s := by field_simp; ring
    rw [e, abs_div, abs_of_pos hs', div_le_iff₀ hs']
    have : 1 / (2 * (s : ℝ)) * s = 1 / 2 := by field_simp
    rw [this, abs_le]
    constructor <;> linarith

theorem findNearest_close (s : ℕ) (hs : 1 ≤ s) (x : ℝ) (h0 : -1 ≤ x) (h1 : x ≤ 1 - 1 / (s : ℝ)) :
    |findNearest (grid s) x - x| ≤ 1 / (2 * (s : ℝ)) := by
  obtain ⟨l, hl, hd⟩ := grid_cover s hs x h0 h1
  have hne : (grid s : List ℝ) ≠ [] := List.ne_nil_of_mem hl
  exact (findNearest_nearest _ hne x l hl).trans hd

/-! ### the sampling index -/

theorem sampIndex_range_some (sps r k : ℕ) (hr : 0 < r) (h1 : r / 2 ≤ k + 1) (h2 : k + 1 < r + r / 2) :
    0 ≤ sampIndex sps (some r) k ∧ (0 < sps → sampIndex sps (some r) k < sps) := by
  simp only [sampIndex]
  obtain ⟨q, hq⟩ : ∃ q : ℕ, (k : ℤ) - ((r / 2 : ℕ) : ℤ) + 1 = q ∧ q < r := by
    refine ⟨k + 1 - r / 2, ?_, by omega⟩
    omega
  rw [hq.1]
  have e : Int.tdiv ((q : ℤ) * (sps : ℤ)) (r : ℤ) = ((q * sps / r : ℕ) : ℤ) := by
    rw [Int.tdiv_eq_ediv_of_nonneg (by positivity)]
    norm_cast
  rw [e]
  refine ⟨by positivity, fun hsps => ?_⟩
  have : q * sps / r < sps := by
    rw [Nat.div_lt_iff_lt_mul hr]
    exact Nat.mul_lt_mul_of_lt_of_le hq.2 le_rfl hsps |> fun h => by nlinarith
  exact_mod_cast this

theorem sampIndex_range_none (sps k : ℕ) (h1 : sps / 2 ≤ k + 1) (h2 : k + 1 < sps + sps / 2) :
    0 ≤ sampIndex sps none k ∧ sampIndex sps none k < sps := by
  simp only [sampIndex]
  omega

end OptiVerif.Eye
