/-
C06 × C02: the spectrum of the model's CW laser (no phase noise, no RIN) with an on-grid frequency offset,
through the generic Fourier model (`Model/Fourier.lean`, `Lemmas/Fourier.lean`: `zeta`, `ortho`, `toC_dftAt`).
-/
import OptiVerif.Lemmas.Modulators
import OptiVerif.Lemmas.Fourier

set_option linter.unusedVariables false

namespace OptiVerif.Modulators
open OptiVerif
open OptiVerif.Gen.OptDev (lit)

/-- the uniform time grid `t_j = j/fs`, `j < n` (`np.arange(n)*gv.dt`) -/
noncomputable def timeGrid (n : ℕ) (fs : ℝ) : List ℝ := (List.range n).map fun (j : ℕ) => (j : ℝ) / fs

/-- a CW laser (no linewidth, no RIN) with an offset inside Nyquist: the field is `amp·cis(arg(df, t_j))` -/
theorem laser_cw_eq (p fs f : ℝ) (t : List ℝ) (hf : |f| ≤ fs / 2) :
    laser p none none (some f) fs t =
      .ok (t.map fun tk => (Cx.ofReal (Gen.OptDev.laserAmp p) : Cx ℝ) * Cx.cis (Gen.OptDev.laserOffsetArg f tk)) := by
  have h2 : (Gen.OptDev.laserNyquist fs : ℝ) = fs / 2 := by
    simp only [Gen.OptDev.laserNyquist, lit_real]; push_cast; rfl
  have hno : ¬ (fs / 2 < f ∨ fs / 2 < -f) := by
    rintro (h | h)
    · exact absurd (le_abs_self f) (by linarith)
    · exact absurd (neg_abs_le f) (by linarith)
  simp only [laser, laserStage1, laserStage2, laserStage3, h2, hno, if_false, laserOffset]
  congr 1
  induction t with
  | nil => rfl
  | cons a t ih => simp only [List.map_cons, List.zipWith_cons_cons, ih]

theorem nth_map_range (n : ℕ) (g : ℕ → Cx ℝ) (j : ℕ) (hj : j < n) :
    Fourier.nth ((List.range n).map g) j = g j := by
  simp [Fourier.nth, List.getD, hj]

/-- the sample `cis(2π·(k0·fs/n)·(j/fs))` is the `(k0 mod n)·j`-th power of the primitive n-th root of unity -/
theorem toC_cis_offset (n : ℕ) (hn : n ≠ 0) (fs : ℝ) (hfs : fs ≠ 0) (k0 : ℤ) (j : ℕ) :
    (Cx.cis (Gen.OptDev.laserOffsetArg ((k0 : ℝ) * fs / n) ((j : ℝ) / fs)) : Cx ℝ).toC
      = Fourier.zeta n ^ ((k0 % (n : ℤ)).toNat * j) := by
  have hnz : (n : ℂ) ≠ 0 := by exact_mod_cast hn
  have hnr : (n : ℝ) ≠ 0 := by exact_mod_cast hn
  have hm0 : 0 ≤ k0 % (n : ℤ) := Int.emod_nonneg _ (by exact_mod_cast hn)
  obtain ⟨m, hm⟩ : ∃ m : ℕ, k0 % (n : ℤ) = m := ⟨(k0 % (n : ℤ)).toNat, (Int.toNat_of_nonneg hm0).symm⟩
  have hk : k0 = m + (n : ℤ) * (k0 / (n : ℤ)) := by rw [← hm]; exact (Int.emod_add_mul_ediv k0 n).symm
  set q : ℤ := k0 / (n : ℤ)
  rw [hm, Int.toNat_natCast]
  have harg : (Gen.OptDev.laserOffsetArg ((k0 : ℝ) * fs / n) ((j : ℝ) / fs) : ℝ) = 2 * Real.pi * k0 * j / n := by
    simp only [Gen.OptDev.laserOffsetArg, lit_real, Transc.pi_real]
    push_cast
    field_simp
  rw [Cx.toC_cis, harg, Fourier.zeta, ← Complex.exp_nat_mul]
  have hk' : (k0 : ℂ) = (m : ℂ) + (n : ℂ) * (q : ℂ) := by exact_mod_cast congrArg (fun z : ℤ => (z : ℂ)) hk
  have e : ((2 * Real.pi * k0 * j / n : ℝ) : ℂ) * Complex.I
      = ((m * j : ℕ) : ℂ) * (2 * Real.pi * Complex.I / n) + ((q * j : ℤ) : ℂ) * (2 * Real.pi * Complex.I) := by
    push_cast
    rw [hk']
    field_simp
  rw [e, Complex.exp_add, Complex.exp_int_mul_two_pi_mul_I, mul_one]

/-- DFT of the on-grid CW laser: all the energy in bin `k0 mod n` -/
theorem laser_cw_dft (p fs : ℝ) (hfs : 0 < fs) (n : ℕ) (k0 : ℤ) (k : ℕ) (hk : k < n) :
    (Fourier.dftAt (Fourier.nth ((timeGrid n fs).map fun tk =>
        (Cx.ofReal (Gen.OptDev.laserAmp p) : Cx ℝ) * Cx.cis (Gen.OptDev.laserOffsetArg ((k0 : ℝ) * fs / n) tk))) n k).toC
      = if (k : ℤ) = k0 % (n : ℤ) then ((Gen.OptDev.laserAmp p : ℝ) : ℂ) * n else 0 := by
  have hn : n ≠ 0 := by omega
  have hm0 : 0 ≤ k0 % (n : ℤ) := Int.emod_nonneg _ (by exact_mod_cast hn)
  have hmn : (k0 % (n : ℤ)).toNat < n := by
    have := Int.emod_lt_of_pos k0 (by exact_mod_cast Nat.pos_of_ne_zero hn : (0 : ℤ) < n)
    omega
  rw [Fourier.toC_dftAt]
  have hterm : ∀ j ∈ Finset.range n,
      (Fourier.nth ((timeGrid n fs).map fun tk =>
        (Cx.ofReal (Gen.OptDev.laserAmp p) : Cx ℝ) * Cx.cis (Gen.OptDev.laserOffsetArg ((k0 : ℝ) * fs / n) tk)) j).toC
        * (Fourier.zeta n ^ (j * k))⁻¹
      = ((Gen.OptDev.laserAmp p : ℝ) : ℂ) *
          (Fourier.zeta n ^ ((k0 % (n : ℤ)).toNat * j) * (Fourier.zeta n ^ (k * j))⁻¹) := by
    intro j hj
    have hj' : j < n := Finset.mem_range.mp hj
    simp only [timeGrid, List.map_map]
    rw [nth_map_range n _ j hj']
    simp only [Function.comp]
    rw [Cx.toC_mul, Cx.toC_ofReal, toC_cis_offset n hn fs hfs.ne' k0 j, mul_comm j k]
    ring
  rw [Finset.sum_congr rfl hterm, ← Finset.mul_sum, Fourier.ortho n hn _ k hmn hk]
  have hiff : ((k0 % (n : ℤ)).toNat = k) ↔ ((k : ℤ) = k0 % (n : ℤ)) := by
    constructor
    · intro h; rw [← h]; exact Int.toNat_of_nonneg hm0
    · intro h; rw [← h]; simp
  by_cases hc : (k : ℤ) = k0 % (n : ℤ)
  · simp [hc, hiff.mpr hc]
  · have : ¬ (k0 % (n : ℤ)).toNat = k := fun h => hc (hiff.mp h)
    simp [hc, this]

end OptiVerif.Modulators
