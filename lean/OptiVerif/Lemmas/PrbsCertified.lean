/-
Kernel-evaluated certificates (C04): GF(2) matrix certificates of maximal period for the seven documented
(n, t) pairs, and primality of all prime factors of the seven Mersenne numbers 2^n - 1.
`decide +kernel` = evaluation by the Lean kernel; no axioms beyond `propext`.
-/
import OptiVerif.Model.PrbsCert

namespace OptiVerif.PrbsCert

theorem cert7  : certOK 7 6 [127] = true := by decide +kernel
theorem cert9  : certOK 9 5 [7,73] = true := by decide +kernel
theorem cert11 : certOK 11 9 [23,89] = true := by decide +kernel
theorem cert15 : certOK 15 14 [7,31,151] = true := by decide +kernel
theorem cert20 : certOK 20 3 [3,5,11,31,41] = true := by decide +kernel
theorem cert23 : certOK 23 18 [47,178481] = true := by decide +kernel
theorem cert31 : certOK 31 28 [2147483647] = true := by decide +kernel

set_option maxRecDepth 200000 in
theorem factors_prime :
    ([127,7,73,23,89,31,151,3,5,11,41,47,178481,2147483647].all isPrimeB) = true := by
  decide +kernel


end OptiVerif.PrbsCert
