/-
Lemmas tying the generated/translated PRBS model (`Model/Prbs.lean`, `Gen/Prbs.lean`) to the
documented step (`PrbsCert.step`) and unrolling the loop (C04).
-/
import OptiVerif.Model.Prbs
import OptiVerif.Lemmas.PrbsPeriod

namespace OptiVerif.Prbs
open OptiVerif Function

/-- the code's loop body (translated) is the documented shift/feedback step, for taps `[n, t]` -/
theorem step_eq (n t s : Nat) : step n n t s = PrbsCert.step n t s := by
  simp [step, stepTaps, Gen.Prbs.next, Gen.Prbs.newBit, Gen.Prbs.tapOffset, PrbsCert.step, Nat.one_shiftLeft]

theorem step_eq_fun (n t : Nat) : step n n t = PrbsCert.step n t := funext (step_eq n t)

theorem outBit_eq (s : Nat) : Gen.Prbs.outBit s = s % 2 := by
  simp [Gen.Prbs.outBit, Nat.and_one_is_mod]

theorem run_snd (o a b : Nat) (L s : Nat) : (run o a b L s).2 = (step o a b)^[L] s := by
  induction L generalizing s with
  | zero => rfl
  | succ k ih => simp only [run, Function.iterate_succ_apply]; exact ih _

theorem run_fst (o a b : Nat) (L s : Nat) :
    (run o a b L s).1 = (List.range L).map (fun i => Gen.Prbs.outBit ((step o a b)^[i] s)) := by
  induction L generalizing s with
  | zero => rfl
  | succ k ih =>
    simp only [run, List.range_succ_eq_map, List.map_cons, List.map_map]
    rw [ih]
    simp [Function.comp_def, Function.iterate_succ_apply]

theorem run_length (o a b L s : Nat) : (run o a b L s).1.length = L := by
  rw [run_fst]; simp

/-- resumption at the level of the loop: any split -/
theorem run_add (o a b : Nat) (k1 k2 s : Nat) :
    run o a b (k1 + k2) s =
      ((run o a b k1 s).1 ++ (run o a b k2 (run o a b k1 s).2).1, (run o a b k2 (run o a b k1 s).2).2) := by
  induction k1 generalizing s with
  | zero => simp [run]
  | succ k ih =>
    have : k + 1 + k2 = (k + k2) + 1 := by omega
    rw [this]
    simp only [run]
    rw [ih]
    simp

end OptiVerif.Prbs
