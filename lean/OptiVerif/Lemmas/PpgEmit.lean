/-
Helper lemmas for C20: every command emitted by every setter / getter of the PPG3204 model is in range.
-/
import Mathlib.Data.List.Perm.Subperm
import OptiVerif.Lemmas.PpgData

namespace OptiVerif.Ppg
open OptiVerif OptiVerif.Gen.PpgLimits

/-! ### the translated limits are the documented numbers -/

theorem lim_pattLen : pattLenTest = (2, 2 ^ 21) ∧ pattLenClip = (2, 2 ^ 21) := by
  constructor <;> (simp only [pattLenTest, pattLenClip, PATT_LEN_MIN, PATT_LEN_MAX]; norm_num)

theorem lim_skew : skewTest = (-(25 / 10 ^ 12), 25 / 10 ^ 12) ∧ skewClip = (-(25 / 10 ^ 12), 25 / 10 ^ 12) := by
  constructor <;> (simp only [skewTest, skewClip, MIN_SKEW, MAX_SKEW]; norm_num)

theorem lim_volt : voltTest = (3 / 10, 2) ∧ voltClip = (3 / 10, 2) := by
  constructor <;> (simp only [voltTest, voltClip, AMPLITUDE_MIN, AMPLITUDE_MAX])

theorem lim_offs : offsTest = (-2, 3) ∧ offsClip = (-2, 3) := by
  constructor <;> (simp only [offsTest, offsClip, OFFSET_MIN, OFFSET_MAX])

theorem lim_freq : freqTest = (15 * 10 ^ 8, 32 * 10 ^ 9) ∧ freqClip = (15 * 10 ^ 8, 32 * 10 ^ 9) := by
  constructor <;> (simp only [freqTest, freqClip, FREQ_MIN, FREQ_MAX]; norm_num)

/-! ### per setter -/

theorem setPattLen_in_range (v : Val) (chs : Chs) (o : Out) (h : setPattLen v chs = .ok o) :
    ∀ c ∈ o.cmds, InRange c := by
  intro c hc
  have key : ∀ vs : List Rat, c ∈ perChannel .pattLen (checkChannels chs).1
      (clampAll pattLenTest pattLenClip vs).1 → InRange c := by
    intro vs hm
    obtain ⟨ch, hch, x, hx, rfl⟩ := perChannel_mem _ _ _ _ hm
    rw [lim_pattLen.1, lim_pattLen.2] at hx
    exact ⟨checkChannels_mem chs ch hch, clampAll_mem (by norm_num) _ _ hx⟩
  cases v with
  | float x => simp [setPattLen] at h
  | int x =>
    simp only [setPattLen, Except.ok.injEq] at h
    subst h
    exact key _ hc
  | list xs =>
    simp only [setPattLen, Except.ok.injEq] at h
    subst h
    exact key _ hc

theorem setSkew_in_range (v : Val) (chs : Chs) (o : Out) (h : setSkew v chs = .ok o) :
    ∀ c ∈ o.cmds, InRange c := by
  intro c hc
  simp only [setSkew, Except.ok.injEq] at h
  subst h
  obtain ⟨ch, hch, x, hx, rfl⟩ := perChannel_mem _ _ _ _ hc
  rw [lim_skew.1, lim_skew.2] at hx
  exact ⟨checkChannels_mem chs ch hch, clampAll_mem (by norm_num) _ _ hx⟩

theorem setVoltage_in_range (v : Val) (chs : Chs) (o : Out) (h : setVoltage v chs = .ok o) :
    ∀ c ∈ o.cmds, InRange c := by
  intro c hc
  simp only [setVoltage, Except.ok.injEq] at h
  subst h
  obtain ⟨ch, hch, x, hx, rfl⟩ := perChannel_mem _ _ _ _ hc
  rw [lim_volt.1, lim_volt.2] at hx
  exact ⟨checkChannels_mem chs ch hch, clampAll_mem (by norm_num) _ _ hx⟩

theorem setOffset_in_range (v : Val) (chs : Chs) (o : Out) (h : setOffset v chs = .ok o) :
    ∀ c ∈ o.cmds, InRange c := by
  intro c hc
  simp only [setOffset, Except.ok.injEq] at h
  subst h
  obtain ⟨ch, hch, x, hx, rfl⟩ := mem_zipWith _ _ _ _ hc
  rw [lim_offs.1, lim_offs.2] at hx
  have hr := clampAll_mem (lo := -2) (hi := 3) (by norm_num) _ _ hx
  by_cases hneg : x < 0
  · rw [if_pos hneg]
    exact ⟨checkChannels_mem chs ch hch, hr.1, hneg⟩
  · rw [if_neg hneg]
    exact ⟨checkChannels_mem chs ch hch, not_lt.mp hneg, hr.2⟩

theorem setBitsShift_in_range (v : Val) (chs : Chs) (o : Out) (h : setBitsShift v chs = .ok o) :
    ∀ c ∈ o.cmds, InRange c := by
  intro c hc
  simp only [setBitsShift, Except.ok.injEq] at h
  subst h
  obtain ⟨ch, hch, x, _, rfl⟩ := perChannel_mem _ _ _ _ hc
  exact checkChannels_mem chs ch hch

theorem setPrbsOrder_in_range (v : Val) (chs : Chs) (o : Out) (h : setPrbsOrder v chs = .ok o) :
    ∀ c ∈ o.cmds, InRange c := by
  have key : ∀ vs : List Rat, (match orderCmds (checkChannels chs).1 vs with
      | .error e => (.error e : R)
      | .ok (cmds, w2) => .ok ⟨cmds, (checkChannels chs).2 || w2⟩) = .ok o → ∀ c ∈ o.cmds, InRange c := by
    intro vs h
    obtain ⟨cmds, w, hok, hr⟩ := orderCmds_ok (checkChannels chs).1 vs (checkChannels_mem chs)
    rw [hok] at h
    simp only [Except.ok.injEq] at h
    subst h
    exact hr
  cases v with
  | float x => simp [setPrbsOrder] at h
  | int x => exact key _ h
  | list xs => exact key _ h

theorem setFreq_in_range (v : Val) (o : Out) (h : setFreq v = .ok o) : ∀ c ∈ o.cmds, InRange c := by
  have key : ∀ f : Rat, setFreq.one f = .ok o → ∀ c ∈ o.cmds, InRange c := by
    intro f h c hc
    unfold setFreq.one at h
    rw [lim_freq.1, lim_freq.2] at h
    split_ifs at h with hcnd
    · simp only [Except.ok.injEq] at h
      subst h
      simp only [List.mem_singleton] at hc
      subst hc
      exact clipR_range (by norm_num) f
    · simp only [Except.ok.injEq] at h
      subst h
      simp only [List.mem_singleton] at hc
      subst hc
      simp only [Bool.or_eq_true, decide_eq_true_eq, not_or, not_lt] at hcnd
      exact hcnd
  cases v with
  | list xs => simp [setFreq] at h
  | int x => exact key _ h
  | float x => exact key _ h

theorem setMode_in_range (m : Mode) (chs : Chs) (o : Out) (h : setMode m chs = .ok o) :
    ∀ c ∈ o.cmds, InRange c := by
  intro c hc
  cases m with
  | other => simp [setMode] at h
  | data =>
    simp only [setMode, Except.ok.injEq] at h
    subst h
    simp only [List.mem_map] at hc
    obtain ⟨ch, hch, rfl⟩ := hc
    exact checkChannels_mem chs ch hch
  | prbs =>
    simp only [setMode, Except.ok.injEq] at h
    subst h
    simp only [List.mem_map] at hc
    obtain ⟨ch, hch, rfl⟩ := hc
    exact checkChannels_mem chs ch hch

theorem setOutputs_in_range (on : Bool) (chs : Chs) (o : Out) (h : setOutputs on chs = .ok o) :
    ∀ c ∈ o.cmds, InRange c := by
  intro c hc
  simp only [setOutputs, Except.ok.injEq] at h
  subst h
  simp only [List.mem_map] at hc
  obtain ⟨ch, hch, rfl⟩ := hc
  exact checkChannels_mem chs ch hch

theorem getScalar_in_range (q : QKind) (chs : Chs) (o : Out) (h : getScalar q chs = .ok o) :
    ∀ c ∈ o.cmds, InRange c := by
  intro c hc
  simp only [getScalar, Except.ok.injEq] at h
  subst h
  simp only [List.mem_map] at hc
  obtain ⟨ch, hch, rfl⟩ := hc
  exact checkChannels_mem chs ch hch

/-- the blocks of one channel are in range -/
theorem dataCmds_in_range (ch : Int) (hch : ChOk ch) (a : Int) (bits : List Nat) :
    ∀ c ∈ dataCmds ch a (chunks MAX_CHUNK_LEN bits), InRange c := by
  intro c hc
  obtain ⟨addr, b, hb, rfl⟩ := dataCmds_mem ch _ a c hc
  have hl := chunks_length_le MAX_CHUNK_LEN (by decide) bits.length bits (le_refl _) b hb
  rw [gen_chunk] at hl
  exact ⟨hch, hl, rfl, header_ok_small _ hl⟩

theorem blocksFor_in_range (start : Int) (cs : List Int) (perCh : List (List Nat)) (hcs : ∀ c ∈ cs, ChOk c) :
    ∀ c ∈ blocksFor start cs perCh, InRange c := by
  intro c hc
  unfold blocksFor at hc
  simp only [List.mem_flatten] at hc
  obtain ⟨l, hl, hcl⟩ := hc
  obtain ⟨ch, hch, bits, _, rfl⟩ := mem_zipWith _ _ _ _ hl
  exact dataCmds_in_range ch (hcs ch hch) start bits c hcl

theorem setData_in_range (d : DataArg) (start : Int) (chs : Chs) (o : Out) (h : setData d start chs = .ok o) :
    ∀ c ∈ o.cmds, InRange c := by
  have hcs := checkChannels_mem chs
  cases d with
  | flat xs =>
    simp only [setData, Except.ok.injEq] at h
    subst h
    exact blocksFor_in_range _ _ _ hcs
  | rows rs =>
    cases rs with
    | nil =>
      simp only [setData, Except.ok.injEq] at h
      subst h
      exact blocksFor_in_range _ _ _ hcs
    | cons r rest =>
      simp only [setData] at h
      split_ifs at h with hall <;>
        (simp only [Except.ok.injEq] at h
         subst h
         exact blocksFor_in_range _ _ _ hcs)

/-- every request: whatever is emitted is in range -/
theorem emit_in_range (r : Request) (o : Out) (h : emit r = .ok o) : ∀ c ∈ o.cmds, InRange c := by
  cases r with
  | pattLen v c => exact setPattLen_in_range v c o h
  | prbsOrder v c => exact setPrbsOrder_in_range v c o h
  | bitsShift v c => exact setBitsShift_in_range v c o h
  | skew v c => exact setSkew_in_range v c o h
  | voltage v c => exact setVoltage_in_range v c o h
  | offset v c => exact setOffset_in_range v c o h
  | freq v => exact setFreq_in_range v o h
  | mode m c => exact setMode_in_range m c o h
  | outputs on c => exact setOutputs_in_range on c o h
  | setData d s c => exact setData_in_range d s c o h
  | get q c => exact getScalar_in_range q c o h
  | getFreq =>
    simp only [emit, Except.ok.injEq] at h
    subst h
    intro c hc
    simp only [List.mem_singleton] at hc
    subst hc
    trivial
  | reset =>
    simp only [emit, Except.ok.injEq] at h
    subst h
    intro c hc
    simp only [List.mem_singleton] at hc
    subst hc
    trivial

/-- a request with arguments of the documented types never fails -/
theorem emit_ok (r : Request) (h : WellTyped r) : ∃ o, emit r = .ok o := by
  cases r with
  | pattLen v c =>
    cases v with
    | float x => exact absurd h (by simp [WellTyped])
    | int x => exact ⟨_, rfl⟩
    | list xs => exact ⟨_, rfl⟩
  | prbsOrder v c =>
    have key : ∀ vs : List Rat, ∃ o, (match orderCmds (checkChannels c).1 vs with
        | .error e => (.error e : R)
        | .ok (cmds, w2) => .ok ⟨cmds, (checkChannels c).2 || w2⟩) = .ok o := by
      intro vs
      obtain ⟨cmds, w, hok, _⟩ := orderCmds_ok (checkChannels c).1 vs (checkChannels_mem c)
      rw [hok]
      exact ⟨_, rfl⟩
    cases v with
    | float x => exact absurd h (by simp [WellTyped])
    | int x => exact key _
    | list xs => exact key _
  | bitsShift v c => exact ⟨_, rfl⟩
  | skew v c => exact ⟨_, rfl⟩
  | voltage v c => exact ⟨_, rfl⟩
  | offset v c => exact ⟨_, rfl⟩
  | freq v =>
    have key : ∀ f : Rat, ∃ o, setFreq.one f = .ok o := by
      intro f
      unfold setFreq.one
      split_ifs <;> exact ⟨_, rfl⟩
    cases v with
    | list xs => exact absurd h (by simp [WellTyped])
    | int x => exact key _
    | float x => exact key _
  | mode m c =>
    cases m with
    | other => exact absurd h (by simp [WellTyped])
    | data => exact ⟨_, rfl⟩
    | prbs => exact ⟨_, rfl⟩
  | outputs on c => exact ⟨_, rfl⟩
  | setData d s c =>
    cases d with
    | flat xs => exact ⟨_, rfl⟩
    | rows rs =>
      obtain ⟨n, hn⟩ := h
      cases rs with
      | nil => exact ⟨_, rfl⟩
      | cons r rest =>
        have hall : (rest.all fun r' => r'.length == r.length) = true := by
          simp only [List.all_eq_true, beq_iff_eq]
          intro r' hr'
          rw [hn r' (List.mem_cons_of_mem _ hr'), hn r List.mem_cons_self]
        simp only [emit, setData, hall, if_true]
        exact ⟨_, rfl⟩
  | get q c => exact ⟨_, rfl⟩
  | getFreq => exact ⟨_, rfl⟩
  | reset => exact ⟨_, rfl⟩

/-! ### get_data -/

/-- start address after the clamp of `get_data` -/
def getStart (start : Int) : Int :=
  if (decide (start < 1) || decide ((2097152 : Int) < start)) = true then clipI 1 2097152 start else start

/-- size after the clamp of `get_data` -/
def getSize (size start : Int) : Int :=
  if (decide (size < 1) || decide (2097152 - getStart start + 1 < size)) = true
  then clipI 1 (2097152 - getStart start + 1) size else size

theorem getArgs_eq (size start : Int) : getArgs size start =
    ((getSize size start).toNat, getStart start,
      (decide (start < 1) || decide ((2097152 : Int) < start)) ||
      (decide (size < 1) || decide (2097152 - getStart start + 1 < size))) := rfl

theorem getStart_range (start : Int) : 1 ≤ getStart start ∧ getStart start ≤ 2097152 := by
  unfold getStart
  split_ifs with h
  · exact clipI_range (by decide) start
  · simp only [Bool.or_eq_true, decide_eq_true_eq, not_or, not_lt] at h
    exact h

theorem getSize_range (size start : Int) :
    1 ≤ getSize size start ∧ getSize size start ≤ 2097152 - getStart start + 1 := by
  have := getStart_range start
  unfold getSize
  split_ifs with h
  · exact clipI_range (by omega) size
  · simp only [Bool.or_eq_true, decide_eq_true_eq, not_or, not_lt] at h
    exact h

/-- the normalised `(size, start)` of `get_data` always address existing memory: `1 ≤ start`, `1 ≤ size`,
    `start + size - 1 ≤ 2^21` -/
theorem getArgs_spec (size start : Int) :
    1 ≤ (getArgs size start).1 ∧ 1 ≤ (getArgs size start).2.1 ∧
    (getArgs size start).2.1 + ((getArgs size start).1 : Int) - 1 ≤ 2 ^ 21 := by
  rw [getArgs_eq]
  have h1 := getStart_range start
  have h2 := getSize_range size start
  simp only
  refine ⟨by omega, h1.1, ?_⟩
  rw [Int.toNat_of_nonneg (by omega)]
  norm_num
  omega

theorem getArgs_id (size start : Int) (h1 : 1 ≤ start) (h2 : start ≤ 2 ^ 21) (h3 : 1 ≤ size)
    (h4 : size ≤ 2 ^ 21 - start + 1) : getArgs size start = (size.toNat, start, false) := by
  norm_num at h2 h4
  have e1 : (decide (start < 1) || decide ((2097152 : Int) < start)) = false := by
    simp only [Bool.or_eq_false_iff, decide_eq_false_iff_not]
    omega
  have es : getStart start = start := by
    unfold getStart
    rw [e1]; rfl
  have e2 : (decide (size < 1) || decide (2097152 - getStart start + 1 < size)) = false := by
    simp only [Bool.or_eq_false_iff, decide_eq_false_iff_not, es]
    omega
  have ez : getSize size start = size := by
    unfold getSize
    rw [e2]; rfl
  rw [getArgs_eq, e1, e2, es, ez]
  rfl

theorem getData_ok (m : Mem) (size start : Int) (chs : Chs) : ∃ o, getData m size start chs = .ok o ∧
    (∀ c ∈ o.cmds, InRange c) ∧
    o.warned = ((checkChannels chs).2 || (getArgs size start).2.2) ∧
    o.data = (checkChannels chs).1.map
      (fun ch => (m.read ch (getArgs size start).2.1 (getArgs size start).1).map norm) := by
  unfold getData
  simp only
  have hcnt := counts_le (getArgs size start).1
  have hmap : ∀ cs : List Int, mapM' (fun ch => readBlocks m ch (getArgs size start).2.1 (counts (getArgs size start).1)) cs
      = .ok (cs.map (fun ch => (m.read ch (getArgs size start).2.1 (getArgs size start).1).map norm)) := by
    intro cs
    induction cs with
    | nil => rfl
    | cons ch cs ih =>
      simp only [mapM', readBlocks_eq m ch _ _ hcnt, counts_sum, ih, bind, Except.bind, pure, Except.pure,
        List.map_cons]
  rw [hmap]
  refine ⟨_, rfl, ?_, rfl, rfl⟩
  intro c hc
  simp only [List.mem_flatten, List.mem_map] at hc
  obtain ⟨l, ⟨ch, hch, rfl⟩, hcl⟩ := hc
  obtain ⟨addr, n, hn, rfl⟩ := dataQueries_mem ch _ _ c hcl
  exact ⟨checkChannels_mem chs ch hch, hcnt n hn⟩

/-! ### set_data followed by get_data -/

theorem blocksFor_replicate (start : Int) (cs : List Int) (B : List Nat) :
    blocksFor start cs (List.replicate cs.length B) =
      (cs.map (fun ch => dataCmds ch start (chunks MAX_CHUNK_LEN B))).flatten := by
  unfold blocksFor
  rw [zipWith_replicate_right (fun ch bits => dataCmds ch start (chunks MAX_CHUNK_LEN bits)) B cs]

theorem setData_flat_eq (xs : List Int) (start : Int) (chs : Chs)
    (h4 : (xs.length : Int) ≤ 2 ^ 21 - start + 1) :
    setData (.flat xs) start chs = .ok ⟨((checkChannels chs).1.map
      (fun ch => dataCmds ch start (chunks MAX_CHUNK_LEN (xs.map bit)))).flatten, (checkChannels chs).2⟩ := by
  unfold setData
  have hw : decide ((MAX_MEMORY_LEN : Int) - start + 1 < (xs.length : Int)) = false := by
    simp only [gen_memory]
    norm_num at h4 ⊢
    omega
  simp only [hw, Bool.false_eq_true, if_false, Bool.or_false, blocksFor_replicate]

theorem roundtrip (m : Mem) (xs : List Int) (start : Int) (chs : Chs)
    (h1 : 1 ≤ start) (h2 : start ≤ 2 ^ 21) (h3 : 1 ≤ xs.length) (h4 : (xs.length : Int) ≤ 2 ^ 21 - start + 1) :
    ∃ o g, setData (.flat xs) start chs = .ok o ∧
      getData (m.execAll o.cmds) xs.length start chs = .ok g ∧
      g.data = List.replicate (checkChannels chs).1.length (xs.map bit) ∧
      o.warned = (checkChannels chs).2 ∧ g.warned = (checkChannels chs).2 := by
  obtain ⟨g, hg, _, hw, hd⟩ := getData_ok (m.execAll ((checkChannels chs).1.map
      (fun ch => dataCmds ch start (chunks MAX_CHUNK_LEN (xs.map bit)))).flatten) xs.length start chs
  refine ⟨_, g, setData_flat_eq xs start chs h4, hg, ?_, rfl, ?_⟩
  · rw [hd, getArgs_id _ _ h1 h2 (by omega) h4]
    simp only [Int.toNat_natCast]
    rw [Mem.execAll_channels, chunks_flatten MAX_CHUNK_LEN (by decide) _ _ (le_refl _)]
    rw [← List.map_const']
    apply List.map_congr_left
    intro ch hch
    have := Mem.read_writeAll start (xs.map bit) (checkChannels chs).1 m ch hch
    rw [List.length_map] at this
    rw [this, List.map_map]
    apply List.map_congr_left
    intro x _
    exact norm_bit x
  · rw [hw, getArgs_id _ _ h1 h2 (by omega) h4]
    simp

/-! ### 2-D (per-channel) data -/

theorem setData_rows_eq (r : List Int) (rest : List (List Int)) (start : Int) (chs : Chs)
    (hall : ∀ r' ∈ rest, r'.length = r.length) (h4 : (r.length : Int) ≤ 2 ^ 21 - start + 1) :
    setData (.rows (r :: rest)) start chs =
      .ok ⟨blocksFor start (checkChannels chs).1 ((r :: rest).map (·.map bit)), (checkChannels chs).2⟩ := by
  have ha : (rest.all fun r' => r'.length == r.length) = true := by
    simp only [List.all_eq_true, beq_iff_eq]
    exact hall
  have hw : decide ((MAX_MEMORY_LEN : Int) - start + 1 < (r.length : Int)) = false := by
    simp only [gen_memory]
    norm_num at h4 ⊢
    omega
  simp only [setData, ha, if_true, hw, Bool.false_eq_true, if_false, Bool.or_false]

theorem roundtrip2d (m : Mem) (r : List Int) (rest : List (List Int)) (start : Int) (cs : List Int)
    (hc : ∀ c ∈ cs, ChOk c) (hnd : cs.Nodup) (hlen : cs.length = (r :: rest).length)
    (hall : ∀ r' ∈ rest, r'.length = r.length)
    (h1 : 1 ≤ start) (h2 : start ≤ 2 ^ 21) (h3 : 1 ≤ r.length) (h4 : (r.length : Int) ≤ 2 ^ 21 - start + 1) :
    ∃ o g, setData (.rows (r :: rest)) start (some cs) = .ok o ∧
      getData (m.execAll o.cmds) r.length start (some cs) = .ok g ∧
      g.data = (r :: rest).map (·.map bit) ∧ o.warned = false ∧ g.warned = false := by
  have hl4 : cs.length ≤ 4 := by
    -- pairwise different channels in 1..4
    have hsub : ∀ c ∈ cs, c ∈ ([1, 2, 3, 4] : List Int) := by
      intro c hcm
      have := hc c hcm
      unfold ChOk at this
      simp only [List.mem_cons, List.not_mem_nil, or_false]
      omega
    have := (List.subperm_of_subset hnd hsub).length_le
    simpa using this
  have hcc := checkChannels_id cs hc hl4
  obtain ⟨g, hg, _, hw, hd⟩ := getData_ok (m.execAll (blocksFor start cs ((r :: rest).map (·.map bit))))
    r.length start (some cs)
  have hs := setData_rows_eq r rest start (some cs) hall h4
  rw [hcc] at hs hw hd
  refine ⟨_, g, hs, hg, ?_, rfl, ?_⟩
  · rw [hd, getArgs_id _ _ h1 h2 (by omega) h4]
    simp only [Int.toNat_natCast]
    rw [Mem.execAll_blocksFor]
    set perCh := (r :: rest).map (·.map bit) with hper
    have hlp : perCh.length = cs.length := by rw [hper, List.length_map, hlen]
    apply List.ext_getElem
    · rw [List.length_map, hlp]
    · intro i hi1 hi2
      rw [List.getElem_map]
      have hi : i < cs.length := by simpa using hi1
      have hmem : (cs[i], perCh[i]) ∈ cs.zip perCh := by
        have hz : i < (cs.zip perCh).length := by rw [List.length_zip, hlp, Nat.min_self]; exact hi
        have := List.getElem_mem hz
        rwa [List.getElem_zip] at this
      have hplen : (perCh[i]).length = r.length := by
        have hrow : (r :: rest)[i]'(by rw [← hlen]; exact hi) ∈ r :: rest := List.getElem_mem _
        simp only [hper, List.getElem_map, List.length_map]
        rcases List.mem_cons.mp hrow with h | h
        · rw [h]
        · exact hall _ h
      have hnd' : ((cs.zip perCh).map Prod.fst).Nodup := by
        rw [List.map_fst_zip (by omega)]
        exact hnd
      have := Mem.read_writePairs start (cs.zip perCh) m cs[i] perCh[i] hnd' hmem
      rw [hplen] at this
      rw [this]
      simp only [hper, List.getElem_map, List.map_map]
      apply List.map_congr_left
      intro x _
      exact norm_bit x
  · rw [hw, getArgs_id _ _ h1 h2 (by omega) h4]
    simp

/-- every block lies in `[start, start + L)` when no channel gets more than `L` bits -/
theorem blocksFor_addr (start : Int) (cs : List Int) (perCh : List (List Nat)) (L : Int)
    (h : ∀ bits ∈ perCh, (bits.length : Int) ≤ L) :
    ∀ c ∈ blocksFor start cs perCh, ∃ ch addr n k b, c = Command.data ch addr n k b ∧ start ≤ addr ∧
      addr + (n : Int) ≤ start + L := by
  intro c hc
  unfold blocksFor at hc
  simp only [List.mem_flatten] at hc
  obtain ⟨l, hl, hcl⟩ := hc
  obtain ⟨ch, _, bits, hbits, rfl⟩ := mem_zipWith _ _ _ _ hl
  obtain ⟨addr, n, k, b, rfl, ha1, ha2⟩ := dataCmds_addr_range ch _ start c hcl
  rw [chunks_flatten MAX_CHUNK_LEN (by decide) _ _ (le_refl _)] at ha2
  have := h bits hbits
  exact ⟨ch, addr, n, k, b, rfl, ha1, by omega⟩

theorem pyTake_length_le' {α} (e : Int) (xs : List α) (he : 0 ≤ e) : ((pyTake e xs).length : Int) ≤ e := by
  unfold pyTake
  rw [if_pos he, List.length_take]
  omega

/-- with a start address inside the memory, whatever `set_data` sends (1-D or 2-D data of any length) stays inside
    the memory -/
theorem setData_addr (d : DataArg) (start : Int) (chs : Chs) (h1 : 1 ≤ start) (h2 : start ≤ 2 ^ 21)
    (o : Out) (ho : setData d start chs = .ok o) :
    ∀ c ∈ o.cmds, ∃ ch addr n k b, c = Command.data ch addr n k b ∧ 1 ≤ addr ∧ addr + (n : Int) - 1 ≤ 2 ^ 21 := by
  have hlim : (0 : Int) ≤ (MAX_MEMORY_LEN : Int) - start + 1 := by
    simp only [gen_memory]; norm_num at h2 ⊢; omega
  have key : ∀ perCh : List (List Nat), (∀ bits ∈ perCh, (bits.length : Int) ≤ (MAX_MEMORY_LEN : Int) - start + 1) →
      ∀ c ∈ blocksFor start (checkChannels chs).1 perCh,
        ∃ ch addr n k b, c = Command.data ch addr n k b ∧ 1 ≤ addr ∧ addr + (n : Int) - 1 ≤ 2 ^ 21 := by
    intro perCh hp c hc
    obtain ⟨ch, addr, n, k, b, rfl, ha1, ha2⟩ := blocksFor_addr start _ perCh _ hp c hc
    refine ⟨ch, addr, n, k, b, rfl, by omega, ?_⟩
    simp only [gen_memory] at ha2
    norm_num at ha2 ⊢
    omega
  cases d with
  | flat xs =>
    simp only [setData, Except.ok.injEq] at ho
    subst ho
    apply key
    intro bits hb
    rw [List.eq_of_mem_replicate hb, List.length_map]
    split_ifs with hw
    · exact pyTake_length_le' _ xs hlim
    · simpa using hw
  | rows rs =>
    cases rs with
    | nil =>
      simp only [setData, Except.ok.injEq] at ho
      subst ho
      apply key
      intro bits hb
      rw [List.eq_of_mem_replicate hb]
      simpa using hlim
    | cons r rest =>
      simp only [setData] at ho
      split_ifs at ho with hall hw
      · simp only [Except.ok.injEq] at ho
        subst ho
        apply key
        intro bits hb
        simp only [List.mem_map] at hb
        obtain ⟨row, ⟨row0, _, rfl⟩, rfl⟩ := hb
        rw [List.length_map]
        exact pyTake_length_le' _ row0 hlim
      · simp only [Except.ok.injEq] at ho
        subst ho
        apply key
        intro bits hb
        simp only [List.mem_map] at hb
        obtain ⟨row, hrow, rfl⟩ := hb
        rw [List.length_map]
        have hr : (r.length : Int) ≤ (MAX_MEMORY_LEN : Int) - start + 1 := by simpa using hw
        rcases List.mem_cons.mp hrow with h | h
        · rw [h]; exact hr
        · simp only [List.all_eq_true, beq_iff_eq] at hall
          rw [hall row h]; exact hr

/-! ### histories -/

/-- all commands sent to the instrument during a history of operations (failed calls send nothing) -/
def histCmds : Mem → List Op → List Command
  | _, [] => []
  | m, .req r :: ops =>
    match emit r with
    | .error _ => histCmds m ops
    | .ok o => o.cmds ++ histCmds (m.execAll o.cmds) ops
  | m, .getData n s c :: ops =>
    match getData m n s c with
    | .error _ => histCmds m ops
    | .ok o => o.cmds ++ histCmds m ops

theorem histCmds_in_range : ∀ (ops : List Op) (m : Mem), ∀ c ∈ histCmds m ops, InRange c
  | [], _, c, hc => by simp [histCmds] at hc
  | .req r :: ops, m, c, hc => by
    unfold histCmds at hc
    split at hc
    · exact histCmds_in_range ops m c hc
    · rename_i o ho
      rcases List.mem_append.mp hc with h | h
      · exact emit_in_range r o ho c h
      · exact histCmds_in_range ops _ c h
  | .getData n s cs :: ops, m, c, hc => by
    unfold histCmds at hc
    obtain ⟨o, ho, hr, _⟩ := getData_ok m n s cs
    rw [ho] at hc
    rcases List.mem_append.mp hc with h | h
    · exact hr c h
    · exact histCmds_in_range ops m c h

/-- length of Python's `xs[:e]` -/
theorem pyTake_length_le {α} (e : Int) (xs : List α) (he : 0 ≤ e) : ((pyTake e xs).length : Int) ≤ e := by
  unfold pyTake
  rw [if_pos he, List.length_take]
  omega

end OptiVerif.Ppg
