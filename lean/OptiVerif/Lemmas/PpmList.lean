/-
List lemmas for the PPM model (C12): `chunks` (numpy `reshape(n, m)`), `oneHot`, `ones`, `onIdx`.
-/
import OptiVerif.Model.Ppm

namespace OptiVerif.Ppm
open OptiVerif

variable {α β : Type}

/-! ### chunks -/

@[simp] theorem chunks_length (m n : Nat) (l : List α) : (chunks m n l).length = n := by
  induction n generalizing l with
  | zero => rfl
  | succ n ih => simp [chunks, ih]

theorem chunks_cons_append (m n : Nat) (r l : List α) (hr : r.length = m) :
    chunks m (n+1) (r ++ l) = r :: chunks m n l := by
  simp [chunks, ← hr]

/-- reshaping the concatenation of `n` rows of length `m` gives the rows back -/
theorem chunks_flatten (m : Nat) (rows : List (List α)) (h : ∀ r ∈ rows, r.length = m) :
    chunks m rows.length rows.flatten = rows := by
  induction rows with
  | nil => rfl
  | cons r rs ih =>
    rw [List.length_cons, List.flatten_cons, chunks_cons_append m _ r _ (h r (by simp))]
    rw [ih (fun x hx => h x (List.mem_cons_of_mem _ hx))]

/-- `x.reshape(n, m).ravel() == x` when `len(x) == n*m` -/
theorem flatten_chunks (m n : Nat) (l : List α) (h : l.length = n * m) : (chunks m n l).flatten = l := by
  induction n generalizing l with
  | zero =>
    have : l = [] := List.eq_nil_of_length_eq_zero (by simpa using h)
    simp [chunks, this]
  | succ n ih =>
    simp only [chunks, List.flatten_cons]
    rw [ih (l.drop m) (by rw [List.length_drop, h, Nat.succ_mul]; omega)]
    exact List.take_append_drop m l

theorem chunks_row_length (m n : Nat) (l : List α) (h : n * m ≤ l.length) :
    ∀ r ∈ chunks m n l, r.length = m := by
  induction n generalizing l with
  | zero => intro r hr; simp [chunks] at hr
  | succ n ih =>
    intro r hr
    simp only [chunks, List.mem_cons] at hr
    rw [Nat.succ_mul] at h
    rcases hr with rfl | hr
    · rw [List.length_take]; omega
    · exact ih (l.drop m) (by rw [List.length_drop]; omega) r hr

theorem chunks_map (f : α → β) (m n : Nat) (l : List α) :
    chunks m n (l.map f) = (chunks m n l).map (List.map f) := by
  induction n generalizing l with
  | zero => rfl
  | succ n ih =>
    simp only [chunks, List.map_cons, ← List.map_take, ← List.map_drop]
    rw [ih]

/-- only the first `n*m` entries matter -/
theorem chunks_take (m n : Nat) (l : List α) : chunks m n (l.take (n * m)) = chunks m n l := by
  induction n generalizing l with
  | zero => rfl
  | succ n ih =>
    simp only [chunks]
    have h1 : (l.take ((n+1) * m)).take m = l.take m := by
      rw [List.take_take]; congr 1; rw [Nat.succ_mul]; omega
    have h2 : (l.take ((n+1) * m)).drop m = (l.drop m).take (n * m) := by
      rw [List.drop_take]; congr 1; rw [Nat.succ_mul]; omega
    rw [h1, h2, ih]

theorem length_flatten_of_rows (m : Nat) (rows : List (List α)) (h : ∀ r ∈ rows, r.length = m) :
    rows.flatten.length = rows.length * m := by
  induction rows with
  | nil => simp
  | cons r rs ih =>
    rw [List.flatten_cons, List.length_append, ih (fun x hx => h x (List.mem_cons_of_mem _ hx)),
      h r (by simp), List.length_cons, Nat.succ_mul]
    omega

/-- row `i` of `l.reshape(n, m)` is `l[i*m : (i+1)*m]` -/
theorem chunks_getElem? (m n i : Nat) (l : List α) (h : i < n) :
    (chunks m n l)[i]? = some ((l.drop (i * m)).take m) := by
  induction n generalizing l i with
  | zero => omega
  | succ n ih =>
    cases i with
    | zero => simp [chunks]
    | succ i =>
      simp only [chunks, List.getElem?_cons_succ]
      rw [ih i (l.drop m) (by omega), List.drop_drop, Nat.succ_mul]
      congr 3; omega

/-! ### oneHot, ones -/

@[simp] theorem oneHot_length (M d : Nat) : (oneHot M d).length = M := by simp [oneHot]

theorem ones_replicate_false (n : Nat) : ones (List.replicate n false) = 0 := by
  simp [ones, List.count_replicate]

theorem ones_cons (b : Bool) (s : List Bool) : ones (b :: s) = ones s + b.toNat := by
  cases b <;> simp [ones]

theorem oneHot_succ_zero (M : Nat) : oneHot (M+1) 0 = true :: List.replicate M false := by
  simp [oneHot, List.replicate_succ]

theorem oneHot_succ_succ (M d : Nat) : oneHot (M+1) (d+1) = false :: oneHot M d := by
  simp [oneHot, List.replicate_succ]

theorem ones_oneHot (M d : Nat) (h : d < M) : ones (oneHot M d) = 1 := by
  induction M generalizing d with
  | zero => omega
  | succ M ih =>
    cases d with
    | zero => rw [oneHot_succ_zero, ones_cons, ones_replicate_false]; rfl
    | succ d => rw [oneHot_succ_succ, ones_cons, ih d (by omega)]; rfl

theorem eq_replicate_of_ones_zero (s : List Bool) (h : ones s = 0) : s = List.replicate s.length false := by
  induction s with
  | nil => rfl
  | cons b t ih =>
    rw [ones_cons] at h
    cases b with
    | true => simp at h
    | false =>
      rw [List.length_cons, List.replicate_succ, ← ih (by simpa using h)]

/-- a row with exactly one ON entry is a one-hot row -/
theorem eq_oneHot_of_ones_one (s : List Bool) (h : ones s = 1) : ∃ d, d < s.length ∧ s = oneHot s.length d := by
  induction s with
  | nil => simp [ones] at h
  | cons b t ih =>
    rw [ones_cons] at h
    cases b with
    | true =>
      have ht : ones t = 0 := by simpa using h
      refine ⟨0, by simp, ?_⟩
      rw [List.length_cons, oneHot_succ_zero, ← eq_replicate_of_ones_zero t ht]
    | false =>
      obtain ⟨d, hd, ht⟩ := ih (by simpa using h)
      refine ⟨d+1, by simp; omega, ?_⟩
      rw [List.length_cons, oneHot_succ_succ, ← ht]

theorem oneHot_getElem? (M d j : Nat) (hj : j < M) : (oneHot M d)[j]? = some (decide (d = j)) := by
  simp only [oneHot]
  rw [List.getElem?_set]
  by_cases h : d = j
  · subst h; simp [hj]
  · simp [h, hj]

theorem oneHot_inj (M d e : Nat) (hd : d < M) (h : oneHot M d = oneHot M e) : d = e := by
  have h1 := oneHot_getElem? M d d hd
  rw [h, oneHot_getElem? M e d hd] at h1
  have : e = d := by simpa using h1
  exact this.symm

/-! ### onIdx -/

theorem onIdxFrom_append (i : Nat) (a b : List Bool) :
    onIdxFrom i (a ++ b) = onIdxFrom i a ++ onIdxFrom (i + a.length) b := by
  induction a generalizing i with
  | nil => simp [onIdxFrom]
  | cons x xs ih =>
    have e : i + (xs.length + 1) = i + 1 + xs.length := by omega
    cases x <;> simp [onIdxFrom, ih, e]

theorem onIdxFrom_replicate_false (i n : Nat) : onIdxFrom i (List.replicate n false) = [] := by
  induction n generalizing i with
  | zero => rfl
  | succ n ih => simp [List.replicate_succ, onIdxFrom, ih]

theorem onIdxFrom_oneHot (i M d : Nat) (h : d < M) : onIdxFrom i (oneHot M d) = [i + d] := by
  induction M generalizing i d with
  | zero => omega
  | succ M ih =>
    cases d with
    | zero => simp [oneHot_succ_zero, onIdxFrom, onIdxFrom_replicate_false]
    | succ d =>
      rw [oneHot_succ_succ]
      simp only [onIdxFrom, Bool.false_eq_true, if_false]
      rw [ih (i+1) d (by omega)]
      congr 1; omega

theorem onIdxFrom_length (i : Nat) (s : List Bool) : (onIdxFrom i s).length = ones s := by
  induction s generalizing i with
  | nil => rfl
  | cons b t ih => cases b <;> simp [onIdxFrom, ones_cons, ih]

/-- every listed position is in range and ON -/
theorem mem_onIdxFrom (i : Nat) (s : List Bool) (p : Nat) (h : p ∈ onIdxFrom i s) :
    i ≤ p ∧ p - i < s.length ∧ s[p - i]? = some true := by
  induction s generalizing i with
  | nil => simp [onIdxFrom] at h
  | cons b t ih =>
    have step : p ∈ onIdxFrom (i+1) t → i ≤ p ∧ p - i < (b :: t).length ∧ (b :: t)[p - i]? = some true := by
      intro h'
      obtain ⟨h1, h2, h3⟩ := ih (i+1) h'
      have e : p - i = (p - (i+1)) + 1 := by omega
      refine ⟨by omega, by simp; omega, ?_⟩
      rw [e, List.getElem?_cons_succ]; exact h3
    cases b with
    | false => exact step (by simpa [onIdxFrom] using h)
    | true =>
      simp only [onIdxFrom, if_true, List.mem_cons] at h
      rcases h with rfl | h
      · simp
      · exact step h

theorem mem_onIdx (s : List Bool) (p : Nat) (h : p ∈ onIdx s) : p < s.length ∧ s[p]? = some true := by
  have := mem_onIdxFrom 0 s p h
  simpa using this.2

end OptiVerif.Ppm
