/-
Encoder / decoder lemmas for the PPM model (C12): big-endian value, `dec2bin`, the round trips.
-/
import OptiVerif.Lemmas.PpmList
import Mathlib.Data.List.Induction
import Mathlib.Tactic.Ring

namespace OptiVerif.Ppm
open OptiVerif

/-- big-endian value of a bit row -/
def beVal (row : List Bool) : Nat := row.foldl (fun a b => 2 * a + b.toNat) 0

/-- big-endian `i`-bit representation of `num` (low `i` bits) -/
def beBits : Nat → Nat → List Nat
  | 0, _ => []
  | i+1, num => beBits i (num / 2) ++ [num % 2]

@[simp] theorem beBits_length (i num : Nat) : (beBits i num).length = i := by
  induction i generalizing num with
  | zero => rfl
  | succ i ih => simp [beBits, ih]

theorem beBits_mem (i num x : Nat) (h : x ∈ beBits i num) : x = 0 ∨ x = 1 := by
  induction i generalizing num with
  | zero => simp [beBits] at h
  | succ i ih =>
    simp only [beBits, List.mem_append, List.mem_singleton] at h
    rcases h with h | rfl
    · exact ih _ h
    · omega

theorem beBits_zero (i : Nat) : beBits i 0 = List.replicate i 0 := by
  induction i with
  | zero => rfl
  | succ i ih => simp [beBits, ih, List.replicate_succ']

theorem foldl_be (a : Nat) (row : List Bool) :
    row.foldl (fun a b => 2 * a + b.toNat) a = a * 2 ^ row.length + beVal row := by
  induction row generalizing a with
  | nil => simp [beVal]
  | cons b t ih =>
    simp only [List.foldl_cons, beVal, List.length_cons]
    rw [ih (2 * a + b.toNat), ih (2 * 0 + b.toNat)]
    simp only [beVal, Nat.pow_succ]
    ring

theorem beVal_cons (b : Bool) (t : List Bool) : beVal (b :: t) = b.toNat * 2 ^ t.length + beVal t := by
  have := foldl_be (2 * 0 + b.toNat) t
  simp only [beVal, List.foldl_cons] at this ⊢
  rw [this]; simp

theorem beVal_append_single (r : List Bool) (b : Bool) : beVal (r ++ [b]) = 2 * beVal r + b.toNat := by
  simp [beVal, List.foldl_append]

theorem beVal_lt (row : List Bool) : beVal row < 2 ^ row.length := by
  induction row with
  | nil => simp [beVal]
  | cons b t ih =>
    rw [beVal_cons, List.length_cons, Nat.pow_succ]
    cases b <;> simp <;> omega

theorem weights_succ (k : Nat) : weights (k+1) = 2 ^ k :: weights k := by
  simp [weights, List.range_succ]

/-- the code's weighted sum is the big-endian value of the row -/
theorem rowValue_eq_beVal (k : Nat) (row : List Bool) (h : row.length = k) : rowValue k row = beVal row := by
  induction row generalizing k with
  | nil => subst h; simp [rowValue, weights, beVal]
  | cons b t ih =>
    subst h
    rw [List.length_cons, beVal_cons, ← ih t.length rfl]
    simp [rowValue, weights_succ]

/-- writing `beVal row` with `|row|` bits gives the row back -/
theorem beBits_beVal (row : List Bool) : beBits row.length (beVal row) = row.map Bool.toNat := by
  induction row using List.reverseRecOn with
  | nil => rfl
  | append_singleton r b ih =>
    rw [List.length_append, List.length_singleton, beBits, beVal_append_single]
    have h1 : (2 * beVal r + b.toNat) / 2 = beVal r := by cases b <;> simp; omega
    have h2 : (2 * beVal r + b.toNat) % 2 = b.toNat := by cases b <;> simp
    rw [h1, h2, ih]; simp

theorem beVal_beBits (i num : Nat) (h : num < 2 ^ i) : beVal ((beBits i num).map (· != 0)) = num := by
  induction i generalizing num with
  | zero => simp at h; subst h; rfl
  | succ i ih =>
    rw [beBits, List.map_append, List.map_singleton, beVal_append_single, ih (num / 2) (by rw [Nat.pow_succ] at h; omega)]
    rcases Nat.mod_two_eq_zero_or_one num with h0 | h1
    · rw [h0]; simp; omega
    · rw [h1]; simp; omega

/-! ### dec2bin -/

theorem dec2binLoop_spec (i num : Nat) (suf : List Nat) :
    dec2binLoop i (List.replicate i 0 ++ suf) num = beBits i num ++ suf := by
  induction i generalizing num suf with
  | zero => simp [dec2binLoop, beBits]
  | succ i ih =>
    simp only [dec2binLoop, Gen.Ppm.d2bBit, Gen.Ppm.d2bNext]
    by_cases h : num > 0
    · rw [if_pos h]
      have : (List.replicate (i+1) 0 ++ suf).set i (num % 2) = List.replicate i 0 ++ (num % 2 :: suf) := by
        rw [List.replicate_succ', List.append_assoc, List.set_append_right _ _ (by simp)]
        simp
      rw [this, ih, beBits]; simp
    · have h0 : num = 0 := by omega
      subst h0
      rw [if_neg (by omega), beBits_zero]

/-- `dec2bin(num, digits)` is the big-endian `digits`-bit representation when it fits … -/
theorem dec2bin_ok (num digits : Nat) (h : num < 2 ^ digits) : dec2bin num digits = .ok (beBits digits num) := by
  unfold dec2bin
  rw [show Gen.Ppm.d2bLimit digits = 2 ^ digits - 1 from rfl]
  rw [if_neg (by omega)]
  have := dec2binLoop_spec digits num []
  simp only [List.append_nil] at this
  rw [this]

/-- … and ValueError exactly when it does not -/
theorem dec2bin_err (num digits : Nat) (h : 2 ^ digits ≤ num) : dec2bin num digits = .error .ValueError := by
  unfold dec2bin
  rw [show Gen.Ppm.d2bLimit digits = 2 ^ digits - 1 from rfl]
  have : 0 < 2 ^ digits := Nat.pow_pos (by omega)
  rw [if_pos (by omega)]

/-! ### decoding a concatenation of one-hot rows -/

theorem onIdxFrom_rows_mod (M : Nat) (c : Nat) (ds : List Nat) (h : ∀ d ∈ ds, d < M) :
    (onIdxFrom (c * M) (ds.map (oneHot M)).flatten).map (· % M) = ds := by
  induction ds generalizing c with
  | nil => simp [onIdxFrom]
  | cons d t ih =>
    have hd : d < M := h d (by simp)
    rw [List.map_cons, List.flatten_cons, onIdxFrom_append, onIdxFrom_oneHot _ _ _ hd, oneHot_length]
    have e : c * M + M = (c+1) * M := by rw [Nat.succ_mul]
    rw [e, List.map_append, ih (c+1) (fun x hx => h x (List.mem_cons_of_mem _ hx))]
    simp [Nat.mod_eq_of_lt hd]

/-! ### the encoder and decoder in closed form -/

theorem mapM_except_ok {ε α β : Type} (f : α → Except ε β) (g : α → β) (l : List α)
    (h : ∀ x ∈ l, f x = .ok (g x)) : l.mapM f = .ok (l.map g) := by
  induction l with
  | nil => rfl
  | cons a t ih =>
    rw [List.mapM_cons, h a (by simp), ih (fun x hx => h x (List.mem_cons_of_mem _ hx))]
    rfl

theorem div_mul_le' (a k : Nat) : a / k * k ≤ a := Nat.div_mul_le_self a k

/-- the encoder: one one-hot block per `k`-bit row, at the big-endian value of the row -/
theorem encodeBits_eq (M k : Nat) (hk : k ≠ 0) (bits : List Bool) :
    encodeBits M k bits =
      .ok ((chunks k (bits.length / k) bits).map (fun r => oneHot M (beVal r))).flatten := by
  unfold encodeBits
  rw [if_neg hk]
  simp only [chunks_take]
  congr 2
  apply List.map_congr_left
  intro r hr
  rw [rowValue_eq_beVal k r (chunks_row_length k _ bits (div_mul_le' _ _) r hr)]

theorem decodeBits_rows (M k : Nat) (ds : List Nat) (hM : ∀ d ∈ ds, d < M) (hk : ∀ d ∈ ds, d < 2 ^ k) :
    decodeBits M k (ds.map (oneHot M)).flatten = .ok (ds.map (beBits k)).flatten := by
  unfold decodeBits
  have h0 : onIdx (ds.map (oneHot M)).flatten = onIdxFrom (0 * M) (ds.map (oneHot M)).flatten := by
    simp [onIdx]
  have hmod := onIdxFrom_rows_mod M 0 ds hM
  rw [← h0] at hmod
  have hm : (onIdx (ds.map (oneHot M)).flatten).mapM (fun p => dec2bin (p % M) k)
      = .ok ((onIdx (ds.map (oneHot M)).flatten).map (fun p => beBits k (p % M))) := by
    apply mapM_except_ok
    intro p hp
    apply dec2bin_ok
    apply hk
    rw [← hmod]
    exact List.mem_map_of_mem hp
  rw [hm]
  have : (onIdx (ds.map (oneHot M)).flatten).map (fun p => beBits k (p % M))
      = ((onIdx (ds.map (oneHot M)).flatten).map (· % M)).map (beBits k) := by
    rw [List.map_map]; rfl
  rw [this, hmod]
  rfl

/-- **decoder ∘ encoder** at the level of bit lists: `k ≥ 1`, any `M ≥ 2^k` -/
theorem decodeBits_encodeBits (M k : Nat) (hk : k ≠ 0) (hM : 2 ^ k ≤ M) (bits out : List Bool)
    (h : encodeBits M k bits = .ok out) :
    decodeBits M k out = .ok ((bits.take (bits.length / k * k)).map Bool.toNat) := by
  rw [encodeBits_eq M k hk] at h
  injection h with h
  subst h
  have hrows := chunks_row_length k (bits.length / k) bits (div_mul_le' _ _)
  have e : (chunks k (bits.length / k) bits).map (fun r => oneHot M (beVal r))
      = ((chunks k (bits.length / k) bits).map beVal).map (oneHot M) := by
    rw [List.map_map]; rfl
  have hlt : ∀ d ∈ (chunks k (bits.length / k) bits).map beVal, d < 2 ^ k := by
    intro d hd
    obtain ⟨r, hr, rfl⟩ := List.mem_map.mp hd
    have := beVal_lt r
    rwa [hrows r hr] at this
  rw [e, decodeBits_rows M k _ (fun d hd => Nat.lt_of_lt_of_le (hlt d hd) hM) hlt]
  congr 1
  rw [List.map_map]
  have : (chunks k (bits.length / k) bits).map (beBits k ∘ beVal)
      = (chunks k (bits.length / k) bits).map (List.map Bool.toNat) := by
    apply List.map_congr_left
    intro r hr
    have := beBits_beVal r
    rw [hrows r hr] at this
    exact this
  rw [this, ← List.map_flatten, ← chunks_take, flatten_chunks]
  rw [List.length_take]
  exact Nat.min_eq_left (div_mul_le' _ _)

/-- a concatenation of rows with exactly one ON entry each is a concatenation of one-hot rows -/
theorem rows_oneHot (M : Nat) (rows : List (List Bool)) (h : ∀ r ∈ rows, r.length = M ∧ ones r = 1) :
    ∃ ds : List Nat, (∀ d ∈ ds, d < M) ∧ rows = ds.map (oneHot M) := by
  induction rows with
  | nil => exact ⟨[], by simp, rfl⟩
  | cons r t ih =>
    obtain ⟨ds, hds, ht⟩ := ih (fun x hx => h x (List.mem_cons_of_mem _ hx))
    obtain ⟨hl, h1⟩ := h r (by simp)
    obtain ⟨d, hd, hr⟩ := eq_oneHot_of_ones_one r h1
    rw [hl] at hd hr
    refine ⟨d :: ds, ?_, by rw [List.map_cons, ← hr, ← ht]⟩
    intro x hx
    rcases List.mem_cons.mp hx with rfl | hx
    · exact hd
    · exact hds x hx

/-- **encoder ∘ decoder** on concatenations of one-hot rows, `M = 2^k` -/
theorem encodeBits_decodeBits_rows (k : Nat) (hk : k ≠ 0) (ds : List Nat) (h : ∀ d ∈ ds, d < 2 ^ k) :
    ∃ w, decodeBits (2 ^ k) k (ds.map (oneHot (2 ^ k))).flatten = .ok w ∧
      w.length = ds.length * k ∧
      encodeBits (2 ^ k) k (w.map (· != 0)) = .ok (ds.map (oneHot (2 ^ k))).flatten := by
  refine ⟨_, decodeBits_rows (2 ^ k) k ds h h, ?_, ?_⟩
  · rw [length_flatten_of_rows k]
    · simp
    · intro r hr
      obtain ⟨d, _, rfl⟩ := List.mem_map.mp hr
      simp
  · rw [encodeBits_eq _ k hk]
    congr 1
    have hw : ((ds.map (beBits k)).flatten.map (· != 0))
        = (ds.map (fun d => (beBits k d).map (· != 0))).flatten := by
      rw [List.map_flatten, List.map_map]; rfl
    have hrl : ∀ r ∈ ds.map (fun d => (beBits k d).map (· != 0)), r.length = k := by
      intro r hr
      obtain ⟨d, _, rfl⟩ := List.mem_map.mp hr
      simp
    have hlen : ((ds.map (beBits k)).flatten.map (· != 0)).length / k = ds.length := by
      rw [hw, length_flatten_of_rows k _ hrl, List.length_map]
      exact Nat.mul_div_cancel _ (Nat.pos_of_ne_zero hk)
    rw [hlen, hw]
    have := chunks_flatten k _ hrl
    rw [List.length_map] at this
    rw [this, List.map_map]
    congr 1
    apply List.map_congr_left
    intro d hd
    simp only [Function.comp]
    rw [beVal_beBits k d (h d hd)]

end OptiVerif.Ppm
