/-
Helper lemmas for C13 (continued): elementary bounds under `QSpec` and the algebra of the Gaussian-crossing equation.
-/
import OptiVerif.Lemmas.Ber

set_option linter.unusedVariables false
set_option linter.unusedSimpArgs false
set_option linter.unnecessarySeqFocus false

namespace OptiVerif.Ber
open OptiVerif

theorem ookSum_bounds {Q : ℝ → ℝ} (hQ : QSpec Q) (mu s0 s1 r : ℝ) : 0 ≤ ookSum Q mu s0 s1 r ∧ ookSum Q mu s0 s1 r ≤ 2 := by
  simp only [ookSum]
  constructor
  · linarith [hQ.nonneg ((mu - r) / s1), hQ.nonneg (r / s0)]
  · linarith [hQ.le_one ((mu - r) / s1), hQ.le_one (r / s0)]


theorem ppm_term_bounds {Q : ℝ → ℝ} (hQ : QSpec Q) (M : ℕ) (a b : ℝ) :
    0 ≤ 1 - Q a * (1 - Q b) ^ (M - 1) ∧ 1 - Q a * (1 - Q b) ^ (M - 1) ≤ 1 := by
  have h1 : 0 ≤ 1 - Q b := by linarith [hQ.le_one b]
  have h2 : 1 - Q b ≤ 1 := by linarith [hQ.nonneg b]
  have hp0 : 0 ≤ (1 - Q b) ^ (M - 1) := pow_nonneg h1 _
  have hp1 : (1 - Q b) ^ (M - 1) ≤ 1 := pow_le_one₀ h1 h2
  have hq0 := hQ.nonneg a
  have hq1 := hQ.le_one a
  constructor <;> nlinarith [mul_nonneg hq0 hp0, mul_le_one₀ hq1 hp0 hp1]

theorem ppmFactorTheory_bounds (M : ℕ) (hM : 2 ≤ M) (pe : ℝ) (h0 : 0 ≤ pe) (h1 : pe ≤ 1) :
    0 ≤ ppmFactorTheory M pe ∧ ppmFactorTheory M pe ≤ (M : ℝ) / (2 * ((M : ℝ) - 1)) := by
  have hM' : (2 : ℝ) ≤ (M : ℝ) := by exact_mod_cast hM
  have hpos : 0 < (M : ℝ) - 1 := by linarith
  have key : ppmFactorTheory M pe = pe * ((M : ℝ) / (2 * ((M : ℝ) - 1))) := by
    simp only [ppmFactorTheory, half_real, lit_real, Nat.cast_one]
    field_simp
  have hc : 0 ≤ (M : ℝ) / (2 * ((M : ℝ) - 1)) := by positivity
  rw [key]
  exact ⟨mul_nonneg h0 hc, mul_le_of_le_one_left hc h1⟩

theorem ppmFactorEst_bounds (M : ℕ) (hM : 2 ≤ M) (pe : ℝ) (h0 : 0 ≤ pe) (h1 : pe ≤ 1) :
    0 ≤ ppmFactorEst M pe ∧ ppmFactorEst M pe ≤ (M : ℝ) / (2 * ((M : ℝ) - 1)) := by
  have hM' : (2 : ℝ) ≤ (M : ℝ) := by exact_mod_cast hM
  have hpos : 0 < (M : ℝ) - 1 := by linarith
  have key : ppmFactorEst M pe = pe * ((M : ℝ) / (2 * ((M : ℝ) - 1))) := by
    simp only [ppmFactorEst, lit_real, Nat.cast_one, Nat.cast_ofNat]
    field_simp
  have hc : 0 ≤ (M : ℝ) / (2 * ((M : ℝ) - 1)) := by positivity
  rw [key]
  exact ⟨mul_nonneg h0 hc, mul_le_of_le_one_left hc h1⟩


/-- the crossing equation in polynomial form implies the statement's `(M−1)·N(r;μ0,S0) = N(r;μ1,S1)` -/
theorem crossing_of_quadratic (m r mu0 mu1 S0 S1 : ℝ) (hS0 : 0 < S0) (hS1 : 0 < S1) (hm : 0 < m)
    (hq : S0 * (r - mu1) ^ 2 - S1 * (r - mu0) ^ 2 + 2 * S0 * S1 * Real.log (Real.sqrt S1 / Real.sqrt S0 * m) = 0) :
    m * normalPdf r mu0 S0 = normalPdf r mu1 S1 := by
  have hs0 : 0 < Real.sqrt S0 := Real.sqrt_pos.mpr hS0
  have hs1 : 0 < Real.sqrt S1 := Real.sqrt_pos.mpr hS1
  have h2pi : 0 < Real.sqrt (2 * Real.pi) := Real.sqrt_pos.mpr (by positivity)
  have hL : Real.exp (Real.log (Real.sqrt S1 / Real.sqrt S0 * m)) = Real.sqrt S1 / Real.sqrt S0 * m :=
    Real.exp_log (by positivity)
  generalize Real.log (Real.sqrt S1 / Real.sqrt S0 * m) = L at hq hL
  have hexp : -((r - mu1) * (r - mu1)) / (2 * S1) = -((r - mu0) * (r - mu0)) / (2 * S0) + L := by
    field_simp
    linear_combination (-1) * hq
  simp only [normalPdf, lit_real, Nat.cast_ofNat, Transc.exp_real, Transc.sqrt_real, Transc.pi_real]
  rw [hexp, Real.exp_add, hL]
  have r0 : Real.sqrt (2 * Real.pi * S0) = Real.sqrt (2 * Real.pi) * Real.sqrt S0 := Real.sqrt_mul (by positivity) _
  have r1 : Real.sqrt (2 * Real.pi * S1) = Real.sqrt (2 * Real.pi) * Real.sqrt S1 := Real.sqrt_mul (by positivity) _
  rw [r0, r1]
  field_simp


end OptiVerif.Ber
