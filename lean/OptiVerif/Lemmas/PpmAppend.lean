/-
Reshaping commutes with concatenation at a row boundary (for the PPM codec's homomorphism theorems).
-/
import OptiVerif.Lemmas.PpmList

namespace OptiVerif.Ppm
variable {α : Type}

theorem chunks_append (m n1 n2 : Nat) (l1 l2 : List α) (h : l1.length = n1 * m) :
    chunks m (n1 + n2) (l1 ++ l2) = chunks m n1 l1 ++ chunks m n2 l2 := by
  induction n1 generalizing l1 with
  | zero =>
    have : l1 = [] := List.eq_nil_of_length_eq_zero (by simpa using h)
    subst this
    simp [chunks]
  | succ n ih =>
    have hm : m ≤ l1.length := by rw [h, Nat.succ_mul]; omega
    have e : n + 1 + n2 = (n + n2) + 1 := by omega
    rw [e]
    simp only [chunks]
    rw [List.take_append_of_le_length hm, List.drop_append_of_le_length hm,
      ih (l1.drop m) (by rw [List.length_drop, h, Nat.succ_mul]; omega)]
    rfl

end OptiVerif.Ppm

namespace OptiVerif.Ppm

/-- the decoder reduces positions mod `M`: a start offset that is a multiple of `M` is invisible -/
theorem mapM_onIdxFrom_shift (M k c : Nat) (i : Nat) (s : List Bool) :
    (onIdxFrom (i + c * M) s).mapM (fun p => dec2bin (p % M) k) = (onIdxFrom i s).mapM (fun p => dec2bin (p % M) k) := by
  induction s generalizing i with
  | nil => rfl
  | cons b bs ih =>
    have e : i + c * M + 1 = (i + 1) + c * M := by omega
    cases b
    · simp only [onIdxFrom, Bool.false_eq_true, if_false]
      rw [e]; exact ih (i + 1)
    · simp only [onIdxFrom, if_true, List.mapM_cons]
      rw [Nat.add_mul_mod_self_right, e, ih (i + 1)]

/-- the decoder is a homomorphism at symbol boundaries -/
theorem decodeBits_append (M k : Nat) (s₁ s₂ : List Bool) (h : s₁.length % M = 0) :
    decodeBits M k (s₁ ++ s₂) = (do let a ← decodeBits M k s₁; let b ← decodeBits M k s₂; pure (a ++ b)) := by
  obtain ⟨c, hc⟩ := Nat.dvd_of_mod_eq_zero h
  unfold decodeBits onIdx
  rw [onIdxFrom_append, hc, Nat.mul_comm M c, List.mapM_append, mapM_onIdxFrom_shift M k c 0 s₂]
  cases (onIdxFrom 0 s₁).mapM (fun p => dec2bin (p % M) k) with
  | error e => rfl
  | ok a =>
    cases (onIdxFrom 0 s₂).mapM (fun p => dec2bin (p % M) k) with
    | error e => rfl
    | ok b => simp [bind, Except.bind, pure, Except.pure]

end OptiVerif.Ppm
