/-
Helper lemmas for C05 (DAC / SAMPLER): indexing into slot-expanded lists and strided slices.
-/
import Mathlib.Tactic.Ring
import Mathlib.Tactic.Linarith
import Mathlib.Tactic.Positivity
import Mathlib.Algebra.Order.Field.Rat
import Mathlib.Data.List.Basic
import OptiVerif.Model.Dac

namespace OptiVerif.Dac

/-! ### slot expansion -/

/-- indexing into a concatenation of blocks of equal length `n`: sample `i` of block `j` -/
theorem getElem?_flatMap_block {α β : Type} (g : α → List β) (n : Nat) (hg : ∀ a, (g a).length = n)
    (l : List α) (j i : Nat) (hi : i < n) :
    (l.flatMap g)[j * n + i]? = l[j]?.bind (fun a => (g a)[i]?) := by
  induction l generalizing j with
  | nil => simp
  | cons a l ih =>
    rw [List.flatMap_cons]
    cases j with
    | zero =>
      have : i < (g a).length := by rw [hg]; exact hi
      simp [List.getElem?_append_left this]
    | succ j =>
      have h1 : (g a).length ≤ (j + 1) * n + i := by rw [hg]; nlinarith
      rw [List.getElem?_append_right h1, hg]
      have : (j + 1) * n + i - n = j * n + i := by
        have : (j + 1) * n = j * n + n := by ring
        omega
      rw [this, ih]
      simp

theorem length_flatMap_block {α β : Type} (g : α → List β) (n : Nat) (hg : ∀ a, (g a).length = n) (l : List α) :
    (l.flatMap g).length = l.length * n := by
  induction l with
  | nil => simp
  | cons a l ih => rw [List.flatMap_cons, List.length_append, ih, hg, List.length_cons]; ring

theorem length_kron (bits : List Nat) (sps : Nat) : (kron bits sps).length = bits.length * sps :=
  length_flatMap_block _ sps (fun _ => List.length_replicate) bits

theorem getElem?_kron (bits : List Nat) (sps j i : Nat) (hi : i < sps) :
    (kron bits sps)[j * sps + i]? = bits[j]?.map (fun b => (b : Rat)) := by
  unfold kron
  rw [getElem?_flatMap_block _ sps (fun _ => List.length_replicate) bits j i hi]
  cases bits[j]? with
  | none => rfl
  | some b => simp [hi]

theorem length_rzPulse (sps : Nat) : (rzPulse sps).length = sps := by simp [rzPulse]

theorem getElem?_rzPulse (sps i : Nat) (hi : i < sps) :
    (rzPulse sps)[i]? = some (if i < Gen.DacLimits.rzDuty sps then 1 else 0) := by
  simp [rzPulse, hi]

theorem tile_eq_flatMap (p : List Rat) (n : Nat) : tile p n = (List.replicate n ()).flatMap (fun _ => p) := by
  unfold tile
  induction n with
  | zero => simp
  | succ n ih => simp [List.replicate_succ, ih]

theorem length_tile (p : List Rat) (n : Nat) : (tile p n).length = n * p.length := by
  rw [tile_eq_flatMap, length_flatMap_block _ p.length (fun _ => rfl)]; simp

theorem getElem?_tile (p : List Rat) (n j i : Nat) (hi : i < p.length) (hj : j < n) :
    (tile p n)[j * p.length + i]? = p[i]? := by
  rw [tile_eq_flatMap, getElem?_flatMap_block _ p.length (fun _ => rfl) _ j i hi]
  simp [hj]

/-! ### strided slices -/

theorem filterMap_range_eq_map {β : Type} (f : Nat → Option β) (g : Nat → β) (n : Nat)
    (h : ∀ m, m < n → f m = some (g m)) : (List.range n).filterMap f = (List.range n).map g := by
  induction n with
  | zero => simp
  | succ n ih =>
    rw [List.range_succ, List.filterMap_append, List.map_append, ih (fun m hm => h m (by omega))]
    simp [h n (by omega)]

/-- every index the slice visits is inside the list -/
theorem slice_index_lt (len start step m : Nat) (hs : 0 < step) (hm : m < sliceCount len start step) :
    start + m * step < len := by
  unfold sliceCount at hm
  split at hm
  · omega
  · rename_i h
    have h1 : (m + 1) ≤ (len - start + step - 1) / step := hm
    have h2 : (m + 1) * step ≤ len - start + step - 1 := (Nat.le_div_iff_mul_le hs).mp h1
    have : (m + 1) * step = m * step + step := by ring
    omega

/-- … and it visits every such index -/
theorem lt_sliceCount (len start step m : Nat) (hs : 0 < step) (h : start + m * step < len) :
    m < sliceCount len start step := by
  unfold sliceCount
  have : ¬ start ≥ len := by
    have : 0 ≤ m * step := Nat.zero_le _
    omega
  rw [if_neg this]
  show m + 1 ≤ _
  rw [Nat.le_div_iff_mul_le hs]
  have : (m + 1) * step = m * step + step := by ring
  omega

theorem slice_eq_map {α : Type} (xs : List α) (start step : Nat) (hs : 0 < step) (d : α) :
    slice xs start step =
      (List.range (sliceCount xs.length start step)).map (fun m => xs.getD (start + m * step) d) := by
  unfold slice
  apply filterMap_range_eq_map
  intro m hm
  have := slice_index_lt xs.length start step m hs hm
  simp [List.getD_eq_getElem?_getD, List.getElem?_eq_getElem this]

theorem length_slice {α : Type} (xs : List α) (start step : Nat) (hs : 0 < step) :
    (slice xs start step).length = sliceCount xs.length start step := by
  cases xs with
  | nil => simp [slice, sliceCount]
  | cons x xs => rw [slice_eq_map _ _ _ hs x]; simp

theorem getElem?_slice {α : Type} (xs : List α) (start step m : Nat) (hs : 0 < step) :
    (slice xs start step)[m]? = if start + m * step < xs.length then xs[start + m * step]? else none := by
  cases xs with
  | nil => simp [slice]
  | cons x xs =>
    rw [slice_eq_map _ _ _ hs x]
    by_cases h : start + m * step < (x :: xs).length
    · have hm := lt_sliceCount _ _ _ _ hs h
      rw [if_pos h, List.getElem?_map, List.getElem?_range hm]
      simp [List.getD_eq_getElem?_getD, List.getElem?_eq_getElem h]
    · rw [if_neg h]
      apply List.getElem?_eq_none
      rw [List.length_map, List.length_range]
      by_contra hc
      exact h (slice_index_lt _ _ _ _ hs (by omega))

/-- one sample per slot: a slice of stride `sps` starting inside the first slot has one element per slot -/
theorem sliceCount_slots (n sps k : Nat) (hk : k < sps) : sliceCount (n * sps) k sps = n := by
  unfold sliceCount
  cases n with
  | zero => simp
  | succ n =>
    have h1 : ¬ k ≥ (n + 1) * sps := by
      have : (n + 1) * sps = n * sps + sps := by ring
      omega
    rw [if_neg h1]
    have hs : 0 < sps := by omega
    have e : (n + 1) * sps = n * sps + sps := by ring
    apply Nat.div_eq_of_lt_le
    · rw [e]; omega
    · have : (n + 1 + 1) * sps = n * sps + sps + sps := by ring
      rw [this, e]; omega

/-! ### inversion of accepted requests -/
open OptiVerif.Gen.DacLimits

theorem ratAbs_eq_abs (q : ℚ) : ratAbs q = |q| := by
  unfold ratAbs
  split
  · rw [abs_of_neg (by assumption)]
  · rw [abs_of_nonneg (by linarith)]

/-- the numeric value the ladder applies for `Vout` / `bias`: `None` is skipped, numbers are taken as they are -/
theorem checkLevel_ok {v : PyVal} {tys tyErr bad badErr r}
    (h : checkLevel v tys tyErr bad badErr = .ok r) : r = v.toRat? := by
  unfold checkLevel at h
  split at h
  · simp at h; subst h; rfl
  · split at h
    · simp at h
    · split at h
      · rename_i q hq
        split at h
        · simp at h
        · simp at h; rw [← h, hq]
      · simp at h

theorem validate_ok {bitsOk shape sps c m T vout bias v b}
    (h : validate bitsOk shape sps c m T vout bias = .ok (v, b)) :
    v = vout.toRat? ∧ b = bias.toRat? := by
  unfold validate at h
  simp only [bind, Except.bind, pure, Except.pure] at h
  repeat' split at h
  all_goals first
    | (simp only [reduceCtorEq] at h)
    | (simp only [Except.ok.injEq, Prod.mk.injEq] at h
       obtain ⟨rfl, rfl⟩ := h
       exact ⟨checkLevel_ok (by assumption), checkLevel_ok (by assumption)⟩)

/-- inversion of an accepted NRZ/RZ request: the result is the scaled slot expansion, and it is not empty -/
theorem dac_ok {bits sh sps c m T vout bias y}
    (h : dac bits (some sh) sps c m T vout bias = .ok (some y)) :
    ∃ x, wave sh bits sps = some x ∧ y = scale x vout.toRat? bias.toRat? ∧ y ≠ [] := by
  unfold dac at h
  cases hv : validate (bits.all (· ≤ 1)) (some sh) sps c m T vout bias with
  | error e => simp [hv, bind, Except.bind] at h
  | ok vb =>
    obtain ⟨v, b⟩ := vb
    obtain ⟨rfl, rfl⟩ := validate_ok hv
    simp only [hv, bind, Except.bind] at h
    cases hw : wave sh bits sps with
    | none => simp [hw, pure, Except.pure] at h
    | some x =>
      simp only [hw] at h
      split at h
      · simp [throw, throwThe, MonadExceptOf.throw] at h
      · rename_i hne
        simp only [pure, Except.pure, Except.ok.injEq, Option.some.injEq] at h
        refine ⟨x, rfl, h.symm, ?_⟩
        subst h
        simpa using hne

/-- sampling a slot-periodic waveform at an instant `k < sps`: one sample per slot, sample `j` is sample `k` of slot `j` -/
theorem slice_slots (y : List ℚ) (l : List ℕ) (sps k : ℕ) (hk : k < sps) (hy : y.length = l.length * sps) (g : ℕ → ℚ)
    (hf : ∀ j (hj : j < l.length), y[j * sps + k]? = some (g l[j])) :
    slice y k sps = l.map g := by
  have hs : 0 < sps := by omega
  apply List.ext_getElem?
  intro j
  rw [getElem?_slice _ _ _ _ hs, hy, List.getElem?_map]
  by_cases hj : j < l.length
  · have : k + j * sps < l.length * sps := by
      have : (j + 1) * sps ≤ l.length * sps := Nat.mul_le_mul_right _ hj
      have e : (j + 1) * sps = j * sps + sps := by ring
      omega
    rw [if_pos this, Nat.add_comm, hf j hj, List.getElem?_eq_getElem hj]
    rfl
  · have : ¬ k + j * sps < l.length * sps := by
      have : l.length * sps ≤ j * sps := Nat.mul_le_mul_right _ (by omega)
      omega
    rw [if_neg this, List.getElem?_eq_none (by omega)]
    rfl

end OptiVerif.Dac
