/-
Helper lemmas for C09: the generic model `Model/Pd.lean` read at `R := ℝ`.
-/
import OptiVerif.Model.Pd
import OptiVerif.Lemmas.NumReal
import Mathlib.Analysis.SpecialFunctions.Pow.Real

set_option linter.unusedSectionVars false
set_option linter.unusedVariables false
set_option linter.unnecessarySeqFocus false

namespace OptiVerif.Pd
open OptiVerif

/-! ### dB helper and complex basics at ℝ -/

theorem pow10_real (x : ℝ) : pow10 x = (10 : ℝ) ^ x := by
  simp only [pow10, Transc.exp_real, Transc.log_real]
  rw [Real.rpow_def_of_pos (by norm_num : (0:ℝ) < 10)]
  congr 1
  push_cast
  ring

theorem idb_real (x : ℝ) : idb x = (10 : ℝ) ^ (x / 10) := by
  simp only [idb, pow10_real]; norm_num

theorem idb_pos (x : ℝ) : 0 < (idb x : ℝ) := by
  rw [idb_real]; exact Real.rpow_pos_of_pos (by norm_num) _

theorem one_le_idb {x : ℝ} (hx : 0 ≤ x) : 1 ≤ (idb x : ℝ) := by
  rw [idb_real]
  exact Real.one_le_rpow (by norm_num) (by positivity)

theorem cx_normSq_nonneg (a : Cx ℝ) : 0 ≤ a.normSq := by
  simp only [Cx.normSq]; nlinarith [mul_self_nonneg a.re, mul_self_nonneg a.im]

theorem cx_normSq_mul_cis (a : Cx ℝ) (θ : ℝ) : (a * Cx.cis θ).normSq = a.normSq := by
  rw [Cx.normSq_mul, Cx.normSq_cis, mul_one]

/-! ### translated literals and comparisons at ℝ -/

theorem ofRat_real (q : ℚ) : (ofRat q : ℝ) = (q : ℝ) := by
  simp only [ofRat]
  rw [Rat.cast_def]

@[simp] theorem ofRat_zero : (ofRat (0 : ℚ) : ℝ) = 0 := by rw [ofRat_real]; simp
@[simp] theorem ofRat_one : (ofRat (1 : ℚ) : ℝ) = 1 := by rw [ofRat_real]; simp

/-! ### sample-wise quantities -/

theorem cabs_mul_self (z : Cx ℝ) : cabs z * cabs z = z.normSq := by
  simp only [cabs, Transc.sqrt_real]
  exact Real.mul_self_sqrt (cx_normSq_nonneg z)

theorem gen_iSig (r : ℝ) (z : Cx ℝ) : Gen.PdTable.iSig r (cabs z) = r * z.normSq := by
  simp only [Gen.PdTable.iSig, cabs_mul_self]

theorem gen_iNN (r : ℝ) (z : Cx ℝ) : Gen.PdTable.iNN r (cabs z) = r * z.normSq := by
  simp only [Gen.PdTable.iNN, cabs_mul_self]

/-- `|Ex|² + |Ey|²` per sample -/
def powerRow : Rows (Cx ℝ) → List ℝ
  | .one a => a.map Cx.normSq
  | .two a b => List.zipWith (· + ·) (a.map Cx.normSq) (b.map Cx.normSq)

/-- `2·Re(Ex·conj nx) + 2·Re(Ey·conj ny)` per sample -/
def beatRow : Rows (Cx ℝ) → Rows (Cx ℝ) → List ℝ
  | .one s, .one n => List.zipWith beat s n
  | .two sx sy, .two nx ny => List.zipWith (· + ·) (List.zipWith beat sx nx) (List.zipWith beat sy ny)
  | _, _ => []

theorem beat_eq (s n : Cx ℝ) : beat s n = 2 * (s.re * n.re + s.im * n.im) := by
  simp [beat, Cx.conj]; ring

/-- same layout, all rows of length `n` -/
def SameShape (n : ℕ) : Rows (Cx ℝ) → Rows (Cx ℝ) → Prop
  | .one a, .one b => a.length = n ∧ b.length = n
  | .two a a', .two b b' => a.length = n ∧ a'.length = n ∧ b.length = n ∧ b'.length = n
  | _, _ => False

/-- what the constructor of `optical_signal` guarantees: rows of equal length `n`, noise (if any) of the signal's shape -/
def FieldOK (n : ℕ) (x : Pd.Field (Cx ℝ)) : Prop :=
  x.sig.Shaped n ∧ ∀ nz, x.noise = some nz → SameShape n x.sig nz

theorem FieldOK.len {n : ℕ} {x : Pd.Field (Cx ℝ)} (h : FieldOK n x) : x.sig.len = n := by
  obtain ⟨h1, _⟩ := h
  cases hx : x.sig <;> rw [hx] at h1 <;> simp only [Rows.Shaped, Rows.len] at * <;> first | exact h1 | exact h1.1

theorem length_zipAdd (a b : List ℝ) : (zipAdd a b).length = min a.length b.length := by
  simp [zipAdd]

theorem zipAdd_map_mul (c : ℝ) (a b : List ℝ) :
    zipAdd (a.map (c * ·)) (b.map (c * ·)) = (zipAdd a b).map (c * ·) := by
  induction a generalizing b with
  | nil => simp [zipAdd]
  | cons x xs ih =>
    cases b with
    | nil => simp [zipAdd]
    | cons y ys =>
      have := ih ys
      simp only [zipAdd] at this ⊢
      simp [this, mul_add]

theorem iSig_eq (r : ℝ) (rows : Rows (Cx ℝ)) : iSig r rows = (powerRow rows).map (r * ·) := by
  cases rows with
  | one a => simp [iSig, powerRow, gen_iSig]
  | two a b =>
    simp only [iSig, powerRow, gen_iSig]
    have := zipAdd_map_mul r (a.map Cx.normSq) (b.map Cx.normSq)
    simp only [List.map_map, zipAdd] at this
    simpa [zipAdd, Function.comp_def] using this

theorem iNN_eq (r : ℝ) (rows : Rows (Cx ℝ)) : iNN r rows = (powerRow rows).map (r * ·) := by
  cases rows with
  | one a => simp [iNN, powerRow, gen_iNN]
  | two a b =>
    simp only [iNN, powerRow, gen_iNN]
    have := zipAdd_map_mul r (a.map Cx.normSq) (b.map Cx.normSq)
    simp only [List.map_map, zipAdd] at this
    simpa [zipAdd, Function.comp_def] using this

theorem zipWith_mul_beat (r : ℝ) (s n : List (Cx ℝ)) :
    List.zipWith (fun a b => r * beat a b) s n = (List.zipWith beat s n).map (r * ·) := by
  rw [List.map_zipWith]

theorem iSN_eq (r : ℝ) (s nz : Rows (Cx ℝ)) : iSN r s nz = (beatRow s nz).map (r * ·) := by
  cases s with
  | one a =>
    cases nz with
    | one b => exact zipWith_mul_beat r a b
    | two b b' => rfl
  | two a a' =>
    cases nz with
    | one b => rfl
    | two b b' =>
      show zipAdd (List.zipWith (fun a b => r * beat a b) a b) (List.zipWith (fun a b => r * beat a b) a' b') = _
      rw [zipWith_mul_beat, zipWith_mul_beat]
      exact zipAdd_map_mul r _ _

theorem length_powerRow {n : ℕ} {rows : Rows (Cx ℝ)} (h : rows.Shaped n) : (powerRow rows).length = n := by
  cases rows <;> simp only [Rows.Shaped, powerRow] at * <;> simp [h]

theorem length_beatRow {n : ℕ} {s nz : Rows (Cx ℝ)} (h : SameShape n s nz) : (beatRow s nz).length = n := by
  cases s <;> cases nz <;> simp only [SameShape, beatRow] at * <;> simp [h]

theorem shaped_of_sameShape {n : ℕ} {s nz : Rows (Cx ℝ)} (h : SameShape n s nz) : nz.Shaped n := by
  cases s <;> cases nz <;> simp only [SameShape, Rows.Shaped] at * <;> simp [h]

/-! ### sums and means -/

theorem foldl_add_eq (xs : List ℝ) (a : ℝ) : xs.foldl (· + ·) a = a + xs.sum := by
  induction xs generalizing a with
  | nil => simp
  | cons x xs ih => simp [ih, add_assoc]

theorem sumL_eq (xs : List ℝ) : sumL xs = xs.sum := by
  simp [sumL, foldl_add_eq]

theorem sum_map_mul (c : ℝ) (xs : List ℝ) : (xs.map (c * ·)).sum = c * xs.sum := by
  induction xs with
  | nil => simp
  | cons x xs ih => simp [ih, mul_add]

theorem mean_map_mul (c : ℝ) (xs : List ℝ) : mean (xs.map (c * ·)) = c * mean xs := by
  simp only [mean, sumL_eq, sum_map_mul, List.length_map]
  ring

theorem sum_zipWith_add (a b : List ℝ) (h : a.length = b.length) :
    (List.zipWith (· + ·) a b).sum = a.sum + b.sum := by
  induction a generalizing b with
  | nil => cases b <;> simp_all
  | cons x xs ih =>
    cases b with
    | nil => simp at h
    | cons y ys =>
      simp only [List.length_cons, add_left_inj] at h
      simp [ih ys h]; ring

theorem mean_zipWith_add (a b : List ℝ) (h : a.length = b.length) :
    mean (List.zipWith (· + ·) a b) = mean a + mean b := by
  simp only [mean, sumL_eq, sum_zipWith_add a b h, List.length_zipWith, h, min_self]
  ring

theorem mean_replicate (n : ℕ) (hn : n ≠ 0) (c : ℝ) : mean (List.replicate n c) = c := by
  simp only [mean, sumL_eq, List.sum_replicate, List.length_replicate, nsmul_eq_mul]
  field_simp

/-- `input.power('noise').sum()` = mean over the record of `|nx|² + |ny|²` -/
theorem noisePowerSum_eq {n : ℕ} (nz : Rows (Cx ℝ)) (h : nz.Shaped n) : noisePowerSum nz = mean (powerRow nz) := by
  cases nz with
  | one a => simp [noisePowerSum, powerRow, cabs_mul_self]
  | two a b =>
    simp only [Rows.Shaped] at h
    simp only [noisePowerSum, powerRow, cabs_mul_self]
    rw [mean_zipWith_add _ _ (by simp [h.1, h.2])]

/-! ### `zipAdd` algebra -/

theorem zipAdd_comm (a b : List ℝ) : zipAdd a b = zipAdd b a := by
  induction a generalizing b with
  | nil => cases b <;> simp [zipAdd]
  | cons x xs ih =>
    cases b with
    | nil => simp [zipAdd]
    | cons y ys =>
      have := ih ys
      simp only [zipAdd] at this ⊢
      simp [this, add_comm]

theorem zipAdd_assoc (a b c : List ℝ) : zipAdd (zipAdd a b) c = zipAdd a (zipAdd b c) := by
  induction a generalizing b c with
  | nil => simp [zipAdd]
  | cons x xs ih =>
    cases b with
    | nil => simp [zipAdd]
    | cons y ys =>
      cases c with
      | nil => simp [zipAdd]
      | cons z zs =>
        have := ih ys zs
        simp only [zipAdd] at this ⊢
        simp [this, add_assoc]

theorem zipAdd_zeros_left (n : ℕ) (a : List ℝ) (h : a.length = n) : zipAdd (List.replicate n 0) a = a := by
  induction a generalizing n with
  | nil => simp [zipAdd]
  | cons x xs ih =>
    cases n with
    | zero => simp at h
    | succ m =>
      simp only [List.length_cons, add_left_inj] at h
      have := ih m h
      simp only [zipAdd] at this ⊢
      simp [List.replicate_succ, this]

theorem zipAdd_zeros_right (n : ℕ) (a : List ℝ) (h : a.length = n) : zipAdd a (List.replicate n 0) = a := by
  rw [zipAdd_comm, zipAdd_zeros_left n a h]

/-! ### the decision tables on the seven documented options -/

theorem decode_ase_only : decode "ase-only".toList = ⟨false, false, true, some ["i_s_n", "i_n_n", "i_dark"]⟩ := by decide
theorem decode_thermal_only : decode "thermal-only".toList = ⟨true, false, false, some ["i_T", "i_dark"]⟩ := by decide
theorem decode_shot_only : decode "shot-only".toList = ⟨false, true, false, some ["i_N", "i_dark"]⟩ := by decide
theorem decode_ase_shot : decode "ase-shot".toList = ⟨false, true, true, some ["i_s_n", "i_n_n", "i_N", "i_dark"]⟩ := by decide
theorem decode_ase_thermal : decode "ase-thermal".toList = ⟨true, false, true, some ["i_s_n", "i_n_n", "i_T", "i_dark"]⟩ := by
  decide
theorem decode_thermal_shot : decode "thermal-shot".toList = ⟨true, true, false, some ["i_T", "i_N", "i_dark"]⟩ := by decide
theorem decode_all : decode "all".toList = ⟨true, true, true, some ["i_s_n", "i_n_n", "i_N", "i_T", "i_dark"]⟩ := by decide

end OptiVerif.Pd
