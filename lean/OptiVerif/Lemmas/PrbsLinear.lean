/-
GF(2) linear algebra of the LFSR step and soundness of the executable certificate (C04).
-/
import OptiVerif.Model.PrbsCert
import Mathlib.Tactic.Ring
import Mathlib.Tactic.Linarith
import Mathlib.Logic.Function.Iterate

namespace OptiVerif.PrbsCert

theorem step_lt (n t s : Nat) : step n t s < 2^n := by
  unfold step
  have : 0 < 2^n := Nat.pos_of_ne_zero (by positivity)
  exact Nat.lt_of_le_of_lt Nat.and_le_right (by omega)

theorem step_zero (n t : Nat) : step n t 0 = 0 := by simp [step]

theorem step_xor (n t a b : Nat) : step n t (a ^^^ b) = step n t a ^^^ step n t b := by
  apply Nat.eq_of_testBit_eq
  intro i
  simp only [step, Nat.testBit_and, Nat.testBit_or, Nat.testBit_xor, Nat.testBit_shiftLeft,
    Nat.testBit_shiftRight, Nat.testBit_two_pow_sub_one]
  rcases Nat.eq_zero_or_pos i with hi | hi
  · subst hi
    simp
    generalize (decide (0 < n)) = p
    generalize a.testBit (n-1) = a2
    generalize b.testBit (n-1) = b2
    generalize a.testBit (t-1) = a3
    generalize b.testBit (t-1) = b3
    cases p <;> cases a2 <;> cases b2 <;> cases a3 <;> cases b3 <;> rfl
  · have h1 : (1:Nat).testBit i = false := by
      have hne : i ≠ 0 := by omega
      cases h : (1:Nat).testBit i
      · rfl
      · exact absurd (Nat.testBit_one_eq_true_iff_self_eq_zero.mp h) hne
    have h2 : decide (i ≥ 1) = true := by
      have : i ≥ 1 := hi
      simp [this]
    simp only [h1, h2]
    generalize (decide (i < n)) = p
    generalize a.testBit (i-1) = a1
    generalize b.testBit (i-1) = b1
    cases p <;> cases a1 <;> cases b1 <;> simp

theorem applyM_zero (m : Mat) : applyM m 0 = 0 := by
  induction m with
  | nil => rfl
  | cons c cs ih => simp [applyM, ih]

theorem applyM_xor (m : Mat) (a b : Nat) : applyM m (a ^^^ b) = applyM m a ^^^ applyM m b := by
  induction m generalizing a b with
  | nil => simp [applyM]
  | cons c cs ih =>
    simp only [applyM, Nat.testBit_xor, Nat.shiftRight_xor_distrib, ih]
    cases ha : a.testBit 0 <;> cases hb : b.testBit 0 <;> simp
    · ac_rfl
    · ac_rfl
    · have : c ^^^ applyM cs (a >>> 1) ^^^ (c ^^^ applyM cs (b >>> 1)) = (c ^^^ c) ^^^ (applyM cs (a >>> 1) ^^^ applyM cs (b >>> 1)) := by ac_rfl
      rw [this]; simp

theorem applyM_mul (a b : Mat) (v : Nat) : applyM (mulM a b) v = applyM a (applyM b v) := by
  induction b generalizing v with
  | nil => simp [mulM, applyM, applyM_zero]
  | cons c cs ih =>
    simp only [mulM, List.map_cons, applyM] at *
    rw [applyM_xor, ih]
    cases v.testBit 0 <;> simp [applyM_zero]

theorem applyM_colsFrom (f : Nat → Nat) (hf : ∀ a b, f (a ^^^ b) = f a ^^^ f b) (h0 : f 0 = 0)
    (k n v : Nat) : applyM (colsFrom f k n) v = f ((v % 2^n) <<< k) := by
  induction n generalizing k v with
  | zero => simp [colsFrom, applyM, Nat.mod_one, h0]
  | succ n ih =>
    simp only [colsFrom, applyM]
    rw [ih]
    have key : (v % 2^(n+1)) <<< k = (if v.testBit 0 then 2^k else 0) ^^^ ((v >>> 1) % 2^n) <<< (k+1) := by
      apply Nat.eq_of_testBit_eq
      intro i
      simp only [Nat.testBit_shiftLeft, Nat.testBit_mod_two_pow, Nat.testBit_xor, Nat.testBit_shiftRight]
      by_cases hv : v.testBit 0
      · simp only [hv, if_true, Nat.testBit_two_pow]
        rcases Nat.lt_trichotomy i k with h | h | h
        · have h1 : ¬ (i ≥ k) := by omega
          have h2 : ¬ (i ≥ k+1) := by omega
          have h3 : ¬ (k = i) := by omega
          simp [h1, h2, h3]
        · subst h
          simp [hv]
        · have h1 : i ≥ k := by omega
          have h2 : i ≥ k+1 := by omega
          have h3 : ¬ (k = i) := by omega
          have h4 : 1 + (i - (k+1)) = i - k := by omega
          have h5 : (i - k < n + 1) = (i - (k+1) < n) := by
            apply propext; constructor <;> intro <;> omega
          simp [h1, h2, h3, h4, h5]
      · have hv' : v.testBit 0 = false := by simpa using hv
        simp only [hv', Bool.false_eq_true, if_false, Nat.zero_testBit, Bool.false_xor]
        rcases Nat.lt_trichotomy i k with h | h | h
        · have h1 : ¬ (i ≥ k) := by omega
          have h2 : ¬ (i ≥ k+1) := by omega
          simp [h1, h2]
        · subst h
          simp [hv']
        · have h1 : i ≥ k := by omega
          have h2 : i ≥ k+1 := by omega
          have h4 : 1 + (i - (k+1)) = i - k := by omega
          have h5 : (i - k < n + 1) = (i - (k+1) < n) := by
            apply propext; constructor <;> intro <;> omega
          simp [h1, h2, h4, h5]
    rw [key, hf]
    cases v.testBit 0 <;> simp [h0]

theorem length_colsFrom (f : Nat → Nat) (k n : Nat) : (colsFrom f k n).length = n := by
  induction n generalizing k with
  | zero => rfl
  | succ n ih => simp [colsFrom, ih]

theorem applyM_idM (n v : Nat) : applyM (idM n) v = v % 2^n := by
  unfold idM
  rw [applyM_colsFrom id (fun _ _ => rfl) rfl]
  simp

theorem applyM_stepM (n t v : Nat) : applyM (stepM n t) v = step n t (v % 2^n) := by
  unfold stepM
  rw [applyM_colsFrom (step n t) (step_xor n t) (step_zero n t)]
  simp

theorem applyM_zipWith_xor (a b : Mat) (h : a.length = b.length) (v : Nat) :
    applyM (List.zipWith (· ^^^ ·) a b) v = applyM a v ^^^ applyM b v := by
  induction a generalizing b v with
  | nil =>
    cases b with
    | nil => simp [applyM]
    | cons y ys => simp at h
  | cons x xs ih =>
    cases b with
    | nil => simp at h
    | cons y ys =>
      simp only [List.length_cons, Nat.add_right_cancel_iff] at h
      simp only [List.zipWith_cons_cons, applyM, ih ys h]
      cases v.testBit 0 <;> simp
      · ac_rfl

theorem applyM_addI (n : Nat) (m : Mat) (h : m.length = n) (v : Nat) :
    applyM (addI n m) v = applyM m v ^^^ (v % 2^n) := by
  unfold addI
  rw [applyM_zipWith_xor _ _ (by simp [idM, length_colsFrom, h]), applyM_idM]

theorem length_mulM (a b : Mat) : (mulM a b).length = b.length := by simp [mulM]

theorem length_powM (n : Nat) (m : Mat) (hm : m.length = n) (f k : Nat) : (powM n m f k).length = n := by
  induction f generalizing k with
  | zero => simp [powM, idM, length_colsFrom]
  | succ f ih =>
    simp only [powM]
    split
    · simp [idM, length_colsFrom]
    · split
      · simp [length_mulM, hm]
      · simp [length_mulM, ih]

/-- `powM` computes the k-th iterate of the map, on vectors below `2^n`, provided the map stays below `2^n` -/
theorem applyM_powM (n : Nat) (m : Mat) (hrange : ∀ v, applyM m v < 2^n) (f : Nat) :
    ∀ k, k < 2^f → ∀ v, v < 2^n → applyM (powM n m f k) v = (applyM m)^[k] v := by
  have iter_lt : ∀ k v, v < 2^n → (applyM m)^[k] v < 2^n := by
    intro k
    induction k with
    | zero => intro v hv; simpa using hv
    | succ k ih => intro v hv; rw [Function.iterate_succ_apply]; exact ih _ (hrange v)
  induction f with
  | zero =>
    intro k hk v hv
    have : k = 0 := by omega
    subst this
    simp [powM, applyM_idM, Nat.mod_eq_of_lt hv]
  | succ f ih =>
    intro k hk v hv
    simp only [powM]
    split
    · next h0 => subst h0; simp [applyM_idM, Nat.mod_eq_of_lt hv]
    · next h0 =>
      have hk2 : k / 2 < 2^f := by
        have : 2^(f+1) = 2 * 2^f := by ring
        omega
      split
      · next hodd =>
        rw [applyM_mul, applyM_mul, ih _ hk2 _ (hrange v), ih _ hk2 _ (iter_lt _ _ (hrange v)),
          ← Function.iterate_add_apply, ← Function.iterate_succ_apply]
        congr 1; omega
      · next heven =>
        rw [applyM_mul, ih _ hk2 _ hv, ih _ hk2 _ (iter_lt _ _ hv), ← Function.iterate_add_apply]
        congr 1; omega

theorem applyM_stepM_lt (n t v : Nat) : applyM (stepM n t) v < 2^n := by
  rw [applyM_stepM]; exact step_lt _ _ _

theorem iterate_step_lt (n t k s : Nat) (hs : s < 2^n) : (step n t)^[k] s < 2^n := by
  induction k generalizing s with
  | zero => simpa using hs
  | succ k ih => rw [Function.iterate_succ_apply]; exact ih _ (step_lt _ _ _)

theorem iterate_stepM (n t k s : Nat) (hs : s < 2^n) :
    (applyM (stepM n t))^[k] s = (step n t)^[k] s := by
  induction k generalizing s with
  | zero => rfl
  | succ k ih =>
    rw [Function.iterate_succ_apply, Function.iterate_succ_apply, applyM_stepM, Nat.mod_eq_of_lt hs]
    exact ih _ (step_lt _ _ _)

/-- Soundness of the executable certificate. -/
theorem cert_sound (n t : Nat) (qs : List Nat) (h : certOK n t qs = true) :
    (∀ s, s < 2^n → (step n t)^[2^n - 1] s = s) ∧
    (∀ q ∈ qs, ∀ s, s < 2^n → (step n t)^[(2^n - 1) / q] s = s → s = 0) := by
  simp only [certOK, Bool.and_eq_true, beq_iff_eq, List.all_eq_true] at h
  obtain ⟨hN, hq⟩ := h
  have hlt : ∀ k, k ≤ 2^n - 1 → k < 2^(n+1) := by
    intro k hk
    have : 2^(n+1) = 2 * 2^n := by ring
    have : 0 < 2^n := Nat.pos_of_ne_zero (by positivity)
    omega
  constructor
  · intro s hs
    have := applyM_powM n (stepM n t) (applyM_stepM_lt n t) (n+1) (2^n - 1) (hlt _ (le_refl _)) s hs
    rw [hN, applyM_idM, Nat.mod_eq_of_lt hs, iterate_stepM n t _ s hs] at this
    exact this.symm
  · intro q hqm s hs hfix
    have hq' := hq q hqm
    have hk : (2^n - 1) / q < 2^(n+1) := hlt _ (Nat.div_le_self _ _)
    have hP := applyM_powM n (stepM n t) (applyM_stepM_lt n t) (n+1) _ hk s hs
    rw [iterate_stepM n t _ s hs, hfix] at hP
    have hlen : (powM n (stepM n t) (n+1) ((2^n - 1) / q)).length = n :=
      length_powM n _ (by simp [stepM, length_colsFrom]) _ _
    have hA : applyM (addI n (powM n (stepM n t) (n+1) ((2^n - 1) / q))) s = 0 := by
      rw [applyM_addI n _ hlen, hP, Nat.mod_eq_of_lt hs]; simp
    have := applyM_mul (invM n (addI n (powM n (stepM n t) (n+1) ((2^n - 1) / q))))
      (addI n (powM n (stepM n t) (n+1) ((2^n - 1) / q))) s
    rw [hq', applyM_idM, Nat.mod_eq_of_lt hs, hA, applyM_zero] at this
    exact this

end OptiVerif.PrbsCert
