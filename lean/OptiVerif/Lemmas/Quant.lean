/-
Lemmas about the models of `shortest_int` and of the ADC quantiser (Model/Quant.lean).
-/
import OptiVerif.Model.Quant
import Mathlib.Tactic.Linarith
import Mathlib.Tactic.Ring
import Mathlib.Tactic.FieldSimp
import Mathlib.Tactic.Positivity
import Mathlib.Algebra.Order.Field.Rat
import Mathlib.Data.Rat.Floor
import Mathlib.Data.Finset.Card
import Mathlib.Data.Finset.Image

namespace OptiVerif.Quant
open OptiVerif

/-! ### sorting -/

theorem sort_sorted (l : List Rat) : (sort l).Pairwise (· ≤ ·) := by
  have := List.pairwise_mergeSort (le := fun a b : Rat => decide (a ≤ b))
    (fun a b c hab hbc => by simp only [decide_eq_true_eq] at *; exact le_trans hab hbc)
    (fun a b => by simp only [Bool.or_eq_true, decide_eq_true_eq]; exact le_total a b) l
  simpa [sort] using this

theorem sort_perm (l : List Rat) : (sort l).Perm l := List.mergeSort_perm l _

theorem sort_length (l : List Rat) : (sort l).length = l.length := (sort_perm l).length_eq

theorem sorted_getElem_le {s : List Rat} (hs : s.Pairwise (· ≤ ·)) (i j : Nat) (hi : i ≤ j) (hj : j < s.length) :
    s[i]'(by omega) ≤ s[j] := by
  rcases Nat.lt_or_eq_of_le hi with h | h
  · exact List.pairwise_iff_getElem.mp hs i j (by omega) hj h
  · subst h; exact le_refl _

/-! ### lag differences -/

theorem diffLag_length (s : List Rat) (lag : Nat) : (diffLag s lag).length = s.length - lag := by
  simp [diffLag, List.length_zipWith]

theorem diffLag_getElem (s : List Rat) (lag j : Nat) (h : j + lag < s.length) :
    (diffLag s lag)[j]'(by rw [diffLag_length]; omega) = s[j + lag] - s[j]'(by omega) := by
  unfold diffLag
  rw [List.getElem_zipWith]
  simp [List.getElem_drop, List.getElem_take, Nat.add_comm]

theorem minList_le_head (d0 : Rat) (ds : List Rat) : minList d0 ds ≤ d0 := by
  unfold minList
  induction ds generalizing d0 with
  | nil => exact le_refl _
  | cons x xs ih =>
    simp only [List.foldl_cons]
    split_ifs with h
    · exact le_trans (ih x) (le_of_lt h)
    · exact ih d0

theorem minList_le_mem (d0 : Rat) (ds : List Rat) : ∀ x ∈ ds, minList d0 ds ≤ x := by
  unfold minList
  induction ds generalizing d0 with
  | nil => intro x hx; cases hx
  | cons y ys ih =>
    intro x hx
    simp only [List.foldl_cons]
    rcases List.mem_cons.mp hx with rfl | hx
    · split_ifs with h
      · exact minList_le_head _ _
      · exact le_trans (minList_le_head _ _) (not_lt.mp h)
    · exact ih _ x hx

theorem minList_le (d0 : Rat) (ds : List Rat) : ∀ x ∈ d0 :: ds, minList d0 ds ≤ x := by
  intro x hx
  rcases List.mem_cons.mp hx with rfl | hx
  · exact minList_le_head _ _
  · exact minList_le_mem _ _ x hx

theorem minList_mem (d0 : Rat) (ds : List Rat) : minList d0 ds ∈ d0 :: ds := by
  unfold minList
  induction ds generalizing d0 with
  | nil => simp
  | cons y ys ih =>
    simp only [List.foldl_cons]
    split_ifs
    · have := ih y
      exact List.mem_cons_of_mem _ this
    · have := ih d0
      rcases List.mem_cons.mp this with h | h
      · rw [h]; exact List.mem_cons_self
      · exact List.mem_cons_of_mem _ (List.mem_cons_of_mem _ h)

theorem absR_eq (q : Rat) : absR q = |q| := by
  unfold absR
  split_ifs with h
  · rw [abs_of_neg h]
  · rw [abs_of_nonneg (not_lt.mp h)]

theorem mem_tiedIdx (tol m : Rat) (diff : List Rat) (i : Nat) :
    i ∈ tiedIdx tol m diff ↔ ∃ h : i < diff.length, |diff[i] - m| ≤ tol * |m| := by
  unfold tiedIdx
  simp only [List.mem_map, List.mem_filter, decide_eq_true_eq, absR_eq]
  constructor
  · rintro ⟨⟨d, j⟩, ⟨hmem, hlt⟩, rfl⟩
    rw [List.mem_zipIdx_iff_getElem?] at hmem
    simp only at hmem hlt ⊢
    obtain ⟨hj, hd⟩ := List.getElem?_eq_some_iff.mp hmem
    exact ⟨hj, by rw [hd]; exact hlt⟩
  · rintro ⟨h, hlt⟩
    refine ⟨(diff[i], i), ⟨?_, hlt⟩, rfl⟩
    rw [List.mem_zipIdx_iff_getElem?]
    simp

/-- what `pick` returns: two entries of `s`, `lag` apart, whose distance is within the relative tolerance of the
    smallest such distance `m` -/
theorem pick_spec (tol : Rat) (cdiv : Nat) (s : List Rat) (lag : Nat) (lo hi : Rat)
    (h : pick tol cdiv s lag = .ok (lo, hi)) :
    ∃ i, ∃ hi' : i + lag < s.length, lo = s[i]'(by omega) ∧ hi = s[i + lag] ∧
      ∃ m : Rat, (∃ k, ∃ hk : k + lag < s.length, m = s[k + lag] - s[k]'(by omega)) ∧
        (∀ j (hj : j + lag < s.length), m ≤ s[j + lag] - s[j]'(by omega)) ∧
        s[i + lag] - s[i]'(by omega) ≤ m + tol * |m| := by
  unfold pick at h
  cases hd : diffLag s lag with
  | nil => rw [hd] at h; cases h
  | cons d0 ds =>
    rw [hd] at h
    simp only at h
    cases hk : (tiedIdx tol (minList d0 ds) (d0 :: ds))[(tiedIdx tol (minList d0 ds) (d0 :: ds)).length / cdiv]? with
    | none => rw [hk] at h; cases h
    | some i =>
      rw [hk] at h
      simp only at h
      have himem : i ∈ tiedIdx tol (minList d0 ds) (d0 :: ds) := List.mem_of_getElem? hk
      rw [← hd, mem_tiedIdx] at himem
      obtain ⟨hilt, hclose⟩ := himem
      rw [diffLag_length] at hilt
      have hil : i + lag < s.length := by omega
      have e1 : s[i]? = some (s[i]'(by omega)) := List.getElem?_eq_getElem (by omega)
      have e2 : s[i + lag]? = some s[i + lag] := List.getElem?_eq_getElem hil
      rw [e1, e2] at h
      simp only [Except.ok.injEq, Prod.mk.injEq] at h
      refine ⟨i, hil, h.1.symm, h.2.symm, minList d0 ds, ?_, ?_, ?_⟩
      · have hmem := minList_mem d0 ds
        rw [← hd] at hmem
        obtain ⟨k, hk', hkm⟩ := List.getElem_of_mem hmem
        have hk2 : k + lag < s.length := by rw [diffLag_length] at hk'; omega
        exact ⟨k, hk2, by rw [← hkm, diffLag_getElem s lag k hk2]⟩
      · intro j hj
        have hjd : (diffLag s lag)[j]'(by rw [diffLag_length]; omega) ∈ d0 :: ds := by
          rw [← hd]; exact List.getElem_mem _
        have hm := minList_le d0 ds _ hjd
        rw [diffLag_getElem s lag j hj] at hm
        exact hm
      · rw [diffLag_getElem s lag i hil] at hclose
        have := abs_le.mp hclose
        linarith [this.2]

/-- `pick` succeeds whenever there is at least one lag pair, the tolerance is non-negative and the index divisor ≥ 2 -/
theorem pick_ok (tol : Rat) (cdiv : Nat) (s : List Rat) (lag : Nat) (htol : 0 ≤ tol) (hc : 2 ≤ cdiv) (hl : lag < s.length) :
    ∃ r, pick tol cdiv s lag = .ok r := by
  unfold pick
  cases hd : diffLag s lag with
  | nil =>
    have := diffLag_length s lag
    rw [hd] at this
    simp at this; omega
  | cons d0 ds =>
    simp only
    have hmem := minList_mem d0 ds
    obtain ⟨k, hk, hkm⟩ := List.getElem_of_mem hmem
    have hkin : k ∈ tiedIdx tol (minList d0 ds) (d0 :: ds) := by
      rw [mem_tiedIdx]
      exact ⟨hk, by rw [hkm]; simpa using mul_nonneg htol (abs_nonneg _)⟩
    have hpos : 0 < (tiedIdx tol (minList d0 ds) (d0 :: ds)).length := List.length_pos_of_mem hkin
    have hlt : (tiedIdx tol (minList d0 ds) (d0 :: ds)).length / cdiv < (tiedIdx tol (minList d0 ds) (d0 :: ds)).length :=
      Nat.div_lt_self hpos (by omega)
    rw [List.getElem?_eq_getElem hlt]
    simp only
    have himem := List.getElem_mem hlt
    rw [mem_tiedIdx] at himem
    obtain ⟨hilt, _⟩ := himem
    have hlen : (d0 :: ds).length = s.length - lag := by rw [← hd, diffLag_length]
    rw [hlen] at hilt
    rw [List.getElem?_eq_getElem (show _ < s.length by omega), List.getElem?_eq_getElem (show _ + lag < s.length by omega)]
    exact ⟨_, rfl⟩

/-- an accepted call went through `pick` on the sorted data with `lag = lagOf …` -/
theorem shortestIntP_ok {div tol : Rat} {cdiv : Nat} {p : Rat} {data : List Rat} {lo hi : Rat}
    (h : shortestIntP div tol cdiv p data = .ok (lo, hi)) :
    pick tol cdiv (sort data) (lagOf div data.length p) = .ok (lo, hi) ∧ lagOf div data.length p < data.length ∧ 0 ≤ p := by
  unfold shortestIntP at h
  by_cases hp : p < 0
  · rw [if_pos hp] at h; cases h
  · rw [if_neg hp] at h
    simp only [sort_length] at h
    by_cases hl : lagOf div data.length p ≥ data.length
    · rw [if_pos hl] at h; cases h
    · rw [if_neg hl] at h
      exact ⟨h, by omega, not_lt.mp hp⟩

/-- the interval between two order statistics `lag` apart holds at least `lag + 1` samples -/
theorem count_between {s : List Rat} (hs : s.Pairwise (· ≤ ·)) (i lag : Nat) (h : i + lag < s.length) :
    lag + 1 ≤ s.countP (fun x => decide (s[i]'(by omega) ≤ x ∧ x ≤ s[i + lag])) := by
  have hsub : ((s.drop i).take (lag + 1)).Sublist s := (List.take_sublist _ _).trans (List.drop_sublist _ _)
  have hlen : ((s.drop i).take (lag + 1)).length = lag + 1 := by simp; omega
  have hall : ∀ a ∈ (s.drop i).take (lag + 1), decide (s[i]'(by omega) ≤ a ∧ a ≤ s[i + lag]) = true := by
    intro a ha
    obtain ⟨k, hk, rfl⟩ := List.getElem_of_mem ha
    rw [hlen] at hk
    simp only [List.getElem_take, List.getElem_drop, decide_eq_true_eq]
    exact ⟨sorted_getElem_le hs i (i + k) (by omega) (by omega), sorted_getElem_le hs (i + k) (i + lag) (by omega) h⟩
  calc lag + 1 = ((s.drop i).take (lag + 1)).length := hlen.symm
    _ = ((s.drop i).take (lag + 1)).countP _ := (List.countP_eq_length.mpr hall).symm
    _ ≤ s.countP _ := hsub.countP_le

/-! ### the quantiser -/

theorem roundHalfEven_close (q : Rat) : |((roundHalfEven q : Int) : Rat) - q| ≤ 1 / 2 := by
  have h1 := Rat.floor_le q
  have h2 := Rat.lt_floor_add_one q
  push_cast at h2
  unfold roundHalfEven
  simp only
  rw [abs_le]
  split_ifs with ha hb hc
  · constructor <;> linarith
  · push_cast; constructor <;> linarith
  · constructor <;> linarith
  · push_cast; constructor <;> linarith

theorem top_nonneg (n : Nat) : 0 ≤ top n := by
  unfold top
  have : (1 : Int) ≤ 2 ^ n := Int.one_le_two_pow n
  omega
where
  Int.one_le_two_pow (n : Nat) : (1 : Int) ≤ 2 ^ n := by
    have : (0 : Int) < 2 ^ n := by positivity
    omega

theorem top_pos (n : Nat) (hn : 1 ≤ n) : 0 < top n := by
  unfold top
  have : (2 : Int) ^ 1 ≤ 2 ^ n := pow_le_pow_right₀ (by norm_num) hn
  omega

theorem clip_range (n : Nat) (x : Int) : 0 ≤ clip 0 (top n) x ∧ clip 0 (top n) x ≤ top n := by
  have := top_nonneg n
  unfold clip
  split_ifs <;> omega

theorem code_range (vmin vmax : Rat) (n : Nat) (s : Rat) :
    0 ≤ code vmin vmax n s ∧ code vmin vmax n s ≤ top n := clip_range n _

/-- the scaled position of a sample -/
def pos (vmin vmax : Rat) (n : Nat) (s : Rat) : Rat := (s - vmin) / (vmax - vmin) * ((top n : Int) : Rat)

theorem code_eq (vmin vmax : Rat) (n : Nat) (s : Rat) :
    code vmin vmax n s = clip 0 (top n) (roundHalfEven (pos vmin vmax n s)) := rfl

theorem int_le_of_cast_le_add_half {c k : Int} (h : (c : Rat) ≤ (k : Rat) + 1 / 2) : c ≤ k := by
  by_contra hn
  have : k + 1 ≤ c := by omega
  have : ((k + 1 : Int) : Rat) ≤ (c : Rat) := by exact_mod_cast this
  push_cast at this
  linarith

theorem int_ge_of_cast_ge_sub_half {c k : Int} (h : (k : Rat) - 1 / 2 ≤ (c : Rat)) : k ≤ c := by
  by_contra hn
  have : c + 1 ≤ k := by omega
  have : ((c + 1 : Int) : Rat) ≤ (k : Rat) := by exact_mod_cast this
  push_cast at this
  linarith

/-- below the range: lowest code -/
theorem code_low (vmin vmax : Rat) (n : Nat) (s : Rat) (hr : vmin < vmax) (hs : s < vmin) : code vmin vmax n s = 0 := by
  have htop : (0 : Rat) ≤ ((top n : Int) : Rat) := by exact_mod_cast top_nonneg n
  have hp : pos vmin vmax n s ≤ 0 := by
    unfold pos
    apply mul_nonpos_of_nonpos_of_nonneg _ htop
    apply div_nonpos_of_nonpos_of_nonneg <;> linarith
  have hc := abs_le.mp (roundHalfEven_close (pos vmin vmax n s))
  have hle : roundHalfEven (pos vmin vmax n s) ≤ 0 := by
    apply int_le_of_cast_le_add_half
    push_cast
    linarith [hc.2]
  rw [code_eq]
  have := top_nonneg n
  unfold clip
  split_ifs <;> omega

/-- above the range: highest code -/
theorem code_high (vmin vmax : Rat) (n : Nat) (s : Rat) (hr : vmin < vmax) (hs : vmax < s) : code vmin vmax n s = top n := by
  have htop : (0 : Rat) ≤ ((top n : Int) : Rat) := by exact_mod_cast top_nonneg n
  have hp : ((top n : Int) : Rat) ≤ pos vmin vmax n s := by
    unfold pos
    have h1 : 1 ≤ (s - vmin) / (vmax - vmin) := by
      rw [le_div_iff₀ (by linarith)]; linarith
    calc ((top n : Int) : Rat) = 1 * ((top n : Int) : Rat) := by ring
      _ ≤ (s - vmin) / (vmax - vmin) * ((top n : Int) : Rat) := mul_le_mul_of_nonneg_right h1 htop
  have hc := abs_le.mp (roundHalfEven_close (pos vmin vmax n s))
  have hge : top n ≤ roundHalfEven (pos vmin vmax n s) := by
    apply int_ge_of_cast_ge_sub_half
    linarith [hc.1]
  rw [code_eq]
  have := top_nonneg n
  unfold clip
  split_ifs <;> omega

/-- inside the range the rounded position is not clipped -/
theorem code_inside (vmin vmax : Rat) (n : Nat) (s : Rat) (hr : vmin < vmax) (h1 : vmin ≤ s) (h2 : s ≤ vmax) :
    code vmin vmax n s = roundHalfEven (pos vmin vmax n s) := by
  have htop : (0 : Rat) ≤ ((top n : Int) : Rat) := by exact_mod_cast top_nonneg n
  have hd : 0 < vmax - vmin := by linarith
  have hp0 : 0 ≤ pos vmin vmax n s := by
    unfold pos
    exact mul_nonneg (div_nonneg (by linarith) hd.le) htop
  have hp1 : pos vmin vmax n s ≤ ((top n : Int) : Rat) := by
    unfold pos
    have : (s - vmin) / (vmax - vmin) ≤ 1 := by rw [div_le_one hd]; linarith
    calc (s - vmin) / (vmax - vmin) * ((top n : Int) : Rat) ≤ 1 * ((top n : Int) : Rat) :=
          mul_le_mul_of_nonneg_right this htop
      _ = _ := by ring
  have hc := abs_le.mp (roundHalfEven_close (pos vmin vmax n s))
  have hlo : 0 ≤ roundHalfEven (pos vmin vmax n s) := by
    apply int_ge_of_cast_ge_sub_half; push_cast; linarith [hc.1]
  have hhi : roundHalfEven (pos vmin vmax n s) ≤ top n := by
    apply int_le_of_cast_le_add_half; linarith [hc.2]
  rw [code_eq]
  unfold clip
  split_ifs <;> omega

theorem level_sub (vmin vmax : Rat) (n : Nat) (hn : 1 ≤ n) (hr : vmin < vmax) (c : Int) (s : Rat) :
    level vmin vmax n c - s = ((c : Rat) - pos vmin vmax n s) * ((vmax - vmin) / ((top n : Int) : Rat)) := by
  have htop : (0 : Rat) < ((top n : Int) : Rat) := by exact_mod_cast top_pos n hn
  have hd : vmax - vmin ≠ 0 := by linarith
  unfold level pos
  field_simp
  ring

/-- in-range samples move by at most half a quantisation step -/
theorem level_code_close (vmin vmax : Rat) (n : Nat) (hn : 1 ≤ n) (s : Rat) (hr : vmin < vmax) (h1 : vmin ≤ s) (h2 : s ≤ vmax) :
    |level vmin vmax n (code vmin vmax n s) - s| ≤ (vmax - vmin) / ((top n : Int) : Rat) / 2 := by
  have htop : (0 : Rat) < ((top n : Int) : Rat) := by exact_mod_cast top_pos n hn
  have hstep : 0 ≤ (vmax - vmin) / ((top n : Int) : Rat) := div_nonneg (by linarith) htop.le
  rw [level_sub vmin vmax n hn hr, code_inside vmin vmax n s hr h1 h2, abs_mul, abs_of_nonneg hstep]
  have := roundHalfEven_close (pos vmin vmax n s)
  calc |((roundHalfEven (pos vmin vmax n s) : Int) : Rat) - pos vmin vmax n s| * ((vmax - vmin) / ((top n : Int) : Rat))
      ≤ 1 / 2 * ((vmax - vmin) / ((top n : Int) : Rat)) := mul_le_mul_of_nonneg_right this hstep
    _ = _ := by ring

theorem level_zero (vmin vmax : Rat) (n : Nat) : level vmin vmax n 0 = vmin := by simp [level]

theorem level_top (vmin vmax : Rat) (n : Nat) (hn : 1 ≤ n) : level vmin vmax n (top n) = vmax := by
  have htop : (0 : Rat) < ((top n : Int) : Rat) := by exact_mod_cast top_pos n hn
  unfold level
  field_simp
  ring

/-- every level of a valid code lies within the full-scale range -/
theorem level_within (vmin vmax : Rat) (n : Nat) (hn : 1 ≤ n) (hr : vmin < vmax) (c : Int) (h0 : 0 ≤ c) (h1 : c ≤ top n) :
    vmin ≤ level vmin vmax n c ∧ level vmin vmax n c ≤ vmax := by
  have htop : (0 : Rat) < ((top n : Int) : Rat) := by exact_mod_cast top_pos n hn
  have hc0 : (0 : Rat) ≤ (c : Rat) := by exact_mod_cast h0
  have hc1 : (c : Rat) ≤ ((top n : Int) : Rat) := by exact_mod_cast h1
  have hf0 : 0 ≤ (c : Rat) / ((top n : Int) : Rat) := div_nonneg hc0 htop.le
  have hf1 : (c : Rat) / ((top n : Int) : Rat) ≤ 1 := by rw [div_le_one htop]; exact hc1
  unfold level
  constructor
  · nlinarith
  · nlinarith

/-! ### counting distinct values -/

theorem distinct_codes_le (n : Nat) (codes : List Int) (h : ∀ c ∈ codes, 0 ≤ c ∧ c ≤ top n) :
    codes.toFinset.card ≤ 2 ^ n := by
  have hmap : ∀ c ∈ codes.toFinset, c.toNat ∈ Finset.range (2 ^ n) := by
    intro c hc
    have := h c (List.mem_toFinset.mp hc)
    rw [Finset.mem_range]
    unfold top at this
    have h2 : ((2 ^ n : Nat) : Int) = 2 ^ n := by push_cast; rfl
    omega
  have hinj : Set.InjOn (fun c : Int => c.toNat) codes.toFinset := by
    intro a ha b hb hab
    have h1 := h a (List.mem_toFinset.mp ha)
    have h2 := h b (List.mem_toFinset.mp hb)
    simp only at hab
    omega
  calc codes.toFinset.card ≤ (Finset.range (2 ^ n)).card := Finset.card_le_card_of_injOn _ hmap hinj
    _ = 2 ^ n := Finset.card_range _

theorem distinct_map_le {α β : Type} [DecidableEq α] [DecidableEq β] (f : α → β) (l : List α) :
    (l.map f).toFinset.card ≤ l.toFinset.card := by
  have : (l.map f).toFinset = l.toFinset.image f := by
    ext x; simp
  rw [this]
  exact Finset.card_image_le

end OptiVerif.Quant
