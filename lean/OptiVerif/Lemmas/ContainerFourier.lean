/-
Composition of the container model (C01) with the transform model of C02 (`Model/Fourier.lean`, `Props/C02.lean`):
on complex carriers `Cx R` the per-row transform of `Container.transform` IS `Fourier.callRow`, so the payload of
`x(domain, shift)` is `Fourier.call domain shift` of the payload of `x`; over ℝ the row-length law the container
theorems need is C02's `shift_length`.
-/
import OptiVerif.Lemmas.ContainerAlg
import OptiVerif.Props.C02

set_option linter.unusedSectionVars false

namespace OptiVerif.Container
open OptiVerif

/-- over ℝ the transform keeps every row's length: theorem `shift_length` of C02 -/
instance : LawfulXform (Cx ℝ) := ⟨fun d sh xs => Props.C02.shift_length d sh xs⟩

theorem Rows.toLists_mapL {α} (f : List α → List α) (r : Rows α) : (r.mapL f).toLists = r.toLists.map f := by
  cases r <;> rfl

theorem Rows.count_eq_length_toLists {α} (r : Rows α) : r.count = r.toLists.length := by cases r <;> rfl

theorem Rows.len_eq_head_toLists {α} (r : Rows α) : r.toLists.map List.length = List.replicate 1 r.len ++
    (match r with | .one _ => [] | .two _ ys => [ys.length]) := by
  cases r <;> rfl

section
variable {R : Type} [Add R] [Sub R] [Mul R] [Div R] [Neg R] [NatCast R] [Transc R]

/-- **bridge**: the numeric payload of `x(domain, shift)` is `Fourier.call domain shift` applied to the payload of
    `x` — signal rows and noise rows, every polarisation (any complex carrier: ℝ for the proofs, Float in the driver) -/
theorem transform_payload {a s : Sig (Cx R)} {d : Fourier.Dom} {sh : Bool}
    (h : transform a (some d) sh = .ok s) : s.payload = Fourier.call d sh a.payload := by
  obtain ⟨_, d', hd, hs⟩ := transform_wf_any h
  injection hd with hd; subst hd
  subst hs
  simp only [Sig.payload, Fourier.call, Rows.toLists_mapL, Option.map_map]
  congr 1
  cases a.noise <;> simp [Rows.toLists_mapL]
  intro r _; rfl
end

/-- structural change of carrier keeps the contract -/
theorem mapV_wf {α β} (f : α → β) {s : Sig α} (h : WF s) : WF (s.mapV f) := by
  obtain ⟨cls, npol, dt, sig, noise⟩ := s
  obtain ⟨hv, hn, hp, he⟩ := h
  have hval : ∀ r : Rows α, r.Valid → (r.mapV f).Valid := by
    intro r; cases r <;> simp [Rows.mapV, Rows.Valid]
  have hcount : ∀ r : Rows α, (r.mapV f).count = r.count := by intro r; cases r <;> rfl
  have hlen : ∀ r : Rows α, (r.mapV f).len = r.len := by intro r; cases r <;> simp [Rows.mapV, Rows.len]
  refine ⟨hval _ hv, ?_, by simpa [Sig.mapV, hcount] using hp, by simpa [Sig.mapV, hcount] using he⟩
  intro n h
  cases noise with
  | none => simp [Sig.mapV] at h
  | some nz =>
    simp [Sig.mapV] at h; subst h
    obtain ⟨a, b, c⟩ := hn nz rfl
    exact ⟨hval _ a, by simp [Sig.mapV, hcount]; exact b, by simp [Sig.mapV, hlen]; exact c⟩

/-- the Gaussian integers the driver computes with, as complex numbers over ℝ -/
noncomputable def embR (z : Cx Int) : Cx ℝ := ⟨(z.re : ℝ), (z.im : ℝ)⟩

end OptiVerif.Container
