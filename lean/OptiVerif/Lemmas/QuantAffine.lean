/-
`shortest_int` commutes with a change of units `x ↦ a·x + b`, `a > 0` (Model/Quant.lean): sorting, the lag, the lag
differences (scaled by `a`), their minimum, the RELATIVE tie test and the central pick are all preserved.
-/
import OptiVerif.Lemmas.Quant

namespace OptiVerif.Quant
open OptiVerif

/-- the change of units -/
def aff (a b : Rat) (x : Rat) : Rat := a * x + b

theorem aff_le_iff (a b : Rat) (ha : 0 < a) (x y : Rat) : aff a b x ≤ aff a b y ↔ x ≤ y := by
  unfold aff
  constructor
  · intro h
    by_contra hc
    have hc := not_le.mp hc
    nlinarith [mul_lt_mul_of_pos_left hc ha]
  · intro h
    nlinarith [mul_le_mul_of_nonneg_left h ha.le]

theorem sort_map_aff (a b : Rat) (ha : 0 < a) (l : List Rat) : sort (l.map (aff a b)) = (sort l).map (aff a b) := by
  unfold sort
  symm
  apply List.map_mergeSort
  intro x _ y _
  simp only [decide_eq_decide]
  exact (aff_le_iff a b ha x y).symm

theorem diffLag_map_aff (a b : Rat) (s : List Rat) (lag : Nat) :
    diffLag (s.map (aff a b)) lag = (diffLag s lag).map (fun d => a * d) := by
  unfold diffLag
  rw [List.length_map, ← List.map_drop, ← List.map_take, List.zipWith_map, List.map_zipWith]
  congr 1
  funext x y
  simp only [aff]
  ring

theorem minList_map_mul (a : Rat) (ha : 0 < a) (d0 : Rat) (ds : List Rat) :
    minList (a * d0) (ds.map (fun d => a * d)) = a * minList d0 ds := by
  unfold minList
  induction ds generalizing d0 with
  | nil => simp
  | cons x xs ih =>
    simp only [List.map_cons, List.foldl_cons]
    have : (if a * x < a * d0 then a * x else a * d0) = a * (if x < d0 then x else d0) := by
      split_ifs with h1 h2 h2
      · rfl
      · exfalso; nlinarith
      · exfalso; nlinarith [mul_lt_mul_of_pos_left h2 ha]
      · rfl
    rw [this]
    exact ih _

theorem tied_iff (tol a m d : Rat) (ha : 0 < a) :
    absR (a * d - a * m) ≤ tol * absR (a * m) ↔ absR (d - m) ≤ tol * absR m := by
  have e1 : a * d - a * m = a * (d - m) := by ring
  rw [absR_eq, absR_eq, absR_eq, absR_eq, e1, abs_mul, abs_mul, abs_of_pos ha]
  constructor
  · intro h
    have : a * |d - m| ≤ a * (tol * |m|) := by linarith
    exact le_of_mul_le_mul_left this ha
  · intro h
    have := mul_le_mul_of_nonneg_left h ha.le
    linarith

theorem tiedIdx_map_mul (tol a m : Rat) (ha : 0 < a) (diff : List Rat) :
    tiedIdx tol (a * m) (diff.map (fun d => a * d)) = tiedIdx tol m diff := by
  unfold tiedIdx
  rw [List.zipIdx_map, List.filter_map, List.map_map]
  have hf : (List.filter ((fun di : Rat × Nat => decide (absR (di.1 - a * m) ≤ tol * absR (a * m))) ∘ Prod.map (fun d => a * d) id)
      diff.zipIdx) = List.filter (fun di : Rat × Nat => decide (absR (di.1 - m) ≤ tol * absR m)) diff.zipIdx := by
    apply List.filter_congr
    intro di _
    simp only [Function.comp, Prod.map, decide_eq_decide]
    exact tied_iff tol a m di.1 ha
  rw [hf]
  apply List.map_congr_left
  intro di _
  rfl

theorem pick_map_aff (tol : Rat) (cdiv : Nat) (a b : Rat) (ha : 0 < a) (s : List Rat) (lag : Nat) :
    pick tol cdiv (s.map (aff a b)) lag = (pick tol cdiv s lag).map (fun r => (aff a b r.1, aff a b r.2)) := by
  unfold pick
  rw [diffLag_map_aff]
  cases hd : diffLag s lag with
  | nil => rfl
  | cons d0 ds =>
    simp only [List.map_cons]
    rw [minList_map_mul a ha, ← List.map_cons (f := fun d => a * d), tiedIdx_map_mul tol a _ ha]
    cases hi : (tiedIdx tol (minList d0 ds) (d0 :: ds))[(tiedIdx tol (minList d0 ds) (d0 :: ds)).length / cdiv]? with
    | none => rfl
    | some i =>
      simp only [List.getElem?_map]
      cases s[i]? <;> cases s[i + lag]? <;> rfl

/-- **`shortest_int` commutes with a change of units** -/
theorem shortestIntP_map_aff (div tol : Rat) (cdiv : Nat) (p a b : Rat) (ha : 0 < a) (data : List Rat) :
    shortestIntP div tol cdiv p (data.map (aff a b)) =
      (shortestIntP div tol cdiv p data).map (fun r => (aff a b r.1, aff a b r.2)) := by
  unfold shortestIntP
  by_cases hp : p < 0
  · simp [hp]; rfl
  · simp only [hp, if_false]
    rw [sort_map_aff a b ha, List.length_map]
    by_cases hl : lagOf div (sort data).length p ≥ (sort data).length
    · simp [hl]; rfl
    · simp only [hl, if_false]
      exact pick_map_aff tol cdiv a b ha _ _

end OptiVerif.Quant

namespace OptiVerif.Quant

/-- sorting forgets the order of the samples -/
theorem sort_perm_eq {l l' : List Rat} (h : l.Perm l') : sort l = sort l' := by
  apply List.Perm.eq_of_pairwise (le := (· ≤ ·)) (fun a b _ _ hab hba => le_antisymm hab hba) (sort_sorted l) (sort_sorted l')
  exact (sort_perm l).trans (h.trans (sort_perm l').symm)

/-- **`shortest_int` depends on the multiset of samples only** -/
theorem shortestIntP_perm (div tol : Rat) (cdiv : Nat) (p : Rat) {data data' : List Rat} (h : data.Perm data') :
    shortestIntP div tol cdiv p data = shortestIntP div tol cdiv p data' := by
  unfold shortestIntP
  rw [sort_perm_eq h]

end OptiVerif.Quant
