/-
C08: the adaptive rule bounds the nonlinear phase rotation of EVERY applied step by phi_max
("method based on limiting the nonlinear phase rotation").
-/
import OptiVerif.Lemmas.FiberNLTerm

namespace OptiVerif.FiberNL
open OptiVerif OptiVerif.Fourier OptiVerif.Fiber

/-- the states met while applying a list of steps: (field before the step, step) -/
def trace (stepF : Rows ℝ → ℝ → Rows ℝ) : Rows ℝ → List ℝ → List (Rows ℝ × ℝ)
  | _, [] => []
  | A, h :: hs => (A, h) :: trace stepF (stepF A h) hs

theorem trace_append (stepF : Rows ℝ → ℝ → Rows ℝ) (A : Rows ℝ) (hs ks : List ℝ) :
    trace stepF A (hs ++ ks) = trace stepF A hs ++ trace stepF (hs.foldl stepF A) ks := by
  induction hs generalizing A with
  | nil => rfl
  | cons h hs ih => simp [trace, ih]

theorem maxList_nonneg (l : List ℝ) (hl : ∀ p ∈ l, 0 ≤ p) : 0 ≤ maxList l := by
  induction l with
  | nil => simp [maxList]
  | cons a as ih =>
    cases as with
    | nil => simpa [maxList] using hl a (by simp)
    | cons b bs =>
      simp only [maxList, maxR_eq_max]
      exact le_max_of_le_left (hl a (by simp))

theorem peak_nonneg (A : Rows ℝ) (hA : Layout A) : 0 ≤ peak A :=
  maxList_nonneg _ (totalPower_nonneg A hA)

/-- the step the rule proposes rotates the nonlinear phase by at most phi_max (exactly phi_max when gamma·peak ≠ 0) -/
theorem nextH_phase (gamma phiMax L : ℝ) (hg : gamma ≠ 0) (hphi : 0 ≤ phiMax) (A : Rows ℝ) :
    gamma * nextH gamma phiMax L A * peak A ≤ phiMax := by
  simp only [nextH]
  rw [if_neg (by simp [hg])]
  by_cases hp : gamma * peak A = 0
  · rw [hp, div_zero, mul_zero, zero_mul]; exact hphi
  · have hpk : peak A ≠ 0 := fun h0 => hp (by rw [h0, mul_zero])
    have : gamma * (phiMax / (gamma * peak A)) * peak A = phiMax := by
      field_simp
    rw [this]

/-- loop invariant: every (state, step) pair met inside the loop respects the phase bound, and x_length never
    passes the fibre end -/
theorem loop_phase (wConv fs alphaP b2 b3 gamma phiMax L : ℝ) (hg : 0 < gamma) (hphi : 0 ≤ phiMax) (fuel : ℕ)
    (A : Rows ℝ) (h x : ℝ) (acc : List ℝ) (hA : Layout A) (hh : 0 ≤ h) (hx : x ≤ L)
    (hstep : gamma * h * peak A ≤ phiMax)
    (A' : Rows ℝ) (acc' : List ℝ) (x' : ℝ)
    (hok : loop (step wConv fs alphaP b2 b3 gamma) (nextH gamma phiMax L) L fuel A h x acc = .ok (A', acc', x')) :
    ∃ new : List ℝ, acc' = new.reverse ++ acc ∧ A' = new.foldl (step wConv fs alphaP b2 b3 gamma) A ∧
      (∀ q ∈ trace (step wConv fs alphaP b2 b3 gamma) A new, gamma * q.2 * peak q.1 ≤ phiMax ∧ 0 ≤ q.2) ∧
      x' ≤ L ∧ Layout A' ∧ L < x' + nextH gamma phiMax L A' := by
  induction fuel generalizing A h x acc with
  | zero => simp [loop] at hok
  | succ fuel ih =>
    simp only [loop] at hok
    split at hok
    · next hbreak =>
      injection hok with hok
      simp only [Prod.mk.injEq] at hok
      obtain ⟨rfl, rfl, rfl⟩ := hok
      refine ⟨[h], by simp, by simp, ?_, hx, layout_step _ _ _ _ _ _ A hA h, by simpa using hbreak⟩
      intro q hq
      simp only [trace, List.mem_singleton] at hq
      subst hq
      exact ⟨hstep, hh⟩
    · next hcont =>
      have hLA' := layout_step wConv fs alphaP b2 b3 gamma A hA h
      have hnot : ¬ L < x + nextH gamma phiMax L (step wConv fs alphaP b2 b3 gamma A h) := by simpa using hcont
      have hnext_nonneg : 0 ≤ nextH gamma phiMax L (step wConv fs alphaP b2 b3 gamma A h) := by
        simp only [nextH]
        rw [if_neg (by simp [hg.ne'])]
        exact div_nonneg hphi (mul_nonneg hg.le (peak_nonneg _ hLA'))
      obtain ⟨new, h1, h2, h3, h4, h5, h6⟩ := ih _ _ _ _ hLA' hnext_nonneg (not_lt.mp hnot)
        (nextH_phase gamma phiMax L hg.ne' hphi _) hok
      refine ⟨h :: new, by simp [h1], by simp [h2], ?_, h4, h5, h6⟩
      intro q hq
      simp only [trace, List.mem_cons] at hq
      rcases hq with rfl | hq
      · exact ⟨hstep, hh⟩
      · exact h3 q hq

end OptiVerif.FiberNL
