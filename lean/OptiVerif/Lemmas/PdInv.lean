/-
Helper lemmas for C09 (continued): per-sample phase rotations and unitary polarisation mixing leave every quantity `PD` reads
from its input unchanged.
-/
import OptiVerif.Lemmas.PdCore

set_option linter.unusedSectionVars false
set_option linter.unusedVariables false
set_option linter.unusedSimpArgs false
set_option linter.unnecessarySeqFocus false

namespace OptiVerif.Pd
open OptiVerif

/-! ### transformations of the field -/

/-- sample `k` of the row multiplied by `e^{jφ(k)}` -/
noncomputable def rotRow (φ : ℕ → ℝ) (row : List (Cx ℝ)) : List (Cx ℝ) := row.mapIdx fun k z => z * Cx.cis (φ k)

/-- independent per-sample phases on the two polarisations -/
noncomputable def rotRows (φx φy : ℕ → ℝ) : Rows (Cx ℝ) → Rows (Cx ℝ)
  | .one a => .one (rotRow φx a)
  | .two a b => .two (rotRow φx a) (rotRow φy b)

/-- the same rotation applied to the signal and to the noise component (i.e. to the total field) -/
noncomputable def rotField (φx φy : ℕ → ℝ) (x : Pd.Field (Cx ℝ)) : Pd.Field (Cx ℝ) :=
  ⟨rotRows φx φy x.sig, x.noise.map (rotRows φx φy)⟩

/-- x row of `U_k (Ex, Ey)ᵀ`, `U_k = [[a, b], [-conj b, conj a]]` -/
def mixX (a b : ℕ → Cx ℝ) (x y : List (Cx ℝ)) : List (Cx ℝ) :=
  (x.zip y).mapIdx fun k p => a k * p.1 + b k * p.2
def mixY (a b : ℕ → Cx ℝ) (x y : List (Cx ℝ)) : List (Cx ℝ) :=
  (x.zip y).mapIdx fun k p => -(Cx.conj (b k)) * p.1 + Cx.conj (a k) * p.2

def mixRows (a b : ℕ → Cx ℝ) : Rows (Cx ℝ) → Rows (Cx ℝ)
  | .one x => .one x
  | .two x y => .two (mixX a b x y) (mixY a b x y)

def mixField (a b : ℕ → Cx ℝ) (x : Pd.Field (Cx ℝ)) : Pd.Field (Cx ℝ) :=
  ⟨mixRows a b x.sig, x.noise.map (mixRows a b)⟩

/-- multiplication of every sample by one complex number -/
def scaleRows (c : Cx ℝ) (r : Rows (Cx ℝ)) : Rows (Cx ℝ) := r.map fun row => row.map (c * ·)

/-! ### point-wise identities -/

theorem normSq_mul_cis' (z : Cx ℝ) (θ : ℝ) : (z * Cx.cis θ).normSq = z.normSq := cx_normSq_mul_cis z θ

theorem beat_rot (s n : Cx ℝ) (θ : ℝ) : beat (s * Cx.cis θ) (n * Cx.cis θ) = beat s n := by
  rw [beat_eq, beat_eq]
  simp only [Cx.mul_re, Cx.mul_im, Cx.cis, Transc.cos_real, Transc.sin_real]
  have h := Real.sin_sq_add_cos_sq θ
  have : (s.re * Real.cos θ - s.im * Real.sin θ) * (n.re * Real.cos θ - n.im * Real.sin θ) +
      (s.re * Real.sin θ + s.im * Real.cos θ) * (n.re * Real.sin θ + n.im * Real.cos θ) =
      (Real.sin θ ^ 2 + Real.cos θ ^ 2) * (s.re * n.re + s.im * n.im) := by ring
  rw [this, h, one_mul]

theorem normSq_mix (a b x y : Cx ℝ) (h : a.normSq + b.normSq = 1) :
    (a * x + b * y).normSq + (-(Cx.conj b) * x + Cx.conj a * y).normSq = x.normSq + y.normSq := by
  have : (a * x + b * y).normSq + (-(Cx.conj b) * x + Cx.conj a * y).normSq =
      (a.normSq + b.normSq) * (x.normSq + y.normSq) := by
    simp only [Cx.normSq, Cx.conj, Cx.add_re, Cx.add_im, Cx.mul_re, Cx.mul_im, Cx.neg_re, Cx.neg_im]
    ring
  rw [this, h, one_mul]

theorem beat_mix (a b x y nx ny : Cx ℝ) (h : a.normSq + b.normSq = 1) :
    beat (a * x + b * y) (a * nx + b * ny) + beat (-(Cx.conj b) * x + Cx.conj a * y) (-(Cx.conj b) * nx + Cx.conj a * ny) =
      beat x nx + beat y ny := by
  have : beat (a * x + b * y) (a * nx + b * ny) +
      beat (-(Cx.conj b) * x + Cx.conj a * y) (-(Cx.conj b) * nx + Cx.conj a * ny) =
      (a.normSq + b.normSq) * (beat x nx + beat y ny) := by
    simp only [beat_eq, Cx.normSq, Cx.conj, Cx.add_re, Cx.add_im, Cx.mul_re, Cx.mul_im, Cx.neg_re, Cx.neg_im]
    ring
  rw [this, h, one_mul]

/-! ### rows -/

theorem length_rotRow (φ : ℕ → ℝ) (row : List (Cx ℝ)) : (rotRow φ row).length = row.length := by simp [rotRow]

theorem map_normSq_rotRow (φ : ℕ → ℝ) (row : List (Cx ℝ)) : (rotRow φ row).map Cx.normSq = row.map Cx.normSq := by
  apply List.ext_getElem (by simp [rotRow])
  intro k h1 h2
  simp [rotRow, normSq_mul_cis']

theorem map_cabs_rotRow (φ : ℕ → ℝ) (row : List (Cx ℝ)) :
    (rotRow φ row).map (fun z => cabs z * cabs z) = row.map fun z => cabs z * cabs z := by
  simp only [cabs_mul_self]
  exact map_normSq_rotRow φ row

theorem zipWith_beat_rotRow (φ : ℕ → ℝ) (s n : List (Cx ℝ)) :
    List.zipWith beat (rotRow φ s) (rotRow φ n) = List.zipWith beat s n := by
  apply List.ext_getElem (by simp [rotRow])
  intro k h1 h2
  simp [rotRow, beat_rot]

theorem powerRow_rot (φx φy : ℕ → ℝ) (r : Rows (Cx ℝ)) : powerRow (rotRows φx φy r) = powerRow r := by
  cases r <;> simp [rotRows, powerRow, map_normSq_rotRow]

theorem beatRow_rot (φx φy : ℕ → ℝ) (s n : Rows (Cx ℝ)) :
    beatRow (rotRows φx φy s) (rotRows φx φy n) = beatRow s n := by
  cases s <;> cases n <;> simp [rotRows, beatRow, zipWith_beat_rotRow]

theorem len_rot (φx φy : ℕ → ℝ) (r : Rows (Cx ℝ)) : (rotRows φx φy r).len = r.len := by
  cases r <;> simp [rotRows, Rows.len, length_rotRow]

theorem noisePowerSum_rot (φx φy : ℕ → ℝ) (r : Rows (Cx ℝ)) : noisePowerSum (rotRows φx φy r) = noisePowerSum r := by
  cases r <;> simp only [rotRows, noisePowerSum, map_cabs_rotRow]

/-- every quantity `PD` reads from its input is unchanged by the rotation -/
theorem obs_rot (r : ℝ) (φx φy : ℕ → ℝ) (x : Pd.Field (Cx ℝ)) :
    (rotField φx φy x).sig.len = x.sig.len ∧ iSig r (rotField φx φy x).sig = iSig r x.sig ∧
      snOf r (rotField φx φy x) = snOf r x ∧ nnOf r (rotField φx φy x) = nnOf r x ∧
      iAse r (rotField φx φy x).noise = iAse r x.noise := by
  refine ⟨len_rot _ _ _, ?_, ?_, ?_, ?_⟩
  · simp only [rotField, iSig_eq, powerRow_rot]
  · cases hx : x.noise <;> simp [snOf, rotField, hx, len_rot, iSN_eq, beatRow_rot]
  · cases hx : x.noise <;> simp [nnOf, rotField, hx, len_rot, iNN_eq, powerRow_rot]
  · cases hx : x.noise <;> simp [iAse, rotField, hx, noisePowerSum_rot]

/-! ### unitary mixing -/

theorem length_mixX (a b : ℕ → Cx ℝ) (x y : List (Cx ℝ)) : (mixX a b x y).length = min x.length y.length := by simp [mixX]
theorem length_mixY (a b : ℕ → Cx ℝ) (x y : List (Cx ℝ)) : (mixY a b x y).length = min x.length y.length := by simp [mixY]

theorem power_mix (a b : ℕ → Cx ℝ) (h : ∀ k, (a k).normSq + (b k).normSq = 1) (x y : List (Cx ℝ)) :
    List.zipWith (· + ·) ((mixX a b x y).map Cx.normSq) ((mixY a b x y).map Cx.normSq) =
      List.zipWith (· + ·) (x.map Cx.normSq) (y.map Cx.normSq) := by
  apply List.ext_getElem (by simp [mixX, mixY])
  intro k h1 h2
  simp only [List.getElem_zipWith, List.getElem_map, mixX, mixY, List.getElem_mapIdx, List.getElem_zip]
  exact normSq_mix _ _ _ _ (h k)

theorem beat_mix_rows (a b : ℕ → Cx ℝ) (h : ∀ k, (a k).normSq + (b k).normSq = 1) (x y nx ny : List (Cx ℝ)) :
    List.zipWith (· + ·) (List.zipWith beat (mixX a b x y) (mixX a b nx ny)) (List.zipWith beat (mixY a b x y) (mixY a b nx ny)) =
      List.zipWith (· + ·) (List.zipWith beat x nx) (List.zipWith beat y ny) := by
  apply List.ext_getElem
  · simp only [List.length_zipWith, length_mixX, length_mixY]
    omega
  intro k h1 h2
  simp only [List.getElem_zipWith, mixX, mixY, List.getElem_mapIdx, List.getElem_zip]
  exact beat_mix _ _ _ _ _ _ (h k)

theorem powerRow_mix (a b : ℕ → Cx ℝ) (h : ∀ k, (a k).normSq + (b k).normSq = 1) (r : Rows (Cx ℝ)) :
    powerRow (mixRows a b r) = powerRow r := by
  cases r with
  | one x => rfl
  | two x y => exact power_mix a b h x y

theorem beatRow_mix (a b : ℕ → Cx ℝ) (h : ∀ k, (a k).normSq + (b k).normSq = 1) (s n : Rows (Cx ℝ)) :
    beatRow (mixRows a b s) (mixRows a b n) = beatRow s n := by
  cases s with
  | one x => cases n <;> rfl
  | two x y =>
    cases n with
    | one nx => rfl
    | two nx ny => exact beat_mix_rows a b h x y nx ny

theorem shaped_mix (a b : ℕ → Cx ℝ) {n : ℕ} {r : Rows (Cx ℝ)} (hr : r.Shaped n) : (mixRows a b r).Shaped n := by
  cases r with
  | one x => exact hr
  | two x y =>
    simp only [Rows.Shaped] at hr
    simp [mixRows, Rows.Shaped, length_mixX, length_mixY, hr.1, hr.2]

theorem len_mix (a b : ℕ → Cx ℝ) {n : ℕ} {r : Rows (Cx ℝ)} (hr : r.Shaped n) : (mixRows a b r).len = r.len := by
  cases r with
  | one x => rfl
  | two x y =>
    simp only [Rows.Shaped] at hr
    simp [mixRows, Rows.len, length_mixX, hr.1, hr.2]

/-- every quantity `PD` reads from its input is unchanged by the unitary mixing -/
theorem obs_mix (r : ℝ) (a b : ℕ → Cx ℝ) (h : ∀ k, (a k).normSq + (b k).normSq = 1) {n : ℕ} (x : Pd.Field (Cx ℝ))
    (hx : FieldOK n x) :
    (mixField a b x).sig.len = x.sig.len ∧ iSig r (mixField a b x).sig = iSig r x.sig ∧
      snOf r (mixField a b x) = snOf r x ∧ nnOf r (mixField a b x) = nnOf r x ∧
      iAse r (mixField a b x).noise = iAse r x.noise := by
  have hl := len_mix a b hx.1
  refine ⟨hl, ?_, ?_, ?_, ?_⟩
  · simp only [mixField, iSig_eq, powerRow_mix a b h]
  · cases hn : x.noise with
    | none => simp only [snOf, mixField, hn, Option.map_none]; rw [hl]
    | some nz => simp [snOf, mixField, hn, iSN_eq, beatRow_mix a b h]
  · cases hn : x.noise with
    | none => simp only [nnOf, mixField, hn, Option.map_none]; rw [hl]
    | some nz => simp [nnOf, mixField, hn, iNN_eq, powerRow_mix a b h]
  · cases hn : x.noise with
    | none => simp [iAse, mixField, hn]
    | some nz =>
      have hs : nz.Shaped n := shaped_of_sameShape (hx.2 nz hn)
      simp only [iAse, mixField, hn, Option.map_some]
      rw [noisePowerSum_eq _ (shaped_mix a b hs), noisePowerSum_eq _ hs, powerRow_mix a b h]

/-! ### scaling -/

theorem powerRow_scale (c : Cx ℝ) (r : Rows (Cx ℝ)) : powerRow (scaleRows c r) = (powerRow r).map (c.normSq * ·) := by
  cases r with
  | one x => simp [scaleRows, Rows.map, powerRow, Cx.normSq_mul, Function.comp_def]
  | two x y =>
    simp only [scaleRows, Rows.map, powerRow, List.map_map]
    have := zipAdd_map_mul c.normSq (x.map Cx.normSq) (y.map Cx.normSq)
    simp only [zipAdd, List.map_map] at this
    rw [← this]
    congr 1 <;> apply List.map_congr_left <;> intro z _ <;> simp [Cx.normSq_mul]

/-! ### the beating terms in closed form -/

/-- the beating terms computed from the input's noise component (zeros without one):
    `r·2Re(Ex·n̄x + Ey·n̄y)` and `r·(|nx|²+|ny|²)` -/
noncomputable def beatSN (r : ℝ) (x : Pd.Field (Cx ℝ)) : List ℝ :=
  match x.noise with
  | some nz => (beatRow x.sig nz).map (r * ·)
  | none => List.replicate x.sig.len 0
noncomputable def beatNN (r : ℝ) (x : Pd.Field (Cx ℝ)) : List ℝ :=
  match x.noise with
  | some nz => (powerRow nz).map (r * ·)
  | none => List.replicate x.sig.len 0

theorem snOf_eq (r : ℝ) (x : Pd.Field (Cx ℝ)) : snOf r x = beatSN r x := by
  cases h : x.noise <;> simp [snOf, beatSN, h, iSN_eq]
theorem nnOf_eq (r : ℝ) (x : Pd.Field (Cx ℝ)) : nnOf r x = beatNN r x := by
  cases h : x.noise <;> simp [nnOf, beatNN, h, iNN_eq]

theorem length_beatSN (r : ℝ) (n : ℕ) (x : Pd.Field (Cx ℝ)) (hx : FieldOK n x) : (beatSN r x).length = n := by
  cases h : x.noise with
  | none => simp [beatSN, h, hx.len]
  | some nz => simp [beatSN, h, length_beatRow (hx.2 nz h)]
theorem length_beatNN (r : ℝ) (n : ℕ) (x : Pd.Field (Cx ℝ)) (hx : FieldOK n x) : (beatNN r x).length = n := by
  cases h : x.noise with
  | none => simp [beatNN, h, hx.len]
  | some nz => simp [beatNN, h, length_powerRow (shaped_of_sameShape (hx.2 nz h))]

end OptiVerif.Pd
