/-
Helper lemmas for C09 end to end: `Model/PdFull.lean` (= C11's `Filter.lpf` after the pre-filter PD) read at ℝ.
Uses C11's theorems (`Props/C11.lean`, `Lemmas/Filter.lean`): linearity of `filtCore`, its length, its action on constants.
-/
import OptiVerif.Model.PdFull
import OptiVerif.Lemmas.PdInv
import OptiVerif.Props.C11

set_option linter.unusedSectionVars false
set_option linter.unusedVariables false
set_option linter.unusedSimpArgs false

namespace OptiVerif.PdFull
open OptiVerif OptiVerif.Pd OptiVerif.Filter

theorem map_re_toCx (xs : List ℝ) : (toCx xs).map Cx.re = xs := by
  simp [toCx, Function.comp_def]

theorem length_toCx (xs : List ℝ) : (toCx xs).length = xs.length := by simp [toCx]

/-- PD's output filter acts on the signal row and on the noise row by one and the same operator `filtCore secs edge`
    (C11's `filt_rows_lpf`) -/
theorem lpfPre_eq (secs : List (Sec ℝ)) (edge : ℕ) (p : Pre ℝ) (hs : edge < p.sig.length) (hn : edge < p.noise.length) :
    lpfPre secs edge p = .ok ⟨filtCore secs edge p.sig, filtCore secs edge p.noise⟩ := by
  unfold lpfPre
  have h := Props.C11.filt_rows_lpf secs edge ⟨[toCx p.sig], some [toCx p.noise]⟩
    (by intro r hr; simp at hr; subst hr; simpa [length_toCx] using hs)
    (by intro nz hnz r hr; simp at hnz; subst hnz; simp at hr; subst hr; simpa [length_toCx] using hn)
  rw [h]
  simp [map_re_toCx]

theorem zipWith_self_eq_map (f : ℝ → ℝ → ℝ) : ∀ xs : List ℝ, List.zipWith f xs xs = xs.map fun x => f x x
  | [] => rfl
  | x :: xs => by simp [zipWith_self_eq_map f xs]

/-- homogeneity of the filter -/
theorem filtCore_map_mul (secs : List (Sec ℝ)) (e : ℕ) (c : ℝ) (xs : List ℝ) :
    filtCore secs e (xs.map (c * ·)) = (filtCore secs e xs).map (c * ·) := by
  have h := filtCore_lin secs e c 0 xs xs rfl
  simp only [lin, zipWith_self_eq_map, zero_mul, add_zero] at h
  exact h

theorem filtCore_map_mul_right (secs : List (Sec ℝ)) (e : ℕ) (c : ℝ) (xs : List ℝ) :
    filtCore secs e (xs.map (· * c)) = (filtCore secs e xs).map (· * c) := by
  have h := filtCore_map_mul secs e c xs
  simpa [mul_comm] using h

/-- additivity of the filter -/
theorem filtCore_zipAdd (secs : List (Sec ℝ)) (e : ℕ) (a b : List ℝ) (h : a.length = b.length) :
    filtCore secs e (zipAdd a b) = zipAdd (filtCore secs e a) (filtCore secs e b) := by
  have := filtCore_lin secs e 1 1 a b h
  simpa [lin, zipAdd] using this

theorem map_mul_zipAdd (c : ℝ) (a b : List ℝ) : (zipAdd a b).map (· * c) = zipAdd (a.map (· * c)) (b.map (· * c)) := by
  have := zipAdd_map_mul c a b
  simpa [mul_comm] using this.symm

end OptiVerif.PdFull
