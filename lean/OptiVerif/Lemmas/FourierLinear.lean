/-
Linearity of the DFT model and of every frequency-domain filter built on it (C02, C07):
transform of a sum = sum of transforms, a zero row stays a zero row, the total field (signal + noise) of a transformed
container is the transform of the total field.
-/
import OptiVerif.Lemmas.Fourier
import OptiVerif.Model.Fiber

namespace OptiVerif.Fourier
open OptiVerif Finset

/-- element-wise sum of two rows, as numpy adds `signal + noise` -/
def addRows (xs ys : List (Cx ℝ)) : List (Cx ℝ) := List.zipWith (· + ·) xs ys

/-- a row scaled by a complex constant -/
def scaleRow (c : Cx ℝ) (xs : List (Cx ℝ)) : List (Cx ℝ) := xs.map (c * ·)

/-- the all-zero row of length n -/
def zeroRow (n : ℕ) : List (Cx ℝ) := List.replicate n czero

theorem length_addRows (xs ys : List (Cx ℝ)) (h : xs.length = ys.length) : (addRows xs ys).length = xs.length := by
  simp [addRows, h]

theorem nth_addRows (xs ys : List (Cx ℝ)) (h : xs.length = ys.length) (j : ℕ) (hj : j < xs.length) :
    nth (addRows xs ys) j = nth xs j + nth ys j := by
  rw [nth_eq_getElem _ _ (by rw [length_addRows xs ys h]; exact hj), nth_eq_getElem _ _ hj,
    nth_eq_getElem _ _ (by rw [← h]; exact hj)]
  simp [addRows]

theorem nth_scaleRow (c : Cx ℝ) (xs : List (Cx ℝ)) (j : ℕ) (hj : j < xs.length) :
    nth (scaleRow c xs) j = c * nth xs j := by
  rw [nth_eq_getElem _ _ (by simpa [scaleRow] using hj), nth_eq_getElem _ _ hj]
  simp [scaleRow]

theorem nth_zeroRow (n j : ℕ) : nth (zeroRow n) j = czero := by
  unfold nth zeroRow
  by_cases hj : j < n
  · simp [List.getD_eq_getElem?_getD, hj]
  · simp [List.getD_eq_getElem?_getD, hj]

/-! ### point level -/

theorem dftAt_add (x y : ℕ → Cx ℝ) (n k : ℕ) :
    dftAt (fun j => x j + y j) n k = dftAt x n k + dftAt y n k := by
  apply toC_injective
  simp only [toC_dftAt, Cx.toC_add, add_mul, Finset.sum_add_distrib]

theorem dftAt_smul (c : Cx ℝ) (x : ℕ → Cx ℝ) (n k : ℕ) :
    dftAt (fun j => c * x j) n k = c * dftAt x n k := by
  apply toC_injective
  simp only [toC_dftAt, Cx.toC_mul, Finset.mul_sum, mul_assoc]

theorem idftAt_add (x y : ℕ → Cx ℝ) (n k : ℕ) :
    idftAt (fun j => x j + y j) n k = idftAt x n k + idftAt y n k := by
  apply toC_injective
  simp only [toC_idftAt, Cx.toC_add, add_mul, Finset.sum_add_distrib, mul_add]

theorem idftAt_smul (c : Cx ℝ) (x : ℕ → Cx ℝ) (n k : ℕ) :
    idftAt (fun j => c * x j) n k = c * idftAt x n k := by
  apply toC_injective
  simp only [toC_idftAt, Cx.toC_mul, Finset.mul_sum]
  apply Finset.sum_congr rfl
  intro j _
  ring

theorem dftAt_congr (x y : ℕ → Cx ℝ) (n k : ℕ) (h : ∀ j, j < n → x j = y j) : dftAt x n k = dftAt y n k := by
  unfold dftAt
  apply sumN_congr
  intro j hj
  rw [h j hj]

theorem idftAt_congr (x y : ℕ → Cx ℝ) (n k : ℕ) (h : ∀ j, j < n → x j = y j) : idftAt x n k = idftAt y n k := by
  unfold idftAt
  congr 1
  apply sumN_congr
  intro j hj
  rw [h j hj]

/-! ### row level -/

theorem dft_add (xs ys : List (Cx ℝ)) (h : xs.length = ys.length) :
    dft (addRows xs ys) = addRows (dft xs) (dft ys) := by
  apply List.ext_getElem
  · rw [length_dft, length_addRows _ _ h, length_addRows _ _ (by rw [length_dft, length_dft, h]), length_dft]
  · intro k h1 h2
    have hk : k < xs.length := by rw [length_dft, length_addRows _ _ h] at h1; exact h1
    have e1 : (dft (addRows xs ys))[k] = dftAt (nth (addRows xs ys)) xs.length k := by
      simp [dft, length_addRows xs ys h]
    have e2 : (addRows (dft xs) (dft ys))[k] = dftAt (nth xs) xs.length k + dftAt (nth ys) xs.length k := by
      simp [addRows, dft, h]
    rw [e1, e2, ← dftAt_add]
    exact dftAt_congr _ _ _ _ (fun j hj => nth_addRows xs ys h j hj)

theorem idft_add (xs ys : List (Cx ℝ)) (h : xs.length = ys.length) :
    idft (addRows xs ys) = addRows (idft xs) (idft ys) := by
  apply List.ext_getElem
  · rw [length_idft, length_addRows _ _ h, length_addRows _ _ (by rw [length_idft, length_idft, h]), length_idft]
  · intro k h1 h2
    have e1 : (idft (addRows xs ys))[k] = idftAt (nth (addRows xs ys)) xs.length k := by
      simp [idft, length_addRows xs ys h]
    have e2 : (addRows (idft xs) (idft ys))[k] = idftAt (nth xs) xs.length k + idftAt (nth ys) xs.length k := by
      simp [addRows, idft, h]
    rw [e1, e2, ← idftAt_add]
    exact idftAt_congr _ _ _ _ (fun j hj => nth_addRows xs ys h j hj)

theorem dft_scale (c : Cx ℝ) (xs : List (Cx ℝ)) : dft (scaleRow c xs) = scaleRow c (dft xs) := by
  apply List.ext_getElem
  · simp [scaleRow, length_dft]
  · intro k h1 h2
    have e1 : (dft (scaleRow c xs))[k] = dftAt (nth (scaleRow c xs)) xs.length k := by simp [dft, scaleRow]
    have e2 : (scaleRow c (dft xs))[k] = c * dftAt (nth xs) xs.length k := by simp [scaleRow, dft]
    rw [e1, e2, ← dftAt_smul]
    exact dftAt_congr _ _ _ _ (fun j hj => nth_scaleRow c xs j hj)

theorem idft_scale (c : Cx ℝ) (xs : List (Cx ℝ)) : idft (scaleRow c xs) = scaleRow c (idft xs) := by
  apply List.ext_getElem
  · simp [scaleRow, length_idft]
  · intro k h1 h2
    have e1 : (idft (scaleRow c xs))[k] = idftAt (nth (scaleRow c xs)) xs.length k := by simp [idft, scaleRow]
    have e2 : (scaleRow c (idft xs))[k] = c * idftAt (nth xs) xs.length k := by simp [scaleRow, idft]
    rw [e1, e2, ← idftAt_smul]
    exact idftAt_congr _ _ _ _ (fun j hj => nth_scaleRow c xs j hj)

theorem czero_mul' (z : Cx ℝ) : (czero : Cx ℝ) * z = czero := by
  apply toC_injective
  simp [Cx.toC_mul, toC_czero]

theorem dftAt_zero (n k : ℕ) : dftAt (fun _ => (czero : Cx ℝ)) n k = czero := by
  apply toC_injective
  simp [toC_dftAt, toC_czero]

theorem idftAt_zero (n k : ℕ) : idftAt (fun _ => (czero : Cx ℝ)) n k = czero := by
  apply toC_injective
  simp [toC_idftAt, toC_czero]

/-- the spectrum of an unlit row is identically zero -/
theorem dft_zeroRow (n : ℕ) : dft (zeroRow n) = zeroRow n := by
  apply List.ext_getElem
  · simp [length_dft]
  · intro k h1 h2
    have e1 : (dft (zeroRow n))[k] = dftAt (nth (zeroRow n)) n k := by simp [dft, zeroRow]
    rw [e1, dftAt_congr _ (fun _ => czero) _ _ (fun j _ => nth_zeroRow n j), dftAt_zero]
    simp [zeroRow]

theorem idft_zeroRow (n : ℕ) : idft (zeroRow n) = zeroRow n := by
  apply List.ext_getElem
  · simp [length_idft]
  · intro k h1 h2
    have e1 : (idft (zeroRow n))[k] = idftAt (nth (zeroRow n)) n k := by simp [idft, zeroRow]
    rw [e1, idftAt_congr _ (fun _ => czero) _ _ (fun j _ => nth_zeroRow n j), idftAt_zero]
    simp [zeroRow]

end OptiVerif.Fourier

namespace OptiVerif.Fiber
open OptiVerif OptiVerif.Fourier

/-- any frequency-domain filter leaves an unlit row unlit (so a NaN or a non-zero sample there cannot come from the model) -/
theorem applyH_zeroRow (H : List (Cx ℝ)) (n : ℕ) (hH : H.length = n) : applyH H (zeroRow n) = zeroRow n := by
  unfold applyH
  rw [dft_zeroRow]
  have : List.zipWith (· * ·) (zeroRow n) H = zeroRow n := by
    apply List.ext_getElem
    · simp [zeroRow, hH]
    · intro k h1 h2
      simp only [List.getElem_zipWith]
      simp only [zeroRow, List.getElem_replicate]
      exact czero_mul' _
  rw [this, idft_zeroRow]

/-- a frequency-domain filter is additive -/
theorem applyH_add (H xs ys : List (Cx ℝ)) (h : xs.length = ys.length) (hH : H.length = xs.length) :
    applyH H (addRows xs ys) = addRows (applyH H xs) (applyH H ys) := by
  unfold applyH
  rw [dft_add xs ys h]
  have hl : (dft xs).length = (dft ys).length := by rw [length_dft, length_dft, h]
  have : List.zipWith (· * ·) (addRows (dft xs) (dft ys)) H
      = addRows (List.zipWith (· * ·) (dft xs) H) (List.zipWith (· * ·) (dft ys) H) := by
    apply List.ext_getElem
    · simp [addRows, length_dft, h, hH]
    · intro k h1 h2
      simp only [addRows, List.getElem_zipWith]
      apply toC_injective
      simp only [Cx.toC_mul, Cx.toC_add]
      ring
  rw [this]
  apply idft_add
  simp [length_dft, h, hH]

end OptiVerif.Fiber

namespace OptiVerif.Fourier

/-- a rotation commutes with an element-wise combination of two rows of equal length -/
theorem rot_zipWith {α} (f : α → α → α) (k : ℕ) (a b : List α) (h : a.length = b.length) :
    rot k (List.zipWith f a b) = List.zipWith f (rot k a) (rot k b) := by
  unfold rot
  simp only [List.length_zipWith, h, min_self]
  rw [List.zipWith_append (by simp [h])]
  simp [List.drop_zipWith, List.take_zipWith]

theorem fftshift_addRows (a b : List (Cx ℝ)) (h : a.length = b.length) :
    fftshift (addRows a b) = addRows (fftshift a) (fftshift b) := by
  unfold fftshift addRows
  simp only [List.length_zipWith, h, min_self]
  exact rot_zipWith _ _ a b h

theorem ifftshift_addRows (a b : List (Cx ℝ)) (h : a.length = b.length) :
    ifftshift (addRows a b) = addRows (ifftshift a) (ifftshift b) := by
  unfold ifftshift addRows
  simp only [List.length_zipWith, h, min_self]
  exact rot_zipWith _ _ a b h

theorem rot_replicate {α} (k n : ℕ) (z : α) : rot k (List.replicate n z) = List.replicate n z := by
  unfold rot
  simp only [List.length_replicate, List.drop_replicate, List.take_replicate]
  rw [List.replicate_append_replicate]
  congr 1
  rcases Nat.eq_zero_or_pos n with h | h
  · subst h; simp
  · have := Nat.mod_lt k h
    omega

end OptiVerif.Fourier
