/-
C13 (stretch, closed): the soft-decision error probability for M = 2 is `Q(μ/√(s0²+s1²))`.
`P(s0·Z0 − s1·Z1 ≤ μ)` is computed twice: as the law `N(0, s0²+s1²)` of the sum of the two independent Gaussians (Mathlib's
`gaussianReal_conv_gaussianReal`), and by integrating out `Z1` (`Measure.lintegral_conv`), which gives the Gaussian-weighted
integral the code hands to `quad`.
-/
import OptiVerif.Lemmas.BerGauss
import OptiVerif.Lemmas.BerSoft
import Mathlib.Probability.Distributions.Gaussian.Real
import Mathlib.MeasureTheory.Group.Convolution

open MeasureTheory ProbabilityTheory Set
open scoped ENNReal NNReal

namespace OptiVerif.Ber

/-- the standard normal law -/
noncomputable abbrev γ : Measure ℝ := gaussianReal 0 1

theorem gamma_Iic (t : ℝ) : γ (Iic t) = ENNReal.ofReal (1 - gQ t) := by
  have h : γ (Iic t) = 1 - γ (Ioi t) := by
    have : Iic t = (Ioi t)ᶜ := by ext y; simp
    rw [this, prob_compl_eq_one_sub measurableSet_Ioi]
  rw [h, gQ, ENNReal.ofReal_sub _ ENNReal.toReal_nonneg, ENNReal.ofReal_one, ENNReal.ofReal_toReal (measure_ne_top _ _)]

/-- law of `c·Z` -/
theorem gamma_map_mul (c : ℝ) : γ.map (c * ·) = gaussianReal 0 (NNReal.mk (c ^ 2) (sq_nonneg c)) := by
  have := gaussianReal_map_const_mul (μ := 0) (v := 1) c
  simpa using this

/-- `P(c·Z ≤ t) = 1 - Q(t/c)` for `c > 0` -/
theorem scaled_Iic (c : ℝ) (hc : 0 < c) (t : ℝ) : (γ.map (c * ·)) (Iic t) = ENNReal.ofReal (1 - gQ (t / c)) := by
  rw [Measure.map_apply (by fun_prop) measurableSet_Iic]
  have : (fun x => c * x) ⁻¹' Iic t = Iic (t / c) := by
    ext x; simp only [mem_preimage, mem_Iic]; rw [le_div_iff₀ hc, mul_comm]
  rw [this, gamma_Iic]

theorem gQ_measurable : Measurable gQ := gQ_antitone.measurable

theorem conv_identity (s0 s1 mu : ℝ) (hs0 : 0 < s0) (hs1 : 0 < s1) :
    ENNReal.ofReal (1 - gQ (mu / Real.sqrt (s0 ^ 2 + s1 ^ 2))) =
      ∫⁻ x, ENNReal.ofReal (1 - gQ ((mu + s1 * x) / s0)) ∂γ := by
  have hσ : 0 < Real.sqrt (s0 ^ 2 + s1 ^ 2) := Real.sqrt_pos.mpr (by positivity)
  have hlaw : (γ.map ((-s1) * ·)) ∗ (γ.map (s0 * ·)) = γ.map (Real.sqrt (s0 ^ 2 + s1 ^ 2) * ·) := by
    rw [gamma_map_mul, gamma_map_mul, gamma_map_mul, gaussianReal_conv_gaussianReal, add_zero]
    congr 1
    ext
    simp only [NNReal.coe_add, NNReal.coe_mk]
    rw [Real.sq_sqrt (by positivity)]
    ring
  have hL := scaled_Iic _ hσ mu
  rw [← hlaw] at hL
  rw [← hL]
  have : IsProbabilityMeasure (γ.map (s0 * ·)) := Measure.isProbabilityMeasure_map (by fun_prop)
  have hind : ((γ.map ((-s1) * ·)) ∗ (γ.map (s0 * ·))) (Iic mu) =
      ∫⁻ z, (Iic mu).indicator 1 z ∂((γ.map ((-s1) * ·)) ∗ (γ.map (s0 * ·))) := by
    rw [lintegral_indicator_one measurableSet_Iic]
  rw [hind, Measure.lintegral_conv (measurable_one.indicator measurableSet_Iic)]
  have hinner : ∀ x : ℝ, ∫⁻ y, (Iic mu).indicator (1 : ℝ → ℝ≥0∞) (x + y) ∂(γ.map (s0 * ·)) =
      ENNReal.ofReal (1 - gQ ((mu - x) / s0)) := by
    intro x
    have : (fun y => (Iic mu).indicator (1 : ℝ → ℝ≥0∞) (x + y)) = (Iic (mu - x)).indicator 1 := by
      funext y
      simp only [indicator, mem_Iic, Pi.one_apply]
      have : x + y ≤ mu ↔ y ≤ mu - x := by constructor <;> intro h <;> linarith
      simp [this]
    rw [this, lintegral_indicator_one measurableSet_Iic, scaled_Iic s0 hs0]
  simp_rw [hinner]
  rw [lintegral_map (by
    apply ENNReal.measurable_ofReal.comp
    exact measurable_const.sub (gQ_measurable.comp (by fun_prop))) (by fun_prop)]
  congr 1
  funext x
  congr 3
  ring

/-- **soft_M2**: for `M = 2` the soft-decision error probability computed from the integral the code hands to `quad` is
    `Q(μ/√(s0²+s1²))` — `P(s0·Z0 − s1·Z1 > μ)` for independent standard normals, by the convolution of Gaussian laws -/
theorem soft_M2_aux (mu s0 s1 : ℝ) (hs0 : 0 < s0) (hs1 : 0 < s1) :
    softFrom (∫ x, softIntegrand gQ 2 mu s0 s1 x) = gQ (mu / Real.sqrt (s0 ^ 2 + s1 ^ 2)) := by
  set f : ℝ → ℝ := fun x => 1 - gQ ((mu + s1 * x) / s0) with hf
  have hf0 : ∀ x, 0 ≤ f x := fun x => by simp only [hf]; linarith [gQ_le_one ((mu + s1 * x) / s0)]
  have hf1 : ∀ x, f x ≤ 1 := fun x => by simp only [hf]; linarith [gQ_nonneg ((mu + s1 * x) / s0)]
  have hfm : Measurable f := measurable_const.sub (gQ_measurable.comp (by fun_prop))
  have hfi : Integrable f γ := by
    apply (integrable_const (1 : ℝ)).mono' hfm.aestronglyMeasurable
    filter_upwards with x
    rw [Real.norm_eq_abs, abs_of_nonneg (hf0 x)]
    exact hf1 x
  have h1 := conv_identity s0 s1 mu hs0 hs1
  rw [← ofReal_integral_eq_lintegral_ofReal hfi (Filter.Eventually.of_forall hf0)] at h1
  have hnn : 0 ≤ 1 - gQ (mu / Real.sqrt (s0 ^ 2 + s1 ^ 2)) := by linarith [gQ_le_one (mu / Real.sqrt (s0 ^ 2 + s1 ^ 2))]
  have h2 : 1 - gQ (mu / Real.sqrt (s0 ^ 2 + s1 ^ 2)) = ∫ x, f x ∂γ :=
    (ENNReal.ofReal_eq_ofReal_iff hnn (integral_nonneg hf0)).mp h1
  rw [integral_gaussianReal_eq_integral_smul (by norm_num : (1 : ℝ≥0) ≠ 0)] at h2
  have h3 : (fun x => gaussianPDFReal 0 1 x • f x) =
      fun x => (Real.sqrt (2 * Real.pi))⁻¹ * softIntegrand gQ 2 mu s0 s1 x := by
    funext x
    rw [softIntegrand_real, gaussianPDFReal_def]
    simp only [hf, smul_eq_mul, NNReal.coe_one, mul_one, sub_zero, pow_one, Nat.add_one_sub_one]
    have : -x ^ 2 / 2 = -(1 / 2) * x ^ 2 := by ring
    rw [this]
    ring
  rw [h3, integral_const_mul] at h2
  simp only [softFrom, lit_real, Nat.cast_one, Nat.cast_ofNat, Transc.sqrt_real, Transc.pi_real]
  rw [one_div]
  linarith

end OptiVerif.Ber
