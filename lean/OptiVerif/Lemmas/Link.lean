/-
Lemmas for the noise-free link (C03): the sampler inverts the slot expansion, mid-level decisions.
-/
import OptiVerif.Model.Link
import OptiVerif.Lemmas.NumReal
import Mathlib.Tactic.Linarith
import Mathlib.Tactic.Ring
import Mathlib.Tactic.Positivity

namespace OptiVerif.Link
open OptiVerif

theorem sampleFrom_append {R : Type} [NatCast R] (pre rest : List R) (j sps m : ℕ) :
    sampleFrom (pre ++ rest) (j + pre.length) sps m = sampleFrom rest j sps m := by
  induction m generalizing j with
  | zero => rfl
  | succ m ih =>
    simp only [sampleFrom]
    have hget : (pre ++ rest).getD (j + pre.length) ((0 : ℕ) : R) = rest.getD j ((0 : ℕ) : R) := by
      simp [List.getD_eq_getElem?_getD, List.getElem?_append_right (Nat.le_add_left _ _)]
    rw [hget]
    congr 1
    have : j + pre.length + sps = (j + sps) + pre.length := by omega
    rw [this, ih]

theorem sampleFrom_length {R : Type} [NatCast R] (xs : List R) (i sps m : ℕ) : (sampleFrom xs i sps m).length = m := by
  induction m generalizing i with
  | zero => rfl
  | succ m ih => simp [sampleFrom, ih]

theorem length_flatMap_replicate {α β : Type} (f : α → β) (sps : ℕ) (bits : List α) :
    (bits.flatMap (fun b => List.replicate sps (f b))).length = bits.length * sps := by
  induction bits with
  | nil => simp
  | cons b bs ih => simp [List.flatMap_cons, ih]; ring

/-- sampling a slot-expanded sequence at any instant inside the slot returns one value per slot -/
theorem sampleFrom_slots {R : Type} [NatCast R] (vals : List R) (sps i : ℕ) (hi : i < sps) :
    sampleFrom (vals.flatMap (fun v => List.replicate sps v)) i sps vals.length = vals := by
  induction vals with
  | nil => rfl
  | cons v vs ih =>
    simp only [List.flatMap_cons, List.length_cons, sampleFrom]
    have hget : (List.replicate sps v ++ vs.flatMap (fun v => List.replicate sps v)).getD i ((0 : ℕ) : R) = v := by
      simp [List.getD_eq_getElem?_getD, List.getElem?_append_left, hi]
    rw [hget]
    congr 1
    have h := sampleFrom_append (List.replicate sps v) (vs.flatMap (fun v => List.replicate sps v)) i sps vs.length
    simp only [List.length_replicate] at h
    rw [h, ih]

theorem sampler_slots {R : Type} [NatCast R] (vals : List R) (sps i : ℕ) (hi : i < sps) :
    sampler (vals.flatMap (fun v => List.replicate sps v)) i sps = vals := by
  have hs : sps ≠ 0 := by omega
  simp only [sampler, hs, if_false, length_flatMap_replicate (fun v => v)]
  have : (vals.length * sps + sps - 1 - i) / sps = vals.length := by
    have h1 : vals.length * sps + sps - 1 - i = vals.length * sps + (sps - 1 - i) := by omega
    rw [h1, Nat.mul_comm, Nat.mul_add_div (by omega : 0 < sps)]
    have : (sps - 1 - i) / sps = 0 := Nat.div_eq_of_lt (by omega)
    omega
  rw [this]
  exact sampleFrom_slots vals sps i hi

theorem map_flatMap_replicate {α β γ : Type} (g : β → γ) (f : α → β) (sps : ℕ) (bits : List α) :
    (bits.flatMap (fun b => List.replicate sps (f b))).map g
      = (bits.map (fun b => g (f b))).flatMap (fun v => List.replicate sps v) := by
  induction bits with
  | nil => rfl
  | cons b bs ih => simp [List.flatMap_cons, ih]

/-- decision at the mid level: exact levels -/
theorem decide_level (v0 v1 : ℝ) (h : v0 ≠ v1) (b : Bool) :
    decideBit v0 v1 (if b then v1 else v0) ((v0 + v1) / 2) = b := by
  have hd : 0 < (v1 - v0) * (v1 - v0) := by
    have : v1 - v0 ≠ 0 := sub_ne_zero.mpr (Ne.symm h)
    exact mul_self_pos.mpr this
  cases b
  · simp only [decideBit, Bool.false_eq_true, if_false, Nat.cast_zero, decide_eq_false_iff_not, not_lt]
    nlinarith
  · simp only [decideBit, if_true, Nat.cast_zero, decide_eq_true_eq]
    nlinarith

/-- decision at the mid level: any received value closer than half the level gap to its own level -/
theorem decide_margin (v0 v1 y : ℝ) (b : Bool)
    (hy : |y - (if b then v1 else v0)| < |v1 - v0| / 2) :
    decideBit v0 v1 y ((v0 + v1) / 2) = b := by
  have habs := abs_lt.mp hy
  cases b
  · simp only [Bool.false_eq_true, if_false] at habs
    simp only [decideBit, Nat.cast_zero, decide_eq_false_iff_not, not_lt]
    rcases le_or_gt 0 (v1 - v0) with hd | hd
    · rw [abs_of_nonneg hd] at habs
      nlinarith
    · rw [abs_of_neg hd] at habs
      nlinarith
  · simp only [if_true] at habs
    simp only [decideBit, Nat.cast_zero, decide_eq_true_eq]
    rcases le_or_gt 0 (v1 - v0) with hd | hd
    · rw [abs_of_nonneg hd] at habs
      nlinarith
    · rw [abs_of_neg hd] at habs
      nlinarith

end OptiVerif.Link
