/-
Further lemmas about the ADC quantiser (Model/Quant.lean): monotonicity of rounding / clipping / the code map,
re-quantisation of a level, and equivariance under a change of units.
-/
import OptiVerif.Lemmas.Quant

namespace OptiVerif.Quant
open OptiVerif

theorem roundHalfEven_bounds (q : Rat) : q.floor ≤ roundHalfEven q ∧ roundHalfEven q ≤ q.floor + 1 := by
  unfold roundHalfEven
  simp only
  split_ifs <;> omega

/-- `np.round` is monotone -/
theorem roundHalfEven_mono {q q' : Rat} (h : q ≤ q') : roundHalfEven q ≤ roundHalfEven q' := by
  have hf : q.floor ≤ q'.floor := by
    have h1 := Rat.floor_le q
    have h2 := Rat.lt_floor_add_one q'
    have : ((q.floor : Int) : Rat) < ((q'.floor + 1 : Int) : Rat) := by push_cast at h2 ⊢; linarith
    have : q.floor < q'.floor + 1 := by exact_mod_cast this
    omega
  rcases lt_or_eq_of_le hf with hlt | heq
  · have h1 := (roundHalfEven_bounds q).2
    have h2 := (roundHalfEven_bounds q').1
    omega
  · have hd : q - (q'.floor : Rat) ≤ q' - (q'.floor : Rat) := by linarith
    unfold roundHalfEven
    simp only
    rw [heq]
    split_ifs <;> first | omega | (exfalso; linarith)

/-- rounding an integer leaves it unchanged -/
theorem roundHalfEven_int (c : Int) : roundHalfEven (c : Rat) = c := by
  have hf : (c : Rat).floor = c := by
    have h1 := Rat.floor_le (c : Rat)
    have h2 := Rat.lt_floor_add_one (c : Rat)
    have a1 : (c : Rat).floor ≤ c := by exact_mod_cast h1
    have a2 : c < (c : Rat).floor + 1 := by exact_mod_cast h2
    omega
  unfold roundHalfEven
  simp only
  rw [hf]
  simp

/-- `np.clip` is monotone -/
theorem clip_mono (lo hi : Int) {x y : Int} (h : x ≤ y) : clip lo hi x ≤ clip lo hi y := by
  unfold clip
  split_ifs <;> omega

theorem pos_mono (vmin vmax : Rat) (n : Nat) (hr : vmin < vmax) {s s' : Rat} (h : s ≤ s') :
    pos vmin vmax n s ≤ pos vmin vmax n s' := by
  have htop : (0 : Rat) ≤ ((top n : Int) : Rat) := by exact_mod_cast top_nonneg n
  have hd : 0 < vmax - vmin := by linarith
  unfold pos
  apply mul_le_mul_of_nonneg_right _ htop
  apply div_le_div_of_nonneg_right _ hd.le
  linarith

/-- the code map is monotone: a larger sample never gets a smaller code -/
theorem code_mono (vmin vmax : Rat) (n : Nat) (hr : vmin < vmax) {s s' : Rat} (h : s ≤ s') :
    code vmin vmax n s ≤ code vmin vmax n s' := by
  rw [code_eq, code_eq]
  exact clip_mono 0 (top n) (roundHalfEven_mono (pos_mono vmin vmax n hr h))

/-- the scaled position of a level is its code -/
theorem pos_level (vmin vmax : Rat) (n : Nat) (hn : 1 ≤ n) (hr : vmin < vmax) (c : Int) :
    pos vmin vmax n (level vmin vmax n c) = (c : Rat) := by
  have htop : (0 : Rat) < ((top n : Int) : Rat) := by exact_mod_cast top_pos n hn
  have hd : vmax - vmin ≠ 0 := by linarith
  unfold pos level
  field_simp
  ring

/-- re-quantising a level gives back its code -/
theorem code_level (vmin vmax : Rat) (n : Nat) (hn : 1 ≤ n) (hr : vmin < vmax) (c : Int) (h0 : 0 ≤ c) (h1 : c ≤ top n) :
    code vmin vmax n (level vmin vmax n c) = c := by
  rw [code_eq, pos_level vmin vmax n hn hr, roundHalfEven_int]
  unfold clip
  split_ifs <;> omega

/-- the scaled position does not depend on the unit of the samples -/
theorem pos_affine (vmin vmax : Rat) (n : Nat) (a b : Rat) (ha : 0 < a) (hr : vmin < vmax) (s : Rat) :
    pos (a * vmin + b) (a * vmax + b) n (a * s + b) = pos vmin vmax n s := by
  have hd : vmax - vmin ≠ 0 := by linarith
  have ha' : a ≠ 0 := ha.ne'
  unfold pos
  have : (a * s + b - (a * vmin + b)) / (a * vmax + b - (a * vmin + b)) = (s - vmin) / (vmax - vmin) := by
    have e1 : a * s + b - (a * vmin + b) = a * (s - vmin) := by ring
    have e2 : a * vmax + b - (a * vmin + b) = a * (vmax - vmin) := by ring
    rw [e1, e2, mul_div_mul_left _ _ ha']
  rw [this]

theorem level_affine (vmin vmax : Rat) (n : Nat) (a b : Rat) (c : Int) (hn : 1 ≤ n) :
    level (a * vmin + b) (a * vmax + b) n c = a * level vmin vmax n c + b := by
  have htop : (0 : Rat) < ((top n : Int) : Rat) := by exact_mod_cast top_pos n hn
  unfold level
  field_simp
  ring

end OptiVerif.Quant
