/-
Helper lemmas for the Gaussian branch of DAC (C05): the generic model `Model/DacGauss.lean` read at `R := ℝ`.
-/
import OptiVerif.Lemmas.NumReal
import OptiVerif.Model.DacGauss
import Mathlib.Algebra.BigOperators.Group.Finset.Basic
import Mathlib.Algebra.BigOperators.Ring.Finset
import Mathlib.Tactic.Ring
import Mathlib.Tactic.Linarith
import Mathlib.Tactic.FieldSimp
import Mathlib.Tactic.Positivity

namespace OptiVerif.DacGauss
open OptiVerif OptiVerif.Gen.DacGauss

/-! ### literals, powers, the factor k -/

@[simp] theorem lit_real (n : ℕ) : (lit n : ℝ) = (n : ℝ) := rfl

theorem ipow_real (x : ℝ) (n : ℕ) : ipow x n = x ^ n := by
  induction n with
  | zero => simp [ipow]
  | succ n ih => rw [ipow, ih, pow_succ']

theorem rpow_real (a b : ℝ) : rpow a b = Real.exp (b * Real.log a) := rfl

theorem two_log_two_pos : (0 : ℝ) < 2 * Real.log 2 := by
  have : (0 : ℝ) < Real.log 2 := Real.log_pos (by norm_num)
  linarith

/-- the code's `k` over ℝ -/
theorem kFormula_real (m : ℕ) :
    (kFormula m : ℝ) = 2 * Real.exp (1 / (2 * (m : ℝ)) * Real.log (2 * Real.log 2)) := by
  simp [kFormula, rpow]

theorem kFormula_pos (m : ℕ) : (0 : ℝ) < kFormula m := by
  rw [kFormula_real]; positivity

/-- what `k` is for: `(k/2)^(2m) = 2·ln 2` -/
theorem kFormula_half_pow (m : ℕ) (hm : 1 ≤ m) : ((kFormula m : ℝ) / 2) ^ (2 * m) = 2 * Real.log 2 := by
  rw [kFormula_real]
  have h1 : 2 * Real.exp (1 / (2 * (m : ℝ)) * Real.log (2 * Real.log 2)) / 2
      = Real.exp (1 / (2 * (m : ℝ)) * Real.log (2 * Real.log 2)) := by ring
  rw [h1, ← Real.exp_nat_mul]
  have hm' : (m : ℝ) ≠ 0 := by exact_mod_cast (by omega : m ≠ 0)
  have h2 : ((2 * m : ℕ) : ℝ) * (1 / (2 * (m : ℝ)) * Real.log (2 * Real.log 2)) = Real.log (2 * Real.log 2) := by
    push_cast; field_simp
  rw [h2, Real.exp_log two_log_two_pos]

/-! ### modulus of the prototype pulse -/

/-- modulus of a complex sample -/
noncomputable def cabs (z : Cx ℝ) : ℝ := Real.sqrt z.normSq

theorem cabs_exp (z : Cx ℝ) : cabs (Cx.exp z) = Real.exp z.re := by
  unfold cabs Cx.exp
  have : (Cx.smul (Transc.exp z.re) (Cx.cis z.im) : Cx ℝ).normSq
      = Real.exp z.re * Real.exp z.re * (Cx.cis z.im : Cx ℝ).normSq := by
    simp [Cx.smul, Cx.normSq]; ring
  rw [this, Cx.normSq_cis, mul_one, Real.sqrt_mul_self (Real.exp_pos _).le]

theorem cabs_pulseAt (c : ℝ) (m : ℕ) (t Tw : ℝ) :
    cabs (pulseAt c m t Tw) = Real.exp (-(1 / 2) * (t / Tw) ^ (2 * m)) := by
  unfold pulseAt
  rw [cabs_exp]
  simp only [ipow_real, pulseExpFactor, pulseDen, lit_real]
  congr 1
  push_cast
  ring

theorem pulseAt_neg (c : ℝ) (m : ℕ) (t Tw : ℝ) : pulseAt c m (-t) Tw = pulseAt c m t Tw := by
  unfold pulseAt
  simp only [ipow_real, pulseExpFactor]
  rw [neg_div Tw t, Even.neg_pow (even_two_mul m)]

/-- `t ↦ |p(t)|` is strictly decreasing on `t ≥ 0` -/
theorem cabs_pulseAt_strictAnti (c : ℝ) (m : ℕ) (hm : 1 ≤ m) (Tw : ℝ) (hT : 0 < Tw) :
    StrictAntiOn (fun t => cabs (pulseAt c m t Tw)) (Set.Ici 0) := by
  intro a ha b _ hab
  simp only [Set.mem_Ici] at ha
  simp only [cabs_pulseAt]
  apply Real.exp_lt_exp.mpr
  have h1 : a / Tw < b / Tw := div_lt_div_of_pos_right hab hT
  have h0 : 0 ≤ a / Tw := div_nonneg ha hT.le
  have := pow_lt_pow_left₀ h1 h0 (by omega : 2 * m ≠ 0)
  linarith

theorem cabs_pulseAt_abs (c : ℝ) (m : ℕ) (t Tw : ℝ) : cabs (pulseAt c m t Tw) = cabs (pulseAt c m |t| Tw) := by
  rcases abs_cases t with ⟨h, _⟩ | ⟨h, _⟩
  · rw [h]
  · rw [h, pulseAt_neg]

theorem cabs_pulseAt_half (c : ℝ) (m : ℕ) (hm : 1 ≤ m) (T : ℝ) (hT : T ≠ 0) :
    cabs (pulseAt c m (T / 2) (T / kFormula m)) = 1 / 2 := by
  rw [cabs_pulseAt]
  have hk : (kFormula m : ℝ) ≠ 0 := (kFormula_pos m).ne'
  have : T / 2 / (T / kFormula m) = (kFormula m : ℝ) / 2 := by field_simp
  rw [this, kFormula_half_pow m hm]
  have : -(1 / 2) * (2 * Real.log 2) = -Real.log 2 := by ring
  rw [this, Real.exp_neg, Real.exp_log (by norm_num)]
  norm_num

/-! ### the impulse train -/

theorem length_setStride (s : List ℝ) (a step : ℕ) (data : List ℝ) : (setStride s a step data).length = s.length := by
  simp [setStride]

/-- position `j` is written by `s[a::sps] = …` iff `j ≡ a (mod sps)` (for `a < sps`), and then with element `j / sps` -/
theorem stride_hit (a sps j : ℕ) (ha : a < sps) : (a ≤ j ∧ (j - a) % sps = 0) ↔ j % sps = a := by
  constructor
  · rintro ⟨h1, h2⟩
    obtain ⟨q, hq⟩ := Nat.dvd_of_mod_eq_zero h2
    have : j = a + sps * q := by omega
    rw [this, Nat.add_mul_mod_self_left, Nat.mod_eq_of_lt ha]
  · intro h
    have hj := Nat.div_add_mod j sps
    rw [h] at hj
    refine ⟨by omega, ?_⟩
    have : j - a = sps * (j / sps) := by omega
    rw [this, Nat.mul_mod_right]

theorem stride_index (a sps j : ℕ) (h : j % sps = a) (hs : 0 < sps) : (j - a) / sps = j / sps := by
  have hj := Nat.div_add_mod j sps
  rw [h] at hj
  have : j - a = sps * (j / sps) := by omega
  rw [this, Nat.mul_div_cancel_left _ hs]

theorem getElem?_setStride (s : List ℝ) (a step : ℕ) (data : List ℝ) (j : ℕ) :
    (setStride s a step data)[j]? = s[j]?.map (strideVal a step data j) := by
  simp [setStride, List.getElem?_mapIdx]

theorem strideVal_hit (a sps : ℕ) (data : List ℝ) (j : ℕ) (x : ℝ) (ha : a < sps) (h : j % sps = a)
    (hq : j / sps < data.length) : strideVal a sps data j x = data[j / sps] := by
  unfold strideVal
  rw [if_pos ((stride_hit a sps j ha).mpr h), stride_index a sps j h (by omega), List.getElem?_eq_getElem hq]

theorem strideVal_miss (a sps : ℕ) (data : List ℝ) (j : ℕ) (x : ℝ) (ha : a < sps) (h : j % sps ≠ a) :
    strideVal a sps data j x = x := by
  unfold strideVal
  rw [if_neg (fun hh => h ((stride_hit a sps j ha).mp hh))]

theorem length_train (data : List ℝ) (sps : ℕ) : (train data sps).length = data.length * sps := by
  simp [train, length_setStride]

theorem strides (sps : ℕ) (hs : 2 ≤ sps) :
    strideA sps = sps / 2 ∧ strideB sps = sps / 2 - 1 ∧ strideA sps < sps ∧ strideB sps < sps ∧ strideA sps ≠ strideB sps := by
  refine ⟨rfl, rfl, ?_, ?_, ?_⟩ <;> simp only [strideA, strideB] <;> omega

/-- value of the impulse train at position `j` of slot `j / sps` -/
theorem getElem?_train (data : List ℝ) (sps : ℕ) (hs : 2 ≤ sps) (j : ℕ) (hj : j < data.length * sps) :
    (train data sps)[j]? =
      if j % sps = strideA sps ∨ j % sps = strideB sps then data[j / sps]? else some 0 := by
  obtain ⟨-, -, hA, hB, hAB⟩ := strides sps hs
  have hq : j / sps < data.length := (Nat.div_lt_iff_lt_mul (by omega)).mpr hj
  unfold train
  rw [getElem?_setStride, getElem?_setStride, List.getElem?_replicate, if_pos hj]
  simp only [Option.map_some]
  by_cases h2 : j % sps = strideB sps
  · rw [strideVal_hit _ _ _ _ _ hB h2 hq, if_pos (Or.inr h2), List.getElem?_eq_getElem hq]
  · rw [strideVal_miss _ _ _ _ _ hB h2]
    by_cases h1 : j % sps = strideA sps
    · rw [strideVal_hit _ _ _ _ _ hA h1 hq, if_pos (Or.inl h1), List.getElem?_eq_getElem hq]
    · rw [strideVal_miss _ _ _ _ _ hA h1, if_neg (by tauto)]
      simp

/-! ### the convolution -/

/-- a real sample, zero outside the list -/
def optR : Option ℝ → ℝ
  | some a => a
  | none => 0

/-- a complex sample as a complex number, zero outside the list (the zero padding of the convolution) -/
noncomputable def optC : Option (Cx ℝ) → ℂ
  | some b => b.toC
  | none => 0

/-- sample `z ∈ ℤ` of the pulse list, zero outside -/
noncomputable def Hc (h : List (Cx ℝ)) (z : ℤ) : ℂ := if 0 ≤ z then optC h[z.toNat]? else 0

theorem toC_smul (a : ℝ) (b : Cx ℝ) : (Cx.smul a b).toC = (a : ℂ) * b.toC := by
  apply Complex.ext <;> simp [Cx.smul]

theorem toC_cxZero : (cxZero : Cx ℝ).toC = 0 := by
  apply Complex.ext <;> simp [cxZero]

theorem toC_cdiv (z : Cx ℝ) (d : ℝ) : (cdiv z d).toC = z.toC / (d : ℂ) := by
  apply Complex.ext <;> simp [cdiv, Complex.div_ofReal_re, Complex.div_ofReal_im]

theorem convStep_toC (oa : Option ℝ) (ob : Option (Cx ℝ)) (acc : Cx ℝ) :
    (convStep oa ob acc).toC = acc.toC + (optR oa : ℂ) * optC ob := by
  cases oa <;> cases ob <;> simp [convStep, optR, optC, Cx.toC_add, toC_smul]

theorem lookup_Hc (h : List (Cx ℝ)) (c i k : ℕ) :
    optC (if k ≤ c + i then h.toArray[c + i - k]? else none) = Hc h (((c + i : ℕ) : ℤ) - (k : ℤ)) := by
  unfold Hc
  by_cases hk : k ≤ c + i
  · have h0 : (0 : ℤ) ≤ ((c + i : ℕ) : ℤ) - (k : ℤ) := by omega
    have h1 : (((c + i : ℕ) : ℤ) - (k : ℤ)).toNat = c + i - k := by omega
    rw [if_pos hk, if_pos h0, h1]
    simp
  · have h0 : ¬ (0 : ℤ) ≤ ((c + i : ℕ) : ℤ) - (k : ℤ) := by omega
    rw [if_neg hk, if_neg h0]
    rfl

theorem foldl_convStep (s : List ℝ) (h : List (Cx ℝ)) (c i n : ℕ) (acc : Cx ℝ) :
    ((List.range n).foldl (fun acc k =>
        convStep s.toArray[k]? (if k ≤ c + i then h.toArray[c + i - k]? else none) acc) acc).toC
      = acc.toC + ∑ k ∈ Finset.range n, (optR s[k]? : ℂ) * Hc h (((c + i : ℕ) : ℤ) - (k : ℤ)) := by
  induction n with
  | zero => simp
  | succ n ih =>
    rw [List.range_succ, List.foldl_append, List.foldl_cons, List.foldl_nil, convStep_toC, ih, Finset.sum_range_succ,
      lookup_Hc]
    simp only [List.getElem?_toArray]
    ring

theorem length_convSame (s : List ℝ) (h : List (Cx ℝ)) : (convSame s h).length = s.length := by simp [convSame]

/-- **direct-sum form of `fftconvolve(s, h, "same")`**: `out[i] = Σ_k s[k]·h[start + i − k]` with zero padding -/
theorem convSame_spec (s : List ℝ) (h : List (Cx ℝ)) (i : ℕ) (hi : i < s.length) :
    ∃ z, (convSame s h)[i]? = some z ∧
      z.toC = ∑ k ∈ Finset.range s.length, (optR s[k]? : ℂ) * Hc h (((sameStart h.length + i : ℕ) : ℤ) - (k : ℤ)) := by
  have key : (convSame s h)[i]? = some ((List.range s.length).foldl (fun acc k =>
      convStep s.toArray[k]? (if k ≤ sameStart h.length + i then h.toArray[sameStart h.length + i - k]? else none) acc)
      cxZero) := by
    unfold convSame
    simp only [List.getElem?_map, List.getElem?_range hi, Option.map_some]
  exact ⟨_, key, by rw [foldl_convStep, toC_cxZero, zero_add]⟩

theorem length_core (data : List ℝ) (sps : ℕ) (c : ℝ) (m T : ℕ) : (core data sps c m T).length = data.length * sps := by
  simp [core, length_convSame, length_train]

/-- the impulse train as a superposition over the slots: position `k` carries `Σ_q data[q]·([k = q·sps + a₁] + [k = q·sps + a₂])` -/
theorem train_as_sum (data : List ℝ) (sps : ℕ) (hs : 2 ≤ sps) (k : ℕ) (hk : k < data.length * sps) :
    optR (train data sps)[k]? = ∑ q ∈ Finset.range data.length,
      optR data[q]? * ((if k = q * sps + strideA sps then 1 else 0) + (if k = q * sps + strideB sps then 1 else 0)) := by
  obtain ⟨-, -, hA, hB, hAB⟩ := strides sps hs
  have hq : k / sps < data.length := (Nat.div_lt_iff_lt_mul (by omega)).mpr hk
  have hdm := Nat.div_add_mod k sps
  rw [Finset.sum_eq_single (k / sps)]
  · rw [getElem?_train data sps hs k hk]
    have e1 : (k = k / sps * sps + strideA sps) ↔ k % sps = strideA sps := by
      constructor
      · intro h; rw [Nat.mul_comm] at h; omega
      · intro h; rw [Nat.mul_comm]; omega
    have e2 : (k = k / sps * sps + strideB sps) ↔ k % sps = strideB sps := by
      constructor
      · intro h; rw [Nat.mul_comm] at h; omega
      · intro h; rw [Nat.mul_comm]; omega
    simp only [e1, e2]
    by_cases h1 : k % sps = strideA sps
    · have h2 : ¬ k % sps = strideB sps := by rw [h1]; exact hAB
      simp [h1, hAB]
    · by_cases h2 : k % sps = strideB sps
      · simp [h2, hAB.symm]
      · simp [h1, h2, optR]
  · intro q _ hne
    have n1 : ¬ k = q * sps + strideA sps := by
      intro h
      apply hne
      have : k / sps = q := by
        rw [h, Nat.add_comm, Nat.add_mul_div_right _ _ (by omega : 0 < sps), Nat.div_eq_of_lt hA, Nat.zero_add]
      exact this.symm
    have n2 : ¬ k = q * sps + strideB sps := by
      intro h
      apply hne
      have : k / sps = q := by
        rw [h, Nat.add_comm, Nat.add_mul_div_right _ _ (by omega : 0 < sps), Nat.div_eq_of_lt hB, Nat.zero_add]
      exact this.symm
    simp [n1, n2]
  · intro hnot
    exact absurd (Finset.mem_range.mpr hq) hnot

theorem sum_indicator (N k0 : ℕ) (hk0 : k0 < N) (F : ℕ → ℂ) :
    ∑ k ∈ Finset.range N, (((if k = k0 then (1 : ℝ) else 0 : ℝ) : ℂ)) * F k = F k0 := by
  rw [Finset.sum_eq_single k0]
  · simp
  · intro k _ hne; simp [hne]
  · intro h; exact absurd (Finset.mem_range.mpr hk0) h

/-- the waveform of ONE isolated bit, as a function of the offset `n ∈ ℤ` from the start of its slot: the average of the two
    impulse responses (pulse sampled on its grid, zero outside: truncation at ±4·sps), with scipy's "same" centring -/
noncomputable def W (h : List (Cx ℝ)) (sps : ℕ) (n : ℤ) : ℂ :=
  (Hc h ((sameStart h.length : ℤ) + n - (strideA sps : ℤ)) + Hc h ((sameStart h.length : ℤ) + n - (strideB sps : ℤ))) / 2

/-- **superposition**: sample `i` of the Gaussian waveform is `Σ_q data[q]·W(i − q·sps)` -/
theorem core_superposition (data : List ℝ) (sps : ℕ) (hs : 2 ≤ sps) (c : ℝ) (m T : ℕ) (i : ℕ)
    (hi : i < data.length * sps) :
    ∃ z, (core data sps c m T)[i]? = some z ∧
      z.toC = ∑ q ∈ Finset.range data.length,
        (optR data[q]? : ℂ) * W (pulse c m T sps) sps ((i : ℤ) - ((q * sps : ℕ) : ℤ)) := by
  obtain ⟨-, -, hA, hB, -⟩ := strides sps hs
  have hi' : i < (train data sps).length := by rw [length_train]; exact hi
  obtain ⟨z0, hz0, hsum⟩ := convSame_spec (train data sps) (pulse c m T sps) i hi'
  refine ⟨cdiv z0 (lit convDiv), ?_, ?_⟩
  · unfold core
    rw [List.getElem?_map, hz0]; rfl
  · rw [toC_cdiv, hsum, length_train]
    have hd : ((lit convDiv : ℝ) : ℂ) = 2 := by simp [convDiv]
    rw [hd]
    set st := sameStart (pulse c m T sps).length with hst
    set h := pulse c m T sps with hh
    -- replace the train by its superposition form
    have step1 : ∀ k ∈ Finset.range (data.length * sps),
        (optR (train data sps)[k]? : ℂ) * Hc h (((st + i : ℕ) : ℤ) - (k : ℤ)) =
        ∑ q ∈ Finset.range data.length, (optR data[q]? : ℂ) *
          ((((if k = q * sps + strideA sps then (1 : ℝ) else 0 : ℝ) : ℂ)) * Hc h (((st + i : ℕ) : ℤ) - (k : ℤ)) +
           (((if k = q * sps + strideB sps then (1 : ℝ) else 0 : ℝ) : ℂ)) * Hc h (((st + i : ℕ) : ℤ) - (k : ℤ))) := by
      intro k hk
      rw [train_as_sum data sps hs k (Finset.mem_range.mp hk)]
      push_cast
      rw [Finset.sum_mul]
      apply Finset.sum_congr rfl
      intro q _
      ring
    rw [Finset.sum_congr rfl step1, Finset.sum_comm, div_eq_mul_inv, Finset.sum_mul]
    apply Finset.sum_congr rfl
    intro q hq
    have hq' : q < data.length := Finset.mem_range.mp hq
    have hkA : q * sps + strideA sps < data.length * sps := by
      have : (q + 1) * sps ≤ data.length * sps := Nat.mul_le_mul_right _ hq'
      have e : (q + 1) * sps = q * sps + sps := by ring
      omega
    have hkB : q * sps + strideB sps < data.length * sps := by
      have : (q + 1) * sps ≤ data.length * sps := Nat.mul_le_mul_right _ hq'
      have e : (q + 1) * sps = q * sps + sps := by ring
      omega
    rw [← Finset.mul_sum, Finset.sum_add_distrib,
      sum_indicator _ _ hkA (fun k => Hc h (((st + i : ℕ) : ℤ) - (k : ℤ))),
      sum_indicator _ _ hkB (fun k => Hc h (((st + i : ℕ) : ℤ) - (k : ℤ)))]
    unfold W
    rw [← hst]
    have eA : ((st + i : ℕ) : ℤ) - ((q * sps + strideA sps : ℕ) : ℤ)
        = (st : ℤ) + ((i : ℤ) - ((q * sps : ℕ) : ℤ)) - (strideA sps : ℤ) := by push_cast; ring
    have eB : ((st + i : ℕ) : ℤ) - ((q * sps + strideB sps : ℕ) : ℤ)
        = (st : ℤ) + ((i : ℤ) - ((q * sps : ℕ) : ℤ)) - (strideB sps : ℤ) := by push_cast; ring
    rw [eA, eB]
    ring

end OptiVerif.DacGauss
