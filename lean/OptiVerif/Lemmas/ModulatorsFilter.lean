/-
Glue between the modulator / amplifier models (C06, C10) and the optical filter model of C11 (`Model/Filter.lean`,
`Lemmas/Filter.lean`): the optional `BW` argument of `MZM` and `EDFA` is `BPF` applied to the device's output.
-/
import OptiVerif.Lemmas.Modulators
import OptiVerif.Lemmas.Edfa
import OptiVerif.Lemmas.Filter

set_option linter.unusedVariables false
set_option linter.unnecessarySeqFocus false

namespace OptiVerif.Modulators
open OptiVerif
open OptiVerif.Filter (linCx filtCoreCx)

/-! ### complex linear combinations of values of the same shape -/

/-- `a·r₁ + b·r₂`, row by row, sample by sample (same layout on both sides) -/
def Rows.lin (a b : Cx ℝ) : Rows (Cx ℝ) → Rows (Cx ℝ) → Rows (Cx ℝ)
  | .one z, .one w => .one (linCx a b z w)
  | .two z z', .two w w' => .two (linCx a b z w) (linCx a b z' w')
  | r, _ => r

/-- `a·x₁ + b·x₂` on signal and noise parts -/
def Field.lin (a b : Cx ℝ) (x1 x2 : Field (Cx ℝ)) : Field (Cx ℝ) :=
  ⟨Rows.lin a b x1.sig x2.sig,
   match x1.noise, x2.noise with
   | some n1, some n2 => some (Rows.lin a b n1 n2)
   | _, _ => none⟩

/-- the same on the filter's row lists -/
def sigLin (a b : Cx ℝ) (o1 o2 : Filter.Sig (Cx ℝ)) : Filter.Sig (Cx ℝ) :=
  ⟨List.zipWith (linCx a b) o1.rows o2.rows,
   match o1.noise, o2.noise with
   | some n1, some n2 => some (List.zipWith (linCx a b) n1 n2)
   | _, _ => none⟩

theorem lin_czero (a b : Cx ℝ) : a * (czero : Cx ℝ) + b * czero = czero := by
  apply Cx.ext_re_im <;> simp [czero]

theorem modRow_lin (a b : Cx ℝ) : ∀ (hs z w : List (Cx ℝ)),
    modRow hs (linCx a b z w) = linCx a b (modRow hs z) (modRow hs w)
  | [], z, w => by simp [modRow, linCx]
  | _ :: _, [], w => by simp [modRow, linCx]
  | _ :: _, _ :: _, [] => by simp [modRow, linCx]
  | h :: hs, x :: z, y :: w => by
    have ih := modRow_lin a b hs z w
    simp only [modRow, linCx] at ih
    simp only [modRow, linCx, List.zipWith_cons_cons, ih]
    congr 1
    apply Cx.ext_re_im <;> simp <;> ring

theorem map_czero_lin (a b : Cx ℝ) : ∀ (z w : List (Cx ℝ)), z.length = w.length →
    (linCx a b z w).map (fun _ => (czero : Cx ℝ)) = linCx a b (z.map fun _ => czero) (w.map fun _ => czero)
  | [], [], _ => rfl
  | [], _ :: _, h => by simp at h
  | _ :: _, [], h => by simp at h
  | x :: z, y :: w, h => by
    have ih := map_czero_lin a b z w (by simpa using h)
    simp only [linCx] at ih
    simp only [linCx, List.zipWith_cons_cons, List.map_cons, ih, lin_czero]

theorem length_modRow' (hs row : List (Cx ℝ)) : (modRow hs row).length = min row.length hs.length := by
  simp [modRow]

/-- the modulation (sample-wise product, then blanking) is linear in the optical field -/
theorem mzmRows_lin (pol : PolSel) (hs : List (Cx ℝ)) (a b : Cx ℝ) (r1 r2 : Rows (Cx ℝ))
    (h : RowsRel (fun _ _ => True) r1 r2) :
    mzmRows pol hs (Rows.lin a b r1 r2) = Rows.lin a b (mzmRows pol hs r1) (mzmRows pol hs r2) := by
  cases r1 with
  | one z =>
    cases r2 with
    | one w => cases pol <;> simp [mzmRows, blank, Rows.map, Rows.lin, modRow_lin]
    | two w w' => simp [RowsRel] at h
  | two z z' =>
    cases r2 with
    | one w => simp [RowsRel] at h
    | two w w' =>
      obtain ⟨h1, h2⟩ := h
      have l1 : (modRow hs z).length = (modRow hs w).length := by simp [length_modRow', h1.length_eq]
      have l2 : (modRow hs z').length = (modRow hs w').length := by simp [length_modRow', h2.length_eq]
      cases pol <;>
        simp [mzmRows, blank, Rows.map, Rows.lin, modRow_lin, map_czero_lin a b _ _ l1, map_czero_lin a b _ _ l2]

theorem toList_lin (a b : Cx ℝ) (r1 r2 : Rows (Cx ℝ)) (h : RowsRel (fun _ _ => True) r1 r2) :
    (Rows.lin a b r1 r2).toList = List.zipWith (linCx a b) r1.toList r2.toList := by
  cases r1 <;> cases r2 <;> simp [RowsRel] at h <;> simp [Rows.lin, Rows.toList]

theorem rowsRel_true_mzmRows (pol : PolSel) (hs : List (Cx ℝ)) (r1 r2 : Rows (Cx ℝ)) (n : ℕ)
    (hl : hs.length = n) (h1 : r1.Shaped n) (h2 : r2.Shaped n) (h : RowsRel (fun _ _ => True) r1 r2) :
    RowsRel (fun _ _ => True) (mzmRows pol hs r1) (mzmRows pol hs r2) := by
  have s1 := shaped_mzmRows pol hs r1 (by rw [hl]; exact h1)
  have s2 := shaped_mzmRows pol hs r2 (by rw [hl]; exact h2)
  have triv : ∀ (u v : List (Cx ℝ)), u.length = v.length → List.Forall₂ (fun _ _ => True) u v := by
    intro u v huv
    induction u generalizing v with
    | nil => cases v <;> simp_all
    | cons x u ih =>
      cases v with
      | nil => simp at huv
      | cons y v => exact List.Forall₂.cons trivial (ih v (by simpa using huv))
  revert s1 s2
  cases r1 <;> cases r2 <;> simp [RowsRel] at h
  · cases pol <;> simp only [mzmRows, blank, Rows.map, Rows.Shaped, RowsRel] <;> intro s1 s2 <;>
      exact triv _ _ (by rw [s1, s2])
  · cases pol <;> simp only [mzmRows, blank, Rows.map, Rows.Shaped, RowsRel] <;> intro s1 s2 <;>
      exact ⟨triv _ _ (by rw [s1.1, s2.1]), triv _ _ (by rw [s1.2, s2.2])⟩

/-- every row of a shaped value, as a list -/
theorem mem_toList_length {r : Rows (Cx ℝ)} {n : ℕ} (h : r.Shaped n) : ∀ row ∈ r.toList, row.length = n := by
  cases r <;> simp only [Rows.toList, Rows.Shaped, List.mem_cons, List.not_mem_nil, or_false] at *
  · rintro row rfl; exact h
  · rintro row (rfl | rfl); exact h.1; exact h.2

/-- `filtCoreCx` over rows of equal lengths is linear, row list by row list -/
theorem map_filt_zipWith_lin (secs : List (Filter.Sec ℝ)) (e : ℕ) (a b : Cx ℝ) :
    ∀ (l1 l2 : List (List (Cx ℝ))), List.Forall₂ (fun u v => u.length = v.length) l1 l2 →
      (List.zipWith (linCx a b) l1 l2).map (filtCoreCx secs e)
        = List.zipWith (linCx a b) (l1.map (filtCoreCx secs e)) (l2.map (filtCoreCx secs e))
  | _, _, .nil => rfl
  | _, _, .cons h hs => by
    simp only [List.zipWith_cons_cons, List.map_cons, Filter.filtCoreCx_lin secs e a b _ _ h,
      map_filt_zipWith_lin secs e a b _ _ hs]

theorem forall₂_len_toList {r1 r2 : Rows (Cx ℝ)} (h : RowsRel (fun _ _ => True) r1 r2) :
    List.Forall₂ (fun u v : List (Cx ℝ) => u.length = v.length) r1.toList r2.toList := by
  cases r1 <;> cases r2 <;> simp [RowsRel] at h <;> simp only [Rows.toList]
  · exact List.Forall₂.cons h.length_eq .nil
  · exact List.Forall₂.cons h.1.length_eq (List.Forall₂.cons h.2.length_eq .nil)

/-- sum of two rows = the linear combination with coefficients 1, 1 -/
theorem zipWith_add_eq_linCx (z w : List (Cx ℝ)) :
    List.zipWith (· + ·) z w = linCx ⟨1, 0⟩ ⟨1, 0⟩ z w := by
  simp only [linCx]
  congr 1
  funext x y
  apply Cx.ext_re_im <;> simp

/-- the filter distributes over the sum of two rows of equal length -/
theorem filtCoreCx_add (secs : List (Filter.Sec ℝ)) (e : ℕ) (z w : List (Cx ℝ)) (h : z.length = w.length) :
    filtCoreCx secs e (List.zipWith (· + ·) z w)
      = List.zipWith (· + ·) (filtCoreCx secs e z) (filtCoreCx secs e w) := by
  rw [zipWith_add_eq_linCx, Filter.filtCoreCx_lin secs e _ _ z w h, ← zipWith_add_eq_linCx]


/-! ### `MZM(..., BW)` unfolded -/

theorem filtfiltCx_ok (secs : List (Filter.Sec ℝ)) (e : ℕ) (z : List (Cx ℝ)) (h : e < z.length) :
    Filter.filtfiltCx secs e z = .ok (filtCoreCx secs e z) := by
  simp [Filter.filtfiltCx, Nat.not_le.mpr h]

/-- with `BW`, and rows longer than the filter's padding, the output is the C11 filter applied to every row of the modulated
    signal and (alike) of the modulated noise -/
theorem mzmBW_ok {pol : PolSel} {bias Vpi ld er : ℝ} {d : Drive ℝ} {secs : List (Filter.Sec ℝ)} {e n : ℕ}
    {x : Field (Cx ℝ)} (hpol : pol ≠ .other) (hn : x.sig.len = n) (hs : x.sig.Shaped n)
    (hnz : ∀ r, x.noise = some r → r.Shaped n) (hd : d.samples.length = n ∨ d.samples.length = 1) (he : e < n) :
    mzmBW pol bias Vpi ld er d secs e x =
      .ok ⟨(mzmRows pol (mzmHs bias Vpi ld er n d) x.sig).toList.map (filtCoreCx secs e),
           x.noise.map fun r => (mzmRows pol (mzmHs bias Vpi ld er n d) r).toList.map (filtCoreCx secs e)⟩ := by
  subst hn
  have hl := mzmHs_length bias Vpi ld er x.sig.len d hd
  unfold mzmBW
  rw [mzm_eq_ok hd hpol]
  simp only [Filter.bpf]
  rw [Filter.applyRows_ok (Filter.filtfiltCx secs e) (filtCoreCx secs e)]
  · simp only [Field.toSig, Option.map_map]
    congr 2
  · intro r hr
    apply filtfiltCx_ok
    have := mem_toList_length (shaped_mzmRows pol _ x.sig (by rw [hl]; exact hs)) r (by simpa [Field.toSig] using hr)
    rw [this, hl]; exact he
  · intro nz hnzz r hr
    apply filtfiltCx_ok
    simp only [Field.toSig, Option.map_map, Option.map_eq_some_iff, Function.comp] at hnzz
    obtain ⟨r0, hr0, rfl⟩ := hnzz
    have := mem_toList_length (shaped_mzmRows pol _ r0 (by rw [hl]; exact hnz r0 hr0)) r hr
    rw [this, hl]; exact he

theorem shaped_lin (a b : Cx ℝ) {r1 r2 : Rows (Cx ℝ)} {n : ℕ} (h1 : r1.Shaped n) (h2 : r2.Shaped n)
    (h : RowsRel (fun _ _ => True) r1 r2) : (Rows.lin a b r1 r2).Shaped n := by
  cases r1 <;> cases r2 <;> simp [RowsRel] at h <;>
    simp only [Rows.lin, Rows.Shaped, linCx, List.length_zipWith] at * <;> omega

end OptiVerif.Modulators
