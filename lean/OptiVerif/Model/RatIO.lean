/-
Rationals on the wire (`p/q` or `p`, DESIGN.md §2.4) for the exact models of C18/C19.  Core Lean only.
Own namespace `OptiVerif.RatIO` (independent of other properties' wire helpers).
Python floats are dyadic rationals: the harness ships them exactly as `numerator/denominator`.
-/
import OptiVerif.Model.Wire

namespace OptiVerif.RatIO
open OptiVerif.Wire

/-- `p/q` (q > 0) or a plain integer -/
def ratOfString (t : String) : Option Rat :=
  match t.splitOn "/" with
  | [p] => p.toInt?.map (fun (n : Int) => (n : Rat))
  | [p, q] =>
    match p.toInt?, q.toNat? with
    | some n, some d => if d == 0 then none else some (mkRat n d)
    | _, _ => none
  | _ => none

def rat : P Rat := do
  let t ← tok
  match ratOfString t with
  | some q => pure q
  | none => throw s!"rat:{t}"

/-- canonical rendering: `num/den` in lowest terms, `num` when `den = 1` -/
def fRat (q : Rat) : String := if q.den == 1 then toString q.num else s!"{q.num}/{q.den}"

end OptiVerif.RatIO
