/-
Model of `opticomlib.typing.binary_sequence` (typing.py:291-571: constructor, `+`, reflected `+`, `~`, indexing,
`len`, `ones`, `zeros`) and of `electrical_signal.__gt__/__lt__` (typing.py:905-960).  C15.  Core Lean only.
String data goes through `Model/BinSeqStr.lean` (`utils.str2array`).
-/
import OptiVerif.Model.BinSeqStr

namespace OptiVerif.BinSeq
open OptiVerif OptiVerif.BinSeqStr

/-! ### what `np.array(data)` is, as far as `binary_sequence` looks at it -/

/-- `Cell.bit = some b`: the element compares equal to 0 (`b = false`) or to 1 (`b = true`); `none`: to neither
    (2, -1, 0.5, nan, 'a', None, …) -/
inductive Arr
  | scalar (c : Cell)                      -- 0-D
  | vec (cs : List Cell)                   -- 1-D
  | nd (ndim : Nat) (cs : List Cell)       -- ndim ≥ 2, cells in C order
  | ragged                                 -- `np.array(data)` itself raises ValueError (inhomogeneous shape)
  deriving Repr

inductive Data
  | str (s : List Nat)                     -- a Python `str`
  | arr (a : Arr)                          -- anything else, after `np.array(data)`

def bitNat (c : Cell) : Nat := match c.bit with | some true => 1 | _ => 0

/-- `np.all((data == 0) | (data == 1))` -/
def cellsOK (cs : List Cell) : Bool := cs.all (fun c => c.bit.isSome)

/-- the checks of `binary_sequence.__init__` on an array; result = `.data` as a list of uint8 values -/
def mkArr : Arr → Except Wire.Err (List Nat)
  | .ragged => .error .ValueError
  | .scalar c =>
    if !cellsOK [c] then .error .ValueError       -- "must contain only 0's and 1's"
    else .ok [bitNat c]                           -- `data[np.newaxis]`
  | .vec cs =>
    if !cellsOK cs then .error .ValueError
    else .ok (cs.map bitNat)                      -- `.astype(np.uint8)`
  | .nd _ cs =>
    if !cellsOK cs then .error .ValueError
    else .error .ValueError                       -- "must be 1D array"

def parsedToArr : Parsed → Arr
  | .vec cs => .vec cs
  | .mat _ _ rows => .nd 2 rows.flatten

/-- `np.array(data)` for non-strings; for a `str`, `str2array(data)` inside `try … except OverflowError → ValueError`,
    as the constructor, `__add__` and `__radd__` all do (`Other` is the model's name for the OverflowError of an integer
    literal outside the C long range); `none` = not modelled (complex-class strings) -/
def toArr : Data → Option (Except Wire.Err Arr)
  | .arr a => some (.ok a)
  | .str s =>
    match str2array s with
    | .ok p => some (.ok (parsedToArr p))
    | .err e => some (.error (if e = .Other then .ValueError else e))
    | .unmodelled => none

/-- `binary_sequence(data)` -/
def mk (d : Data) : Option (Except Wire.Err (List Nat)) :=
  (toArr d).map (fun r => r.bind mkArr)

/-! ### operators; a sequence is the list of its uint8 values -/

inductive Operand
  | bs (b : List Nat)          -- another `binary_sequence`
  | data (d : Data)            -- `str`, or list / tuple / ndarray (`Array_Like`)
  | other                      -- any other type: TypeError

/-- the operand checks shared by `__add__` and `__radd__`: 0/1 content, then `ndim != 1` -/
def operandBits : Operand → Option (Except Wire.Err (List Nat))
  | .other => some (.error .TypeError)
  | .bs b => some (.ok b)
  | .data d =>
    (toArr d).map (fun r => r.bind (fun a =>
      match a with
      | .ragged => .error .ValueError
      | .scalar c => if !cellsOK [c] then .error .ValueError else .error .ValueError   -- `other.ndim != 1`
      | .vec cs => if !cellsOK cs then .error .ValueError else .ok (cs.map bitNat)
      | .nd _ cs => if !cellsOK cs then .error .ValueError else .error .ValueError))

/-- re-validation by the constructor of the concatenated / inverted / sliced array -/
def revalidate (l : List Nat) : Except Wire.Err (List Nat) :=
  if l.all (fun x => x == 0 || x == 1) then .ok l else .error .ValueError

/-- `a + other` -/
def add (a : List Nat) (o : Operand) : Option (Except Wire.Err (List Nat)) :=
  (operandBits o).map (fun r => r.bind (fun b => revalidate (a ++ b)))

/-- `other + a` (reflected) -/
def radd (a : List Nat) (o : Operand) : Option (Except Wire.Err (List Nat)) :=
  (operandBits o).map (fun r => r.bind (fun b => revalidate (b ++ a)))

/-- `~a`: `~self.data.astype(bool)` -/
def invert (a : List Nat) : Except Wire.Err (List Nat) :=
  revalidate (a.map (fun x => if x != 0 then 0 else 1))

def len (a : List Nat) : Nat := a.length
/-- `np.sum(self.data)` -/
def ones (a : List Nat) : Nat := a.sum
/-- `self.len() - self.ones()` -/
def zeros (a : List Nat) : Nat := len a - ones a

/-! ### indexing: CPython `PySlice_Unpack` / `PySlice_AdjustIndices` -/

inductive Index
  | int (i : Int)
  | slice (start stop step : Option Int)
  | newaxis                    -- `a[None]`: a 2-D array
  | ellipsis                   -- `a[...]`: the same 1-D array

/-- clamp of one bound -/
def adjust (n step : Int) (v : Int) : Int :=
  if v < 0 then
    (if v + n < 0 then (if step < 0 then -1 else 0) else v + n)
  else if v ≥ n then (if step < 0 then n - 1 else n)
  else v

structure Span where
  start : Int
  step : Int
  count : Nat

/-- the adjusted `start` (default: first element in the direction of travel) -/
def startOf (n : Nat) (st : Int) (start : Option Int) : Int :=
  match start with
  | some v => adjust n st v
  | none => if st < 0 then (n : Int) - 1 else 0

/-- the adjusted `stop` (default: one past the last element in the direction of travel) -/
def stopOf (n : Nat) (st : Int) (stop : Option Int) : Int :=
  match stop with
  | some v => adjust n st v
  | none => if st < 0 then -1 else n

/-- slice length -/
def countOf (lo hi st : Int) : Nat :=
  (if st < 0 then (if hi < lo then (lo - hi - 1) / (-st) + 1 else 0)
   else (if lo < hi then (hi - lo - 1) / st + 1 else 0)).toNat

/-- `slice(start, stop, step).indices(n)` and the slice length; step 0 is a ValueError -/
def span (n : Nat) (start stop step : Option Int) : Except Wire.Err Span :=
  let st := step.getD 1
  if st = 0 then .error .ValueError
  else .ok ⟨startOf n st start, st, countOf (startOf n st start) (stopOf n st stop) st⟩

/-- the selected positions, in order -/
def Span.positions (s : Span) : List Int := (List.range s.count).map (fun (k : Nat) => s.start + (k : Int) * s.step)

/-- a negative integer index counts from the end -/
def intPos (n : Nat) (i : Int) : Int := if i < 0 then i + n else i

/-- `a[i]` for an integer: IndexError (`Other`) outside `-n ≤ i < n`; the 0-D result becomes a length-1 sequence -/
def getInt (a : List Nat) (i : Int) : Except Wire.Err (List Nat) :=
  if intPos a.length i < 0 ∨ intPos a.length i ≥ a.length then .error .Other
  else match a[(intPos a.length i).toNat]? with
    | some x => revalidate [x]
    | none => .error .Other

/-- `a[index]` then the constructor -/
def getitem (a : List Nat) : Index → Except Wire.Err (List Nat)
  | .int i => getInt a i
  | .slice start stop step => do
    let s ← span a.length start stop step
    revalidate (s.positions.filterMap (fun p => if p < 0 then none else a[p.toNat]?))
  | .newaxis => .error .ValueError
  | .ellipsis => revalidate a

/-! ### `electrical_signal > threshold`, `<` (generic sample type; complex samples as pairs) -/

section
variable {R : Type} [Add R] [Mul R] [LT R] [DecidableLT R]

/-- squared magnitude of a sample `(re, im)`.  The code compares `np.abs` values (|x| for real arrays, the modulus
    for complex ones); the model compares their squares, which is the same comparison (Props/C15 `abs_lt_iff_sq`). -/
def mag2 (z : R × R) : R := z.1 * z.1 + z.2 * z.2

def addC (a b : R × R) : R × R := (a.1 + b.1, a.2 + b.2)

/-- `signal + noise` if noise is present -/
def total (sig : List (R × R)) (noise : Option (List (R × R))) : List (R × R) :=
  match noise with
  | none => sig
  | some n => List.zipWith addC sig n

/-- broadcast of a length-1 threshold -/
def bcast (n : Nat) (t : List (R × R)) : List (R × R) :=
  match t with
  | [x] => List.replicate n x
  | _ => t

/-- `self > other` (`gt = true`) or `self < other`; `thr = none` when `electrical_signal(other)` itself raises
    ValueError (2-D data); an empty threshold is refused by that constructor too. -/
def compare (gt : Bool) (sig : List (R × R)) (noise : Option (List (R × R)))
    (thr : Option (List (R × R) × Option (List (R × R)))) : Except Wire.Err (List Nat) :=
  match thr with
  | none => .error .ValueError
  | some (t, tn) =>
    if t.length = 0 then .error .ValueError
    else if sig.length ≠ t.length ∧ t.length ≠ 1 then .error .ValueError
    else
      let a := total sig noise
      let b := bcast sig.length (total t tn)
      revalidate (List.zipWith (fun x y => if (if gt then mag2 y < mag2 x else mag2 x < mag2 y) then 1 else 0) a b)
end

/-! ### line protocol -/

def wireCell : Wire.P Cell := do
  let t ← Wire.tok
  if t == "0" then pure Cell.zero else if t == "1" then pure Cell.one else if t == "x" then pure Cell.other
  else throw s!"cell:{t}"

def wireData : Wire.P Data := do
  let t ← Wire.tok
  if t == "str" then
    let s ← wireStr
    pure (.str s)
  else if t == "scalar" then
    let c ← wireCell
    pure (.arr (.scalar c))
  else if t == "vec" then
    let cs ← Wire.list wireCell
    pure (.arr (.vec cs))
  else if t == "nd" then
    let d ← Wire.nat
    let cs ← Wire.list wireCell
    pure (.arr (.nd d cs))
  else if t == "ragged" then pure (.arr .ragged)
  else throw s!"data:{t}"

def wireOperand : Wire.P Operand := do
  let ts ← get
  match ts with
  | "bs" :: rest => set rest; let b ← Wire.list Wire.nat; pure (.bs b)
  | "other" :: rest => set rest; pure .other
  | _ => let d ← wireData; pure (.data d)

def wireIndex : Wire.P Index := do
  let t ← Wire.tok
  if t == "int" then
    let i ← Wire.int
    pure (.int i)
  else if t == "slice" then
    let a ← Wire.optInt
    let b ← Wire.optInt
    let c ← Wire.optInt
    pure (.slice a b c)
  else if t == "newaxis" then pure .newaxis
  else if t == "ellipsis" then pure .ellipsis
  else throw s!"index:{t}"

def wireSamples : Wire.P (List (Int × Int)) := Wire.list (do let a ← Wire.int; let b ← Wire.int; pure (a, b))

def wireOptSamples : Wire.P (Option (List (Int × Int))) := do
  let t ← Wire.tok
  if t == "none" then pure none
  else if t == "some" then
    let l ← wireSamples
    pure (some l)
  else throw s!"opt:{t}"

def render : Option (Except Wire.Err (List Nat)) → String
  | none => "unmodelled"
  | some (.error e) => Wire.err e
  | some (.ok v) => Wire.ok s!"{len v} {ones v} {zeros v} {Wire.fBits v}"

-- @handler OptiVerif.BinSeq.handle
/-- requests (a sequence operand `a` is sent as its bits, length-prefixed):
    `binseq.mk <data>` · `binseq.add <a> <operand>` · `binseq.radd <a> <operand>` · `binseq.inv <a>` ·
    `binseq.get <a> <index>` · `binseq.cmp gt|lt <sig> <noise?> thr|bad <thr> <thrnoise?>` (integer pairs re im) -/
def handle : List String → Option String
  | "binseq.mk" :: args =>
    some <| match Wire.run wireData args with
    | .error e => "bad-op " ++ e
    | .ok d => render (mk d)
  | "binseq.add" :: args =>
    some <| match Wire.run (do let a ← Wire.list Wire.nat; let o ← wireOperand; pure (a, o)) args with
    | .error e => "bad-op " ++ e
    | .ok (a, o) => render (add a o)
  | "binseq.radd" :: args =>
    some <| match Wire.run (do let a ← Wire.list Wire.nat; let o ← wireOperand; pure (a, o)) args with
    | .error e => "bad-op " ++ e
    | .ok (a, o) => render (radd a o)
  | "binseq.inv" :: args =>
    some <| match Wire.run (Wire.list Wire.nat) args with
    | .error e => "bad-op " ++ e
    | .ok a => render (some (invert a))
  | "binseq.get" :: args =>
    some <| match Wire.run (do let a ← Wire.list Wire.nat; let i ← wireIndex; pure (a, i)) args with
    | .error e => "bad-op " ++ e
    | .ok (a, i) => render (some (getitem a i))
  | "binseq.cmp" :: args =>
    some <| match Wire.run (do
        let op ← Wire.tok
        let s ← wireSamples
        let n ← wireOptSamples
        let k ← Wire.tok
        if k == "bad" then pure (op, s, n, none)
        else
          let t ← wireSamples
          let tn ← wireOptSamples
          pure (op, s, n, some (t, tn))) args with
    | .error e => "bad-op " ++ e
    | .ok (op, s, n, thr) =>
      if op == "gt" then render (some (compare true s n thr))
      else if op == "lt" then render (some (compare false s n thr))
      else "bad-op cmp"
  | _ => none

end OptiVerif.BinSeq
