/-
Exact model (over `Rat`) of `opticomlib.devices.DAC` (NRZ / RZ branches, scaling, validation ladder;
devices.py:255-335) and `opticomlib.devices.SAMPLER` (devices.py:1837-1841).  Core Lean only.

The limits, type tuples, pulse-shape names, the RZ duty expression and the exception classes come from the generated
file `Gen/DacLimits.lean` (translated from the source on every run).  The Gaussian branch is validated here but its
waveform is not modelled (numerical clause: oracle only).
-/
import OptiVerif.Gen.DacLimits
import OptiVerif.Model.QWire

namespace OptiVerif.Dac
open OptiVerif OptiVerif.Gen.DacLimits

/-! ### Python value kinds seen by the validation ladder -/

/-- the kinds of Python values the harness passes as `Vout`, `bias`, `c`, `m`, `T` -/
inductive PyVal
  | int (n : Int)          -- Python int
  | bool (b : Bool)        -- Python bool (a subclass of int)
  | float (q : Rat)        -- finite Python float
  | npfloat (q : Rat)      -- numpy.float64 (a subclass of float)
  | npint (n : Int)        -- numpy.int64 (NOT a subclass of int)
  | complex | str | pynone | list
  deriving Repr, DecidableEq

/-- `isinstance(v, tys)` for `tys` a tuple of the builtin names `int`, `float` -/
def isInst (v : PyVal) (tys : List String) : Bool :=
  match v with
  | .int _ | .bool _ => tys.contains "int"
  | .float _ | .npfloat _ => tys.contains "float"
  | _ => false

/-- numeric value of an int/float-like value -/
def PyVal.toRat? : PyVal → Option Rat
  | .int n => some n
  | .bool b => some (if b then 1 else 0)
  | .float q => some q
  | .npfloat q => some q
  | _ => none

/-- integer value of an `int` instance -/
def PyVal.toInt? : PyVal → Option Int
  | .int n => some n
  | .bool b => some (if b then 1 else 0)
  | _ => none

inductive Shape | nrz | rz | gauss
  deriving Repr, DecidableEq

/-- the `if pulse_shape in [...] … elif … elif …` ladder; `none` = the final `else` (also taken by non-string values) -/
def shapeOf (name : String) : Option Shape :=
  if nrzNames.contains name then some .nrz
  else if rzNames.contains name then some .rz
  else if gaussNames.contains name then some .gauss
  else none

/-! ### validation, in the order of the source -/

/-- `isinstance` test then range test of an integer keyword (`m`, `T`) -/
def checkIntKw (v : PyVal) (tys : List String) (tyErr : Wire.Err) (bad : Int → Bool) (badErr : Wire.Err) :
    Except Wire.Err Unit :=
  if !isInst v tys then .error tyErr else
  match v.toInt? with
  | some n => if bad n then .error badErr else .ok ()
  | none => .ok ()       -- a float accepted by `tys` would be compared numerically; not reachable with `tys = [int]`

/-- Gaussian branch: `c`, `m`, `T` (absent keyword = `kwargs.get` default) -/
def checkGauss (sps : Nat) (c m T : Option PyVal) : Except Wire.Err Unit := do
  let c := c.getD (.float cDefault)
  let m := m.getD (.int mDefault)
  let T := T.getD (.int sps)
  if !isInst c cTypes then throw cTypeErr
  checkIntKw m mTypes mTypeErr mBad mBadErr
  checkIntKw T tTypes tTypeErr (fun t => tBad t sps) tBadErr

/-- `if X is not None: isinstance…; range…; x = x op X`: returns the factor/offset to apply (`none` = skipped) -/
def checkLevel (v : PyVal) (tys : List String) (tyErr : Wire.Err) (bad : Rat → Bool) (badErr : Wire.Err) :
    Except Wire.Err (Option Rat) :=
  match v with
  | .pynone => .ok none
  | v =>
    if !isInst v tys then .error tyErr else
    match v.toRat? with
    | some q => if bad q then .error badErr else .ok (some q)
    | none => .error tyErr

/-- every check of `DAC` up to `output = electrical_signal(x)`; returns `(Vout?, bias?)` to apply.
    `bitsOk` = `binary_sequence(input)` succeeded (entries all 0/1, one-dimensional). -/
def validate (bitsOk : Bool) (shape : Option Shape) (sps : Nat) (c m T : Option PyVal) (vout bias : PyVal) :
    Except Wire.Err (Option Rat × Option Rat) := do
  if !bitsOk then throw .ValueError
  match shape with
  | none => throw unknownShapeErr
  | some .gauss => checkGauss sps c m T
  | some _ => pure ()
  let v ← checkLevel vout voutTypes voutTypeErr voutBad voutBadErr
  let b ← checkLevel bias biasTypes biasTypeErr biasBad biasBadErr
  pure (v, b)

/-! ### waveforms -/

/-- `np.kron(input.data, np.ones(sps))` -/
def kron (bits : List Nat) (sps : Nat) : List Rat :=
  bits.flatMap (fun (b : Nat) => List.replicate sps (b : Rat))

/-- `rz_pulse = np.zeros(sps); rz_pulse[: sps // 2] = 1` -/
def rzPulse (sps : Nat) : List Rat :=
  (List.range sps).map (fun i => if i < rzDuty sps then 1 else 0)

/-- `np.tile(p, n)` -/
def tile (p : List Rat) (n : Nat) : List Rat :=
  (List.replicate n p).flatten

/-- unscaled waveform `x` of the NRZ and RZ branches -/
def wave (shape : Shape) (bits : List Nat) (sps : Nat) : Option (List Rat) :=
  match shape with
  | .nrz => some (kron bits sps)
  | .rz => some (List.zipWith (· * ·) (kron bits sps) (tile (rzPulse sps) bits.length))
  | .gauss => none

/-- what `x = x * Vout` (if given) and `x = x + bias` (if given) do to one sample -/
def lvl (vout bias : Option Rat) (x : Rat) : Rat :=
  let x1 := match vout with | some v => x * v | none => x
  match bias with | some b => x1 + b | none => x1

def scale (x : List Rat) (vout bias : Option Rat) : List Rat := x.map (lvl vout bias)

/-- `DAC(bits, bias, Vout, pulse_shape)` for the NRZ / RZ shapes (`.signal` of the result).
    `none` in the `Option` = accepted Gaussian request (waveform not modelled). -/
def dac (bits : List Nat) (shape : Option Shape) (sps : Nat) (c m T : Option PyVal) (vout bias : PyVal) :
    Except Wire.Err (Option (List Rat)) := do
  let (v, b) ← validate (bits.all (· ≤ 1)) shape sps c m T vout bias
  match shape with
  | some sh =>
    match wave sh bits sps with
    | some x =>
      let y := scale x v b
      -- `electrical_signal(x)` rejects an empty array
      if y.isEmpty then throw .ValueError
      pure (some y)
    | none => pure none
  | none => throw unknownShapeErr

/-! ### SAMPLER: `input[instant :: gv.sps]` -/

/-- number of elements of `range(start, len, step)` -/
def sliceCount (len start step : Nat) : Nat :=
  if start ≥ len then 0 else (len - start + step - 1) / step

/-- `xs[start :: step]` for `0 ≤ start`, `step ≥ 1` (Python: elements `start, start+step, …` below `len`) -/
def slice {α} (xs : List α) (start step : Nat) : List α :=
  (List.range (sliceCount xs.length start step)).filterMap (fun m => xs[start + m * step]?)

/-- Python's normalisation of a slice start (negative counts from the end, then clamps to `[0, len]`) -/
def normStart (len : Nat) (k : Int) : Nat :=
  if k < 0 then (k + len).toNat else min k.toNat len

/-- `SAMPLER(x, k)` on an `electrical_signal` with signal `sig` and optional noise: `(signal, noise)` of the result -/
def sampler (sig : List Rat) (noise : Option (List Rat)) (k : Int) (sps : Nat) :
    Except Wire.Err (List Rat × Option (List Rat)) :=
  if sps = 0 then .error .ValueError            -- numpy: "slice step cannot be zero"
  else
    let s := slice sig (normStart sig.length k) sps
    if s.isEmpty then .error .ValueError        -- `electrical_signal` rejects an empty array
    else .ok (s, noise.map (fun n => slice n (normStart n.length k) sps))

/-- nearer-level decision on a raw sample (DESIGN.md §7): `(x − (bias + Vout/2))·Vout > 0` -/
def decideBit (vout bias x : Rat) : Nat :=
  if (x - (bias + vout / 2)) * vout > 0 then 1 else 0

/-- DAC → SAMPLER at instant `k` → decision -/
def roundtrip (bits : List Nat) (sh : Shape) (sps : Nat) (vout bias : Rat) (k : Nat) : Except Wire.Err (List Nat) := do
  match ← dac bits (some sh) sps none none none (.float vout) (.float bias) with
  | some y =>
    let (s, _) ← sampler y none k sps
    pure (s.map (decideBit vout bias))
  | none => throw .NotImplemented

/-! ### line protocol -/

def pyVal : Wire.P (Option PyVal) := do
  let t ← Wire.tok
  let bad : Wire.P (Option PyVal) := throw s!"pyval:{t}"
  match t.splitOn ":" with
  | ["absent"] => pure none
  | ["None"] => pure (some .pynone)
  | ["cx"] => pure (some .complex)
  | ["str"] => pure (some .str)
  | ["list"] => pure (some .list)
  | ["i", v] => match v.toInt? with | some n => pure (some (.int n)) | none => bad
  | ["npi", v] => match v.toInt? with | some n => pure (some (.npint n)) | none => bad
  | ["b", v] => if v == "1" then pure (some (.bool true)) else if v == "0" then pure (some (.bool false)) else bad
  | ["f", v] => match QWire.parseRat v with | some q => pure (some (.float q)) | none => bad
  | ["npf", v] => match QWire.parseRat v with | some q => pure (some (.npfloat q)) | none => bad
  | _ => bad

/-- a positional `Vout` / `bias` is never absent -/
def pyValReq : Wire.P PyVal := do
  match ← pyVal with
  | some v => pure v
  | none => throw "pyval:absent"

/-- `s:<name>` = a string value, `nonstr` = any other object (falls into the final `else`) -/
def shapeTok : Wire.P (Option Shape) := do
  let t ← Wire.tok
  if t == "nonstr" then pure none
  else if t.startsWith "s:" then pure (shapeOf (t.drop 2).toString)
  else throw s!"shape:{t}"

structure Req where
  shape : Option Shape
  sps : Nat
  c : Option PyVal
  m : Option PyVal
  T : Option PyVal
  vout : PyVal
  bias : PyVal
  bits : List Nat

def req : Wire.P Req := do
  let shape ← shapeTok
  let sps ← Wire.nat
  let c ← pyVal
  let m ← pyVal
  let T ← pyVal
  let vout ← pyValReq
  let bias ← pyValReq
  let bits ← Wire.list Wire.nat
  pure ⟨shape, sps, c, m, T, vout, bias, bits⟩

-- @handler OptiVerif.Dac.handle
/-- line protocol
* `dac.run <shape> <sps> <c> <m> <T> <Vout> <bias> <n> b…`  → `ok <n> v…` | `ok gaussian` | `err E`
* `dac.sampler <k> <sps> <n> x… <0|1> [<n> noise…]`         → `ok <n> x… <0|1> [<n> noise…]` | `err E`
* `dac.roundtrip <shape> <sps> <Vout> <bias> <k> <n> b…`     → `ok <bits>` | `err E` -/
def handle : List String → Option String
  | "dac.run" :: args =>
    some <| match Wire.run req args with
    | .error e => "bad-op " ++ e
    | .ok r =>
      match dac r.bits r.shape r.sps r.c r.m r.T r.vout r.bias with
      | .error e => Wire.err e
      | .ok (some y) => Wire.ok (QWire.fRatList y)
      | .ok none => Wire.ok "gaussian"
  | "dac.sampler" :: args =>
    some <| match Wire.run (do
        let k ← Wire.int; let sps ← Wire.nat; let xs ← Wire.list QWire.rat
        let hn ← Wire.bool
        let ns ← if hn then (do let l ← Wire.list QWire.rat; pure (some l)) else pure none
        pure (k, sps, xs, ns)) args with
    | .error e => "bad-op " ++ e
    | .ok (k, sps, xs, ns) =>
      match sampler xs ns k sps with
      | .error e => Wire.err e
      | .ok (s, none) => Wire.ok (QWire.fRatList s ++ " 0")
      | .ok (s, some n) => Wire.ok (QWire.fRatList s ++ " 1 " ++ QWire.fRatList n)
  | "dac.roundtrip" :: args =>
    some <| match Wire.run (do
        let sh ← shapeTok; let sps ← Wire.nat; let v ← QWire.rat; let b ← QWire.rat; let k ← Wire.nat
        let bits ← Wire.list Wire.nat
        pure (sh, sps, v, b, k, bits)) args with
    | .error e => "bad-op " ++ e
    | .ok (none, _) => "bad-op shape"
    | .ok (some sh, sps, v, b, k, bits) =>
      match roundtrip bits sh sps v b k with
      | .error e => Wire.err e
      | .ok ds => Wire.ok (Wire.fBits ds)
  | _ => none

end OptiVerif.Dac
