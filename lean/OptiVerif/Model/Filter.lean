/-
Model of `devices.LPF` and `devices.BPF` (devices.py): a Bessel prototype applied forward–backward with
`scipy.signal.sosfiltfilt`.  The design step (`scipy.signal.bessel(..., norm='mag', output='sos')`) and
`scipy.signal.sosfilt_zi` are EXTERNAL: the second-order sections, their unit-step initial state `zi` and the pad
length `edge = 3·ntaps` are PARAMETERS of the model (DESIGN.md §2.2), spied from scipy by the harness on every run.
What is modelled here is what scipy does with them (scipy/signal/_signaltools.py `sosfiltfilt`, `sosfilt`,
`_validate_pad`; _arraytools.py `odd_ext`; _sosfilt.pyx):

  ext  = odd_ext(x, edge)                       2·x[0] − x[edge..1]  ++  x  ++  2·x[-1] − x[-2..-(edge+1)]
  y    = sosfilt(sos, ext,        zi·ext[0])    direct form II transposed, section after section
  y    = sosfilt(sos, reverse(y), zi·y[-1])
  out  = reverse(y)[edge : −edge]               `ValueError` when len(x) ≤ edge

Generic numerics (executed at Float, proved about at ℝ); only `retH` (frequency response on the FFT grid) needs cos/sin.
Core Lean only.
-/
import OptiVerif.Model.Fourier

set_option linter.unusedSectionVars false

namespace OptiVerif.Filter
open OptiVerif

/-- one second-order section `[b0 b1 b2 1 a1 a2]` of the SOS array (scipy insists on a0 = 1 and never reads it)
    together with its row of `sosfilt_zi(sos)` -/
structure Sec (R : Type) where
  b0 : R
  b1 : R
  b2 : R
  a1 : R
  a2 : R
  zi0 : R
  zi1 : R

/-- a container as LPF/BPF see it: the rows of `.signal` (1 or 2 polarisations) and of `.noise` (or None) -/
structure Sig (α : Type) where
  rows : List (List α)
  noise : Option (List (List α))

section
variable {R : Type} [Add R] [Sub R] [Mul R] [Div R] [Neg R] [NatCast R]

/-- `_sosfilt` inner statement for one section and one sample (state `(z0, z1)`):
    `y = b0·x + z0;  z0' = b1·x − a1·y + z1;  z1' = b2·x − a2·y` -/
def secStep (c : Sec R) (z : R × R) (x : R) : R × (R × R) :=
  let y := c.b0 * x + z.1
  (y, (c.b1 * x - c.a1 * y + z.2, c.b2 * x - c.a2 * y))

/-- one section over a whole row, from the initial state `z` -/
def secRun (c : Sec R) : R × R → List R → List R
  | _, [] => []
  | z, x :: xs => (secStep c z x).1 :: secRun c (secStep c z x).2 xs

/-- `sosfilt(sos, xs, zi = zi·s)`: the cascade; section k starts from `zi[k]·s` -/
def sosfilt : List (Sec R) → R → List R → List R
  | [], _, xs => xs
  | c :: cs, s, xs => sosfilt cs s (secRun c (c.zi0 * s, c.zi1 * s) xs)

/-- one pass of sosfiltfilt: the initial conditions are scaled by the FIRST sample of the row being filtered
    (`x_0 = ext[0]` on the way forward, `y_0 = y[-1]` = first sample of the reversed row on the way back) -/
def pass (secs : List (Sec R)) : List R → List R
  | [] => []
  | x0 :: xs => sosfilt secs x0 (x0 :: xs)

/-- `odd_ext(x, n)` where `x0 = x[0]`, `xl = x[-1]` -/
def oddExt (n : Nat) (x0 xl : R) (xs : List R) : List R :=
  (((xs.drop 1).take n).reverse.map (fun v => ((2 : Nat) : R) * x0 - v)) ++ xs ++
    (((xs.reverse.drop 1).take n).map (fun v => ((2 : Nat) : R) * xl - v))

/-- `y[edge : −edge]` -/
def trim (edge : Nat) (ys : List R) : List R := (ys.take (ys.length - edge)).drop edge

/-- padded row → forward → reverse → forward → reverse → trim -/
def fbCore (secs : List (Sec R)) (edge : Nat) (ext : List R) : List R :=
  trim edge (pass secs (pass secs ext).reverse).reverse

/-- `x[-1]` of the non-empty row `x :: xs` -/
def last1 : R → List R → R
  | x, [] => x
  | _, y :: ys => last1 y ys

/-- `sosfiltfilt` on one real row, total version (meaningful for `edge < xs.length`) -/
def filtCore (secs : List (Sec R)) (edge : Nat) : List R → List R
  | [] => []
  | x0 :: xs => fbCore secs edge (oddExt edge x0 (last1 x0 xs) (x0 :: xs))

/-- `sosfiltfilt(sos, x)` on one real row, with scipy's length check -/
def filtfilt (secs : List (Sec R)) (edge : Nat) (xs : List R) : Except Wire.Err (List R) :=
  if xs.length ≤ edge then .error .ValueError else .ok (filtCore secs edge xs)

/-- a complex row through a real-coefficient filter: real and imaginary parts separately
    (what `_sosfilt` computes on complex128 with `sos.astype(complex)`) -/
def filtCoreCx (secs : List (Sec R)) (edge : Nat) (zs : List (Cx R)) : List (Cx R) :=
  List.zipWith Cx.mk (filtCore secs edge (zs.map Cx.re)) (filtCore secs edge (zs.map Cx.im))

def filtfiltCx (secs : List (Sec R)) (edge : Nat) (zs : List (Cx R)) : Except Wire.Err (List (Cx R)) :=
  if zs.length ≤ edge then .error .ValueError else .ok (filtCoreCx secs edge zs)

/-- LPF on one row: `sg.sosfiltfilt(sos_band, signal).real` -/
def lpfRow (secs : List (Sec R)) (edge : Nat) (zs : List (Cx R)) : Except Wire.Err (List R) :=
  (filtfiltCx secs edge zs).map (List.map Cx.re)

/-- a row function over every row; the first row that raises decides (`axis=-1` filtering of a 2-D array) -/
def mapE {α β : Type} (f : α → Except Wire.Err β) : List α → Except Wire.Err (List β)
  | [] => .ok []
  | x :: xs =>
    match f x with
    | .error e => .error e
    | .ok y =>
      match mapE f xs with
      | .error e => .error e
      | .ok ys => .ok (y :: ys)

/-- the same row filter on `.signal` and then (if present) on `.noise`, row by row -/
def applyRows {α β : Type} (f : List α → Except Wire.Err (List β)) (s : Sig α) : Except Wire.Err (Sig β) :=
  match mapE f s.rows with
  | .error e => .error e
  | .ok r =>
    match s.noise with
    | none => .ok ⟨r, none⟩
    | some nz =>
      match mapE f nz with
      | .error e => .error e
      | .ok m => .ok ⟨r, some m⟩

/-- `BPF(input, BW, n)` given the sections scipy designed for `Wn = BW/2` -/
def bpf (secs : List (Sec R)) (edge : Nat) (s : Sig (Cx R)) : Except Wire.Err (Sig (Cx R)) :=
  applyRows (filtfiltCx secs edge) s

/-- `LPF(input, BW, n, fs)` given the sections scipy designed for `Wn = BW` (one row; output is `.real`) -/
def lpf (secs : List (Sec R)) (edge : Nat) (s : Sig (Cx R)) : Except Wire.Err (Sig R) :=
  applyRows (lpfRow secs edge) s

/-- DC gain Σb/Σa of one section -/
def dcGain (c : Sec R) : R := (c.b0 + c.b1 + c.b2) / (((1 : Nat) : R) + c.a1 + c.a2)
end

/-! ### `retH`: the single-pass frequency response on the FFT grid

`_, H = sg.sosfreqz(sos_band, worN=signal.size, fs=fs, whole=True); return output, fftshift(H)`.
scipy: `sosfreqz` multiplies, section by section, `freqz(b, a, worN=N, whole=True)` =
`polyval(b, z⁻¹)/polyval(a, z⁻¹)` at `z⁻¹ = exp(-1j·w_k)`, `w_k = 2πk/N`, k = 0..N-1 (`fs` only labels the axis). -/
section
variable {R : Type} [Add R] [Sub R] [Mul R] [Div R] [Neg R] [NatCast R] [Transc R]

def cone : Cx R := ⟨((1 : Nat) : R), ((0 : Nat) : R)⟩

/-- complex division a/b = a·conj(b)/|b|² -/
def cdiv (a b : Cx R) : Cx R :=
  ⟨(a.re * b.re + a.im * b.im) / b.normSq, (a.im * b.re - a.re * b.im) / b.normSq⟩

/-- numerator `b0 + b1·w + b2·w²` and denominator `1 + a1·w + a2·w²` of one section at `w = z⁻¹` -/
def secNum (c : Sec R) (w : Cx R) : Cx R := Cx.ofReal c.b0 + Cx.smul c.b1 w + Cx.smul c.b2 (w * w)
def secDen (c : Sec R) (w : Cx R) : Cx R := cone + Cx.smul c.a1 w + Cx.smul c.a2 (w * w)
def secResp (c : Sec R) (w : Cx R) : Cx R := cdiv (secNum c w) (secDen c w)

/-- the cascade: Π_i B_i(z⁻¹)/A_i(z⁻¹) -/
def sosResp : List (Sec R) → Cx R → Cx R
  | [], _ => cone
  | c :: cs, w => secResp c w * sosResp cs w

/-- `z⁻¹` at grid point k of N: `exp(-j·2πk/N)` -/
def gridW (n k : Nat) : Cx R := Cx.cis (-(Fourier.ang n k))

/-- the response on the unshifted grid k = 0..N-1 (what `sosfreqz(..., worN=N, whole=True)` returns) -/
def respGrid (secs : List (Sec R)) (n : Nat) : List (Cx R) :=
  (List.range n).map (fun k => sosResp secs (gridW n k))

/-- what `LPF(..., retH=True)` returns beside the output: `fftshift(H)` -/
def retH (secs : List (Sec R)) (n : Nat) : List (Cx R) := Fourier.fftshift (respGrid secs n)
end

/-! ### line protocol -/
open Wire

def pSec : P (Sec Float) := do
  let b0 ← float; let b1 ← float; let b2 ← float; let a1 ← float; let a2 ← float
  let z0 ← float; let z1 ← float
  pure ⟨b0, b1, b2, a1, a2, z0, z1⟩

/-- `<edge> <nsec> (b0 b1 b2 a1 a2 zi0 zi1)* <rows> <0 | 1 rows>` -/
def pReq : P (Nat × List (Sec Float) × Sig (Cx Float)) := do
  let edge ← nat
  let secs ← list pSec
  let rows ← list (list cx)
  let nz ← list (list (list cx))
  match nz with
  | [] => pure (edge, secs, ⟨rows, none⟩)
  | [n] => pure (edge, secs, ⟨rows, some n⟩)
  | _ => throw "noise"

def fSig {α} (f : List α → String) (s : Sig α) : String :=
  fList f s.rows ++ " " ++ (match s.noise with | none => "0" | some n => "1 " ++ fList f n)

-- @handler OptiVerif.Filter.handle
/-- `filter.lpf <req>` · `filter.bpf <req>` · `filter.row <edge> <secs> <real row>` · `filter.reth <N> <secs>` -/
def handle : List String → Option String
  | "filter.lpf" :: args =>
    some <| match Wire.run pReq args with
    | .error e => "bad-op " ++ e
    | .ok (edge, secs, s) =>
      match lpf secs edge s with
      | .ok o => Wire.ok (fSig fFList o)
      | .error e => Wire.err e
  | "filter.bpf" :: args =>
    some <| match Wire.run pReq args with
    | .error e => "bad-op " ++ e
    | .ok (edge, secs, s) =>
      match bpf secs edge s with
      | .ok o => Wire.ok (fSig fCxList o)
      | .error e => Wire.err e
  | "filter.reth" :: args =>
    some <| match Wire.run (do let n ← nat; let s ← list pSec; pure (n, s)) args with
    | .error e => "bad-op " ++ e
    | .ok (n, secs) => Wire.ok (fCxList (retH secs n))
  | "filter.row" :: args =>
    some <| match Wire.run (do let e ← nat; let s ← list pSec; let r ← list float; pure (e, s, r)) args with
    | .error e => "bad-op " ++ e
    | .ok (edge, secs, r) =>
      match filtfilt secs edge r with
      | .ok o => Wire.ok (fFList o)
      | .error e => Wire.err e
  | _ => none

end OptiVerif.Filter
