/-
Model of `devices.FBG` (devices.py FBG, utils.rcos):
  * parameter resolution (fc / landa_D for the centre × dneff / vdneff / kL × L / N for the length) and its ValueErrors,
  * the per-frequency coefficients δ, s, k handed to `solve_ivp`,
  * the coupled-mode right-hand side  R' = j(σ̂R + κS),  S' = −j(σ̂S + κR)  with the apodisation profiles and the chirp,
  * ρ = S/R, the group-delay correction factor and the application of H to every polarisation row
    `ifft(fft(x) * ifftshift(H))` (through the DFT model of Model/Fourier.lean).
`solve_ivp` itself is a PARAMETER (DESIGN.md §2.2): the model owns the right-hand side, the final (R, S) vector is an input.
`tau_g` (np.unwrap/np.angle/np.diff) is a parameter too: its output array is an input.
Python truthiness (`if fc:`): an argument that is `None` or `0` is `none` here.
Generic numerics (Float for running, ℝ for proving).  Core Lean only.
-/
import OptiVerif.Model.NumList
import OptiVerif.Gen.Fbg

set_option linter.unusedSectionVars false

namespace OptiVerif.Fbg
open OptiVerif OptiVerif.Fourier OptiVerif.Fiber OptiVerif.NumList

/-- the design arguments; `none` = Python-falsy (None or 0) -/
structure Spec (R : Type) where
  neff : R
  v : R
  landaD : Option R
  fc : Option R
  kL : Option R
  L : Option R
  N : Option R
  dneff : Option R
  vdneff : Option R

/-- what the if-ladder leaves in `landa_D, L, vdneff, dneff` -/
structure Design (R : Type) where
  landaD : R
  L : R
  vdneff : R
  dneff : R
deriving Repr

inductive Apo | uniform | rcos | gaussian | parabolic | custom
  deriving DecidableEq, Repr

section
variable {R : Type} [Add R] [Sub R] [Mul R] [Div R] [Neg R] [NatCast R] [IntCast R] [Transc R] [Cmp R]

/-- `L = N * landa_D / (2 * neff)` -/
def nToL (neff landaD n : R) : R := n * landaD / (two * neff)

/-- `if kL: L = kLtoL(kL) elif N: L = N*landa_D/(2*neff)` after `if not (L or kL or N): raise ValueError` -/
def lengthOf (neff landaD : R) (kLtoL : R → R) (kL L N : Option R) : Except Wire.Err R :=
  match kL, N, L with
  | some k, _, _ => .ok (kLtoL k)
  | none, some n, _ => .ok (nToL neff landaD n)
  | none, none, some l => .ok l
  | none, none, none => .error .ValueError

/-- the if-ladder of FBG, branch by branch (`c0` = scipy.constants.c) -/
def resolve (c0 : R) (s : Spec R) : Except Wire.Err (Design R) :=
  match s.fc with
  | some fc =>
    match s.dneff with
    | some dn =>
      -- landa_D = 1 / (1 + dneff / neff) * c / fc ; vdneff = dneff * v ; L = kL / (pi * dneff * v / landa_D)
      let landaD := one / (one + dn / s.neff) * c0 / fc
      match lengthOf s.neff landaD (fun k => k / (Transc.pi * dn * s.v / landaD)) s.kL s.L s.N with
      | .error e => .error e
      | .ok l => .ok ⟨landaD, l, dn * s.v, dn⟩
    | none =>
      match s.vdneff with
      | some vdn =>
        -- landa_D = c / fc ; dneff = 0 ; L = kL / (pi * vdneff / landa_D)
        let landaD := c0 / fc
        match lengthOf s.neff landaD (fun k => k / (Transc.pi * vdn / landaD)) s.kL s.L s.N with
        | .error e => .error e
        | .ok l => .ok ⟨landaD, l, vdn, zero⟩
      | none => .error .ValueError
  | none =>
    match s.landaD with
    | some landaD =>
      match s.dneff with
      | some dn =>
        -- vdneff = dneff * v ; L = kL / (pi * vdneff / landa_D)
        let vdn := dn * s.v
        match lengthOf s.neff landaD (fun k => k / (Transc.pi * vdn / landaD)) s.kL s.L s.N with
        | .error e => .error e
        | .ok l => .ok ⟨landaD, l, vdn, dn⟩
      | none =>
        match s.vdneff with
        | some vdn =>
          match lengthOf s.neff landaD (fun k => k / (Transc.pi * vdn / landaD)) s.kL s.L s.N with
          | .error e => .error e
          | .ok l => .ok ⟨landaD, l, vdn, zero⟩
        | none =>
          match s.kL with
          | some k =>
            -- if N: L = N*landa_D/(2*neff) ; vdneff = kL * landa_D / (pi * L) ; dneff = vdneff / v
            match s.N, s.L with
            | some n, _ =>
              let l := nToL s.neff landaD n
              let vdn := k * landaD / (Transc.pi * l)
              .ok ⟨landaD, l, vdn, vdn / s.v⟩
            | none, some l =>
              let vdn := k * landaD / (Transc.pi * l)
              .ok ⟨landaD, l, vdn, vdn / s.v⟩
            | none, none => .error .ValueError
          | none => .error .ValueError
    | none => .error .ValueError

/-- the docstring's table of complete specifications, with the code's precedence (`fc` first) -/
def complete (s : Spec R) : Bool :=
  let len := s.L.isSome || s.kL.isSome || s.N.isSome
  if s.fc.isSome then (s.dneff.isSome || s.vdneff.isSome) && len
  else if s.landaD.isSome then
    if s.dneff.isSome || s.vdneff.isSome then len
    else s.kL.isSome && (s.L.isSome || s.N.isSome)
  else false

/-- `Λ = λ_D / (2*neff)` -/
def period (neff : R) (d : Design R) : R := d.landaD / (two * neff)
/-- `λc = (1 + dneff/neff) * λ_D` -/
def lambdaC (neff : R) (d : Design R) : R := (one + d.dneff / neff) * d.landaD
/-- `fc = c / λc` -/
def fcOut (c0 neff : R) (d : Design R) : R := c0 / lambdaC neff d
/-- `kL = pi / λ_D * vdneff * L` -/
def kLOut (d : Design R) : R := Transc.pi / d.landaD * d.vdneff * d.L

/-- `input.w(shift=True)` -/
def wShift (n : Nat) (fs : R) : List R := fftshift (wAxis n fs)

/-- `λ = 2*pi*c / (w + 2*pi*f0)` -/
def lambdaOf (c0 f0 w : R) : R := two * Transc.pi * c0 / (w + two * Transc.pi * f0)

/-- per-frequency coefficients, normalised to L:
    `δ = 2*pi*neff*(1/λ - 1/λ_D)*L`, `s = 2*pi*dneff/λ*L`, `k = pi*vdneff/λ*L` -/
structure Coef (R : Type) where
  delta : R
  s : R
  k : R

def coefAt (neff : R) (d : Design R) (lam : R) : Coef R :=
  ⟨two * Transc.pi * neff * (one / lam - one / d.landaD) * d.L,
   two * Transc.pi * d.dneff / lam * d.L,
   Transc.pi * d.vdneff / lam * d.L⟩

def coefs (c0 f0 fs neff : R) (d : Design R) (n : Nat) : List (Coef R) :=
  (wShift n fs).map (fun w => coefAt neff d (lambdaOf c0 f0 w))

/-! ### apodisation profiles -/

/-- `utils.rcos(x, alpha, T)`, the branch taken for a scalar `x` (solve_ivp passes a scalar `z`):
    `1 if |x| <= (1-alpha)/(2T) else 0 if |x| > (1+alpha)/(2T) else 0.5*(1+cos(pi*T/alpha*(|x|-(1-alpha)/(2T))))` -/
def rcos (x alpha T : R) : R :=
  let ax := absR x
  let lo := (one - alpha) / (two * T)
  let hi := (one + alpha) / (two * T)
  if le ax lo then one
  else if Cmp.lt hi ax then zero
  else (one / two) * (one + Transc.cos (Transc.pi * T / alpha * (ax - lo)))

/-- the profile FBG applies for `apodization='rcos'`: `rcos(z, alpha=1, T=2)` -/
def rcosProfile (z : R) : R := rcos z one two

/-- `np.exp(-4 * np.log(2) * (3 * z) ** 2)` -/
def gaussProfile (z : R) : R :=
  Transc.exp (-(((4 : Nat) : R)) * Transc.log two * ((((3 : Nat) : R) * z) * (((3 : Nat) : R) * z)))

/-- `1 - (2 * z) ** 2` -/
def parabolicProfile (z : R) : R := one - (two * z) * (two * z)

/-- `apo_func(z)`; `none` = `apo_func is None` (uniform: s and k are not multiplied at all);
    for a user callable the value `p` it returned is an input -/
def profile (a : Apo) (custom : R) (z : R) : Option R :=
  match a with
  | .uniform => none
  | .rcos => some (rcosProfile z)
  | .gaussian => some (gaussProfile z)
  | .parabolic => some (parabolicProfile z)
  | .custom => some custom

/-! ### the coupled-mode right-hand side -/

/-- `1j * a` -/
def mulI (a : Cx R) : Cx R := ⟨-a.im, a.re⟩
/-- `-1j * a` -/
def mulNegI (a : Cx R) : Cx R := ⟨a.im, -a.re⟩

/-- σ̂(z) = `δ + s*p - F*z` and κ(z) = `k*p` as `ode_system` computes them -/
def sigmaHat (p : Option R) (F z : R) (c : Coef R) : R :=
  (match p with | some p => c.delta + c.s * p | none => c.delta + c.s) - F * z
def kappa (p : Option R) (c : Coef R) : R :=
  match p with | some p => c.k * p | none => c.k

/-- `dRdz = 1j*(s_*R + k*S)`, `dSdz = -1j*(s_*S + k*R)` for one frequency -/
def rhs (p : Option R) (F z : R) (c : Coef R) (Rv Sv : Cx R) : Cx R × Cx R :=
  let sg := sigmaHat p F z c
  let kp := kappa p c
  (mulI (Cx.smul sg Rv + Cx.smul kp Sv), mulNegI (Cx.smul sg Sv + Cx.smul kp Rv))

/-- the vectorised system on `y = concatenate([R, S])` -/
def rhsAll (p : Option R) (F z : R) (cs : List (Coef R)) (Rs Ss : List (Cx R)) : List (Cx R) × List (Cx R) :=
  let rs := List.zipWith (fun (c : Coef R) (rs : Cx R × Cx R) => rhs p F z c rs.1 rs.2) cs (List.zip Rs Ss)
  (rs.map Prod.fst, rs.map Prod.snd)

/-! ### from the solver's final state to the output field -/

/-- complex quotient `a / b` -/
def cdiv (a b : Cx R) : Cx R :=
  let d := b.normSq
  ⟨(a.re * b.re + a.im * b.im) / d, (a.im * b.re - a.re * b.im) / d⟩

/-- `H = S / R` -/
def rho (Rs Ss : List (Cx R)) : List (Cx R) := List.zipWith (fun r s => cdiv s r) Rs Ss

/-- `ic = np.argmin(np.abs(λ - c/fc))` -/
def centreIndex (c0 f0 fs neff : R) (d : Design R) (n : Nat) : Nat :=
  let target := c0 / fcOut c0 neff d
  argmin ((wShift n fs).map (fun w => absR (lambdaOf c0 f0 w - target)))

/-- `H * np.exp(-1j * w * tau * 1e-12)` -/
def gdCorrect (psConv : R) (ws : List R) (tau : R) (H : List (Cx R)) : List (Cx R) :=
  List.zipWith (fun h w => h * Cx.cis (-(w * tau * psConv))) H ws

/-- `ifft(fft(x) * ifftshift(H))` on one polarisation row -/
def applyRow (H : List (Cx R)) (xs : List (Cx R)) : List (Cx R) := applyH (ifftshift H) xs

structure Out (R : Type) where
  H : List (Cx R)
  rows : List (List (Cx R))

/-- everything after `solve_ivp`: `Rs, Ss` = last column of `sol.y`, `tau` = the array `tau_g(H, fs)` returned.
    `dispersion(H, fs, fc)[ic]` and `tau_g(H, fs)[ic]` raise IndexError unless `ic < n-2`. -/
def finish (psConv c0 f0 fs neff : R) (d : Design R) (filtfilt : Bool) (Rs Ss : List (Cx R)) (tau : List R)
    (rows : List (List (Cx R))) : Except Wire.Err (Out R) :=
  let n := Rs.length
  let H := rho Rs Ss
  let ic := centreIndex c0 f0 fs neff d n
  if ic + 2 < n then
    match tau[ic]? with
    | none => .error .Other
    | some t =>
      let Hc := if filtfilt then gdCorrect psConv (wShift n fs) t H else H
      .ok ⟨Hc, rows.map (applyRow Hc)⟩
  else .error .Other
end

/-! ### line protocol -/
open Wire

def optF : P (Option Float) := do
  let t ← tok
  if t == "none" then pure none else
  match t.toNat? with
  | some n => pure (some (Float.ofBits n.toUInt64))
  | none => throw s!"optF:{t}"

def parseSpec : P (Spec Float) := do
  let neff ← Wire.float; let v ← Wire.float
  let landaD ← optF; let fc ← optF; let kL ← optF; let l ← optF; let n ← optF; let dn ← optF; let vdn ← optF
  pure ⟨neff, v, landaD, fc, kL, l, n, dn, vdn⟩

def parseApo : P Apo := do
  let t ← tok
  if t == "uniform" then pure .uniform else if t == "rcos" then pure .rcos else if t == "gaussian" then pure .gaussian
  else if t == "parabolic" then pure .parabolic else if t == "custom" then pure .custom else throw s!"apo:{t}"

/-- the ps → s factor of the group-delay correction, translated from the source -/
def psConvF : Float := Fiber.ratF Gen.Fbg.psConv

def fDesign (c0 neff : Float) (d : Design Float) : String :=
  String.intercalate " " [fF d.landaD, fF d.L, fF d.vdneff, fF d.dneff, fF (period neff d), fF (fcOut c0 neff d), fF (kLOut d)]

-- @handler OptiVerif.Fbg.handle
/-- `fbg.resolve <c0> <spec>` → `ok λ_D L vdneff dneff Λ fc kL` | `err ValueError`
    `fbg.coef <c0> <f0> <fs> <n> <spec>` → `ok <δ list> <s list> <k list>`
    `fbg.profile <apo> <z>` → `ok <p>`   (`uniform` → `ok none`)
    `fbg.rhs <c0> <f0> <fs> <spec> <apo> <custom p> <F> <z> <R list> <S list>` → `ok <dR list> <dS list>`
    `fbg.finish <c0> <f0> <fs> <spec> <filtfilt> <R list> <S list> <tau list> <rows>` → `ok <ic> <H list> <rows>` -/
def handle : List String → Option String
  | "fbg.resolve" :: args =>
    some <| match Wire.run (do let c0 ← Wire.float; let s ← parseSpec; pure (c0, s)) args with
    | .error e => "bad-op " ++ e
    | .ok (c0, s) =>
      match resolve c0 s with
      | .error e => Wire.err e
      | .ok d => Wire.ok (fDesign c0 s.neff d)
  | "fbg.coef" :: args =>
    some <| match Wire.run (do
        let c0 ← Wire.float; let f0 ← Wire.float; let fs ← Wire.float; let n ← Wire.nat; let s ← parseSpec
        pure (c0, f0, fs, n, s)) args with
    | .error e => "bad-op " ++ e
    | .ok (c0, f0, fs, n, s) =>
      match resolve c0 s with
      | .error e => Wire.err e
      | .ok d =>
        let cs := coefs c0 f0 fs s.neff d n
        Wire.ok (fFList (cs.map (·.delta)) ++ " " ++ fFList (cs.map (·.s)) ++ " " ++ fFList (cs.map (·.k)))
  | "fbg.profile" :: args =>
    some <| match Wire.run (do let a ← parseApo; let z ← Wire.float; pure (a, z)) args with
    | .error e => "bad-op " ++ e
    | .ok (a, z) =>
      match profile a 0 z with
      | none => Wire.ok "none"
      | some p => Wire.ok (fF p)
  | "fbg.rhs" :: args =>
    some <| match Wire.run (do
        let c0 ← Wire.float; let f0 ← Wire.float; let fs ← Wire.float; let s ← parseSpec; let a ← parseApo
        let p ← Wire.float; let F ← Wire.float; let z ← Wire.float
        let rs ← Wire.list Wire.cx; let ss ← Wire.list Wire.cx
        pure (c0, f0, fs, s, a, p, F, z, rs, ss)) args with
    | .error e => "bad-op " ++ e
    | .ok (c0, f0, fs, s, a, p, F, z, rs, ss) =>
      match resolve c0 s with
      | .error e => Wire.err e
      | .ok d =>
        let cs := coefs c0 f0 fs s.neff d rs.length
        let (dR, dS) := rhsAll (profile a p z) F z cs rs ss
        Wire.ok (fCxList dR ++ " " ++ fCxList dS)
  | "fbg.finish" :: args =>
    some <| match Wire.run (do
        let c0 ← Wire.float; let f0 ← Wire.float; let fs ← Wire.float; let s ← parseSpec; let ff ← Wire.bool
        let rs ← Wire.list Wire.cx; let ss ← Wire.list Wire.cx; let tau ← Wire.list Wire.float
        let rows ← Wire.list (Wire.list Wire.cx)
        pure (c0, f0, fs, s, ff, rs, ss, tau, rows)) args with
    | .error e => "bad-op " ++ e
    | .ok (c0, f0, fs, s, ff, rs, ss, tau, rows) =>
      match resolve c0 s with
      | .error e => Wire.err e
      | .ok d =>
        match finish psConvF c0 f0 fs s.neff d ff rs ss tau rows with
        | .error e => Wire.err e
        | .ok o =>
          Wire.ok (toString (centreIndex c0 f0 fs s.neff d rs.length) ++ " " ++ fCxList o.H ++ " " ++ Fourier.fRows o.rows)
  | _ => none

end OptiVerif.Fbg
