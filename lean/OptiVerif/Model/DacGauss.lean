/-
Model of the Gaussian branch of `opticomlib.devices.DAC` (devices.py:272-305): prototype pulse on its time grid, the scaling
factor `k`, the impulse train `s`, and `x = fftconvolve(s, pulse, mode="same")/2` as the direct (exact, linear) convolution with
scipy's "same" centring.  Core Lean only; written ONCE over a generic carrier `R` (`Model/Num.lean`): executed at `Float` by the
driver, reasoned about at `ℝ` in `Lemmas/DacGauss.lean` / `Props/C05.lean`.

Every constant and the formula of `k` come from the generated file `Gen/DacGauss.lean` (translated from the source on every run).
`x ** (2*m)` (integer exponent) is repeated multiplication, so negative `t` is exact; `a ** b` with a real exponent is
`exp(b·log a)` (positive base).
-/
import OptiVerif.Gen.DacGauss
import OptiVerif.Model.Num

set_option linter.unusedSectionVars false

namespace OptiVerif.DacGauss
open OptiVerif OptiVerif.Gen.DacGauss

section
variable {R : Type} [Add R] [Sub R] [Mul R] [Div R] [Neg R] [NatCast R] [Transc R]

/-- `x ** n` for a Python int `n ≥ 0` -/
def ipow (x : R) : Nat → R
  | 0 => lit 1
  | n + 1 => x * ipow x n

/-- `p(t, T) = np.exp(-(1 + 1j*c)/2 * (t/T)**(2*m))` (here `T` is the width parameter `T/k` handed to `p`) -/
def pulseAt (c : R) (m : Nat) (t Tw : R) : Cx R :=
  let u := ipow (t / Tw) (pulseExpFactor * m)
  Cx.exp ⟨-(lit 1) / lit pulseDen * u, -c / lit pulseDen * u⟩

/-- `np.linspace(-4*sps, 4*sps, 8*sps)`: `start + i·step`, `step = (stop − start)/(n − 1)` -/
def tGrid (sps : Nat) : List R :=
  let n := pointsPerSps * sps
  let start : R := -(lit (spanLo * sps))
  let stop : R := lit (spanHi * sps)
  let step : R := (stop - start) / (lit n - lit 1)
  (List.range n).map (fun (i : Nat) => start + lit i * step)

/-- `pulse = p(t, T/k)` -/
def pulse (c : R) (m T sps : Nat) : List (Cx R) :=
  (tGrid sps).map (fun t => pulseAt c m t (lit T / kFormula m))

/-- new value of position `j` (old value `x`) under `s[a::step] = data` -/
def strideVal (a step : Nat) (data : List R) (j : Nat) (x : R) : R :=
  if a ≤ j ∧ (j - a) % step = 0 then
    match data[(j - a) / step]? with
    | some d => d
    | none => x
  else x

/-- `s[a::step] = data` (numpy slice assignment; positions `a, a+step, …` take `data[0], data[1], …`) -/
def setStride (s : List R) (a step : Nat) (data : List R) : List R :=
  s.mapIdx (strideVal a step data)

/-- `s = np.zeros(len*sps); s[sps//2::sps] = data; s[sps//2-1::sps] = data` -/
def train (data : List R) (sps : Nat) : List R :=
  setStride (setStride (List.replicate (data.length * sps) (lit 0)) (strideA sps) sps data) (strideB sps) sps data

def cxZero : Cx R := ⟨lit 0, lit 0⟩

/-- scipy's `_centered`: first index of the "same" part of the full convolution -/
def sameStart (hlen : Nat) : Nat := (hlen - 1) / 2

/-- one term of the convolution sum: `acc + s[k]·h[n]` when both samples exist (outside the arrays: zero padding) -/
def convStep (oa : Option R) (ob : Option (Cx R)) (acc : Cx R) : Cx R :=
  match oa, ob with
  | some a, some b => acc + Cx.smul a b
  | _, _ => acc

/-- `fftconvolve(s, h, mode="same")` as the direct sum: `out[i] = Σ_k s[k]·h[start + i − k]`, `len(out) = len(s)` -/
def convSame (s : List R) (h : List (Cx R)) : List (Cx R) :=
  let sa := s.toArray
  let ha := h.toArray
  let c := sameStart h.length
  (List.range s.length).map fun i =>
    (List.range s.length).foldl (fun acc k => convStep sa[k]? (if k ≤ c + i then ha[c + i - k]? else none) acc) cxZero

/-- `/ 2` on a complex sample -/
def cdiv (z : Cx R) (d : R) : Cx R := ⟨z.re / d, z.im / d⟩

/-- unscaled Gaussian waveform `x` for real-valued slot data (the bits) -/
def core (data : List R) (sps : Nat) (c : R) (m T : Nat) : List (Cx R) :=
  (convSame (train data sps) (pulse c m T sps)).map (fun z => cdiv z (lit convDiv))

/-- `x = x * Vout` (if given), `x = x + bias` (if given) on complex samples -/
def scale (x : List (Cx R)) (vout bias : Option R) : List (Cx R) :=
  let x1 := match vout with | some v => x.map (fun z => Cx.smul v z) | none => x
  match bias with | some b => x1.map (fun z => ⟨z.re + b, z.im⟩) | none => x1

end

/-! ### line protocol (executed at `Float`) -/

open Wire in
def optFloat : P (Option Float) := do
  match (← get) with
  | "none" :: ts => set ts; pure none
  | _ => do let x ← float; pure (some x)

-- @handler OptiVerif.DacGauss.handle
/-- `dacg.run <sps> <m> <T> <c> <Vout|none> <bias|none> <n> b…` →
    `ok <len s> s… | <len pulse> (re im)… | <len x> (re im)…`  (`x` after scaling) -/
def handle : List String → Option String
  | "dacg.run" :: args =>
    some <| match Wire.run (do
        let sps ← Wire.nat; let m ← Wire.nat; let T ← Wire.nat; let c ← Wire.float
        let v ← optFloat; let b ← optFloat; let bits ← Wire.list Wire.nat
        pure (sps, m, T, c, v, b, bits)) args with
    | .error e => "bad-op " ++ e
    | .ok (sps, m, T, c, v, b, bits) =>
      if sps < 2 then "bad-op sps<2" else
      let data : List Float := bits.map (fun (n : Nat) => (n : Float))
      let s : List Float := train data sps
      let p : List (Cx Float) := pulse c m T sps
      let x := scale (core data sps c m T) v b
      Wire.ok (Wire.fFList s ++ " | " ++ Wire.fCxList p ++ " | " ++ Wire.fCxList x)
  | _ => none

end OptiVerif.DacGauss
