/-
C13 — analytic BER and receiver-noise formulas: `ook.THRESHOLD_EST / BER_analizer('estimator') / theory_BER`,
`ppm.THRESHOLD_EST / BER_analizer('estimator') / theory_BER`, `utils.p_ase / average_voltages / noise_variances /
optimum_threshold / theory_BER` (`/repo/opticomlib/{ook,ppm,utils}.py`).
Generic numeric model: ONE definition, executed at `Float` by the driver and proved about at `ℝ` (`Props/C13.lean`).
Core Lean only.

* the Gaussian tail `Q` is a PARAMETER (`Q : R → R`): the theorems assume `QSpec` (antitone, `Q x + Q (-x) = 1`,
  `0 ≤ Q ≤ 1`; satisfied by the Gaussian tail: `gaussQ_spec`); the driver instantiates it with `qFloat`
  (`0.5·erfc(x/2**0.5)`, erfc by series / continued fraction, compared with `utils.Q` on every run);
* `scipy.integrate.quad` is a library call: the model owns the integrand (`softIntegrand`, compared point-wise with the
  callable the code hands to `quad`, which the harness spies) and the post-processing of the returned value (`softFrom`);
* the scalar formulas of the receiver model and of `optimum_threshold`, the grid sizes and EDFA's `P_ase` are translated from
  the source into `Gen/BerFormulas.lean` on every run; this file only wires them together as the code does;
* physical constants (`kB`, `e`, `h`, `c`) are parameters;
* `ER = inf` is passed as `er = +inf` at `Float` (`(M-1)/inf = 0`, `p_ON/inf = 0` as in numpy); the theorems are stated for
  every real linear extinction ratio `er`.
-/
import OptiVerif.Model.Num
import OptiVerif.Gen.BerFormulas

set_option linter.unusedSectionVars false
set_option linter.unusedVariables false

namespace OptiVerif.Ber
open OptiVerif
open OptiVerif.Gen

section
variable {R : Type} [Add R] [Sub R] [Mul R] [Div R] [Neg R] [NatCast R] [IntCast R] [Transc R]
  [LT R] [DecidableLT R]

def lit (n : Nat) : R := (n : R)
/-- a translated literal -/
def ofRat (q : Rat) : R := ((q.num : Int) : R) / ((q.den : Nat) : R)
/-- the Python literal `0.5` -/
def half : R := lit 1 / lit 2
/-- `10**x` -/
def pow10 (x : R) : R := Transc.exp (x * Transc.log (lit 10))
/-- `utils.idb`: `10**(x/10)` -/
def idb (x : R) : R := pow10 (x / lit 10)
/-- `utils.idbm`: `10**(x/10-3)` -/
def idbm (x : R) : R := pow10 (x / lit 10 - lit 3)
/-- `x ** k` for a non-negative integer `k` -/
def powNat (x : R) : Nat → R
  | 0 => lit 1
  | k + 1 => powNat x k * x

/-! ### grids, minima -/

/-- `np.linspace(a, b, n)`: `step = (b-a)/(n-1)`, `y_k = k*step + a`, and the last point is set to `b` -/
def linspace (a b : R) : Nat → List R
  | 0 => []
  | 1 => [a]
  | m + 2 => ((List.range (m + 1)).map fun (k : Nat) => ((k : Nat) : R) * ((b - a) / ((m + 1 : Nat) : R)) + a) ++ [b]

/-- `np.min` of a non-empty array (first minimum kept) -/
def minL : List R → Option R
  | [] => none
  | x :: xs => some (xs.foldl (fun m y => if y < m then y else m) x)

/-- `np.argmin`: index of the first minimum; state = (index of the best, best value, next index) -/
def argminL : List R → Option Nat
  | [] => none
  | x :: xs => some (xs.foldl (fun (s : Nat × R × Nat) y => if y < s.2.1 then (s.2.2, y, s.2.2 + 1) else (s.1, s.2.1, s.2.2 + 1))
      (0, x, 1)).1

/-- `r[np.argmin(f(r))]` -/
def argminOn (f : R → R) (grid : List R) : Option R :=
  match argminL (grid.map f) with
  | none => none
  | some i => grid[i]?

/-! ### OOK  (`ook.py`) -/

/-- `0.5*(Q((mu1-r)/s1) + Q((r-mu0)/s0))`: objective of `THRESHOLD_EST`, value returned by `BER_analizer('estimator')` -/
def ookObj (Q : R → R) (mu0 mu1 s0 s1 r : R) : R := half * (Q ((mu1 - r) / s1) + Q ((r - mu0) / s0))

/-- `ook.THRESHOLD_EST(eye)` -/
def ookThreshold (Q : R → R) (mu0 mu1 s0 s1 : R) : Option R :=
  argminOn (ookObj Q mu0 mu1 s0 s1) (linspace mu0 mu1 BerFormulas.ookThresholdGrid)

/-- `ook.BER_analizer('estimator', eye_obj=eye)` -/
def ookEstimator (Q : R → R) (mu0 mu1 s0 s1 : R) : Option R :=
  (ookThreshold Q mu0 mu1 s0 s1).map fun um => ookObj Q mu0 mu1 s0 s1 um

/-- the summand minimised by `ook.theory_BER`: `Q((mu1-r)/s1) + Q(r/s0)` -/
def ookSum (Q : R → R) (mu1 s0 s1 r : R) : R := Q ((mu1 - r) / s1) + Q (r / s0)

/-- `ook.theory_BER(mu1, s0, s1)`: `0.5*np.min(Q((mu1-r)/s1) + Q(r/s0))`, `r = np.linspace(0, mu1, 1000)` -/
def ookTheory (Q : R → R) (mu1 s0 s1 : R) : Option R :=
  (minL ((linspace (lit 0) mu1 BerFormulas.ookTheoryGrid).map (ookSum Q mu1 s0 s1))).map fun m => half * m

/-! ### PPM  (`ppm.py`) -/

/-- symbol-error probability of hard decision at threshold `r`: `1 - Q((r-mu1)/s1) * (1-Q((r-mu0)/s0))**(M-1)` -/
def ppmObj (Q : R → R) (M : Nat) (mu0 mu1 s0 s1 r : R) : R :=
  lit 1 - Q ((r - mu1) / s1) * powNat (lit 1 - Q ((r - mu0) / s0)) (M - 1)

/-- `M & (M-1) == 0` -/
def isPow2 (M : Nat) : Bool := M &&& (M - 1) == 0

/-- `ppm.THRESHOLD_EST(eye, M)` -/
def ppmThreshold (Q : R → R) (M : Nat) (mu0 mu1 s0 s1 : R) : Except Wire.Err (Option R) :=
  if !isPow2 M then .error .ValueError else
  .ok (argminOn (ppmObj Q M mu0 mu1 s0 s1) (linspace mu0 mu1 BerFormulas.ppmThresholdGrid))

/-- symbol → bit error factor as written in `BER_analizer`: `M/2/(M-1)*Pe_sym` -/
def ppmFactorEst (M : Nat) (pe : R) : R := (M : R) / lit 2 / ((M : R) - lit 1) * pe
/-- … and as written in `theory_BER`: `fun(...)*0.5*M/(M-1)` -/
def ppmFactorTheory (M : Nat) (pe : R) : R := pe * half * (M : R) / ((M : R) - lit 1)

/-- the integrand handed to `quad`: `(1-Q((d+s1*x)/s0))**(M-1)*np.exp(-x**2/2)` with `d = mu1` (theory) or `I1-I0` (estimator) -/
def softIntegrand (Q : R → R) (M : Nat) (d s0 s1 x : R) : R :=
  powNat (lit 1 - Q ((d + s1 * x) / s0)) (M - 1) * Transc.exp (-(x * x) / lit 2)

/-- `1-1/(2*pi)**0.5*I` with `I` the value returned by `quad` -/
def softFrom (I : R) : R := lit 1 - lit 1 / Transc.sqrt (lit 2 * Transc.pi) * I

/-- the `decision` argument: exactly `'hard'` / `'soft'`; another letter case of them (`'Hard'`, `'SOFT'`, …: the three
    functions treat these differently); `None`; any other string -/
inductive Decision | hard | soft | hardCase | softCase | none | other
deriving DecidableEq, Repr

/-- `ppm.BER_analizer('estimator', eye_obj=eye, M=M, decision=…)`; `I` = value of the `quad` call (only read for `soft`) -/
def ppmEstimator (Q : R → R) (M : Nat) (dec : Decision) (mu0 mu1 s0 s1 I : R) : Except Wire.Err (Option R) :=
  if !isPow2 M then .error .ValueError else
  match dec with
  | .other => .error .ValueError          -- `decision.lower() not in ['hard', 'soft']`
  | .none => .error .Other                -- `None.lower()`: AttributeError
  | .hardCase | .softCase => .error .Other  -- accepted by the validation, matched by neither `== 'hard'` nor `== 'soft'`: UnboundLocalError
  | .hard =>
    match ppmThreshold Q M mu0 mu1 s0 s1 with
    | .error e => .error e
    | .ok um => .ok (um.map fun u => ppmFactorEst M (ppmObj Q M mu0 mu1 s0 s1 u))
  | .soft => .ok (some (ppmFactorEst M (softFrom I)))

/-- `ppm.theory_BER(mu1, s0, s1, M, decision)`: hard = grid minimum over `np.linspace(0, mu1, 1000)`, soft = Gaussian integral -/
def ppmTheory (Q : R → R) (M : Nat) (dec : Decision) (mu1 s0 s1 I : R) : Except Wire.Err (Option R) :=
  if !isPow2 M then .error .ValueError else
  match dec with
  | .other | .none | .hardCase | .softCase => .error .ValueError     -- compared with `==`
  | .hard =>
    .ok ((minL ((linspace (lit 0) mu1 BerFormulas.ppmTheoryGrid).map
      fun r => lit 1 - Q ((r - mu1) / s1) * powNat (lit 1 - Q (r / s0)) (M - 1))).map (ppmFactorTheory M))
  | .soft => .ok (some (ppmFactorTheory M (softFrom I)))

/-! ### the receiver model of `utils.py` -/

/-- constants and the receiver parameters (all in the units of the docstrings; `er` = linear extinction ratio `idb(ER)`,
    `M` = 2 for OOK) -/
structure Rx (R : Type) where
  kB : R
  e : R
  h : R
  amplify : Bool
  /-- optical carrier frequency: `c/wavelength` in `p_ase`, the argument `f0` in `theory_BER` -/
  f0 : R
  G : R
  NF : R
  BWopt : R
  r : R
  BWel : R
  RL : R
  T : R
  NFel : R

/-- `utils.p_ase(amplify, wavelength, G, NF, BW_opt)` with `f0 = c/wavelength` already formed -/
def pAse (x : Rx R) : R :=
  if x.amplify then BerFormulas.paAmp (idb x.NF) x.h x.f0 (idb x.G) x.BWopt else ofRat BerFormulas.paNoAmp

/-- levels returned by `utils.average_voltages`: (mu_OFF, mu_ON, mu_ASE) -/
def averageVoltages (x : Rx R) (pavg_dBm M er : R) : R × R × R :=
  let pavg := idbm pavg_dBm
  let g := BerFormulas.avG x.amplify (idb x.G)
  let pON := BerFormulas.avPon pavg M er
  let pOFF := BerFormulas.avPoff pON er
  let muAse := BerFormulas.avMuAse x.r (pAse x) x.RL
  (BerFormulas.avMu x.r g pOFF x.RL muAse, BerFormulas.avMu x.r g pON x.RL muAse, muAse)

/-- the four terms of `utils.noise_variances` at the level `mu`: (thermal, signal–ASE, ASE–ASE, shot), in V² -/
def nvTerms (x : Rx R) (muAse mu : R) : R × R × R × R :=
  let l := BerFormulas.nvL x.amplify x.BWel x.BWopt
  (BerFormulas.nvTh x.kB x.T x.BWel x.RL (idb x.NFel), BerFormulas.nvSigAse muAse mu l, BerFormulas.nvAseAse muAse l,
   BerFormulas.nvSh x.e mu x.BWel x.RL)

/-- `utils.noise_variances`: (S_OFF, S_ON) -/
def noiseVariances (x : Rx R) (pavg_dBm M er : R) : R × R :=
  let (mu0, mu1, muAse) := averageVoltages x pavg_dBm M er
  let t0 := nvTerms x muAse mu0
  let t1 := nvTerms x muAse mu1
  (BerFormulas.nvS t0.1 t0.2.1 t0.2.2.1 t0.2.2.2, BerFormulas.nvS t1.1 t1.2.1 t1.2.2.1 t1.2.2.2)

/-- levels computed inside `utils.theory_BER`: (mu_OFF, mu_ON, mu_ASE, l) -/
def tbLevels (x : Rx R) (pavg_dBm M er : R) : R × R × R × R :=
  let g : R := if x.amplify then idb x.G else ofRat BerFormulas.tbGNoAmp
  let l : R := if x.amplify then BerFormulas.tbL x.BWel x.BWopt else ofRat BerFormulas.tbLNoAmp
  let muAse : R := if x.amplify then
      BerFormulas.tbMuAse x.r (BerFormulas.tbPase (idb x.NF) x.h x.f0 (idb x.G) x.BWopt) x.RL
    else ofRat BerFormulas.tbMuAseNoAmp
  let pavg := idbm pavg_dBm
  let pON := BerFormulas.tbPon pavg M er
  let pOFF := BerFormulas.tbPoff pON er
  (BerFormulas.tbMuOff x.r g pOFF x.RL muAse, BerFormulas.tbMuOn x.r g pON x.RL muAse, muAse, l)

/-- the four variance terms inside `utils.theory_BER` at the level `mu` -/
def tbTerms (x : Rx R) (muAse l mu : R) : R × R × R × R :=
  (BerFormulas.tbTh x.kB x.T x.BWel x.RL (idb x.NFel), BerFormulas.tbSigAse muAse mu l, BerFormulas.tbAseAse muAse l,
   BerFormulas.tbSh x.e mu x.BWel x.RL)

/-- `s**2` of the OFF and ON slots inside `utils.theory_BER` -/
def tbVariances (x : Rx R) (pavg_dBm M er : R) : R × R :=
  let (mu0, mu1, muAse, l) := tbLevels x pavg_dBm M er
  let t0 := tbTerms x muAse l mu0
  let t1 := tbTerms x muAse l mu1
  (BerFormulas.tbS t0.1 t0.2.1 t0.2.2.1 t0.2.2.2, BerFormulas.tbS t1.1 t1.2.1 t1.2.2.1 t1.2.2.2)

/-- the `modulation` argument -/
inductive Modulation | ook | ppm | other
deriving DecidableEq, Repr

/-- `utils.theory_BER(P_avg, modulation, M, decision, threshold, ER, amplify, f0, G, NF, BW_opt, r, BW_el, R_L, T, NF_el)`.
    `given` = are `G`, `NF`, `BW_opt` not `None`; `M = none` = `M is None`; `thr = none` = optimum threshold searched on the
    5000-point grid; `I` = value returned by `quad` (soft decision). -/
def theoryBER (Q : R → R) (x : Rx R) (given : Bool) (pavg_dBm er : R) (mod : Modulation) (M : Option Nat) (dec : Decision)
    (thr : Option R) (I : R) : Except Wire.Err R :=
  if x.amplify ∧ !given then .error .ValueError else
  let Mv : Option Nat := if mod = .ook then some 2 else M
  -- the levels need a number for M (`p_avg * M`): `None` is a TypeError in Python, before the `M is None` test is reached
  match Mv with
  | none => .error .TypeError
  | some m =>
    let (mu0, mu1, _, _) := tbLevels x pavg_dBm (m : R) er
    let (S0, S1) := tbVariances x pavg_dBm (m : R) er
    let s0 := Transc.sqrt S0
    let s1 := Transc.sqrt S1
    let level : Option R → (R → R) → Except Wire.Err R := fun thr f =>
      match thr with
      | some t => if ¬ (lit 0 < t) ∨ ¬ (t < lit 1) then .error .ValueError else .ok (f (BerFormulas.tbThr t mu1 mu0))
      | none =>
        match minL ((linspace mu0 mu1 BerFormulas.utilsGrid).map f) with
        | none => .error .Other
        | some v => .ok v
    match mod with
    | .other => .error .Other          -- KeyError
    | .ook => level thr fun r => half * (Q ((mu1 - r) / s1) + Q ((r - mu0) / s0))
    | .ppm =>
      if m < 2 ∨ !isPow2 m then .error .ValueError else
      match dec with
      | .other => .error .ValueError
      | .none => .error .Other             -- `None.lower()`: AttributeError
      | .hard | .hardCase =>               -- `decision.lower() == 'hard'`
        match level thr fun r => lit 1 - Q ((r - mu1) / s1) * powNat (lit 1 - Q ((r - mu0) / s0)) (m - 1) with
        | .error e => .error e
        | .ok ser => .ok (ser * (m : R) / lit 2 / ((m : R) - lit 1))
      | .soft | .softCase => .ok (softFrom I * (m : R) / lit 2 / ((m : R) - lit 1))

/-- `utils.optimum_threshold(mu0, mu1, S0, S1, modulation, M)` (scalar arguments; `M` = 2 for OOK) -/
def optimumThreshold (mu0 mu1 S0 S1 : R) (M : Nat) : R :=
  if ¬ (S1 < S0) ∧ ¬ (S0 < S1) then BerFormulas.otEqual mu0 mu1 S0 (M : R)
  else BerFormulas.otGeneral (S1 - S0) mu0 S1 mu1 S0 (Transc.sqrt S1) (Transc.sqrt S0) (M : R)

/-- the Gaussian density `N(r; μ, S)` of variance `S` (the statement's notation) -/
def normalPdf (r mu S : R) : R :=
  Transc.exp (-((r - mu) * (r - mu)) / (lit 2 * S)) / Transc.sqrt (lit 2 * Transc.pi * S)

end

/-! ### `Q` at `Float` -/

/-- `erfc x` for `x ≥ 0`: series of `erf` below 1.5, continued fraction above (relative error ≈ 2·10⁻¹⁴, checked against
    `scipy.special.erfc` through `utils.Q` on every run) -/
def erfcPos (x : Float) : Float :=
  if x < 1.5 then
    -- erf x = 2/√π · e^{-x²} · Σ 2ⁿ x^{2n+1} / (2n+1)!!
    let rec go (n : Nat) (fuel : Nat) (term s : Float) : Float :=
      match fuel with
      | 0 => s
      | f + 1 =>
        let t := term * 2.0 * x * x / (2.0 * n.toFloat + 1.0)
        go (n + 1) f t (s + t)
    let s := go 1 60 x x
    1.0 - 2.0 / Float.sqrt 3.141592653589793 * Float.exp (-(x * x)) * s
  else
    let rec cf (k : Nat) (t : Float) : Float :=
      match k with
      | 0 => t
      | j + 1 => cf j (x + ((j + 1).toFloat / 2.0) / t)
    Float.exp (-(x * x)) / Float.sqrt 3.141592653589793 / cf 200 x

def erfcF (x : Float) : Float := if x < 0.0 then 2.0 - erfcPos (-x) else erfcPos x

/-- `utils.Q`: `0.5*sp.erfc(x/2**0.5)` -/
def qFloat (x : Float) : Float := 0.5 * erfcF (x / Float.sqrt 2.0)

/-! ### line protocol -/
namespace W
open Wire

def optF : P (Option Float) := do
  let k ← tok
  if k == "some" then pure (some (← float)) else if k == "none" then pure none else throw "optF"

def optN : P (Option Nat) := do
  let k ← tok
  if k == "some" then pure (some (← nat)) else if k == "none" then pure none else throw "optN"

def decision : P Decision := do
  let k ← tok
  pure (if k == "hard" then .hard else if k == "soft" then .soft else if k == "hardCase" then .hardCase
    else if k == "softCase" then .softCase else if k == "none" then .none else .other)

def modulation : P Modulation := do
  let k ← tok
  pure (if k == "ook" then .ook else if k == "ppm" then .ppm else .other)

def rx : P (Rx Float) := do
  let kB ← float; let e ← float; let h ← float
  let amp ← bool
  let f0 ← float; let g ← float; let nf ← float; let bwo ← float
  let r ← float; let bwe ← float; let rl ← float; let t ← float; let nfel ← float
  pure ⟨kB, e, h, amp, f0, g, nf, bwo, r, bwe, rl, t, nfel⟩

def fOpt : Option Float → String
  | some v => "some " ++ fF v
  | none => "none"

def fExc (r : Except Err (Option Float)) : String :=
  match r with
  | .error e => Wire.err e
  | .ok v => Wire.ok (fOpt v)
end W

-- @handler OptiVerif.Ber.handle
/-- requests (floats as bit patterns):
    `ber.q x` · `ber.ook_thr mu0 mu1 s0 s1` · `ber.ook_est mu0 mu1 s0 s1` · `ber.ook_theory mu1 s0 s1` ·
    `ber.ppm_thr M mu0 mu1 s0 s1` · `ber.ppm_est M dec mu0 mu1 s0 s1 I` · `ber.ppm_theory M dec mu1 s0 s1 I` ·
    `ber.integrand M d s0 s1 <xs>` · `ber.pase <rx>` · `ber.avg <rx> pavg M er` · `ber.nvar <rx> pavg M er` ·
    `ber.tb_model <rx> pavg M er` · `ber.tb <rx> given pavg er mod optM dec optThr I` · `ber.opt_thr mu0 mu1 S0 S1 M` -/
def handle : List String → Option String
  | "ber.q" :: args =>
    some <| match Wire.run Wire.float args with
    | .error e => "bad-op " ++ e
    | .ok x => Wire.ok (Wire.fF (qFloat x))
  | "ber.ook_thr" :: args =>
    some <| match Wire.run (do let a ← Wire.float; let b ← Wire.float; let c ← Wire.float; let d ← Wire.float; pure (a, b, c, d)) args with
    | .error e => "bad-op " ++ e
    | .ok (mu0, mu1, s0, s1) => Wire.ok (W.fOpt (ookThreshold qFloat mu0 mu1 s0 s1))
  | "ber.ook_est" :: args =>
    some <| match Wire.run (do let a ← Wire.float; let b ← Wire.float; let c ← Wire.float; let d ← Wire.float; pure (a, b, c, d)) args with
    | .error e => "bad-op " ++ e
    | .ok (mu0, mu1, s0, s1) => Wire.ok (W.fOpt (ookEstimator qFloat mu0 mu1 s0 s1))
  | "ber.ook_theory" :: args =>
    some <| match Wire.run (do let b ← Wire.float; let c ← Wire.float; let d ← Wire.float; pure (b, c, d)) args with
    | .error e => "bad-op " ++ e
    | .ok (mu1, s0, s1) => Wire.ok (W.fOpt (ookTheory qFloat mu1 s0 s1))
  | "ber.ppm_thr" :: args =>
    some <| match Wire.run (do
        let m ← Wire.nat; let a ← Wire.float; let b ← Wire.float; let c ← Wire.float; let d ← Wire.float; pure (m, a, b, c, d)) args with
    | .error e => "bad-op " ++ e
    | .ok (m, mu0, mu1, s0, s1) => W.fExc (ppmThreshold qFloat m mu0 mu1 s0 s1)
  | "ber.ppm_est" :: args =>
    some <| match Wire.run (do
        let m ← Wire.nat; let dec ← W.decision
        let a ← Wire.float; let b ← Wire.float; let c ← Wire.float; let d ← Wire.float; let i ← Wire.float
        pure (m, dec, a, b, c, d, i)) args with
    | .error e => "bad-op " ++ e
    | .ok (m, dec, mu0, mu1, s0, s1, i) => W.fExc (ppmEstimator qFloat m dec mu0 mu1 s0 s1 i)
  | "ber.ppm_theory" :: args =>
    some <| match Wire.run (do
        let m ← Wire.nat; let dec ← W.decision
        let b ← Wire.float; let c ← Wire.float; let d ← Wire.float; let i ← Wire.float
        pure (m, dec, b, c, d, i)) args with
    | .error e => "bad-op " ++ e
    | .ok (m, dec, mu1, s0, s1, i) => W.fExc (ppmTheory qFloat m dec mu1 s0 s1 i)
  | "ber.integrand" :: args =>
    some <| match Wire.run (do
        let m ← Wire.nat; let d ← Wire.float; let s0 ← Wire.float; let s1 ← Wire.float; let xs ← Wire.list Wire.float
        pure (m, d, s0, s1, xs)) args with
    | .error e => "bad-op " ++ e
    | .ok (m, d, s0, s1, xs) => Wire.ok (Wire.fFList (xs.map (softIntegrand qFloat m d s0 s1)))
  | "ber.pase" :: args =>
    some <| match Wire.run W.rx args with
    | .error e => "bad-op " ++ e
    | .ok x => Wire.ok (Wire.fF (pAse x))
  | "ber.avg" :: args =>
    some <| match Wire.run (do let x ← W.rx; let p ← Wire.float; let m ← Wire.float; let er ← Wire.float; pure (x, p, m, er)) args with
    | .error e => "bad-op " ++ e
    | .ok (x, p, m, er) =>
      let (a, b, c) := averageVoltages x p m er
      Wire.ok (Wire.fF a ++ " " ++ Wire.fF b ++ " " ++ Wire.fF c)
  | "ber.nvar" :: args =>
    some <| match Wire.run (do let x ← W.rx; let p ← Wire.float; let m ← Wire.float; let er ← Wire.float; pure (x, p, m, er)) args with
    | .error e => "bad-op " ++ e
    | .ok (x, p, m, er) =>
      let (a, b) := noiseVariances x p m er
      Wire.ok (Wire.fF a ++ " " ++ Wire.fF b)
  | "ber.tb_model" :: args =>
    some <| match Wire.run (do let x ← W.rx; let p ← Wire.float; let m ← Wire.float; let er ← Wire.float; pure (x, p, m, er)) args with
    | .error e => "bad-op " ++ e
    | .ok (x, p, m, er) =>
      let (mu0, mu1, muAse, _) := tbLevels x p m er
      let (a, b) := tbVariances x p m er
      Wire.ok (String.intercalate " " [Wire.fF mu0, Wire.fF mu1, Wire.fF muAse, Wire.fF a, Wire.fF b])
  | "ber.tb" :: args =>
    some <| match Wire.run (do
        let x ← W.rx; let given ← Wire.bool; let p ← Wire.float; let er ← Wire.float
        let mod ← W.modulation; let m ← W.optN; let dec ← W.decision; let thr ← W.optF; let i ← Wire.float
        pure (x, given, p, er, mod, m, dec, thr, i)) args with
    | .error e => "bad-op " ++ e
    | .ok (x, given, p, er, mod, m, dec, thr, i) =>
      match theoryBER qFloat x given p er mod m dec thr i with
      | .error e => Wire.err e
      | .ok v => Wire.ok (Wire.fF v)
  | "ber.opt_thr" :: args =>
    some <| match Wire.run (do
        let a ← Wire.float; let b ← Wire.float; let c ← Wire.float; let d ← Wire.float; let m ← Wire.nat; pure (a, b, c, d, m)) args with
    | .error e => "bad-op " ++ e
    | .ok (mu0, mu1, S0, S1, m) => Wire.ok (Wire.fF (optimumThreshold mu0 mu1 S0 S1 m))
  | _ => none

end OptiVerif.Ber
