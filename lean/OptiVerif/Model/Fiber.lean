/-
Model of linear propagation: `devices.DM` and `devices.FIBER` with gamma = 0 (devices.py DM, FIBER).
The frequency-domain filter is applied through the DFT model of `Model/Fourier.lean`
(`input('w') * H` then `('t')`; only `.signal` is filtered — `.noise` passes through, as in the code).
Generic numerics (Float for running, ℝ for proving).  Core Lean only.
-/
import OptiVerif.Model.Fourier
import OptiVerif.Gen.FiberConst

set_option linter.unusedSectionVars false

namespace OptiVerif.Fiber
open OptiVerif OptiVerif.Fourier

section
variable {R : Type} [Add R] [Sub R] [Mul R] [Div R] [Neg R] [NatCast R] [IntCast R] [Transc R]

/-- apply a frequency response (unshifted grid) to one row: ifft(fft(x) ⊙ H) -/
def applyH (H : List (Cx R)) (xs : List (Cx R)) : List (Cx R) :=
  idft (List.zipWith (· * ·) (dft xs) H)

/-- DM: `D *= dConv; H = exp(-1j * w**2 * D / 2)` with D given in ps² (dConv = 1e-24 translated from the source) -/
def dmH (dConv : R) (w : List R) (D : R) : List (Cx R) :=
  w.map (fun wk => Cx.cis (-(wk * wk * (D * dConv) / ((2 : Nat) : R))))

def dmRow (dConv fs : R) (D : R) (xs : List (Cx R)) : List (Cx R) :=
  applyH (dmH dConv (wAxis xs.length fs) D) xs

/-- what `retH=True` returns: `fftshift(H)` -/
def dmRetH (dConv : R) (n : Nat) (fs D : R) : List (Cx R) := fftshift (dmH dConv (wAxis n fs) D)

/-- FIBER's linear operator over the whole length:
    `exp(D_op * L)`, `D_op = -alpha'/2 - 1j/2*beta_2*w**2 - 1j/6*beta_3*w**3`, `w` in rad/ps, alpha' in 1/km -/
def fiberH (wConv : R) (w : List R) (alphaP beta2 beta3 L : R) : List (Cx R) :=
  w.map (fun wk =>
    let wp := wk * wConv
    Cx.exp ⟨(-(alphaP / ((2 : Nat) : R))) * L,
            (-(beta2 / ((2 : Nat) : R) * (wp * wp)) - beta3 / ((6 : Nat) : R) * (wp * wp * wp)) * L⟩)

/-- `alpha / 4.343` — the code's dB/km → 1/km constant is passed in (translated from the source) -/
def fiberLinRow (wConv kappa fs alpha beta2 beta3 L : R) (xs : List (Cx R)) : List (Cx R) :=
  applyH (fiberH wConv (wAxis xs.length fs) (alpha / kappa) beta2 beta3 L) xs
end

/-! ### whole containers -/

section
variable {R : Type} [Add R] [Sub R] [Mul R] [Div R] [Neg R] [NatCast R] [IntCast R] [Transc R]

/-- `DM` on a container: `(input('w') * H)('t')` — the `*` operator scales only `.signal` (C01), so every signal row
    goes through `ifft(fft(·)·H)` while every noise row only makes the round trip `ifft(fft(·))` -/
def dmPayload (dConv fs D : R) (p : Payload R) : Payload R :=
  ⟨p.sig.map (dmRow dConv fs D), p.noise.map (List.map (fun r => idft (dft r)))⟩

/-- `FIBER` with gamma = 0 on a container: `optical_signal(A, input.noise)` — the noise is handed over untouched -/
def fiberLinPayload (wConv kappa fs alpha beta2 beta3 L : R) (p : Payload R) : Payload R :=
  ⟨p.sig.map (fiberLinRow wConv kappa fs alpha beta2 beta3 L), p.noise⟩
end

/-! ### line protocol -/
open Wire

def ratF (q : Rat) : Float := Float.ofInt q.num / Float.ofNat q.den
def kappaF : Float := ratF Gen.FiberConst.kappa
def wConvF : Float := ratF Gen.FiberConst.wConv
def dConvF : Float := ratF Gen.FiberConst.dConv

-- @handler OptiVerif.Fiber.handle
/-- `fiber.dm <fs> <D> <rows>` · `fiber.lin <fs> <alpha> <beta2> <beta3> <L> <rows>` · `fiber.reth <n> <fs> <D>` -/
def handle : List String → Option String
  | "fiber.dm" :: args =>
    some <| match Wire.run (do let fs ← Wire.float; let d ← Wire.float; let rows ← Wire.list (Wire.list Wire.cx); pure (fs, d, rows)) args with
    | .error e => "bad-op " ++ e
    | .ok (fs, d, rows) => Wire.ok (Fourier.fRows (rows.map (dmRow dConvF fs d)))
  | "fiber.lin" :: args =>
    some <| match Wire.run (do
        let fs ← Wire.float; let a ← Wire.float; let b2 ← Wire.float; let b3 ← Wire.float
        let l ← Wire.float; let rows ← Wire.list (Wire.list Wire.cx); pure (fs, a, b2, b3, l, rows)) args with
    | .error e => "bad-op " ++ e
    | .ok (fs, a, b2, b3, l, rows) => Wire.ok (Fourier.fRows (rows.map (fiberLinRow wConvF kappaF fs a b2 b3 l)))
  | "fiber.reth" :: args =>
    some <| match Wire.run (do let n ← Wire.nat; let fs ← Wire.float; let d ← Wire.float; pure (n, fs, d)) args with
    | .error e => "bad-op " ++ e
    | .ok (n, fs, d) => Wire.ok (Wire.fCxList (dmRetH dConvF n fs d))
  | _ => none

end OptiVerif.Fiber
