/-
Model of `opticomlib.utils.str2array` and `_get_type_array_from_str` (utils.py:90-195).  Core Lean only, exact.

A string is a `List Char`.  Array entries are exact rationals `(re, im)` (the decimal value of the token); the
final decimal → binary64 rounding is Python's `float()` and is applied by the harness (partial clause).
`\s` of Python's `re` on `str` patterns is `str.isspace` (`isWs` below); `str.strip()` strips the same set.
-/
import OptiVerif.Model.RatIO

namespace OptiVerif.StrArray
open OptiVerif

inductive Ty | bool | int | float | complex
deriving DecidableEq, Repr

def Ty.toString : Ty → String
  | .bool => "bool" | .int => "int" | .float => "float" | .complex => "complex"

/-- `str.isspace()` / regex `\s` -/
def isWs (c : Char) : Bool :=
  let n := c.toNat
  (9 ≤ n && n ≤ 13) || (28 ≤ n && n ≤ 32) || n == 0x85 || n == 0xA0 || n == 0x1680 ||
  (0x2000 ≤ n && n ≤ 0x200A) || n == 0x2028 || n == 0x2029 || n == 0x202F || n == 0x205F || n == 0x3000

/-! ### `_get_type_array_from_str`: four nested character classes -/

/-- `[0-1,;\s]` -/
def isBoolChar (c : Char) : Bool := c == '0' || c == '1' || c == ',' || c == ';' || isWs c
/-- `[0-9,;\-\+\s]` -/
def isIntChar (c : Char) : Bool := c.isDigit || c == ',' || c == ';' || c == '-' || c == '+' || isWs c
/-- `[0-9,;.\+\-\s]` -/
def isFloatChar (c : Char) : Bool := c.isDigit || c == ',' || c == ';' || c == '.' || c == '+' || c == '-' || isWs c
/-- `[0-9,;.\+\-\sji]` -/
def isComplexChar (c : Char) : Bool :=
  c.isDigit || c == ',' || c == ';' || c == '.' || c == '+' || c == '-' || isWs c || c == 'j' || c == 'i'

/-- `re.match(r'^[class]+$', string)`: non-empty and every character in the class
    (`$` may also match before a final `\n`, but `\n` is itself in every class) -/
def fullMatch (p : Char → Bool) (s : List Char) : Bool := !s.isEmpty && s.all p

def inferType (s : List Char) : Option Ty :=
  if fullMatch isBoolChar s then some .bool
  else if fullMatch isIntChar s then some .int
  else if fullMatch isFloatChar s then some .float
  else if fullMatch isComplexChar s then some .complex
  else none

/-! ### splitting -/

/-- `str.split(sep)` for a one-character separator -/
def splitOn (sep : Char) : List Char → List (List Char)
  | [] => [[]]
  | c :: cs =>
    if c == sep then [] :: splitOn sep cs
    else match splitOn sep cs with
      | [] => [[c]]          -- unreachable: the result is never empty
      | t :: ts => (c :: t) :: ts

/-- `[,\s]` -/
def isSep (c : Char) : Bool := c == ',' || isWs c

/-- `re.split(r'[,\s]+', s)`: cut at every maximal run of separators; a leading / trailing run leaves an empty
    first / last token; the empty string gives `['']` -/
def splitRuns : List Char → List (List Char)
  | [] => [[]]
  | c :: cs =>
    match splitRuns cs with
    | [] => [[c]]            -- unreachable
    | t :: ts =>
      if isSep c then
        (match cs with
         | d :: _ => if isSep d then t :: ts else [] :: t :: ts     -- inside a run: nothing new
         | [] => [] :: t :: ts)
      else (c :: t) :: ts

/-- `str.strip()` -/
def strip (s : List Char) : List Char := ((s.dropWhile isWs).reverse.dropWhile isWs).reverse

/-! ### tokens → numbers (Python's `int()`, `float()`, `complex()` on the characters that can occur) -/

def digitVal (c : Char) : Nat := c.toNat - 48

def natOfDigits (ds : List Char) : Nat := ds.foldl (fun a c => 10 * a + digitVal c) 0

/-- `int(tok)`: optional sign, at least one digit -/
def parseInt (t : List Char) : Option Int :=
  let go (neg : Bool) (ds : List Char) : Option Int :=
    if ds.isEmpty || !ds.all Char.isDigit then none
    else some (if neg then -(natOfDigits ds : Int) else (natOfDigits ds : Int))
  match t with
  | '-' :: r => go true r
  | '+' :: r => go false r
  | r => go false r

/-- longest prefix `digits [. digits]` / `. digits` (what `strtod` consumes when no exponent can follow) -/
def unsignedPrefix (s : List Char) : Option (Rat × List Char) :=
  let ip := s.takeWhile Char.isDigit
  let r1 := s.dropWhile Char.isDigit
  match r1 with
  | '.' :: r2 =>
    let fp := r2.takeWhile Char.isDigit
    let r3 := r2.dropWhile Char.isDigit
    if ip.isEmpty && fp.isEmpty then none
    else some ((natOfDigits ip : Rat) + (natOfDigits fp : Rat) / ((10 ^ fp.length : Nat) : Rat), r3)
  | _ => if ip.isEmpty then none else some ((natOfDigits ip : Rat), r1)

/-- the same with an optional sign -/
def floatPrefix (s : List Char) : Option (Rat × List Char) :=
  match s with
  | '-' :: r => (unsignedPrefix r).map (fun vr => (-vr.1, vr.2))
  | '+' :: r => unsignedPrefix r
  | r => unsignedPrefix r

/-- `float(tok)` -/
def parseFloat (t : List Char) : Option Rat :=
  match floatPrefix t with
  | some (v, []) => some v
  | _ => none

/-- `complex(tok)` (CPython `complex_from_string_inner`), `i` already replaced by `j` -/
def parseComplex (t : List Char) : Option (Rat × Rat) :=
  match floatPrefix t with
  | some (z, s) =>
    match s with
    | [] => some (z, 0)                                   -- <float>
    | 'j' :: r => if r.isEmpty then some (0, z) else none -- <float>j
    | c :: r =>
      if c == '+' || c == '-' then
        match floatPrefix s with
        | some (y, s2) => if s2 == ['j'] then some (z, y) else none          -- <float><signed-float>j
        | none => if r == ['j'] then some (z, if c == '+' then 1 else -1) else none   -- <float><sign>j
      else none
  | none =>
    if t == ['j'] || t == ['+', 'j'] then some (0, 1)
    else if t == ['-', 'j'] then some (0, -1)
    else none

/-! ### arrays -/

structure Arr where
  ty : Ty
  /-- `none`: one-dimensional; `some r`: two-dimensional with `r` rows -/
  nrows : Option Nat
  ncols : Nat
  /-- row-major entries `(re, im)` -/
  data : List (Rat × Rat)
deriving Repr, DecidableEq

/-- all rows as long as the first (numpy refuses ragged nested lists with ValueError) -/
def rect {α} (rows : List (List α)) : Bool :=
  match rows with
  | [] => true
  | r :: rs => rs.all (fun q => q.length == r.length)

/-- `np.array(rows)`: a single row gives a 1-D array -/
def mkArr (ty : Ty) (rows : List (List (Rat × Rat))) : Arr :=
  match rows with
  | [r] => ⟨ty, none, r.length, r⟩
  | rs => ⟨ty, some rs.length, (rs.head?.map List.length).getD 0, rs.flatten⟩

def int64Min : Int := -9223372036854775808
def int64Max : Int := 9223372036854775807

/-- one token under `np.array(tokens, dtype=ty)` -/
def parseTok (ty : Ty) (t : List Char) : Except Wire.Err (Rat × Rat) :=
  match ty with
  | .int =>
    match parseInt t with
    | none => .error .ValueError
    | some n => if n < int64Min || n > int64Max then .error .Other /- OverflowError -/ else .ok ((n : Rat), 0)
  | .float =>
    match parseFloat t with
    | none => .error .ValueError
    | some v => .ok (v, 0)
  | .complex =>
    match parseComplex t with
    | none => .error .ValueError
    | some z => .ok z
  | .bool => .error .Other     -- never requested

/-- the `split(';')` / `re.split(r'[,\s]+', item.strip())` / `np.array(..., dtype=ty)` path -/
def parseNumeric (ty : Ty) (s : List Char) : Except Wire.Err Arr :=
  let rowsTok := (splitOn ';' s).map (fun p => splitRuns (strip p))
  if !rect rowsTok then .error .ValueError
  else do
    let rows ← rowsTok.mapM (fun toks => toks.mapM (parseTok ty))
    pure (mkArr ty rows)

/-- one character of a bit pattern under `.astype(bool)` of a `'<U1'` array (numpy parses it with `int()`) -/
def bitOfChar (c : Char) : Except Wire.Err (Rat × Rat) :=
  if c == '0' then .ok (0, 0) else if c == '1' then .ok (1, 0) else .error .ValueError

/-- the bit-pattern path: `string.replace(' ', '').replace(',', '').split(';')`, one entry per character -/
def parseBits (s : List Char) : Except Wire.Err Arr :=
  let pieces := splitOn ';' (s.filter (fun c => c != ' ' && c != ','))
  if !rect pieces then .error .ValueError
  else do
    let rows ← pieces.mapM (fun p => p.mapM bitOfChar)
    pure (mkArr .bool rows)

/-- truncation toward zero (`astype(int)` on a float) -/
def truncRat (q : Rat) : Int := if q < 0 then q.ceil else q.floor

/-- one entry under `.astype(to)` -/
def castEntry (to : Ty) (z : Rat × Rat) : Except Wire.Err (Rat × Rat) :=
  match to with
  | .complex => .ok z
  | .float => .ok (z.1, 0)
  | .int =>
    let n := truncRat z.1
    if n < int64Min || n > int64Max then .error .Other else .ok ((n : Rat), 0)
  | .bool => .ok (if z.1 ≠ 0 || z.2 ≠ 0 then 1 else 0, 0)

/-- `arr.astype(to)` -/
def astype (to : Ty) (a : Arr) : Except Wire.Err Arr := do
  let d ← a.data.mapM (castEntry to)
  pure { a with ty := to, data := d }

/-- `str2array(string, dtype)` for `dtype ∈ {None, bool, int, float, complex}` -/
def str2array (s : List Char) (dtype : Option Ty) : Except Wire.Err Arr :=
  match inferType s with
  | none => .error .ValueError
  | some cls => do
    let arr ← (match cls with
      | .bool =>
        (match dtype with
         | some .int => parseNumeric .int s
         | some .float => parseNumeric .float s
         | some .complex => parseNumeric .complex s
         | _ => parseBits s)
      | .int => parseNumeric .int s
      | .float => parseNumeric .float s
      | .complex => parseNumeric .complex (s.map (fun c => if c == 'i' then 'j' else c)))
    match dtype with
    | none => pure arr
    | some d => astype d arr

/-! ### wire -/

def tyOfString : String → Option (Option Ty)
  | "none" => some none | "bool" => some (some .bool) | "int" => some (some .int)
  | "float" => some (some .float) | "complex" => some (some .complex) | _ => none

def fArr (a : Arr) : String :=
  let shape := match a.nrows with
    | none => s!"1 {a.ncols}"
    | some r => s!"2 {r} {a.ncols}"
  s!"{a.ty.toString} {shape} " ++ Wire.fList (fun z => RatIO.fRat z.1 ++ " " ++ RatIO.fRat z.2) a.data

-- @handler OptiVerif.StrArray.handle
/-- line protocol: `str2array <none|bool|int|float|complex> <n> <code point>…` →
    `ok <ty> 1 <len> <n> re im …` | `ok <ty> 2 <rows> <cols> <n> re im …` | `err <enum>`;
    `str2array.type <n> <code point>…` → `ok <ty|none>` -/
def handle : List String → Option String
  | "str2array" :: d :: args =>
    some <| match tyOfString d, Wire.run (Wire.list Wire.nat) args with
    | some dt, .ok cps =>
      (match str2array (cps.map Char.ofNat) dt with
       | .error e => Wire.err e
       | .ok a => Wire.ok (fArr a))
    | _, _ => "bad-op str2array"
  | "str2array.type" :: args =>
    some <| match Wire.run (Wire.list Wire.nat) args with
    | .ok cps => Wire.ok (match inferType (cps.map Char.ofNat) with | none => "none" | some t => t.toString)
    | .error e => "bad-op " ++ e
  | _ => none

end OptiVerif.StrArray
