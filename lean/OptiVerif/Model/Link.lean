/-
Model of the noise-free link of property C03, composed from the library's blocks:
bits → DAC (NRZ: np.kron slot expansion, level bias + Vout·b) → MZM on a CW carrier (field factor `Modulators.mzmHu`,
the formula translated from the source for C06) → PD square law r·|E|²·R_load summed over polarisations (before its
output filter) → SAMPLER (one sample per slot at instant i) → threshold midway between the received levels;
and of `BER_analizer('counter')`.  Generic numerics; core Lean only.
-/
import OptiVerif.Model.Modulators

set_option linter.unusedSectionVars false

namespace OptiVerif.Link
open OptiVerif OptiVerif.Modulators

section
variable {R : Type} [Add R] [Sub R] [Mul R] [Div R] [Neg R] [NatCast R] [Transc R]

/-- DAC level of one bit: `x*Vout + bias` with x ∈ {0,1} -/
def lvl (vout bias : R) (b : Bool) : R := (if b then ((1 : Nat) : R) else ((0 : Nat) : R)) * vout + bias

/-- NRZ waveform: every sample of slot k is the level of bit k (`np.kron(bits, ones(sps))`) -/
def nrz (vout bias : R) (sps : Nat) (bits : List Bool) : List R :=
  bits.flatMap (fun b => List.replicate sps (lvl vout bias b))

/-- detected voltage (before PD's output filter) for drive voltage `u`:
    `kPD · |h(u)|²` with `kPD = r · R_load · |a|²` (a = CW amplitude in the modulated polarisation) -/
def rx (kPD lossdB erdB Vpi biasM u : R) : R := kPD * (mzmHu lossdB erdB Vpi biasM u).normSq

/-- the whole memoryless chain on a bit list -/
def received (kPD lossdB erdB Vpi biasM vout bias : R) (sps : Nat) (bits : List Bool) : List R :=
  (nrz vout bias sps bits).map (rx kPD lossdB erdB Vpi biasM)

/-- SAMPLER: `input[i::sps]` -/
def sampleFrom : List R → Nat → Nat → Nat → List R
  | _, _, _, 0 => []
  | xs, i, sps, n+1 => xs.getD i ((0 : Nat) : R) :: sampleFrom xs (i + sps) sps n

def sampler (xs : List R) (i sps : Nat) : List R :=
  if sps = 0 then [] else sampleFrom xs i sps ((xs.length + sps - 1 - i) / sps)
end

/-- decision "on the side of the ON level" of the mid threshold: (y − thr)·(v1 − v0) > 0 -/
def decideBit {R : Type} [Sub R] [Mul R] [NatCast R] [LT R] [DecidableLT R] (v0 v1 y : R) (thr : R) : Bool :=
  decide (((0 : Nat) : R) < (y - thr) * (v1 - v0))

/-- `BER_analizer('counter')`: number of differing positions (after truncating Tx to len Rx) over the length -/
def errors : List Bool → List Bool → Nat
  | t :: ts, r :: rs => (if t != r then 1 else 0) + errors ts rs
  | _, _ => 0

/-! ### line protocol -/
open Wire

def bitList : P (List Bool) := Wire.list Wire.bool

-- @handler OptiVerif.Link.handle
/-- `link.rx <kPD> <lossdB> <erdB> <Vpi> <biasM> <vout> <bias> <sps> <bits>` → waveform before PD's filter;
    `link.levels …same numeric args…` → v0 v1;  `link.errors <tx> <rx>` → count -/
def handle : List String → Option String
  | "link.rx" :: args =>
    some <| match Wire.run (do
        let k ← Wire.float; let l ← Wire.float; let e ← Wire.float; let vp ← Wire.float; let bm ← Wire.float
        let vo ← Wire.float; let b ← Wire.float; let sps ← Wire.nat; let bits ← bitList
        pure (k, l, e, vp, bm, vo, b, sps, bits)) args with
    | .error e => "bad-op " ++ e
    | .ok (k, l, e, vp, bm, vo, b, sps, bits) =>
      Wire.ok (Wire.fF (rx k l e vp bm (lvl vo b false)) ++ " " ++ Wire.fF (rx k l e vp bm (lvl vo b true)) ++ " " ++
        Wire.fFList (received k l e vp bm vo b sps bits))
  | "link.errors" :: args =>
    some <| match Wire.run (do let t ← bitList; let r ← bitList; pure (t, r)) args with
    | .error e => "bad-op " ++ e
    | .ok (t, r) => Wire.ok (toString (errors t r) ++ " " ++ toString (min t.length r.length))
  | _ => none

end OptiVerif.Link
