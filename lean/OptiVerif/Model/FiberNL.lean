/-
Model of `devices.FIBER` with nonlinearity (devices.py FIBER): dispersionless closed form (self-phase
modulation over the effective length), adaptive symmetric split-step loop with the code's step rule
`h = phi_max / (gamma * peak total power)`, first step limited to the fibre length, final partial step.
Generic numerics.  Core Lean only.  The `while True` loop takes fuel.
-/
import OptiVerif.Model.Fiber

set_option linter.unusedSectionVars false

namespace OptiVerif

/-- comparisons as Booleans (Float: IEEE; ℝ: classical) -/
class Cmp (R : Type) where
  lt : R → R → Bool
  eqz : R → Bool        -- `x == 0`

instance : Cmp Float := ⟨fun a b => a < b, fun a => a == 0⟩

namespace FiberNL
open OptiVerif.Fourier OptiVerif.Fiber

section
variable {R : Type} [Add R] [Sub R] [Mul R] [Div R] [Neg R] [NatCast R] [IntCast R] [Transc R] [Cmp R]

abbrev Rows (R : Type) := List (List (Cx R))

/-- `max(a, b)` as numpy's `.max()` would fold -/
def maxR (a b : R) : R := if Cmp.lt a b then b else a

/-- total instantaneous power per sample: Σ over polarisations of |A_r[k]|² (`np.atleast_2d(A)` then `.sum(axis=0)`) -/
def totalPower : Rows R → List R
  | [] => []
  | [r] => r.map Cx.normSq
  | r :: rs => List.zipWith (· + ·) (r.map Cx.normSq) (totalPower rs)

def maxList : List R → R
  | [] => ((0 : Nat) : R)
  | [x] => x
  | x :: xs => maxR x (maxList xs)

def peak (A : Rows R) : R := maxList (totalPower A)

/-- `exp_NL * a` with `exp_NL = exp(1j*gamma*(h/2)*|x|²)`; x is the field at the START of the step -/
def nlMul (gamma h : R) (x a : Cx R) : Cx R :=
  a * Cx.cis (gamma * (h / ((2 : Nat) : R)) * x.normSq)

/-- one symmetric split step on one row: `exp_NL * ifft(exp_L * fft(exp_NL * A))` -/
def stepRow (wConv fs alphaP b2 b3 gamma : R) (xs : List (Cx R)) (h : R) : List (Cx R) :=
  let y := xs.map (fun x => nlMul gamma h x x)
  let z := applyH (fiberH wConv (wAxis xs.length fs) alphaP b2 b3 h) y
  List.zipWith (fun x zk => nlMul gamma h x zk) xs z

def step (wConv fs alphaP b2 b3 gamma : R) (A : Rows R) (h : R) : Rows R :=
  A.map (fun r => stepRow wConv fs alphaP b2 b3 gamma r h)

/-- `phi_max / (gamma * peak)` if gamma != 0 else length -/
def nextH (gamma phiMax L : R) (A : Rows R) : R :=
  if Cmp.eqz gamma then L else phiMax / (gamma * peak A)

/-- the `while True` loop.  `h` = step about to be applied, `x` = `x_length` (end position of that step),
    `acc` = steps already applied (most recent first).  Returns the field, the steps applied and `x_length`. -/
def loop (stepF : Rows R → R → Rows R) (nextHF : Rows R → R) (L : R) :
    Nat → Rows R → R → R → List R → Except Wire.Err (Rows R × List R × R)
  | 0, _, _, _, _ => .error .Fuel
  | fuel+1, A, h, x, acc =>
    let A' := stepF A h
    let h' := nextHF A'
    if Cmp.lt L (x + h') then .ok (A', h :: acc, x)
    else loop stepF nextHF L fuel A' h' (x + h') (h :: acc)

/-- effective length -/
def lEff (alphaP L : R) : R :=
  if Cmp.eqz alphaP then L else (((1 : Nat) : R) - Transc.exp (-(alphaP * L))) / alphaP

/-- dispersionless branch: `A * exp(-alpha/2*L + 1j*gamma*L_eff*|A|²)` -/
def spmRow (alphaP gamma L : R) (xs : List (Cx R)) : List (Cx R) :=
  xs.map (fun a => a * Cx.exp ⟨-(alphaP / ((2 : Nat) : R)) * L, gamma * lEff alphaP L * a.normSq⟩)

/-- apply a GIVEN list of steps (the schedule observed on the implementation) and report, after each applied step,
    the step the rule `nextH` would choose next — used by the step-wise correspondence check -/
def replay (stepF : Rows R → R → Rows R) (nextHF : Rows R → R) : List R → Rows R → Rows R × List R
  | [], A => (A, [])
  | h :: hs, A =>
    let A' := stepF A h
    let (Af, rs) := replay stepF nextHF hs A'
    (Af, nextHF A' :: rs)

/-- the first step chosen by the code: `min(h0, L)` -/
def firstH (b2 b3 gamma phiMax L : R) (A : Rows R) : R :=
  let noDisp := Cmp.eqz b2 && Cmp.eqz b3
  let h0 := if noDisp || Cmp.eqz gamma then L else phiMax / (gamma * peak A)
  if Cmp.lt L h0 then L else h0

structure Out (R : Type) where
  rows : Rows R
  steps : List R      -- steps applied, in order

/-- FIBER on the signal rows (noise is passed through by the caller, as in the code) -/
def fiber (wConv kappa fs alpha b2 b3 gamma phiMax L : R) (fuel : Nat) (A : Rows R) : Except Wire.Err (Out R) :=
  let alphaP := alpha / kappa
  let noDisp := Cmp.eqz b2 && Cmp.eqz b3
  if noDisp && !(Cmp.eqz gamma) then
    .ok ⟨A.map (spmRow alphaP gamma L), []⟩
  else
    let stepF := step wConv fs alphaP b2 b3 gamma
    let h := firstH b2 b3 gamma phiMax L A          -- min(h, length)
    match loop stepF (nextH gamma phiMax L) L fuel A h h [] with
    | .error e => .error e
    | .ok (A', acc, x) =>
      let hf := L - x
      if Cmp.eqz hf then .ok ⟨A', acc.reverse⟩
      else .ok ⟨stepF A' hf, (hf :: acc).reverse⟩
end

/-! ### line protocol -/
open Wire

-- @handler OptiVerif.FiberNL.handle
/-- `fibernl.run <fs> <alpha> <b2> <b3> <gamma> <phimax> <L> <fuel> <rows>` → `ok <nsteps> <rows>` -/
def handle : List String → Option String
  | "fibernl.run" :: args =>
    some <| match Wire.run (do
        let fs ← Wire.float; let a ← Wire.float; let b2 ← Wire.float; let b3 ← Wire.float; let g ← Wire.float
        let phi ← Wire.float; let l ← Wire.float; let fuel ← Wire.nat
        let rows ← Wire.list (Wire.list Wire.cx); pure (fs, a, b2, b3, g, phi, l, fuel, rows)) args with
    | .error e => "bad-op " ++ e
    | .ok (fs, a, b2, b3, g, phi, l, fuel, rows) =>
      match fiber Fiber.wConvF Fiber.kappaF fs a b2 b3 g phi l fuel rows with
      | .error e => Wire.err e
      | .ok o => Wire.ok (toString o.steps.length ++ " " ++ Fourier.fRows o.rows)
  | "fibernl.replay" :: args =>
    some <| match Wire.run (do
        let fs ← Wire.float; let a ← Wire.float; let b2 ← Wire.float; let b3 ← Wire.float; let g ← Wire.float
        let phi ← Wire.float; let l ← Wire.float; let hs ← Wire.list Wire.float
        let rows ← Wire.list (Wire.list Wire.cx); pure (fs, a, b2, b3, g, phi, l, hs, rows)) args with
    | .error e => "bad-op " ++ e
    | .ok (fs, a, b2, b3, g, phi, l, hs, rows) =>
      let alphaP := a / Fiber.kappaF
      let (Af, rs) := replay (step Fiber.wConvF fs alphaP b2 b3 g) (nextH g phi l) hs rows
      Wire.ok (Wire.fF (firstH b2 b3 g phi l rows) ++ " " ++ Wire.fFList rs ++ " " ++ Fourier.fRows Af)
  | _ => none

end FiberNL
end OptiVerif
