/-
GF(2) matrices as lists of column bit-masks, and the executable maximal-period certificate for the
LFSR step (DESIGN.md §5 C04).  Core Lean only; evaluated by the kernel (`decide +kernel`).
-/
namespace OptiVerif.PrbsCert

/-- the documented step: shift left, feed back bit (n-1) xor bit (t-1), keep n bits -/
def step (n t s : Nat) : Nat :=
  ((s <<< 1) ||| (((s >>> (n-1)) ^^^ (s >>> (t-1))) &&& 1)) &&& (2^n - 1)

abbrev Mat := List Nat

/-- matrix (columns) times vector (bit mask) over GF(2) -/
def applyM : Mat → Nat → Nat
  | [], _ => 0
  | c :: cs, v => (if v.testBit 0 then c else 0) ^^^ applyM cs (v >>> 1)

def mulM (a b : Mat) : Mat := b.map (applyM a)

/-- columns f(2^k), f(2^(k+1)), …, n of them -/
def colsFrom (f : Nat → Nat) : Nat → Nat → Mat
  | _, 0 => []
  | k, n+1 => f (2^k) :: colsFrom f (k+1) n

def idM (n : Nat) : Mat := colsFrom id 0 n
def stepM (n t : Nat) : Mat := colsFrom (step n t) 0 n

/-- `m^k` by repeated squaring; `fuel` bounds the recursion (k < 2^fuel suffices) -/
def powM (n : Nat) (m : Mat) : Nat → Nat → Mat
  | 0, _ => idM n
  | f+1, k => if k = 0 then idM n else
      let h := powM n m f (k / 2)
      let h2 := mulM h h
      if k % 2 = 1 then mulM h2 m else h2

/-- `m + I` -/
def addI (n : Nat) (m : Mat) : Mat := List.zipWith (· ^^^ ·) m (idM n)

/-- Gauss–Jordan elimination on rows `(row, tag)`; only ever *evaluated*: its result is checked by a
    product, never trusted -/
def gjLoop (n : Nat) : Nat → Nat → List (Nat × Nat) → List (Nat × Nat)
  | 0, _, rows => rows
  | f+1, col, rows =>
    if col ≥ n then rows else
    match ((rows.zipIdx).find? (fun (r, i) => i ≥ col && r.1.testBit col)) with
    | none => rows
    | some (p, pi) =>
      let rows := rows.set pi (rows.getD col (0,0)) |>.set col p
      let rows := (rows.zipIdx).map (fun (r, i) => if i ≠ col && r.1.testBit col then (r.1 ^^^ p.1, r.2 ^^^ p.2) else r)
      gjLoop n f (col+1) rows

/-- transpose of a column-mask matrix -/
def transposeM (n : Nat) (a : Mat) : Mat :=
  (List.range n).map (fun i => (a.zipIdx).foldl (fun acc (c, j) => if c.testBit i then acc ||| 2^j else acc) 0)

/-- candidate inverse (left inverse is what the certificate checks) -/
def invM (n : Nat) (a : Mat) : Mat :=
  -- eliminate on the rows of `a` (= columns of the transpose), tags record the row operations
  let rows := (transposeM n a).zipIdx.map (fun (c, j) => (c, 2^j))
  transposeM n ((gjLoop n n 0 rows).map (·.2))

/-- the certificate: `M^N = I` and `M^(N/q) + I` has a left inverse for every `q` in `qs` -/
def certOK (n t : Nat) (qs : List Nat) : Bool :=
  let N := 2^n - 1
  let M := stepM n t
  (powM n M (n+1) N == idM n) &&
  qs.all (fun q =>
    let A := addI n (powM n M (n+1) (N / q))
    mulM (invM n A) A == idM n)

/-- trial division, fuel-recursive -/
def noDivFrom (n k : Nat) : Nat → Bool
  | 0 => true
  | fuel+1 => if k * k > n then true else if n % k == 0 then false else noDivFrom n (k+1) fuel

def isPrimeB (n : Nat) : Bool := decide (2 ≤ n) && noDivFrom n 2 n.sqrt

end OptiVerif.PrbsCert
