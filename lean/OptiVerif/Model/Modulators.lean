/-
C06 — MZM, PM, LASER (`/repo/opticomlib/devices.py`: `MZM`, `PM`, `LASER`; dB helpers of `utils.py`).
Generic numeric model (DESIGN.md §2.1 item 2): written once over a carrier `R`, executed at `Float`
(driver, correspondence with numpy) and proved about at `ℝ` (`Props/C06.lean`).  Core Lean only.

Conventions
* a field is `Field (Cx R)`: signal rows (`one x` = 1-D array, `two x y` = array of shape (2,N)) and optional noise rows
  of the same shape (the constructor of `optical_signal` guarantees the shapes agree; the harness only ships such values);
* every random draw of `LASER` (`np.random.normal`) is an input of the model (DESIGN.md §2.2);
* every arithmetic formula (dB helpers, loss, eta, g_t, h_t, the PM phase, the laser amplitude / sigmas / phases / limits)
  is NOT written here: it is `Gen/OptDev.lean`, regenerated from `/repo` by `tools/extractors/optdev.py` on every run;
  this file only adds the array / container / polarisation / error structure around those formulas.
-/
import OptiVerif.Model.Num
import OptiVerif.Gen.OptDev
import OptiVerif.Model.Filter

set_option linter.unusedSectionVars false
set_option linter.unusedVariables false

namespace OptiVerif.Modulators
open OptiVerif

/-- rows of an `optical_signal` array: 1-D (`n_pol = 1`) or shape (2,N) (`n_pol = 2`) -/
inductive Rows (α : Type) where
  | one (x : List α)
  | two (x y : List α)
deriving Repr, BEq

namespace Rows
variable {α β : Type}
/-- apply a row transformer to every polarisation -/
def map (f : List α → List β) : Rows α → Rows β
  | one x => one (f x)
  | two x y => two (f x) (f y)
/-- `optical_signal.len()` -/
def len : Rows α → Nat
  | one x => x.length
  | two x _ => x.length
def x : Rows α → List α
  | one a => a
  | two a _ => a
/-- all rows have `n` samples -/
def Shaped (n : Nat) : Rows α → Prop
  | one a => a.length = n
  | two a b => a.length = n ∧ b.length = n
/-- the rows as a list (`axis=-1` filtering treats every row alike) -/
def toList : Rows α → List (List α)
  | one a => [a]
  | two a b => [a, b]
end Rows

/-- sample-wise sum of two values of the same shape (`signal + noise`) -/
def Rows.add {α : Type} [Add α] : Rows α → Rows α → Rows α
  | .one a, .one b => .one (List.zipWith (· + ·) a b)
  | .two a a', .two b b' => .two (List.zipWith (· + ·) a b) (List.zipWith (· + ·) a' b')
  | r, _ => r

/-- `.signal` and `.noise` of an `optical_signal` -/
structure Field (α : Type) where
  sig : Rows α
  noise : Option (Rows α)
deriving Repr, BEq

/-- the total field: `signal + noise` (just `signal` when there is no noise component) -/
def Field.total {α : Type} [Add α] (x : Field α) : Rows α :=
  match x.noise with
  | none => x.sig
  | some nz => x.sig.add nz

/-- a field as the optical filter (C11 model) sees it -/
def Field.toSig {α : Type} (x : Field α) : Filter.Sig α := ⟨x.sig.toList, x.noise.map Rows.toList⟩

/-- the kinds of `el_input` the code distinguishes -/
inductive Drive (R : Type) where
  /-- Python `int` / `float` / `bool` (also `np.float64`, a `float` subclass) -/
  | scalar (v : R)
  /-- 1-D `ndarray` -/
  | array (vs : List R)
  /-- `list` / `tuple` / `str`: accepted by `MZM` through `electrical_signal(el_input)`, rejected by `PM` -/
  | seq (vs : List R)
  /-- `electrical_signal`: only `.signal` is read, its noise (if any) is ignored -/
  | esig (vs : List R) (noise : Option (List R))
deriving Repr

namespace Drive
variable {R : Type}
/-- `electrical_signal(el_input).signal` -/
def samples : Drive R → List R
  | scalar v => [v]
  | array vs => vs
  | seq vs => vs
  | esig vs _ => vs
end Drive

/-- the `pol` argument of `MZM` -/
inductive PolSel where
  | x | y | other
deriving Repr, DecidableEq

/- formulas translated from the source (see Gen/OptDev.lean): `lit n`, `pow10 x = 10**x`, `idb`, `idbm`,
   `mzmLoss = idb(-loss_dB)`, `mzmEta = 2*idb(-ER_dB)**0.5`, `mzmG = pi/2/Vpi*(u+bias)`, the laser sigmas -/
open OptiVerif.Gen.OptDev (lit pow10 idb idbm mzmLoss mzmEta mzmG laserPhaseSigma laserRinSigma)

section
variable {R : Type} [Add R] [Sub R] [Mul R] [Div R] [Neg R] [NatCast R] [Transc R]

def czero : Cx R := ⟨lit 0, lit 0⟩

/-! ### MZM  (`devices.py` MZM) -/

/-- the factor of `sin` in the documented form: `eta / 2` -/
def mzmK (erdB : R) : R := mzmEta erdB / lit 2
/-- documented form of the factor: `h = sqrt(loss) * (cos g + j * k * sin g)` -/
def mzmH (loss k g : R) : Cx R :=
  ⟨Transc.sqrt loss * Transc.cos g, Transc.sqrt loss * (k * Transc.sin g)⟩
/-- `h_t` at one drive sample, as the source computes it (real and imaginary part of the translated expression) -/
def mzmHu (lossdB erdB Vpi bias u : R) : Cx R :=
  ⟨Gen.OptDev.mzmHre (mzmLoss lossdB) (mzmEta erdB) (mzmG Vpi bias u),
   Gen.OptDev.mzmHim (mzmLoss lossdB) (mzmEta erdB) (mzmG Vpi bias u)⟩

/-- numpy broadcasting of a length-1 drive against `n` samples -/
def expand (n : Nat) : List R → List R
  | [u] => List.replicate n u
  | us => us

/-- `row * h_t` -/
def modRow (hs : List (Cx R)) (row : List (Cx R)) : List (Cx R) := List.zipWith (· * ·) row hs

/-- `output.signal[1] = 0` / `output.signal[0] = 0` for a two-polarisation value -/
def blank : PolSel → Rows (Cx R) → Rows (Cx R)
  | .x, .two a b => .two a (b.map fun _ => czero)
  | .y, .two a b => .two (a.map fun _ => czero) b
  | _, r => r

/-- what `MZM` does to `.signal` and (alike) to `.noise`, given the expanded drive -/
def mzmRows (pol : PolSel) (hs : List (Cx R)) (r : Rows (Cx R)) : Rows (Cx R) :=
  blank pol (r.map (modRow hs))

/-- `MZM(op_input, el_input, bias, Vpi, loss_dB, ER_dB, pol)` (BW=None) for an `optical_signal` input.
    Order of checks as in the code: length, then `pol`. -/
def mzm (pol : PolSel) (bias Vpi lossdB erdB : R) (d : Drive R) (x : Field (Cx R)) :
    Except Wire.Err (Field (Cx R)) :=
  let us := d.samples
  let n := x.sig.len
  if us.length ≠ n ∧ us.length ≠ 1 then .error .ValueError else
  if pol = .other then .error .ValueError else
  let hs := (expand n us).map (mzmHu lossdB erdB Vpi bias)
  .ok ⟨mzmRows pol hs x.sig, x.noise.map (mzmRows pol hs)⟩

/-- `MZM(..., BW=BW)`: `output = BPF(output, BW)` after the modulation.  The sections `secs` (with their `sosfilt_zi` rows)
    and the pad length `edge` are what scipy produced for `Wn = BW/2` (spied, as in the C11 model `Filter.bpf`). -/
def mzmBW (pol : PolSel) (bias Vpi lossdB erdB : R) (d : Drive R) (secs : List (Filter.Sec R)) (edge : Nat)
    (x : Field (Cx R)) : Except Wire.Err (Filter.Sig (Cx R)) :=
  match mzm pol bias Vpi lossdB erdB d x with
  | .error e => .error e
  | .ok y => Filter.bpf secs edge y.toSig

/-! ### PM  (`devices.py` PM) -/

/-- phase of `np.exp(1j * el_input * pi / Vpi)` as applied to `.signal` (translated) -/
def pmPhase (Vpi u : R) : R := Gen.OptDev.pmPhaseSignal Vpi u
def pmRot (Vpi u : R) : Cx R := Cx.cis (pmPhase Vpi u)
def pmRows (Vpi : R) (us : List R) (r : Rows (Cx R)) : Rows (Cx R) :=
  r.map (modRow (us.map (pmRot Vpi)))
/-- the same for `.noise` (its own `np.exp(...)` expression in the source) -/
def pmRowsNoise (Vpi : R) (us : List R) (r : Rows (Cx R)) : Rows (Cx R) :=
  r.map (modRow (us.map fun u => Cx.cis (Gen.OptDev.pmPhaseNoise Vpi u)))

/-- drive dispatch and length checks of `PM` against an optical input of `n` samples: the phase-drive samples actually used.
    `scalar`: `np.ones(n) * v`; `electrical_signal`: its `.signal` (length must match); `ndarray`: itself (length must match);
    anything else: `TypeError`. -/
def pmDrive (n : Nat) : Drive R → Except Wire.Err (List R)
  | .scalar v => .ok (List.replicate n v)
  | .esig vs _ => if vs.length ≠ n then .error .ValueError else .ok vs
  | .array vs => if vs.length ≠ n then .error .ValueError else .ok vs
  | .seq _ => .error .TypeError

/-- `PM(op_input, el_input, Vpi)` for an `optical_signal` input: rotation of signal and (alike) of noise -/
def pm (Vpi : R) (d : Drive R) (x : Field (Cx R)) : Except Wire.Err (Field (Cx R)) :=
  match pmDrive x.sig.len d with
  | .error e => .error e
  | .ok us => .ok ⟨pmRows Vpi us x.sig, x.noise.map (pmRowsNoise Vpi us)⟩

/-! ### LASER  (`devices.py` LASER) -/

/-- `np.cumsum` continued from an accumulator -/
def cumsumFrom : R → List R → List R
  | _, [] => []
  | acc, d :: ds => (acc + d) :: cumsumFrom (acc + d) ds
/-- `np.cumsum` -/
def cumsum : List R → List R
  | [] => []
  | d :: ds => d :: cumsumFrom d ds

/-- multiply by `exp(1j*phase_noise)` -/
def laserPhase (e : List (Cx R)) (draws : List R) : List (Cx R) :=
  List.zipWith (fun z φ => z * Cx.cis (Gen.OptDev.laserPhaseArg φ)) e (cumsum draws)
/-- multiply by `sqrt(1 + rin_noise)` -/
def laserRin (e : List (Cx R)) (draws : List R) : List (Cx R) :=
  List.zipWith (fun z r => z * Cx.ofReal (Gen.OptDev.laserRinFactor r)) e draws
/-- multiply by `exp(1j*2*pi*df*t)` -/
def laserOffset (e : List (Cx R)) (df : R) (t : List R) : List (Cx R) :=
  List.zipWith (fun z tk => z * Cx.cis (Gen.OptDev.laserOffsetArg df tk)) e t

/-- `if lw is not None:` — `phase` = the recorded `np.random.normal(0, σ, t.size)` draw (present iff `lw` was given).
    A recorded draw whose length differs from `t.size = n` cannot come from the code: `Other`. -/
def laserStage1 (n : Nat) (e0 : List (Cx R)) : Option (List R) → Except Wire.Err (List (Cx R))
  | none => .ok e0
  | some d => if d.length ≠ n then .error .Other else .ok (laserPhase e0 d)

/-- `if rin is not None:` — with the `rin_noise.min() < -1` rejection -/
def laserStage2 [LT R] [DecidableLT R] (n : Nat) (e1 : List (Cx R)) : Option (List R) → Except Wire.Err (List (Cx R))
  | none => .ok e1
  | some r =>
    if r.length ≠ n then .error .Other
    else if r.any (fun v => decide (v < Gen.OptDev.laserRinFloor)) then .error .ValueError
    else .ok (laserRin e1 r)

/-- `if df is not None:` — with the Nyquist check `np.abs(df) > gv.fs/2` -/
def laserStage3 [LT R] [DecidableLT R] (fs : R) (t : List R) (e2 : List (Cx R)) : Option R → Except Wire.Err (List (Cx R))
  | none => .ok e2
  | some f =>
    if Gen.OptDev.laserNyquist fs < f ∨ Gen.OptDev.laserNyquist fs < -f then .error .ValueError
    else .ok (laserOffset e2 f t)

/-- `LASER(t, p, lw, rin, df)`; `phase` / `rin` are the recorded `np.random.normal` draws (present iff `lw` / `rin` was given) -/
def laser [LT R] [DecidableLT R] (p : R) (phase rin : Option (List R)) (df : Option R) (fs : R)
    (t : List R) : Except Wire.Err (List (Cx R)) :=
  let e0 : List (Cx R) := t.map fun _ => Cx.ofReal (Gen.OptDev.laserAmp p)
  match laserStage1 t.length e0 phase with
  | .error e => .error e
  | .ok e1 =>
    match laserStage2 t.length e1 rin with
    | .error e => .error e
    | .ok e2 => laserStage3 fs t e2 df

end

/-! ### line protocol (Float instantiation) -/
namespace W
open Wire

def rows : P (Rows (Cx Float)) := do
  let np ← nat
  if np == 1 then pure (.one (← list cx))
  else if np == 2 then do let a ← list cx; let b ← list cx; pure (.two a b)
  else throw "npol"

def field : P (Field (Cx Float)) := do
  let s ← rows
  let hn ← bool
  if hn then pure ⟨s, some (← rows)⟩ else pure ⟨s, none⟩

def drive : P (Drive Float) := do
  let k ← tok
  if k == "s" then pure (.scalar (← float))
  else if k == "a" then pure (.array (← list float))
  else if k == "q" then pure (.seq (← list float))
  else if k == "e" then do
    let vs ← list float
    let hn ← bool
    if hn then pure (.esig vs (some (← list float))) else pure (.esig vs none)
  else throw "drive"

def polSel : P PolSel := do
  let k ← tok
  pure (if k == "x" then .x else if k == "y" then .y else .other)

def optF : P (Option Float) := do
  if (← bool) then pure (some (← float)) else pure none
def optFList : P (Option (List Float)) := do
  if (← bool) then pure (some (← list float)) else pure none

def fRows : Rows (Cx Float) → String
  | .one a => "1 " ++ fCxList a
  | .two a b => "2 " ++ fCxList a ++ " " ++ fCxList b
def fField (x : Field (Cx Float)) : String :=
  fRows x.sig ++ (match x.noise with | none => " 0" | some r => " 1 " ++ fRows r)

def fRes : Except Err (Field (Cx Float)) → String
  | .ok r => ok (fField r)
  | .error e => err e
end W

/- line protocol:
    `mod.mzm <x|y|other> <bias> <Vpi> <loss_dB> <ER_dB> <drive> <field>`,
    `mod.mzmbw <x|y|other> <bias> <Vpi> <loss_dB> <ER_dB> <drive> <edge> <secs> <field>`  (reply in `Filter.fSig` layout),
    `mod.pm <Vpi> <drive> <field>`,
    `mod.laser <p> <fs> <phase?> <rin?> <df?> <t>`,
    `mod.lasersigma <lw> <dt> <rin> <fs>` -/
-- @handler OptiVerif.Modulators.handle
def handle : List String → Option String
  | "mod.mzm" :: args =>
    some <| match Wire.run (do
        let p ← W.polSel; let b ← Wire.float; let v ← Wire.float; let l ← Wire.float; let e ← Wire.float
        let d ← W.drive; let x ← W.field; pure (p, b, v, l, e, d, x)) args with
    | .error e => "bad-op " ++ e
    | .ok (p, b, v, l, e, d, x) => W.fRes (mzm p b v l e d x)
  | "mod.mzmbw" :: args =>
    some <| match Wire.run (do
        let p ← W.polSel; let b ← Wire.float; let v ← Wire.float; let l ← Wire.float; let e ← Wire.float
        let d ← W.drive; let edge ← Wire.nat; let secs ← Wire.list Filter.pSec; let x ← W.field
        pure (p, b, v, l, e, d, edge, secs, x)) args with
    | .error e => "bad-op " ++ e
    | .ok (p, b, v, l, e, d, edge, secs, x) =>
      match mzmBW p b v l e d secs edge x with
      | .ok o => Wire.ok (Filter.fSig Wire.fCxList o)
      | .error e => Wire.err e
  | "mod.pm" :: args =>
    some <| match Wire.run (do let v ← Wire.float; let d ← W.drive; let x ← W.field; pure (v, d, x)) args with
    | .error e => "bad-op " ++ e
    | .ok (v, d, x) => W.fRes (pm v d x)
  | "mod.laser" :: args =>
    some <| match Wire.run (do
        let p ← Wire.float; let fs ← Wire.float; let ph ← W.optFList; let rn ← W.optFList; let df ← W.optF
        let t ← Wire.list Wire.float; pure (p, fs, ph, rn, df, t)) args with
    | .error e => "bad-op " ++ e
    | .ok (p, fs, ph, rn, df, t) =>
      match laser p ph rn df fs t with
      | .ok e => Wire.ok (Wire.fCxList e)
      | .error e => Wire.err e
  | "mod.lasersigma" :: args =>
    some <| match Wire.run (do let a ← Wire.float; let b ← Wire.float; let c ← Wire.float; let d ← Wire.float; pure (a, b, c, d)) args with
    | .error e => "bad-op " ++ e
    | .ok (lw, dt, rin, fs) => Wire.ok (Wire.fF (laserPhaseSigma lw dt) ++ " " ++ Wire.fF (laserRinSigma rin fs))
  | _ => none

end OptiVerif.Modulators
