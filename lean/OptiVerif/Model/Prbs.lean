/-
Model of `opticomlib.devices.PRBS` (devices.py:130-180).  Core Lean only.
The tap table, the three loop-body expressions and the seed expressions come from the generated
file `Gen/Prbs.lean` (translated from the source on every run).
-/
import OptiVerif.Gen.Prbs
import OptiVerif.Model.Wire

namespace OptiVerif.Prbs
open OptiVerif

/-- one iteration of the `while` loop on the LFSR state, with `tap1`,`tap2` as in the code -/
def stepTaps (order tap1 tap2 lfsr : Nat) : Nat :=
  Gen.Prbs.next lfsr (Gen.Prbs.newBit lfsr tap1 tap2) order

/-- `taps[order]`, or `none` when `order not in taps.keys()` -/
def lookup (order : Nat) : Option (Nat × Nat) :=
  (Gen.Prbs.taps.find? (fun r => r.1 == order)).map (fun r => r.2)

/-- state transition for a supported order (a, b) = taps[order] -/
def step (order a b lfsr : Nat) : Nat :=
  stepTaps order (a - Gen.Prbs.tapOffset) (b - Gen.Prbs.tapOffset) lfsr

/-- the loop: `len` iterations from state `s`; returns emitted bits and the final state -/
def run (order a b : Nat) : Nat → Nat → List Nat × Nat
  | 0, s => ([], s)
  | k+1, s =>
    let (bits, s') := run order a b k (step order a b s)
    (Gen.Prbs.outBit s :: bits, s')

/-- seed normalisation; the Bool is "a warning was issued" -/
def normSeed (order : Nat) (seed : Option Int) : Nat × Bool :=
  let s : Nat := match seed with
    | some v => (Gen.Prbs.seedMod v order).toNat
    | none => Gen.Prbs.seedDefault order
  if s == 0 then (1, true) else (s, false)

structure Result where
  bits : List Nat
  state : Nat
  warned : Bool

/-- `PRBS(order, len, seed, return_seed=True)` for integer arguments.
    Order of the checks as in the code: seed, len, order. -/
def prbs (order : Nat) (len : Option Int) (seed : Option Int) : Except Wire.Err Result :=
  let (s, w) := normSeed order seed
  match len with
  | some l => if l ≤ 0 then .error .ValueError else body l.toNat s w
  | none => body (2 ^ order - 1) s w
where
  body (l s : Nat) (w : Bool) : Except Wire.Err Result :=
    match lookup order with
    | none => .error .ValueError
    | some (a, b) =>
      let (bits, st) := run order a b l s
      .ok ⟨bits, st, w⟩

-- @handler OptiVerif.Prbs.handle
/-- line protocol: `prbs.gen <order> <len|none> <seed|none>` -/
def handle : List String → Option String
  | "prbs.gen" :: args =>
    some <| match Wire.run (do let o ← Wire.nat; let l ← Wire.optInt; let s ← Wire.optInt; pure (o, l, s)) args with
    | .error e => "bad-op " ++ e
    | .ok (o, l, s) =>
      match prbs o l s with
      | .error e => Wire.err e
      | .ok r => Wire.ok s!"{Wire.fBool r.warned} {r.state} {Wire.fBits r.bits}"
  | _ => none

end OptiVerif.Prbs
