/-
Exact model (over `Rat`) of the global grid `opticomlib.typing.gv` (class `global_variables`, typing.py:119-286):
`__init__`, `__call__` branch by branch (truthiness of `None`/0, `int(np.round(·))` half-to-even, the `fix:` that
recomputes `t`, `dw`, `w` for a slot count already in force), `clean`.  Core Lean only.

π is symbolic: `dw` and the entries of `w` are stored as their rational coefficient of π (`dwPi`, `wPi`), which is exact
because the code only ever multiplies π by rationals (`2*pi*fs/(N*sps)`, `2*pi*fftshift(fftfreq(n))*fs`).
The literal defaults come from the generated file `Gen/Gv.lean`.  `c` is `scipy.constants.c = 299792458` (exact by SI).
Warnings are not modelled (they do not change the state).
-/
import OptiVerif.Gen.Gv
import OptiVerif.Model.QWire

namespace OptiVerif.Gv
open OptiVerif

/-- `scipy.constants.c` -/
def cLight : Rat := 299792458

/-- value of a custom attribute -/
inductive Val
  | num (q : Rat)      -- int / float
  | str (s : String)
  | pynone
  | callable           -- a function object (deleted by `clean()` like any other value)
  deriving Repr, DecidableEq, BEq

structure State where
  sps : Int
  R : Rat
  fs : Rat
  dt : Rat
  wavelength : Rat
  f0 : Rat
  N : Option Int
  t : Option (List Rat)
  /-- `dw / π` -/
  dwPi : Option Rat
  /-- `w[k] / π` -/
  wPi : Option (List Rat)
  /-- custom attributes (most recently set first; names are unique) -/
  custom : List (String × Val)
  deriving Repr, DecidableEq

/-- arguments of one `gv(...)` call; `none` = not passed (for `wavelength`: the parameter default is used) -/
structure Args where
  sps : Option Rat := none
  R : Option Rat := none
  fs : Option Rat := none
  wavelength : Option Rat := none
  N : Option Int := none
  kw : List (String × Val) := []
  deriving Repr

/-- state built by `__init__` -/
def init : State :=
  let fs := Gen.Gv.initR * Gen.Gv.initSps
  { sps := Gen.Gv.initSps, R := Gen.Gv.initR, fs := fs, dt := 1 / fs,
    wavelength := Gen.Gv.initWavelength, f0 := cLight / Gen.Gv.initWavelength,
    N := none, t := none, dwPi := none, wPi := none, custom := [] }

/-- Python truthiness of an optional number: `None` and `0` are falsy -/
def truthy : Option Rat → Option Rat
  | some v => if v = 0 then none else some v
  | none => none

/-- `int(np.round(q))`: round half to even -/
def roundHalfEven (q : Rat) : Int :=
  let f := q.floor
  let r := q - f
  if r < 1 / 2 then f
  else if 1 / 2 < r then f + 1
  else if f % 2 = 0 then f else f + 1

/-- `np.linspace(0, stop, n, endpoint=True)` -/
def linspace (stop : Rat) (n : Nat) : List Rat :=
  if n = 1 then [0] else (List.range n).map (fun (k : Nat) => (k : Rat) * (stop / ((n : Rat) - 1)))

/-- `2*fftshift(fftfreq(n))*fs` (coefficients of π): entry `k` is `2·(k − n//2)/n·fs` -/
def wgrid (n : Nat) (fs : Rat) : List Rat :=
  (List.range n).map (fun (k : Nat) => 2 * ((((k : Int) - ((n / 2 : Nat) : Int) : Int) : Rat) / (n : Rat)) * fs)

/-- names that are parameters of `__call__` or standard attributes: as keywords they would overwrite a grid field
    (or cannot be passed through `**kargs` at all) — outside the model -/
def reserved : List String := ["sps", "R", "fs", "wavelength", "N", "dt", "f0", "t", "dw", "w", "self"]

/-- `setattr(self, key, value)` for a custom name -/
def setKw (custom : List (String × Val)) (kv : String × Val) : List (String × Val) :=
  kv :: custom.filter (fun p => p.1 != kv.1)

/-- the `if sps: … elif R: … elif fs: … else: …` ladder: new `(sps, R, fs)` -/
def rates (s : State) (a : Args) : Except Wire.Err (Int × Rat × Rat) :=
  match truthy a.sps with
  | some sp =>
    let k := roundHalfEven sp
    match truthy a.R with
    | some r => .ok (k, r, r * k)
    | none =>
      match truthy a.fs with
      | some f => if k = 0 then .error .Other else .ok (k, f / k, f)      -- `fs/self.sps`: ZeroDivisionError
      | none => .ok (k, s.R, s.R * k)
  | none =>
    match truthy a.R with
    | some r =>
      match truthy a.fs with
      | some f => .ok (roundHalfEven (f / r), r, f)
      | none => .ok (s.sps, r, r * s.sps)
    | none =>
      match truthy a.fs with
      | some f => if s.R = 0 then .error .Other else .ok (roundHalfEven (f / s.R), s.R, f)
      | none => .ok (s.sps, s.R, s.fs)

/-- `if N is not None: self.N = N; self.t = …; self.dw = …; self.w = …` for the slot count `N` now in force -/
def withGrid (s : State) (N : Option Int) : Except Wire.Err State :=
  match N with
  | none => .ok s
  | some n =>
    let cnt : Int := n * s.sps
    if cnt < 0 then .error .ValueError                            -- np.linspace: negative number of samples
    else if cnt = 0 then .error .Other                            -- `2*pi*self.fs/(N*self.sps)`: ZeroDivisionError
    else .ok { s with N := some n, t := some (linspace (cnt * s.dt) cnt.toNat),
                      dwPi := some (2 * s.fs / cnt), wPi := some (wgrid cnt.toNat s.fs) }

/-- `self.wavelength = wavelength; self.f0 = c/wavelength` -/
def withWavelength (s : State) (wl : Rat) : Except Wire.Err State :=
  if wl = 0 then .error .Other                                    -- ZeroDivisionError
  else .ok { s with wavelength := wl, f0 := cLight / wl }

/-- `gv(sps, R, fs, wavelength, N, **kargs)`.  An exception leaves the real object half-updated; the model stops there. -/
def call (s : State) (a : Args) : Except Wire.Err State := do
  if a.kw.any (fun kv => reserved.contains kv.1) then throw .NotImplemented
  let (sps, R, fs) ← rates s a
  if fs = 0 then throw .Other                                   -- `self.dt = 1/self.fs`: ZeroDivisionError
  let s1 : State := { s with sps := sps, R := R, fs := fs, dt := 1 / fs }
  -- `if N is None: N = self.N`  (a slot count already in force follows the new rates)
  let s2 ← withGrid s1 (match a.N with | some n => some n | none => s.N)
  let s3 ← withWavelength s2 (match a.wavelength with | some w => w | none => Gen.Gv.callWavelength)
  pure { s3 with custom := a.kw.foldl setKw s3.custom }

/-- the ten attributes `__init__` creates (grid fields of `State`; everything else in `vars(gv)` is a custom attribute) -/
def standard : List String := ["sps", "R", "fs", "dt", "wavelength", "f0", "N", "t", "w", "dw"]

/-- does `clean()` leave this custom attribute in place?  `clean()` deletes every name of `vars(self)` that is not in its
    keep list (whatever the value: callables and `__…` names included), so a custom attribute survives only if the keep list
    names something beyond the standard attributes -/
def survives (kv : String × Val) : Bool :=
  Gen.Gv.cleanKeeps.contains kv.1 && !standard.contains kv.1

/-- `gv.clean()` -/
def clean (s : State) : State :=
  let fs := Gen.Gv.cleanR * Gen.Gv.cleanSps
  { sps := Gen.Gv.cleanSps, R := Gen.Gv.cleanR, fs := fs, dt := 1 / fs,
    wavelength := Gen.Gv.cleanWavelength, f0 := cLight / Gen.Gv.cleanWavelength,
    N := none, t := none, dwPi := none, wPi := none, custom := s.custom.filter survives }

inductive Op
  | call (a : Args)
  | clean
  deriving Repr

def step (s : State) : Op → Except Wire.Err State
  | .call a => call s a
  | .clean => .ok (clean s)

/-- a history of configuration calls; stops at the first exception -/
def run (s : State) : List Op → Except Wire.Err State
  | [] => .ok s
  | op :: ops =>
    match step s op with
    | .ok s' => run s' ops
    | .error e => .error e

/-! ### line protocol -/

open Wire in
def valTok : P Val := do
  let t ← tok
  if t == "None" then pure .pynone
  else if t == "callable" then pure .callable
  else if t.startsWith "s:" then pure (.str (t.drop 2).toString)
  else if t.startsWith "n:" then
    match QWire.parseRat (t.drop 2).toString with
    | some q => pure (.num q)
    | none => throw s!"val:{t}"
  else throw s!"val:{t}"

def fVal : Val → String
  | .num q => "n:" ++ QWire.fRat q
  | .str s => "s:" ++ s
  | .pynone => "None"
  | .callable => "callable"

open Wire in
def optIntTok : P (Option Int) := optInt

open Wire in
/-- `call <sps|none> <R|none> <fs|none> <wl|none> <N|none> <nkw> (key val)*`  |  `clean` -/
def opTok : P Op := do
  let t ← tok
  if t == "clean" then pure .clean
  else if t == "call" then
    let sps ← QWire.optRat; let R ← QWire.optRat; let fs ← QWire.optRat; let wl ← QWire.optRat
    let N ← optInt
    let kw ← list (do let k ← tok; let v ← valTok; pure (k, v))
    pure (.call { sps, R, fs, wavelength := wl, N, kw })
  else throw s!"op:{t}"

/-- indices of the samples of `t` / `w` that are reported besides the lengths -/
def probes (n : Nat) : List Nat :=
  ([0, 1, 2, n / 2 - 1, n / 2, n / 2 + 1, n - 2, n - 1].filter (· < n)).eraseDups

def fProbe (xs : Option (List Rat)) : String :=
  match xs with
  | none => "none"
  | some l => s!"{l.length} " ++ String.intercalate " " ((probes l.length).filterMap (fun i => l[i]?.map QWire.fRat))

def fCustom (c : List (String × Val)) : String :=
  let sorted := c.toArray.qsort (fun a b => a.1 < b.1) |>.toList
  s!"{sorted.length}" ++ String.join (sorted.map (fun kv => " " ++ kv.1 ++ " " ++ fVal kv.2))

/-- `sps R fs dt wavelength f0 N dwPi | t… | w… | custom…` -/
def fState (s : State) : String :=
  String.intercalate " " [toString s.sps, QWire.fRat s.R, QWire.fRat s.fs, QWire.fRat s.dt, QWire.fRat s.wavelength,
    QWire.fRat s.f0, (match s.N with | none => "none" | some n => toString n), QWire.fOptRat s.dwPi,
    "|", fProbe s.t, "|", fProbe s.wPi, "|", fCustom s.custom]

/-- states after every op of a history (until the first exception) -/
def trace (s : State) : List Op → List String
  | [] => []
  | op :: ops =>
    match step s op with
    | .ok s' => Wire.ok (fState s') :: trace s' ops
    | .error e => [Wire.err e]

-- @handler OptiVerif.Gv.handle
/-- line protocol
* `gv.hist <n> op…`      → `hist ; ok <state after op 1> ; ok <state after op 2> ; …` where the last entry may be `err E` (then the history stopped there)
* `gv.full <n> op…`      → final state with the complete `t` and `wPi` lists: `ok <nt> t… <nw> w…` | `ok none none` | `err E` -/
def handle : List String → Option String
  | "gv.hist" :: args =>
    some <| match Wire.run (Wire.list opTok) args with
    | .error e => "bad-op " ++ e
    | .ok ops => String.intercalate " ; " ("hist" :: trace init ops)
  | "gv.full" :: args =>
    some <| match Wire.run (Wire.list opTok) args with
    | .error e => "bad-op " ++ e
    | .ok ops =>
      match run init ops with
      | .error e => Wire.err e
      | .ok s =>
        let f := fun (xs : Option (List Rat)) => match xs with | none => "none" | some l => QWire.fRatList l
        Wire.ok (f s.t ++ " " ++ f s.wPi)
  | _ => none

end OptiVerif.Gv
