/-
Model of the PPM codec of `opticomlib.ppm` (ppm.py:28-256) and of `utils.dec2bin` (utils.py:52-88).  C12.
Core Lean only.
The power-of-two test of HDD/SDD and the three expressions of the `dec2bin` loop come from the generated file
`Gen/Ppm.lean` (translated from the source on every run).

* `PPM_ENCODER(input, M)`  → `encode`        (ppm.py:57-79)
* `PPM_DECODER(input, M)`  → `decode`        (ppm.py:106-125), `dec2bin` (utils.py:82-88)
* `HDD(input, M)`          → `hdd`           (ppm.py:161-194); the two `np.random` calls are oracle inputs
* `SDD(input, M)`          → `sdd`           (ppm.py:230-256), generic in the sample type
Container normalisation (`input.data` / `str2array(input, bool)` / `np.array(input, dtype=bool)`) is `Input.toBits`.
-/
import OptiVerif.Model.BinSeqStr
import OptiVerif.Gen.Ppm

namespace OptiVerif.Ppm
open OptiVerif

/-! ### small list utilities mirroring numpy idioms -/

/-- `x.reshape(n, m)` of a flat list: `n` consecutive rows of length `m` -/
def chunks {α} (m : Nat) : Nat → List α → List (List α)
  | 0, _ => []
  | n+1, l => l.take m :: chunks m n (l.drop m)

/-- `np.where(row == 1)[0]`: ascending positions of the ON entries, first position being `i` -/
def onIdxFrom : Nat → List Bool → List Nat
  | _, [] => []
  | i, b :: bs => if b then i :: onIdxFrom (i+1) bs else onIdxFrom (i+1) bs

def onIdx (s : List Bool) : List Nat := onIdxFrom 0 s

/-- number of ON entries (`np.sum(row)`) -/
def ones (s : List Bool) : Nat := s.count true

/-- `z = np.zeros(M, bool); z[d] = 1` -/
def oneHot (M d : Nat) : List Bool := (List.replicate M false).set d true

/-! ### `k = int(np.log2(M))` and the power-of-two test `not M & (M-1) == 0` -/

/-- `int(np.log2(M))` for an integer `M`: `M < 0` gives NaN → ValueError, `M = 0` gives -inf → OverflowError -/
def log2M (M : Int) : Except Wire.Err Nat :=
  if M < 0 then .error .ValueError else if M = 0 then .error .Other else .ok (Nat.log2 M.toNat)

/-- the order test of HDD, `not (M < K or not E == 0)` with `K` and `E` translated from the source (`1`, `M & (M-1)`, see
    `Gen/Ppm.lean`), on Python ints: orders below `K` are refused before `E` is looked at. -/
def pow2Test (M : Int) : Bool :=
  if M < Gen.Ppm.pow2MinHDD then false else Gen.Ppm.pow2ExprHDD M.toNat == 0

/-- the order test of SDD (its own copy of the statement in the source) -/
def pow2TestS (M : Int) : Bool :=
  if M < Gen.Ppm.pow2MinSDD then false else Gen.Ppm.pow2ExprSDD M.toNat == 0

/-! ### encoder -/

/-- `np.sum(row * 2**np.arange(k)[::-1])` -/
def weights (k : Nat) : List Nat := ((List.range k).map (fun i => 2 ^ i)).reverse

def rowValue (k : Nat) (row : List Bool) : Nat :=
  ((row.zip (weights k)).map (fun p => p.1.toNat * p.2)).sum

/-- encoder on a bit list, `M ≥ 1`, `k = int(log2 M)`.  `k = 0` is the `len(input)//k` ZeroDivisionError. -/
def encodeBits (M k : Nat) (bits : List Bool) : Except Wire.Err (List Bool) :=
  if k = 0 then .error .Other
  else
    let n := bits.length / k
    let rows := chunks k n (bits.take (n * k))
    .ok (rows.map (fun r => oneHot M (rowValue k r))).flatten

/-! ### decoder and `dec2bin` -/

/-- the `while num > 0 and i >= 0` loop of `dec2bin`; the recursion variable is `i + 1` -/
def dec2binLoop : Nat → List Nat → Nat → List Nat
  | 0, b, _ => b
  | i+1, b, num => if num > 0 then dec2binLoop i (b.set i (Gen.Ppm.d2bBit num)) (Gen.Ppm.d2bNext num) else b

def dec2bin (num digits : Nat) : Except Wire.Err (List Nat) :=
  if num > Gen.Ppm.d2bLimit digits then .error .ValueError
  else .ok (dec2binLoop digits (List.replicate digits 0) num)

/-- decoder on a slot list: every ON position, reduced mod `M`, is written with `k` bits.
    (`M = 0` cannot reach this point: `log2M` fails first.) -/
def decodeBits (M k : Nat) (slots : List Bool) : Except Wire.Err (List Nat) := do
  let words ← (onIdx slots).mapM (fun p => dec2bin (p % M) k)
  pure words.flatten

/-! ### hard decision -/

/-- one symbol.  `zi`/`mi` count the calls of `np.random.randint` / `np.random.choice` made so far;
    `randint c M` and `choice c j` are the values returned by call number `c` (oracle inputs). -/
def hddSyms (M : Nat) (randint : Nat → Nat → Nat) (choice : Nat → List Nat → Nat) :
    List (List Bool) → Nat → Nat → List (List Bool)
  | [], _, _ => []
  | s :: rest, zi, mi =>
    if ones s = 0 then
      s.set (randint zi M) true :: hddSyms M randint choice rest (zi+1) mi
    else if ones s > 1 then
      oneHot M (choice mi (onIdx s)) :: hddSyms M randint choice rest zi (mi+1)
    else s :: hddSyms M randint choice rest zi mi

/-- `HDD` after container normalisation.
    The code runs one loop over the empty symbols and then one over the crowded ones; the loops touch disjoint
    symbols (a draw of `randint(M)` is `< M`), so one pass with two call counters is the same computation. -/
def hddBits (M : Int) (randint : Nat → Nat → Nat) (choice : Nat → List Nat → Nat) (slots : List Bool) :
    Except Wire.Err (List Bool) :=
  if !pow2Test M then .error .ValueError      -- includes every `M < 1`
  else if slots.length % M.toNat ≠ 0 then .error .ValueError
  else .ok (hddSyms M.toNat randint choice (chunks M.toNat (slots.length / M.toNat) slots) 0 0).flatten

/-! ### soft decision (generic sample type: executed at `Int`, reasoned about over any linear order) -/

section
variable {R : Type} [Add R] [OfNat R 0] [LT R] [DecidableLT R]

def sumL (l : List R) : R := l.foldr (· + ·) 0

/-- `np.argmax`: position of the first maximum -/
def argmaxAux : List R → R → Nat → Nat → Nat
  | [], _, bi, _ => bi
  | x :: xs, best, bi, i => if best < x then argmaxAux xs x i (i+1) else argmaxAux xs best bi (i+1)

def argmax : List R → Nat
  | [] => 0
  | x :: xs => argmaxAux xs x 0 1

/-- slot energies: `np.sum(input.reshape(-1, sps), axis=-1)` -/
def slotSums (sps : Nat) (x : List R) : List R :=
  (chunks sps (x.length / sps) x).map sumL

/-- `SDD` on the sample list `signal (+ noise)`, `sps = gv.sps ≥ 1` -/
def sdd (M : Int) (sps : Nat) (x : List R) : Except Wire.Err (List Bool) :=
  if !pow2TestS M then .error .ValueError
  else if M.toNat * sps = 0 then .error .Other      -- `input.size % (M*gv.sps)` with `gv.sps = 0`: ZeroDivisionError
  else if x.length % (M.toNat * sps) ≠ 0 then .error .ValueError
  else
    let e := slotSums sps x
    .ok ((chunks M.toNat (e.length / M.toNat) e).map (fun sym => oneHot M.toNat (argmax sym))).flatten
end

/-! ### container normalisation -/

inductive Input
  | seq (truth : List Bool)          -- list / tuple / ndarray (`dtype=bool`) / `binary_sequence.data`
  | str (s : List Nat)               -- `str2array(input, bool)`
  | other                            -- anything else: TypeError

inductive Norm
  | bits (b : List Bool)
  | err (e : Wire.Err)
  | unmodelled                       -- 2-D strings and complex-class strings

def Input.toBits : Input → Norm
  | .seq t => .bits t
  | .other => .err .TypeError
  | .str s =>
    match BinSeqStr.str2array s with
    | .ok (.vec cells) => .bits (cells.map (·.truth))
    | .ok (.mat ..) => .unmodelled
    | .err e => .err e
    | .unmodelled => .unmodelled

/-- `PPM_ENCODER(input, M)` -/
def encode (inp : Input) (M : Int) : Option (Except Wire.Err (List Bool)) :=
  match inp.toBits with
  | .unmodelled => none
  | .err e => some (.error e)
  | .bits b => some (do let k ← log2M M; encodeBits M.toNat k b)

/-- `PPM_DECODER(input, M)` -/
def decode (inp : Input) (M : Int) : Option (Except Wire.Err (List Nat)) :=
  match inp.toBits with
  | .unmodelled => none
  | .err e => some (.error e)
  | .bits b => some (do let k ← log2M M; decodeBits M.toNat k b)

/-- `HDD(input, M)` -/
def hdd (inp : Input) (M : Int) (randint : Nat → Nat → Nat) (choice : Nat → List Nat → Nat) :
    Option (Except Wire.Err (List Bool)) :=
  match inp.toBits with
  | .unmodelled => none
  | .err e => some (.error e)
  | .bits b => some (hddBits M randint choice b)

/-! ### line protocol -/

def fBools (bs : List Bool) : String := String.join (bs.map (fun b => if b then "1" else "0"))

def wireInput : Wire.P Input := do
  let t ← Wire.tok
  if t == "seq" then
    let xs ← Wire.list Wire.bool
    pure (.seq xs)
  else if t == "str" then
    let s ← BinSeqStr.wireStr
    pure (.str s)
  else if t == "other" then pure .other
  else throw s!"input:{t}"

def render {α} (f : α → String) : Option (Except Wire.Err α) → String
  | none => "unmodelled"
  | some (.error e) => Wire.err e
  | some (.ok v) => Wire.ok (f v)

-- @handler OptiVerif.Ppm.handle
/-- requests:
    `ppm.enc <M> <input>` · `ppm.dec <M> <input>` · `ppm.hdd <M> <n (r 1 M)…> <n (c |j| j…)…> <input>` (spied draws and their arguments, in call order) ·
    `ppm.sdd <M> <sps> <n x…>` (integer samples) · `ppm.dec2bin <num> <digits>` -/
def handle : List String → Option String
  | "ppm.enc" :: args =>
    some <| match Wire.run (do let m ← Wire.int; let i ← wireInput; pure (m, i)) args with
    | .error e => "bad-op " ++ e
    | .ok (m, i) => render fBools (encode i m)
  | "ppm.dec" :: args =>
    some <| match Wire.run (do let m ← Wire.int; let i ← wireInput; pure (m, i)) args with
    | .error e => "bad-op " ++ e
    | .ok (m, i) => render Wire.fBits (decode i m)
  | "ppm.hdd" :: args =>
    -- every spied draw comes with the argument the code passed (`M` for randint, the array `j` for choice); a draw is
    -- handed to the model only for the same argument, otherwise an out-of-range slot shows up as a disagreement
    let draw := (do let v ← Wire.nat; let a ← Wire.list Wire.nat; pure (v, a) : Wire.P (Nat × List Nat))
    some <| match Wire.run (do let m ← Wire.int; let rs ← Wire.list draw; let cs ← Wire.list draw
                               let i ← wireInput; pure (m, rs, cs, i)) args with
    | .error e => "bad-op " ++ e
    | .ok (m, rs, cs, i) =>
      let bad := m.toNat + 1
      render fBools (hdd i m
        (fun c M => match rs[c]? with | some (v, a) => if a == [M] then v else bad | none => bad)
        (fun c j => match cs[c]? with | some (v, a) => if a == j then v else bad | none => bad))
  | "ppm.sdd" :: args =>
    some <| match Wire.run (do let m ← Wire.int; let s ← Wire.nat; let xs ← Wire.list Wire.int; pure (m, s, xs)) args with
    | .error e => "bad-op " ++ e
    | .ok (m, s, xs) => render fBools (some (sdd m s xs))
  | "ppm.dec2bin" :: args =>
    some <| match Wire.run (do let n ← Wire.nat; let d ← Wire.nat; pure (n, d)) args with
    | .error e => "bad-op " ++ e
    | .ok (n, d) => render Wire.fBits (some (dec2bin n d))
  | _ => none

end OptiVerif.Ppm
