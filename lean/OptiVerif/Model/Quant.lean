/-
Model of `opticomlib.utils.shortest_int` (utils.py:1345-1369) and of the quantiser of `opticomlib.devices.ADC`
(devices.py:1538-1567, `fs=None`).  Core Lean only, exact `Rat` (Python floats are dyadic rationals and are
shipped exactly).  The literals `100`, `1e-10`, `//2`, `99.99` come from `Gen/Quant.lean`.

    data = np.sort(data)
    lag = int(len(data) * percent/100)
    diff = data[lag:] - data[:len(data)-lag]
    dmin = np.min(diff)
    i = np.where(np.abs(diff - dmin) <= 1e-10 * np.abs(dmin))[0]
    i = i[len(i)//2]
    return np.array((data[i], data[i + lag]))

    V_min, V_max = shortest_int(signal, 99.99)
    dig_signal = np.clip(np.round((signal - V_min) / (V_max - V_min) * (2**n - 1)), 0, 2**n - 1).astype(int)
    if otype == 'v': dig_signal = dig_signal / (2**n - 1) * (V_max - V_min) + V_min
    elif otype != 'n': raise ValueError
-/
import OptiVerif.Gen.Quant
import OptiVerif.Model.RatIO

namespace OptiVerif.Quant
open OptiVerif

/-! ### shortest_int -/

/-- `np.sort` -/
def sort (l : List Rat) : List Rat := l.mergeSort (fun a b => decide (a ≤ b))

/-- `int(len(data) * percent/div)` for `percent ≥ 0` (truncation = floor) -/
def lagOf (div : Rat) (n : Nat) (p : Rat) : Nat := ((n : Rat) * p / div).floor.toNat

/-- `data[lag:] - data[:len(data)-lag]` -/
def diffLag (s : List Rat) (lag : Nat) : List Rat :=
  List.zipWith (fun a b => a - b) (s.drop lag) (s.take (s.length - lag))

/-- `np.min` of a non-empty array `d0 :: ds` -/
def minList (d0 : Rat) (ds : List Rat) : Rat := ds.foldl (fun m x => if x < m then x else m) d0

def absR (q : Rat) : Rat := if q < 0 then -q else q

/-- `np.where(np.abs(diff - m) <= tol * np.abs(m))[0]`: ties up to a RELATIVE tolerance (exact ties when `m = 0`) -/
def tiedIdx (tol m : Rat) (diff : List Rat) : List Nat :=
  (diff.zipIdx.filter (fun di => decide (absR (di.1 - m) ≤ tol * absR m))).map (fun di => di.2)

/-- everything after sorting and the computation of `lag` -/
def pick (tol : Rat) (cdiv : Nat) (s : List Rat) (lag : Nat) : Except Wire.Err (Rat × Rat) :=
  match diffLag s lag with
  | [] => .error .ValueError                  -- np.min of an empty array
  | d0 :: ds =>
    let idx := tiedIdx tol (minList d0 ds) (d0 :: ds)
    match idx[idx.length / cdiv]? with
    | none => .error .Other                   -- IndexError (cannot happen for tol ≥ 0, cdiv ≥ 2)
    | some i =>
      match s[i]?, s[i + lag]? with
      | some a, some b => .ok (a, b)
      | _, _ => .error .Other                 -- unreachable (theorem `pick_ok`)

/-- `shortest_int(data, percent)` with the literals as parameters.
    `percent < 0` gives negative slice bounds in the code: outside the modelled domain (`Other`).
    `lag ≥ len(data)` makes the two slices empty or of different lengths: ValueError in numpy. -/
def shortestIntP (div tol : Rat) (cdiv : Nat) (p : Rat) (data : List Rat) : Except Wire.Err (Rat × Rat) :=
  if p < 0 then .error .Other
  else
    let s := sort data
    let lag := lagOf div s.length p
    if lag ≥ s.length then .error .ValueError
    else pick tol cdiv s lag

/-- `shortest_int(data, percent)` -/
def shortestInt (p : Rat) (data : List Rat) : Except Wire.Err (Rat × Rat) :=
  shortestIntP Gen.Quant.percentDivisor Gen.Quant.tieTol Gen.Quant.centralDivisor p data

/-! ### ADC -/

/-- `np.round` on one value: round half to even -/
def roundHalfEven (q : Rat) : Int :=
  let f := q.floor
  let d := q - (f : Rat)
  if d < 1 / 2 then f else if 1 / 2 < d then f + 1 else if f % 2 = 0 then f else f + 1

/-- `np.clip(x, lo, hi)` = `minimum(maximum(x, lo), hi)` -/
def clip (lo hi x : Int) : Int := if x < lo then (if hi < lo then hi else lo) else if hi < x then hi else x

/-- full scale of an `n`-bit converter: `2**n - 1` -/
def top (n : Nat) : Int := 2 ^ n - 1

/-- one sample → its code -/
def code (vmin vmax : Rat) (n : Nat) (s : Rat) : Int :=
  clip 0 (top n) (roundHalfEven ((s - vmin) / (vmax - vmin) * ((top n : Int) : Rat)))

/-- code → volts: `c / (2**n - 1) * (V_max - V_min) + V_min` -/
def level (vmin vmax : Rat) (n : Nat) (c : Int) : Rat := (c : Rat) / ((top n : Int) : Rat) * (vmax - vmin) + vmin

inductive OType | v | n | other
deriving DecidableEq, Repr

structure AdcOut where
  vmin : Rat
  vmax : Rat
  codes : List Int
  /-- the returned samples: the codes for `'n'`, the levels for `'v'` -/
  out : List Rat

/-- the quantiser for a given full-scale range.  `V_max = V_min` (0/0) and `'v'` with `n = 0` (c/0) give
    nan in numpy: excluded points, `Other` (DESIGN.md §4). -/
def quantise (vmin vmax : Rat) (n : Nat) (otype : OType) (signal : List Rat) : Except Wire.Err AdcOut :=
  if otype = .other then .error .ValueError
  else if vmax = vmin then .error .Other
  else
    let codes := signal.map (code vmin vmax n)
    match otype with
    | .n => .ok ⟨vmin, vmax, codes, codes.map (fun (c : Int) => (c : Rat))⟩
    | _ => if n = 0 then .error .Other else .ok ⟨vmin, vmax, codes, codes.map (level vmin vmax n)⟩

/-- `ADC(signal, fs=None, n, otype).signal` with the range estimator as a parameter -/
def adcWith (range : List Rat → Except Wire.Err (Rat × Rat)) (signal : List Rat) (n : Nat) (otype : OType) :
    Except Wire.Err AdcOut := do
  let r ← range signal
  quantise r.1 r.2 n otype signal

/-- `ADC(signal, fs=None, n, otype)` -/
def adc (signal : List Rat) (n : Nat) (otype : OType) : Except Wire.Err AdcOut :=
  adcWith (shortestInt Gen.Quant.adcPercent) signal n otype

-- @handler OptiVerif.Quant.handle
/-- line protocol (rationals `p/q`):
    `quant.shortest <percent> <n> <x>…` → `ok <lo> <hi>`;
    `quant.adc <nbits> <v|n|other> <n> <x>…` → `ok <vmin> <vmax> <n> <out>…` -/
def handle : List String → Option String
  | "quant.shortest" :: args =>
    some <| match Wire.run (do let p ← RatIO.rat; let d ← Wire.list RatIO.rat; pure (p, d)) args with
    | .error e => "bad-op " ++ e
    | .ok (p, d) =>
      match shortestInt p d with
      | .error e => Wire.err e
      | .ok (a, b) => Wire.ok (RatIO.fRat a ++ " " ++ RatIO.fRat b)
  | "quant.adc" :: args =>
    some <| match Wire.run (do let n ← Wire.nat; let o ← Wire.tok; let d ← Wire.list RatIO.rat; pure (n, o, d)) args with
    | .error e => "bad-op " ++ e
    | .ok (n, o, d) =>
      let ot : OType := if o == "v" then .v else if o == "n" then .n else .other
      match adc d n ot with
      | .error e => Wire.err e
      | .ok r => Wire.ok (RatIO.fRat r.vmin ++ " " ++ RatIO.fRat r.vmax ++ " " ++ Wire.fList RatIO.fRat r.out)
  | _ => none

end OptiVerif.Quant
