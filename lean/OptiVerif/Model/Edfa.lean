/-
C10 — EDFA (`/repo/opticomlib/devices.py` EDFA, the `*` operator of `typing.py`).
Generic numeric model (executed at `Float`, proved about at `ℝ` in `Props/C10.lean`).  Core Lean only.

* the `np.random.randn(4, N)` draw is an input of the model (four rows `d0 … d3`, DESIGN.md §2.2);
* `h` (scipy.constants), `gv.f0`, `gv.fs` are passed in as numbers;
* `BW=None` (the optional `BPF` is a separate block: property C11; here only the oracle checks the composition).
-/
import OptiVerif.Model.Modulators

set_option linter.unusedSectionVars false
set_option linter.unusedVariables false

namespace OptiVerif.Edfa
open OptiVerif OptiVerif.Modulators
open OptiVerif.Gen.OptDev (lit pow10 idb idbm mzmLoss mzmEta mzmG laserPhaseSigma laserRinSigma)

/-- what is handed to `EDFA` as `input` -/
inductive Input (α : Type) where
  | optical (x : Field α)
  /-- anything that is not an `optical_signal` (ndarray, electrical_signal, list, scalar, None) -/
  | other

/-- the value returned by `EDFA`: always shape (2,N) signal and noise -/
structure Out (α : Type) where
  x : List α
  y : List α
  nx : List α
  ny : List α
deriving Repr, BEq

section
variable {R : Type} [Add R] [Sub R] [Mul R] [Div R] [Neg R] [NatCast R] [Transc R]

/- formulas translated from the source (Gen/OptDev.lean, regenerated on every run) -/
/-- amplitude gain applied to `.signal`: `np.sqrt(idb(G))` -/
def gainAmp (GdB : R) : R := Gen.OptDev.edfaGainSignal GdB
/-- amplitude gain applied to the incoming `.noise` (its own expression in the source) -/
def gainNoise (GdB : R) : R := Gen.OptDev.edfaGainNoise GdB

/-- `P_ase = idb(NF) * h * gv.f0 * (idb(G) - 1) * gv.fs` -/
def pAse (NFdB GdB h f0 fs : R) : R := Gen.OptDev.edfaPase NFdB GdB h f0 fs

/-- `np.sqrt(P_ase/4)`: the factor applied to each of the four unit-variance real draws -/
def aseScale (p : R) : R := Gen.OptDev.edfaAseScale p

/-- one polarisation of `ase[:2] + 1j*ase[2:]`: real parts from `a`, imaginary parts from `b` -/
def aseRow (s : R) (a b : List R) : List (Cx R) := List.zipWith (fun u v => (⟨s * u, s * v⟩ : Cx R)) a b

/-- `row * np.sqrt(idb(G))` -/
def scaleRow (g : R) (row : List (Cx R)) : List (Cx R) := row.map (Cx.smul g)

def zerosLike (row : List (Cx R)) : List (Cx R) := row.map fun _ => czero

def addRow (a b : List (Cx R)) : List (Cx R) := List.zipWith (· + ·) a b

/-- `optical_signal(signal, noise, n_pol=2) * sqrt(G)`, then (for a one-polarisation input) the y row is zeroed:
    the pair (x row, y row) of the amplified copy of `r` -/
def ampRows (g : R) : Rows (Cx R) → List (Cx R) × List (Cx R)
  | .one a => (scaleRow g a, zerosLike (scaleRow g a))
  | .two a b => (scaleRow g a, scaleRow g b)

/-- `EDFA(input, G, NF)` (BW=None).  `d0 … d3` = the four rows of the `randn(4, N)` draw. -/
def edfa (GdB NFdB h f0 fs : R) (d0 d1 d2 d3 : List R) : Input (Cx R) → Except Wire.Err (Out (Cx R))
  | .other => .error .TypeError
  | .optical x =>
    let n := x.sig.len
    -- the recorded draw has shape (4, input.len()); anything else cannot come from the code
    if d0.length ≠ n ∨ d1.length ≠ n ∨ d2.length ≠ n ∨ d3.length ≠ n then .error .Other else
    let g := gainAmp GdB
    let s := aseScale (pAse NFdB GdB h f0 fs)
    let (sx, sy) := ampRows g x.sig
    let ax := aseRow s d0 d2
    let ay := aseRow s d1 d3
    match x.noise with
    | none => .ok ⟨sx, sy, ax, ay⟩
    | some nz =>
      let (nx, ny) := ampRows (gainNoise GdB) nz
      .ok ⟨sx, sy, addRow nx ax, addRow ny ay⟩

/-- `EDFA(input, G, NF, BW)`: `output = BPF(output, BW)` on the amplified signal and on the whole noise part
    (sections / `zi` / pad length spied from scipy as in the C11 model) -/
def edfaBW (GdB NFdB h f0 fs : R) (d0 d1 d2 d3 : List R) (secs : List (Filter.Sec R)) (edge : Nat)
    (inp : Input (Cx R)) : Except Wire.Err (Filter.Sig (Cx R)) :=
  match edfa GdB NFdB h f0 fs d0 d1 d2 d3 inp with
  | .error e => .error e
  | .ok o => Filter.bpf secs edge ⟨[o.x, o.y], some [o.nx, o.ny]⟩

end

/-
line protocol:
  `edfa.run <opt:1|0> <G> <NF> <h> <f0> <fs> <d0> <d1> <d2> <d3> [<field>]`  ->  `ok x y nx ny` (complex lists) | `err E`
  `edfa.runbw <G> <NF> <h> <f0> <fs> <d0> <d1> <d2> <d3> <edge> <secs> <field>` -> `ok` + `Filter.fSig` layout | `err E`
  `edfa.pase <NF> <G> <h> <f0> <fs>` -> `ok <P_ase> <scale>`
-/
-- @handler OptiVerif.Edfa.handle
def handle : List String → Option String
  | "edfa.run" :: args =>
    some <| match Wire.run (do
        let isOpt ← Wire.bool
        let g ← Wire.float; let nf ← Wire.float; let h ← Wire.float; let f0 ← Wire.float; let fs ← Wire.float
        let d0 ← Wire.list Wire.float; let d1 ← Wire.list Wire.float
        let d2 ← Wire.list Wire.float; let d3 ← Wire.list Wire.float
        let inp ← if isOpt then (do let x ← W.field; pure (Input.optical x)) else pure Input.other
        pure (g, nf, h, f0, fs, d0, d1, d2, d3, inp)) args with
    | .error e => "bad-op " ++ e
    | .ok (g, nf, h, f0, fs, d0, d1, d2, d3, inp) =>
      match edfa g nf h f0 fs d0 d1 d2 d3 inp with
      | .error e => Wire.err e
      | .ok o => Wire.ok (String.intercalate " " [Wire.fCxList o.x, Wire.fCxList o.y, Wire.fCxList o.nx, Wire.fCxList o.ny])
  | "edfa.runbw" :: args =>
    some <| match Wire.run (do
        let g ← Wire.float; let nf ← Wire.float; let h ← Wire.float; let f0 ← Wire.float; let fs ← Wire.float
        let d0 ← Wire.list Wire.float; let d1 ← Wire.list Wire.float
        let d2 ← Wire.list Wire.float; let d3 ← Wire.list Wire.float
        let edge ← Wire.nat; let secs ← Wire.list Filter.pSec; let x ← W.field
        pure (g, nf, h, f0, fs, d0, d1, d2, d3, edge, secs, x)) args with
    | .error e => "bad-op " ++ e
    | .ok (g, nf, h, f0, fs, d0, d1, d2, d3, edge, secs, x) =>
      match edfaBW g nf h f0 fs d0 d1 d2 d3 secs edge (.optical x) with
      | .error e => Wire.err e
      | .ok o => Wire.ok (Filter.fSig Wire.fCxList o)
  | "edfa.pase" :: args =>
    some <| match Wire.run (do
        let nf ← Wire.float; let g ← Wire.float; let h ← Wire.float; let f0 ← Wire.float; let fs ← Wire.float
        pure (nf, g, h, f0, fs)) args with
    | .error e => "bad-op " ++ e
    | .ok (nf, g, h, f0, fs) =>
      let p := pAse nf g h f0 fs
      Wire.ok (Wire.fF p ++ " " ++ Wire.fF (aseScale p))
  | _ => none

end OptiVerif.Edfa
