/-
Model of the time/frequency transforms of the signal containers (typing.py: electrical_signal.__call__,
w(), power()).  numpy's fft/ifft are modelled as the DFT *by definition* (DESIGN.md §2.2); fftshift/ifftshift as
list rotations.  Generic numerics (executed at Float, proved about at ℝ).  Core Lean only.
-/
import OptiVerif.Model.Num

set_option linter.unusedSectionVars false

namespace OptiVerif.Fourier
open OptiVerif

section
variable {R : Type} [Add R] [Sub R] [Mul R] [Div R] [Neg R] [NatCast R] [Transc R]

def czero : Cx R := ⟨((0 : Nat) : R), ((0 : Nat) : R)⟩

/-- Σ_{j<n} f j -/
def sumN : Nat → (Nat → Cx R) → Cx R
  | 0, _ => czero
  | n+1, f => sumN n f + f n

/-- angle 2π·m/n -/
def ang (n m : Nat) : R := (((2 : Nat) : R) * Transc.pi * ((m : Nat) : R)) / ((n : Nat) : R)

/-- forward DFT, the definition numpy's `fft` is trusted to compute: X_k = Σ_j x_j e^{-2πi jk/n} -/
def dftAt (x : Nat → Cx R) (n k : Nat) : Cx R :=
  sumN n (fun j => x j * Cx.cis (-(ang n (j * k))))

/-- inverse DFT (numpy `ifft`): x_m = (1/n) Σ_k X_k e^{+2πi km/n} -/
def idftAt (X : Nat → Cx R) (n m : Nat) : Cx R :=
  Cx.smul (((1 : Nat) : R) / ((n : Nat) : R)) (sumN n (fun k => X k * Cx.cis (ang n (k * m))))

def nth (xs : List (Cx R)) (j : Nat) : Cx R := xs.getD j czero

def dft (xs : List (Cx R)) : List (Cx R) :=
  (List.range xs.length).map (dftAt (nth xs) xs.length)

def idft (xs : List (Cx R)) : List (Cx R) :=
  (List.range xs.length).map (idftAt (nth xs) xs.length)

/-- mean of |z|² over a row (`power`) -/
def sumSq : List (Cx R) → R
  | [] => ((0 : Nat) : R)
  | z :: zs => z.normSq + sumSq zs
def power (xs : List (Cx R)) : R := sumSq xs / ((xs.length : Nat) : R)
end

/-- left rotation: element i of the result is element (i+k) mod n of the input -/
def rot {α} (k : Nat) (xs : List α) : List α := xs.drop (k % xs.length) ++ xs.take (k % xs.length)
/-- `np.fft.fftshift` on a 1-D row = `np.roll(x, n//2)` -/
def fftshift {α} (xs : List α) : List α := rot (xs.length - xs.length / 2) xs
/-- `np.fft.ifftshift` = `np.roll(x, -(n//2))` -/
def ifftshift {α} (xs : List α) : List α := rot (xs.length / 2) xs

/-- signed frequency index of `np.fft.fftfreq(n)` at position i (times n) -/
def sidx (n i : Nat) : Int := if i ≤ (n - 1) / 2 then (i : Int) else (i : Int) - (n : Int)

def sidxList (n : Nat) : List Int := (List.range n).map (sidx n)

section
variable {R : Type} [Add R] [Sub R] [Mul R] [Div R] [Neg R] [NatCast R] [IntCast R] [Transc R]
/-- `2*pi*fftfreq(n)*fs` -/
def wAxis (n : Nat) (fs : R) : List R :=
  (sidxList n).map (fun s => ((2 : Nat) : R) * Transc.pi * (((s : Int) : R) / ((n : Nat) : R)) * fs)
end

/-- the transform applied by `x(domain, shift)` to ONE row -/
inductive Dom | w | t
  deriving DecidableEq, Repr

section
variable {R : Type} [Add R] [Sub R] [Mul R] [Div R] [Neg R] [NatCast R] [Transc R]
def callRow (d : Dom) (shift : Bool) (xs : List (Cx R)) : List (Cx R) :=
  match d with
  | .w => let y := dft xs; if shift then fftshift y else y
  | .t => let y := idft xs; if shift then ifftshift y else y

/-- a container's numeric payload: rows of signal and (optionally) rows of noise -/
structure Payload (R : Type) where
  sig : List (List (Cx R))
  noise : Option (List (List (Cx R)))

/-- `x(domain, shift)`: every row of signal and noise alike -/
def call (d : Dom) (shift : Bool) (p : Payload R) : Payload R :=
  ⟨p.sig.map (callRow d shift), p.noise.map (List.map (callRow d shift))⟩

/-- total field rows -/
def total (p : Payload R) : List (List (Cx R)) :=
  match p.noise with
  | none => p.sig
  | some nz => List.zipWith (List.zipWith (· + ·)) p.sig nz
end

/-! ### line protocol -/
open Wire

def parsePayload : P (Payload Float) := do
  let sig ← Wire.list (Wire.list Wire.cx)
  let hasNoise ← Wire.bool
  if hasNoise then
    let nz ← Wire.list (Wire.list Wire.cx)
    pure ⟨sig, some nz⟩
  else pure ⟨sig, none⟩

def fRows (rows : List (List (Cx Float))) : String := Wire.fList Wire.fCxList rows

def fPayload (p : Payload Float) : String :=
  fRows p.sig ++ " " ++ (match p.noise with | none => "0" | some nz => "1 " ++ fRows nz)

-- @handler OptiVerif.Fourier.handle
/-- `fourier.call <w|t> <shift 0/1> <payload>` · `fourier.waxis <n> <fs> <shift>` · `fourier.power <payload>` -/
def handle : List String → Option String
  | "fourier.call" :: d :: args =>
    some <| match Wire.run (do let s ← Wire.bool; let p ← parsePayload; pure (s, p)) args with
    | .error e => "bad-op " ++ e
    | .ok (s, p) =>
      if d == "w" then Wire.ok (fPayload (call .w s p))
      else if d == "t" then Wire.ok (fPayload (call .t s p))
      else Wire.err .ValueError
  | "fourier.waxis" :: args =>
    some <| match Wire.run (do let n ← Wire.nat; let fs ← Wire.float; let s ← Wire.bool; pure (n, fs, s)) args with
    | .error e => "bad-op " ++ e
    | .ok (n, fs, s) =>
      let w := wAxis n fs
      Wire.ok (Wire.fFList (if s then fftshift w else w))
  | "fourier.power" :: args =>
    some <| match Wire.run parsePayload args with
    | .error e => "bad-op " ++ e
    | .ok p => Wire.ok (Wire.fFList ((total p).map power))
  | _ => none

end OptiVerif.Fourier
