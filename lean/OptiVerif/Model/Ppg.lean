/-
Model of the command emission of `opticomlib.lab.PPG3204` (lab.py:229-975) as it is NOW in /repo (including
the `fix:` commits for set_output_voltage, set_offset, get_data).  Core Lean only.

* every limit, the limit *names used at every clamp site* and the `_check_channels` literals come from the
  generated `Gen/PpgLimits.lean` (re-translated from the source on every run);
* values are exact rationals.  A Python float `x` travels as the decimal number `repr(x)` denotes (the same
  convention as the translator uses for the float literals of the class), which is an order embedding of the
  doubles, so every `<`, `>` and `clip` of the code is decided identically;
* the printf conversions `{v:.1f}` / `{v:.5e}` are NOT modelled: a command carries the value before formatting
  (the harness formats the model's value with the same conversion and compares the text; `Props/C20` proves
  that a nearest-grid rounding of a value inside the limits stays inside the limits);
* the instrument is a memory `Mem` written by `:DIGn:PATT:DATA` and read by `:DIGn:PATT:DATA?`, answering in
  IEEE-488.2 definite-length block format `#<k><n><bits>\n`.
-/
import OptiVerif.Gen.PpgLimits
import OptiVerif.Model.Wire

namespace OptiVerif.Ppg
open OptiVerif OptiVerif.Gen.PpgLimits

/-! ## arguments -/

/-- a value argument: Python `int`, Python `float`, or list/tuple/ndarray of numbers -/
inductive Val
  | int (v : Int)
  | float (v : Rat)
  | list (vs : List Rat)

/-- the `CHs` argument: `None`, or an int / Array_Like of ints (`c` ≡ `[c]`) -/
abbrev Chs := Option (List Int)

/-- `np.clip(v, lo, hi) = minimum(maximum(v, lo), hi)` on integers -/
def clipI (lo hi v : Int) : Int :=
  let m := if v < lo then lo else v
  if hi < m then hi else m

/-- `np.clip(v, lo, hi) = minimum(maximum(v, lo), hi)` on rationals -/
def clipR (lo hi v : Rat) : Rat :=
  let m := if v < lo then lo else v
  if hi < m then hi else m

/-- `_check_channels` (lab.py:362-379): channel list actually used, and "a warning was issued" -/
def checkChannels : Chs → List Int × Bool
  | none => ((List.range CHANNELS).map (fun (i : Nat) => (i : Int) + 1), false)
  | some cs =>
    if cs.any (· < chTestLo) || cs.any (chTestHi < ·) || decide (chSizeMax < cs.length) then
      ((cs.map (clipI chClipLo chClipHi)).take chTake, true)
    else (cs, false)

/-- `np.tile([v], CHs.size)` for scalars, `np.array(v)` for lists -/
def expand (v : Val) (n : Nat) : List Rat :=
  match v with
  | .int x => List.replicate n (x : Rat)
  | .float x => List.replicate n x
  | .list xs => xs

/-- `if (x < A).any() or (x > B).any(): x = x.clip(C, D); warn` -/
def clampAll (test clip : Rat × Rat) (vs : List Rat) : List Rat × Bool :=
  if vs.any (· < test.1) || vs.any (test.2 < ·) then (vs.map (clipR clip.1 clip.2), true) else (vs, false)

/-! ## commands -/

inductive Kind | pattLen | prbsOrder | bitsShift | skew | volt | offsNeg | offsPos
  deriving DecidableEq, Repr

inductive QKind | pattLen | mode | prbsOrder | bitsShift | skew | volt | offs
  deriving DecidableEq, Repr

/-- one SCPI string handed to `_query` -/
inductive Command
  /-- `:DIGn:PATT:LENG v`, `:DIGn:PATT:PLEN v`, `:DIGn:PATT:BSH v`, `:SKEWn v`, `:VOLTn:POS v`,
      `:VOLTn:NEG:OFFS v`, `:VOLTn:POS:OFFS v` -/
  | set (k : Kind) (ch : Int) (v : Rat)
  /-- `:FREQ v` -/
  | freq (v : Rat)
  /-- `:DIGn:PATT:TYPE DATA|PRBS` -/
  | mode (ch : Int) (prbs : Bool)
  /-- `:OUTPn ON|OFF` -/
  | outp (ch : Int) (on : Bool)
  /-- `:DIGn:PATT:DATA addr,n,#<k><n><bits>` -/
  | data (ch : Int) (addr : Int) (n k : Nat) (bits : List Nat)
  /-- the `?` queries of the scalar getters -/
  | get (q : QKind) (ch : Int)
  /-- `:FREQ?` -/
  | freqQ
  /-- `:DIGn:PATT:DATA? addr,count` -/
  | dataQ (ch : Int) (addr : Int) (count : Nat)
  /-- `*RST` -/
  | rst
  deriving DecidableEq

structure Out where
  cmds : List Command
  warned : Bool

abbrev R := Except Wire.Err Out

/-- `for ch, v in zip(CHs, values): self._query(...)` -/
def perChannel (k : Kind) (chs : List Int) (vs : List Rat) : List Command :=
  List.zipWith (fun ch v => Command.set k ch v) chs vs

/-- `set_patt_len` (lab.py:387-428); a float scalar is rejected by the `isinstance` test -/
def setPattLen (v : Val) (chs : Chs) : R :=
  match v with
  | .float _ => .error .ValueError
  | _ =>
    let (cs, w1) := checkChannels chs
    let (vs, w2) := clampAll pattLenTest pattLenClip (expand v cs.length)
    .ok ⟨perChannel .pattLen cs vs, w1 || w2⟩

/-- `nearest(x, a) = x[np.abs(x-a).argmin()]` (first minimum) -/
def nearestFrom (a : Int) : Int → List Int → Int
  | best, [] => best
  | best, x :: xs => nearestFrom a (if (x - a).natAbs < (best - a).natAbs then x else best) xs

def nearest (xs : List Int) (a : Int) : Except Wire.Err Int :=
  match xs with
  | [] => .error .ValueError
  | x :: xs => .ok (nearestFrom a x xs)

/-- Python `int(x)`: truncation toward zero -/
def truncZ (r : Rat) : Int := Int.tdiv r.num r.den

/-- the body of the loop of `set_prbs_order`: value sent and "warned" -/
def orderFor (ord : Rat) : Except Wire.Err (Rat × Bool) :=
  if PRBS_ORDERS.any (fun o => (o : Rat) == ord) then .ok (ord, false)
  else (nearest PRBS_ORDERS (truncZ ord)).map (fun o => ((o : Rat), true))

def orderCmds : List Int → List Rat → Except Wire.Err (List Command × Bool)
  | ch :: chs, v :: vs => do
    let (o, w) ← orderFor v
    let (cs, w') ← orderCmds chs vs
    pure (Command.set .prbsOrder ch o :: cs, w || w')
  | _, _ => pure ([], false)

/-- `set_prbs_order` (lab.py:486-529) -/
def setPrbsOrder (v : Val) (chs : Chs) : R :=
  match v with
  | .float _ => .error .ValueError
  | _ =>
    let (cs, w1) := checkChannels chs
    match orderCmds cs (expand v cs.length) with
    | .error e => .error e
    | .ok (cmds, w2) => .ok ⟨cmds, w1 || w2⟩

/-- `set_bits_shift` (lab.py:698-730): no clamp in the code -/
def setBitsShift (v : Val) (chs : Chs) : R :=
  let (cs, w1) := checkChannels chs
  .ok ⟨perChannel .bitsShift cs (expand v cs.length), w1⟩

/-- `set_skew` (lab.py:812-848) -/
def setSkew (v : Val) (chs : Chs) : R :=
  let (cs, w1) := checkChannels chs
  let (vs, w2) := clampAll skewTest skewClip (expand v cs.length)
  .ok ⟨perChannel .skew cs vs, w1 || w2⟩

/-- `set_output_voltage` (lab.py:868-894) -/
def setVoltage (v : Val) (chs : Chs) : R :=
  let (cs, w1) := checkChannels chs
  let (vs, w2) := clampAll voltTest voltClip (expand v cs.length)
  .ok ⟨perChannel .volt cs vs, w1 || w2⟩

/-- `set_offset` (lab.py:913-958): negative offsets go to `:NEG:OFFS`, the others to `:POS:OFFS` -/
def setOffset (v : Val) (chs : Chs) : R :=
  let (cs, w1) := checkChannels chs
  let (vs, w2) := clampAll offsTest offsClip (expand v cs.length)
  .ok ⟨List.zipWith (fun ch o => if o < 0 then Command.set .offsNeg ch o else Command.set .offsPos ch o) cs vs,
       w1 || w2⟩

/-- `set_freq` (lab.py:776-798): scalar only (`list < float` is a TypeError in Python) -/
def setFreq (v : Val) : R :=
  match v with
  | .list _ => .error .TypeError
  | .int x => one (x : Rat)
  | .float x => one x
where
  one (f : Rat) : R :=
    if f < freqTest.1 || freqTest.2 < f then .ok ⟨[.freq (clipR freqClip.1 freqClip.2 f)], true⟩
    else .ok ⟨[.freq f], false⟩

/-- the `mode` string after `.upper()` -/
inductive Mode | data | prbs | other
  deriving DecidableEq, Repr

/-- `set_mode` (lab.py:448-466) -/
def setMode (m : Mode) (chs : Chs) : R :=
  let (cs, w1) := checkChannels chs
  match m with
  | .other => .error .ValueError
  | .data => .ok ⟨cs.map (fun ch => .mode ch false), w1⟩
  | .prbs => .ok ⟨cs.map (fun ch => .mode ch true), w1⟩

/-- `enable_outputs` / `disable_outputs` -/
def setOutputs (on : Bool) (chs : Chs) : R :=
  let (cs, w1) := checkChannels chs
  .ok ⟨cs.map (fun ch => .outp ch on), w1⟩

/-- the scalar getters: one query per channel -/
def getScalar (q : QKind) (chs : Chs) : R :=
  let (cs, w1) := checkChannels chs
  .ok ⟨cs.map (fun ch => .get q ch), w1⟩

/-! ## set_data -/

/-- the `data` argument: 1-D (list, ndarray or a string of 0/1 characters) or 2-D (one row per channel) -/
inductive DataArg
  | flat (xs : List Int)
  | rows (rs : List (List Int))

/-- Python `xs[:e]` -/
def pyTake {α} (e : Int) (xs : List α) : List α :=
  if 0 ≤ e then xs.take e.toNat else xs.take (xs.length - (-e).toNat)

/-- `np.array(data, dtype=bool).astype(np.uint8)` on one element -/
def bit (x : Int) : Nat := if x = 0 then 0 else 1

/-- `np.split(d, np.arange(M, d.size, M))` when `d.size > M`, `[d]` otherwise -/
def chunks {α} (m : Nat) (xs : List α) : List (List α) :=
  if _h : xs.length ≤ m ∨ m = 0 then [xs] else xs.take m :: chunks m (xs.drop m)
termination_by xs.length
decreasing_by
  simp only [List.length_drop]
  omega

/-- `len(str(n))` -/
def ndigits (n : Nat) : Nat := (Nat.toDigits 10 n).length

/-- the inner loop of `set_data`: consecutive addresses, header `#<k><n>` -/
def dataCmds (ch : Int) : Int → List (List Nat) → List Command
  | _, [] => []
  | addr, c :: cs => .data ch addr c.length (ndigits c.length) c :: dataCmds ch (addr + c.length) cs

/-- the commands of all channels: `for ch, data_ch_i in zip(CHs, data): …` -/
def blocksFor (start : Int) (cs : List Int) (perCh : List (List Nat)) : List Command :=
  (List.zipWith (fun ch bits => dataCmds ch start (chunks MAX_CHUNK_LEN bits)) cs perCh).flatten

/-- `set_data` (lab.py:549-631, after fix e1248f9): the data are converted to a uint8 array first (ragged rows are a
    `ValueError`), then the number of bits per channel (LAST axis) is compared with `MAX_MEMORY_LEN - start + 1` and
    every row is truncated with `data[..., :lim]`; 1-D data are tiled over the channels -/
def setData (data : DataArg) (start : Int) (chs : Chs) : R :=
  let (cs, w1) := checkChannels chs
  let lim : Int := (MAX_MEMORY_LEN : Int) - start + 1
  match data with
  | .flat xs =>
    let w2 : Bool := decide (lim < (xs.length : Int))
    let xs := if w2 then pyTake lim xs else xs
    .ok ⟨blocksFor start cs (List.replicate cs.length (xs.map bit)), w1 || w2⟩
  | .rows [] =>                      -- `np.array([])` is the empty 1-D array
    .ok ⟨blocksFor start cs (List.replicate cs.length []), w1 || decide (lim < 0)⟩
  | .rows (r :: rest) =>
    if rest.all (fun r' => r'.length == r.length) then
      let w2 : Bool := decide (lim < (r.length : Int))
      let rs := if w2 then (r :: rest).map (pyTake lim) else r :: rest
      .ok ⟨blocksFor start cs (rs.map (·.map bit)), w1 || w2⟩
    else .error .ValueError

/-! ## instrument memory, get_data -/

/-- pattern memory: channel → address → bit -/
def Mem := Int → Int → Nat

def Mem.zero : Mem := fun _ _ => 0

/-- effect of `:DIGch:PATT:DATA addr,n,#kn<bits>` -/
def Mem.write (m : Mem) (ch addr : Int) (bits : List Nat) : Mem :=
  fun c a =>
    if c = ch ∧ addr ≤ a then
      match bits[(a - addr).toNat]? with
      | some b => b
      | none => m c a
    else m c a

/-- the bits at `addr … addr+count-1` of a channel -/
def Mem.read (m : Mem) (ch addr : Int) (count : Nat) : List Nat :=
  (List.range count).map (fun (i : Nat) => m ch (addr + (i : Int)))

/-- the instrument executes a command -/
def Mem.exec (m : Mem) : Command → Mem
  | .data ch addr _ _ bits => m.write ch addr bits
  | .rst => Mem.zero          -- the simulated instrument of the harness forgets its pattern memory on `*RST`
  | _ => m

def Mem.execAll (m : Mem) (cs : List Command) : Mem := cs.foldl Mem.exec m

def bitChar (b : Nat) : Char := if b = 0 then '0' else '1'

/-- the instrument's answer to `:DIGn:PATT:DATA? addr,count`: `#<k><count><bits>\n` -/
def reply (bits : List Nat) : List Char :=
  ['#', Nat.digitChar (ndigits bits.length)] ++ Nat.toDigits 10 bits.length ++ bits.map bitChar ++ ['\n']

/-- `k = int(b[1]); str2array(b[k+2:-1], bool).astype(np.uint8)` -/
def parseReply (b : List Char) : Except Wire.Err (List Nat) :=
  match b with
  | _ :: c :: _ =>
    if c.isDigit then
      let k := c.toNat - '0'.toNat
      .ok (((b.drop (k + 2)).dropLast).map (fun ch => if ch = '1' then 1 else 0))
    else .error .ValueError
  | _ => .error .Other

/-- block sizes of `get_data` -/
def counts (size : Nat) : List Nat :=
  if MAX_CHUNK_LEN < size then
    List.replicate (size / MAX_CHUNK_LEN) MAX_CHUNK_LEN ++ (if size % MAX_CHUNK_LEN ≠ 0 then [size % MAX_CHUNK_LEN] else [])
  else [size]

/-- queries of one channel (consecutive addresses) -/
def dataQueries (ch : Int) : Int → List Nat → List Command
  | _, [] => []
  | addr, n :: ns => .dataQ ch addr n :: dataQueries ch (addr + n) ns

/-- data read back for one channel: the parsed answers, concatenated -/
def readBlocks (m : Mem) (ch : Int) : Int → List Nat → Except Wire.Err (List Nat)
  | _, [] => .ok []
  | addr, n :: ns => do
    let b ← parseReply (reply (m.read ch addr n))
    let rest ← readBlocks m ch (addr + n) ns
    pure (b ++ rest)

structure GetOut where
  cmds : List Command
  warned : Bool
  data : List (List Nat)

/-- normalisation of `(size, start_addrs)` in `get_data` -/
def getArgs (size start : Int) : Nat × Int × Bool :=
  let w2 := decide (start < 1) || decide ((MAX_MEMORY_LEN : Int) < start)
  let start := if w2 then clipI 1 MAX_MEMORY_LEN start else start
  let lim : Int := (MAX_MEMORY_LEN : Int) - start + 1
  let w3 := decide (size < 1) || decide (lim < size)
  let size := if w3 then clipI 1 lim size else size
  (size.toNat, start, w2 || w3)

def mapM' {α β} (f : α → Except Wire.Err β) : List α → Except Wire.Err (List β)
  | [] => .ok []
  | x :: xs => do
    let y ← f x
    let ys ← mapM' f xs
    pure (y :: ys)

/-- `get_data` (lab.py:634-695) against the instrument memory `m` -/
def getData (m : Mem) (size start : Int) (chs : Chs) : Except Wire.Err GetOut :=
  let (cs, w1) := checkChannels chs
  let (n, st, w) := getArgs size start
  let cnt := counts n
  match mapM' (fun ch => readBlocks m ch st cnt) cs with
  | .error e => .error e
  | .ok d => .ok ⟨(cs.map (fun ch => dataQueries ch st cnt)).flatten, w1 || w, d⟩

/-! ## requests and histories -/

inductive Request
  | pattLen (v : Val) (chs : Chs)
  | prbsOrder (v : Val) (chs : Chs)
  | bitsShift (v : Val) (chs : Chs)
  | skew (v : Val) (chs : Chs)
  | voltage (v : Val) (chs : Chs)
  | offset (v : Val) (chs : Chs)
  | freq (v : Val)
  | mode (m : Mode) (chs : Chs)
  | outputs (on : Bool) (chs : Chs)
  | setData (d : DataArg) (start : Int) (chs : Chs)
  | get (q : QKind) (chs : Chs)
  | getFreq
  | reset

/-- commands emitted by a request that does not read the instrument's answer -/
def emit : Request → R
  | .pattLen v c => setPattLen v c
  | .prbsOrder v c => setPrbsOrder v c
  | .bitsShift v c => setBitsShift v c
  | .skew v c => setSkew v c
  | .voltage v c => setVoltage v c
  | .offset v c => setOffset v c
  | .freq v => setFreq v
  | .mode m c => setMode m c
  | .outputs on c => setOutputs on c
  | .setData d s c => setData d s c
  | .get q c => getScalar q c
  | .getFreq => .ok ⟨[.freqQ], false⟩
  | .reset => .ok ⟨[.rst], false⟩

/-- an operation of a history: a request, or `get_data(size, start, CHs)` -/
inductive Op
  | req (r : Request)
  | getData (size start : Int) (chs : Chs)

/-! ## line protocol -/

namespace W
open Wire

def ratOfString (t : String) : Option Rat :=
  match t.splitOn "/" with
  | [p] => p.toInt?.map (fun (n : Int) => (n : Rat))
  | [p, q] =>
    match p.toInt?, q.toNat? with
    | some n, some d => if d == 0 then none else some (mkRat n d)
    | _, _ => none
  | _ => none

def rat : P Rat := do
  let t ← tok
  match ratOfString t with
  | some q => pure q
  | none => throw s!"rat:{t}"

def val : P Val := do
  let t ← tok
  if t == "i" then return .int (← int)
  else if t == "f" then return .float (← rat)
  else if t == "l" then return .list (← list rat)
  else throw s!"val:{t}"

def chs : P Chs := do
  let t ← tok
  if t == "none" then pure none else
  match t.toNat? with
  | some n =>
    let rec go : Nat → List Int → P (List Int)
      | 0, acc => pure acc.reverse
      | k+1, acc => do let x ← int; go k (x :: acc)
    return some (← go n [])
  | none => throw s!"chs:{t}"

def mode : P Mode := do
  let t ← tok
  if t == "data" then pure .data else if t == "prbs" then pure .prbs else if t == "other" then pure .other
  else throw s!"mode:{t}"

def qkind : P QKind := do
  let t ← tok
  match t with
  | "pattLen" => pure .pattLen | "mode" => pure .mode | "prbsOrder" => pure .prbsOrder
  | "bitsShift" => pure .bitsShift | "skew" => pure .skew | "volt" => pure .volt | "offs" => pure .offs
  | _ => throw s!"qkind:{t}"

def dataArg : P DataArg := do
  let t ← tok
  if t == "flat" then return .flat (← list int)
  else if t == "rows" then return .rows (← list (list int))
  else throw s!"data:{t}"

def op : P Op := do
  let t ← tok
  match t with
  | "pattlen" => do let v ← val; let c ← chs; pure (.req (.pattLen v c))
  | "order" => do let v ← val; let c ← chs; pure (.req (.prbsOrder v c))
  | "bsh" => do let v ← val; let c ← chs; pure (.req (.bitsShift v c))
  | "skew" => do let v ← val; let c ← chs; pure (.req (.skew v c))
  | "volt" => do let v ← val; let c ← chs; pure (.req (.voltage v c))
  | "offs" => do let v ← val; let c ← chs; pure (.req (.offset v c))
  | "freq" => do let v ← val; pure (.req (.freq v))
  | "mode" => do let m ← mode; let c ← chs; pure (.req (.mode m c))
  | "outp" => do let b ← bool; let c ← chs; pure (.req (.outputs b c))
  | "setdata" => do let d ← dataArg; let s ← int; let c ← chs; pure (.req (.setData d s c))
  | "get" => do let q ← qkind; let c ← chs; pure (.req (.get q c))
  | "getfreq" => pure (.req .getFreq)
  | "rst" => pure (.req .reset)
  | "getdata" => do let n ← int; let s ← int; let c ← chs; pure (.getData n s c)
  | _ => throw s!"op:{t}"

def fRat (q : Rat) : String := s!"{q.num}/{q.den}"

def fKind : Kind → String
  | .pattLen => "pattLen" | .prbsOrder => "prbsOrder" | .bitsShift => "bitsShift" | .skew => "skew"
  | .volt => "volt" | .offsNeg => "offsNeg" | .offsPos => "offsPos"

def fQKind : QKind → String
  | .pattLen => "pattLen" | .mode => "mode" | .prbsOrder => "prbsOrder" | .bitsShift => "bitsShift"
  | .skew => "skew" | .volt => "volt" | .offs => "offs"

def fBitsS (bs : List Nat) : String := if bs.isEmpty then "-" else fBits bs

def fCmd : Command → String
  | .set k ch v => s!"S {fKind k} {ch} {fRat v}"
  | .freq v => s!"F {fRat v}"
  | .mode ch p => s!"M {ch} {fBool p}"
  | .outp ch o => s!"O {ch} {fBool o}"
  | .data ch addr n k bits => s!"D {ch} {addr} {n} {k} {fBitsS bits}"
  | .get q ch => s!"G {fQKind q} {ch}"
  | .freqQ => "FQ"
  | .dataQ ch addr n => s!"DQ {ch} {addr} {n}"
  | .rst => "R"

def fCmds (cs : List Command) : String := String.intercalate " " (toString cs.length :: cs.map fCmd)

end W

/-- run a history against the instrument memory; one reply segment per operation -/
def runHistory : Mem → List Op → List String
  | _, [] => []
  | m, .req r :: ops =>
    match emit r with
    | .error e => s!"err {e}" :: runHistory m ops
    | .ok o => s!"ok {Wire.fBool o.warned} {W.fCmds o.cmds}" :: runHistory (m.execAll o.cmds) ops
  | m, .getData n s c :: ops =>
    match getData m n s c with
    | .error e => s!"err {e}" :: runHistory m ops
    | .ok o =>
      s!"ok {Wire.fBool o.warned} {W.fCmds o.cmds} res {Wire.fList W.fBitsS o.data}" :: runHistory m ops

-- @handler OptiVerif.Ppg.handle
/-- line protocol: `ppg.hist <n> <op>…` → `ok ; <segment> ; <segment> …` -/
def handle : List String → Option String
  | "ppg.hist" :: args =>
    some <| match Wire.run (Wire.list W.op) args with
    | .error e => "bad-op " ++ e
    | .ok ops => "ok ; " ++ String.intercalate " ; " (runHistory Mem.zero ops)
  | _ => none

end OptiVerif.Ppg
