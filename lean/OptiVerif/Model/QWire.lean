/-
Rationals on the wire (`p/q` or `p`) for the exact models of C05 (DAC/SAMPLER) and C14 (gv).  Core Lean only.
(Own namespace `OptiVerif.QWire`, independent of other properties' wire helpers.)
-/
import OptiVerif.Model.Wire

namespace OptiVerif.QWire
open OptiVerif.Wire

/-- `p/q` (q > 0) or `p` -/
def parseRat (t : String) : Option Rat :=
  match t.splitOn "/" with
  | [a] => a.toInt?.map (fun (n : Int) => (n : Rat))
  | [a, b] =>
    match a.toInt?, b.toNat? with
    | some n, some d => if d == 0 then none else some (mkRat n d)
    | _, _ => none
  | _ => none

def rat : P Rat := do
  let t ← tok
  match parseRat t with
  | some q => pure q
  | none => throw s!"rat:{t}"

/-- `none` or a rational -/
def optRat : P (Option Rat) := do
  let t ← tok
  if t == "none" then pure none else
  match parseRat t with
  | some q => pure (some q)
  | none => throw s!"optRat:{t}"

/-- canonical rendering `num/den` (reduced, den > 0) -/
def fRat (q : Rat) : String := s!"{q.num}/{q.den}"

def fOptRat : Option Rat → String
  | none => "none"
  | some q => fRat q

def fRatList (xs : List Rat) : String := fList fRat xs

end OptiVerif.QWire
