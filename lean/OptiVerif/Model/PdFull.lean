/-
C09, end to end: `devices.PD` INCLUDING its output filter — the composition of the pre-filter model `Model/Pd.lean`
with C11's model of `LPF` (`Model/Filter.lean`: scipy's `sosfiltfilt` on the sections `sos`, their `sosfilt_zi` state and
the pad length `edge`, all three spied from scipy by the harness).  `output = LPF(electrical_signal(signal=i_sig*R_load,
noise=i_noise*R_load), BW)`: one real row of signal, one real row of noise, the same filter on both.
Generic numerics (Float: compared bit-for-bit-close with the FINAL output of the real `PD`; ℝ: `Props/C09.lean`).  Core Lean only.
-/
import OptiVerif.Model.Pd
import OptiVerif.Model.Filter

set_option linter.unusedSectionVars false
set_option linter.unusedVariables false

namespace OptiVerif.PdFull
open OptiVerif

section
variable {R : Type} [Add R] [Sub R] [Mul R] [Div R] [Neg R] [NatCast R] [IntCast R] [Transc R]
  [LT R] [LE R] [DecidableLT R] [DecidableLE R]

/-- a real row as the complex row `Filter.lpf` expects (LPF filters a float64 array; imaginary part 0) -/
def toCx (xs : List R) : List (Cx R) := xs.map fun v => ⟨v, ((0 : Nat) : R)⟩

/-- `LPF(electrical_signal(signal, noise), BW)` on the value PD hands to it -/
def lpfPre (secs : List (Filter.Sec R)) (edge : Nat) (p : Pd.Pre R) : Except Wire.Err (Pd.Pre R) :=
  match Filter.lpf secs edge ⟨[toCx p.sig], some [toCx p.noise]⟩ with
  | .error e => .error e
  | .ok ⟨[s], some [n]⟩ => .ok ⟨s, n⟩
  | .ok _ => .error .Other

/-- `PD(input, BW, r, T, R_load, include_noise, i_dark, Fn)`: RNG requests made, and the returned electrical signal -/
def pdFull (secs : List (Filter.Sec R)) (edge : Nat) (kB e fs : R) (r T Rl : Pd.PyVal R) (sel : Option (List Char))
    (iDark Fn : R) (dT dN : List R) (inp : Pd.Input (Cx R)) : Pd.Res R :=
  let res := Pd.pd kB e fs r T Rl sel iDark Fn dT dN inp
  ⟨res.reqs, match res.out with
    | .error err => .error err
    | .ok p => lpfPre secs edge p⟩
end

-- @handler OptiVerif.PdFull.handle
/-- `pdfull.run <edge> <nsec> (b0 b1 b2 a1 a2 zi0 zi1)* <arguments of pd.run>`
      ->  `ok <reqs> <signal> <noise>`  |  `err <E> <reqs>`      (the FINAL output of PD, in volts) -/
def handle : List String → Option String
  | "pdfull.run" :: args =>
    some <| match Wire.run (do
        let edge ← Wire.nat
        let secs ← Wire.list Filter.pSec
        let isOpt ← Wire.bool
        let kB ← Wire.float; let e ← Wire.float; let fs ← Wire.float
        let r ← Pd.W.pyVal; let t ← Pd.W.pyVal; let rl ← Pd.W.pyVal
        let sel ← Pd.W.optStr
        let idark ← Wire.float; let fn ← Wire.float
        let dT ← Wire.list Wire.float; let dN ← Wire.list Wire.float
        let inp ← if isOpt then (do let x ← Pd.W.field; pure (Pd.Input.optical x)) else pure Pd.Input.other
        pure (edge, secs, kB, e, fs, r, t, rl, sel, idark, fn, dT, dN, inp)) args with
    | .error e => "bad-op " ++ e
    | .ok (edge, secs, kB, e, fs, r, t, rl, sel, idark, fn, dT, dN, inp) =>
      let res := pdFull secs edge kB e fs r t rl sel idark fn dT dN inp
      match res.out with
      | .error err => Wire.err err ++ " " ++ Pd.W.fReqs res.reqs
      | .ok p => Wire.ok (Pd.W.fReqs res.reqs ++ " " ++ Wire.fFList p.sig ++ " " ++ Wire.fFList p.noise)
  | _ => none

end OptiVerif.PdFull
