/-
Model of `devices.GET_EYE` (devices.py GET_EYE, the `eye` container of typing.py): everything that is deterministic
around the three library calls, which are PARAMETERS spied from the run (DESIGN.md §2.2):
  * `sg.resample`      — its output (the resampled waveform `y`) is an input,
  * `sk.KMeans`        — `vm` (mean of the two 1-D centres) only feeds `shortest_int`; the two (t, y) centres are inputs,
  * `gaussian_kde`     — the 500 pdf values are an input,
and `utils.shortest_int` (modelled by C18) — the two intervals are inputs.
Modelled: truncation / slot count / roll before resampling, the time grid, the two levels, the 25 %/75 % selection and the
NORMALISED (t, y) points handed to KMeans, the nearest-grid snapping (`find_nearest`), `t_left/t_right/t_opt`, `t_dist`,
the 10 % window, the sampling index `i`, `mu0, mu1, s0, s1`, the threshold `x[argmin pdf]`, `eye_h`.
Generic numerics with Boolean comparisons (Float for running, ℝ for proving).  Core Lean only.
-/
import OptiVerif.Model.NumList

set_option linter.unusedSectionVars false

namespace OptiVerif.Eye
open OptiVerif OptiVerif.NumList

/-! ### before the resampling (integers and list surgery only) -/

/-- `n = len % (2*sps); input = input[:-n]; nslots = min(len // sps, nslots)` -/
def nslotsOf (len sps nslotsArg : Nat) : Nat := min ((len - len % (2 * sps)) / sps) nslotsArg

/-- `np.roll(input[: nslots*sps], -sps // 2 + 1)`: a left rotation by `ceil(sps/2) - 1` -/
def preRoll {α} (sps nslots : Nat) (xs : List α) : List α :=
  Fourier.rot ((sps + 1) / 2 - 1) (xs.take (nslots * sps))

/-- resampled-grid index → sampling index: `instant = argmin - sps_r//2 + 1; i = int(instant / sps_r * sps)`
    (`spsR = none`: no resampling, `i = argmin - sps//2 + 1`).  Integer arithmetic; `int()` truncates toward zero. -/
def sampIndex (sps : Nat) (spsR : Option Nat) (am : Nat) : Int :=
  match spsR with
  | some r => Int.tdiv (((am : Int) - ((r / 2 : Nat) : Int) + 1) * (sps : Int)) (r : Int)
  | none => (am : Int) - ((sps / 2 : Nat) : Int) + 1

section
variable {R : Type} [Add R] [Sub R] [Mul R] [Div R] [Neg R] [NatCast R] [Transc R] [Cmp R]

/-- one period (two slots) of the time axis: `np.linspace(-1, 1 - 1/sps, 2*sps)` -/
def grid (spsE : Nat) : List R := linspace (-(one : R)) (one - one / ((spsE : Nat) : R)) (2 * spsE)

/-- `t = np.kron(np.ones(nslots // 2), grid)` -/
def tAxis (nslots spsE : Nat) : List R := tile (nslots / 2) (grid spsE)

/-- `np.mean(interval)` of the two ends -/
def level (iv : R × R) : R := (iv.1 + iv.2) / two

structure Levels (R : Type) where
  state0 : R
  state1 : R
  d01 : R
  v25 : R
  v75 : R
  yCenter : R

def quarter : R := one / ((4 : Nat) : R)

/-- `state_1 = mean(top_int)`, `state_0 = mean(bot_int)`, `d01`, `v75 = state_1 - 0.25*d01`, `v25 = state_0 + 0.25*d01`,
    `y_center = (state_0 + state_1)/2` -/
def levels (top bot : R × R) : Levels R :=
  let s1 := level top
  let s0 := level bot
  let d := s1 - s0
  ⟨s0, s1, d, s0 + quarter * d, s1 - quarter * d, (s0 + s1) / two⟩

/-- `cond = (input > v25) & (input < v75)` -/
def between (lo hi y : R) : Bool := Cmp.lt lo y && Cmp.lt y hi

/-- the rows handed to the second `kmeans.fit`: `[t[cond], (input[cond] - state_0) / d01]` -/
def tyPoints (lv : Levels R) (t y : List R) : List (R × R) :=
  ((List.zip t y).filter (fun p => between lv.v25 lv.v75 p.2)).map (fun p => (p.1, (p.2 - lv.state0) / lv.d01))

/-- `find_nearest(levels, x)`: `levels[argmin |levels - x|]` -/
def findNearest (lvls : List R) (x : R) : R :=
  lvls.getD (argmin (lvls.map (fun l => absR (l - x)))) zero

structure Timing (R : Type) where
  tLeft : R
  tRight : R
  tOpt : R

/-- crossing times from the two cluster centres (`none`: `kmeans.fit` raised ValueError → the defaults -0.5, 0.5, 0.0).
    `left = argmin(t-centres)`, `right = argmax(t-centres)`, `t_opt = nearest(mean of the t-centres)` -/
def timing (g : List R) (centres : Option ((R × R) × (R × R))) : Timing R :=
  match centres with
  | none => ⟨-(one / two), one / two, zero⟩
  | some (c0, c1) =>
    let tl := if Cmp.lt c1.1 c0.1 then c1.1 else c0.1
    let tr := if Cmp.lt c0.1 c1.1 then c1.1 else c0.1
    ⟨findNearest g tl, findNearest g tr, findNearest g ((c0.1 + c1.1) / two)⟩

/-- the crossing amplitudes `ty_c[:,1]` mapped back to the units of y: `c.y * d01 + state_0` (left, right) -/
def crossAmps (lv : Levels R) (c : (R × R) × (R × R)) : R × R :=
  let a0 := c.1.2 * lv.d01 + lv.state0
  let a1 := c.2.2 * lv.d01 + lv.state0
  (if Cmp.lt c.2.1 c.1.1 then a1 else a0, if Cmp.lt c.1.1 c.2.1 then a1 else a0)

def p05 : R := ((5 : Nat) : R) / ((100 : Nat) : R)

/-- `(t_span0 < t) & (t < t_span1)` with `t_span = t_opt ∓ 0.05*t_dist` -/
def inWindow (tm : Timing R) (tk : R) : Bool :=
  let dist := tm.tRight - tm.tLeft
  Cmp.lt (tm.tOpt - p05 * dist) tk && Cmp.lt tk (tm.tOpt + p05 * dist)

/-- samples of the central window above / below `y_center` -/
def topSamples (lv : Levels R) (tm : Timing R) (t y : List R) : List R :=
  ((List.zip t y).filter (fun p => Cmp.lt lv.yCenter p.2 && inWindow tm p.1)).map Prod.snd
def botSamples (lv : Levels R) (tm : Timing R) (t y : List R) : List R :=
  ((List.zip t y).filter (fun p => Cmp.lt p.2 lv.yCenter && inWindow tm p.1)).map Prod.snd

/-- `np.abs(t - t_center).argmin()` over the whole (tiled) axis -/
def argNearest (t : List R) (tc : R) : Nat := argmin (t.map (fun tk => absR (tk - tc)))

/-- `x = np.linspace(mu0, mu1, 500); threshold = x[np.argmin(pdf)]` -/
def threshold (mu0 mu1 : R) (pdf : List R) : R := (linspace mu0 mu1 pdf.length).getD (argmin pdf) zero

structure Out (R : Type) where
  state0 : R
  state1 : R
  tLeft : R
  tRight : R
  tOpt : R
  tDist : R
  tSpan0 : R
  tSpan1 : R
  i : Int
  mu0 : R
  mu1 : R
  s0 : R
  s1 : R
  thr : Option R
  eyeH : R

/-- the post-processing.  An empty upper or lower window (numpy: mean of an empty slice → nan) is `err Other`. -/
def post (nslots sps : Nat) (spsR : Option Nat) (top bot : R × R) (centres : Option ((R × R) × (R × R)))
    (pdf : Option (List R)) (y : List R) : Except Wire.Err (Out R) :=
  let spsE := spsR.getD sps
  let g : List R := grid spsE
  let t : List R := tAxis nslots spsE
  let lv := levels top bot
  let tm := timing g centres
  let tops := topSamples lv tm t y
  let bots := botSamples lv tm t y
  if tops.isEmpty || bots.isEmpty then .error .Other
  else
    let mu1 := mean tops
    let s1 := std tops
    let mu0 := mean bots
    let s0 := std bots
    let dist := tm.tRight - tm.tLeft
    .ok { state0 := lv.state0, state1 := lv.state1, tLeft := tm.tLeft, tRight := tm.tRight, tOpt := tm.tOpt,
          tDist := dist, tSpan0 := tm.tOpt - p05 * dist, tSpan1 := tm.tOpt + p05 * dist,
          i := sampIndex sps spsR (argNearest t tm.tOpt),
          mu0 := mu0, mu1 := mu1, s0 := s0, s1 := s1,
          thr := pdf.map (threshold mu0 mu1),
          eyeH := mu1 - ((3 : Nat) : R) * s1 - mu0 - ((3 : Nat) : R) * s0 }
end

/-! ### line protocol -/
open Wire

def pairF : P (Float × Float) := do let a ← Wire.float; let b ← Wire.float; pure (a, b)

def optNat : P (Option Nat) := do
  let t ← tok
  if t == "none" then pure none else
  match t.toNat? with
  | some n => pure (some n)
  | none => throw s!"optNat:{t}"

def fOptF : Option Float → String
  | none => "none"
  | some x => fF x

-- @handler OptiVerif.Eye.handle
/-- `eye.pre <len> <sps> <nslotsArg> <x list>` → `ok <nslots> <rolled list>`
    `eye.points <nslots> <sps> <spsR|none> <top> <bot> <y list>` → `ok <v25> <v75> <m> (t y)*m`
    `eye.post <nslots> <sps> <spsR|none> <top> <bot> <0 | 1 c0t c0y c1t c1y> <0 | 1 pdf list> <y list>`
       → `ok state0 state1 tLeft tRight tOpt tDist tSpan0 tSpan1 i mu0 mu1 s0 s1 thr|none eyeH yLeftRaw yRightRaw` -/
def handle : List String → Option String
  | "eye.pre" :: args =>
    some <| match Wire.run (do
        let len ← Wire.nat; let sps ← Wire.nat; let na ← Wire.nat; let xs ← Wire.list Wire.float
        pure (len, sps, na, xs)) args with
    | .error e => "bad-op " ++ e
    | .ok (len, sps, na, xs) =>
      if sps == 0 then Wire.err .Other else
      let ns := nslotsOf len sps na
      let trunc := xs.take (len - len % (2 * sps))
      Wire.ok (toString ns ++ " " ++ fFList (preRoll sps ns trunc))
  | "eye.points" :: args =>
    some <| match Wire.run (do
        let ns ← Wire.nat; let sps ← Wire.nat; let r ← optNat; let top ← pairF; let bot ← pairF
        let y ← Wire.list Wire.float; pure (ns, sps, r, top, bot, y)) args with
    | .error e => "bad-op " ++ e
    | .ok (ns, sps, r, top, bot, y) =>
      let lv := levels top bot
      let pts := tyPoints lv (tAxis ns (r.getD sps)) y
      Wire.ok (fF lv.v25 ++ " " ++ fF lv.v75 ++ " " ++ fList (fun (p : Float × Float) => fF p.1 ++ " " ++ fF p.2) pts)
  | "eye.post" :: args =>
    some <| match Wire.run (do
        let ns ← Wire.nat; let sps ← Wire.nat; let r ← optNat; let top ← pairF; let bot ← pairF
        let hasC ← Wire.bool
        let c ← if hasC then (do let a ← pairF; let b ← pairF; pure (some (a, b))) else pure none
        let hasP ← Wire.bool
        let pdf ← if hasP then (do let l ← Wire.list Wire.float; pure (some l)) else pure none
        let y ← Wire.list Wire.float; pure (ns, sps, r, top, bot, c, pdf, y)) args with
    | .error e => "bad-op " ++ e
    | .ok (ns, sps, r, top, bot, c, pdf, y) =>
      match post ns sps r top bot c pdf y with
      | .error e => Wire.err e
      | .ok o =>
        let amps := match c with
          | none => "none none"
          | some cc => let a := crossAmps (levels top bot) cc; fF a.1 ++ " " ++ fF a.2
        Wire.ok (String.intercalate " " [fF o.state0, fF o.state1, fF o.tLeft, fF o.tRight, fF o.tOpt, fF o.tDist,
          fF o.tSpan0, fF o.tSpan1, toString o.i, fF o.mu0, fF o.mu1, fF o.s0, fF o.s1, fOptF o.thr, fF o.eyeH, amps])
  | _ => none

end OptiVerif.Eye
