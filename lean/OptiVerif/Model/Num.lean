/-
Generic numerics for the models (DESIGN.md §2.1 item 2).  Core Lean only.

A model is written ONCE over an arbitrary carrier `R` with the ordinary operator classes
(`Add R`, `Mul R`, … as separate instance arguments — no bundled class, hence no instance diamonds) plus the
small class `Transc R` for the transcendental functions.  The same definition is then
  * executed at `R := Float` by the driver (correspondence with numpy), and
  * reasoned about at `R := ℝ` in Lemmas/ and Props/ (instance `Transc ℝ` in `Lemmas/NumReal.lean`).
-/
import OptiVerif.Model.Wire

set_option linter.unusedSectionVars false

namespace OptiVerif

/-- transcendental functions and π -/
class Transc (R : Type) where
  sqrt : R → R
  exp : R → R
  log : R → R
  cos : R → R
  sin : R → R
  pi : R

instance : Transc Float where
  sqrt := Float.sqrt
  exp := Float.exp
  log := Float.log
  cos := Float.cos
  sin := Float.sin
  pi := 3.141592653589793

instance : NatCast Float := ⟨Float.ofNat⟩
instance : IntCast Float := ⟨Float.ofInt⟩

/-- complex numbers over any carrier -/
structure Cx (R : Type) where
  re : R
  im : R
deriving Repr, BEq

namespace Cx
section
variable {R : Type} [Add R] [Sub R] [Mul R] [Neg R]

instance : Add (Cx R) := ⟨fun a b => ⟨a.re + b.re, a.im + b.im⟩⟩
instance : Sub (Cx R) := ⟨fun a b => ⟨a.re - b.re, a.im - b.im⟩⟩
instance : Neg (Cx R) := ⟨fun a => ⟨-a.re, -a.im⟩⟩
instance : Mul (Cx R) := ⟨fun a b => ⟨a.re * b.re - a.im * b.im, a.re * b.im + a.im * b.re⟩⟩

/-- real scalar times complex -/
def smul (r : R) (a : Cx R) : Cx R := ⟨r * a.re, r * a.im⟩
def conj (a : Cx R) : Cx R := ⟨a.re, -a.im⟩
/-- |a|² -/
def normSq (a : Cx R) : R := a.re * a.re + a.im * a.im
def ofReal [NatCast R] (r : R) : Cx R := ⟨r, ((0 : Nat) : R)⟩
/-- e^{jθ} -/
def cis [Transc R] (θ : R) : Cx R := ⟨Transc.cos θ, Transc.sin θ⟩
/-- e^{a + jb} -/
def exp [Transc R] (z : Cx R) : Cx R := smul (Transc.exp z.re) (cis z.im)

@[simp] theorem add_re (a b : Cx R) : (a + b).re = a.re + b.re := rfl
@[simp] theorem add_im (a b : Cx R) : (a + b).im = a.im + b.im := rfl
@[simp] theorem sub_re (a b : Cx R) : (a - b).re = a.re - b.re := rfl
@[simp] theorem sub_im (a b : Cx R) : (a - b).im = a.im - b.im := rfl
@[simp] theorem neg_re (a : Cx R) : (-a).re = -a.re := rfl
@[simp] theorem neg_im (a : Cx R) : (-a).im = -a.im := rfl
@[simp] theorem mul_re (a b : Cx R) : (a * b).re = a.re * b.re - a.im * b.im := rfl
@[simp] theorem mul_im (a b : Cx R) : (a * b).im = a.re * b.im + a.im * b.re := rfl
end
end Cx

namespace Wire
/-- complex list on the wire: n, then re im pairs -/
def cx : P (Cx Float) := do let a ← float; let b ← float; pure ⟨a, b⟩
def fCx (z : Cx Float) : String := fF z.re ++ " " ++ fF z.im
def fCxList (zs : List (Cx Float)) : String := fList fCx zs
def fFList (xs : List Float) : String := fList fF xs
end Wire

end OptiVerif
