/-
Model of `opticomlib.utils.si` (utils.py:825-873).  Core Lean only, exact `Rat`.
The if-ladder itself is `Gen/SiLadder.lean`, translated from the source on every run.

A Python float stands for the decimal value of its shortest `repr` (the same convention the translator uses
for the float literals of the ladder), so `A <= x` on floats and on these rationals agree.  The model returns
the *unrounded* mantissa `x*S`; the `:.{k}f` rounding is Python's (runtime clause, checked by the harness).
-/
import OptiVerif.Gen.SiLadder
import OptiVerif.Model.RatIO

namespace OptiVerif.Si
open OptiVerif

abbrev Row := Rat × Option Rat × Rat × List Nat

/-- the test `A <= x` / `A <= x < B` of one row -/
def hits (r : Row) (x : Rat) : Bool :=
  decide (r.1 ≤ x) && (match r.2.1 with | none => true | some b => decide (x < b))

inductive Out
  | row (pfx : List Nat) (mantissa : Rat)    -- f'{x*S:.{k}f} P{unit}'
  | zero                                       -- f'0 {unit}'
  | none                                       -- falls off the end: returns None
deriving Repr, DecidableEq

/-- run the ladder top to bottom over a table -/
def siRows (zeroCase : Bool) : List Row → Rat → Out
  | [], x => if zeroCase && decide (x = 0) then .zero else .none
  | r :: rs, x => if hits r x then .row r.2.2.2 (x * r.2.2.1) else siRows zeroCase rs x

/-- `si(x, unit, k)` up to the final formatting -/
def si (x : Rat) : Out := siRows Gen.SiLadder.zeroCase Gen.SiLadder.rows x

def fPrefix (p : List Nat) : String :=
  if p.isEmpty then "_" else String.intercalate "." (p.map toString)

-- @handler OptiVerif.Si.handle
/-- line protocol: `si <x as p/q>` → `ok row <prefix code points joined by '.', '_' if none> <mantissa p/q>` |
    `ok zero` | `ok none` -/
def handle : List String → Option String
  | "si" :: args =>
    some <| match Wire.run RatIO.rat args with
    | .error e => "bad-op " ++ e
    | .ok x =>
      match si x with
      | .row p m => Wire.ok s!"row {fPrefix p} {RatIO.fRat m}"
      | .zero => Wire.ok "zero"
      | .none => Wire.ok "none"
  | _ => none

end OptiVerif.Si
