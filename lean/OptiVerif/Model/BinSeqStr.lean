/-
Model of `opticomlib.utils.str2array` (utils.py:90-195) restricted to what `binary_sequence(...)`,
`binary_sequence.__add__/__radd__` (dtype = None) and the PPM functions (dtype = bool) make of it (C12, C15).
Core Lean only.  Strings are lists of Unicode code points.

Modelled exactly: `_get_type_array_from_str` (all four regex classes), the `bool` branch (dtype None/bool),
the `int` and `float` branches (token split, Python `int()` / `float()` grammar restricted to the characters
the class admits, C-long overflow, round-to-nearest of a decimal literal *as far as membership in {0, 1} and
truthiness are concerned*).  The `complex` branch is not modelled (`unmodelled`): the harness does not send it.
-/
import OptiVerif.Model.Wire

namespace OptiVerif.BinSeqStr
open OptiVerif

/-- Python's `\s` for `str` patterns (`Py_UNICODE_ISSPACE`) -/
def isSpace (c : Nat) : Bool :=
  (9 ≤ c && c ≤ 13) || (28 ≤ c && c ≤ 32) || c == 0x85 || c == 0xA0 || c == 0x1680 ||
  (0x2000 ≤ c && c ≤ 0x200A) || c == 0x2028 || c == 0x2029 || c == 0x202F || c == 0x205F || c == 0x3000

def isDigit (c : Nat) : Bool := 48 ≤ c && c ≤ 57
def cComma : Nat := 44
def cSemi : Nat := 59
def cSpace : Nat := 32
def cPlus : Nat := 43
def cMinus : Nat := 45
def cDot : Nat := 46

/-- `[0-1,;\s]` -/
def isBoolCh (c : Nat) : Bool := c == 48 || c == 49 || c == cComma || c == cSemi || isSpace c
/-- `[0-9,;\-\+\s]` -/
def isIntCh (c : Nat) : Bool := isDigit c || c == cComma || c == cSemi || c == cMinus || c == cPlus || isSpace c
/-- `[0-9,;.\+\-\s]` -/
def isFloatCh (c : Nat) : Bool := isIntCh c || c == cDot
/-- `[0-9,;.\+\-\sji]` -/
def isCplxCh (c : Nat) : Bool := isFloatCh c || c == 106 || c == 105

inductive Cls | bool | int | float | complex | none
  deriving DecidableEq, Repr

/-- `_get_type_array_from_str`: the first of the four patterns `^[class]+$` that matches -/
def classify (s : List Nat) : Cls :=
  if s.isEmpty then .none
  else if s.all isBoolCh then .bool
  else if s.all isIntCh then .int
  else if s.all isFloatCh then .float
  else if s.all isCplxCh then .complex
  else .none

/-- `str.split(sep)` for a one-character separator -/
def splitOn (sep : Nat) : List Nat → List (List Nat)
  | [] => [[]]
  | c :: cs =>
    match splitOn sep cs with
    | [] => [[]]            -- unreachable: the result is never empty
    | r :: rs => if c == sep then [] :: r :: rs else (c :: r) :: rs

/-- what the parsed array is, as far as the callers look at it.
    A cell is `some b` when the element equals 0 (`b = false`) or 1 (`b = true`), `none` for any other number;
    `truth` is its `astype(bool)` value. -/
structure Cell where
  bit : Option Bool
  truth : Bool
  deriving DecidableEq, Repr

def Cell.zero : Cell := ⟨some false, false⟩
def Cell.one : Cell := ⟨some true, true⟩
def Cell.other : Cell := ⟨none, true⟩

inductive Parsed
  | vec (cells : List Cell)                    -- 1-D
  | mat (rows : Nat) (cols : Nat) (cells : List (List Cell))   -- 2-D
  deriving Repr

/-! ### bool class: `string.replace(' ', '').replace(',', '').split(';')`, then characters → `astype(bool)` -/

/-- a one-character string cast to bool by numpy goes through `int(ch)`: only '0' and '1' can remain here -/
def boolChar (c : Nat) : Except Wire.Err Cell :=
  if c == 48 then .ok Cell.zero else if c == 49 then .ok Cell.one else .error .ValueError

def allSameLength {α} (rows : List (List α)) : Bool :=
  match rows with
  | [] => true
  | r :: rs => rs.all (fun x => x.length == r.length)

def assemble (rows : List (List Cell)) : Except Wire.Err Parsed :=
  match rows with
  | [r] => .ok (.vec r)
  | r :: rs => .ok (.mat (rs.length + 1) r.length (r :: rs))
  | [] => .error .Other

def parseBool (s : List Nat) : Except Wire.Err Parsed := do
  let rows := splitOn cSemi (s.filter (fun c => !(c == cSpace || c == cComma)))
  -- `np.array([list(item) for item in strings])` on ragged rows raises ValueError
  if !allSameLength rows then throw .ValueError
  let cells ← rows.mapM (fun r => r.mapM boolChar)
  assemble cells

/-! ### int / float classes: `string.split(';')`, `re.split(r'[,\s]+', item.strip())`, numpy string → number -/

def dropSpaces (s : List Nat) : List Nat := s.dropWhile isSpace
/-- `str.strip()` -/
def strip (s : List Nat) : List Nat := (dropSpaces (dropSpaces s).reverse).reverse

def isSep (c : Nat) : Bool := c == cComma || isSpace c

/-- `re.split(r'[,\s]+', s)`: maximal runs of separators split; leading/trailing runs give empty tokens -/
def reSplitAux : List Nat → List Nat → Bool → List (List Nat)
  -- remaining input, current token (reversed), "previous character was a separator"
  | [], cur, _ => [cur.reverse]
  | c :: cs, cur, inSep =>
    if isSep c then
      if inSep then reSplitAux cs cur true else cur.reverse :: reSplitAux cs [] true
    else reSplitAux cs (c :: cur) false

def reSplit (s : List Nat) : List (List Nat) := reSplitAux s [] false

def digitsVal (ds : List Nat) : Nat := ds.foldl (fun a d => 10 * a + (d - 48)) 0

/-- optional leading sign of a numeric token: (is negative, rest) -/
def signSplit (t : List Nat) : Bool × List Nat :=
  match t with
  | c :: r => if c == cMinus then (true, r) else if c == cPlus then (false, r) else (false, t)
  | [] => (false, [])

/-- value of `sign digits` as numpy stores it in a C long, classified -/
def intOfParts (neg : Bool) (ds : List Nat) : Except Wire.Err Cell :=
  if ds.isEmpty || !ds.all isDigit then .error .ValueError
  else if (!neg && digitsVal ds ≥ 2^63) || (neg && digitsVal ds > 2^63) then .error .Other
  else if digitsVal ds == 0 then .ok Cell.zero
  else if digitsVal ds == 1 && !neg then .ok Cell.one
  else .ok Cell.other

/-- Python `int(tok)` on a token made of `[0-9+-]` only: optional sign, at least one digit.
    Values outside the C long range raise OverflowError (`Other`). -/
def parseIntTok (t : List Nat) : Except Wire.Err Cell :=
  intOfParts (signSplit t).1 (signSplit t).2

/-- fractional digits after the integer part, and whether the unsigned body is well formed:
    `D+ ('.' D*)? | '.' D+` -/
def fracPart (ip rest : List Nat) : List Nat × Bool :=
  match rest with
  | [] => ([], !ip.isEmpty)
  | c :: r => if c == cDot && r.all isDigit && !(ip.isEmpty && r.isEmpty) then (r, true) else ([], false)

/-- the decimal value `num / 10^k` rounded to the nearest double (ties to even) equals 1.0 iff
    `1 - 2^-54 ≤ v ≤ 1 + 2^-53` and equals ±0.0 iff `v ≤ 2^-1075` -/
def floatOfParts (neg : Bool) (num k : Nat) (ok : Bool) : Except Wire.Err Cell :=
  if !ok then .error .ValueError
  else if num * 2^1075 ≤ 10 ^ k then .ok Cell.zero
  else if !neg && (2^54 - 1) * 10 ^ k ≤ 2^54 * num && 2^53 * num ≤ (2^53 + 1) * 10 ^ k then .ok Cell.one
  else .ok Cell.other

/-- Python `float(tok)` on a token made of `[0-9+-.]` only:  `[+-]? (D+ ('.' D*)? | '.' D+)` -/
def parseFloatTok (t : List Nat) : Except Wire.Err Cell :=
  let body := (signSplit t).2
  let ip := body.takeWhile isDigit
  let fp := fracPart ip (body.dropWhile isDigit)
  floatOfParts (signSplit t).1 (digitsVal (ip ++ fp.1)) fp.1.length fp.2

def parseNum (tok : List Nat → Except Wire.Err Cell) (s : List Nat) : Except Wire.Err Parsed := do
  let rows := (splitOn cSemi s).map (fun item => reSplit (strip item))
  if !allSameLength rows then throw .ValueError
  let cells ← rows.mapM (fun r => r.mapM tok)
  assemble cells

inductive Result
  | ok (p : Parsed)
  | err (e : Wire.Err)
  | unmodelled

/-- `str2array(string)` / `str2array(string, bool)` -/
def str2array (s : List Nat) : Result :=
  match classify s with
  | .bool => match parseBool s with | .ok p => .ok p | .error e => .err e
  | .int => match parseNum parseIntTok s with | .ok p => .ok p | .error e => .err e
  | .float => match parseNum parseFloatTok s with | .ok p => .ok p | .error e => .err e
  | .complex => .unmodelled
  | .none => .err .ValueError

/-- code points on the wire: length-prefixed list of naturals -/
def wireStr : Wire.P (List Nat) := Wire.list Wire.nat

end OptiVerif.BinSeqStr
