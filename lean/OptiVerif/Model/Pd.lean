/-
C09 — PD, the P-I-N photodetector (`/repo/opticomlib/devices.py` PD), everything BEFORE the output filter `LPF(output, BW)`.
Generic numeric model (executed at `Float` by the driver against the real `PD`, with `opticomlib.devices.LPF` spied so that
the value handed to the filter is observed; proved about at `ℝ` in `Props/C09.lean`).  Core Lean only.

* decision tables (validation ladder, the three trigger blocks, the `include_noise ==` ladder) and the scalar formulas
  `i_sig`, `i_n_n`, `i_ase`, `S_T`, `S_N` are NOT written here: they are translated from the source into `Gen/PdTable.lean`
  on every run and interpreted by this model;
* both `np.random.normal(0, S**0.5, input.len())` draws are inputs of the model (DESIGN.md §2.2): the model reports the
  `(loc, scale, size)` it expects the code to hand to the RNG, in call order, and consumes the recorded values;
* `kB`, `e` (scipy.constants) and `gv.fs` are passed in as numbers;
* the final filter is a parameter `F : List R → List R` (`pdOut`), applied alike to the signal and to the noise part
  (`LPF` is property C11's model);
* Python strings are `List Char` (lower-casing of ASCII letters; no other code point lower-cases to a letter of an option
  name except U+212A KELVIN SIGN → `k`, and no option or trigger contains a `k`).
-/
import OptiVerif.Model.Num
import OptiVerif.Gen.PdTable

set_option linter.unusedSectionVars false
set_option linter.unusedVariables false

namespace OptiVerif.Pd
open OptiVerif

/-! ### the input: an `optical_signal` (self-contained: the same shapes as in the C06/C10 models, same wire format) -/

/-- rows of an `optical_signal` array: 1-D (`n_pol = 1`) or shape (2,N) (`n_pol = 2`) -/
inductive Rows (α : Type) where
  | one (x : List α)
  | two (x y : List α)
deriving Repr, BEq

namespace Rows
variable {α β : Type}
/-- apply a row transformer to every polarisation -/
def map (f : List α → List β) : Rows α → Rows β
  | one x => one (f x)
  | two x y => two (f x) (f y)
/-- `optical_signal.len()` -/
def len : Rows α → Nat
  | one x => x.length
  | two x _ => x.length
/-- all rows have `n` samples -/
def Shaped (n : Nat) : Rows α → Prop
  | one a => a.length = n
  | two a b => a.length = n ∧ b.length = n
end Rows

/-- `.signal` and `.noise` of an `optical_signal` -/
structure Field (α : Type) where
  sig : Rows α
  noise : Option (Rows α)
deriving Repr, BEq

section
variable {R : Type} [Mul R] [Div R] [NatCast R] [Transc R]
/-- `10**x` -/
def pow10 (x : R) : R := Transc.exp (x * Transc.log ((10 : Nat) : R))
/-- `utils.idb`: `10**(x/10)` -/
def idb (x : R) : R := pow10 (x / ((10 : Nat) : R))
end

/-! ### Python strings -/

/-- `str.lower()` on one (ASCII) character -/
def lowerChar (c : Char) : Char := if 65 ≤ c.toNat ∧ c.toNat ≤ 90 then Char.ofNat (c.toNat + 32) else c
/-- `str.lower()` -/
def lower (s : List Char) : List Char := s.map lowerChar

def isPrefix : List Char → List Char → Bool
  | [], _ => true
  | _ :: _, [] => false
  | a :: as, b :: bs => a == b && isPrefix as bs

/-- `p in s` for Python strings -/
def hasSub (p : List Char) : List Char → Bool
  | [] => p.isEmpty
  | c :: cs => isPrefix p (c :: cs) || hasSub p cs

/-- `"a" in s or "b" in s …` -/
def anyIn (pats : List String) (s : List Char) : Bool := pats.any fun p => hasSub p.toList s

/-! ### Python values -/

/-- a Python object as far as `isinstance(v, (int, float))` and arithmetic see it: the names of the classes in `type(v).__mro__`
    and, for real scalars, the value -/
structure PyVal (R : Type) where
  mro : List String
  val : Option R

/-- `isinstance(v, types)` -/
def PyVal.isInstance {R : Type} (v : PyVal R) (types : List String) : Bool := types.any fun t => v.mro.contains t

/-- what is handed to `PD` as `input` -/
inductive Input (α : Type) where
  | optical (x : Pd.Field α)
  /-- anything that is not an `optical_signal` -/
  | other

/-- one call `np.random.normal(loc, scale, size)` -/
structure Req (R : Type) where
  loc : R
  scale : R
  size : Nat

/-- the `electrical_signal(signal=…, noise=…)` handed to `LPF` (volts) -/
structure Pre (R : Type) where
  sig : List R
  noise : List R

/-- RNG requests made (also when an exception follows) and the outcome -/
structure Res (R : Type) where
  reqs : List (Req R)
  out : Except Wire.Err (Pre R)

section
variable {R : Type} [Add R] [Sub R] [Mul R] [Div R] [Neg R] [NatCast R] [IntCast R] [Transc R]
  [LT R] [LE R] [DecidableLT R] [DecidableLE R]

/-- a translated literal -/
def ofRat (q : Rat) : R := ((q.num : Int) : R) / ((q.den : Nat) : R)

/-- one rejecting comparison `v OP literal` of the translated validation ladder; `none` for an operator the model does not know -/
def cmpOp (op : String) (v c : R) : Option Bool :=
  if op = "le" then some (decide (v ≤ c)) else
  if op = "lt" then some (decide (v < c)) else
  if op = "ge" then some (decide (c ≤ v)) else
  if op = "gt" then some (decide (c < v)) else none

/-- `v OP₁ c₁ or v OP₂ c₂ …` -/
def rejects : List (String × Rat) → R → Option Bool
  | [], _ => some false
  | (op, c) :: rest, v =>
    match cmpOp op v (ofRat c), rejects rest v with
    | some a, some b => some (a || b)
    | _, _ => none

/-- `if not isinstance(v, types): raise terr  elif <rejects>: raise verr` -/
def checkNum (types : List String) (terr : Wire.Err) (rej : List (String × Rat)) (verr : Wire.Err) (v : PyVal R) :
    Except Wire.Err R :=
  if !v.isInstance types then .error terr else
  match v.val with
  | none => .error .Other          -- an int/float instance always has a value: cannot come from the harness
  | some x =>
    match rejects rej x with
    | none => .error .Other
    | some true => .error verr
    | some false => .ok x

/-! ### sample-wise quantities -/

/-- `np.abs(z)` -/
def cabs (z : Cx R) : R := Transc.sqrt z.normSq

def zipAdd (a b : List R) : List R := List.zipWith (· + ·) a b

/-- `r * input.abs(·) ** 2`, then `.sum(axis=0)` for two polarisations (formula translated: `Gen.PdTable.iSig`) -/
def iSig (r : R) : Rows (Cx R) → List R
  | .one a => a.map fun z => Gen.PdTable.iSig r (cabs z)
  | .two a b => zipAdd (a.map fun z => Gen.PdTable.iSig r (cabs z)) (b.map fun z => Gen.PdTable.iSig r (cabs z))

/-- `r * input.abs('noise') ** 2`, summed over polarisations (`Gen.PdTable.iNN`) -/
def iNN (r : R) : Rows (Cx R) → List R
  | .one a => a.map fun z => Gen.PdTable.iNN r (cabs z)
  | .two a b => zipAdd (a.map fun z => Gen.PdTable.iNN r (cabs z)) (b.map fun z => Gen.PdTable.iNN r (cabs z))

/-- `(s * n.conj() + n * s.conj()).real` -/
def beat (s n : Cx R) : R := (s * n.conj + n * s.conj).re

/-- `r * (signal * noise.conj() + noise * signal.conj()).real`, summed over polarisations -/
def iSN (r : R) : Rows (Cx R) → Rows (Cx R) → List R
  | .one s, .one n => List.zipWith (fun a b => r * beat a b) s n
  | .two sx sy, .two nx ny =>
    zipAdd (List.zipWith (fun a b => r * beat a b) sx nx) (List.zipWith (fun a b => r * beat a b) sy ny)
  | _, _ => []      -- signal and noise of an `optical_signal` always have the same shape

/-- `np.sum` -/
def sumL (xs : List R) : R := xs.foldl (· + ·) ((0 : Nat) : R)
/-- `np.mean` -/
def mean (xs : List R) : R := sumL xs / ((xs.length : Nat) : R)

/-- `input.power('noise').sum()`: mean of `abs(noise)**2` per polarisation, added over polarisations -/
def noisePowerSum : Rows (Cx R) → R
  | .one a => mean (a.map fun z => cabs z * cabs z)
  | .two a b => mean (a.map fun z => cabs z * cabs z) + mean (b.map fun z => cabs z * cabs z)

/-- `i_ase` of the shot block -/
def iAse (r : R) : Option (Rows (Cx R)) → R
  | none => ofRat Gen.PdTable.iAseNoNoise
  | some nz => Gen.PdTable.iAse r (noisePowerSum nz)

/-- thermal-noise variance in A² (`Gen.PdTable.sT` with `idb(Fn)`) -/
def sigma2T (kB T fs Fn Rl : R) : R := Gen.PdTable.sT kB T fs (idb Fn) Rl
/-- shot-noise variance in A² (`Gen.PdTable.sN`) -/
def sigma2N (e r iDark fs : R) (x : Pd.Field (Cx R)) : R :=
  Gen.PdTable.sN e (mean (iSig r x.sig)) (iAse r x.noise) iDark fs

/-- the candidate terms of `i_noise`, by the variable names of the source; `none` = the variable is unbound
    (its block did not run) -/
structure Terms (R : Type) where
  i_s_n : Option (List R)
  i_n_n : Option (List R)
  i_T : Option (List R)
  i_N : Option (List R)
  i_dark : R

def Terms.get (n : Nat) (t : Terms R) (name : String) : Option (List R) :=
  if name = "i_s_n" then t.i_s_n else
  if name = "i_n_n" then t.i_n_n else
  if name = "i_T" then t.i_T else
  if name = "i_N" then t.i_N else
  if name = "i_dark" then some (List.replicate n t.i_dark) else none   -- scalar, broadcast by numpy

/-- `a + b + c …` left to right -/
def sumTerms (n : Nat) (t : Terms R) : List String → Option (List R)
  | [] => none
  | first :: rest =>
    rest.foldl (fun acc name =>
      match acc, t.get n name with
      | some a, some b => some (zipAdd a b)
      | _, _ => none) (t.get n first)

/-- the `if include_noise == … elif …` ladder -/
def lookup (s : List Char) : List (String × List String) → Option (List String)
  | [] => none
  | (k, v) :: rest => if s = k.toList then some v else lookup s rest

/-- everything the code decides from the (lower-cased) string: do the thermal / shot / ase blocks run, and which branch of
    the ladder is taken -/
structure Decoded where
  thOn : Bool
  shOn : Bool
  aseOn : Bool
  names : Option (List String)
deriving DecidableEq, Repr

def decode (s : List Char) : Decoded :=
  { thOn := anyIn Gen.PdTable.thermalTriggers s
    shOn := anyIn Gen.PdTable.shotTriggers s
    aseOn := anyIn Gen.PdTable.aseTriggers s
    names := lookup s Gen.PdTable.ladder }

/-- `i_s_n` / `i_n_n` of the ase block (zeros when the input carries no noise) -/
def snOf (r : R) (x : Pd.Field (Cx R)) : List R :=
  match x.noise with
  | some nz => iSN r x.sig nz
  | none => List.replicate x.sig.len (((0 : Nat) : R))
def nnOf (r : R) (x : Pd.Field (Cx R)) : List R :=
  match x.noise with
  | some nz => iNN r nz
  | none => List.replicate x.sig.len (((0 : Nat) : R))

/-- the body of `PD` after validation, as a function of what it reads from the input:
    `n = input.len()`, `isig = i_sig`, `sn = i_s_n`, `nn = i_n_n`, `iase = i_ase` -/
def pdCore (kB e fs : R) (T Rl iDark Fn : R) (sel : List Char) (dT dN : List R)
    (n : Nat) (isig sn nn : List R) (iase : R) : Res R :=
  let d := decode (lower sel)
  let sdT := Transc.sqrt (sigma2T kB T fs Fn Rl)
  let sdN := Transc.sqrt (Gen.PdTable.sN e (mean isig) iase iDark fs)
  let reqs : List (Req R) := Gen.PdTable.blockOrder.filterMap fun b =>
    if b = "thermal" ∧ d.thOn then some ⟨ofRat Gen.PdTable.thermalLoc, sdT, n⟩
    else if b = "shot" ∧ d.shOn then some ⟨ofRat Gen.PdTable.shotLoc, sdN, n⟩
    else none
  -- outside the statement (the model never divides by zero): no samples, or thermal noise into a zero load
  if n = 0 then ⟨[], .error .Other⟩ else
  if d.thOn ∧ ¬ (((0 : Nat) : R) < Rl) then ⟨[], .error .Other⟩ else
  -- the recorded draws have `input.len()` samples
  if (d.thOn ∧ dT.length ≠ n) ∨ (d.shOn ∧ dN.length ≠ n) then ⟨reqs, .error .Other⟩ else
  let terms : Terms R :=
    { i_s_n := if d.aseOn then some sn else none
      i_n_n := if d.aseOn then some nn else none
      i_T := if d.thOn then some dT else none
      i_N := if d.shOn then some dN else none
      i_dark := iDark }
  match d.names with
  | none => ⟨reqs, .error Gen.PdTable.ladderElseErr⟩
  | some names =>
    match sumTerms n terms names with
    | none => ⟨reqs, .error .Other⟩          -- unbound variable (cannot happen with the documented ladder: theorem)
    | some inoise => ⟨reqs, .ok ⟨isig.map (· * Rl), inoise.map (· * Rl)⟩⟩

def pdBody (kB e fs : R) (r T Rl iDark Fn : R) (sel : List Char) (dT dN : List R) (x : Pd.Field (Cx R)) : Res R :=
  pdCore kB e fs T Rl iDark Fn sel dT dN x.sig.len (iSig r x.sig) (snOf r x) (nnOf r x) (iAse r x.noise)

/-- `PD(input, BW, r, T, R_load, include_noise, i_dark, Fn)` up to the call of `LPF`.
    Order of the checks as in the source: input, r, T, R_load, include_noise. -/
def pd (kB e fs : R) (r T Rl : PyVal R) (sel : Option (List Char)) (iDark Fn : R) (dT dN : List R) :
    Input (Cx R) → Res R
  | .other => ⟨[], .error Gen.PdTable.inputErr⟩
  | .optical x =>
    match checkNum Gen.PdTable.rTypes Gen.PdTable.rTypeErr Gen.PdTable.rReject Gen.PdTable.rRangeErr r with
    | .error err => ⟨[], .error err⟩
    | .ok rv =>
    match checkNum Gen.PdTable.tTypes Gen.PdTable.tTypeErr Gen.PdTable.tReject Gen.PdTable.tRangeErr T with
    | .error err => ⟨[], .error err⟩
    | .ok tv =>
    match checkNum Gen.PdTable.rLoadTypes Gen.PdTable.rLoadTypeErr Gen.PdTable.rLoadReject Gen.PdTable.rLoadRangeErr Rl with
    | .error err => ⟨[], .error err⟩
    | .ok rl =>
    match sel with
    | none => ⟨[], .error Gen.PdTable.selTypeErr⟩
    | some s => pdBody kB e fs rv tv rl iDark Fn s dT dN x

/-- the value returned by `PD`: the filter applied to the signal part and, alike, to the noise part -/
def pdOut (F : List R → List R) (p : Pre R) : Pre R := ⟨F p.sig, F p.noise⟩

end

/-! ### line protocol -/
namespace W
open Wire

def rows : P (Rows (Cx Float)) := do
  let np ← nat
  if np == 1 then pure (.one (← list cx))
  else if np == 2 then do let a ← list cx; let b ← list cx; pure (.two a b)
  else throw "npol"

/-- `<npol> <row>… <hasNoise:1|0> [<npol> <row>…]` -/
def field : P (Pd.Field (Cx Float)) := do
  let s ← rows
  let hn ← bool
  if hn then pure ⟨s, some (← rows)⟩ else pure ⟨s, none⟩

def pyVal : P (PyVal Float) := do
  let mro ← list tok
  let hv ← bool
  if hv then pure ⟨mro, some (← float)⟩ else pure ⟨mro, none⟩

def optStr : P (Option (List Char)) := do
  let k ← tok
  if k == "s" then do
    let cps ← list nat
    pure (some (cps.map Char.ofNat))
  else if k == "o" then pure none
  else throw "optStr"

def fReqs (rs : List (Req Float)) : String :=
  fList (fun q : Req Float => fF q.loc ++ " " ++ fF q.scale ++ " " ++ toString q.size) rs
end W

-- @handler OptiVerif.Pd.handle
/-- `pd.run <opt:1|0> <kB> <e> <fs> <r> <T> <R_load> <sel> <i_dark> <Fn> <dT> <dN> [<field>]`
      ->  `ok <reqs> <signal> <noise>`  |  `err <E> <reqs>`      (values handed to LPF, in volts)
    `pd.sigma <kB> <e> <fs> <r> <T> <R_load> <i_dark> <Fn> <field>`  ->  `ok <S_T> <S_N>` (variances in A²) -/
def handle : List String → Option String
  | "pd.run" :: args =>
    some <| match Wire.run (do
        let isOpt ← Wire.bool
        let kB ← Wire.float; let e ← Wire.float; let fs ← Wire.float
        let r ← W.pyVal; let t ← W.pyVal; let rl ← W.pyVal
        let sel ← W.optStr
        let idark ← Wire.float; let fn ← Wire.float
        let dT ← Wire.list Wire.float; let dN ← Wire.list Wire.float
        let inp ← if isOpt then (do let x ← W.field; pure (Input.optical x)) else pure Input.other
        pure (kB, e, fs, r, t, rl, sel, idark, fn, dT, dN, inp)) args with
    | .error e => "bad-op " ++ e
    | .ok (kB, e, fs, r, t, rl, sel, idark, fn, dT, dN, inp) =>
      let res := pd kB e fs r t rl sel idark fn dT dN inp
      match res.out with
      | .error err => Wire.err err ++ " " ++ W.fReqs res.reqs
      | .ok p => Wire.ok (W.fReqs res.reqs ++ " " ++ Wire.fFList p.sig ++ " " ++ Wire.fFList p.noise)
  | "pd.sigma" :: args =>
    some <| match Wire.run (do
        let kB ← Wire.float; let e ← Wire.float; let fs ← Wire.float
        let r ← Wire.float; let t ← Wire.float; let rl ← Wire.float
        let idark ← Wire.float; let fn ← Wire.float
        let x ← W.field
        pure (kB, e, fs, r, t, rl, idark, fn, x)) args with
    | .error e => "bad-op " ++ e
    | .ok (kB, e, fs, r, t, rl, idark, fn, x) =>
      Wire.ok (Wire.fF (sigma2T kB t fs fn rl) ++ " " ++ Wire.fF (sigma2N e r idark fs x))
  | _ => none

end OptiVerif.Pd
