/-
Model of `opticomlib.utils.dec2bin` (utils.py:52-88).  Core Lean only.

    binary = np.zeros(digits, np.uint8)
    if num > 2**digits-1: raise ValueError
    i = digits - 1
    while num > 0 and i >= 0:
        binary[i] = num % 2
        num //= 2
        i -= 1
    return binary
-/
import OptiVerif.Model.Wire

namespace OptiVerif.Dec2bin
open OptiVerif

/-- the `while` loop with fuel; state = (`num`, `i`, `binary`).  `num > 0` inside the loop, so Python's
    `%` and `//` are the natural-number ones. -/
def loop : Nat → Nat → Int → List Nat → List Nat
  | 0, _, _, b => b
  | f+1, num, i, b =>
    if num > 0 ∧ i ≥ 0 then loop f (num / 2) (i - 1) (b.set i.toNat (num % 2)) else b

/-- `dec2bin(num, digits)` for integer arguments; `fuel` bounds the loop (the loop needs `digits` rounds at most) -/
def dec2binFuel (fuel : Nat) (num digits : Int) : Except Wire.Err (List Nat) :=
  if digits < 0 then .error .ValueError            -- np.zeros(negative)
  else
    let d := digits.toNat
    if num > 2 ^ d - 1 then .error .ValueError
    else .ok (loop fuel num.toNat (digits - 1) (List.replicate d 0))

def dec2bin (num digits : Int) : Except Wire.Err (List Nat) := dec2binFuel digits.toNat num digits

-- @handler OptiVerif.Dec2bin.handle
/-- line protocol: `dec2bin <num> <digits>` → `ok <bits as a digit string, '-' when empty>` -/
def handle : List String → Option String
  | "dec2bin" :: args =>
    some <| match Wire.run (do let v ← Wire.int; let d ← Wire.int; pure (v, d)) args with
    | .error e => "bad-op " ++ e
    | .ok (v, d) =>
      match dec2bin v d with
      | .error e => Wire.err e
      | .ok bits => Wire.ok (if bits.isEmpty then "-" else Wire.fBits bits)
  | _ => none

end OptiVerif.Dec2bin
