/-
Model of the unit conversions and elementary functions of `opticomlib.utils`
(`db`, `dbm`, `idb`, `idbm` utils.py:274-412, `gaus`, `Q` utils.py:415-515, `rcos` utils.py:760-822).
Core Lean only.  Every definition is written once over a generic carrier `R`
(`Model/Num.lean`): executed at `Float` by the driver, reasoned about at `ℝ` in `Lemmas/ConvReal.lean`.

`scipy.special.erfc` is a library call, hence a *parameter* of `Q` (DESIGN.md §2.2): the harness spies the
argument and the value, the theorems assume the defining property of `erfc` (`Lemmas/GaussQ.lean`).
-/
import OptiVerif.Model.Num

set_option linter.unusedSectionVars false

namespace OptiVerif.Conv
open OptiVerif

section
variable {R : Type} [Add R] [Sub R] [Mul R] [Div R] [Neg R] [NatCast R] [Transc R]
  [LT R] [LE R] [DecidableLT R] [DecidableLE R]

/-- numeric literal -/
@[reducible] def lit (n : Nat) : R := ((n : Nat) : R)

/-- `np.log10` -/
def log10 (x : R) : R := Transc.log x / Transc.log (lit 10 : R)

/-- `10**y` -/
def pow10 (y : R) : R := Transc.exp (y * Transc.log (lit 10 : R))

/-- `10*np.log10(x)` -/
def db (x : R) : R := lit 10 * log10 x

/-- `10*np.log10(x*1e3)` -/
def dbm (x : R) : R := lit 10 * log10 (x * lit 1000)

/-- `10**(x/10)` -/
def idb (x : R) : R := pow10 (x / lit 10)

/-- `10**(x/10-3)` -/
def idbm (x : R) : R := pow10 (x / lit 10 - lit 3)

/-- `db` with its validation: `if (x<0).any(): raise ValueError` -/
def dbE (x : R) : Except Wire.Err R := if x < lit 0 then .error .ValueError else .ok (db x)

/-- `dbm` with its validation -/
def dbmE (x : R) : Except Wire.Err R := if x < lit 0 then .error .ValueError else .ok (dbm x)

/-- `0.5` -/
def half : R := lit 1 / lit 2

/-- the argument handed to `sp.erfc`: `x/2**0.5` -/
def qArg (x : R) : R := x / Transc.sqrt (lit 2 : R)

/-- `0.5*sp.erfc(x/2**0.5)`; `erfc` is a parameter -/
def Q (erfc : R → R) (x : R) : R := half * erfc (qArg x)

/-- `1/std/(2*pi)**0.5*np.exp(-0.5*(x-mu)**2/std**2)` -/
def gaus (x mu std : R) : R :=
  lit 1 / std / Transc.sqrt (lit 2 * Transc.pi) * Transc.exp (-half * ((x - mu) * (x - mu)) / (std * std))

/-- `np.abs` -/
def abs (x : R) : R := if x < lit 0 then -x else x

/-- `rcos(x, alpha, T)`: the scalar branch
    `1 if first_condition else 0 if third_condition else 0.5*(1+np.cos(pi*T/alpha*(np.abs(x)-(1-alpha)/(2*T))))`;
    the array branch computes the same three cases element-wise (for `alpha = 0` the middle case is empty). -/
def rcos (x alpha T : R) : R :=
  let ax := abs x
  let lo := (lit 1 - alpha) / (lit 2 * T)
  let hi := (lit 1 + alpha) / (lit 2 * T)
  if ax ≤ lo then lit 1
  else if hi < ax then lit 0
  else half * (lit 1 + Transc.cos (Transc.pi * T / alpha * (ax - lo)))

end

open Wire in
/-- one float in, one float (or error) out -/
def unary (f : Float → Except Wire.Err Float) (args : List String) : String :=
  match Wire.run Wire.float args with
  | .error e => "bad-op " ++ e
  | .ok x => match f x with
    | .ok y => Wire.ok (Wire.fF y)
    | .error e => Wire.err e

-- @handler OptiVerif.Conv.handle
/-- line protocol: `conv.db x`, `conv.dbm x`, `conv.idb x`, `conv.idbm x`, `conv.q x erfcValue` (replies the
    argument of erfc and the result), `conv.gaus x mu std`, `conv.rcos x alpha T`; floats as bit patterns -/
def handle : List String → Option String
  | "conv.db" :: args => some (unary dbE args)
  | "conv.dbm" :: args => some (unary dbmE args)
  | "conv.idb" :: args => some (unary (fun x => .ok (idb x)) args)
  | "conv.idbm" :: args => some (unary (fun x => .ok (idbm x)) args)
  | "conv.q" :: args =>
    some <| match Wire.run (do let x ← Wire.float; let v ← Wire.float; pure (x, v)) args with
    | .error e => "bad-op " ++ e
    | .ok (x, v) => Wire.ok (Wire.fF (qArg x) ++ " " ++ Wire.fF (Q (fun _ => v) x))
  | "conv.gaus" :: args =>
    some <| match Wire.run (do let x ← Wire.float; let m ← Wire.float; let s ← Wire.float; pure (x, m, s)) args with
    | .error e => "bad-op " ++ e
    | .ok (x, m, s) => Wire.ok (Wire.fF (gaus x m s))
  | "conv.rcos" :: args =>
    some <| match Wire.run (do let x ← Wire.float; let a ← Wire.float; let t ← Wire.float; pure (x, a, t)) args with
    | .error e => "bad-op " ++ e
    | .ok (x, a, t) => Wire.ok (Wire.fF (rcos x a t))
  | _ => none

end OptiVerif.Conv
