/-
Wire format of the line protocol (DESIGN.md §2.4).  Core Lean only.
One request per line, whitespace separated tokens.  Integers in decimal, rationals `p/q`,
floats as the decimal value of their IEEE-754 bit pattern, lists length-prefixed.
-/
namespace OptiVerif.Wire

/-- error enum shared with the Python harness -/
inductive Err | ValueError | TypeError | NotImplemented | Buffer | Other | Fuel
  deriving Repr, DecidableEq, BEq

def Err.toString : Err → String
  | .ValueError => "ValueError" | .TypeError => "TypeError" | .NotImplemented => "NotImplemented"
  | .Buffer => "BufferError" | .Other => "Other" | .Fuel => "Fuel"

instance : ToString Err := ⟨Err.toString⟩

/-- token parser: state = remaining tokens -/
abbrev P := StateT (List String) (Except String)

def tok : P String := do
  match (← get) with
  | [] => throw "eof"
  | t :: ts => set ts; pure t

def nat : P Nat := do
  let t ← tok
  match t.toNat? with
  | some n => pure n
  | none => throw s!"nat:{t}"

def int : P Int := do
  let t ← tok
  match t.toInt? with
  | some n => pure n
  | none => throw s!"int:{t}"

/-- `none` or an integer -/
def optInt : P (Option Int) := do
  let t ← tok
  if t == "none" then pure none else
  match t.toInt? with
  | some n => pure (some n)
  | none => throw s!"optInt:{t}"

def float : P Float := do
  let n ← nat
  pure (Float.ofBits n.toUInt64)

def bool : P Bool := do
  let t ← tok
  if t == "1" then pure true else if t == "0" then pure false else throw s!"bool:{t}"

def list {α} (p : P α) : P (List α) := do
  let n ← nat
  let rec go : Nat → List α → P (List α)
    | 0, acc => pure acc.reverse
    | k+1, acc => do let x ← p; go k (x :: acc)
  go n []

def done : P Unit := do
  match (← get) with
  | [] => pure ()
  | t :: _ => throw s!"trailing:{t}"

def run {α} (p : P α) (toks : List String) : Except String α :=
  match (p <* done).run toks with
  | .ok (a, _) => .ok a
  | .error e => .error e

/-- rendering -/
def fF (x : Float) : String := toString x.toBits.toNat
def fList {α} (f : α → String) (xs : List α) : String :=
  String.intercalate " " (toString xs.length :: xs.map f)
def fBits (xs : List Nat) : String := String.join (xs.map toString)
def fBool (b : Bool) : String := if b then "1" else "0"

def ok (s : String) : String := "ok " ++ s
def err (e : Err) : String := "err " ++ e.toString

end OptiVerif.Wire
