/-
Exact integer model of `opticomlib.lab.SYNC` (lab.py:45-108) as it is NOW in /repo (lags 0 … l-1).  Core Lean only.

    signal_tx = np.kron(slots_tx, np.ones(sps));  l = signal_tx.size
    if len(signal_rx) < l: raise BufferError
    corr = fftconvolve(signal_rx[:2*l-1], signal_tx[l::-1], 'valid')      -- corr[i] = Σ_j rx[i+j]·tx[j],  i = 0 … l-1
    if max(corr) < 3*std(corr): raise ValueError
    i = argmax(corr);  return electrical_signal(signal_rx[i:-(l-i)]), i

`fftconvolve` is modelled as the exact correlation sum (on integer waveforms the floating error of the FFT is far
below the gap 1 between distinct correlation values).  The population standard deviation test is decided exactly:
`max < 3·std  ⇔  max < 0 ∨ max²·n² < 9·(n·Σc² − (Σc)²)`.
-/
import OptiVerif.Model.Wire

namespace OptiVerif.Sync
open OptiVerif

/-! The definitions are written once over a number type `R` (only `+ − × 0`, casts of naturals and a decidable `<`):
they are *executed* at `Int` (exact waveforms) and at `Rat` (noisy records: every double is a rational) and *proved
about* over every linearly ordered commutative ring (`Lemmas/PpgSync*.lean`). -/

section
variable {R : Type} [Add R] [Mul R] [OfNat R 0]

/-- `np.kron(slots, np.ones(sps))` -/
def kron (tx : List R) (sps : Nat) : List R := tx.flatMap (fun b => List.replicate sps b)

/-- Σ uᵢ·vᵢ over the common prefix -/
def dot : List R → List R → R
  | u :: us, v :: vs => u * v + dot us vs
  | _, _ => 0

/-- Σ xᵢ -/
def total : List R → R
  | [] => 0
  | x :: xs => x + total xs

/-- `corr[i] = Σ_j rx[:2l-1][i+j]·w[j]` for the `valid` lags -/
def corr (rx w : List R) : List R :=
  let r := rx.take (2 * w.length - 1)
  (List.range (r.length - w.length + 1)).map (fun i => dot (r.drop i) w)

variable [LT R] [DecidableLT R]

/-- first maximum of `x :: xs` scanned left to right: `(index, value)`; `i` = index of the next element -/
def argmaxFrom : List R → R → Nat → Nat → Nat × R
  | [], best, bi, _ => (bi, best)
  | x :: xs, best, bi, i => if best < x then argmaxFrom xs x i (i + 1) else argmaxFrom xs best bi (i + 1)

/-- `np.argmax` / `np.max` (first maximum); `none` for an empty array -/
def argmax : List R → Option (Nat × R)
  | [] => none
  | x :: xs => some (argmaxFrom xs x 0 1)

/-- the alignment step alone on the waveform `w = signal_tx`: BufferError for short records, otherwise the
    argmax over the lags -/
def lagW (rx w : List R) : Except Wire.Err Nat :=
  if rx.length < w.length then .error .Buffer
  else if w.length = 0 then .error .ValueError
  else
    match argmax (corr rx w) with
    | none => .error .ValueError
    | some (i, _) => .ok i

def syncLag (rx tx : List R) (sps : Nat) : Except Wire.Err Nat := lagW rx (kron tx sps)

variable [Sub R] [NatCast R]

/-- `np.max(corr) < 3*np.std(corr)` decided exactly -/
def rejects (c : List R) (mx : R) : Bool :=
  let n : R := (c.length : Nat)
  let s1 := total c
  let s2 := total (c.map (fun x => x * x))
  decide (mx < 0) || decide (mx * mx * n * n < ((9 : Nat) : R) * (n * s2 - s1 * s1))

structure Out (R : Type) where
  index : Nat
  signal : List R

def syncW (rx w : List R) : Except Wire.Err (Out R) :=
  let l := w.length
  if rx.length < l then .error .Buffer
  else if l = 0 then .error .ValueError
  else
    let c := corr rx w
    match argmax c with
    | none => .error .ValueError
    | some (i, mx) =>
      if rejects c mx then .error .ValueError
      else
        let s := (rx.drop i).take (rx.length - l)     -- signal_rx[i:-(l-i)]
        if s.isEmpty then .error .ValueError          -- electrical_signal refuses an empty array
        else .ok ⟨i, s⟩

/-- `SYNC(signal_rx, slots_tx, sps)` -/
def sync (rx tx : List R) (sps : Nat) : Except Wire.Err (Out R) := syncW rx (kron tx sps)

end

def ratTok : Wire.P Rat := do
  let t ← Wire.tok
  match t.splitOn "/" with
  | [p] => match p.toInt? with
    | some n => pure (n : Rat)
    | none => throw s!"rat:{t}"
  | [p, q] => match p.toInt?, q.toNat? with
    | some n, some d => if d == 0 then throw s!"rat:{t}" else pure (mkRat n d)
    | _, _ => throw s!"rat:{t}"
  | _ => throw s!"rat:{t}"

-- @handler OptiVerif.Sync.handle
/-- `ppg.syncq <sps> <tx list> <rx list of p/q>` → `ok i outlen` | `err E`: the same definitions run over `Rat`
    (noisy records; every double is a rational).
    `ppg.sync <sps> <tx list> <rx list>` → `ok i unique outlen max lhs rhs` (lhs < rhs ⇔ rejected when max ≥ 0);
    the harness checks `signal = rx[i : i+outlen]` itself -/
def handle : List String → Option String
  | "ppg.sync" :: args =>
    some <| match Wire.run (do let s ← Wire.int; let tx ← Wire.list Wire.int; let rx ← Wire.list Wire.int; pure (s, tx, rx)) args with
    | .error e => "bad-op " ++ e
    | .ok (s, tx, rx) =>
      if s ≤ 0 then Wire.err .ValueError else
      let w := kron tx s.toNat
      let c := corr rx w
      let info : String :=
        match argmax c with
        | none => "-"
        | some (_, mx) =>
          let n : Int := c.length
          let uniq := (c.filter (· == mx)).length == 1
          s!"{Wire.fBool uniq} {mx} {mx * mx * n * n} {9 * (n * (c.map (fun x => x * x)).sum - c.sum * c.sum)}"
      match sync rx tx s.toNat with
      | .error e => if rx.length < w.length || w.length = 0 then Wire.err e else s!"err {e} {info}"
      | .ok o => Wire.ok s!"{o.index} {o.signal.length} {info}"
  | "ppg.syncq" :: args =>
    some <| match Wire.run (do let s ← Wire.int; let tx ← Wire.list Wire.int; let rx ← Wire.list ratTok; pure (s, tx, rx)) args with
    | .error e => "bad-op " ++ e
    | .ok (s, tx, rx) =>
      if s ≤ 0 then Wire.err .ValueError else
      match sync rx (tx.map (fun (b : Int) => (b : Rat))) s.toNat with
      | .error e => Wire.err e
      | .ok o => Wire.ok s!"{o.index} {o.signal.length}"
  | _ => none

end OptiVerif.Sync
